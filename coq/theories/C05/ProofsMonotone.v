(* C05 — two training matrices whose split searches agree up to the VALUE of the threshold.

   Setting: x and x' have the same number of rows; the split searches find (on x) and find' (on x')
   return, for every node id / output / sample vector s, either both nothing or two candidates with the
   same feature, score and child outputs whose thresholds split the rows counted by s in the same way
   (`cand_rel`: true_part and false_part coincide).  This is what happens when feature columns are
   transformed by strictly increasing maps (ProofsMonotoneReg.v): the candidate thresholds are midpoints
   (a+b)/2 resp. (f a + f b)/2, which are NOT images of each other, but both lie between the same two
   neighbouring training values.

   Result (any number type, any output type, axiom-free):
   - `grow_tree_sim`: the two grown trees have the same node array up to the threshold values (`erase`:
     outputs, split features, presence of a threshold, scores, child indices) and the same depth, and one
     fit fails iff the other does;
   - `grow_tree_same_partition`: ONE family of ghost sample vectors G is consistent with both trees
     (`tree_consistent` on x and on x'): the partition of the training rows is the same;
   - `predict_training_same`: every training row of positive weight is predicted identically. *)
From Coq Require Import List Arith Bool Lia.
From SC Require Import Base.Num C05.Model C05.ProofsGrow C05.ProofsGrowFull C05.ProofsScale C05.ProofsPredict.
Import ListNotations.

Section Sim.
  Context {T A : Type} (O : Ops T) (a0 : A).
  Variables x x' : list (list T).
  Hypothesis len_x : length x' = length x.
  Variable msl : nat.
  Variables find find' : nat -> A -> list nat -> option (cand T A).
  Local Notation dn := (dnode a0).

  Definition thr_rel (s : list nat) (f : nat) (t' t : option T) : Prop :=
    true_part O x' s f t' = true_part O x s f t /\ false_part O x' s f t' = false_part O x s f t.
  Definition cand_rel (s : list nat) (c' c : cand T A) : Prop :=
    c_feat c' = c_feat c /\ c_score c' = c_score c /\ c_tco c' = c_tco c /\ c_fco c' = c_fco c /\
    thr_rel s (c_feat c) (Some (c_val c')) (Some (c_val c)).
  Definition ocand_rel (s : list nat) (o' o : option (cand T A)) : Prop :=
    match o', o with Some c', Some c => cand_rel s c' c | None, None => True | _, _ => False end.
  Hypothesis Hfind : forall id out s, ocand_rel s (find' id out s) (find id out s).

  (* a node without the value of its threshold *)
  Definition erase (nd : node T A) : A * nat * bool * option T * option nat * option nat :=
    (output nd, split_feature nd, match split_value nd with Some _ => true | None => false end,
     split_score nd, true_child nd, false_child nd).
  Definition ES (nodes' nodes : list (node T A)) : Prop := map erase nodes' = map erase nodes.

  Lemma ES_length n' n : ES n' n -> length n' = length n.
  Proof. intros H. apply (f_equal (@length _)) in H. rewrite !map_length in H. exact H. Qed.
  Lemma ES_nth n' n k : ES n' n -> erase (nth k n' dn) = erase (nth k n dn).
  Proof. intros H. rewrite <- !(map_nth erase). rewrite H. reflexivity. Qed.
  Lemma ES_set_nth n' n i v' v : ES n' n -> erase v' = erase v -> ES (set_nth n' i v') (set_nth n i v).
  Proof. intros H E. unfold ES. rewrite <- !set_nth_map, H, E. reflexivity. Qed.
  Lemma ES_app n' n m : ES n' n -> ES (n' ++ m) (n ++ m).
  Proof. intros H. unfold ES. rewrite !map_app, H. reflexivity. Qed.
  Lemma erase_fields nd' nd : erase nd' = erase nd ->
    output nd' = output nd /\ split_feature nd' = split_feature nd /\ split_score nd' = split_score nd /\
    true_child nd' = true_child nd /\ false_child nd' = false_child nd /\ leafb nd' = leafb nd.
  Proof. unfold erase, leafb. intros H. inversion H. repeat split; congruence. Qed.

  Lemma fbc_sim nodes' nodes id smp lvl :
    ES nodes' nodes -> id < length nodes ->
    exists n1' n1 v1 b,
      find_best_cutoff a0 find' nodes' (mkVis id smp a0 a0 lvl) = (n1', v1, b) /\
      find_best_cutoff a0 find nodes (mkVis id smp a0 a0 lvl) = (n1, v1, b) /\
      ES n1' n1 /\
      (forall k, k <> id -> nth k n1' dn = nth k nodes' dn /\ nth k n1 dn = nth k nodes dn) /\
      (b = true -> v_node v1 = id /\ v_samples v1 = smp /\
         thr_rel smp (split_feature (nth id n1 dn)) (split_value (nth id n1' dn)) (split_value (nth id n1 dn))).
  Proof.
    intros E Hid. pose proof (ES_length _ _ E) as HL. unfold find_best_cutoff. cbn [v_node v_samples v_level].
    destruct (erase_fields _ _ (ES_nth _ _ id E)) as (Eo & Ef & Es & Et & Efc & _).
    rewrite Eo. pose proof (Hfind id (output (nth id nodes dn)) smp) as HF. unfold ocand_rel in HF.
    destruct (find' id (output (nth id nodes dn)) smp) as [c'|];
      destruct (find id (output (nth id nodes dn)) smp) as [c|]; try contradiction.
    - destruct HF as (C1 & C2 & C3 & C4 & C5). rewrite C1, C2, C3, C4, Et, Efc.
      eexists. eexists. eexists. exists true. split; [reflexivity|]. split; [reflexivity|]. split.
      + apply ES_set_nth; [exact E|]. reflexivity.
      + split.
        * intros k Ne. rewrite !nth_set_nth_neq by exact Ne. auto.
        * intros _. cbn [v_node v_samples]. split; [reflexivity|]. split; [reflexivity|].
          rewrite !nth_set_nth_eq by lia. cbn [split_feature split_value]. exact C5.
    - eexists. eexists. eexists. exists false. split; [reflexivity|]. split; [reflexivity|]. split; [exact E|].
      split; [auto|discriminate].
  Qed.

  Lemma split_sim nodes' nodes depth v rest :
    ES nodes' nodes -> v_node v < length nodes ->
    thr_rel (v_samples v) (split_feature (nth (v_node v) nodes dn))
            (split_value (nth (v_node v) nodes' dn)) (split_value (nth (v_node v) nodes dn)) ->
    exists n1' n1 d1 q1,
      split O a0 x' msl find' nodes' depth v rest = (n1', d1, q1) /\
      split O a0 x msl find nodes depth v rest = (n1, d1, q1) /\
      ES n1' n1 /\
      (forall k, k < length nodes -> k <> v_node v -> nth k n1' dn = nth k nodes' dn /\ nth k n1 dn = nth k nodes dn) /\
      (forall w, In w q1 -> In w rest \/
         (length nodes <= v_node w /\
          thr_rel (v_samples w) (split_feature (nth (v_node w) n1 dn))
                  (split_value (nth (v_node w) n1' dn)) (split_value (nth (v_node w) n1 dn)))).
  Proof.
    intros E Hv [RT RF]. pose proof (ES_length _ _ E) as HL. unfold split.
    destruct (erase_fields _ _ (ES_nth _ _ (v_node v) E)) as (Eo & Ef & Es & Et & Efc & _).
    set (nd := nth (v_node v) nodes dn) in *. set (nd' := nth (v_node v) nodes' dn) in *.
    rewrite Ef, RT, RF, Eo, Et, Efc, Es, HL.
    set (tp := true_part O x (v_samples v) (split_feature nd) (split_value nd)).
    set (fp := false_part O x (v_samples v) (split_feature nd) (split_value nd)).
    destruct ((sum_nat tp <? msl) || (sum_nat fp <? msl)).
    - eexists. eexists. eexists. eexists. split; [reflexivity|]. split; [reflexivity|]. split.
      + apply ES_set_nth; [exact E|reflexivity].
      + split.
        * intros k _ Ne. rewrite !nth_set_nth_neq by exact Ne. auto.
        * intros w Hw. left. exact Hw.
    - set (ti := length nodes).
      set (m := [new_node (T:=T) (v_tco v); new_node (v_fco v)]).
      set (nodes2' := set_nth (nodes' ++ m) (v_node v)
                        (mkNode (output nd) (split_feature nd) (split_value nd') (split_score nd) (Some ti) (Some (S ti)))).
      set (nodes2 := set_nth (nodes ++ m) (v_node v)
                        (mkNode (output nd) (split_feature nd) (split_value nd) (split_score nd) (Some ti) (Some (S ti)))).
      assert (E2 : ES nodes2' nodes2).
      { apply ES_set_nth; [apply ES_app; exact E|].
        pose proof (ES_nth _ _ (v_node v) E) as En. fold nd nd' in En. unfold erase in En |- *. cbn.
        inversion En. reflexivity. }
      assert (len2 : length nodes2 = ti + 2).
      { unfold nodes2. rewrite set_nth_length, app_length. cbn. unfold ti. lia. }
      assert (Old2 : forall k, k < ti -> k <> v_node v -> nth k nodes2' dn = nth k nodes' dn /\ nth k nodes2 dn = nth k nodes dn).
      { intros k Hk Ne. unfold nodes2', nodes2. rewrite !nth_set_nth_neq by exact Ne.
        rewrite !app_nth1 by (unfold ti in Hk; lia). auto. }
      destruct (fbc_sim nodes2' nodes2 ti tp (S (v_level v)) E2) as (n3' & n3 & tv & tb & F1' & F1 & E3 & K3 & B3); [lia|].
      rewrite F1', F1.
      assert (len3 : length n3 = ti + 2).
      { unfold find_best_cutoff in F1. destruct (find _ _ _); inversion F1; subst; [rewrite set_nth_length|]; exact len2. }
      destruct (fbc_sim n3' n3 (S ti) fp (S (v_level v)) E3) as (n4' & n4 & fv & fb & F2' & F2 & E4 & K4 & B4); [lia|].
      rewrite F2', F2.
      eexists. eexists. eexists. eexists. split; [reflexivity|]. split; [reflexivity|]. split; [exact E4|]. split.
      + intros k Hk Ne. destruct (K4 k) as [A1 A2]; [lia|]. destruct (K3 k) as [A3 A4]; [lia|].
        destruct (Old2 k Hk Ne) as [A5 A6]. rewrite A1, A2, A3, A4. auto.
      + intros w Hw.
        assert (Hw' : In w rest \/ (tb = true /\ w = tv) \/ (fb = true /\ w = fv)).
        { destruct tb, fb; repeat (apply in_app_or in Hw as [Hw|Hw]); cbn in Hw; intuition. }
        destruct Hw' as [Hw'|[[Htb ->]|[Hfb ->]]]; [left; exact Hw'| |].
        * right. destruct (B3 Htb) as (N1 & S1 & R1). rewrite N1, S1. split; [lia|].
          destruct (K4 ti) as [A1 A2]; [lia|]. rewrite A1, A2. exact R1.
        * right. destruct (B4 Hfb) as (N1 & S1 & R1). rewrite N1, S1. split; [lia|]. exact R1.
  Qed.

  Definition QR (nodes' nodes : list (node T A)) (queue : list (visitor A)) : Prop :=
    forall w, In w queue ->
      thr_rel (v_samples w) (split_feature (nth (v_node w) nodes dn))
              (split_value (nth (v_node w) nodes' dn)) (split_value (nth (v_node w) nodes dn)).
  Definition res_rel (r' r : option (list (node T A) * nat)) : Prop :=
    match r', r with
    | Some (n', d'), Some (n, d) => ES n' n /\ d' = d
    | None, None => True
    | _, _ => False
    end.

  Let triv : list nat -> A -> Prop := fun _ _ => True.
  Lemma triv_ok : forall id out s c, find id out s = Some c -> triv s out ->
      triv (true_part O x s (c_feat c) (Some (c_val c))) (c_tco c) /\
      triv (false_part O x s (c_feat c) (Some (c_val c))) (c_fco c).
  Proof. unfold triv. auto. Qed.

  Lemma grow_sim s md : forall fuel nodes' nodes depth queue,
    state_inv O a0 x msl find triv s md nodes depth queue -> ES nodes' nodes -> QR nodes' nodes queue ->
    res_rel (grow O a0 x' msl find' fuel md nodes' depth queue) (grow O a0 x msl find fuel md nodes depth queue).
  Proof.
    induction fuel as [|f IH]; intros nodes' nodes depth queue SI E Q; cbn [grow].
    - destruct (depth <? md); [destruct queue|]; cbn; auto.
    - destruct (depth <? md) eqn:Hd; [|cbn; auto]. destruct queue as [|v rest]; [cbn; auto|].
      apply Nat.ltb_lt in Hd.
      assert (Hv : v_node v < length nodes /\ ~ In (v_node v) (map v_node rest) /\
                   forall w, In w rest -> v_node w < length nodes).
      { destruct SI as (G & D & _ & _ & Qi & ND). inversion Qi as [|? ? Qv Qr]; subst.
        cbn [map] in ND. inversion ND; subst. split; [exact (proj1 Qv)|]. split; [assumption|].
        intros w Hw. rewrite Forall_forall in Qr. exact (proj1 (Qr w Hw)). }
      destruct Hv as (Hv & NI & Hr).
      destruct (split_sim nodes' nodes depth v rest E Hv (Q v (or_introl eq_refl)))
        as (n1' & n1 & d1 & q1 & S' & S0 & E1 & K1 & Q1).
      rewrite S', S0. apply IH.
      + eapply (split_inv O a0 x msl find triv triv_ok); eauto.
      + exact E1.
      + intros w Hw. destruct (Q1 w Hw) as [Hw'|[_ R]]; [|exact R].
        destruct (K1 (v_node w)) as [A1 A2]; [apply Hr; exact Hw'| |].
        * intros Eq. apply NI. rewrite <- Eq. apply in_map. exact Hw'.
        * rewrite A1, A2. apply Q. right. exact Hw'.
  Qed.

  Lemma grow_tree_sim root_out samples md :
    res_rel (grow_tree O a0 x' msl find' root_out samples md) (grow_tree O a0 x msl find root_out samples md).
  Proof.
    unfold grow_tree. rewrite len_x.
    assert (E0 : ES [new_node (T:=T) root_out] [new_node root_out]) by reflexivity.
    destruct (fbc_sim [new_node root_out] [new_node root_out] 0 samples 1 E0) as (n1' & n1 & v1 & b & F' & F & E1 & K1 & B1);
      [cbn; lia|].
    rewrite F', F. fold (md_of md).
    assert (C0 : tree_consistent O a0 x msl triv samples [new_node root_out] (fun _ => samples) (fun _ => 0)).
    { constructor; cbn [length]; auto.
      - intros k Hk. left. assert (k = 0) as -> by lia. reflexivity.
      - intros k Hk. lia.
      - intros k Hk. lia.
      - intros k Hk. exact I. }
    assert (A1 : 0 < length [new_node (T:=T) (A:=A) root_out]) by (cbn; lia).
    assert (A2 : leafb (nth 0 [new_node (T:=T) root_out] dn) = true) by reflexivity.
    assert (A3 : ~ In 0 (map (v_node (A:=A)) [])) by (intros []).
    assert (A4 : forall k, k < length [new_node (T:=T) (A:=A) root_out] -> (fun _ : nat => 0) k <= md_of md) by (intros; lia).
    destruct (fbc_inv O a0 x msl find triv samples (md_of md) [new_node root_out] 0 [] 0 samples 1 n1 v1 b
                      (fun _ => samples) (fun _ => 0) C0 A4 (Forall_nil _) (NoDup_nil _) A1 A2 A3 eq_refl eq_refl
                      (Nat.le_refl _) F) as (C1 & len1 & Q1 & ND1 & _).
    apply grow_sim with (s := samples).
    - exists (fun _ => samples), (fun _ => 0). split; [exact C1|]. split; [rewrite len1; exact A4|]. split; [exact Q1|exact ND1].
    - exact E1.
    - intros w Hw. destruct b; [|destruct Hw]. cbn in Hw. destruct Hw as [<-|[]].
      destruct (B1 eq_refl) as (N1 & S1 & R1). rewrite N1, S1. exact R1.
  Qed.

  (* ---- one family of ghost sample vectors fits both trees ---- *)
  Let triv' := triv.
  Lemma triv_ok' : forall id out s c, find' id out s = Some c -> triv s out ->
      triv (true_part O x' s (c_feat c) (Some (c_val c))) (c_tco c) /\
      triv (false_part O x' s (c_feat c) (Some (c_val c))) (c_fco c).
  Proof. unfold triv. auto. Qed.

  Lemma grow_tree_same_partition root_out samples md nodes' nodes d' d :
    grow_tree O a0 x' msl find' root_out samples md = Some (nodes', d') ->
    grow_tree O a0 x msl find root_out samples md = Some (nodes, d) ->
    ES nodes' nodes /\ d' = d /\
    exists G D, tree_consistent O a0 x msl triv samples nodes G D /\
                tree_consistent O a0 x' msl triv samples nodes' G D.
  Proof.
    intros H' H. pose proof (grow_tree_sim root_out samples md) as R. rewrite H', H in R. destruct R as [E ->].
    split; [exact E|]. split; [reflexivity|].
    destruct (grow_tree_full O a0 x msl find triv triv_ok root_out samples md nodes d I H)
      as (G & D & C & _ & _ & FF & _).
    destruct (grow_tree_full O a0 x' msl find' triv triv_ok' root_out samples md nodes' d I H')
      as (G' & D' & C' & _ & _ & FF' & _).
    pose proof (ES_length _ _ E) as HL.
    assert (GD : forall k, k < length nodes -> G' k = G k /\ D' k = D k).
    { induction k as [k IH] using lt_wf_ind. intros Hk.
      destruct (Nat.eq_dec k 0) as [->|Nz].
      { rewrite (tc_rootG _ _ _ _ _ _ _ _ _ C), (tc_rootG _ _ _ _ _ _ _ _ _ C'),
                (tc_rootD _ _ _ _ _ _ _ _ _ C), (tc_rootD _ _ _ _ _ _ _ _ _ C'). auto. }
      destruct (tc_parent _ _ _ _ _ _ _ _ _ C k) as (j & Hj & Hc); [lia|].
      assert (Hjl : j < length nodes) by lia.
      destruct (IH j Hj Hjl) as [Gj Dj].
      destruct (erase_fields _ _ (ES_nth _ _ j E)) as (Eo & Ef & Es & Et & Efc & El).
      destruct (tc_nodes _ _ _ _ _ _ _ _ _ C j Hjl) as [L|(tc & I1 & I2 & I3 & I4 & I5 & I6 & I7 & I8)].
      { apply leafb_children in L as [E1 E2]. unfold is_child in Hc. rewrite E1, E2 in Hc. destruct Hc; discriminate. }
      assert (NL : leafb (nth j nodes dn) = false) by (unfold leafb; rewrite I1; reflexivity).
      destruct (tc_nodes _ _ _ _ _ _ _ _ _ C' j) as [L'|(tc' & J1 & J2 & J3 & J4 & J5 & J6 & J7 & J8)]; [lia|congruence|].
      rewrite Et, I1 in J1. inversion J1; subst tc'.
      destruct (FF j Hjl NL) as (c & Fc & Fcf & Fcv).
      destruct (FF' j) as (c' & Fc' & Fcf' & Fcv'); [lia|congruence|].
      pose proof (Hfind j (output (nth j nodes dn)) (G j)) as HF.
      rewrite Eo, Gj in Fc'. rewrite Fc', Fc in HF. destruct HF as (_ & _ & _ & _ & [RT RF]).
      rewrite Ef, Fcf, Fcv', Gj, RT in J5. rewrite Ef, Fcf, Fcv', Gj, RF in J6.
      rewrite Fcf, Fcv in I5, I6.
      unfold is_child in Hc. rewrite I1, I2 in Hc. destruct Hc as [Hc|Hc]; inversion Hc; subst k.
      - split; [congruence|]. rewrite I7, J7, Dj. reflexivity.
      - split; [congruence|]. rewrite I8, J8, Dj. reflexivity. }
    exists G, D. split; [exact C|].
    destruct C' as [c1 c2 c3 c4 c5 c6 c7].
    constructor.
    - exact c1.
    - transitivity (G' 0); [symmetry; apply GD; lia|exact c2].
    - transitivity (D' 0); [symmetry; apply GD; lia|exact c3].
    - intros k Hk. assert (Hk0 : k < length nodes) by lia.
      destruct (c4 k Hk) as [L|(tc & J1 & J2 & J3 & J4 & J5 & J6 & J7 & J8)]; [left; exact L|].
      right. exists tc.
      destruct (GD k Hk0) as [<- <-]. destruct (GD tc) as [<- <-]; [lia|]. destruct (GD (S tc)) as [<- <-]; [lia|].
      repeat split; assumption.
    - exact c5.
    - intros k Hk. destruct (GD k) as [<- _]; [lia|]. exact (c6 k Hk).
    - intros k Hk. exact I.
  Qed.

  Lemma predict_training_same root_out samples md nodes' nodes d' d i :
    grow_tree O a0 x' msl find' root_out samples md = Some (nodes', d') ->
    grow_tree O a0 x msl find root_out samples md = Some (nodes, d) ->
    i < length x -> 0 < nth i samples 0 ->
    predict_for_row O nodes' (nth i x' []) = predict_for_row O nodes (nth i x []).
  Proof.
    intros H' H Hi Pos.
    destruct (grow_tree_same_partition root_out samples md nodes' nodes d' d H' H) as (E & _ & G & D & C & C').
    pose proof (ES_length _ _ E) as HL.
    destruct (predict_training_row_structure O a0 x msl triv samples nodes G D i C Hi)
      as (k & _ & Hk & Lk & Pr & Gk & Oth & _).
    destruct (predict_training_row_structure O a0 x' msl triv samples nodes' G D i C')
      as (k' & _ & Hk' & Lk' & Pr' & Gk' & _); [rewrite len_x; exact Hi|].
    assert (k' = k) as ->.
    { destruct (Nat.eq_dec k' k) as [Eq|Ne]; [exact Eq|]. exfalso.
      assert (Z : nth i (G k') 0 = 0).
      { apply Oth; [lia| |exact Ne].
        destruct (erase_fields _ _ (ES_nth _ _ k' E)) as (_ & _ & _ & _ & _ & El). congruence. }
      lia. }
    rewrite Pr', Pr. destruct (erase_fields _ _ (ES_nth _ _ k E)) as (Eo & _). rewrite Eo. reflexivity.
  Qed.
End Sim.
