(* C05 — executable model of smartcore's decision trees
   (src/tree/decision_tree_regressor.rs, src/tree/decision_tree_classifier.rs,
    src/algorithm/sort/quick_sort.rs).  Definitions only; proofs are in Proofs*.v.

   Transliteration notes
   - generic in `Ops T` (Base/Num.v): `ROps` for theorems, `FOps` for execution on binary64.
   - a matrix is the list of its rows; `y` a list; `Vec<usize>` a `list nat`; `Err`/panic = `None`.
   - NaN: Rust starts the sweeps with `prevx = NaN` and tests `prevx.is_nan()`; here the initial
     state is `None` and a stored value v counts as NaN when `v == v` is false (`nanb`), which is
     what `is_nan` is for floats and is never the case over R.  `split_value.unwrap_or(NaN)` in a
     `<=` test is `false` for a missing value.
   - the two Rust files contain textually identical `split`, growth loop and `predict_for_row`
     (they differ only in the type of `output`); they are modelled once, generic in the output
     type `A` and in the split search `find` (Section Grow), and instantiated twice.
   - `find_best_split` keeps its running best in `nodes[visitor.node].{split_feature,split_value,
     split_score}` and `visitor.{true,false}_child_output`, which are only ever written together;
     the model carries them as one `option cand` and writes the node when the search returns.
   - `quick_argsort_mut` permutes the value vector and the index vector jointly (every swap and
     every assignment is applied to both); the model uses one list of (value, index) pairs.
     The explicit stack `istack`/`jstack` is a list of (l, ir) pairs; "stack size is too small"
     (more than 32 pairs) is `None`.
   - for reuse by the random forest (C06): the per-row sample counts `samples` (bootstrap weights)
     and the features tried at each node `vars : node id -> list of features` (the first `mtry`
     entries of the shuffled `variables`; `find_best_cutoff` is called exactly once per node id)
     are explicit arguments.  `DecisionTree*::fit` is the instance samples = all 1,
     vars = fun _ => [0; ...; p-1].
   - loops with data-dependent trip counts use explicit fuel (out of fuel = `None`). *)
From Coq Require Import List Arith ZArith Bool.
From SC Require Import Base.Num.
Import ListNotations.

(* ------------------------------------------------------------------------------------------ *)
(* small list utilities                                                                        *)
(* ------------------------------------------------------------------------------------------ *)
Definition set_nth {A} (l : list A) (i : nat) (v : A) : list A :=
  if i <? length l then firstn i l ++ v :: skipn (S i) l else l.
Definition sum_nat (l : list nat) : nat := fold_left Nat.add l 0.
Fixpoint mapM {A B} (f : A -> option B) (l : list A) : option (list B) :=
  match l with
  | [] => Some []
  | a :: t => match f a with
              | None => None
              | Some b => match mapM f t with None => None | Some r => Some (b :: r) end
              end
  end.

(* ------------------------------------------------------------------------------------------ *)
(* quick_argsort_mut                                                                           *)
(* ------------------------------------------------------------------------------------------ *)
Section Sort.
  Context {T : Type} (O : Ops T).
  Definition dpair : T * nat := (O.(o0), 0).
  Definition aget (arr : list (T * nat)) (i : nat) : T * nat := nth i arr dpair.
  Definition key (arr : list (T * nat)) (i : nat) : T := fst (aget arr i).
  Definition swap (arr : list (T * nat)) (i j : nat) : list (T * nat) :=
    set_nth (set_nth arr i (aget arr j)) j (aget arr i).

  (* while i >= l { if self[i] <= a {break}; self[i+1] = self[i]; i -= 1 }; self[i+1] = a
     with i1 = i + 1 and cnt = i1 - l *)
  Fixpoint ins_shift (arr : list (T * nat)) (a : T * nat) (cnt i1 : nat) : list (T * nat) :=
    match cnt with
    | 0 => set_nth arr i1 a
    | S c =>
        let i := i1 - 1 in
        if O.(oleb) (key arr i) (fst a) then set_nth arr i1 a
        else ins_shift (set_nth arr i1 (aget arr i)) a c i
    end.
  (* for j in l+1..=ir *)
  Definition insertion (arr : list (T * nat)) (l ir : nat) : list (T * nat) :=
    fold_left (fun arr j => ins_shift arr (aget arr j) (j - l) j) (seq (S l) (ir - l)) arr.

  (* loop { i += 1; if self[i] >= a {break} }   (index out of bounds = panic) *)
  Fixpoint scan_up (fuel : nat) (arr : list (T * nat)) (a : T) (i : nat) : option nat :=
    match fuel with
    | 0 => None
    | S f => let i' := S i in
             if i' <? length arr then
               if O.(oleb) a (key arr i') then Some i' else scan_up f arr a i'
             else None
    end.
  (* loop { j -= 1; if self[j] <= a {break} } *)
  Fixpoint scan_down (fuel : nat) (arr : list (T * nat)) (a : T) (j : nat) : option nat :=
    match fuel with
    | 0 => None
    | S f => match j with
             | 0 => None
             | S j' => if j' <? length arr then
                         if O.(oleb) (key arr j') a then Some j' else scan_down f arr a j'
                       else None
             end
    end.
  Fixpoint part_loop (fuel : nat) (arr : list (T * nat)) (a : T) (i j : nat)
    : option (list (T * nat) * nat * nat) :=
    match fuel with
    | 0 => None
    | S f =>
        match scan_up (length arr) arr a i with
        | None => None
        | Some i' =>
            match scan_down (length arr) arr a j with
            | None => None
            | Some j' => if j' <? i' then Some (arr, i', j')
                         else part_loop f (swap arr i' j') a i' j'
            end
        end
    end.

  Fixpoint qs_loop (fuel : nat) (arr : list (T * nat)) (l ir : nat) (stack : list (nat * nat))
    : option (list (T * nat)) :=
    match fuel with
    | 0 => None
    | S f =>
        if ir - l <? 7 then
          let arr' := insertion arr l ir in
          match stack with
          | [] => Some arr'
          | (l', ir') :: st => qs_loop f arr' l' ir' st
          end
        else
          let k := Nat.div2 (l + ir) in
          let arr1 := swap arr k (l + 1) in
          let arr2 := if O.(oltb) (key arr1 ir) (key arr1 l) then swap arr1 l ir else arr1 in
          let arr3 := if O.(oltb) (key arr2 ir) (key arr2 (l + 1)) then swap arr2 (l + 1) ir else arr2 in
          let arr4 := if O.(oltb) (key arr3 (l + 1)) (key arr3 l) then swap arr3 l (l + 1) else arr3 in
          let ab := aget arr4 (l + 1) in
          match part_loop (length arr4) arr4 (fst ab) (l + 1) ir with
          | None => None
          | Some (arr5, i, j) =>
              let arr6 := set_nth arr5 (l + 1) (aget arr5 j) in
              let arr7 := set_nth arr6 j ab in
              if 32 <=? length stack then None
              else if j - l <=? ir - i + 1 then qs_loop f arr7 l (j - 1) ((i, ir) :: stack)
              else qs_loop f arr7 i ir ((l, j - 1) :: stack)
          end
    end.

  Definition quick_argsort (col : list T) : option (list nat) :=
    match col with
    | [] => None                                   (* self.len() - 1 underflows *)
    | _ => let n := length col in
           option_map (map snd) (qs_loop (2 * n + 2) (combine col (seq 0 n)) 0 (n - 1) [])
    end.
End Sort.

(* ------------------------------------------------------------------------------------------ *)
(* nodes, visitors, candidates                                                                 *)
(* ------------------------------------------------------------------------------------------ *)
Record node (T A : Type) := mkNode {
  output : A; split_feature : nat; split_value : option T; split_score : option T;
  true_child : option nat; false_child : option nat }.
Arguments mkNode {T A}. Arguments output {T A}. Arguments split_feature {T A}.
Arguments split_value {T A}. Arguments split_score {T A}. Arguments true_child {T A}.
Arguments false_child {T A}.

Record visitor (A : Type) := mkVis {
  v_node : nat; v_samples : list nat; v_tco : A; v_fco : A; v_level : nat }.
Arguments mkVis {A}. Arguments v_node {A}. Arguments v_samples {A}. Arguments v_tco {A}.
Arguments v_fco {A}. Arguments v_level {A}.

(* the running best of find_best_split: feature, threshold, score, outputs of the two children *)
Record cand (T A : Type) := mkCand {
  c_feat : nat; c_val : T; c_score : T; c_tco : A; c_fco : A }.
Arguments mkCand {T A}. Arguments c_feat {T A}. Arguments c_val {T A}. Arguments c_score {T A}.
Arguments c_tco {T A}. Arguments c_fco {T A}.

Definition new_node {T A} (o : A) : node T A := mkNode o 0 None None None None.

Section Access.
  Context {T : Type} (O : Ops T).
  Definition getx (x : list (list T)) (i j : nat) : T := nth j (nth i x []) O.(o0).
  Definition rowget (row : list T) (j : nat) : T := nth j row O.(o0).
  Definition column (x : list (list T)) (j : nat) : list T := map (fun r => rowget r j) x.
  Definition nanb (v : T) : bool := negb (O.(oeqb) v v).
  (* x <= split_value.unwrap_or(NaN) *)
  Definition le_thr (v : T) (thr : option T) : bool :=
    match thr with Some t => O.(oleb) v t | None => false end.
  Definition argsort_columns (x : list (list T)) (p : nat) : option (list (list nat)) :=
    mapM (fun j => quick_argsort O (column x j)) (seq 0 p).
End Access.

(* ------------------------------------------------------------------------------------------ *)
(* split, breadth-first growth, predict_for_row : common to both trees                         *)
(* ------------------------------------------------------------------------------------------ *)
Section Grow.
  Context {T A : Type} (O : Ops T) (a0 : A).
  Variable x : list (list T).
  Variable msl : nat.
  (* the split search of find_best_cutoff: node id, node output, samples -> best candidate *)
  Variable find : nat -> A -> list nat -> option (cand T A).

  Definition dnode : node T A := new_node a0.

  Definition find_best_cutoff (nodes : list (node T A)) (v : visitor A)
    : list (node T A) * visitor A * bool :=
    let nd := nth v.(v_node) nodes dnode in
    match find v.(v_node) nd.(output) v.(v_samples) with
    | None => (nodes, v, false)
    | Some c =>
        (set_nth nodes v.(v_node)
           (mkNode nd.(output) c.(c_feat) (Some c.(c_val)) (Some c.(c_score))
                   nd.(true_child) nd.(false_child)),
         mkVis v.(v_node) v.(v_samples) c.(c_tco) c.(c_fco) v.(v_level), true)
    end.

  Definition goes_true (samples : list nat) (feat : nat) (thr : option T) (i : nat) : bool :=
    (0 <? nth i samples 0) && le_thr O (getx O x i feat) thr.
  Definition true_part (samples : list nat) (feat : nat) (thr : option T) : list nat :=
    map (fun i => if goes_true samples feat thr i then nth i samples 0 else 0) (seq 0 (length x)).
  Definition false_part (samples : list nat) (feat : nat) (thr : option T) : list nat :=
    map (fun i => if goes_true samples feat thr i then 0 else nth i samples 0) (seq 0 (length x)).

  Definition split (nodes : list (node T A)) (depth : nat) (v : visitor A) (queue : list (visitor A))
    : list (node T A) * nat * list (visitor A) :=
    let nd := nth v.(v_node) nodes dnode in
    let true_samples := true_part v.(v_samples) nd.(split_feature) nd.(split_value) in
    let false_samples := false_part v.(v_samples) nd.(split_feature) nd.(split_value) in
    let tc := sum_nat true_samples in
    let fc := sum_nat false_samples in
    if (tc <? msl) || (fc <? msl) then
      (set_nth nodes v.(v_node) (mkNode nd.(output) 0 None None nd.(true_child) nd.(false_child)),
       depth, queue)
    else
      let ti := length nodes in
      let fi := S ti in
      let nodes1 := nodes ++ [new_node v.(v_tco); new_node v.(v_fco)] in
      let nodes2 := set_nth nodes1 v.(v_node)
                      (mkNode nd.(output) nd.(split_feature) nd.(split_value) nd.(split_score)
                              (Some ti) (Some fi)) in
      let depth' := Nat.max depth (S v.(v_level)) in
      let '(nodes3, tv, tb) := find_best_cutoff nodes2 (mkVis ti true_samples a0 a0 (S v.(v_level))) in
      let queue1 := if tb then queue ++ [tv] else queue in
      let '(nodes4, fv, fb) := find_best_cutoff nodes3 (mkVis fi false_samples a0 a0 (S v.(v_level))) in
      let queue2 := if fb then queue1 ++ [fv] else queue1 in
      (nodes4, depth', queue2).

  (* while tree.depth < max_depth { match queue.pop_front() { Some(v) => split(v), None => break } } *)
  Fixpoint grow (fuel : nat) (max_depth : nat) (nodes : list (node T A)) (depth : nat)
           (queue : list (visitor A)) : option (list (node T A) * nat) :=
    if depth <? max_depth then
      match queue with
      | [] => Some (nodes, depth)
      | v :: rest =>
          match fuel with
          | 0 => None
          | S f => let '(nodes', depth', queue') := split nodes depth v rest in
                   grow f max_depth nodes' depth' queue'
          end
      end
    else Some (nodes, depth).

  (* the part of fit_weak_learner after the root and the orders have been built *)
  Definition grow_tree (root_out : A) (samples : list nat) (max_depth : option nat)
    : option (list (node T A) * nat) :=
    let '(nodes, v, b) := find_best_cutoff [new_node root_out] (mkVis 0 samples a0 a0 1) in
    grow (2 * length x + 2) (match max_depth with Some d => d | None => 65535 end)
         nodes 0 (if b then [v] else []).

  (* predict_for_row: the queue always holds exactly one node id *)
  Fixpoint predict_walk (fuel : nat) (nodes : list (node T A)) (row : list T) (id : nat) : option A :=
    match fuel with
    | 0 => None
    | S f =>
        match nth_error nodes id with
        | None => None
        | Some nd =>
            match nd.(true_child), nd.(false_child) with
            | None, None => Some nd.(output)
            | tc, fc =>
                if le_thr O (rowget O row nd.(split_feature)) nd.(split_value)
                then match tc with Some c => predict_walk f nodes row c | None => None end
                else match fc with Some c => predict_walk f nodes row c | None => None end
            end
        end
    end.
  Definition predict_for_row (nodes : list (node T A)) (row : list T) : option A :=
    predict_walk (length nodes) nodes row 0.
End Grow.

(* ------------------------------------------------------------------------------------------ *)
(* DecisionTreeRegressor                                                                       *)
(* ------------------------------------------------------------------------------------------ *)
Section Regressor.
  Context {T : Type} (O : Ops T).
  Variable x : list (list T).
  Variable y : list T.
  Variable order : list (list nat).
  Variables msl mss : nat.
  Variable vars : nat -> list nat.

  Definition ofn (n : nat) : T := O.(oofZ) (Z.of_nat n).
  Definition gety (i : nat) : T := nth i y O.(o0).

  Record rsweep := mkRS { rs_sum : T; rs_cnt : nat; rs_prev : option T; rs_best : option (cand T T) }.

  Definition reg_step (samples : list nat) (n : nat) (sum parent_gain : T) (j : nat)
             (st : rsweep) (i : nat) : rsweep :=
    let w := nth i samples 0 in
    if 0 <? w then
      let xi := getx O x i j in
      let acc best := mkRS (O.(oadd) st.(rs_sum) (O.(omul) (ofn w) (gety i))) (st.(rs_cnt) + w)
                           (Some xi) best in
      let first := match st.(rs_prev) with
                   | None => true
                   | Some px => nanb O px || O.(oeqb) xi px
                   end in
      if first then acc st.(rs_best)
      else
        let px := match st.(rs_prev) with Some px => px | None => O.(o0) end in
        let tc := st.(rs_cnt) in
        let fc := n - tc in
        if (tc <? msl) || (fc <? msl) then acc st.(rs_best)
        else
          let tm := O.(odiv) st.(rs_sum) (ofn tc) in
          let fm := O.(odiv) (O.(osub) sum st.(rs_sum)) (ofn fc) in
          let gain := O.(osub) (O.(oadd) (O.(omul) (O.(omul) (ofn tc) tm) tm)
                                         (O.(omul) (O.(omul) (ofn fc) fm) fm)) parent_gain in
          let better := match st.(rs_best) with
                        | None => true
                        | Some c => O.(oltb) c.(c_score) gain
                        end in
          if better then
            acc (Some (mkCand j (O.(odiv) (O.(oadd) xi px) (O.(oofZ) 2)) gain tm fm))
          else acc st.(rs_best)
    else st.

  Definition reg_find_best_split (samples : list nat) (n : nat) (sum parent_gain : T)
             (best : option (cand T T)) (j : nat) : option (cand T T) :=
    rs_best (fold_left (reg_step samples n sum parent_gain j) (nth j order [])
                       (mkRS O.(o0) 0 None best)).

  Definition reg_find (id : nat) (out : T) (samples : list nat) : option (cand T T) :=
    let n := sum_nat samples in
    if n <? mss then None
    else
      let sum := O.(omul) out (ofn n) in
      let parent_gain := O.(omul) (O.(omul) (ofn n) out) out in
      fold_left (reg_find_best_split samples n sum parent_gain) (vars id) None.
End Regressor.

Section RegressorFit.
  Context {T : Type} (O : Ops T).

  (* n and sum of the root:  for (i, s) in samples.iter().enumerate().take(y_ncols) *)
  Definition root_stats (y : list T) (samples : list nat) : nat * T :=
    fold_left (fun '(n, s) i => (n + nth i samples 0,
                                 O.(oadd) s (O.(omul) (ofn O (nth i samples 0)) (nth i y O.(o0)))))
              (seq 0 (Nat.min (length samples) (length y))) (0, O.(o0)).

  Definition fit_regressor_with_order (x : list (list T)) (y : list T) (samples : list nat)
             (vars : nat -> list nat) (order : list (list nat))
             (max_depth : option nat) (msl mss : nat) : option (list (node T T) * nat) :=
    let '(n, sum) := root_stats y samples in
    grow_tree O O.(o0) x msl (reg_find O x y order msl mss vars)
              (O.(odiv) sum (ofn O n)) samples max_depth.

  (* fit_weak_learner *)
  Definition fit_regressor_weak (x : list (list T)) (y : list T) (samples : list nat)
             (vars : nat -> list nat) (max_depth : option nat) (msl mss : nat)
    : option (list (node T T) * nat) :=
    match argsort_columns O x (length (hd [] x)) with
    | None => None
    | Some order => fit_regressor_with_order x y samples vars order max_depth msl mss
    end.

  (* DecisionTreeRegressor::fit *)
  Definition fit_regressor (x : list (list T)) (y : list T) (max_depth : option nat) (msl mss : nat) :=
    fit_regressor_weak x y (repeat 1 (length x)) (fun _ => seq 0 (length (hd [] x))) max_depth msl mss.

  Definition predict_regressor (nodes : list (node T T)) (rows : list (list T)) : option (list T) :=
    mapM (predict_for_row O nodes) rows.
End RegressorFit.

(* ------------------------------------------------------------------------------------------ *)
(* DecisionTreeClassifier                                                                      *)
(* ------------------------------------------------------------------------------------------ *)
Inductive criterion := Gini | Entropy | ClassificationError.

Definition which_max (l : list nat) : nat :=
  match l with
  | [] => 0                                         (* x[0] panics; never empty (k >= 2) *)
  | m0 :: t =>
      snd (fold_left (fun '(m, w) '(i, v) => if m <? v then (v, i) else (m, w))
                     (combine (seq 1 (length t)) t) (m0, 0))
  end.
Definition add_at (l : list nat) (i w : nat) : list nat := set_nth l i (nth i l 0 + w).

Section Classifier.
  Context {T : Type} (O : Ops T).
  Variable lg2 : T -> T.                            (* p.log2() *)
  Variable crit : criterion.
  Variable x : list (list T).
  Variable yi : list nat.                           (* class index of each row *)
  Variable k : nat.                                 (* num_classes *)
  Variable order : list (list nat).
  Variables msl mss : nat.
  Variable vars : nat -> list nat.

  Definition impurity (count : list nat) (n : nat) : T :=
    match crit with
    | Gini =>
        fold_left (fun imp c => if 0 <? c then
                                  let p := O.(odiv) (ofn O c) (ofn O n) in O.(osub) imp (O.(omul) p p)
                                else imp) count O.(o1)
    | Entropy =>
        fold_left (fun imp c => if 0 <? c then
                                  let p := O.(odiv) (ofn O c) (ofn O n) in O.(osub) imp (O.(omul) p (lg2 p))
                                else imp) count O.(o0)
    | ClassificationError =>
        let m := fold_left (fun imp c => if 0 <? c then omax O imp (O.(odiv) (ofn O c) (ofn O n)) else imp)
                           count O.(o0) in
        O.(oabs) (O.(osub) O.(o1) m)
    end.

  Definition gety_c (i : nat) : nat := nth i yi 0.

  Record csweep := mkCS { cs_cnt : list nat; cs_prevx : option T; cs_prevy : nat;
                          cs_best : option (cand T nat) }.

  Definition cls_step (samples : list nat) (n : nat) (count : list nat) (parent_impurity : T) (j : nat)
             (st : csweep) (i : nat) : csweep :=
    let w := nth i samples 0 in
    if 0 <? w then
      let xi := getx O x i j in
      let yc := gety_c i in
      let acc best := mkCS (add_at st.(cs_cnt) yc w) (Some xi) yc best in
      let first := match st.(cs_prevx) with
                   | None => true
                   | Some px => nanb O px || O.(oeqb) xi px
                   end || (yc =? st.(cs_prevy)) in
      if first then acc st.(cs_best)
      else
        let px := match st.(cs_prevx) with Some px => px | None => O.(o0) end in
        let tc := sum_nat st.(cs_cnt) in
        let fc := n - tc in
        if (tc <? msl) || (fc <? msl) then acc st.(cs_best)
        else
          let false_count := map (fun l => nth l count 0 - nth l st.(cs_cnt) 0) (seq 0 k) in
          let true_label := which_max st.(cs_cnt) in
          let false_label := which_max false_count in
          let gain :=
            O.(osub)
              (O.(osub) parent_impurity
                        (O.(omul) (O.(odiv) (ofn O tc) (ofn O n)) (impurity st.(cs_cnt) tc)))
              (O.(omul) (O.(odiv) (ofn O fc) (ofn O n)) (impurity false_count fc)) in
          let better := match st.(cs_best) with
                        | None => true
                        | Some c => O.(oltb) c.(c_score) gain
                        end in
          if better then
            acc (Some (mkCand j (O.(odiv) (O.(oadd) xi px) (O.(oofZ) 2)) gain true_label false_label))
          else acc st.(cs_best)
    else st.

  Definition cls_find_best_split (samples : list nat) (n : nat) (count : list nat) (parent_impurity : T)
             (best : option (cand T nat)) (j : nat) : option (cand T nat) :=
    cs_best (fold_left (cls_step samples n count parent_impurity j) (nth j order [])
                       (mkCS (repeat 0 k) None 0 best)).

  (* label = None; is_pure = true; for i in 0..n_rows { if samples[i] > 0 { ... } } *)
  Definition is_pure (samples : list nat) : bool :=
    snd (fold_left (fun '(label, pure) i =>
                      if pure && (0 <? nth i samples 0) then
                        match label with
                        | None => (Some (gety_c i), true)
                        | Some l => if gety_c i =? l then (label, true) else (label, false)
                        end
                      else (label, pure))
                   (seq 0 (length x)) (None, true)).

  Definition class_counts (samples : list nat) : list nat :=
    fold_left (fun cnt i => if 0 <? nth i samples 0 then add_at cnt (gety_c i) (nth i samples 0) else cnt)
              (seq 0 (length x)) (repeat 0 k).

  Definition cls_find (id : nat) (out : nat) (samples : list nat) : option (cand T nat) :=
    if is_pure samples then None
    else
      let n := sum_nat samples in
      if n <=? mss then None
      else
        let count := class_counts samples in
        let parent_impurity := impurity count n in
        fold_left (cls_find_best_split samples n count parent_impurity) (vars id) None.
End Classifier.

Section ClassifierFit.
  Context {T : Type} (O : Ops T).
  Variable lg2 : T -> T.

  (* y_m.unique(): sort_by(partial_cmp) then dedup() *)
  Fixpoint insert_T (v : T) (l : list T) : list T :=
    match l with
    | [] => [v]
    | h :: t => if O.(oltb) v h then v :: l else h :: insert_T v t
    end.
  Fixpoint dedup_T (l : list T) : list T :=
    match l with
    | [] => []
    | a :: t => match t with
                | [] => [a]
                | b :: _ => if O.(oeqb) a b then dedup_T t else a :: dedup_T t
                end
    end.
  Definition unique_T (l : list T) : list T := dedup_T (fold_left (fun acc v => insert_T v acc) l []).
  (* classes.iter().position(|c| yc == *c).unwrap() *)
  Fixpoint position_T (v : T) (l : list T) : option nat :=
    match l with
    | [] => None
    | c :: t => if O.(oeqb) v c then Some 0 else option_map S (position_T v t)
    end.

  Definition root_counts (yi : list nat) (samples : list nat) (k : nat) : list nat :=
    fold_left (fun cnt i => add_at cnt (nth i yi 0) (nth i samples 0)) (seq 0 (length yi)) (repeat 0 k).

  Definition fit_classifier_with_order (crit : criterion) (x : list (list T)) (yi : list nat) (k : nat)
             (samples : list nat) (vars : nat -> list nat) (order : list (list nat))
             (max_depth : option nat) (msl mss : nat) : option (list (node T nat) * nat) :=
    grow_tree O 0 x msl (cls_find O lg2 crit x yi k order msl mss vars)
              (which_max (root_counts yi samples k)) samples max_depth.

  (* fit_weak_learner: returns (classes, nodes, depth) *)
  Definition fit_classifier_weak (crit : criterion) (x : list (list T)) (y : list T)
             (samples : list nat) (vars : nat -> list nat) (max_depth : option nat) (msl mss : nat)
    : option (list T * list (node T nat) * nat) :=
    let classes := unique_T y in
    let k := length classes in
    if k <? 2 then None
    else
      match mapM (fun v => position_T v classes) y with
      | None => None
      | Some yi =>
          match argsort_columns O x (length (hd [] x)) with
          | None => None
          | Some order =>
              match fit_classifier_with_order crit x yi k samples vars order max_depth msl mss with
              | None => None
              | Some (nodes, depth) => Some (classes, nodes, depth)
              end
          end
      end.

  Definition fit_classifier (crit : criterion) (x : list (list T)) (y : list T)
             (max_depth : option nat) (msl mss : nat) :=
    fit_classifier_weak crit x y (repeat 1 (length x)) (fun _ => seq 0 (length (hd [] x))) max_depth msl mss.

  (* predict: classes[predict_for_row(x, i)] *)
  Definition predict_classifier (classes : list T) (nodes : list (node T nat)) (rows : list (list T))
    : option (list T) :=
    mapM (fun row => match predict_for_row O nodes row with
                     | None => None
                     | Some c => nth_error classes c
                     end) rows.
End ClassifierFit.

(* ------------------------------------------------------------------------------------------ *)
(* executable well-formedness test of a node array (hypothesis of the routing theorem; the     *)
(* correspondence check evaluates it on the implementation's serialised trees)                 *)
(* ------------------------------------------------------------------------------------------ *)
Definition wf_nodeb {T A} (len : nat) (k : nat) (nd : node T A) : bool :=
  match nd.(true_child), nd.(false_child) with
  | None, None => true
  | Some tc, Some fc => (k <? tc) && (k <? fc) && (tc <? len) && (fc <? len)
  | _, _ => false
  end.
Definition wf_treeb {T A} (nodes : list (node T A)) : bool :=
  (0 <? length nodes) &&
  forallb (fun kn => wf_nodeb (length nodes) (fst kn) (snd kn)) (combine (seq 0 (length nodes)) nodes).
