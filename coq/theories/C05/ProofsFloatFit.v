(* C05 — the rounding theorems of ProofsFloat.v carried to DecisionTreeRegressor::fit / DecisionTreeClassifier::fit
   in binary64.  The hypothesis `sorted_order (RX x)` of ProofsFloat (the visiting orders sort the real values of
   the columns) is discharged from the EXECUTABLE test `orders_okb x` of C05/Corr.v — the very test the
   correspondence check evaluates inside Coq on every whole-tree case: the index vectors returned by the model's
   quick_argsort at FOps are permutations (permb) whose consecutive entries are ordered by the binary64 `<=`
   (sortedb); on finite data that is `sorted_order` of the real values.
     orders_okb_sorted              orders_okb x = true, x finite  ->  every computed order sorts its column
     fit_regressor_float_partition  / fit_classifier_float_partition
         every internal node of the tree fitted in binary64 partitions its rows as the exact test at the real
         midpoint of two consecutive counted values (`float_tree_partition`, = the conclusion of
         ProofsFloat.grown_tree_float_partition). *)
From Coq Require Import List Arith ZArith Bool Reals Floats Lra Lia Sorting.Sorted Sorting.Permutation RelationClasses.
From SC Require Import Base.FloatUtil Base.Num Base.FloatError C05.Model C05.Corr C05.ProofsReg C05.ProofsGrow
                       C05.ProofsSorted C05.ProofsFloat.
Import ListNotations.
Local Open Scope nat_scope.

Lemma nth_column x j a : nth a (column FOps x j) 0%float = getx FOps x a j.
Proof.
  unfold column, getx.
  replace 0%float with (rowget FOps [] j) at 1 by (unfold rowget; destruct j; reflexivity).
  exact (map_nth (fun r => rowget FOps r j) x [] a).
Qed.

(* ---- sortedb: consecutive entries are ordered ---- *)
Lemma sortedb_fold col : forall t a ok,
  snd (fold_left (fun '(prev, ok) b => (b, ok && PrimFloat.leb (nth prev col 0%float) (nth b col 0%float))) t (a, ok)) = true ->
  ok = true /\ Sorted (fun p q => PrimFloat.leb (nth p col 0%float) (nth q col 0%float) = true) (a :: t).
Proof.
  induction t as [|b t IH]; intros a ok H; cbn [fold_left snd] in H.
  - split; [exact H|]. constructor; constructor.
  - destruct (IH _ _ H) as [E S]. apply andb_prop in E as [E1 E2]. split; [exact E1|].
    constructor; [exact S|]. constructor. exact E2.
Qed.

Lemma sortedb_Sorted col idx : sortedb col idx = true ->
  Sorted (fun p q => PrimFloat.leb (nth p col 0%float) (nth q col 0%float) = true) idx.
Proof.
  destruct idx as [|a t]; [constructor|]. unfold sortedb. intros H. apply (sortedb_fold col t a true H).
Qed.

(* ---- permb: a permutation of 0..n-1 ---- *)
Lemma permb_perm n idx : permb n idx = true -> Permutation idx (seq 0 n).
Proof.
  unfold permb. intros H. apply andb_prop in H as [L I]. apply Nat.eqb_eq in L.
  apply Permutation_sym. apply NoDup_Permutation_bis.
  - apply seq_NoDup.
  - rewrite seq_length. lia.
  - intros i Hi. rewrite forallb_forall in I. specialize (I i Hi).
    apply existsb_exists in I as (k & Hk & E). apply Nat.eqb_eq in E. subst k. exact Hk.
Qed.

Lemma sorted_order_of_bool x j idx : Forall (Forall ffin) x ->
  permb (length x) idx = true -> sortedb (column FOps x j) idx = true -> sorted_order (RX x) j idx.
Proof.
  intros Hx P S. split.
  - rewrite RX_length. apply permb_perm, P.
  - apply Sorted_StronglySorted.
    + intros a b c H1 H2. eapply Rle_trans; eassumption.
    + apply sortedb_Sorted in S. clear P. induction S as [|a l S IH Hd]; [constructor|]. constructor; [exact IH|].
      destruct Hd as [|b l Hab]; constructor.
      rewrite !X_RX. rewrite !nth_column in Hab.
      apply (fleb_true _ _ (getx_ffin x a j Hx) (getx_ffin x b j Hx)). exact Hab.
Qed.

Theorem orders_okb_sorted x order : Forall (Forall ffin) x -> orders_okb x = true ->
  argsort_columns FOps x (length (hd [] x)) = Some order ->
  forall j, j < length (hd [] x) -> sorted_order (RX x) j (nth j order []).
Proof.
  intros Hx Hok H j Hj. unfold argsort_columns in H. apply mapM_nth in H as [L N]. rewrite seq_length in L, N.
  specialize (N j 0 [] Hj). rewrite seq_nth in N by exact Hj. cbn [Nat.add] in N.
  unfold orders_okb in Hok. rewrite forallb_forall in Hok.
  specialize (Hok j ltac:(apply in_seq; lia)). rewrite N in Hok. apply andb_prop in Hok as [P S].
  apply sorted_order_of_bool; assumption.
Qed.

(* ---- the conclusion of ProofsFloat.grown_tree_float_partition, named ---- *)
Definition float_tree_partition {A} (a0 : A) (x : list (list PrimFloat.float)) (msl : nat) (samples : list nat)
           (nodes : list (node PrimFloat.float A)) : Prop :=
  exists G D, tree_consistent FOps a0 x msl (fun _ _ => True) samples nodes G D /\
    forall n, n < length nodes -> leafb (nth n nodes (dnode a0)) = false ->
      let nd := nth n nodes (dnode a0) in
      exists t i0 i tc,
        split_value nd = Some t /\ true_child nd = Some tc /\ false_child nd = Some (S tc) /\
        G tc = true_part FOps x (G n) (split_feature nd) (Some t) /\
        G (S tc) = false_part FOps x (G n) (split_feature nd) (Some t) /\
        mid_of_rows x (G n) (split_feature nd) t i0 i /\
        let a := getx FOps x i0 (split_feature nd) in
        let b := getx FOps x i (split_feature nd) in
        (ffin (b + a)%float ->
         (FR a <= FR t <= FR b)%R /\
         ((exists c : PrimFloat.float, (FR a < FR c < FR b)%R) -> (FR a < FR t < FR b)%R) /\
         ((FR t < FR b)%R ->
          G tc = true_part ROps (RX x) (G n) (split_feature nd) (Some ((FR a + FR b) / 2)%R) /\
          G (S tc) = false_part ROps (RX x) (G n) (split_feature nd) (Some ((FR a + FR b) / 2)%R))).

Theorem fit_regressor_float_partition x y md msl mss nodes d :
  Forall (Forall ffin) x -> orders_okb x = true ->
  fit_regressor FOps x y md msl mss = Some (nodes, d) ->
  float_tree_partition 0%float x msl (repeat 1 (length x)) nodes.
Proof.
  intros Hx Hok H. unfold fit_regressor, fit_regressor_weak in H.
  destruct (argsort_columns FOps x (length (hd [] x))) as [order|] eqn:E; [|discriminate].
  unfold fit_regressor_with_order in H. destruct (root_stats FOps y (repeat 1 (length x))) as [n sum].
  refine (grown_tree_float_partition _ x msl _ _ _ md nodes d Hx _ H).
  apply reg_find_mid; [exact Hx|]. intros id j Hj. apply in_seq in Hj.
  apply (orders_okb_sorted x order Hx Hok E). lia.
Qed.

Theorem fit_classifier_float_partition lg2 crit x y md msl mss classes nodes d :
  Forall (Forall ffin) x -> orders_okb x = true ->
  fit_classifier FOps lg2 crit x y md msl mss = Some (classes, nodes, d) ->
  float_tree_partition 0 x msl (repeat 1 (length x)) nodes.
Proof.
  intros Hx Hok H. unfold fit_classifier, fit_classifier_weak in H. cbv zeta in H.
  destruct (length (unique_T FOps y) <? 2); [discriminate|].
  destruct (mapM (fun v => position_T FOps v (unique_T FOps y)) y) as [yi|]; [|discriminate].
  destruct (argsort_columns FOps x (length (hd [] x))) as [order|] eqn:E; [|discriminate].
  destruct (fit_classifier_with_order FOps lg2 crit x yi (length (unique_T FOps y)) (repeat 1 (length x))
              (fun _ => seq 0 (length (hd [] x))) order md msl mss) as [[nodes' d']|] eqn:F; [|discriminate].
  inversion H; subst classes nodes' d'. unfold fit_classifier_with_order in F.
  refine (grown_tree_float_partition _ x msl _ _ _ md nodes d Hx _ F).
  apply cls_find_mid; [exact Hx|]. intros id j Hj. apply in_seq in Hj.
  apply (orders_okb_sorted x order Hx Hok E). lia.
Qed.
