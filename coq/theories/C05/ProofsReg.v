From Coq Require Import List Arith ZArith Bool Lia Reals Lra Permutation Sorted.
From SC Require Import Base.Num C05.Model C05.ProofsGrow.
Import ListNotations.
Open Scope R_scope.

(* ---------- finite sums over index lists ---------- *)
Fixpoint rsum (f : nat -> R) (l : list nat) : R := match l with [] => 0 | r :: t => f r + rsum f t end.
Fixpoint nsum (f : nat -> nat) (l : list nat) : nat := match l with [] => 0%nat | r :: t => (f r + nsum f t)%nat end.

Lemma rsum_app f l1 l2 : rsum f (l1 ++ l2) = rsum f l1 + rsum f l2.
Proof. induction l1; cbn; [lra|]. rewrite IHl1. lra. Qed.
Lemma nsum_app f l1 l2 : nsum f (l1 ++ l2) = (nsum f l1 + nsum f l2)%nat.
Proof. induction l1; cbn; [lia|]. rewrite IHl1. lia. Qed.
Lemma rsum_perm f l l' : Permutation l l' -> rsum f l = rsum f l'.
Proof. induction 1; cbn; try lra. Qed.
Lemma nsum_perm f l l' : Permutation l l' -> nsum f l = nsum f l'.
Proof. induction 1; cbn; try lia. Qed.
Lemma rsum_ext f g l : (forall r, In r l -> f r = g r) -> rsum f l = rsum g l.
Proof. induction l; cbn; intros H; [reflexivity|]. rewrite (H a), IHl; auto. Qed.
Lemma nsum_ext f g l : (forall r, In r l -> f r = g r) -> nsum f l = nsum g l.
Proof. induction l; cbn; intros H; [reflexivity|]. rewrite (H a), IHl; auto. Qed.
Lemma rsum_zero f l : (forall r, In r l -> f r = 0) -> rsum f l = 0.
Proof. induction l; cbn; intros H; [reflexivity|]. rewrite (H a), IHl; auto. lra. Qed.
Lemma nsum_zero f l : (forall r, In r l -> f r = 0%nat) -> nsum f l = 0%nat.
Proof. induction l; cbn; intros H; [reflexivity|]. rewrite (H a), IHl; auto. Qed.
Lemma rsum_plus f g l : rsum (fun r => f r + g r) l = rsum f l + rsum g l.
Proof. induction l; cbn; [lra|]. rewrite IHl. lra. Qed.
Lemma nsum_plus f g l : nsum (fun r => (f r + g r)%nat) l = (nsum f l + nsum g l)%nat.
Proof. induction l; cbn; [lia|]. rewrite IHl. lia. Qed.

Lemma sum_nat_map f l : sum_nat (map f l) = nsum f l.
Proof.
  unfold sum_nat. induction l; cbn; [reflexivity|]. rewrite sum_nat_acc, IHl. lia.
Qed.
Lemma list_as_map (s : list nat) : s = map (fun i => nth i s 0%nat) (seq 0 (length s)).
Proof.
  induction s as [|a t IH]; cbn; [reflexivity|]. f_equal. rewrite <- seq_shift, map_map. exact IH.
Qed.
Lemma sum_nat_nsum s n : length s = n -> sum_nat s = nsum (fun i => nth i s 0%nat) (seq 0 n).
Proof. intros <-. rewrite (list_as_map s) at 1. apply sum_nat_map. Qed.

Definition IZN (n : nat) : R := IZR (Z.of_nat n).
Lemma IZN_plus a b : IZN (a + b) = IZN a + IZN b.
Proof. unfold IZN. rewrite Nat2Z.inj_add, plus_IZR. reflexivity. Qed.
Lemma IZN_pos n : (0 < n)%nat -> 0 < IZN n.
Proof. intros. unfold IZN. apply IZR_lt. lia. Qed.
Lemma IZN_nsum f l : IZN (nsum f l) = rsum (fun r => IZN (f r)) l.
Proof. induction l; cbn; [reflexivity|]. rewrite IZN_plus, IHl. reflexivity. Qed.
Lemma IZN_sub a b : (b <= a)%nat -> IZN (a - b) = IZN a - IZN b.
Proof. intros. unfold IZN. rewrite Nat2Z.inj_sub, minus_IZR; auto. Qed.

Lemma StronglySorted_mid {A} (R : A -> A -> Prop) l1 a l2 :
  StronglySorted R (l1 ++ a :: l2) -> Forall (fun b => R b a) l1 /\ Forall (R a) l2.
Proof.
  induction l1 as [|h t IH]; cbn; intros H.
  - apply StronglySorted_inv in H as [_ H]. split; auto.
  - apply StronglySorted_inv in H as [H1 H2]. apply IH in H1 as [I1 I2]. split; auto.
    constructor; auto. rewrite Forall_forall in H2. apply H2. apply in_or_app. right. left. reflexivity.
Qed.

(* ---------- which rows go to the true side of a threshold between two neighbours of a sorted order ---------- *)
Section Partition.
  Variable x : list (list R).
  Let N := length x.
  Definition X (j r : nat) : R := getx ROps x r j.
  Definition sorted_order (j : nat) (ord : list nat) : Prop :=
    Permutation ord (seq 0 N) /\ StronglySorted (fun a b => X j a <= X j b) ord.

  Lemma order_lt j ord r : sorted_order j ord -> In r ord -> (r < N)%nat.
  Proof. intros [P _] H. apply (Permutation_in _ P) in H. apply in_seq in H. lia. Qed.

  Lemma partition_true s j ord pre i suf px thr :
    sorted_order j ord -> ord = pre ++ i :: suf ->
    (forall r, In r pre -> (0 < nth r s 0)%nat -> X j r <= px) -> px <= thr -> thr < X j i ->
    (forall r, In r pre -> nth r (true_part ROps x s j (Some thr)) 0%nat = nth r s 0%nat) /\
    (forall r, In r (i :: suf) -> nth r (true_part ROps x s j (Some thr)) 0%nat = 0%nat).
  Proof.
    intros HS E Hpre H1 H2. pose proof HS as [P SS]. rewrite E in SS. apply StronglySorted_mid in SS as [_ Suf].
    split; intros r Hr.
    - assert (Hlt : (r < N)%nat) by (eapply order_lt; eauto; rewrite E; apply in_or_app; auto).
      rewrite nth_true_part by exact Hlt. unfold goes_true.
      destruct (0 <? nth r s 0)%nat eqn:Z; cbn [andb].
      + apply Nat.ltb_lt in Z. cbn [le_thr ROps oleb]. fold (X j r).
        assert (Rleb (X j r) thr = true) as -> by (apply Rleb_true; specialize (Hpre r Hr Z); lra). reflexivity.
      + apply Nat.ltb_ge in Z. lia.
    - assert (Hlt : (r < N)%nat) by (eapply order_lt; eauto; rewrite E; apply in_or_app; auto).
      rewrite nth_true_part by exact Hlt. unfold goes_true.
      assert (Hx : X j i <= X j r).
      { destruct Hr as [->|Hr]; [lra|]. rewrite Forall_forall in Suf. apply Suf. exact Hr. }
      cbn [le_thr ROps oleb]. fold (X j r).
      assert (Rleb (X j r) thr = false) as -> by (apply Rleb_false; lra).
      rewrite andb_false_r. reflexivity.
  Qed.

  Lemma false_part_nth s j thr r : (r < N)%nat ->
    nth r (false_part ROps x s j thr) 0%nat = (nth r s 0 - nth r (true_part ROps x s j thr) 0)%nat.
  Proof.
    intros H. rewrite nth_false_part, nth_true_part by exact H.
    destruct (goes_true ROps x s j thr r); lia.
  Qed.
  Lemma true_part_le s j thr r : (r < N)%nat -> (nth r (true_part ROps x s j thr) 0 <= nth r s 0)%nat.
  Proof. intros H. rewrite nth_true_part by exact H. destruct (goes_true ROps x s j thr r); lia. Qed.
  Lemma true_part_length s j thr : length (true_part ROps x s j thr) = N.
  Proof. unfold true_part. rewrite map_length, seq_length. reflexivity. Qed.
  Lemma false_part_length s j thr : length (false_part ROps x s j thr) = N.
  Proof. unfold false_part. rewrite map_length, seq_length. reflexivity. Qed.

  (* sums over all rows split along the order *)
  Lemma nsum_order j ord f : sorted_order j ord -> nsum f (seq 0 N) = nsum f ord.
  Proof. intros [P _]. symmetry. apply nsum_perm. exact P. Qed.
  Lemma rsum_order j ord f : sorted_order j ord -> rsum f (seq 0 N) = rsum f ord.
  Proof. intros [P _]. symmetry. apply rsum_perm. exact P. Qed.
End Partition.

Lemma ofn_R n : ofn ROps n = IZN n.
Proof. reflexivity. Qed.

Section RegProofs.
  Variable x : list (list R).
  Variable y : list R.
  Variable order : list (list nat).
  Variables msl mss : nat.
  Variable vars : nat -> list nat.
  Let N := length x.
  Definition Y (r : nat) : R := gety ROps y r.
  Definition wsum (s : list nat) : R := rsum (fun i => IZN (nth i s 0%nat) * Y i) (seq 0 N).
  (* `out` is the weighted mean target of the rows counted by s *)
  Definition mean_ok (s : list nat) (out : R) : Prop :=
    length s = N -> (0 < sum_nat s)%nat -> out * IZN (sum_nat s) = wsum s.
  Definition cand_ok (s : list nat) (c : cand R R) : Prop :=
    mean_ok (true_part ROps x s (c_feat c) (Some (c_val c))) (c_tco c) /\
    mean_ok (false_part ROps x s (c_feat c) (Some (c_val c))) (c_fco c).
  Definition best_ok (s : list nat) (b : option (cand R R)) : Prop :=
    match b with None => True | Some c => cand_ok s c end.

  Definition sweep_inv (s : list nat) (j : nat) (pre : list nat) (st : rsweep) : Prop :=
    rs_sum st = rsum (fun r => IZN (nth r s 0%nat) * Y r) pre /\
    rs_cnt st = nsum (fun r => nth r s 0%nat) pre /\
    match rs_prev st with
    | None => forall r, In r pre -> nth r s 0%nat = 0%nat
    | Some px => (exists r, In r pre /\ (0 < nth r s 0)%nat /\ X x j r = px) /\
                 forall r, In r pre -> (0 < nth r s 0)%nat -> X x j r <= px
    end /\
    best_ok s (rs_best st).

  (* sums of the two parts of a split between pre and i :: suf *)
  Lemma split_sums s j ord pre i suf px thr :
    sorted_order x j ord -> ord = pre ++ i :: suf -> length s = N ->
    (forall r, In r pre -> (0 < nth r s 0)%nat -> X x j r <= px) -> px <= thr -> thr < X x j i ->
    let tp := true_part ROps x s j (Some thr) in
    let fp := false_part ROps x s j (Some thr) in
    sum_nat tp = nsum (fun r => nth r s 0%nat) pre /\
    wsum tp = rsum (fun r => IZN (nth r s 0%nat) * Y r) pre /\
    (sum_nat fp + sum_nat tp = sum_nat s)%nat /\
    wsum fp = wsum s - wsum tp.
  Proof.
    intros HS E Hl Hpre H1 H2 tp fp.
    destruct (partition_true x s j ord pre i suf px thr HS E Hpre H1 H2) as [Pa Pb]. fold tp in Pa, Pb.
    assert (T1 : sum_nat tp = nsum (fun r => nth r s 0%nat) pre).
    { rewrite (sum_nat_nsum tp N) by apply true_part_length.
      rewrite (nsum_order x j ord _ HS), E, nsum_app.
      rewrite (nsum_ext _ (fun r => nth r s 0%nat) pre) by exact Pa.
      rewrite (nsum_zero _ (i :: suf)) by exact Pb. lia. }
    assert (T2 : wsum tp = rsum (fun r => IZN (nth r s 0%nat) * Y r) pre).
    { unfold wsum. fold N. rewrite (rsum_order x j ord _ HS), E, rsum_app.
      rewrite (rsum_ext _ (fun r => IZN (nth r s 0%nat) * Y r) pre) by (intros r Hr; rewrite (Pa r Hr); reflexivity).
      rewrite (rsum_zero _ (i :: suf)); [lra|]. intros r Hr. rewrite (Pb r Hr). unfold IZN. cbn. lra. }
    split; [exact T1|]. split; [exact T2|]. split.
    - rewrite (sum_nat_nsum fp N) by apply false_part_length.
      rewrite (sum_nat_nsum tp N) by apply true_part_length.
      rewrite (sum_nat_nsum s N) by exact Hl. rewrite <- nsum_plus. apply nsum_ext.
      intros r Hr. apply in_seq in Hr. unfold fp, tp. rewrite false_part_nth by (fold N; lia).
      pose proof (true_part_le x s j (Some thr) r). fold N in H. lia.
    - unfold wsum. fold N. replace (rsum (fun i0 => IZN (nth i0 s 0%nat) * Y i0) (seq 0 N) -
                                   rsum (fun i0 => IZN (nth i0 tp 0%nat) * Y i0) (seq 0 N))
        with (rsum (fun i0 => IZN (nth i0 s 0%nat) * Y i0) (seq 0 N) +
              rsum (fun i0 => - (IZN (nth i0 tp 0%nat) * Y i0)) (seq 0 N)).
      + rewrite <- rsum_plus. apply rsum_ext. intros r Hr. apply in_seq in Hr.
        unfold fp, tp. rewrite false_part_nth by (fold N; lia).
        pose proof (true_part_le x s j (Some thr) r). fold N in H. rewrite IZN_sub by lia. lra.
      + assert (forall f l, rsum (fun r => - f r) l = - rsum f l) as Hneg
            by (intros f l; induction l; cbn; [lra|]; rewrite IHl; lra).
        rewrite Hneg. lra.
  Qed.

  Lemma reg_step_inv s out j ord pre i suf st pg :
    sorted_order x j ord -> ord = pre ++ i :: suf -> length s = N -> mean_ok s out ->
    sweep_inv s j pre st ->
    sweep_inv s j (pre ++ [i]) (reg_step ROps x y msl s (sum_nat s) (out * IZN (sum_nat s)) pg j st i).
  Proof.
    intros HS E Hl Hout (I1 & I2 & I3 & I4).
    pose proof HS as [P SS]. rewrite E in SS. apply StronglySorted_mid in SS as [Pre _].
    rewrite Forall_forall in Pre.
    unfold reg_step. destruct (0 <? nth i s 0)%nat eqn:Z.
    2:{ apply Nat.ltb_ge in Z. assert (Zi : nth i s 0%nat = 0%nat) by lia.
        unfold sweep_inv. rewrite rsum_app, nsum_app. cbn [rsum nsum]. rewrite Zi.
        split; [rewrite I1; unfold IZN; cbn; lra|]. split; [lia|]. split; [|exact I4].
        destruct (rs_prev st) as [px|].
        - destruct I3 as [(r & Hr & Hw & Hx) I3]. split.
          + exists r. split; [apply in_or_app; auto|auto].
          + intros r' Hr' Hw'. apply in_app_or in Hr' as [Hr'|[<-|[]]]; [auto|lia].
        - intros r Hr. apply in_app_or in Hr as [Hr|[<-|[]]]; auto. }
    apply Nat.ltb_lt in Z.
    (* the part of the state that every branch updates in the same way *)
    assert (ACC : forall b, best_ok s b ->
              sweep_inv s j (pre ++ [i])
                (mkRS (oadd ROps (rs_sum st) (omul ROps (ofn ROps (nth i s 0%nat)) (gety ROps y i)))
                      (rs_cnt st + nth i s 0%nat) (Some (getx ROps x i j)) b)).
    { intros b Hb. unfold sweep_inv. cbn [rs_sum rs_cnt rs_prev rs_best].
      rewrite rsum_app, nsum_app. cbn [rsum nsum]. split.
      - rewrite I1, ofn_R. cbn [ROps oadd omul]. unfold Y. lra.
      - split; [lia|]. split; [|exact Hb]. split.
        + exists i. split; [apply in_or_app; right; left; reflexivity|]. split; [exact Z|reflexivity].
        + intros r Hr _. apply in_app_or in Hr as [Hr|[<-|[]]].
          * apply Pre. exact Hr.
          * unfold X. lra. }
    destruct (rs_prev st) as [px|] eqn:EP; [|apply ACC; exact I4].
    destruct (nanb ROps px || oeqb ROps (getx ROps x i j) px) eqn:First; [apply ACC; exact I4|].
    apply orb_false_elim in First as [_ Neq]. cbn [ROps oeqb] in Neq. apply Reqb_false in Neq.
    destruct ((rs_cnt st <? msl)%nat || (sum_nat s - rs_cnt st <? msl)%nat) eqn:Guard; [apply ACC; exact I4|].
    match goal with |- context [if ?b then _ else _] => destruct b end; [|apply ACC; exact I4].
    apply ACC. cbn [best_ok]. clear ACC.
    destruct I3 as [(r0 & Hr0 & Hw0 & Hx0) I3].
    fold (X x j i) in Neq |- *.
    assert (Hlt : px < X x j i).
    { specialize (Pre r0 Hr0). cbn beta in Pre. rewrite Hx0 in Pre. lra. }
    set (thr := odiv ROps (oadd ROps (X x j i) px) (oofZ ROps 2)).
    assert (Hthr : px <= thr /\ thr < X x j i) by (unfold thr; cbn [ROps odiv oadd oofZ]; lra).
    destruct (split_sums s j ord pre i suf px thr HS E Hl I3 (proj1 Hthr) (proj2 Hthr)) as (T1 & T2 & T3 & T4).
    assert (Htc : (0 < rs_cnt st)%nat).
    { rewrite I2. clear -Hr0 Hw0. induction pre as [|a t IH]; cbn; [destruct Hr0|].
      destruct Hr0 as [->|H]; [lia|]. specialize (IH H). lia. }
    assert (Hn : (rs_cnt st + nth i s 0 <= sum_nat s)%nat).
    { rewrite (sum_nat_nsum s N Hl), (nsum_order x j ord _ HS), E, nsum_app, I2. cbn [nsum]. lia. }
    unfold cand_ok. cbn [c_feat c_val c_tco c_fco]. fold thr. split.
    - intros _ Hpos. rewrite T1, <- I2, T2, <- I1, ofn_R. cbn [ROps odiv].
      field. apply Rgt_not_eq. apply IZN_pos. exact Htc.
    - intros _ Hpos. rewrite T4, T2, <- I1. rewrite T1, <- I2 in T3.
      assert (Efc : sum_nat (false_part ROps x s j (Some thr)) = (sum_nat s - rs_cnt st)%nat) by lia.
      rewrite Efc. change (ofn ROps (sum_nat s - rs_cnt st)%nat) with (IZN (sum_nat s - rs_cnt st)%nat).
      cbn [ROps odiv osub]. rewrite <- (Hout Hl) by lia. field. apply Rgt_not_eq. apply IZN_pos. lia.
  Qed.

  Lemma reg_sweep_inv s out j ord pg : sorted_order x j ord -> length s = N -> mean_ok s out ->
    forall suf pre st, ord = pre ++ suf -> sweep_inv s j pre st ->
    best_ok s (rs_best (fold_left (reg_step ROps x y msl s (sum_nat s) (out * IZN (sum_nat s)) pg j) suf st)).
  Proof.
    intros HS Hl Hout. induction suf as [|i suf IH]; intros pre st E I.
    - cbn. destruct I as (_ & _ & _ & I). exact I.
    - cbn [fold_left]. apply (IH (pre ++ [i])).
      + rewrite <- app_assoc. exact E.
      + eapply reg_step_inv; eauto.
  Qed.

  Hypothesis orders_ok : forall id j, In j (vars id) -> sorted_order x j (nth j order []).

  Lemma reg_find_ok id out s c :
    reg_find ROps x y order msl mss vars id out s = Some c -> length s = N -> mean_ok s out -> cand_ok s c.
  Proof.
    unfold reg_find. destruct (sum_nat s <? mss)%nat; [discriminate|].
    intros H Hl Hout. rewrite ofn_R in H. cbn [ROps omul] in H.
    assert (G : forall l b, (forall j, In j l -> In j (vars id)) -> best_ok s b ->
              best_ok s (fold_left (reg_find_best_split ROps x y order msl s (sum_nat s) (out * IZN (sum_nat s))
                                                          (IZN (sum_nat s) * out * out)) l b)).
    { induction l as [|j l IH]; intros b Hin Hb; [exact Hb|]. cbn [fold_left]. apply IH.
      - intros j' Hj'. apply Hin. right. exact Hj'.
      - unfold reg_find_best_split.
        apply (reg_sweep_inv s out j (nth j order []) _ (orders_ok id j (Hin j (or_introl eq_refl))) Hl Hout
                             (nth j order []) [] _ eq_refl).
        unfold sweep_inv. cbn. split; [reflexivity|]. split; [reflexivity|]. split; [tauto|exact Hb]. }
    specialize (G (vars id) None (fun j H => H) I). rewrite H in G. exact G.
  Qed.
End RegProofs.

(* ---------- the fitted regression tree: every node's output is the weighted mean of its rows ---------- *)
Definition reg_out_ok (x : list (list R)) (y : list R) (s : list nat) (out : R) : Prop :=
  length s = length x /\ mean_ok x y s out.

Lemma root_stats_R y samples n : length samples = n -> length y = n ->
  root_stats ROps y samples =
  (nsum (fun i => nth i samples 0%nat) (seq 0 n), rsum (fun i => IZN (nth i samples 0%nat) * nth i y 0) (seq 0 n)).
Proof.
  intros H1 H2. unfold root_stats. rewrite H1, H2, Nat.min_id.
  assert (G : forall l a b,
    fold_left (fun '(n0, s) i => ((n0 + nth i samples 0)%nat,
                 oadd ROps s (omul ROps (ofn ROps (nth i samples 0%nat)) (nth i y (o0 ROps))))) l (a, b) =
    ((a + nsum (fun i => nth i samples 0%nat) l)%nat, b + rsum (fun i => IZN (nth i samples 0%nat) * nth i y 0) l)).
  { induction l as [|i l IH]; intros a b; cbn [fold_left nsum rsum].
    - f_equal; [lia|lra].
    - rewrite IH. rewrite ofn_R. cbn [ROps oadd omul o0]. f_equal; [lia|lra]. }
  rewrite G. f_equal; try lia. cbn [ROps o0]. lra.
Qed.

Lemma fit_regressor_consistent x y samples vars order md msl mss nodes d :
  length y = length x -> length samples = length x ->
  (forall id j, In j (vars id) -> sorted_order x j (nth j order [])) ->
  fit_regressor_with_order ROps x y samples vars order md msl mss = Some (nodes, d) ->
  exists G D, tree_consistent ROps 0 x msl (reg_out_ok x y) samples nodes G D /\
              (forall k, (k < length nodes)%nat -> (D k <= md_of md)%nat).
Proof.
  intros Hy Hs Hord H. unfold fit_regressor_with_order in H.
  rewrite (root_stats_R y samples (length x) Hs Hy) in H.
  refine (grow_tree_consistent ROps 0 x msl _ (reg_out_ok x y) _ _ samples md nodes d _ H).
  - intros id out s c F [Hl Hm]. destruct (reg_find_ok x y order msl mss vars Hord id out s c F Hl Hm) as [C1 C2].
    split; split; auto; [apply true_part_length|apply false_part_length].
  - split; [exact Hs|]. intros _ Hpos. rewrite ofn_R. cbn [ROps odiv].
    rewrite (sum_nat_nsum samples (length x) Hs) in *. unfold wsum, Y, gety. cbn [ROps o0].
    field. apply Rgt_not_eq. apply IZN_pos. exact Hpos.
Qed.
