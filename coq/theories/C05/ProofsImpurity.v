(* C05 — the three split criteria as concave, positively homogeneous functions of the class-count vector.

   For a class-count function f : class -> nat (classes 0..k-1) let
       Phi f = (sum f) * impurity (f 0, ..., f (k-1)) (sum f)
   be the impurity of the model weighted by the number of rows (`impurity` is the transliteration of
   DecisionTreeClassifier's `impurity`).  Closed forms over R:
       Gini                 Phi f = n - sum_l f_l^2 / n
       ClassificationError  Phi f = n - max_l f_l
       Entropy              Phi f = - sum_l f_l * lg2 (f_l / n)
   Main results `Phi_conc_gini`, `Phi_conc_clserr` (any `lg2`) and `Phi_conc_entropy` (lg2 = ln / ln 2):
       W * g = l1 * f1 + l2 * f2  (pointwise, natural weights, W > 0)  ->
       l1 * Phi f1 + l2 * Phi f2 <= W * Phi g
   i.e. Phi is concave and homogeneous of degree 1 (Jensen in weighted form).  Proofs: supporting-line
   inequalities of the term functions  p^2/P  (convex),  max  (convex),  p ln (p/P)  (convex; from
   1 + x <= exp x).  Used by C05/ProofsBoundary.v for the boundary-point property. *)
From Coq Require Import List Arith ZArith Bool Lia Reals Lra Psatz.
From SC Require Import Base.Num C05.Model C05.ProofsGrow C05.ProofsReg.
Import ListNotations.
Open Scope R_scope.

(* ---------- small facts about IZN, rsum, nsum ---------- *)
Lemma IZN_mult a b : IZN (a * b) = IZN a * IZN b.
Proof. unfold IZN. rewrite Nat2Z.inj_mul, mult_IZR. reflexivity. Qed.
Lemma IZN_le a b : (a <= b)%nat -> IZN a <= IZN b.
Proof. intros H. unfold IZN. apply IZR_le. lia. Qed.
Lemma IZN_nonneg a : 0 <= IZN a.
Proof. unfold IZN. apply IZR_le. lia. Qed.
Lemma IZN_0 : IZN 0 = 0.
Proof. reflexivity. Qed.
Lemma IZN_1 : IZN 1 = 1.
Proof. reflexivity. Qed.
Lemma IZN_eq0 a : IZN a = 0 -> a = 0%nat.
Proof. unfold IZN. intros H. apply eq_IZR in H. lia. Qed.

Lemma rsum_le f g l : (forall r, In r l -> f r <= g r) -> rsum f l <= rsum g l.
Proof.
  induction l as [|a l IH]; cbn [rsum]; intros H; [lra|].
  pose proof (H a (or_introl eq_refl)). assert (rsum f l <= rsum g l) by (apply IH; intros; apply H; right; assumption). lra.
Qed.
Lemma rsum_scal c f l : rsum (fun r => c * f r) l = c * rsum f l.
Proof. induction l as [|a l IH]; cbn [rsum]; [lra|]. rewrite IH. lra. Qed.
Lemma rsum_map (g : nat -> R) (f : nat -> nat) l : rsum g (map f l) = rsum (fun r => g (f r)) l.
Proof. induction l as [|a l IH]; cbn [rsum map]; [reflexivity|]. rewrite IH. reflexivity. Qed.
Lemma nsum_scal c f l : nsum (fun r => (c * f r)%nat) l = (c * nsum f l)%nat.
Proof. induction l as [|a l IH]; cbn [nsum]; [lia|]. rewrite IH. lia. Qed.
Lemma nsum_eq0 f l : nsum f l = 0%nat -> forall r, In r l -> f r = 0%nat.
Proof.
  induction l as [|a l IH]; cbn [nsum]; intros H r Hr; [destruct Hr|].
  destruct Hr as [<-|Hr]; [lia|]. apply IH; [lia|exact Hr].
Qed.
Lemma nsum_in_le f l r : In r l -> (f r <= nsum f l)%nat.
Proof. induction l as [|a l IH]; cbn [nsum]; intros H; [destruct H|]. destruct H as [->|H]; [lia|]. specialize (IH H). lia. Qed.
Lemma nsum_mono f g l : (forall r, In r l -> (f r <= g r)%nat) -> (nsum f l <= nsum g l)%nat.
Proof.
  induction l as [|a l IH]; cbn [nsum]; intros H; [lia|].
  pose proof (H a (or_introl eq_refl)). assert (nsum f l <= nsum g l)%nat by (apply IH; intros; apply H; right; assumption). lia.
Qed.
Lemma sum_nat_map_id (f : nat -> nat) l : sum_nat (map f l) = nsum f l.
Proof. apply sum_nat_map. Qed.

(* ---------- the weighted impurity ---------- *)
Section Phi.
  Variable k : nat.
  Local Notation L := (seq 0 k).
  Definition tot (f : nat -> nat) : nat := nsum f L.
  Definition Phi (lg2 : R -> R) (crit : criterion) (f : nat -> nat) : R :=
    IZN (tot f) * impurity ROps lg2 crit (map f L) (tot f).

  (* W g = l1 f1 + l2 f2 pointwise *)
  Definition comb (W l1 l2 : nat) (g f1 f2 : nat -> nat) : Prop :=
    forall l, (l < k)%nat -> (W * g l = l1 * f1 l + l2 * f2 l)%nat.
  Definition Phi_concave (lg2 : R -> R) (crit : criterion) : Prop :=
    forall W l1 l2 g f1 f2, (0 < W)%nat -> comb W l1 l2 g f1 f2 ->
      IZN l1 * Phi lg2 crit f1 + IZN l2 * Phi lg2 crit f2 <= IZN W * Phi lg2 crit g.

  Lemma comb_tot W l1 l2 g f1 f2 : comb W l1 l2 g f1 f2 ->
    IZN W * IZN (tot g) = IZN l1 * IZN (tot f1) + IZN l2 * IZN (tot f2).
  Proof.
    intros H. rewrite <- !IZN_mult, <- IZN_plus. f_equal. unfold tot.
    rewrite <- !nsum_scal, <- nsum_plus. apply nsum_ext. intros l Hl. apply in_seq in Hl. apply H. lia.
  Qed.
  Lemma tot_ge f l : (l < k)%nat -> (f l <= tot f)%nat.
  Proof. intros H. apply nsum_in_le. apply in_seq. lia. Qed.
  Lemma tot_zero f : tot f = 0%nat -> forall l, In l L -> f l = 0%nat.
  Proof. apply nsum_eq0. Qed.

  (* ================= Gini ================= *)
  Definition q (p P : R) : R := p * p / P.

  Lemma gini_closed lg2 cnt n :
    impurity ROps lg2 Gini cnt n = 1 - rsum (fun c => IZN c / IZN n * (IZN c / IZN n)) cnt.
  Proof.
    unfold impurity. change (o1 ROps) with 1. generalize 1 as init.
    induction cnt as [|c cnt IH]; intros init; cbn [fold_left rsum]; [lra|].
    rewrite IH. destruct (0 <? c)%nat eqn:Z.
    - change (ofn ROps) with IZN. cbn [ROps osub omul odiv]. lra.
    - apply Nat.ltb_ge in Z. assert (c = 0%nat) as -> by lia. rewrite IZN_0. unfold Rdiv. lra.
  Qed.

  Lemma Phi_gini lg2 f :
    Phi lg2 Gini f = IZN (tot f) - rsum (fun l => q (IZN (f l)) (IZN (tot f))) L.
  Proof.
    unfold Phi. rewrite gini_closed, rsum_map.
    destruct (Nat.eq_dec (tot f) 0) as [E|NE].
    - rewrite E, IZN_0. rewrite (rsum_zero (fun l => q (IZN (f l)) 0)); [lra|].
      intros l Hl. rewrite (tot_zero f E l Hl), IZN_0. unfold q, Rdiv. ring.
    - assert (Hn : 0 < IZN (tot f)) by (apply IZN_pos; lia).
      rewrite Rmult_minus_distr_l, <- rsum_scal. f_equal; [ring|]. apply rsum_ext. intros l _.
      unfold q. field. lra.
  Qed.

  (* supporting line of p^2/P at slope z *)
  Lemma q_support a A z : 0 <= A -> (A = 0 -> a = 0) -> 2 * a * z - z * z * A <= q a A.
  Proof.
    intros HA H0. destruct (Req_dec A 0) as [E|NE].
    - rewrite (H0 E), E. unfold q, Rdiv. ring_simplify. lra.
    - assert (0 < A) by lra. unfold q.
      replace (a * a / A) with ((2 * a * z - z * z * A) + (a - z * A) * (a - z * A) / A) by (field; lra).
      assert (0 <= (a - z * A) * (a - z * A) / A).
      { apply Rmult_le_pos; [apply Rle_0_sqr|]. left. apply Rinv_0_lt_compat. assumption. }
      lra.
  Qed.

  Lemma q_jensen W l1 l2 p P a A b B :
    0 < W -> 0 <= l1 -> 0 <= l2 -> 0 <= A -> 0 <= B -> 0 <= P ->
    (A = 0 -> a = 0) -> (B = 0 -> b = 0) -> (P = 0 -> p = 0) ->
    W * p = l1 * a + l2 * b -> W * P = l1 * A + l2 * B ->
    W * q p P <= l1 * q a A + l2 * q b B.
  Proof.
    intros HW H1 H2 HA HB HP A0 B0 P0 Ep EP.
    destruct (Req_dec P 0) as [E|NE].
    - rewrite (P0 E), E. pose proof (q_support a A 0 HA A0). pose proof (q_support b B 0 HB B0).
      replace (W * q 0 0) with 0 by (unfold q, Rdiv; ring).
      assert (0 <= l1 * q a A) by (apply Rmult_le_pos; lra).
      assert (0 <= l2 * q b B) by (apply Rmult_le_pos; lra). lra.
    - set (z := p / P).
      assert (Eq : q p P = 2 * p * z - z * z * P) by (unfold q, z; field; exact NE).
      pose proof (q_support a A z HA A0) as Sa. pose proof (q_support b B z HB B0) as Sb.
      assert (l1 * (2 * a * z - z * z * A) <= l1 * q a A) by (apply Rmult_le_compat_l; assumption).
      assert (l2 * (2 * b * z - z * z * B) <= l2 * q b B) by (apply Rmult_le_compat_l; assumption).
      rewrite Eq.
      replace (W * (2 * p * z - z * z * P)) with (2 * z * (W * p) - z * z * (W * P)) by ring.
      rewrite Ep, EP. lra.
  Qed.

  Lemma Phi_conc_gini lg2 : Phi_concave lg2 Gini.
  Proof.
    intros W l1 l2 g f1 f2 HW HC. rewrite !Phi_gini.
    pose proof (comb_tot W l1 l2 g f1 f2 HC) as Et.
    assert (T : IZN W * rsum (fun l => q (IZN (g l)) (IZN (tot g))) L <=
                IZN l1 * rsum (fun l => q (IZN (f1 l)) (IZN (tot f1))) L +
                IZN l2 * rsum (fun l => q (IZN (f2 l)) (IZN (tot f2))) L).
    { rewrite <- !rsum_scal, <- rsum_plus. apply rsum_le. intros l Hl. apply in_seq in Hl.
      assert (Hlk : (l < k)%nat) by lia.
      apply q_jensen; try apply IZN_nonneg; try exact Et.
      - apply IZN_pos. exact HW.
      - intros E. apply IZN_eq0 in E. pose proof (tot_ge f1 l Hlk). replace (f1 l) with 0%nat by lia. reflexivity.
      - intros E. apply IZN_eq0 in E. pose proof (tot_ge f2 l Hlk). replace (f2 l) with 0%nat by lia. reflexivity.
      - intros E. apply IZN_eq0 in E. pose proof (tot_ge g l Hlk). replace (g l) with 0%nat by lia. reflexivity.
      - rewrite <- !IZN_mult, <- IZN_plus. f_equal. apply HC. exact Hlk. }
    rewrite !Rmult_minus_distr_l. lra.
  Qed.

  (* ================= classification error ================= *)
  Definition maxl (l : list nat) : nat := fold_left Nat.max l 0%nat.

  Lemma fold_max_ge l : forall m0, (m0 <= fold_left Nat.max l m0)%nat /\
                                   forall c, In c l -> (c <= fold_left Nat.max l m0)%nat.
  Proof.
    induction l as [|a l IH]; intros m0; cbn [fold_left]; [split; [lia|intros c []]|].
    destruct (IH (Nat.max m0 a)) as [I1 I2]. split; [lia|].
    intros c [<-|Hc]; [lia|apply I2; exact Hc].
  Qed.
  Lemma fold_max_in l : forall m0, fold_left Nat.max l m0 = m0 \/ In (fold_left Nat.max l m0) l.
  Proof.
    induction l as [|a l IH]; intros m0; cbn [fold_left]; [left; reflexivity|].
    destruct (IH (Nat.max m0 a)) as [E|I]; [|right; right; exact I].
    rewrite E. destruct (Nat.max_spec m0 a) as [[_ ->]|[_ ->]]; [right; left; reflexivity|left; reflexivity].
  Qed.

  Lemma clserr_max n : (0 < n)%nat -> forall cnt m0,
    fold_left (fun imp c => if (0 <? c)%nat then omax ROps imp (odiv ROps (ofn ROps c) (ofn ROps n)) else imp)
              cnt (IZN m0 / IZN n) = IZN (fold_left Nat.max cnt m0) / IZN n.
  Proof.
    intros Hn. assert (Hp : 0 < / IZN n) by (apply Rinv_0_lt_compat; apply IZN_pos; exact Hn).
    induction cnt as [|c cnt IH]; intros m0; cbn [fold_left]; [reflexivity|].
    destruct (0 <? c)%nat eqn:Z.
    - rewrite <- IH. f_equal. unfold omax. change (ofn ROps) with IZN. cbn [ROps oltb odiv].
      destruct (Nat.max_spec m0 c) as [[Hlt ->]|[Hge ->]].
      + rewrite (proj2 (Rltb_true _ _)); [reflexivity|].
        unfold Rdiv. apply Rmult_lt_compat_r; [exact Hp|]. unfold IZN. apply IZR_lt. lia.
      + rewrite (proj2 (Rltb_false _ _)); [reflexivity|].
        unfold Rdiv. apply Rmult_le_compat_r; [lra|]. apply IZN_le. exact Hge.
    - apply Nat.ltb_ge in Z. rewrite <- IH. f_equal. f_equal. f_equal. lia.
  Qed.

  Lemma Phi_clserr lg2 f :
    Phi lg2 ClassificationError f = IZN (tot f) - IZN (maxl (map f L)).
  Proof.
    unfold Phi.
    assert (Hm : (maxl (map f L) <= tot f)%nat).
    { unfold maxl. destruct (fold_max_in (map f L) 0%nat) as [->|I]; [lia|].
      apply in_map_iff in I as (l & <- & Hl). apply in_seq in Hl. apply tot_ge. lia. }
    destruct (Nat.eq_dec (tot f) 0) as [E|NE].
    - rewrite E in *. assert (maxl (map f L) = 0%nat) as -> by lia. rewrite IZN_0. lra.
    - assert (Hn : (0 < tot f)%nat) by lia. assert (Hp : 0 < IZN (tot f)) by (apply IZN_pos; exact Hn).
      unfold impurity. change (o0 ROps) with 0. change (o1 ROps) with 1. cbn [ROps oabs osub].
      replace 0 with (IZN 0 / IZN (tot f)) at 1 by (rewrite IZN_0; unfold Rdiv; ring).
      rewrite (clserr_max (tot f) Hn). fold (maxl (map f L)).
      apply IZN_le in Hm.
      assert (IZN (maxl (map f L)) / IZN (tot f) <= 1).
      { apply Rmult_le_reg_r with (IZN (tot f)); [exact Hp|]. unfold Rdiv. rewrite Rmult_assoc, Rinv_l by lra. lra. }
      rewrite Rabs_pos_eq by lra. field. lra.
  Qed.

  Lemma Phi_conc_clserr lg2 : Phi_concave lg2 ClassificationError.
  Proof.
    intros W l1 l2 g f1 f2 HW HC. rewrite !Phi_clserr.
    pose proof (comb_tot W l1 l2 g f1 f2 HC) as Et.
    assert (M : (W * maxl (map g L) <= l1 * maxl (map f1 L) + l2 * maxl (map f2 L))%nat).
    { unfold maxl at 1. destruct (fold_max_in (map g L) 0%nat) as [->|I]; [lia|].
      apply in_map_iff in I as (l & E & Hl). rewrite <- E. pose proof Hl as Hl'. apply in_seq in Hl'.
      rewrite (HC l) by lia. apply Nat.add_le_mono; apply Nat.mul_le_mono_l; unfold maxl.
      - apply (proj2 (fold_max_ge (map f1 L) 0%nat)). apply in_map. exact Hl.
      - apply (proj2 (fold_max_ge (map f2 L) 0%nat)). apply in_map. exact Hl. }
    apply IZN_le in M. rewrite IZN_plus, !IZN_mult in M.
    rewrite !Rmult_minus_distr_l. lra.
  Qed.

  (* ================= entropy, lg2 = ln / ln 2 ================= *)
  Definition lg2r (p : R) : R := ln p / ln 2.

  Lemma entropy_closed lg2 cnt n :
    impurity ROps lg2 Entropy cnt n = - rsum (fun c => IZN c / IZN n * lg2 (IZN c / IZN n)) cnt.
  Proof.
    unfold impurity. change (o0 ROps) with 0. replace (- rsum _ cnt) with (0 - rsum (fun c => IZN c / IZN n * lg2 (IZN c / IZN n)) cnt) by lra.
    generalize 0 as init.
    induction cnt as [|c cnt IH]; intros init; cbn [fold_left rsum]; [lra|].
    rewrite IH. destruct (0 <? c)%nat eqn:Z.
    - change (ofn ROps) with IZN. cbn [ROps osub omul odiv]. lra.
    - apply Nat.ltb_ge in Z. assert (c = 0%nat) as -> by lia. rewrite IZN_0. unfold Rdiv. lra.
  Qed.

  Lemma Phi_entropy lg2 f :
    Phi lg2 Entropy f = - rsum (fun l => IZN (f l) * lg2 (IZN (f l) / IZN (tot f))) L.
  Proof.
    unfold Phi. rewrite entropy_closed, rsum_map.
    destruct (Nat.eq_dec (tot f) 0) as [E|NE].
    - rewrite E, IZN_0. rewrite (rsum_zero (fun l => IZN (f l) * _)); [lra|].
      intros l Hl. rewrite (tot_zero f E l Hl), IZN_0. ring.
    - assert (Hn : 0 < IZN (tot f)) by (apply IZN_pos; lia).
      rewrite Ropp_mult_distr_r_reverse, <- rsum_scal. f_equal. apply rsum_ext. intros l _. field. lra.
  Qed.

  Lemma ln_le_sub1 z : 0 < z -> ln z <= z - 1.
  Proof. intros Hz. pose proof (exp_ineq1_le (ln z)) as H. rewrite exp_ln in H by exact Hz. lra. Qed.

  (* supporting line of a ln (a/A) in the direction r *)
  Lemma e_support a A r : 0 <= a -> a <= A -> 0 < r -> a * ln r + a - A * r <= a * ln (a / A).
  Proof.
    intros Ha HaA Hr. destruct (Req_dec a 0) as [E|NE].
    - rewrite E. assert (0 <= A * r) by (apply Rmult_le_pos; lra). lra.
    - assert (Hap : 0 < a) by lra. assert (HA : 0 < A) by lra.
      set (z := A * r / a). assert (Hz : 0 < z).
      { unfold z. apply Rmult_lt_0_compat; [apply Rmult_lt_0_compat; assumption|apply Rinv_0_lt_compat; exact Hap]. }
      pose proof (ln_le_sub1 z Hz) as Hln.
      assert (Eln : ln (a / A) = ln r - ln z).
      { replace (a / A) with (r * / z) by (unfold z; field; repeat split; lra).
        rewrite ln_mult by (try assumption; apply Rinv_0_lt_compat; exact Hz).
        rewrite ln_Rinv by exact Hz. lra. }
      rewrite Eln.
      assert (a * ln z <= a * (z - 1)) by (apply Rmult_le_compat_l; lra).
      replace (a * (z - 1)) with (A * r - a) in H by (unfold z; field; lra). lra.
  Qed.

  Lemma e_jensen W l1 l2 p P a A b B :
    0 < W -> 0 <= l1 -> 0 <= l2 -> 0 <= a -> a <= A -> 0 <= b -> b <= B -> 0 <= p -> p <= P ->
    W * p = l1 * a + l2 * b -> W * P = l1 * A + l2 * B ->
    W * (p * ln (p / P)) <= l1 * (a * ln (a / A)) + l2 * (b * ln (b / B)).
  Proof.
    intros HW H1 H2 Ha HaA Hb HbB Hp HpP Ep EP.
    destruct (Req_dec p 0) as [E|NE].
    - rewrite E in *. assert (0 <= l1 * a) by (apply Rmult_le_pos; assumption).
      assert (0 <= l2 * b) by (apply Rmult_le_pos; assumption).
      assert (E1 : l1 * a = 0) by lra. assert (E2 : l2 * b = 0) by lra.
      rewrite <- !Rmult_assoc, E1, E2. lra.
    - assert (Hpp : 0 < p) by lra. assert (HP : 0 < P) by lra.
      set (r := p / P). assert (Hr : 0 < r).
      { unfold r. apply Rmult_lt_0_compat; [exact Hpp|apply Rinv_0_lt_compat; exact HP]. }
      pose proof (e_support a A r Ha HaA Hr) as Sa. pose proof (e_support b B r Hb HbB Hr) as Sb.
      assert (l1 * (a * ln r + a - A * r) <= l1 * (a * ln (a / A))) by (apply Rmult_le_compat_l; assumption).
      assert (l2 * (b * ln r + b - B * r) <= l2 * (b * ln (b / B))) by (apply Rmult_le_compat_l; assumption).
      assert (Eq : l1 * (a * ln r + a - A * r) + l2 * (b * ln r + b - B * r) = W * (p * ln r)).
      { replace (l1 * (a * ln r + a - A * r) + l2 * (b * ln r + b - B * r))
          with ((l1 * a + l2 * b) * ln r + (l1 * a + l2 * b) - (l1 * A + l2 * B) * r) by ring.
        rewrite <- Ep, <- EP. unfold r. field. lra. }
      lra.
  Qed.

  Lemma Phi_conc_entropy : Phi_concave lg2r Entropy.
  Proof.
    intros W l1 l2 g f1 f2 HW HC. rewrite !Phi_entropy.
    pose proof (comb_tot W l1 l2 g f1 f2 HC) as Et.
    assert (Hln2 : 0 < / ln 2).
    { apply Rinv_0_lt_compat. rewrite <- ln_1. apply ln_increasing; lra. }
    assert (T : IZN W * rsum (fun l => IZN (g l) * ln (IZN (g l) / IZN (tot g))) L <=
                IZN l1 * rsum (fun l => IZN (f1 l) * ln (IZN (f1 l) / IZN (tot f1))) L +
                IZN l2 * rsum (fun l => IZN (f2 l) * ln (IZN (f2 l) / IZN (tot f2))) L).
    { rewrite <- !rsum_scal, <- rsum_plus. apply rsum_le. intros l Hl. apply in_seq in Hl.
      assert (Hlk : (l < k)%nat) by lia.
      apply e_jensen; try apply IZN_nonneg; try exact Et.
      - apply IZN_pos. exact HW.
      - apply IZN_le. apply tot_ge. exact Hlk.
      - apply IZN_le. apply tot_ge. exact Hlk.
      - apply IZN_le. apply tot_ge. exact Hlk.
      - rewrite <- !IZN_mult, <- IZN_plus. f_equal. apply HC. exact Hlk. }
    assert (S : forall f, rsum (fun l => IZN (f l) * lg2r (IZN (f l) / IZN (tot f))) L =
                          / ln 2 * rsum (fun l => IZN (f l) * ln (IZN (f l) / IZN (tot f))) L).
    { intros f. rewrite <- rsum_scal. apply rsum_ext. intros l _. unfold lg2r, Rdiv. ring. }
    rewrite !S.
    set (Sg := rsum (fun l => IZN (g l) * ln (IZN (g l) / IZN (tot g))) L) in *.
    set (S1 := rsum (fun l => IZN (f1 l) * ln (IZN (f1 l) / IZN (tot f1))) L) in *.
    set (S2 := rsum (fun l => IZN (f2 l) * ln (IZN (f2 l) / IZN (tot f2))) L) in *.
    assert (/ ln 2 * (IZN W * Sg) <= / ln 2 * (IZN l1 * S1 + IZN l2 * S2)) by (apply Rmult_le_compat_l; lra).
    lra.
  Qed.
End Phi.
