(* C05 — invariance of the fitted trees under a monotone relabelling of the feature values.

   The only operations that DecisionTree{Regressor,Classifier}::fit apply to feature values are the
   comparisons <=, <, == (quick_argsort, the tie test of the sweep, the threshold test of `split`) and the
   midpoint (a + b) / 2 of two feature values (the candidate threshold).  Hence, for ANY number type
   `Ops T` and any map phi : T -> T that, on a set V of values containing the data and 0,
     - preserves the three comparisons (strictly monotone),
     - commutes with the midpoint,
     - preserves the comparison of a data value with a midpoint (predicate Vt = thresholds),
   fitting on the relabelled matrix  map (map phi) x  returns exactly the tree fitted on x with every
   threshold t replaced by phi t: same node array structure, outputs, split features, scores, child
   indices, depth (`fit_regressor_relabel`, `fit_classifier_relabel`; also for fit_weak_learner with
   arbitrary sample counts and tried features).  This is a simulation proof through the transliterated
   quicksort, the two sweeps and the breadth-first growth; axiom-free.
   Instances: T = R with phi = multiplication by any c > 0 (C05/ProofsScaleR.v), in particular c = 2^e;
   binary64 with phi = multiplication by 2^e under an exponent-range hypothesis on the data
   (C05/ProofsScaleF64.v, using Flocq). *)
From Coq Require Import List Arith ZArith Bool Lia.
From SC Require Import Base.Num C05.Model C05.ProofsGrow.
Import ListNotations.

Lemma set_nth_map {A B} (f : A -> B) (l : list A) i v : set_nth (map f l) i (f v) = map f (set_nth l i v).
Proof.
  unfold set_nth. rewrite map_length. destruct (i <? length l); [|reflexivity].
  rewrite map_app. cbn [map]. rewrite firstn_map, skipn_map. reflexivity.
Qed.
Lemma In_firstn_in {A} (a : A) n l : In a (firstn n l) -> In a l.
Proof. intros H. rewrite <- (firstn_skipn n l). apply in_or_app. left. exact H. Qed.
Lemma In_skipn_in {A} (a : A) n l : In a (skipn n l) -> In a l.
Proof. intros H. rewrite <- (firstn_skipn n l). apply in_or_app. right. exact H. Qed.
Lemma Forall_set_nth {A} (P : A -> Prop) l i v : Forall P l -> P v -> Forall P (set_nth l i v).
Proof.
  intros H Hv. unfold set_nth. destruct (i <? length l); [|exact H].
  rewrite Forall_forall in *. intros a Ha. apply in_app_or in Ha as [Ha|[<-|Ha]].
  - apply H. eapply In_firstn_in. exact Ha.
  - exact Hv.
  - apply H. eapply In_skipn_in. exact Ha.
Qed.
Lemma Forall_nth_default {A} (P : A -> Prop) l i d : Forall P l -> P d -> P (nth i l d).
Proof.
  intros H Hd. destruct (nth_in_or_default i l d) as [Hi| ->]; [|exact Hd].
  rewrite Forall_forall in H. apply H. exact Hi.
Qed.
Lemma mapM_ext_in {A B} (f g : A -> option B) l : (forall a, In a l -> f a = g a) -> mapM f l = mapM g l.
Proof.
  induction l as [|a l IH]; intros H; cbn [mapM]; [reflexivity|].
  rewrite (H a (or_introl eq_refl)), IH; [reflexivity|]. intros b Hb. apply H. right. exact Hb.
Qed.

Section Scale.
  Context {T : Type} (O : Ops T).
  Variable phi : T -> T.
  Variables V Vt : T -> Prop.
  Definition mid (a b : T) : T := O.(odiv) (O.(oadd) a b) (O.(oofZ) 2).
  Hypothesis phi0 : phi O.(o0) = O.(o0).
  Hypothesis V0 : V O.(o0).
  Hypothesis phi_le : forall a b, V a -> V b -> O.(oleb) (phi a) (phi b) = O.(oleb) a b.
  Hypothesis phi_lt : forall a b, V a -> V b -> O.(oltb) (phi a) (phi b) = O.(oltb) a b.
  Hypothesis phi_eq : forall a b, V a -> V b -> O.(oeqb) (phi a) (phi b) = O.(oeqb) a b.
  Hypothesis mid_V : forall a b, V a -> V b -> Vt (mid a b).
  Hypothesis phi_mid : forall a b, V a -> V b -> mid (phi a) (phi b) = phi (mid a b).
  Hypothesis phi_thr : forall v t, V v -> Vt t -> O.(oleb) (phi v) (phi t) = O.(oleb) v t.

  (* ------------------------------------------------------------------------------------ *)
  (* quick_argsort                                                                          *)
  (* ------------------------------------------------------------------------------------ *)
  Definition pp (p : T * nat) : T * nat := (phi (fst p), snd p).
  Local Notation pm := (map pp).
  Definition AllV (arr : list (T * nat)) : Prop := Forall (fun p => V (fst p)) arr.

  Lemma pp_dpair : pp (dpair O) = dpair O.
  Proof. unfold pp, dpair. cbn [fst snd]. rewrite phi0. reflexivity. Qed.
  Lemma aget_pm arr i : aget O (pm arr) i = pp (aget O arr i).
  Proof. unfold aget. rewrite <- pp_dpair at 1. apply map_nth. Qed.
  Lemma key_pm arr i : key O (pm arr) i = phi (key O arr i).
  Proof. unfold key. rewrite aget_pm. reflexivity. Qed.
  Lemma swap_pm arr i j : swap O (pm arr) i j = pm (swap O arr i j).
  Proof. unfold swap. rewrite !aget_pm, !set_nth_map. reflexivity. Qed.
  Lemma AllV_aget arr i : AllV arr -> V (fst (aget O arr i)).
  Proof. intros H. unfold aget. apply (Forall_nth_default (fun p => V (fst p))); [exact H|exact V0]. Qed.
  Lemma AllV_key arr i : AllV arr -> V (key O arr i).
  Proof. apply AllV_aget. Qed.
  Lemma AllV_set_nth arr i v : AllV arr -> V (fst v) -> AllV (set_nth arr i v).
  Proof. intros H Hv. apply (Forall_set_nth (fun p => V (fst p))); assumption. Qed.
  Lemma AllV_swap arr i j : AllV arr -> AllV (swap O arr i j).
  Proof. intros H. unfold swap. apply AllV_set_nth; [apply AllV_set_nth; [exact H|]|]; apply AllV_aget; exact H. Qed.

  Lemma ins_shift_pm : forall cnt arr a i1, AllV arr -> V (fst a) ->
    ins_shift O (pm arr) (pp a) cnt i1 = pm (ins_shift O arr a cnt i1) /\ AllV (ins_shift O arr a cnt i1).
  Proof.
    induction cnt as [|c IH]; intros arr a i1 HA Ha; cbn [ins_shift].
    - split; [apply set_nth_map|apply AllV_set_nth; assumption].
    - rewrite key_pm. cbn [pp fst]. rewrite phi_le by (try apply AllV_key; assumption).
      destruct (oleb O (key O arr (i1 - 1)) (fst a)).
      + split; [apply set_nth_map|apply AllV_set_nth; assumption].
      + rewrite aget_pm, set_nth_map. apply IH; [|exact Ha].
        apply AllV_set_nth; [exact HA|apply AllV_aget; exact HA].
  Qed.

  Lemma insertion_pm arr l ir : AllV arr ->
    insertion O (pm arr) l ir = pm (insertion O arr l ir) /\ AllV (insertion O arr l ir).
  Proof.
    unfold insertion. generalize (seq (S l) (ir - l)) as js. intros js. revert arr.
    induction js as [|a js IH]; intros arr HA; cbn [fold_left]; [split; [reflexivity|exact HA]|].
    destruct (ins_shift_pm (a - l) arr (aget O arr a) a HA (AllV_aget arr a HA)) as [E1 E2].
    rewrite aget_pm, E1. apply IH. exact E2.
  Qed.

  Lemma scan_up_pm : forall fuel arr a i, AllV arr -> V a ->
    scan_up O fuel (pm arr) (phi a) i = scan_up O fuel arr a i.
  Proof.
    induction fuel as [|f IH]; intros arr a i HA Ha; cbn [scan_up]; [reflexivity|].
    rewrite map_length, key_pm, phi_le by (try apply AllV_key; assumption).
    destruct (S i <? length arr); [|reflexivity].
    destruct (oleb O a (key O arr (S i))); [reflexivity|]. apply IH; assumption.
  Qed.
  Lemma scan_down_pm : forall fuel arr a j, AllV arr -> V a ->
    scan_down O fuel (pm arr) (phi a) j = scan_down O fuel arr a j.
  Proof.
    induction fuel as [|f IH]; intros arr a j HA Ha; cbn [scan_down]; [reflexivity|].
    destruct j as [|j']; [reflexivity|].
    rewrite map_length, key_pm, phi_le by (try apply AllV_key; assumption).
    destruct (j' <? length arr); [|reflexivity].
    destruct (oleb O (key O arr j') a); [reflexivity|]. apply IH; assumption.
  Qed.

  Definition pm3 (r : list (T * nat) * nat * nat) : list (T * nat) * nat * nat :=
    let '(arr, i, j) := r in (pm arr, i, j).
  Lemma part_loop_pm : forall fuel arr a i j, AllV arr -> V a ->
    part_loop O fuel (pm arr) (phi a) i j = option_map pm3 (part_loop O fuel arr a i j) /\
    (forall arr' i' j', part_loop O fuel arr a i j = Some (arr', i', j') -> AllV arr').
  Proof.
    induction fuel as [|f IH]; intros arr a i j HA Ha; cbn [part_loop]; [split; [reflexivity|discriminate]|].
    rewrite map_length, scan_up_pm, scan_down_pm by assumption.
    destruct (scan_up O (length arr) arr a i) as [i'|]; [|split; [reflexivity|discriminate]].
    destruct (scan_down O (length arr) arr a j) as [j'|]; [|split; [reflexivity|discriminate]].
    destruct (j' <? i').
    - split; [reflexivity|]. intros arr' i'' j'' E. inversion E; subst. exact HA.
    - rewrite swap_pm. apply IH; [apply AllV_swap; exact HA|exact Ha].
  Qed.

  Definition cswap (arr : list (T * nat)) (i j : nat) : list (T * nat) :=
    if O.(oltb) (key O arr j) (key O arr i) then swap O arr i j else arr.
  Definition med3 (arr : list (T * nat)) (l ir : nat) : list (T * nat) :=
    cswap (cswap (cswap (swap O arr (Nat.div2 (l + ir)) (l + 1)) l ir) (l + 1) ir) l (l + 1).
  Lemma cswap_pm arr i j : AllV arr -> cswap (pm arr) i j = pm (cswap arr i j) /\ AllV (cswap arr i j).
  Proof.
    intros HA. unfold cswap. rewrite !key_pm, phi_lt by (apply AllV_key; exact HA).
    destruct (oltb O (key O arr j) (key O arr i)); [split; [apply swap_pm|apply AllV_swap; exact HA]|split; [reflexivity|exact HA]].
  Qed.
  Lemma med3_pm arr l ir : AllV arr -> med3 (pm arr) l ir = pm (med3 arr l ir) /\ AllV (med3 arr l ir).
  Proof.
    intros HA. unfold med3. rewrite swap_pm.
    pose proof (AllV_swap arr (Nat.div2 (l + ir)) (l + 1) HA) as H1.
    destruct (cswap_pm _ l ir H1) as [E2 H2]. rewrite E2.
    destruct (cswap_pm _ (l + 1) ir H2) as [E3 H3]. rewrite E3.
    destruct (cswap_pm _ l (l + 1) H3) as [E4 H4]. rewrite E4. split; [reflexivity|exact H4].
  Qed.

  Lemma qs_loop_S fuel arr l ir stack :
    qs_loop O (S fuel) arr l ir stack =
    if ir - l <? 7 then
      match stack with
      | [] => Some (insertion O arr l ir)
      | (l', ir') :: st => qs_loop O fuel (insertion O arr l ir) l' ir' st
      end
    else
      let arr4 := med3 arr l ir in
      let ab := aget O arr4 (l + 1) in
      match part_loop O (length arr4) arr4 (fst ab) (l + 1) ir with
      | None => None
      | Some (arr5, i, j) =>
          let arr7 := set_nth (set_nth arr5 (l + 1) (aget O arr5 j)) j ab in
          if 32 <=? length stack then None
          else if j - l <=? ir - i + 1 then qs_loop O fuel arr7 l (j - 1) ((i, ir) :: stack)
          else qs_loop O fuel arr7 i ir ((l, j - 1) :: stack)
      end.
  Proof. reflexivity. Qed.

  Lemma qs_loop_pm : forall fuel arr l ir stack, AllV arr ->
    qs_loop O fuel (pm arr) l ir stack = option_map pm (qs_loop O fuel arr l ir stack).
  Proof.
    induction fuel as [|f IH]; intros arr l ir stack HA; [reflexivity|].
    rewrite !qs_loop_S. destruct (ir - l <? 7).
    - destruct (insertion_pm arr l ir HA) as [E1 E2]. rewrite E1.
      destruct stack as [|[l' ir'] st]; [reflexivity|]. apply IH. exact E2.
    - cbv zeta. destruct (med3_pm arr l ir HA) as [E4 H4]. rewrite E4.
      set (arr4 := med3 arr l ir) in *. rewrite map_length, aget_pm.
      change (fst (pp (aget O arr4 (l + 1)))) with (phi (fst (aget O arr4 (l + 1)))).
      destruct (part_loop_pm (length arr4) arr4 (fst (aget O arr4 (l + 1))) (l + 1) ir H4 (AllV_aget arr4 (l + 1) H4))
        as [E5 H5]. rewrite E5.
      destruct (part_loop O (length arr4) arr4 (fst (aget O arr4 (l + 1))) (l + 1) ir) as [[[arr5 i] j]|]; [|reflexivity].
      cbn [option_map pm3]. specialize (H5 arr5 i j eq_refl).
      rewrite aget_pm, !set_nth_map.
      assert (H7 : AllV (set_nth (set_nth arr5 (l + 1) (aget O arr5 j)) j (aget O arr4 (l + 1)))).
      { apply AllV_set_nth; [apply AllV_set_nth; [exact H5|apply AllV_aget; exact H5]|apply AllV_aget; exact H4]. }
      destruct (32 <=? length stack); [reflexivity|].
      destruct (j - l <=? ir - i + 1); apply IH; exact H7.
  Qed.

  Lemma combine_map_l (col : list T) : forall (idx : list nat),
    combine (map phi col) idx = pm (combine col idx).
  Proof.
    induction col as [|c col IH]; intros idx; [reflexivity|]. destruct idx as [|i idx]; [reflexivity|].
    cbn [map combine]. rewrite IH. reflexivity.
  Qed.
  Lemma AllV_combine (col : list T) : Forall V col -> forall idx : list nat, AllV (combine col idx).
  Proof.
    induction 1 as [|c col Hc _ IH]; intros idx; [constructor|]. destruct idx as [|i idx]; [constructor|].
    cbn [combine]. constructor; [exact Hc|apply IH].
  Qed.

  Lemma quick_argsort_phi col : Forall V col -> quick_argsort O (map phi col) = quick_argsort O col.
  Proof.
    intros HV. unfold quick_argsort. destruct col as [|c col]; [reflexivity|].
    cbn [map]. change (phi c :: map phi col) with (map phi (c :: col)).
    rewrite map_length, combine_map_l, qs_loop_pm by (apply AllV_combine; exact HV).
    destruct (qs_loop O (2 * length (c :: col) + 2) (combine (c :: col) (seq 0 (length (c :: col)))) 0
                      (length (c :: col) - 1) []) as [arr|]; [|reflexivity].
    cbn [option_map]. f_equal. rewrite map_map. apply map_ext. intros [v i]. reflexivity.
  Qed.

  (* ------------------------------------------------------------------------------------ *)
  (* the data                                                                               *)
  (* ------------------------------------------------------------------------------------ *)
  Variable x : list (list T).
  Hypothesis data_V : forall i j, V (getx O x i j).
  Local Notation x' := (map (map phi) x).

  Lemma rowget_phi row j : rowget O (map phi row) j = phi (rowget O row j).
  Proof. unfold rowget. rewrite <- phi0 at 1. apply map_nth. Qed.
  Lemma getx_phi i j : getx O x' i j = phi (getx O x i j).
  Proof.
    unfold getx. change (@nil T) with (map phi []) at 1. rewrite map_nth.
    exact (rowget_phi (nth i x []) j).
  Qed.
  Lemma hd_len : length (hd [] x') = length (hd [] x).
  Proof. destruct x as [|r t]; [reflexivity|]. cbn [map hd]. apply map_length. Qed.
  Lemma column_phi j : column O x' j = map phi (column O x j) /\ Forall V (column O x j).
  Proof.
    unfold column. split.
    - rewrite !map_map. apply map_ext. intros r. apply rowget_phi.
    - apply Forall_forall. intros v Hv. apply in_map_iff in Hv as (r & <- & Hr).
      apply (In_nth _ _ []) in Hr as (i & _ & <-). exact (data_V i j).
  Qed.
  Lemma argsort_columns_phi p : argsort_columns O x' p = argsort_columns O x p.
  Proof.
    unfold argsort_columns. apply mapM_ext_in. intros j _.
    destruct (column_phi j) as [E H]. rewrite E. apply quick_argsort_phi. exact H.
  Qed.

  (* ------------------------------------------------------------------------------------ *)
  (* the sweep of the regressor                                                             *)
  (* ------------------------------------------------------------------------------------ *)
  Definition cmap {A} (c : cand T A) : cand T A :=
    mkCand (c_feat c) (phi (c_val c)) (c_score c) (c_tco c) (c_fco c).
  Definition bVt {A} (b : option (cand T A)) : Prop :=
    match b with Some c => Vt (c_val c) | None => True end.
  Definition smap (st : @rsweep T) : @rsweep T :=
    mkRS (rs_sum st) (rs_cnt st) (option_map phi (rs_prev st)) (option_map cmap (rs_best st)).
  Definition sV (st : @rsweep T) : Prop :=
    match rs_prev st with Some px => V px | None => True end.

  Lemma nanb_phi v : V v -> nanb O (phi v) = nanb O v.
  Proof. intros H. unfold nanb. rewrite phi_eq by exact H. reflexivity. Qed.

  Lemma reg_step_phi y msl samples n sum pg j st i : sV st ->
    reg_step O x' y msl samples n sum pg j (smap st) i = smap (reg_step O x y msl samples n sum pg j st i) /\
    sV (reg_step O x y msl samples n sum pg j st i) /\
    (bVt (rs_best st) -> bVt (rs_best (reg_step O x y msl samples n sum pg j st i))).
  Proof.
    intros HS. unfold reg_step. destruct (0 <? nth i samples 0); [|auto].
    rewrite getx_phi. pose proof (data_V i j) as Hxi. set (xi := getx O x i j) in *.
    unfold sV in HS. destruct st as [ssum scnt sprev sbest]. cbn [smap rs_sum rs_cnt rs_prev rs_best option_map] in *.
    destruct sprev as [px|]; cbn [option_map orb].
    2:{ split; [reflexivity|]. split; [exact Hxi|auto]. }
    rewrite nanb_phi, phi_eq by assumption.
    destruct (nanb O px || oeqb O xi px).
    { split; [reflexivity|]. split; [exact Hxi|auto]. }
    destruct ((scnt <? msl) || (n - scnt <? msl)).
    { split; [reflexivity|]. split; [exact Hxi|auto]. }
    change (odiv O (oadd O (phi xi) (phi px)) (oofZ O 2)) with (mid (phi xi) (phi px)).
    rewrite phi_mid by assumption.
    change (odiv O (oadd O xi px) (oofZ O 2)) with (mid xi px).
    destruct sbest as [c|]; cbn [option_map cmap c_score].
    - destruct (oltb O (c_score c) _).
      + split; [reflexivity|]. split; [exact Hxi|]. intros _. cbn [rs_best bVt c_val]. apply mid_V; assumption.
      + split; [reflexivity|]. split; [exact Hxi|auto].
    - split; [reflexivity|]. split; [exact Hxi|]. intros _. cbn [rs_best bVt c_val]. apply mid_V; assumption.
  Qed.

  Lemma reg_sweep_phi y msl samples n sum pg j : forall ord st, sV st -> bVt (rs_best st) ->
    fold_left (reg_step O x' y msl samples n sum pg j) ord (smap st) =
    smap (fold_left (reg_step O x y msl samples n sum pg j) ord st) /\
    bVt (rs_best (fold_left (reg_step O x y msl samples n sum pg j) ord st)).
  Proof.
    induction ord as [|i ord IH]; intros st HS HB; cbn [fold_left]; [split; [reflexivity|exact HB]|].
    destruct (reg_step_phi y msl samples n sum pg j st i HS) as (E & HS' & HB'). rewrite E.
    apply IH; [exact HS'|apply HB'; exact HB].
  Qed.

  Lemma reg_find_best_split_phi y order msl samples n sum pg best j : bVt best ->
    reg_find_best_split O x' y order msl samples n sum pg (option_map cmap best) j =
    option_map cmap (reg_find_best_split O x y order msl samples n sum pg best j) /\
    bVt (reg_find_best_split O x y order msl samples n sum pg best j).
  Proof.
    intros HB. unfold reg_find_best_split.
    destruct (reg_sweep_phi y msl samples n sum pg j (nth j order []) (mkRS (o0 O) 0 None best) I HB) as [E B].
    change (mkRS (o0 O) 0 None (option_map cmap best)) with (smap (mkRS (o0 O) 0 None best)).
    rewrite E. split; [reflexivity|exact B].
  Qed.

  Lemma reg_find_phi y order msl mss vars id out s :
    reg_find O x' y order msl mss vars id out s = option_map cmap (reg_find O x y order msl mss vars id out s) /\
    bVt (reg_find O x y order msl mss vars id out s).
  Proof.
    unfold reg_find. destruct (sum_nat s <? mss); [split; [reflexivity|exact I]|].
    cbv zeta.
    assert (G : forall l best, bVt best ->
      fold_left (reg_find_best_split O x' y order msl s (sum_nat s) (omul O out (ofn O (sum_nat s)))
                   (omul O (omul O (ofn O (sum_nat s)) out) out)) l (option_map cmap best) =
      option_map cmap (fold_left (reg_find_best_split O x y order msl s (sum_nat s) (omul O out (ofn O (sum_nat s)))
                   (omul O (omul O (ofn O (sum_nat s)) out) out)) l best) /\
      bVt (fold_left (reg_find_best_split O x y order msl s (sum_nat s) (omul O out (ofn O (sum_nat s)))
                   (omul O (omul O (ofn O (sum_nat s)) out) out)) l best)).
    { induction l as [|j l IH]; intros best HB; cbn [fold_left]; [split; [reflexivity|exact HB]|].
      destruct (reg_find_best_split_phi y order msl s (sum_nat s) (omul O out (ofn O (sum_nat s)))
                  (omul O (omul O (ofn O (sum_nat s)) out) out) best j HB) as [E B].
      rewrite E. apply IH. exact B. }
    exact (G (vars id) None I).
  Qed.

  (* ------------------------------------------------------------------------------------ *)
  (* split and the breadth-first growth (generic in the output type and the split search)   *)
  (* ------------------------------------------------------------------------------------ *)
  Definition relabel {A} (nd : node T A) : node T A :=
    mkNode (output nd) (split_feature nd) (option_map phi (split_value nd)) (split_score nd)
           (true_child nd) (false_child nd).
  Definition nVt {A} (nd : node T A) : Prop :=
    match split_value nd with Some t => Vt t | None => True end.
  Definition oVt (thr : option T) : Prop := match thr with Some t => Vt t | None => True end.

  Lemma goes_true_phi s feat thr i : oVt thr ->
    goes_true O x' s feat (option_map phi thr) i = goes_true O x s feat thr i.
  Proof.
    intros H. unfold goes_true. f_equal. rewrite getx_phi. destruct thr as [t|]; [|reflexivity].
    cbn [option_map le_thr]. apply phi_thr; [apply data_V|exact H].
  Qed.
  Lemma true_part_phi s feat thr : oVt thr ->
    true_part O x' s feat (option_map phi thr) = true_part O x s feat thr.
  Proof.
    intros H. unfold true_part. rewrite map_length. apply map_ext. intros i.
    rewrite goes_true_phi by exact H. reflexivity.
  Qed.
  Lemma false_part_phi s feat thr : oVt thr ->
    false_part O x' s feat (option_map phi thr) = false_part O x s feat thr.
  Proof.
    intros H. unfold false_part. rewrite map_length. apply map_ext. intros i.
    rewrite goes_true_phi by exact H. reflexivity.
  Qed.

  Section GrowScale.
    Context {A : Type} (a0 : A) (msl : nat).
    Variables find find' : nat -> A -> list nat -> option (cand T A).
    Hypothesis Hfind : forall id out s, find' id out s = option_map cmap (find id out s).
    Hypothesis HfindV : forall id out s, bVt (find id out s).
    Local Notation rl := (map (@relabel A)).
    Local Notation NV := (Forall (@nVt A)).

    Lemma nth_relabel nodes k : nth k (rl nodes) (dnode a0) = relabel (nth k nodes (dnode a0)).
    Proof. change (dnode a0) with (relabel (@dnode T A a0)) at 1. apply map_nth. Qed.
    Lemma NV_nth nodes k : NV nodes -> nVt (nth k nodes (dnode a0)).
    Proof. intros H. apply (Forall_nth_default (@nVt A)); [exact H|exact I]. Qed.

    Lemma fbc_phi nodes v : NV nodes ->
      find_best_cutoff a0 find' (rl nodes) v =
        (let '(n1, v1, b) := find_best_cutoff a0 find nodes v in (rl n1, v1, b)) /\
      NV (fst (fst (find_best_cutoff a0 find nodes v))).
    Proof.
      intros HN. unfold find_best_cutoff. rewrite nth_relabel. cbn [relabel output true_child false_child].
      rewrite Hfind. pose proof (HfindV (v_node v) (output (nth (v_node v) nodes (dnode a0))) (v_samples v)) as HB.
      destruct (find (v_node v) (output (nth (v_node v) nodes (dnode a0))) (v_samples v)) as [c|]; cbn [option_map].
      - cbn [fst]. split.
        + rewrite <- set_nth_map. reflexivity.
        + apply Forall_set_nth; [exact HN|exact HB].
      - split; [reflexivity|exact HN].
    Qed.

    Lemma split_phi nodes depth v queue : NV nodes ->
      split O a0 x' msl find' (rl nodes) depth v queue =
        (let '(n1, d1, q1) := split O a0 x msl find nodes depth v queue in (rl n1, d1, q1)) /\
      NV (fst (fst (split O a0 x msl find nodes depth v queue))).
    Proof.
      intros HN. unfold split. rewrite nth_relabel.
      pose proof (NV_nth nodes (v_node v) HN) as Hk.
      set (nd := nth (v_node v) nodes (dnode a0)) in *.
      cbn [relabel output split_feature split_value split_score true_child false_child].
      rewrite true_part_phi, false_part_phi by exact Hk.
      destruct ((sum_nat (true_part O x (v_samples v) (split_feature nd) (split_value nd)) <? msl)
                || (sum_nat (false_part O x (v_samples v) (split_feature nd) (split_value nd)) <? msl)).
      - cbn [fst]. split.
        + rewrite <- set_nth_map. reflexivity.
        + apply Forall_set_nth; [exact HN|exact I].
      - rewrite map_length.
        set (tp := true_part O x (v_samples v) (split_feature nd) (split_value nd)).
        set (fp := false_part O x (v_samples v) (split_feature nd) (split_value nd)).
        set (nodes2 := set_nth (nodes ++ [new_node (v_tco v); new_node (v_fco v)]) (v_node v)
                         (mkNode (output nd) (split_feature nd) (split_value nd) (split_score nd)
                                 (Some (length nodes)) (Some (S (length nodes))))).
        assert (E2 : set_nth (rl nodes ++ [new_node (v_tco v); new_node (v_fco v)]) (v_node v)
                       (mkNode (output nd) (split_feature nd) (option_map phi (split_value nd)) (split_score nd)
                               (Some (length nodes)) (Some (S (length nodes)))) = rl nodes2).
        { unfold nodes2. rewrite <- set_nth_map, map_app. reflexivity. }
        assert (N2 : NV nodes2).
        { unfold nodes2. apply Forall_set_nth; [|exact Hk]. apply Forall_app. split; [exact HN|].
          repeat constructor. }
        rewrite E2.
        destruct (fbc_phi nodes2 (mkVis (length nodes) tp a0 a0 (S (v_level v))) N2) as [E3 N3]. rewrite E3.
        destruct (find_best_cutoff a0 find nodes2 (mkVis (length nodes) tp a0 a0 (S (v_level v)))) as [[nodes3 tv] tb].
        cbn [fst] in N3.
        destruct (fbc_phi nodes3 (mkVis (S (length nodes)) fp a0 a0 (S (v_level v))) N3) as [E4 N4]. rewrite E4.
        destruct (find_best_cutoff a0 find nodes3 (mkVis (S (length nodes)) fp a0 a0 (S (v_level v)))) as [[nodes4 fv] fb].
        cbn [fst] in N4 |- *. split; [reflexivity|exact N4].
    Qed.

    Lemma grow_phi : forall fuel md nodes depth queue, NV nodes ->
      grow O a0 x' msl find' fuel md (rl nodes) depth queue =
      option_map (fun r => (rl (fst r), snd r)) (grow O a0 x msl find fuel md nodes depth queue).
    Proof.
      induction fuel as [|f IH]; intros md nodes depth queue HN; cbn [grow].
      - destruct (depth <? md); [|reflexivity]. destruct queue; reflexivity.
      - destruct (depth <? md); [|reflexivity]. destruct queue as [|v rest]; [reflexivity|].
        destruct (split_phi nodes depth v rest HN) as [E N1]. rewrite E.
        destruct (split O a0 x msl find nodes depth v rest) as [[nodes1 d1] q1]. cbn [fst] in N1.
        apply IH. exact N1.
    Qed.

    Lemma grow_tree_phi root_out samples md :
      grow_tree O a0 x' msl find' root_out samples md =
      option_map (fun r => (rl (fst r), snd r)) (grow_tree O a0 x msl find root_out samples md).
    Proof.
      unfold grow_tree. rewrite map_length.
      assert (N0 : NV [@new_node T A root_out]) by (repeat constructor).
      destruct (fbc_phi [new_node root_out] (mkVis 0 samples a0 a0 1) N0) as [E N1].
      change [@new_node T A root_out] with (rl [@new_node T A root_out]) at 1. rewrite E.
      destruct (find_best_cutoff a0 find [new_node root_out] (mkVis 0 samples a0 a0 1)) as [[nodes1 v1] b].
      cbn [fst] in N1. apply grow_phi. exact N1.
    Qed.
  End GrowScale.

  (* ------------------------------------------------------------------------------------ *)
  (* the fitted regression tree                                                             *)
  (* ------------------------------------------------------------------------------------ *)
  Definition relabel_tree (r : list (node T T) * nat) : list (node T T) * nat := (map relabel (fst r), snd r).

  Lemma fit_regressor_with_order_relabel y samples vars order md msl mss :
    fit_regressor_with_order O x' y samples vars order md msl mss =
    option_map relabel_tree (fit_regressor_with_order O x y samples vars order md msl mss).
  Proof.
    unfold fit_regressor_with_order. destruct (root_stats O y samples) as [n sum].
    apply grow_tree_phi.
    - intros id out s. apply reg_find_phi.
    - intros id out s. apply reg_find_phi.
  Qed.

  Lemma fit_regressor_weak_relabel y samples vars md msl mss :
    fit_regressor_weak O x' y samples vars md msl mss =
    option_map relabel_tree (fit_regressor_weak O x y samples vars md msl mss).
  Proof.
    unfold fit_regressor_weak. rewrite hd_len, argsort_columns_phi.
    destruct (argsort_columns O x (length (hd [] x))) as [order|]; [|reflexivity].
    apply fit_regressor_with_order_relabel.
  Qed.

  Lemma fit_regressor_relabel y md msl mss :
    fit_regressor O x' y md msl mss = option_map relabel_tree (fit_regressor O x y md msl mss).
  Proof.
    unfold fit_regressor. rewrite map_length, hd_len. apply fit_regressor_weak_relabel.
  Qed.
  (* ------------------------------------------------------------------------------------ *)
  (* the classification tree: the same comparisons and the same midpoint                    *)
  (* ------------------------------------------------------------------------------------ *)
  Definition smapc (st : @csweep T) : @csweep T :=
    mkCS (cs_cnt st) (option_map phi (cs_prevx st)) (cs_prevy st) (option_map cmap (cs_best st)).
  Definition sVc (st : @csweep T) : Prop :=
    match cs_prevx st with Some px => V px | None => True end.

  Lemma cls_step_phi lg2 crit yi k msl samples n count pi j st i : sVc st ->
    cls_step O lg2 crit x' yi k msl samples n count pi j (smapc st) i =
      smapc (cls_step O lg2 crit x yi k msl samples n count pi j st i) /\
    sVc (cls_step O lg2 crit x yi k msl samples n count pi j st i) /\
    (bVt (cs_best st) -> bVt (cs_best (cls_step O lg2 crit x yi k msl samples n count pi j st i))).
  Proof.
    intros HS. unfold cls_step. destruct (0 <? nth i samples 0); [|auto].
    rewrite getx_phi. pose proof (data_V i j) as Hxi. set (xi := getx O x i j) in *.
    unfold sVc in HS. destruct st as [scnt sprev sprevy sbest].
    cbn [smapc cs_cnt cs_prevx cs_prevy cs_best option_map] in *.
    destruct sprev as [px|]; cbn [option_map orb].
    2:{ split; [reflexivity|]. split; [exact Hxi|auto]. }
    rewrite nanb_phi, phi_eq by assumption.
    destruct ((nanb O px || oeqb O xi px) || (gety_c yi i =? sprevy)).
    { split; [reflexivity|]. split; [exact Hxi|auto]. }
    destruct ((sum_nat scnt <? msl) || (n - sum_nat scnt <? msl)).
    { split; [reflexivity|]. split; [exact Hxi|auto]. }
    change (odiv O (oadd O (phi xi) (phi px)) (oofZ O 2)) with (mid (phi xi) (phi px)).
    rewrite phi_mid by assumption.
    change (odiv O (oadd O xi px) (oofZ O 2)) with (mid xi px).
    destruct sbest as [c|]; cbn [option_map cmap c_score].
    - destruct (oltb O (c_score c) _).
      + split; [reflexivity|]. split; [exact Hxi|]. intros _. cbn [cs_best bVt c_val]. apply mid_V; assumption.
      + split; [reflexivity|]. split; [exact Hxi|auto].
    - split; [reflexivity|]. split; [exact Hxi|]. intros _. cbn [cs_best bVt c_val]. apply mid_V; assumption.
  Qed.

  Lemma cls_sweep_phi lg2 crit yi k msl samples n count pi j : forall ord st, sVc st -> bVt (cs_best st) ->
    fold_left (cls_step O lg2 crit x' yi k msl samples n count pi j) ord (smapc st) =
    smapc (fold_left (cls_step O lg2 crit x yi k msl samples n count pi j) ord st) /\
    bVt (cs_best (fold_left (cls_step O lg2 crit x yi k msl samples n count pi j) ord st)).
  Proof.
    induction ord as [|i ord IH]; intros st HS HB; cbn [fold_left]; [split; [reflexivity|exact HB]|].
    destruct (cls_step_phi lg2 crit yi k msl samples n count pi j st i HS) as (E & HS' & HB'). rewrite E.
    apply IH; [exact HS'|apply HB'; exact HB].
  Qed.

  Lemma cls_find_best_split_phi lg2 crit yi k order msl samples n count pi best j : bVt best ->
    cls_find_best_split O lg2 crit x' yi k order msl samples n count pi (option_map cmap best) j =
    option_map cmap (cls_find_best_split O lg2 crit x yi k order msl samples n count pi best j) /\
    bVt (cls_find_best_split O lg2 crit x yi k order msl samples n count pi best j).
  Proof.
    intros HB. unfold cls_find_best_split.
    destruct (cls_sweep_phi lg2 crit yi k msl samples n count pi j (nth j order []) (mkCS (repeat 0 k) None 0 best) I HB)
      as [E B].
    change (mkCS (repeat 0 k) None 0 (option_map cmap best)) with (smapc (mkCS (repeat 0 k) None 0 best)).
    rewrite E. split; [reflexivity|exact B].
  Qed.

  Lemma cls_find_phi lg2 crit yi k order msl mss vars id out s :
    cls_find O lg2 crit x' yi k order msl mss vars id out s =
      option_map cmap (cls_find O lg2 crit x yi k order msl mss vars id out s) /\
    bVt (cls_find O lg2 crit x yi k order msl mss vars id out s).
  Proof.
    unfold cls_find.
    assert (Ep : is_pure x' yi s = is_pure x yi s) by (unfold is_pure; rewrite map_length; reflexivity).
    assert (Ec : class_counts x' yi k s = class_counts x yi k s) by (unfold class_counts; rewrite map_length; reflexivity).
    rewrite Ep, Ec. destruct (is_pure x yi s); [split; [reflexivity|exact I]|].
    destruct (sum_nat s <=? mss); [split; [reflexivity|exact I]|].
    cbv zeta.
    set (cnt := class_counts x yi k s). set (pi := impurity O lg2 crit cnt (sum_nat s)).
    assert (G : forall l best, bVt best ->
      fold_left (cls_find_best_split O lg2 crit x' yi k order msl s (sum_nat s) cnt pi) l (option_map cmap best) =
      option_map cmap (fold_left (cls_find_best_split O lg2 crit x yi k order msl s (sum_nat s) cnt pi) l best) /\
      bVt (fold_left (cls_find_best_split O lg2 crit x yi k order msl s (sum_nat s) cnt pi) l best)).
    { induction l as [|j l IH]; intros best HB; cbn [fold_left]; [split; [reflexivity|exact HB]|].
      destruct (cls_find_best_split_phi lg2 crit yi k order msl s (sum_nat s) cnt pi best j HB) as [E B].
      rewrite E. apply IH. exact B. }
    exact (G (vars id) None I).
  Qed.

  Definition relabel_ctree (r : list (node T nat) * nat) : list (node T nat) * nat := (map relabel (fst r), snd r).
  Definition relabel_classifier (r : list T * list (node T nat) * nat) : list T * list (node T nat) * nat :=
    let '(classes, nodes, d) := r in (classes, map relabel nodes, d).

  Lemma fit_classifier_with_order_relabel lg2 crit yi k samples vars order md msl mss :
    fit_classifier_with_order O lg2 crit x' yi k samples vars order md msl mss =
    option_map relabel_ctree (fit_classifier_with_order O lg2 crit x yi k samples vars order md msl mss).
  Proof.
    unfold fit_classifier_with_order. apply grow_tree_phi.
    - intros id out s. apply cls_find_phi.
    - intros id out s. apply cls_find_phi.
  Qed.

  Lemma fit_classifier_weak_relabel lg2 crit y samples vars md msl mss :
    fit_classifier_weak O lg2 crit x' y samples vars md msl mss =
    option_map relabel_classifier (fit_classifier_weak O lg2 crit x y samples vars md msl mss).
  Proof.
    unfold fit_classifier_weak. destruct (length (unique_T O y) <? 2); [reflexivity|].
    destruct (mapM (fun v => position_T O v (unique_T O y)) y) as [yi|]; [|reflexivity].
    rewrite hd_len, argsort_columns_phi.
    destruct (argsort_columns O x (length (hd [] x))) as [order|]; [|reflexivity].
    rewrite fit_classifier_with_order_relabel.
    destruct (fit_classifier_with_order O lg2 crit x yi (length (unique_T O y)) samples vars order md msl mss)
      as [[nodes d]|]; reflexivity.
  Qed.

  Lemma fit_classifier_relabel lg2 crit y md msl mss :
    fit_classifier O lg2 crit x' y md msl mss =
    option_map relabel_classifier (fit_classifier O lg2 crit x y md msl mss).
  Proof.
    unfold fit_classifier. rewrite map_length, hd_len. apply fit_classifier_weak_relabel.
  Qed.
End Scale.
