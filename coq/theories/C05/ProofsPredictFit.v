(* C05 — predicting a TRAINING row with the fitted tree returns the value of the leaf into which that row
   was partitioned at fit time: end-to-end combination of the growth invariant (ghost sample vectors G,
   ProofsGrow), the leaf-value theorems (ProofsReg / ProofsCls / ProofsEndToEnd, exact reals) and the
   path characterisation of predict (ProofsPredict). *)
From Coq Require Import List Arith ZArith Bool Lia Reals Lra.
From SC Require Import Base.Num C05.Model C05.ProofsGrow C05.ProofsSort C05.ProofsReg C05.ProofsCls
                       C05.ProofsSorted C05.ProofsEndToEnd C05.ProofsPredict.
Import ListNotations.
Local Open Scope nat_scope.

(* ---------- regression ---------- *)
Lemma predict_training_regressor_weak x y samples vars md msl mss nodes d :
  length y = length x -> length samples = length x ->
  (forall id j, In j (vars id) -> j < length (hd [] x)) ->
  fit_regressor_weak ROps x y samples vars md msl mss = Some (nodes, d) ->
  exists G D, tree_consistent ROps 0%R x msl (reg_out_ok x y) samples nodes G D /\
    (forall r k, r < length x -> k < length nodes ->
      (route ROps nodes (nth r x []) k -> nth r (G k) 0 = nth r samples 0) /\
      (~ route ROps nodes (nth r x []) k -> nth r (G k) 0 = 0)) /\
    exists outs, predict_regressor ROps nodes x = Some outs /\ length outs = length x /\
      forall i, i < length x ->
        exists k, leaf_of ROps nodes (nth i x []) k /\ k < length nodes /\
          leafb (nth k nodes (dnode 0%R)) = true /\
          nth i (G k) 0 = nth i samples 0 /\
          (forall k', k' < length nodes -> leafb (nth k' nodes (dnode 0%R)) = true -> k' <> k ->
                      nth i (G k') 0 = 0) /\
          nth i outs 0%R = output (nth k nodes (dnode 0%R)) /\
          (0 < nth i samples 0 ->
             nth i outs 0%R =
             (rsum (fun r => IZN (nth r (G k) 0%nat) * nth r y 0) (seq 0%nat (length x)) / IZN (sum_nat (G k)))%R).
Proof.
  intros Hy Hs Hv H.
  destruct (leaf_value_regression_weak x y samples vars md msl mss nodes d Hy Hs Hv H) as (G & D & C & R & M).
  exists G, D. split; [exact C|]. split; [exact R|].
  pose proof (consistent_wf ROps 0%R x msl _ samples nodes G D C) as WF.
  destruct (predict_regressor_leaves ROps nodes x WF) as (outs & E & L & N).
  exists outs. split; [exact E|]. split; [exact L|]. intros i Hi.
  destruct (predict_training_row_structure ROps 0%R x msl _ samples nodes G D i C Hi)
    as (k & Lf & Hk & Lk & Pr & Gk & Oth & Sz).
  destruct (N i Hi) as (k2 & Lf2 & _ & Out). cbn [ROps o0] in Out.
  assert (k2 = k) as -> by (apply (leaf_of_unique ROps nodes (nth i x []) k k2 Lf Lf2)).
  exists k. split; [exact Lf|]. split; [exact Hk|]. split; [exact Lk|]. split; [exact Gk|].
  split; [exact Oth|]. split; [exact Out|]. intros Pos.
  assert (Hpos : 0 < sum_nat (G k)) by lia.
  rewrite Out, <- (M k Hk Hpos). field. apply Rgt_not_eq. apply IZN_pos. exact Hpos.
Qed.

Lemma predict_training_regressor_fit x y md msl mss nodes d :
  length y = length x ->
  fit_regressor ROps x y md msl mss = Some (nodes, d) ->
  exists G D, tree_consistent ROps 0%R x msl (reg_out_ok x y) (repeat 1 (length x)) nodes G D /\
    (forall r k, r < length x -> k < length nodes ->
      (route ROps nodes (nth r x []) k -> nth r (G k) 0 = 1) /\
      (~ route ROps nodes (nth r x []) k -> nth r (G k) 0 = 0)) /\
    exists outs, predict_regressor ROps nodes x = Some outs /\ length outs = length x /\
      forall i, i < length x ->
        exists k, leaf_of ROps nodes (nth i x []) k /\ k < length nodes /\
          leafb (nth k nodes (dnode 0%R)) = true /\
          nth i (G k) 0 = 1 /\
          (forall k', k' < length nodes -> leafb (nth k' nodes (dnode 0%R)) = true -> k' <> k ->
                      nth i (G k') 0 = 0) /\
          nth i outs 0%R = output (nth k nodes (dnode 0%R)) /\
          nth i outs 0%R =
            (rsum (fun r => IZN (nth r (G k) 0%nat) * nth r y 0) (seq 0%nat (length x)) / IZN (sum_nat (G k)))%R.
Proof.
  intros Hy H. unfold fit_regressor in H.
  destruct (predict_training_regressor_weak x y _ _ md msl mss nodes d Hy (repeat_length 1 (length x))
              (fun _ j Hj => in_seq0_lt _ j Hj) H) as (G & D & C & R & outs & E & L & N).
  exists G, D. split; [exact C|]. split.
  { intros r k Hr Hk. destruct (R r k Hr Hk) as [R1 R2]. split; [|exact R2].
    intros Rt. rewrite (R1 Rt). apply nth_repeat_1. exact Hr. }
  exists outs. split; [exact E|]. split; [exact L|]. intros i Hi.
  destruct (N i Hi) as (k & Lf & Hk & Lk & Gk & Oth & Out & Mean).
  rewrite (nth_repeat_1 _ _ Hi) in Gk, Mean.
  exists k. split; [exact Lf|]. split; [exact Hk|]. split; [exact Lk|]. split; [exact Gk|].
  split; [exact Oth|]. split; [exact Out|]. apply Mean. lia.
Qed.

(* ---------- classification ---------- *)
Lemma predict_training_classifier_weak lg2 crit x y samples vars md msl mss classes nodes d :
  length y = length x -> length samples = length x ->
  (forall id j, In j (vars id) -> j < length (hd [] x)) ->
  fit_classifier_weak ROps lg2 crit x y samples vars md msl mss = Some (classes, nodes, d) ->
  exists yi, length yi = length x /\
    (forall i, i < length x -> nth i yi 0 < length classes /\ nth (nth i yi 0) classes 0%R = nth i y 0%R) /\
    exists G D, tree_consistent ROps 0 x msl (cls_out_ok x yi (length classes)) samples nodes G D /\
      (forall r n, r < length x -> n < length nodes ->
        (route ROps nodes (nth r x []) n -> nth r (G n) 0 = nth r samples 0) /\
        (~ route ROps nodes (nth r x []) n -> nth r (G n) 0 = 0)) /\
      exists labels, predict_classifier ROps classes nodes x = Some labels /\ length labels = length x /\
        forall i, i < length x ->
          exists k, leaf_of ROps nodes (nth i x []) k /\ k < length nodes /\
            leafb (nth k nodes (dnode 0)) = true /\
            nth i (G k) 0 = nth i samples 0 /\
            (forall k', k' < length nodes -> leafb (nth k' nodes (dnode 0)) = true -> k' <> k ->
                        nth i (G k') 0 = 0) /\
            output (nth k nodes (dnode 0)) < length classes /\
            nth i labels 0%R = nth (output (nth k nodes (dnode 0))) classes 0%R /\
            In (nth i labels 0%R) y /\
            forall c, nth c (cvec x yi (length classes) (G k)) 0 <=
                      nth (output (nth k nodes (dnode 0))) (cvec x yi (length classes) (G k)) 0.
Proof.
  intros Hy Hs Hv H.
  destruct (leaf_value_classification_weak lg2 crit x y samples vars md msl mss classes nodes d Hy Hs Hv H)
    as (yi & Ly & Py & G & D & C & R & M).
  exists yi. split; [exact Ly|]. split; [exact Py|]. exists G, D. split; [exact C|]. split; [exact R|].
  pose proof (consistent_wf ROps 0 x msl _ samples nodes G D C) as WF.
  destruct (predict_classifier_leaves ROps classes nodes x WF) as (labels & E & L & N).
  { intros k Hk _. exact (proj1 (M k Hk)). }
  exists labels. split; [exact E|]. split; [exact L|]. intros i Hi.
  destruct (predict_training_row_structure ROps 0 x msl _ samples nodes G D i C Hi)
    as (k & Lf & Hk & Lk & Pr & Gk & Oth & Sz).
  destruct (N i Hi) as (k2 & Lf2 & _ & Hc & Out). cbn [ROps o0] in Out.
  assert (k2 = k) as -> by (apply (leaf_of_unique ROps nodes (nth i x []) k k2 Lf Lf2)).
  exists k. split; [exact Lf|]. split; [exact Hk|]. split; [exact Lk|]. split; [exact Gk|].
  split; [exact Oth|]. split; [exact Hc|]. split; [exact Out|]. split.
  - rewrite Out. exact (classifier_labels_original ROps lg2 crit x y samples vars md msl mss classes nodes d _ 0%R H Hc).
  - exact (proj2 (M k Hk)).
Qed.

Lemma predict_training_classifier_fit lg2 crit x y md msl mss classes nodes d :
  length y = length x ->
  fit_classifier ROps lg2 crit x y md msl mss = Some (classes, nodes, d) ->
  exists yi, length yi = length x /\
    (forall i, i < length x -> nth i yi 0 < length classes /\ nth (nth i yi 0) classes 0%R = nth i y 0%R) /\
    exists G D, tree_consistent ROps 0 x msl (cls_out_ok x yi (length classes)) (repeat 1 (length x)) nodes G D /\
      (forall r n, r < length x -> n < length nodes ->
        (route ROps nodes (nth r x []) n -> nth r (G n) 0 = 1) /\
        (~ route ROps nodes (nth r x []) n -> nth r (G n) 0 = 0)) /\
      exists labels, predict_classifier ROps classes nodes x = Some labels /\ length labels = length x /\
        forall i, i < length x ->
          exists k, leaf_of ROps nodes (nth i x []) k /\ k < length nodes /\
            leafb (nth k nodes (dnode 0)) = true /\
            nth i (G k) 0 = 1 /\
            (forall k', k' < length nodes -> leafb (nth k' nodes (dnode 0)) = true -> k' <> k ->
                        nth i (G k') 0 = 0) /\
            output (nth k nodes (dnode 0)) < length classes /\
            nth i labels 0%R = nth (output (nth k nodes (dnode 0))) classes 0%R /\
            In (nth i labels 0%R) y /\
            forall c, nth c (cvec x yi (length classes) (G k)) 0 <=
                      nth (output (nth k nodes (dnode 0))) (cvec x yi (length classes) (G k)) 0.
Proof.
  intros Hy H. unfold fit_classifier in H.
  destruct (predict_training_classifier_weak lg2 crit x y _ _ md msl mss classes nodes d Hy
              (repeat_length 1 (length x)) (fun _ j Hj => in_seq0_lt _ j Hj) H)
    as (yi & Ly & Py & G & D & C & R & labels & E & L & N).
  exists yi. split; [exact Ly|]. split; [exact Py|]. exists G, D. split; [exact C|]. split.
  { intros r n Hr Hn. destruct (R r n Hr Hn) as [R1 R2]. split; [|exact R2].
    intros Rt. rewrite (R1 Rt). apply nth_repeat_1. exact Hr. }
  exists labels. split; [exact E|]. split; [exact L|]. intros i Hi.
  destruct (N i Hi) as (k & Lf & Hk & Lk & Gk & Rest).
  rewrite (nth_repeat_1 _ _ Hi) in Gk.
  exists k. split; [exact Lf|]. split; [exact Hk|]. split; [exact Lk|]. split; [exact Gk|]. exact Rest.
Qed.

(* ---------- any number type (binary64 included), both trees: the structural half ---------- *)
Lemma predict_training_rows_structure {T A} (O : Ops T) (a0 : A) x msl find root_out samples md nodes d :
  grow_tree O a0 x msl find root_out samples md = Some (nodes, d) ->
  exists G D, tree_consistent O a0 x msl (fun _ _ => True) samples nodes G D /\
    forall i, i < length x ->
      exists k, leaf_of O nodes (nth i x []) k /\ k < length nodes /\ leafb (nth k nodes (dnode a0)) = true /\
        predict_for_row O nodes (nth i x []) = Some (output (nth k nodes (dnode a0))) /\
        nth i (G k) 0 = nth i samples 0 /\
        (forall k', k' < length nodes -> leafb (nth k' nodes (dnode a0)) = true -> k' <> k -> nth i (G k') 0 = 0) /\
        nth i samples 0 <= sum_nat (G k).
Proof.
  intros H. destruct (grow_tree_structure O a0 x msl find root_out samples md nodes d H) as (G & D & C & _).
  exists G, D. split; [exact C|]. intros i Hi.
  exact (predict_training_row_structure O a0 x msl _ samples nodes G D i C Hi).
Qed.
