(* C05 — scale invariance over exact reals: multiplying every feature value by a constant c > 0 leaves the
   fitted regression tree unchanged except that every threshold is multiplied by c (instance of
   C05/ProofsScale.v with phi = (fun v => v * c), V = Vt = everything). *)
From Coq Require Import List Arith ZArith Bool Lia Reals Lra Psatz.
From SC Require Import Base.Num C05.Model C05.ProofsGrow C05.ProofsScale.
Import ListNotations.
Open Scope R_scope.

Section ScaleR.
  Variable c : R.
  Hypothesis Hc : 0 < c.
  Definition rscale (v : R) : R := v * c.
  Let VR (_ : R) : Prop := True.

  Lemma Rleb_scale a b : Rleb (a * c) (b * c) = Rleb a b.
  Proof.
    destruct (Rleb a b) eqn:E.
    - apply Rleb_true in E. apply Rleb_true. apply Rmult_le_compat_r; lra.
    - apply Rleb_false in E. apply Rleb_false. apply Rmult_lt_compat_r; lra.
  Qed.
  Lemma Rltb_scale a b : Rltb (a * c) (b * c) = Rltb a b.
  Proof.
    destruct (Rltb a b) eqn:E.
    - apply Rltb_true in E. apply Rltb_true. apply Rmult_lt_compat_r; lra.
    - apply Rltb_false in E. apply Rltb_false. apply Rmult_le_compat_r; lra.
  Qed.
  Lemma Reqb_scale a b : Reqb (a * c) (b * c) = Reqb a b.
  Proof.
    destruct (Reqb a b) eqn:E.
    - apply Reqb_true in E. apply Reqb_true. rewrite E. reflexivity.
    - apply Reqb_false in E. apply Reqb_false. intros H. apply E. apply Rmult_eq_reg_r with c; lra.
  Qed.

  Ltac scale_laws :=
    unfold rscale, VR, mid; cbn [ROps o0 oleb oltb oeqb odiv oadd oofZ]; intros; auto;
    first [ apply Rleb_scale | apply Rltb_scale | apply Reqb_scale | ring | field ].

  Lemma fit_regressor_weak_scale_R x y samples vars md msl mss :
    fit_regressor_weak ROps (map (map rscale) x) y samples vars md msl mss =
    option_map (relabel_tree rscale) (fit_regressor_weak ROps x y samples vars md msl mss).
  Proof. apply (fit_regressor_weak_relabel ROps rscale VR VR); scale_laws. Qed.
  Lemma fit_regressor_scale_R x y md msl mss :
    fit_regressor ROps (map (map rscale) x) y md msl mss =
    option_map (relabel_tree rscale) (fit_regressor ROps x y md msl mss).
  Proof. apply (fit_regressor_relabel ROps rscale VR VR); scale_laws. Qed.
  Lemma fit_classifier_weak_scale_R lg2 crit x y samples vars md msl mss :
    fit_classifier_weak ROps lg2 crit (map (map rscale) x) y samples vars md msl mss =
    option_map (relabel_classifier rscale) (fit_classifier_weak ROps lg2 crit x y samples vars md msl mss).
  Proof. apply (fit_classifier_weak_relabel ROps rscale VR VR); scale_laws. Qed.
  Lemma fit_classifier_scale_R lg2 crit x y md msl mss :
    fit_classifier ROps lg2 crit (map (map rscale) x) y md msl mss =
    option_map (relabel_classifier rscale) (fit_classifier ROps lg2 crit x y md msl mss).
  Proof. apply (fit_classifier_relabel ROps rscale VR VR); scale_laws. Qed.
End ScaleR.
