(* C05 — classification tree: optimality of the split search among BOUNDARY thresholds, and
   completeness of the growth relative to them (exact reals; any criterion, any `lg2`, any limits).

   The classifier's sweep examines the midpoint between two consecutive counted rows of a sorted
   order only if their values differ AND their classes differ.  `boundary s j t` says that t
   separates two counted rows r1, r2 that are adjacent in value (no counted row strictly between
   them) and have different classes.  With pairwise distinct values within the feature these are
   exactly the thresholds the sweep examines, and the running best dominates all of them.
   `cls_gain` is the impurity decrease impurity(parent) - (tc/n) impurity(true) - (fc/n) impurity(false)
   computed from the class-count vectors of the two parts.
   NOT proved here: that for min_samples_leaf = 1 the best boundary threshold is also best among ALL
   admissible thresholds (concavity of the impurity along a run of equal classes, Fayyad-Irani). *)
From Coq Require Import List Arith ZArith Bool Lia Reals Lra Permutation Sorted Classical_Prop.
From SC Require Import Base.Num C05.Model C05.ProofsGrow C05.ProofsSort C05.ProofsReg C05.ProofsCls C05.ProofsSorted C05.ProofsEndToEnd
                       C05.ProofsGrowFull C05.ProofsOpt.
Import ListNotations.
Open Scope R_scope.

Lemma nsum_indicator_out v c0 : forall k s0, (c0 < s0)%nat ->
  nsum (fun c => if c0 =? c then v else 0%nat) (seq s0 k) = 0%nat.
Proof.
  intros k s0 H. apply nsum_zero. intros c Hc. apply in_seq in Hc.
  destruct (c0 =? c) eqn:E; [apply Nat.eqb_eq in E; lia|reflexivity].
Qed.
Lemma nsum_indicator v c0 : forall k s0, (s0 <= c0 < s0 + k)%nat ->
  nsum (fun c => if c0 =? c then v else 0%nat) (seq s0 k) = v.
Proof.
  induction k as [|k IH]; intros s0 H; [lia|]. cbn [seq nsum].
  destruct (c0 =? s0) eqn:E.
  - apply Nat.eqb_eq in E. subst s0. rewrite nsum_indicator_out by lia. lia.
  - apply Nat.eqb_neq in E. rewrite IH by lia. lia.
Qed.

Section ClsOpt.
  Variable lg2 : R -> R.
  Variable crit : criterion.
  Variable x : list (list R).
  Variable yi : list nat.
  Variable k : nat.
  Variable msl : nat.
  Let N := length x.
  Hypothesis yi_lt : forall r, (nth r yi 0 < k)%nat.

  Local Notation imp := (impurity ROps lg2 crit).
  Local Notation cv := (cvec x yi k).
  Local Notation cadm := (adm x msl).

  Lemma class_sum s l :
    nsum (fun c => nsum (ind yi s c) l) (seq 0 k) = nsum (fun r => nth r s 0%nat) l.
  Proof.
    induction l as [|a l IH]; cbn [nsum].
    - apply nsum_zero. reflexivity.
    - rewrite nsum_plus, IH. f_equal. unfold ind. apply nsum_indicator. pose proof (yi_lt a). lia.
  Qed.

  Definition cls_gain (s : list nat) (j : nat) (t : R) : R :=
    let tp := true_part ROps x s j (Some t) in
    let fp := false_part ROps x s j (Some t) in
    imp (cv s) (sum_nat s)
    - IZN (sum_nat tp) / IZN (sum_nat s) * imp (cv tp) (sum_nat tp)
    - IZN (sum_nat fp) / IZN (sum_nat s) * imp (cv fp) (sum_nat fp).
  Definition cgain_val (cnt : list nat) (s : list nat) : R :=
    imp (cv s) (sum_nat s)
    - IZN (sum_nat cnt) / IZN (sum_nat s) * imp cnt (sum_nat cnt)
    - IZN (sum_nat s - sum_nat cnt) / IZN (sum_nat s) *
      imp (map (fun l => nth l (cv s) 0 - nth l cnt 0)%nat (seq 0 k)) (sum_nat s - sum_nat cnt).

  Definition boundary (s : list nat) (j : nat) (t : R) : Prop :=
    exists r1 r2, (r1 < N)%nat /\ (r2 < N)%nat /\ (0 < nth r1 s 0)%nat /\ (0 < nth r2 s 0)%nat /\
      X x j r1 <= t /\ t < X x j r2 /\
      (forall r, (r < N)%nat -> (0 < nth r s 0)%nat -> X x j r <= X x j r1 \/ X x j r2 <= X x j r) /\
      nth r1 yi 0%nat <> nth r2 yi 0%nat.
  Definition distinct_feature (j : nat) : Prop :=
    forall r r', (r < N)%nat -> (r' < N)%nat -> X x j r = X x j r' -> r = r'.

  Lemma cnt_sum s pre : sum_nat (map (fun c => nsum (ind yi s c) pre) (seq 0 k)) = nsum (fun r => nth r s 0%nat) pre.
  Proof. rewrite sum_nat_map. apply class_sum. Qed.

  Lemma cgain_formula s j ord pre i suf px thr :
    sorted_order x j ord -> ord = pre ++ i :: suf -> length s = N ->
    (forall r, In r pre -> (0 < nth r s 0)%nat -> X x j r <= px) -> px <= thr -> thr < X x j i ->
    cls_gain s j thr = cgain_val (map (fun c => nsum (ind yi s c) pre) (seq 0 k)) s /\
    sum_nat (true_part ROps x s j (Some thr)) = nsum (fun r => nth r s 0%nat) pre /\
    (sum_nat (false_part ROps x s j (Some thr)) + sum_nat (true_part ROps x s j (Some thr)) = sum_nat s)%nat.
  Proof.
    intros HS E Hl Hp H1 H2.
    destruct (cvec_split x yi k s j ord pre i suf px thr HS E Hl Hp H1 H2) as [C1 C2].
    destruct (split_sums x [] s j ord pre i suf px thr HS E Hl Hp H1 H2) as (T1 & _ & T3 & _).
    split; [|split; assumption].
    unfold cls_gain, cgain_val. cbn zeta. rewrite C1, C2, cnt_sum, T1.
    replace (sum_nat (false_part ROps x s j (Some thr))) with (sum_nat s - nsum (fun r => nth r s 0%nat) pre)%nat by lia.
    reflexivity.
  Qed.

  Definition cbest_valid (s : list nat) (b : option (cand R nat)) : Prop :=
    match b with
    | None => True
    | Some c => cadm s (c_feat c) (c_val c) /\ c_score c = cls_gain s (c_feat c) (c_val c)
    end.
  Definition cdom (s : list nat) (b : option (cand R nat)) (Cov : nat -> R -> Prop) : Prop :=
    forall j t, Cov j t -> cadm s j t -> boundary s j t -> exists c, b = Some c /\ cls_gain s j t <= c_score c.
  Definition prevy_inv (s : list nat) (j : nat) (pre : list nat) (st : csweep) : Prop :=
    match cs_prevx st with
    | None => True
    | Some px => exists r0, In r0 pre /\ (0 < nth r0 s 0)%nat /\ X x j r0 = px /\ gety_c yi r0 = cs_prevy st
    end.

  Lemma cls_step_opt s j ord pre i suf st (Cov : nat -> R -> Prop) :
    sorted_order x j ord -> ord = pre ++ i :: suf -> length s = N -> distinct_feature j ->
    csweep_inv x yi k s j pre st -> prevy_inv s j pre st -> cbest_valid s (cs_best st) ->
    cdom s (cs_best st) (fun j' t => Cov j' t \/ (j' = j /\ seen x s j pre t)) ->
    let st' := cls_step ROps lg2 crit x yi k msl s (sum_nat s) (cv s) (imp (cv s) (sum_nat s)) j st i in
    prevy_inv s j (pre ++ [i]) st' /\ cbest_valid s (cs_best st') /\
    cdom s (cs_best st') (fun j' t => Cov j' t \/ (j' = j /\ seen x s j (pre ++ [i]) t)).
  Proof.
    intros HS E Hl Dj (I1 & I3 & I4) PY BV DM. cbn zeta.
    pose proof HS as [P SS]. rewrite E in SS. apply StronglySorted_mid in SS as [Pre Suf].
    rewrite Forall_forall in Pre, Suf.
    assert (Hi : (i < N)%nat) by (apply (order_lt x j ord i HS); rewrite E; apply in_or_app; right; left; reflexivity).
    unfold cls_step. destruct (0 <? nth i s 0)%nat eqn:Z.
    2:{ apply Nat.ltb_ge in Z. split; [|split; [exact BV|]].
        - unfold prevy_inv in *. destruct (cs_prevx st); [|exact I]. destruct PY as (r0 & Hr0 & R).
          exists r0. split; [apply in_or_app; left; exact Hr0|exact R].
        - intros j' t [C|[-> (r & Hr & Hw & Ht)]] Ha Hb.
          + apply DM; auto.
          + apply in_app_or in Hr as [Hr|[<-|[]]]; [|lia]. apply DM; [right; split; [reflexivity|]|exact Ha|exact Hb].
            exists r. auto. }
    apply Nat.ltb_lt in Z.
    (* every branch below stores (Some xi, class of i): the prevy invariant holds for all of them *)
    assert (PY' : forall cnt b, prevy_inv s j (pre ++ [i]) (mkCS cnt (Some (getx ROps x i j)) (gety_c yi i) b)).
    { intros cnt b. unfold prevy_inv. cbn [cs_prevx cs_prevy]. exists i.
      split; [apply in_or_app; right; left; reflexivity|]. split; [exact Z|]. split; reflexivity. }
    set (NewT := fun t => cadm s j t /\ boundary s j t /\
                          (forall r, In r pre -> (0 < nth r s 0)%nat -> X x j r <= t) /\ t < X x j i).
    set (tc := sum_nat (cs_cnt st)).
    assert (Etc : tc = nsum (fun r => nth r s 0%nat) pre) by (unfold tc; rewrite I1; apply cnt_sum).
    assert (NF : forall t, NewT t ->
              (0 < tc /\ msl <= tc /\ msl <= sum_nat s - tc)%nat /\
              cls_gain s j t = cgain_val (cs_cnt st) s /\
              forall px, cs_prevx st = Some px -> px <= t /\ gety_c yi i <> cs_prevy st).
    { intros t (Ha & Hb & Hp & Ht).
      destruct (cgain_formula s j ord pre i suf t t HS E Hl Hp (Rle_refl t) Ht) as (Gf & T1 & T3).
      destruct Ha as (A1 & A2 & A3 & A4). rewrite <- Etc in T1. rewrite <- I1 in Gf.
      split; [lia|]. split; [exact Gf|].
      intros px Epx. rewrite Epx in I3. destruct I3 as [_ I3]. unfold prevy_inv in PY. rewrite Epx in PY.
      destruct PY as (r0 & Hr0 & Hw0 & Hx0 & Hy0). split; [rewrite <- Hx0; apply Hp; assumption|].
      destruct Hb as (r1 & r2 & L1 & L2 & W1 & W2 & B1 & B2 & Gap & Ny).
      assert (Hr0N : (r0 < N)%nat) by (apply (order_lt x j ord r0 HS); rewrite E; apply in_or_app; left; exact Hr0).
      (* r2 = i *)
      assert (In2 : In r2 ord) by (destruct HS as [Pm _]; apply (Permutation_in _ (Permutation_sym Pm)); apply in_seq; fold N; lia).
      assert (E2 : r2 = i).
      { rewrite E in In2. apply in_app_or in In2 as [In2|In2].
        - specialize (Hp r2 In2 W2). lra.
        - assert (X x j i <= X x j r2) by (destruct In2 as [->|In2]; [lra|apply Suf; exact In2]).
          destruct (Gap i Hi Z) as [G|G]; [lra|]. apply Dj; [exact L2|exact Hi|lra]. }
      assert (In1 : In r1 ord) by (destruct HS as [Pm _]; apply (Permutation_in _ (Permutation_sym Pm)); apply in_seq; fold N; lia).
      assert (E1 : r1 = r0).
      { rewrite E in In1. apply in_app_or in In1 as [In1|In1].
        - assert (X x j r1 <= px) by (apply I3; assumption).
          assert (X x j r0 <= t) by (apply Hp; assumption).
          destruct (Gap r0 Hr0N Hw0) as [G|G]; [|subst r2; lra]. apply Dj; [exact L1|exact Hr0N|lra].
        - assert (X x j i <= X x j r1) by (destruct In1 as [->|In1]; [lra|apply Suf; exact In1]). lra. }
      subst r1 r2. unfold gety_c in *. rewrite <- Hy0. auto. }
    assert (Split : forall j' t, (Cov j' t \/ (j' = j /\ seen x s j (pre ++ [i]) t)) ->
              (Cov j' t \/ (j' = j /\ seen x s j pre t)) \/ (j' = j /\ (cadm s j t -> boundary s j t -> NewT t))).
    { intros j' t [C|[-> (r & Hr & Hw & Ht)]]; [left; left; exact C|].
      destruct (classic (seen x s j pre t)) as [Sn|Ns]; [left; right; auto|].
      right. split; [reflexivity|]. intros Ha Hb. split; [exact Ha|]. split; [exact Hb|]. split.
      - intros r' Hr' Hw'. apply Rnot_lt_le. intros Hlt. apply Ns. exists r'. auto.
      - apply in_app_or in Hr as [Hr|[<-|[]]]; [|exact Ht]. exfalso. apply Ns. exists r. auto. }
    assert (KEEP : (forall t, NewT t -> False) ->
              cbest_valid s (cs_best st) /\
              cdom s (cs_best st) (fun j' t => Cov j' t \/ (j' = j /\ seen x s j (pre ++ [i]) t))).
    { intros NoNew. split; [exact BV|]. intros j' t Hc Ha Hb.
      destruct (Split j' t Hc) as [Old|[-> Hnew]]; [apply DM; assumption|]. exfalso. apply (NoNew t). auto. }
    destruct (cs_prevx st) as [px|] eqn:EP.
    2:{ cbn [orb]. split; [apply PY'|]. cbn [cs_best]. apply KEEP. intros t Hn. destruct (NF t Hn) as ((C0 & _) & _).
        rewrite Etc in C0. rewrite nsum_zero in C0 by exact I3. lia. }
    destruct ((nanb ROps px || oeqb ROps (getx ROps x i j) px) || (gety_c yi i =? cs_prevy st)%nat) eqn:First.
    { split; [apply PY'|]. cbn [cs_best]. apply KEEP. intros t Hn. destruct (NF t Hn) as (_ & _ & Hpx).
      destruct (Hpx px eq_refl) as [Hle Hy]. destruct Hn as (_ & _ & _ & Ht).
      apply orb_prop in First as [F|F]; [apply orb_prop in F as [F|F]|].
      - unfold nanb in F. cbn [ROps oeqb] in F. rewrite (proj2 (Reqb_true px px) eq_refl) in F. discriminate.
      - cbn [ROps oeqb] in F. apply Reqb_true in F. fold (X x j i) in F. lra.
      - apply Nat.eqb_eq in F. congruence. }
    apply orb_false_elim in First as [First _]. apply orb_false_elim in First as [_ Neq].
    cbn [ROps oeqb] in Neq. apply Reqb_false in Neq.
    fold tc.
    destruct ((tc <? msl)%nat || (sum_nat s - tc <? msl)%nat) eqn:Guard.
    { split; [apply PY'|]. cbn [cs_best]. apply KEEP. intros t Hn. destruct (NF t Hn) as ((_ & C1 & C2) & _).
      apply orb_prop in Guard as [Gd|Gd]; apply Nat.ltb_lt in Gd; lia. }
    apply orb_false_elim in Guard as [G1 G2]. apply Nat.ltb_ge in G1, G2.
    destruct I3 as [(r0 & Hr0 & Hw0 & Hx0) I3].
    fold (X x j i) in Neq |- *.
    assert (Hlt : px < X x j i).
    { specialize (Pre r0 Hr0). cbn beta in Pre. rewrite Hx0 in Pre. lra. }
    set (thr := odiv ROps (oadd ROps (X x j i) px) (oofZ ROps 2)).
    assert (Hthr : px <= thr /\ thr < X x j i) by (unfold thr; cbn [ROps odiv oadd oofZ]; lra).
    destruct (cgain_formula s j ord pre i suf px thr HS E Hl I3 (proj1 Hthr) (proj2 Hthr)) as (Gf & T1 & T3).
    rewrite <- Etc in T1. rewrite <- I1 in Gf.
    assert (Htc : (0 < tc)%nat).
    { rewrite Etc. pose proof (nsum_le_total (fun r => nth r s 0%nat) pre r0 Hr0). cbn beta in H. lia. }
    assert (Hn : (tc + nth i s 0 <= sum_nat s)%nat).
    { rewrite (sum_nat_nsum s N Hl), (nsum_order x j ord _ HS), E, nsum_app, Etc. cbn [nsum]. lia. }
    match goal with |- context [mkCand j _ ?g _ _] => set (gain := g) end.
    assert (Egain : gain = cgain_val (cs_cnt st) s) by reflexivity.
    assert (Enew : forall t, NewT t -> cls_gain s j t = gain).
    { intros t Hn'. destruct (NF t Hn') as (_ & R & _). rewrite R, Egain. reflexivity. }
    destruct (match cs_best st with None => true | Some c => oltb ROps (c_score c) gain end) eqn:Better.
    - split; [apply PY'|]. cbn [cs_best]. split.
      + cbn [cbest_valid c_feat c_val c_score]. fold thr. split; [|rewrite Gf; exact Egain].
        unfold adm. lia.
      + intros j' t Hc Ha Hb. eexists. split; [reflexivity|]. cbn [c_score].
        destruct (Split j' t Hc) as [Old|[-> Hnew]].
        * destruct (DM j' t Old Ha Hb) as (c0 & Ec & Le). rewrite Ec in Better.
          cbn [ROps oltb] in Better. apply Rltb_true in Better. lra.
        * rewrite (Enew t (Hnew Ha Hb)). lra.
    - split; [apply PY'|]. cbn [cs_best]. split; [exact BV|]. intros j' t Hc Ha Hb.
      destruct (Split j' t Hc) as [Old|[-> Hnew]]; [apply DM; assumption|].
      destruct (cs_best st) as [c0|]; [|discriminate]. exists c0. split; [reflexivity|].
      cbn [ROps oltb] in Better. apply Rltb_false in Better. rewrite (Enew t (Hnew Ha Hb)). exact Better.
  Qed.

  Lemma cls_sweep_opt s j ord (Cov : nat -> R -> Prop) :
    sorted_order x j ord -> length s = N -> distinct_feature j ->
    forall suf pre st, ord = pre ++ suf -> csweep_inv x yi k s j pre st -> prevy_inv s j pre st ->
      cbest_valid s (cs_best st) ->
      cdom s (cs_best st) (fun j' t => Cov j' t \/ (j' = j /\ seen x s j pre t)) ->
      let b := cs_best (fold_left (cls_step ROps lg2 crit x yi k msl s (sum_nat s) (cv s) (imp (cv s) (sum_nat s)) j) suf st) in
      cbest_valid s b /\ cdom s b (fun j' t => Cov j' t \/ (j' = j /\ seen x s j ord t)) /\ cbest_ok x yi k s b.
  Proof.
    intros HS Hl Dj. induction suf as [|i suf IH]; intros pre st E I PY BV DM; cbn zeta.
    - cbn [fold_left]. rewrite app_nil_r in E. subst pre. destruct I as (_ & _ & I4). auto.
    - cbn [fold_left].
      destruct (cls_step_opt s j ord pre i suf st Cov HS E Hl Dj I PY BV DM) as (PY' & BV' & DM').
      apply (IH (pre ++ [i])); [rewrite <- app_assoc; exact E| |exact PY'|exact BV'|exact DM'].
      eapply cls_step_inv; eauto.
  Qed.

  Variable order : list (list nat).
  Variable mss : nat.
  Variable vars : nat -> list nat.
  Hypothesis orders_ok : forall id j, In j (vars id) -> sorted_order x j (nth j order []).
  Hypothesis distinct_ok : forall id j, In j (vars id) -> distinct_feature j.

  Lemma cls_features_opt id s : length s = N ->
    forall l done b, (forall j, In j l -> In j (vars id)) -> cbest_valid s b -> cbest_ok x yi k s b ->
      cdom s b (fun j' _ => In j' done) ->
      let b' := fold_left (cls_find_best_split ROps lg2 crit x yi k order msl s (sum_nat s) (cv s)
                                                (imp (cv s) (sum_nat s))) l b in
      cbest_valid s b' /\ cdom s b' (fun j' _ => In j' (done ++ l)).
  Proof.
    intros Hl. induction l as [|j l IH]; intros done b Hin BV BO DM; cbn zeta.
    - cbn [fold_left]. rewrite app_nil_r. auto.
    - cbn [fold_left]. pose proof (orders_ok id j (Hin j (or_introl eq_refl))) as HS.
      pose proof (distinct_ok id j (Hin j (or_introl eq_refl))) as Dj.
      unfold cls_find_best_split at 2.
      destruct (cls_sweep_opt s j (nth j order []) (fun j' _ => In j' done) HS Hl Dj
                  (nth j order []) [] (mkCS (repeat 0%nat k) None 0%nat b) eq_refl) as (BV' & DM' & BO').
      + unfold csweep_inv. cbn [cs_cnt cs_prevx cs_best]. split; [|split; [intros r []|exact BO]].
        apply repeat_map0. reflexivity.
      + exact I.
      + exact BV.
      + intros j' t [C|[_ (r & [] & _)]] Ha Hb. apply DM; assumption.
      + cbn zeta in BV', DM'.
        replace (done ++ j :: l) with ((done ++ [j]) ++ l) by (rewrite <- app_assoc; reflexivity).
        apply IH; [intros j' Hj'; apply Hin; right; exact Hj'|exact BV'|exact BO'|].
        intros j' t Hc Ha Hb. apply DM'; [|exact Ha|exact Hb].
        apply in_app_or in Hc as [Hc|[<-|[]]]; [left; exact Hc|right]. split; [reflexivity|].
        apply (adm_seen x msl); assumption.
  Qed.

  Lemma cls_find_opt id out s : length s = N ->
    match cls_find ROps lg2 crit x yi k order msl mss vars id out s with
    | Some c => cadm s (c_feat c) (c_val c) /\
                forall j t, In j (vars id) -> cadm s j t -> boundary s j t ->
                  cls_gain s j t <= cls_gain s (c_feat c) (c_val c)
    | None => is_pure x yi s = true \/ (sum_nat s <= mss)%nat \/
              forall j t, In j (vars id) -> cadm s j t -> boundary s j t -> False
    end.
  Proof.
    intros Hl. unfold cls_find. destruct (is_pure x yi s); [left; reflexivity|].
    destruct (sum_nat s <=? mss)%nat eqn:Emss; [right; left; apply Nat.leb_le; exact Emss|].
    rewrite (class_counts_cvec x yi k s).
    destruct (cls_features_opt id s Hl (vars id) [] None (fun j H => H) I I) as [BV DM].
    { intros j t [] _ _. }
    cbn zeta in BV, DM. cbn [app] in DM.
    destruct (fold_left _ (vars id) None) as [c|] eqn:F.
    - destruct BV as [A Sc]. split; [exact A|]. intros j t Hj Ha Hb.
      destruct (DM j t Hj Ha Hb) as (c' & Ec & Le). inversion Ec; subst c'. rewrite <- Sc. exact Le.
    - right. right. intros j t Hj Ha Hb. destruct (DM j t Hj Ha Hb) as (c' & Ec & _). discriminate.
  Qed.
End ClsOpt.

(* ---------- the fitted classification tree ---------- *)
Lemma fit_classifier_full lg2 crit x yi k samples vars order md msl mss nodes d :
  length yi = length x -> length samples = length x ->
  (forall id j, In j (vars id) -> sorted_order x j (nth j order [])) ->
  fit_classifier_with_order ROps lg2 crit x yi k samples vars order md msl mss = Some (nodes, d) ->
  exists G D, tree_consistent ROps 0%nat x msl (cls_out_ok x yi k) samples nodes G D /\
    (forall n, (n < length nodes)%nat -> (D n <= md_of md)%nat) /\ (d <= length nodes)%nat /\
    (forall n, (n < length nodes)%nat -> leafb (nth n nodes (dnode 0%nat)) = false ->
       from_find (cls_find ROps lg2 crit x yi k order msl mss vars) (nth n nodes (dnode 0%nat)) (G n) n) /\
    ((d < md_of md)%nat -> forall n, (n < length nodes)%nat -> leafb (nth n nodes (dnode 0%nat)) = true ->
       leaf_reason ROps x msl (cls_find ROps lg2 crit x yi k order msl mss vars) (nth n nodes (dnode 0%nat)) (G n) n).
Proof.
  intros Hy Hs Hord H. unfold fit_classifier_with_order in H.
  refine (grow_tree_full ROps 0%nat x msl _ (cls_out_ok x yi k) _ _ samples md nodes d _ H).
  - intros id out s c F [Hl Hm].
    destruct (cls_find_ok lg2 crit x yi k order msl mss vars Hord id out s c F Hl) as [C1 C2].
    split; split; auto; [apply true_part_length|apply false_part_length].
  - split; [exact Hs|]. intros _. rewrite (root_counts_cvec x yi k samples Hy). reflexivity.
Qed.

Lemma cls_find_some_not_pure lg2 crit x yi k order msl mss vars id out s c :
  cls_find ROps lg2 crit x yi k order msl mss vars id out s = Some c -> is_pure x yi s = false.
Proof. unfold cls_find. destruct (is_pure x yi s); [discriminate|reflexivity]. Qed.

Section ClsTree.
  Variable lg2 : R -> R.
  Variable crit : criterion.
  Variable x : list (list R).
  Variable yi : list nat.
  Variable k : nat.
  Variable samples : list nat.
  Variable order : list (list nat).
  Variables msl mss : nat.
  Let p := length (hd [] x).
  Hypothesis Hy : length yi = length x.
  Hypothesis Hs : length samples = length x.
  Hypothesis yi_lt : forall r, (nth r yi 0 < k)%nat.
  Hypothesis Hord : forall j, (j < p)%nat -> sorted_order x j (nth j order []).
  Hypothesis Hdist : forall j, (j < p)%nat -> distinct_feature x j.

  Let Hord' : forall (id j : nat), In j (seq 0 p) -> sorted_order x j (nth j order []).
  Proof. intros _ j Hj. apply Hord. apply in_seq in Hj. lia. Qed.
  Let Hdist' : forall (id j : nat), In j (seq 0 p) -> distinct_feature x j.
  Proof. intros _ j Hj. apply Hdist. apply in_seq in Hj. lia. Qed.

  Lemma classification_split_boundary_optimal md nodes d :
    fit_classifier_with_order ROps lg2 crit x yi k samples (fun _ => seq 0 p) order md msl mss = Some (nodes, d) ->
    exists G D, tree_consistent ROps 0%nat x msl (cls_out_ok x yi k) samples nodes G D /\
      forall n, (n < length nodes)%nat -> leafb (nth n nodes (dnode 0%nat)) = false ->
        is_pure x yi (G n) = false /\
        forall t0, split_value (nth n nodes (dnode 0%nat)) = Some t0 ->
          adm x msl (G n) (split_feature (nth n nodes (dnode 0%nat))) t0 /\
          forall j t, (j < p)%nat -> adm x msl (G n) j t -> boundary x yi (G n) j t ->
            cls_gain lg2 crit x yi k (G n) j t <=
            cls_gain lg2 crit x yi k (G n) (split_feature (nth n nodes (dnode 0%nat))) t0.
  Proof.
    intros H.
    destruct (fit_classifier_full lg2 crit x yi k samples _ order md msl mss nodes d Hy Hs Hord' H)
      as (G & D & C & _ & _ & FF & _).
    exists G, D. split; [exact C|]. intros n Hn L.
    destruct (FF n Hn L) as (c & Fc & Ef & Ev).
    split; [exact (cls_find_some_not_pure _ _ _ _ _ _ _ _ _ _ _ _ _ Fc)|].
    intros t0 Et. rewrite Ev in Et. inversion Et; subst t0. rewrite Ef.
    destruct (tc_out _ _ _ _ _ _ _ _ _ C n Hn) as [Hl _].
    pose proof (cls_find_opt lg2 crit x yi k msl yi_lt order mss _ Hord' Hdist' n
                  (output (nth n nodes (dnode 0%nat))) (G n) Hl) as Rr.
    rewrite Fc in Rr. destruct Rr as [A Opt]. split; [exact A|].
    intros j t Hj Ha Hb. apply Opt; [apply in_seq; lia|exact Ha|exact Hb].
  Qed.

  Lemma classification_growth_boundary_complete nodes d :
    fit_classifier_with_order ROps lg2 crit x yi k samples (fun _ => seq 0 p) order None msl mss = Some (nodes, d) ->
    (length nodes < 65535)%nat ->
    exists G D, tree_consistent ROps 0%nat x msl (cls_out_ok x yi k) samples nodes G D /\
      forall n, (n < length nodes)%nat -> leafb (nth n nodes (dnode 0%nat)) = true ->
        is_pure x yi (G n) = false -> (mss < sum_nat (G n))%nat ->
        forall j t, (j < p)%nat -> adm x msl (G n) j t -> boundary x yi (G n) j t -> False.
  Proof.
    intros H Hlen.
    destruct (fit_classifier_full lg2 crit x yi k samples _ order None msl mss nodes d Hy Hs Hord' H)
      as (G & D & C & _ & Hd & _ & LR).
    exists G, D. split; [exact C|]. intros n Hn L Hp Hmss j t Hj Ha Hb.
    assert (Hd' : (d < md_of None)%nat) by (unfold md_of; lia).
    destruct (tc_out _ _ _ _ _ _ _ _ _ C n Hn) as [Hl _].
    pose proof (cls_find_opt lg2 crit x yi k msl yi_lt order mss _ Hord' Hdist' n
                  (output (nth n nodes (dnode 0%nat))) (G n) Hl) as Rr.
    destruct (LR Hd' n Hn L) as [Fn|(c & Fc & Bad)].
    - rewrite Fn in Rr. destruct Rr as [Rr|[Rr|Rr]]; [congruence|lia|].
      apply (Rr j t); [apply in_seq; lia|exact Ha|exact Hb].
    - rewrite Fc in Rr. destruct Rr as [(A1 & A2 & _) _]. lia.
  Qed.
End ClsTree.

(* ---------- what is missing for the full statement, isolated as one proposition ---------- *)
(* For min_samples_leaf = 1 and a node that is not pure: every admissible threshold is matched or
   beaten by an admissible boundary threshold of the same feature (concavity of the impurity along a
   run of rows of one class).  NOT proved. *)
Definition boundary_point_property (lg2 : R -> R) (crit : criterion) : Prop :=
  forall (x : list (list R)) (yi : list nat) (k : nat) (s : list nat) (j : nat) (t : R),
    (forall r, (nth r yi 0 < k)%nat) -> length yi = length x -> length s = length x ->
    distinct_feature x j -> is_pure x yi s = false -> adm x 1 s j t ->
    exists t', adm x 1 s j t' /\ boundary x yi s j t' /\
               cls_gain lg2 crit x yi k s j t <= cls_gain lg2 crit x yi k s j t'.

Lemma classification_split_optimal_conditional lg2 crit :
  boundary_point_property lg2 crit ->
  forall x yi k samples order md mss nodes d,
    length yi = length x -> length samples = length x -> (forall r, (nth r yi 0 < k)%nat) ->
    (forall j, (j < length (hd [] x))%nat -> sorted_order x j (nth j order [])) ->
    (forall j, (j < length (hd [] x))%nat -> distinct_feature x j) ->
    fit_classifier_with_order ROps lg2 crit x yi k samples (fun _ => seq 0 (length (hd [] x))) order md 1 mss
      = Some (nodes, d) ->
    exists G D, tree_consistent ROps 0%nat x 1 (cls_out_ok x yi k) samples nodes G D /\
      forall n, (n < length nodes)%nat -> leafb (nth n nodes (dnode 0%nat)) = false ->
        forall t0, split_value (nth n nodes (dnode 0%nat)) = Some t0 ->
          adm x 1 (G n) (split_feature (nth n nodes (dnode 0%nat))) t0 /\
          forall j t, (j < length (hd [] x))%nat -> adm x 1 (G n) j t ->
            cls_gain lg2 crit x yi k (G n) j t <=
            cls_gain lg2 crit x yi k (G n) (split_feature (nth n nodes (dnode 0%nat))) t0.
Proof.
  intros BPP x yi k samples order md mss nodes d Hy Hs Hlt Hord Hdist H.
  destruct (classification_split_boundary_optimal lg2 crit x yi k samples order 1 mss Hy Hs Hlt Hord Hdist md nodes d H)
    as (G & D & C & Opt).
  exists G, D. split; [exact C|]. intros n Hn L t0 Et. destruct (Opt n Hn L) as [Np Opt'].
  destruct (Opt' t0 Et) as [A Best]. split; [exact A|]. intros j t Hj Ha.
  destruct (tc_out _ _ _ _ _ _ _ _ _ C n Hn) as [Hl _].
  destruct (BPP x yi k (G n) j t Hlt Hy Hl (Hdist j Hj) Np Ha) as (t' & Ha' & Hb' & Le).
  apply Rle_trans with (cls_gain lg2 crit x yi k (G n) j t'); [exact Le|]. apply Best; assumption.
Qed.

(* ---------- DecisionTreeClassifier::fit (orders and class indices computed by the model) ---------- *)
Lemma classification_split_boundary_optimal_fit lg2 crit x y md msl mss classes nodes d :
  length y = length x ->
  (forall j, (j < length (hd [] x))%nat -> distinct_feature x j) ->
  fit_classifier ROps lg2 crit x y md msl mss = Some (classes, nodes, d) ->
  exists yi, length yi = length x /\
    (forall i, (i < length x)%nat -> (nth i yi 0 < length classes)%nat /\ nth (nth i yi 0%nat) classes 0 = nth i y 0) /\
    exists G D, tree_consistent ROps 0%nat x msl (cls_out_ok x yi (length classes)) (repeat 1%nat (length x)) nodes G D /\
      forall n, (n < length nodes)%nat -> leafb (nth n nodes (dnode 0%nat)) = false ->
        is_pure x yi (G n) = false /\
        forall t0, split_value (nth n nodes (dnode 0%nat)) = Some t0 ->
          adm x msl (G n) (split_feature (nth n nodes (dnode 0%nat))) t0 /\
          forall j t, (j < length (hd [] x))%nat -> adm x msl (G n) j t -> boundary x yi (G n) j t ->
            cls_gain lg2 crit x yi (length classes) (G n) j t <=
            cls_gain lg2 crit x yi (length classes) (G n) (split_feature (nth n nodes (dnode 0%nat))) t0.
Proof.
  intros Hy Hdist H. unfold fit_classifier in H.
  apply fit_classifier_weak_orders in H as (_ & K2 & yi & order & Ly & Py & Ho & H).
  rewrite Hy in Ly, Py. exists yi. split; [exact Ly|]. split; [exact Py|].
  assert (Hlt : forall r, (nth r yi 0 < length classes)%nat).
  { intros r. destruct (Nat.lt_ge_cases r (length x)) as [A|A]; [apply Py; exact A|].
    rewrite nth_overflow by lia. lia. }
  exact (classification_split_boundary_optimal lg2 crit x yi (length classes) _ order msl mss Ly
           (repeat_length 1%nat (length x)) Hlt Ho Hdist md nodes d H).
Qed.
