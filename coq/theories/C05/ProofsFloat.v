(* C05 — ROUNDING theorems for the decision trees: the binary64 instance (FOps, Coq primitive floats — the
   very definitions the correspondence check runs against src/tree/decision_tree_{regressor,classifier}.rs
   bit for bit) of the split THRESHOLD and of the row PARTITION it induces.

   The sweeps (reg_step / cls_step, Model.v) store as threshold the expression
        (xi + px) / 2          — O.(odiv) (O.(oadd) xi px) (O.(oofZ) 2) —
   xi the current value, px the previous (smaller) distinct one.  At FOps: fmid px xi = fl(fl(xi + px) / 2).

     fmid_correctly_rounded      for finite a, b whose sum does not overflow, fmid a b is finite and is THE
                                 CORRECTLY ROUNDED REAL MIDPOINT rnd64((a+b)/2) — the two roundings collapse to
                                 one: below 2^-1021 the sum is exact, above it halving is exact and commutes
                                 with rounding (also covers the subnormal corner where the halving is inexact)
     midpoint_float_between      hence a <= b  ->  a <= t <= b  (monotonicity of rounding)
     midpoint_float_separates    for a < b:  a < t < b  IFF some binary64 number lies strictly between a and b;
                                 otherwise (adjacent floats: the real midpoint is a tie) t = a or t = b; a always
                                 passes the test `x <= t`, and b passes it IFF t = b — then the split does not
                                 separate the two values (Examples: t = b for 1+2^-52, 1+2^-51; t = a for 1, 1+2^-52)
     partition_float_consistent  for a < b consecutive among the counted rows of a column of finite values:
                                 if t < b the binary64 tests `x <= t` send exactly the same rows to the true /
                                 false child as the exact-arithmetic tests `x <= (a+b)/2` (true_part / false_part
                                 of Model.v at FOps = at ROps on the real values of the same matrix)
     partition_float_differs_when_rounds_up   and if t = b a counted row holding b goes to the other child
     reg_find_mid / cls_find_mid every threshold returned by the two split searches at FOps is fmid of the values
                                 of two counted rows that are consecutive distinct values of that feature among
                                 the counted rows (`mid_of_rows`), when the visiting orders sort the columns'
                                 real values (`sorted_order (RX x)`, the hypothesis the correspondence evaluates
                                 per run as `orders_okb`) — a sweep invariant on the visiting order
     grown_tree_float_partition  so at EVERY internal node of a tree grown in binary64 (any split search with that
                                 property, any weights / limits) the two children receive exactly the rows that
                                 the exact test at the real midpoint of those two values sends them, provided
                                 their sum does not overflow and t < b (guaranteed when they are not adjacent
                                 binary64 numbers).  NOT claimed: that the binary64 search picks the same
                                 (feature, pair) as an exact-arithmetic search would — gains are rounded.

   Vocabulary (Base/FloatError.v): FR x = real value of a float, ffin x = finite, rnd64 = rounding to nearest
   even in the binary64 format without overflow.  RX x = map (map FR) x. *)
From Coq Require Import List Arith ZArith Bool Reals Floats Lra Lia Psatz Sorting.Sorted Sorting.Permutation.
From Flocq Require Import Core BinarySingleNaN PrimFloat Plus_error.
From SC Require Import Base.FloatUtil Base.Num Base.FloatError C05.Model C05.ProofsReg C05.ProofsGrow C05.ProofsGrowFull.
Import ListNotations.
Local Open Scope R_scope.
Local Existing Instance Hprec.
Local Existing Instance Hmax.

Lemma FR_ofZ z : (0 <= z < 2 ^ 53)%Z -> FR (float_of_Z z) = IZR z.
Proof. intros H. apply (float_of_Z_exact z H). Qed.
Lemma ffin_ofZ z : (0 <= z < 2 ^ 53)%Z -> ffin (float_of_Z z).
Proof. intros H. apply (float_of_Z_exact z H). Qed.

(* the threshold the sweeps store: (xi + px) / 2 with px the previous (smaller) value *)
Definition fmid (a b : PrimFloat.float) : PrimFloat.float := odiv FOps (oadd FOps b a) (oofZ FOps 2).

(* ---------------- comparisons of finite floats ---------------- *)
Lemma fleb_finite a b : ffin a -> ffin b -> PrimFloat.leb a b = Rle_bool (FR a) (FR b).
Proof. intros Ha Hb. rewrite leb_equiv. apply (Bleb_correct prec emax); apply ffin_B; assumption. Qed.
Lemma fleb_true a b : ffin a -> ffin b -> (PrimFloat.leb a b = true <-> FR a <= FR b).
Proof.
  intros Ha Hb. rewrite (fleb_finite a b Ha Hb). split; intros H.
  - destruct (Rle_bool_spec (FR a) (FR b)); [assumption | discriminate].
  - apply Rle_bool_true. exact H.
Qed.
Lemma FR_lt_emax x : Rabs (FR x) < bpow radix2 1024.
Proof. unfold FR. apply (abs_B2R_lt_emax prec emax). Qed.

(* ---------------- division whose rounded quotient is in range ---------------- *)
Lemma fdiv_bounded x y : ffin x -> ffin y -> FR y <> 0 ->
  Rabs (rnd64 (FR x / FR y)) < bpow radix2 1024 ->
  ffin (x / y)%float /\ FR (x / y)%float = rnd64 (FR x / FR y).
Proof.
  rewrite !ffin_B. unfold FR. intros Hx Hy Hnz Hq. rewrite div_equiv.
  generalize (Bdiv_correct prec emax Hprec Hmax mode_NE (Prim2B x) (Prim2B y) Hnz).
  assert (Hb' : Rlt_bool (Rabs (round radix2 (fexp prec emax) (round_mode mode_NE)
                                    (B2R (Prim2B x) / B2R (Prim2B y)))) (bpow radix2 emax) = true).
  { apply Rlt_bool_true. exact Hq. }
  rewrite Hb'. intros (P & Q & _). split; [rewrite Q; exact Hx | exact P].
Qed.

(* ---------------- halving commutes with rounding above the subnormal range ---------------- *)
Lemma rnd64_double y : bpow radix2 (-1022) <= Rabs y -> rnd64 (y * 2) = rnd64 y * 2.
Proof.
  intros Hy.
  assert (Hy0 : y <> 0).
  { intros ->. rewrite Rabs_R0 in Hy. pose proof (bpow_gt_0 radix2 (-1022)). lra. }
  assert (Hm : (-1021 <= mag radix2 y)%Z) by (apply mag_ge_bpow; exact Hy).
  change 2 with (bpow radix2 1).
  assert (Ec : cexp radix2 (FLT_exp (-1074) 53) (y * bpow radix2 1) = (cexp radix2 (FLT_exp (-1074) 53) y + 1)%Z).
  { unfold cexp. rewrite mag_mult_bpow by exact Hy0. unfold FLT_exp. lia. }
  unfold rnd64, round, F2R, scaled_mantissa. cbn [Fnum Fexp]. rewrite Ec.
  replace (y * bpow radix2 1 * bpow radix2 (- (cexp radix2 (FLT_exp (-1074) 53) y + 1)))
    with (y * bpow radix2 (- cexp radix2 (FLT_exp (-1074) 53) y)).
  2:{ rewrite Rmult_assoc, <- bpow_plus. f_equal. f_equal. lia. }
  rewrite bpow_plus. ring.
Qed.

(* two roundings, one result: rnd(rnd(a+b)/2) = rnd((a+b)/2) for binary64 numbers a, b *)
Lemma rnd64_mid a b : fmt64 a -> fmt64 b -> rnd64 (rnd64 (a + b) / 2) = rnd64 ((a + b) / 2).
Proof.
  intros Fa Fb.
  destruct (Rle_or_lt (Rabs (a + b)) (bpow radix2 (53 + -1074))) as [Hs|Hl].
  - (* the sum is exact *)
    rewrite (rnd64_id (a + b)); [reflexivity|].
    apply (FLT_format_plus_small radix2 (-1074) 53); assumption.
  - (* half the sum is normal: rnd (a+b) / 2 = rnd ((a+b)/2), a binary64 number *)
    assert (Hh : bpow radix2 (-1022) <= Rabs ((a + b) / 2)).
    { unfold Rdiv. rewrite Rabs_mult, (Rabs_pos_eq (/ 2)) by lra.
      change (53 + -1074)%Z with (-1022 + 1)%Z in Hl. rewrite bpow_plus in Hl.
      change (bpow radix2 1) with 2 in Hl. lra. }
    pose proof (rnd64_double _ Hh) as E.
    replace ((a + b) / 2 * 2) with (a + b) in E by field.
    rewrite E. replace (rnd64 ((a + b) / 2) * 2 / 2) with (rnd64 ((a + b) / 2)) by field.
    apply rnd64_id, fmt64_rnd64.
Qed.

(* ---------------- target 1: the computed midpoint is the correctly rounded real midpoint ------------- *)
Lemma rnd64_between a b m : fmt64 a -> fmt64 b -> a <= m <= b -> a <= rnd64 m <= b.
Proof.
  intros Fa Fb [H1 H2]. split.
  - rewrite <- (rnd64_id a Fa). apply rnd64_le, H1.
  - rewrite <- (rnd64_id b Fb). apply rnd64_le, H2.
Qed.

Theorem fmid_correctly_rounded a b : ffin a -> ffin b -> ffin (b + a)%float ->
  ffin (fmid a b) /\ FR (fmid a b) = rnd64 ((FR a + FR b) / 2).
Proof.
  intros Ha Hb Hs. destruct (fadd_finite _ _ Hs) as (_ & _ & Es).
  destruct (float_of_Z_exact 2 ltac:(lia)) as [F2 E2].
  pose proof (fmt64_FR a) as Fa. pose proof (fmt64_FR b) as Fb.
  assert (Em : rnd64 (FR (b + a)%float / 2) = rnd64 ((FR a + FR b) / 2)).
  { rewrite Es, (Rplus_comm (FR b)). apply rnd64_mid; assumption. }
  unfold fmid. cbn [odiv oadd oofZ FOps].
  destruct (fdiv_bounded (b + a)%float (float_of_Z 2) Hs F2) as [G1 G2].
  - rewrite E2. lra.
  - rewrite E2, Em.
    (* the rounded midpoint lies between min and max of a, b *)
    destruct (Rle_or_lt (FR a) (FR b)) as [L|L].
    + destruct (rnd64_between (FR a) (FR b) ((FR a + FR b) / 2) Fa Fb ltac:(lra)) as [B1 B2].
      pose proof (FR_lt_emax a) as Ba. pose proof (FR_lt_emax b) as Bb.
      apply Rabs_def2 in Ba. apply Rabs_def2 in Bb. apply Rabs_def1; lra.
    + destruct (rnd64_between (FR b) (FR a) ((FR a + FR b) / 2) Fb Fa ltac:(lra)) as [B1 B2].
      pose proof (FR_lt_emax a) as Ba. pose proof (FR_lt_emax b) as Bb.
      apply Rabs_def2 in Ba. apply Rabs_def2 in Bb. apply Rabs_def1; lra.
  - split; [exact G1|]. rewrite G2, E2. exact Em.
Qed.

Theorem midpoint_float_between a b : ffin a -> ffin b -> ffin (b + a)%float -> FR a <= FR b ->
  let t := fmid a b in
  ffin t /\ FR t = rnd64 ((FR a + FR b) / 2) /\ FR a <= FR t <= FR b.
Proof.
  intros Ha Hb Hs L t. destruct (fmid_correctly_rounded a b Ha Hb Hs) as [F E].
  split; [exact F|]. split; [exact E|]. unfold t. rewrite E.
  apply rnd64_between; try apply fmt64_FR. lra.
Qed.

(* ---------------- target 2: when does the threshold separate a from b ---------------- *)
Lemma rnd64_nearest m c : fmt64 c -> Rabs (rnd64 m - m) <= Rabs (c - m).
Proof.
  intros Fc.
  destruct (round_N_pt radix2 (FLT_exp (-1074) 53) (fun x => negb (Z.even x)) m) as [_ H].
  apply H. exact Fc.
Qed.

Lemma rnd64_mid_strict a b c : fmt64 a -> fmt64 b -> fmt64 c -> a < c < b ->
  a < rnd64 ((a + b) / 2) < b.
Proof.
  intros Fa Fb Fc [H1 H2].
  destruct (rnd64_between a b ((a + b) / 2) Fa Fb ltac:(lra)) as [B1 B2].
  pose proof (rnd64_nearest ((a + b) / 2) c Fc) as N.
  assert (Hc : Rabs (c - (a + b) / 2) < (b - a) / 2) by (apply Rabs_def1; lra).
  split.
  - destruct B1 as [B1|B1]; [exact B1|exfalso]. rewrite <- B1 in N.
    replace (a - (a + b) / 2) with (- ((b - a) / 2)) in N by field.
    rewrite Rabs_Ropp, Rabs_pos_eq in N by lra. lra.
  - destruct B2 as [B2|B2]; [exact B2|exfalso]. rewrite B2 in N.
    replace (b - (a + b) / 2) with ((b - a) / 2) in N by field.
    rewrite Rabs_pos_eq in N by lra. lra.
Qed.

Theorem midpoint_float_separates a b : ffin a -> ffin b -> ffin (b + a)%float -> FR a < FR b ->
  let t := fmid a b in
  ((exists c : PrimFloat.float, FR a < FR c < FR b) <-> FR a < FR t < FR b) /\
  ((forall c : PrimFloat.float, ~ (FR a < FR c < FR b)) -> FR t = FR a \/ FR t = FR b) /\
  (PrimFloat.leb a t = true) /\
  (PrimFloat.leb b t = true <-> FR t = FR b).
Proof.
  intros Ha Hb Hs L t.
  destruct (midpoint_float_between a b Ha Hb Hs (Rlt_le _ _ L)) as (Ft & Et & B1 & B2). fold t in Ft, Et, B1, B2.
  split; [split|split; [|split]].
  - intros (c & Hc). rewrite Et. apply (rnd64_mid_strict _ _ (FR c)); try apply fmt64_FR. exact Hc.
  - intros H. exists t. exact H.
  - intros Hno. destruct B1 as [B1|B1]; [|left; symmetry; exact B1].
    destruct B2 as [B2|B2]; [|right; exact B2]. exfalso. apply (Hno t). split; assumption.
  - apply (fleb_true a t Ha Ft). exact B1.
  - rewrite (fleb_true b t Hb Ft). split; intros H; lra.
Qed.

(* ---------------- target 3: the float partition is the exact-midpoint partition ---------------- *)
Definition RX (x : list (list PrimFloat.float)) : list (list R) := map (map FR) x.

Lemma getx_RX x i j : getx ROps (RX x) i j = FR (getx FOps x i j).
Proof.
  unfold getx, RX. cbn [o0 ROps FOps].
  change (@nil R) with (map FR []). rewrite map_nth. rewrite <- FR_zero. apply map_nth.
Qed.
Lemma RX_length x : length (RX x) = length x.
Proof. apply map_length. Qed.

Lemma getx_ffin x i j : Forall (Forall ffin) x -> ffin (getx FOps x i j).
Proof.
  intros H. unfold getx. cbn [o0 FOps].
  assert (Hr : Forall ffin (nth i x [])).
  { destruct (Nat.lt_ge_cases i (length x)) as [Hi|Hi].
    - rewrite Forall_forall in H. apply H. apply nth_In. exact Hi.
    - rewrite nth_overflow by exact Hi. constructor. }
  destruct (Nat.lt_ge_cases j (length (nth i x []))) as [Hj|Hj].
  - rewrite Forall_forall in Hr. apply Hr. apply nth_In. exact Hj.
  - rewrite nth_overflow by exact Hj. apply ffin_zero.
Qed.

(* one threshold test: float test at the float threshold t = real test at any real threshold m that
   lies in the same gap [a, b) *)
Lemma le_thr_gap (v a b t : PrimFloat.float) (m : R) : ffin v -> ffin t ->
  FR v <= FR a \/ FR b <= FR v -> FR a <= FR t < FR b -> FR a <= m < FR b ->
  le_thr FOps v (Some t) = le_thr ROps (FR v) (Some m).
Proof.
  intros Hv Ht Hgap Hrt Hm. cbn [le_thr oleb FOps ROps].
  rewrite (fleb_finite v t Hv Ht).
  destruct Hgap as [G|G].
  - rewrite Rle_bool_true by lra. symmetry. apply Rleb_true. lra.
  - rewrite Rle_bool_false by lra. symmetry. apply Rleb_false. lra.
Qed.

Section Partition.
  Variable x : list (list PrimFloat.float).
  Variable samples : list nat.
  Variable feat : nat.
  Variables a b : PrimFloat.float.
  Hypothesis Hx : Forall (Forall ffin) x.
  Hypothesis Ha : ffin a.
  Hypothesis Hb : ffin b.
  Hypothesis Hs : ffin (b + a)%float.
  Hypothesis Hab : FR a < FR b.
  (* a and b are consecutive among the counted rows *)
  Hypothesis Hgap : forall i, (i < length x)%nat -> (0 < nth i samples 0)%nat ->
    FR (getx FOps x i feat) <= FR a \/ FR b <= FR (getx FOps x i feat).

  Lemma goes_true_float_consistent : FR (fmid a b) < FR b ->
    forall i, (i < length x)%nat ->
    goes_true FOps x samples feat (Some (fmid a b)) i =
    goes_true ROps (RX x) samples feat (Some ((FR a + FR b) / 2)) i.
  Proof.
    intros Hlt i Hi. unfold goes_true.
    destruct (Nat.ltb_spec 0%nat (nth i samples 0%nat)) as [Hw|Hw]; [|reflexivity]. cbn [andb].
    destruct (midpoint_float_between a b Ha Hb Hs (Rlt_le _ _ Hab)) as (Ft & _ & B1 & _).
    rewrite getx_RX. apply (le_thr_gap _ a b).
    - apply getx_ffin, Hx.
    - exact Ft.
    - apply Hgap; assumption.
    - lra.
    - lra.
  Qed.

  Theorem partition_float_consistent : FR (fmid a b) < FR b ->
    true_part FOps x samples feat (Some (fmid a b)) =
      true_part ROps (RX x) samples feat (Some ((FR a + FR b) / 2)) /\
    false_part FOps x samples feat (Some (fmid a b)) =
      false_part ROps (RX x) samples feat (Some ((FR a + FR b) / 2)).
  Proof.
    intros Hlt. unfold true_part, false_part. rewrite RX_length.
    split; apply map_ext_in; intros i Hi; apply in_seq in Hi;
      rewrite (goes_true_float_consistent Hlt i) by lia; reflexivity.
  Qed.

  (* sufficient: a and b are not adjacent binary64 numbers *)
  Corollary partition_float_consistent_nonadjacent :
    (exists c : PrimFloat.float, FR a < FR c < FR b) ->
    true_part FOps x samples feat (Some (fmid a b)) =
      true_part ROps (RX x) samples feat (Some ((FR a + FR b) / 2)) /\
    false_part FOps x samples feat (Some (fmid a b)) =
      false_part ROps (RX x) samples feat (Some ((FR a + FR b) / 2)).
  Proof.
    intros Hc. apply partition_float_consistent.
    destruct (midpoint_float_separates a b Ha Hb Hs Hab) as (E & _). apply E. exact Hc.
  Qed.

  (* and the converse: if the computed threshold is b itself (only possible for adjacent a, b), a counted
     row holding the value b is sent to the TRUE child by the binary64 test and to the FALSE child by the
     exact test *)
  Theorem partition_float_differs_when_rounds_up : FR (fmid a b) = FR b ->
    forall i, (0 < nth i samples 0)%nat -> FR (getx FOps x i feat) = FR b ->
    goes_true FOps x samples feat (Some (fmid a b)) i = true /\
    goes_true ROps (RX x) samples feat (Some ((FR a + FR b) / 2)) i = false.
  Proof.
    intros Et i Hw Ev. unfold goes_true. rewrite (proj2 (Nat.ltb_lt _ _) Hw). cbn [andb].
    destruct (midpoint_float_between a b Ha Hb Hs (Rlt_le _ _ Hab)) as (Ft & _ & _ & _).
    split.
    - cbn [le_thr oleb FOps]. apply (fleb_true _ _ (getx_ffin x i feat Hx) Ft). lra.
    - rewrite getx_RX. cbn [le_thr oleb ROps]. apply Rleb_false. lra.
  Qed.
End Partition.

(* ---------------- examples ---------------- *)
(* adjacent floats, the tie rounds to the even neighbour b: the split `x <= t` does not separate them *)
Example fmid_adjacent_rounds_up :
  let a := 0x1.0000000000001p+0%float in let b := 0x1.0000000000002p+0%float in
  PrimFloat.ltb a b = true /\ fmid a b = b /\ PrimFloat.leb b (fmid a b) = true.
Proof. vm_compute. repeat split. Qed.
(* adjacent floats, the tie rounds to the even neighbour a: the split still separates them *)
Example fmid_adjacent_rounds_down :
  let a := 1%float in let b := 0x1.0000000000001p+0%float in
  PrimFloat.ltb a b = true /\ fmid a b = a /\ PrimFloat.leb b (fmid a b) = false.
Proof. vm_compute. repeat split. Qed.
(* subnormal corner: the halving is inexact, the result is still the correctly rounded midpoint *)
Example fmid_subnormal :
  let a := 0x1p-1074%float in let b := 0x1p-1073%float in
  fmid a b = b /\ fmid 0%float a = 0%float.
Proof. vm_compute. repeat split. Qed.
Example fmid_instance :
  fmid 1%float 4%float = 0x1.4p+1%float /\ ffin (4 + 1)%float.
Proof. vm_compute. repeat split. Qed.
(* overflow of a + b is really excluded by the hypothesis: both finite, the sum is not *)
Example fmid_overflow :
  let a := 0x1.fffffffffffffp+1023%float in ffin a /\ PrimFloat.is_finite (a + a)%float = false /\
  PrimFloat.is_finite (fmid a a) = false.
Proof. vm_compute. repeat split. Qed.

(* ---------------- the thresholds the sweeps produce are midpoints of consecutive counted values ------- *)
Section SweepThr.
  Context {A : Type}.
  Variable x : list (list PrimFloat.float).
  Variable samples : list nat.
  Variable j : nat.
  Variable best0 : option (cand PrimFloat.float A).
  Let w (i : nat) : nat := nth i samples 0%nat.
  Let V (i : nat) : PrimFloat.float := getx FOps x i j.

  (* c was created at row i of the visiting order, the previous counted row being i0 *)
  Definition mid_cand (pre : list nat) (c : cand PrimFloat.float A) : Prop :=
    exists l1 i0 mid i l2, pre = l1 ++ i0 :: mid ++ i :: l2 /\ (0 < w i0)%nat /\ (0 < w i)%nat /\
      (forall r, In r mid -> w r = 0%nat) /\ c_feat c = j /\ c_val c = fmid (V i0) (V i) /\
      PrimFloat.eqb (V i) (V i0) = false.
  Definition prev_ok (pre : list nat) (p : option PrimFloat.float) : Prop :=
    match p with
    | None => forall r, In r pre -> w r = 0%nat
    | Some v => exists l1 i0 mid, pre = l1 ++ i0 :: mid /\ (0 < w i0)%nat /\
                                  (forall r, In r mid -> w r = 0%nat) /\ v = V i0
    end.
  Definition best_ok (pre : list nat) (b : option (cand PrimFloat.float A)) : Prop :=
    b = best0 \/ exists c, b = Some c /\ mid_cand pre c.
  Definition sw_inv (pre : list nat) (p : option PrimFloat.float) (b : option (cand PrimFloat.float A)) : Prop :=
    prev_ok pre p /\ best_ok pre b.

  Lemma best_ok_ext pre b i : best_ok pre b -> best_ok (pre ++ [i]) b.
  Proof.
    intros [E|(c & E & l1 & i0 & mid & i' & l2 & P & R)]; [left; exact E|right].
    exists c. split; [exact E|]. exists l1, i0, mid, i', (l2 ++ [i]). split; [|exact R].
    rewrite P. rewrite <- !app_assoc. cbn [app]. rewrite <- app_assoc. reflexivity.
  Qed.
  Lemma prev_ok_zero pre p i : w i = 0%nat -> prev_ok pre p -> prev_ok (pre ++ [i]) p.
  Proof.
    intros Hw. destruct p as [v|]; cbn [prev_ok].
    - intros (l1 & i0 & mid & P & W0 & Z & E). exists l1, i0, (mid ++ [i]).
      split; [rewrite P, <- app_assoc; reflexivity|]. split; [exact W0|]. split; [|exact E].
      intros r Hr. apply in_app_or in Hr as [Hr|[<-|[]]]; [apply Z, Hr | exact Hw].
    - intros Z r Hr. apply in_app_or in Hr as [Hr|[<-|[]]]; [apply Z, Hr | exact Hw].
  Qed.
  Lemma prev_ok_new pre i : (0 < w i)%nat -> prev_ok (pre ++ [i]) (Some (V i)).
  Proof. intros Hw. exists pre, i, []. repeat split; [exact Hw | intros r []]. Qed.
  Lemma mid_cand_new pre px i g (t f : A) : prev_ok pre (Some px) -> (0 < w i)%nat ->
    PrimFloat.eqb (V i) px = false ->
    mid_cand (pre ++ [i]) (mkCand j (odiv FOps (oadd FOps (V i) px) (oofZ FOps 2)) g t f).
  Proof.
    intros (l1 & i0 & mid & P & W0 & Z & E) Hw Hne. exists l1, i0, mid, i, [].
    split; [rewrite P, <- app_assoc; reflexivity|]. subst px. repeat split; assumption.
  Qed.

  Lemma sw_inv_fold {S : Type} (step : S -> nat -> S) (gp : S -> option PrimFloat.float)
        (gb : S -> option (cand PrimFloat.float A)) :
    (forall pre st i, sw_inv pre (gp st) (gb st) -> sw_inv (pre ++ [i]) (gp (step st i)) (gb (step st i))) ->
    forall suf pre st, sw_inv pre (gp st) (gb st) ->
      sw_inv (pre ++ suf) (gp (fold_left step suf st)) (gb (fold_left step suf st)).
  Proof.
    intros Hstep. induction suf as [|i suf IH]; intros pre st H; cbn [fold_left].
    - rewrite app_nil_r. exact H.
    - replace (pre ++ i :: suf) with ((pre ++ [i]) ++ suf) by (rewrite <- app_assoc; reflexivity).
      apply IH, Hstep, H.
  Qed.
End SweepThr.

Lemma reg_step_sw_inv x y msl samples n sum pg j best0 pre st i :
  sw_inv x samples j best0 pre (rs_prev st) (rs_best st) ->
  sw_inv x samples j best0 (pre ++ [i])
         (rs_prev (reg_step FOps x y msl samples n sum pg j st i))
         (rs_best (reg_step FOps x y msl samples n sum pg j st i)).
Proof.
  intros [Hp Hb]. unfold reg_step.
  destruct (Nat.ltb_spec 0%nat (nth i samples 0%nat)) as [Hw|Hw].
  2:{ split; [apply prev_ok_zero; [lia|exact Hp] | apply best_ok_ext, Hb]. }
  cbv zeta.
  assert (Hnew : prev_ok x samples j (pre ++ [i]) (Some (getx FOps x i j))) by (apply prev_ok_new; exact Hw).
  destruct (rs_prev st) as [px|] eqn:Epx.
  2:{ cbn [rs_prev rs_best]. split; [exact Hnew | apply best_ok_ext, Hb]. }
  destruct (nanb FOps px || oeqb FOps (getx FOps x i j) px) eqn:Ef.
  { cbn [rs_prev rs_best]. split; [exact Hnew | apply best_ok_ext, Hb]. }
  apply orb_false_iff in Ef as [_ Ene]. cbn [oeqb FOps] in Ene.
  destruct ((rs_cnt st <? msl)%nat || (n - rs_cnt st <? msl)%nat).
  { cbn [rs_prev rs_best]. split; [exact Hnew | apply best_ok_ext, Hb]. }
  match goal with |- context [if ?c then _ else _] => destruct c end;
    cbn [rs_prev rs_best]; (split; [exact Hnew|]); [|apply best_ok_ext, Hb].
  right. eexists. split; [reflexivity|]. apply mid_cand_new; assumption.
Qed.

Lemma cls_step_sw_inv lg2 crit x yi k msl samples n count pimp j best0 pre st i :
  sw_inv x samples j best0 pre (cs_prevx st) (cs_best st) ->
  sw_inv x samples j best0 (pre ++ [i])
         (cs_prevx (cls_step FOps lg2 crit x yi k msl samples n count pimp j st i))
         (cs_best (cls_step FOps lg2 crit x yi k msl samples n count pimp j st i)).
Proof.
  intros [Hp Hb]. unfold cls_step.
  destruct (Nat.ltb_spec 0%nat (nth i samples 0%nat)) as [Hw|Hw].
  2:{ split; [apply prev_ok_zero; [lia|exact Hp] | apply best_ok_ext, Hb]. }
  cbv zeta.
  assert (Hnew : prev_ok x samples j (pre ++ [i]) (Some (getx FOps x i j))) by (apply prev_ok_new; exact Hw).
  destruct (cs_prevx st) as [px|] eqn:Epx.
  2:{ cbn [cs_prevx cs_best orb]. split; [exact Hnew | apply best_ok_ext, Hb]. }
  destruct ((nanb FOps px || oeqb FOps (getx FOps x i j) px) || (gety_c yi i =? cs_prevy st)%nat) eqn:Ef.
  { cbn [cs_prevx cs_best]. split; [exact Hnew | apply best_ok_ext, Hb]. }
  apply orb_false_iff in Ef as [Ef _]. apply orb_false_iff in Ef as [_ Ene]. cbn [oeqb FOps] in Ene.
  destruct ((sum_nat (cs_cnt st) <? msl)%nat || (n - sum_nat (cs_cnt st) <? msl)%nat).
  { cbn [cs_prevx cs_best]. split; [exact Hnew | apply best_ok_ext, Hb]. }
  match goal with |- context [if ?c then _ else _] => destruct c end;
    cbn [cs_prevx cs_best]; (split; [exact Hnew|]); [|apply best_ok_ext, Hb].
  right. eexists. split; [reflexivity|]. apply mid_cand_new; assumption.
Qed.

(* ---------------- from the visiting order to "consecutive counted values" ---------------- *)
Lemma feqb_false_finite a b : ffin a -> ffin b -> PrimFloat.eqb a b = false -> FR a <> FR b.
Proof.
  intros Ha Hb H. rewrite eqb_equiv in H.
  rewrite (Beqb_correct prec emax _ _ (proj1 (ffin_B a) Ha) (proj1 (ffin_B b) Hb)) in H.
  intros E. unfold FR in E. rewrite E, Req_bool_true in H by reflexivity. discriminate H.
Qed.

(* t is the computed midpoint of the values of rows i0 and i, which are consecutive distinct values of
   feature f among the rows counted by s *)
Definition mid_of_rows (x : list (list PrimFloat.float)) (s : list nat) (f : nat) (t : PrimFloat.float)
           (i0 i : nat) : Prop :=
  (i0 < length x)%nat /\ (i < length x)%nat /\ (0 < nth i0 s 0)%nat /\ (0 < nth i s 0)%nat /\
  t = fmid (getx FOps x i0 f) (getx FOps x i f) /\
  FR (getx FOps x i0 f) < FR (getx FOps x i f) /\
  (forall r, (r < length x)%nat -> (0 < nth r s 0)%nat ->
     FR (getx FOps x r f) <= FR (getx FOps x i0 f) \/ FR (getx FOps x i f) <= FR (getx FOps x r f)).

Lemma X_RX x j r : X (RX x) j r = FR (getx FOps x r j).
Proof. unfold X. apply getx_RX. Qed.

Lemma mid_cand_rows {A} x s j ord (c : cand PrimFloat.float A) :
  Forall (Forall ffin) x -> sorted_order (RX x) j ord -> mid_cand x s j ord c ->
  c_feat c = j /\ exists i0 i, mid_of_rows x s j (c_val c) i0 i.
Proof.
  intros Hx HS (l1 & i0 & mid & i & l2 & E & W0 & W1 & Z & Ef & Ev & Ene).
  split; [exact Ef|]. exists i0, i.
  pose proof HS as [P SS].
  assert (In0 : In i0 ord) by (rewrite E; apply in_or_app; right; left; reflexivity).
  assert (In1 : In i ord).
  { rewrite E. apply in_or_app. right. right. apply in_or_app. right. left. reflexivity. }
  pose proof (order_lt _ _ _ _ HS In0) as L0. pose proof (order_lt _ _ _ _ HS In1) as L1.
  rewrite RX_length in L0, L1.
  pose proof SS as SS0. rewrite E in SS0. apply StronglySorted_mid in SS0 as [Pre0 Suf0].
  pose proof SS as SS1. rewrite E in SS1.
  replace (l1 ++ i0 :: mid ++ i :: l2) with ((l1 ++ i0 :: mid) ++ i :: l2) in SS1
    by (rewrite <- app_assoc; reflexivity).
  apply StronglySorted_mid in SS1 as [Pre1 Suf1].
  rewrite Forall_forall in Pre0, Suf0, Pre1, Suf1.
  assert (Hle : FR (getx FOps x i0 j) <= FR (getx FOps x i j)).
  { rewrite <- !X_RX. apply Suf0. apply in_or_app. right. left. reflexivity. }
  assert (Hne : FR (getx FOps x i j) <> FR (getx FOps x i0 j)).
  { apply feqb_false_finite; try apply getx_ffin; assumption. }
  repeat split; try assumption; [lra|].
  intros r Hr Wr.
  assert (Inr : In r ord).
  { apply (Permutation_in _ (Permutation_sym P)). apply in_seq. rewrite RX_length. lia. }
  rewrite E in Inr. rewrite <- !X_RX.
  apply in_app_or in Inr as [I|[I|I]].
  - left. apply Pre0, I.
  - subst r. left. lra.
  - apply in_app_or in I as [I|[I|I]].
    + rewrite (Z r I) in Wr. lia.
    + subst r. right. lra.
    + right. apply Suf1, I.
Qed.

(* what a threshold of that form does to the rows counted by s *)
Theorem mid_of_rows_partition x s f t i0 i :
  Forall (Forall ffin) x -> mid_of_rows x s f t i0 i ->
  let a := getx FOps x i0 f in let b := getx FOps x i f in
  ffin (b + a)%float ->
  ffin t /\ FR t = rnd64 ((FR a + FR b) / 2) /\ FR a <= FR t <= FR b /\
  ((exists c : PrimFloat.float, FR a < FR c < FR b) -> FR a < FR t < FR b) /\
  (FR t < FR b ->
   true_part FOps x s f (Some t) = true_part ROps (RX x) s f (Some ((FR a + FR b) / 2)) /\
   false_part FOps x s f (Some t) = false_part ROps (RX x) s f (Some ((FR a + FR b) / 2))).
Proof.
  intros Hx (L0 & L1 & W0 & W1 & Et & Lt & Gap) a b Hs.
  assert (Ha : ffin a) by (apply getx_ffin, Hx). assert (Hb : ffin b) by (apply getx_ffin, Hx).
  fold a b in Et, Lt, Gap. subst t.
  destruct (midpoint_float_between a b Ha Hb Hs (Rlt_le _ _ Lt)) as (Ft & Er & B).
  split; [exact Ft|]. split; [exact Er|]. split; [exact B|]. split.
  - intros Hc. destruct (midpoint_float_separates a b Ha Hb Hs Lt) as (E & _). apply E, Hc.
  - intros Hlt. apply (partition_float_consistent x s f a b Hx Ha Hb Hs Lt Gap Hlt).
Qed.

(* ---------------- the two split searches ---------------- *)
Definition find_mid {A} (x : list (list PrimFloat.float))
           (find : nat -> A -> list nat -> option (cand PrimFloat.float A)) : Prop :=
  forall id out s c, find id out s = Some c -> exists i0 i, mid_of_rows x s (c_feat c) (c_val c) i0 i.

Definition best_mid {A} x s (b : option (cand PrimFloat.float A)) : Prop :=
  match b with None => True | Some c => exists i0 i, mid_of_rows x s (c_feat c) (c_val c) i0 i end.

Lemma reg_find_best_split_mid x y order msl s n sum pg best0 j :
  Forall (Forall ffin) x -> sorted_order (RX x) j (nth j order []) -> best_mid x s best0 ->
  best_mid x s (reg_find_best_split FOps x y order msl s n sum pg best0 j).
Proof.
  intros Hx HS H0. unfold reg_find_best_split.
  pose proof (sw_inv_fold x s j best0 (reg_step FOps x y msl s n sum pg j) (@rs_prev _) (@rs_best _)
                (fun pre st i => reg_step_sw_inv x y msl s n sum pg j best0 pre st i)
                (nth j order []) [] (mkRS FOps.(o0) 0%nat None best0)) as [_ Hb].
  { split; [intros r []|left; reflexivity]. }
  cbn [app] in Hb. destruct Hb as [E|(c & E & Hc)]; rewrite E; [exact H0|].
  cbn [best_mid]. destruct (mid_cand_rows x s j _ c Hx HS Hc) as [Ef R]. rewrite Ef. exact R.
Qed.

Theorem reg_find_mid x y order msl mss vars :
  Forall (Forall ffin) x ->
  (forall id j, In j (vars id) -> sorted_order (RX x) j (nth j order [])) ->
  find_mid x (reg_find FOps x y order msl mss vars).
Proof.
  intros Hx HS id out s c. unfold reg_find. destruct (sum_nat s <? mss)%nat; [discriminate|]. cbv zeta.
  intros H.
  assert (G : forall l b, (forall j, In j l -> In j (vars id)) -> best_mid x s b ->
     best_mid x s (fold_left (reg_find_best_split FOps x y order msl s (sum_nat s)
         (omul FOps out (ofn FOps (sum_nat s))) (omul FOps (omul FOps (ofn FOps (sum_nat s)) out) out)) l b)).
  { induction l as [|j l IH]; intros b Hl Hb; cbn [fold_left]; [exact Hb|].
    apply IH; [intros j' Hj'; apply Hl; right; exact Hj'|].
    apply reg_find_best_split_mid; [exact Hx | apply (HS id), Hl; left; reflexivity | exact Hb]. }
  specialize (G (vars id) None (fun _ h => h) I). rewrite H in G. exact G.
Qed.

Lemma cls_find_best_split_mid lg2 crit x yi k order msl s n count pimp best0 j :
  Forall (Forall ffin) x -> sorted_order (RX x) j (nth j order []) -> best_mid x s best0 ->
  best_mid x s (cls_find_best_split FOps lg2 crit x yi k order msl s n count pimp best0 j).
Proof.
  intros Hx HS H0. unfold cls_find_best_split.
  pose proof (sw_inv_fold x s j best0 (cls_step FOps lg2 crit x yi k msl s n count pimp j) (@cs_prevx _) (@cs_best _)
                (fun pre st i => cls_step_sw_inv lg2 crit x yi k msl s n count pimp j best0 pre st i)
                (nth j order []) [] (mkCS (repeat 0%nat k) None 0%nat best0)) as [_ Hb].
  { split; [intros r []|left; reflexivity]. }
  cbn [app] in Hb. destruct Hb as [E|(c & E & Hc)]; rewrite E; [exact H0|].
  cbn [best_mid]. destruct (mid_cand_rows x s j _ c Hx HS Hc) as [Ef R]. rewrite Ef. exact R.
Qed.

Theorem cls_find_mid lg2 crit x yi k order msl mss vars :
  Forall (Forall ffin) x ->
  (forall id j, In j (vars id) -> sorted_order (RX x) j (nth j order [])) ->
  find_mid x (cls_find FOps lg2 crit x yi k order msl mss vars).
Proof.
  intros Hx HS id out s c. unfold cls_find. destruct (is_pure x yi s); [discriminate|].
  destruct (sum_nat s <=? mss)%nat; [discriminate|]. cbv zeta. intros H.
  assert (G : forall l b, (forall j, In j l -> In j (vars id)) -> best_mid x s b ->
     best_mid x s (fold_left (cls_find_best_split FOps lg2 crit x yi k order msl s (sum_nat s)
         (class_counts x yi k s) (impurity FOps lg2 crit (class_counts x yi k s) (sum_nat s))) l b)).
  { induction l as [|j l IH]; intros b Hl Hb; cbn [fold_left]; [exact Hb|].
    apply IH; [intros j' Hj'; apply Hl; right; exact Hj'|].
    apply cls_find_best_split_mid; [exact Hx | apply (HS id), Hl; left; reflexivity | exact Hb]. }
  specialize (G (vars id) None (fun _ h => h) I). rewrite H in G. exact G.
Qed.

(* ---------------- every internal node of a tree grown in binary64 ---------------- *)
Theorem grown_tree_float_partition {A} (a0 : A) x msl
        (find : nat -> A -> list nat -> option (cand PrimFloat.float A)) root samples md nodes d :
  Forall (Forall ffin) x -> find_mid x find ->
  grow_tree FOps a0 x msl find root samples md = Some (nodes, d) ->
  exists G D, tree_consistent FOps a0 x msl (fun _ _ => True) samples nodes G D /\
    forall n, (n < length nodes)%nat -> leafb (nth n nodes (dnode a0)) = false ->
      let nd := nth n nodes (dnode a0) in
      exists t i0 i tc,
        split_value nd = Some t /\ true_child nd = Some tc /\ false_child nd = Some (S tc) /\
        G tc = true_part FOps x (G n) (split_feature nd) (Some t) /\
        G (S tc) = false_part FOps x (G n) (split_feature nd) (Some t) /\
        mid_of_rows x (G n) (split_feature nd) t i0 i /\
        let a := getx FOps x i0 (split_feature nd) in
        let b := getx FOps x i (split_feature nd) in
        (ffin (b + a)%float ->
         FR a <= FR t <= FR b /\
         ((exists c : PrimFloat.float, FR a < FR c < FR b) -> FR a < FR t < FR b) /\
         (FR t < FR b ->
          G tc = true_part ROps (RX x) (G n) (split_feature nd) (Some ((FR a + FR b) / 2)) /\
          G (S tc) = false_part ROps (RX x) (G n) (split_feature nd) (Some ((FR a + FR b) / 2)))).
Proof.
  intros Hx Hf H.
  destruct (grow_tree_full FOps a0 x msl find (fun _ _ => True) (fun _ _ _ _ _ _ => conj I I)
              root samples md nodes d I H) as (G & D & C & _ & _ & FF & _).
  exists G, D. split; [exact C|]. intros n Hn Hl nd.
  destruct (FF n Hn Hl) as (c & Ec & Efe & Eva). fold nd in Efe, Eva.
  destruct (Hf _ _ _ _ Ec) as (i0 & i & M).
  destruct (tc_nodes _ _ _ _ _ _ _ _ _ C n Hn) as [L|(tc & T1 & T2 & _ & _ & G1 & G2 & _)].
  { fold nd in L. unfold nd in L. rewrite L in Hl. discriminate Hl. }
  fold nd in T1, T2, G1, G2. rewrite Eva in G1, G2. rewrite <- Efe in M.
  exists (c_val c), i0, i, tc. split; [exact Eva|]. split; [exact T1|]. split; [exact T2|].
  split; [exact G1|]. split; [exact G2|]. split; [exact M|].
  intros a b Hs.
  destruct (mid_of_rows_partition x (G n) (split_feature nd) (c_val c) i0 i Hx M Hs) as (_ & _ & B & S & P).
  split; [exact B|]. split; [exact S|]. intros Hlt. destruct (P Hlt) as [P1 P2].
  rewrite G1, G2. split; assumption.
Qed.
