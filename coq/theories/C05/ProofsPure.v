(* C05 — `is_pure`: the classifier's purity test says exactly that all counted rows share one class. *)
From Coq Require Import List Arith Bool Lia.
From SC Require Import Base.Num C05.Model.
Import ListNotations.

Section Pure.
  Context {T : Type}.
  Variable x : list (list T).
  Variable yi : list nat.
  Variable s : list nat.
  Local Notation cls r := (nth r yi 0).
  Local Notation counted r := (0 < nth r s 0).

  Definition pure_state (pre : list nat) (st : option nat * bool) : Prop :=
    match st with
    | (None, true) => forall r, In r pre -> ~ counted r
    | (Some l, true) => forall r, In r pre -> counted r -> cls r = l
    | (_, false) => exists r r', In r pre /\ In r' pre /\ counted r /\ counted r' /\ cls r <> cls r'
    end /\
    match st with (Some l, _) => exists r, In r pre /\ counted r /\ cls r = l | _ => True end.

  Let step := fun '(label, pure) i =>
                if pure && (0 <? nth i s 0) then
                  match label with
                  | None => (Some (gety_c yi i), true)
                  | Some l => if gety_c yi i =? l then (label, true) else (label, false)
                  end
                else (label : option nat, pure : bool).

  Lemma pure_step pre st i : pure_state pre st -> pure_state (pre ++ [i]) (step st i).
  Proof.
    destruct st as [label pure]. unfold step, gety_c. intros [H1 H2].
    assert (Hin : forall r, In r (pre ++ [i]) -> In r pre \/ r = i).
    { intros r Hr. apply in_app_or in Hr as [Hr|[<-|[]]]; auto. }
    assert (Hle : forall r, In r pre -> In r (pre ++ [i])) by (intros; apply in_or_app; auto).
    assert (Hi : In i (pre ++ [i])) by (apply in_or_app; right; left; reflexivity).
    destruct pure; cbn [andb].
    - destruct (0 <? nth i s 0) eqn:Z.
      + apply Nat.ltb_lt in Z. destruct label as [l|].
        * destruct (cls i =? l) eqn:E.
          -- apply Nat.eqb_eq in E. split.
             ++ intros r Hr Hc. destruct (Hin r Hr) as [Hp| ->]; [apply H1; assumption|exact E].
             ++ destruct H2 as (r & Hr & R). exists r. split; [apply Hle; exact Hr|exact R].
          -- apply Nat.eqb_neq in E. split.
             ++ destruct H2 as (r & Hr & Hc & Hl). exists r, i. repeat split; auto. congruence.
             ++ destruct H2 as (r & Hr & R). exists r. split; [apply Hle; exact Hr|exact R].
        * split.
          -- intros r Hr Hc. destruct (Hin r Hr) as [Hp| ->]; [exfalso; apply (H1 r Hp Hc)|reflexivity].
          -- exists i. auto.
      + apply Nat.ltb_ge in Z. destruct label as [l|].
        * split.
          -- intros r Hr Hc. destruct (Hin r Hr) as [Hp| ->]; [apply H1; assumption|lia].
          -- destruct H2 as (r & Hr & R). exists r. split; [apply Hle; exact Hr|exact R].
        * split; [|exact I]. intros r Hr Hc. destruct (Hin r Hr) as [Hp| ->]; [apply (H1 r Hp Hc)|lia].
    - split.
      + destruct label; destruct H1 as (r & r' & A & B & R); exists r, r'; repeat split; try apply Hle; tauto.
      + destruct label; [|exact I]. destruct H2 as (r & Hr & R). exists r. split; [apply Hle; exact Hr|exact R].
  Qed.

  Lemma pure_fold : forall l pre st, pure_state pre st -> pure_state (pre ++ l) (fold_left step l st).
  Proof.
    induction l as [|i l IH]; intros pre st H; cbn [fold_left]; [rewrite app_nil_r; exact H|].
    replace (pre ++ i :: l) with ((pre ++ [i]) ++ l) by (rewrite <- app_assoc; reflexivity).
    apply IH. apply pure_step. exact H.
  Qed.

  Lemma is_pure_spec :
    (is_pure x yi s = true -> forall r r', r < length x -> r' < length x -> counted r -> counted r' -> cls r = cls r') /\
    (is_pure x yi s = false -> exists r r', r < length x /\ r' < length x /\ counted r /\ counted r' /\ cls r <> cls r').
  Proof.
    unfold is_pure. fold step.
    pose proof (pure_fold (seq 0 (length x)) [] (None, true)) as H. cbn [app] in H.
    destruct (fold_left step (seq 0 (length x)) (None, true)) as [label pure].
    destruct H as [H1 H2]; [split; [intros r []|exact I]|]. cbn [snd]. split; intros E; subst pure.
    - intros r r' Hr Hr' Hc Hc'. assert (I1 : In r (seq 0 (length x))) by (apply in_seq; lia).
      assert (I2 : In r' (seq 0 (length x))) by (apply in_seq; lia).
      destruct label as [l|]; [rewrite (H1 r I1 Hc), (H1 r' I2 Hc'); reflexivity|].
      exfalso. apply (H1 r I1 Hc).
    - destruct label; destruct H1 as (r & r' & A & B & R); exists r, r';
        apply in_seq in A; apply in_seq in B; repeat split; try lia; tauto.
  Qed.
End Pure.
