(* C05 — rounding bounds for the running sums and means of the regression tree in binary64 (FOps).
   Counts are natural numbers in the model (exact); they enter the arithmetic through `ofn`, exact below 2^53.
   The regression sweep accumulates  sum += w_i * y_i  over the counted rows in visiting order (a recursive
   summation of rounded products) and divides by the count:
     ofn_exact                 ofn n is finite with real value n, for n < 2^53
     reg_sweep_state           after any prefix `pre` of the visiting order the state holds
                               rs_sum = fsum [w_i * y_i | i counted in pre] (binary64, in order), rs_cnt = sum of w_i
     wmean_float_error         for any list of rows: |computed sum - S| <= E and
                               |computed sum / count - S / W| <= (u64 (Sabs + E) + E) / W + eta64,
                               S = sum w_i y_i, Sabs = sum |w_i y_i|, W = sum w_i, m rows,
                               E = Eu m (Sabs + m eta64) + m eta64      (Eu m = (1+u64)^m - 1)
     reg_true_mean_float_error the mean rs_sum / rs_cnt a candidate created after `pre` stores as true-child output
     reg_step_outputs          the outputs of a candidate created by reg_step are exactly those quotients of the state
     root_mean_float_error     the root output of fit_regressor_with_order (root_stats sum / n)
   The only no-overflow hypothesis is that the computed mean is finite.  NOT bounded here: the false-child mean
   (sum - rs_sum) / (n - cnt), where `sum` is the parent's ROUNDED output times n, and the gains. *)
From Coq Require Import List Arith ZArith Bool Reals Floats Lra Lia Psatz.
From Flocq Require Import Core BinarySingleNaN PrimFloat.
From SC Require Import Base.FloatUtil Base.Num Base.FloatError C05.Model.
Import ListNotations.
Local Open Scope R_scope.

Lemma ofn_exact n : (Z.of_nat n < 2 ^ 53)%Z -> ffin (ofn FOps n) /\ FR (ofn FOps n) = INR n.
Proof.
  intros H. unfold ofn. cbn [oofZ FOps].
  destruct (float_of_Z_exact (Z.of_nat n) ltac:(lia)) as [F E]. split; [exact F|].
  rewrite E. symmetry. apply INR_IZR_INZ.
Qed.

Lemma list_sum_cons a l : list_sum (a :: l) = (a + list_sum l)%nat.
Proof. reflexivity. Qed.

Section Sums.
  Variable y : list PrimFloat.float.
  Variable s : list nat.
  Let w (i : nat) : nat := nth i s 0%nat.

  Definition wy_term (i : nat) : PrimFloat.float := omul FOps (ofn FOps (nth i s 0%nat)) (gety FOps y i).
  Definition wy_exact (i : nat) : R := INR (nth i s 0%nat) * FR (gety FOps y i).
  Definition wsum (rows : list nat) : nat := list_sum (map (fun i => nth i s 0%nat) rows).
  Definition counted (pre : list nat) : list nat := filter (fun i => (0 <? nth i s 0%nat)%nat) pre.

  Lemma wy_terms_error rows : (forall i, In i rows -> (Z.of_nat (w i) < 2 ^ 53)%Z) ->
    Forall2 (fun t a => ffin t -> Rabs (FR t - a) <= Eu 1 * Rabs a + eta64) (map wy_term rows) (map wy_exact rows).
  Proof.
    induction rows as [|i rows IH]; intros H; cbn [map]; constructor.
    - intros F. unfold wy_term, wy_exact in *. cbn [omul FOps] in *.
      destruct (ofn_exact (w i) (H i (or_introl eq_refl))) as [_ E]. unfold w in E.
      pose proof (fmul_error _ _ F) as G. rewrite E in G. rewrite Eu_1. exact G.
    - apply IH. intros i' Hi'. apply H. right. exact Hi'.
  Qed.

  Theorem wmean_float_error rows :
    let W := wsum rows in
    (forall i, In i rows -> (Z.of_nat (w i) < 2 ^ 53)%Z) -> (Z.of_nat W < 2 ^ 53)%Z -> (0 < W)%nat ->
    let q := odiv FOps (fsum (map wy_term rows)) (ofn FOps W) in
    ffin q ->
    let S := Rsuml (map wy_exact rows) in
    let Sabs := Rsumabs (map wy_exact rows) in
    let m := length rows in
    let E := Eu m * (Sabs + INR m * eta64) + INR m * eta64 in
    ffin (fsum (map wy_term rows)) /\
    Rabs (FR (fsum (map wy_term rows)) - S) <= E /\
    Rabs (FR q - S / INR W) <= (u64 * (Sabs + E) + E) / INR W + eta64.
  Proof.
    intros W Hw HW Hpos q Fq S Sabs m E.
    destruct (ofn_exact W HW) as [FW EW].
    assert (HWR : 0 < INR W) by (apply lt_0_INR; exact Hpos).
    assert (Hnz : FR (ofn FOps W) <> 0) by (rewrite EW; lra).
    unfold q in Fq. cbn [odiv FOps] in Fq.
    destruct (fdiv_finite _ _ FW Hnz Fq) as [Fs _].
    pose proof (fdiv_error _ _ FW Hnz Fq) as Dq. rewrite EW in Dq.
    pose proof (fsum_error_signed 1 eta64 (Rlt_le _ _ eta64_pos) _ _ (wy_terms_error rows Hw) Fs) as G.
    rewrite !map_length in G. replace (1 + length rows - 1)%nat with (length rows) in G by lia.
    fold S Sabs m E in G.
    split; [exact Fs|]. split; [exact G|].
    unfold q. cbn [odiv FOps].
    set (sf := FR (fsum (map wy_term rows))) in *.
    assert (HS : Rabs S <= Sabs) by apply Rsuml_le_Rsumabs.
    assert (HE : 0 <= E).
    { eapply Rle_trans; [apply Rabs_pos|exact G]. }
    assert (Hsf : Rabs sf <= Sabs + E).
    { replace sf with ((sf - S) + S) by ring. eapply Rle_trans; [apply Rabs_triang|]. lra. }
    replace (FR (fsum (map wy_term rows) / ofn FOps W)%float - S / INR W)
      with ((FR (fsum (map wy_term rows) / ofn FOps W)%float - sf / INR W) + (sf - S) / INR W) by (field; lra).
    eapply Rle_trans; [apply Rabs_triang|].
    assert (D1 : Rabs (sf / INR W) = Rabs sf / INR W).
    { unfold Rdiv. rewrite Rabs_mult, (Rabs_pos_eq (/ INR W)); [reflexivity|]. left. apply Rinv_0_lt_compat, HWR. }
    assert (D2 : Rabs ((sf - S) / INR W) = Rabs (sf - S) / INR W).
    { unfold Rdiv. rewrite Rabs_mult, (Rabs_pos_eq (/ INR W)); [reflexivity|]. left. apply Rinv_0_lt_compat, HWR. }
    rewrite D2. rewrite D1 in Dq.
    assert (I : 0 < / INR W) by (apply Rinv_0_lt_compat, HWR).
    pose proof u64_pos as Hu.
    unfold Rdiv in *.
    apply Rle_trans with (u64 * (Rabs sf * / INR W) + eta64 + Rabs (sf - S) * / INR W); [lra|].
    assert (A1 : Rabs sf * / INR W <= (Sabs + E) * / INR W) by (apply Rmult_le_compat_r; lra).
    assert (A2 : Rabs (sf - S) * / INR W <= E * / INR W) by (apply Rmult_le_compat_r; lra).
    assert (A3 : u64 * (Rabs sf * / INR W) <= u64 * ((Sabs + E) * / INR W)) by (apply Rmult_le_compat_l; lra).
    lra.
  Qed.
End Sums.

(* ---------------- the regression sweep ---------------- *)
Lemma reg_step_sum_cnt x y msl s n sum pg j st i :
  let st' := reg_step FOps x y msl s n sum pg j st i in
  if (0 <? nth i s 0%nat)%nat
  then rs_sum st' = PrimFloat.add (rs_sum st) (wy_term y s i) /\ rs_cnt st' = (rs_cnt st + nth i s 0%nat)%nat
  else st' = st.
Proof.
  cbv zeta. unfold reg_step, wy_term. destruct (0 <? nth i s 0%nat)%nat; [|reflexivity]. cbv zeta.
  destruct (rs_prev st) as [px|]; [|split; reflexivity].
  destruct (nanb FOps px || oeqb FOps (getx FOps x i j) px); [split; reflexivity|].
  destruct ((rs_cnt st <? msl)%nat || (n - rs_cnt st <? msl)%nat); [split; reflexivity|].
  match goal with |- context [if ?c then _ else _] => destruct c end; split; reflexivity.
Qed.

Theorem reg_sweep_state x y msl s n sum pg j : forall pre st,
  let st' := fold_left (reg_step FOps x y msl s n sum pg j) pre st in
  rs_sum st' = fold_left PrimFloat.add (map (wy_term y s) (counted s pre)) (rs_sum st) /\
  rs_cnt st' = (rs_cnt st + wsum s (counted s pre))%nat.
Proof.
  induction pre as [|i pre IH]; intros st; cbn [fold_left counted filter map].
  - unfold wsum. cbn. split; [reflexivity|lia].
  - pose proof (reg_step_sum_cnt x y msl s n sum pg j st i) as H. cbv zeta in H.
    destruct (IH (reg_step FOps x y msl s n sum pg j st i)) as [I1 I2]. fold (counted s pre).
    destruct (0 <? nth i s 0%nat)%nat.
    + destruct H as [H1 H2]. cbn [map fold_left]. rewrite I1, I2, H1, H2. split; [reflexivity|].
      unfold wsum. cbn [map]. rewrite list_sum_cons. lia.
    + rewrite H in I1, I2 |- *. split; assumption.
Qed.

(* the outputs of a freshly created candidate are the two quotients of the state *)
Theorem reg_step_outputs x y msl s n sum pg j st i c :
  rs_best (reg_step FOps x y msl s n sum pg j st i) = Some c -> rs_best st <> Some c ->
  c_tco c = odiv FOps (rs_sum st) (ofn FOps (rs_cnt st)) /\
  c_fco c = odiv FOps (osub FOps sum (rs_sum st)) (ofn FOps (n - rs_cnt st)).
Proof.
  unfold reg_step. destruct (0 <? nth i s 0%nat)%nat; [|intros H N; contradiction]. cbv zeta.
  destruct (rs_prev st) as [px|]; [|intros H N; contradiction].
  destruct (nanb FOps px || oeqb FOps (getx FOps x i j) px); [intros H N; contradiction|].
  destruct ((rs_cnt st <? msl)%nat || (n - rs_cnt st <? msl)%nat); [intros H N; contradiction|].
  match goal with |- context [if ?c then _ else _] => destruct c end; cbn [rs_best]; intros H N; [|contradiction].
  inversion H; subst c. cbn [c_tco c_fco]. split; reflexivity.
Qed.

Theorem reg_true_mean_float_error x y msl s n sum pg j best pre :
  let st := fold_left (reg_step FOps x y msl s n sum pg j) pre (mkRS 0%float 0%nat None best) in
  let rows := counted s pre in
  let W := rs_cnt st in
  let tm := odiv FOps (rs_sum st) (ofn FOps W) in
  (forall i, In i rows -> (Z.of_nat (nth i s 0%nat) < 2 ^ 53)%Z) -> (Z.of_nat W < 2 ^ 53)%Z -> (0 < W)%nat ->
  ffin tm ->
  let S := Rsuml (map (wy_exact y s) rows) in
  let Sabs := Rsumabs (map (wy_exact y s) rows) in
  let m := length rows in
  let E := Eu m * (Sabs + INR m * eta64) + INR m * eta64 in
  W = wsum s rows /\
  Rabs (FR (rs_sum st) - S) <= E /\
  Rabs (FR tm - S / INR W) <= (u64 * (Sabs + E) + E) / INR W + eta64.
Proof.
  intros st rows W tm Hw HW Hpos Ftm S Sabs m E.
  destruct (reg_sweep_state x y msl s n sum pg j pre (mkRS 0%float 0%nat None best)) as [E1 E2].
  cbn [rs_sum rs_cnt] in E1, E2. fold st in E1, E2. fold rows in E1, E2.
  assert (EW : W = wsum s rows) by (unfold W; rewrite E2; lia).
  split; [exact EW|].
  change (fold_left PrimFloat.add (map (wy_term y s) rows) 0%float) with (fsum (map (wy_term y s) rows)) in E1.
  unfold tm in *. rewrite E1 in *. rewrite EW in *.
  destruct (wmean_float_error y s rows Hw HW Hpos Ftm) as (_ & G1 & G2). split; assumption.
Qed.

(* ---------------- the root ---------------- *)
Lemma root_stats_fold y s : forall rows n0 s0,
  fold_left (fun '(n, sm) i => ((n + nth i s 0)%nat, oadd FOps sm (omul FOps (ofn FOps (nth i s 0%nat)) (nth i y FOps.(o0)))))
            rows (n0, s0) =
  ((n0 + wsum s rows)%nat, fold_left PrimFloat.add (map (wy_term y s) rows) s0).
Proof.
  induction rows as [|i rows IH]; intros n0 s0; cbn [fold_left map].
  - unfold wsum. cbn. f_equal. lia.
  - rewrite IH. unfold wsum. cbn [map]. rewrite list_sum_cons. f_equal. lia.
Qed.

Theorem root_mean_float_error (y : list PrimFloat.float) (s : list nat) :
  let rows := seq 0 (Nat.min (length s) (length y)) in
  let W := fst (root_stats FOps y s) in
  let root := odiv FOps (snd (root_stats FOps y s)) (ofn FOps W) in
  (forall i, In i rows -> (Z.of_nat (nth i s 0%nat) < 2 ^ 53)%Z) -> (Z.of_nat W < 2 ^ 53)%Z -> (0 < W)%nat ->
  ffin root ->
  let S := Rsuml (map (wy_exact y s) rows) in
  let Sabs := Rsumabs (map (wy_exact y s) rows) in
  let m := length rows in
  let E := Eu m * (Sabs + INR m * eta64) + INR m * eta64 in
  W = wsum s rows /\
  Rabs (FR root - S / INR W) <= (u64 * (Sabs + E) + E) / INR W + eta64.
Proof.
  intros rows W root Hw HW Hpos Fr S Sabs m E.
  assert (ER : root_stats FOps y s = (wsum s rows, fsum (map (wy_term y s) rows))).
  { unfold root_stats. fold rows. rewrite (root_stats_fold y s rows 0%nat FOps.(o0)). reflexivity. }
  unfold root, W in *. rewrite ER in *. cbn [fst snd] in *. split; [reflexivity|].
  destruct (wmean_float_error y s rows Hw HW Hpos Fr) as (_ & _ & G2). exact G2.
Qed.
