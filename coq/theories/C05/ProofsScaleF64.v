(* C05 — scale invariance of DecisionTreeRegressor::fit under multiplication of all features by 2^e,
   in BINARY64 (the FOps instance of the model, Coq's primitive floats).

   `pow2_scalable e v` : v is finite and is zero or satisfies 2^-969 <= |v| <= 2^(1022-e).
   For such data (0 <= e <= 1023):
     - v * 2^e is exact, finite, keeps the sign (no overflow: |v| 2^e <= 2^1022);
     - the three comparisons are preserved;
     - the midpoint ((a + b) / 2, two roundings) commutes with the scaling: the sum a + b of two such
       values is 0 or at least 2^-1021 in magnitude (both are multiples of 2^-1021), so neither its
       rounding nor the rounding of its half touches the subnormal range, where scaling and rounding
       would not commute; the sum of the scaled values is at most 2^1023 (no overflow);
     - the midpoint t is finite and 0 or 2^-1022 <= |t| <= 2^(1022-e), so t * 2^e is exact as well.
   These are the hypotheses of C05/ProofsScale.v, whence `fit_regressor_pow2`.
   Floating-point facts come from Flocq (BinarySingleNaN: Bmult/Bplus/Bdiv/Bldexp/Bcompare _correct,
   and its bridge IEEE754.PrimFloat to Coq's primitive floats, which rests on Coq's FloatAxioms). *)
From Coq Require Import ZArith Reals Lia Lra Bool List Floats.
From Flocq Require Import Core Mult_error IEEE754.BinarySingleNaN IEEE754.PrimFloat.
From SC Require Import Base.FloatUtil Base.Num C05.Model C05.ProofsScale.
Import ListNotations.
Local Open Scope R_scope.

Local Existing Instance Hprec.
Local Existing Instance Hmax.

Local Notation bf := (binary_float prec emax).
Local Notation fexp64 := (SpecFloat.fexp prec emax).
Local Notation rnd := (round radix2 fexp64 (round_mode mode_NE)).
Local Notation bp := (bpow radix2).

Local Instance fexp64_valid : Valid_exp fexp64 := fexp_correct prec emax Hprec.
Local Instance rnd_valid : Valid_rnd (round_mode mode_NE) := valid_rnd_round_mode mode_NE.

Lemma fexp64_FLT : fexp64 = FLT_exp (-1074) 53.
Proof. reflexivity. Qed.
Lemma fexp64_eq z : fexp64 z = Z.max (z - 53) (-1074).
Proof. reflexivity. Qed.

Lemma format_bpow z : (-1074 <= z)%Z -> generic_format radix2 fexp64 (bp z).
Proof. intros H. apply generic_format_bpow. rewrite fexp64_eq. lia. Qed.

(* ---------- rounding commutes with scaling by 2^e above the subnormal range ---------- *)
Lemma round_scale y e : (0 <= e)%Z -> y = 0 \/ bp (-1022) <= Rabs y -> rnd (y * bp e) = rnd y * bp e.
Proof.
  intros He [->|Hy]. { rewrite Rmult_0_l, round_0 by apply rnd_valid. ring. }
  assert (Hy0 : y <> 0).
  { intros ->. rewrite Rabs_R0 in Hy. pose proof (bpow_gt_0 radix2 (-1022)). lra. }
  assert (Hm : (-1021 <= mag radix2 y)%Z) by (apply mag_ge_bpow; exact Hy).
  assert (Ec : cexp radix2 fexp64 (y * bp e) = (cexp radix2 fexp64 y + e)%Z).
  { unfold cexp. rewrite mag_mult_bpow by exact Hy0. rewrite !fexp64_eq. lia. }
  unfold round, F2R, scaled_mantissa. cbn [Fnum Fexp]. rewrite Ec.
  replace (y * bp e * bp (- (cexp radix2 fexp64 y + e))) with (y * bp (- cexp radix2 fexp64 y)).
  2:{ rewrite Rmult_assoc, <- bpow_plus. f_equal. f_equal. lia. }
  rewrite bpow_plus. ring.
Qed.

(* a format number that is 0 or >= 2^lo in magnitude is an integer multiple of 2^(lo-52) *)
Lemma format_multiple lo y : (-1022 <= lo)%Z -> generic_format radix2 fexp64 y -> y = 0 \/ bp lo <= Rabs y ->
  exists k : Z, y = IZR k * bp (lo - 52).
Proof.
  intros Hlo Fy [->|Hy]. { exists 0%Z. ring. }
  assert (Hm : (lo + 1 <= mag radix2 y)%Z).
  { apply mag_ge_bpow. replace (lo + 1 - 1)%Z with lo by lia. exact Hy. }
  set (c := cexp radix2 fexp64 y). assert (Hc : (lo - 52 <= c)%Z).
  { unfold c, cexp. rewrite fexp64_eq. lia. }
  exists (Ztrunc (scaled_mantissa radix2 fexp64 y) * 2 ^ (c - (lo - 52)))%Z.
  rewrite Fy at 1. unfold F2R. cbn [Fnum Fexp]. fold c.
  rewrite mult_IZR, (IZR_Zpower radix2) by lia. rewrite Rmult_assoc, <- bpow_plus.
  f_equal. f_equal. lia.
Qed.

Lemma sum_lower lo a b : (-1022 <= lo)%Z ->
  generic_format radix2 fexp64 a -> generic_format radix2 fexp64 b ->
  a = 0 \/ bp lo <= Rabs a -> b = 0 \/ bp lo <= Rabs b ->
  a + b = 0 \/ bp (lo - 52) <= Rabs (a + b).
Proof.
  intros Hlo Fa Fb Ha Hb.
  destruct (format_multiple lo a Hlo Fa Ha) as (ka & Ea). destruct (format_multiple lo b Hlo Fb Hb) as (kb & Eb).
  assert (E : a + b = IZR (ka + kb) * bp (lo - 52)) by (rewrite plus_IZR, Ea, Eb; ring).
  destruct (Z.eq_dec (ka + kb) 0) as [Z0|NZ]; [left; rewrite E, Z0; ring|right].
  rewrite E, Rabs_mult, (Rabs_pos_eq (bp _)) by apply bpow_ge_0.
  rewrite <- abs_IZR. assert (1 <= IZR (Z.abs (ka + kb))) by (apply IZR_le; lia).
  pose proof (bpow_gt_0 radix2 (lo - 52)).
  rewrite <- (Rmult_1_l (bp (lo - 52))) at 1. apply Rmult_le_compat_r; lra.
Qed.

Lemma round_lower z y : (-1074 <= z)%Z -> y = 0 \/ bp z <= Rabs y -> rnd y = 0 \/ bp z <= Rabs (rnd y).
Proof.
  intros Hz [->|Hy]; [left; apply round_0; apply rnd_valid|right].
  apply abs_round_ge_generic; [apply fexp64_valid|apply rnd_valid|apply format_bpow; exact Hz|exact Hy].
Qed.
Lemma round_upper z y : (-1074 <= z)%Z -> Rabs y <= bp z -> Rabs (rnd y) <= bp z.
Proof.
  intros Hz Hy. apply abs_round_le_generic; [apply fexp64_valid|apply rnd_valid|apply format_bpow; exact Hz|exact Hy].
Qed.
Lemma bpow_pred_half z : bp (z - 1) = bp z * / 2.
Proof. unfold Zminus. rewrite bpow_plus. f_equal. Qed.
Lemma bpow_succ_double z : bp (z + 1) = 2 * bp z.
Proof. rewrite bpow_plus. change (bp 1) with 2. ring. Qed.
Lemma half_lower z y : y = 0 \/ bp z <= Rabs y -> y / 2 = 0 \/ bp (z - 1) <= Rabs (y / 2).
Proof.
  intros [->|Hy]; [left; lra|right]. rewrite bpow_pred_half.
  unfold Rdiv. rewrite Rabs_mult, (Rabs_pos_eq (/ 2)) by lra. lra.
Qed.
Lemma half_upper z y : Rabs y <= bp z -> Rabs (y / 2) <= bp (z - 1).
Proof.
  intros Hy. rewrite bpow_pred_half.
  unfold Rdiv. rewrite Rabs_mult, (Rabs_pos_eq (/ 2)) by lra. lra.
Qed.

(* ---------- the binary64 values ---------- *)
Definition f64_real (v : PrimFloat.float) : R := B2R (Prim2B v).
Definition f64_finite (v : PrimFloat.float) : Prop := is_finite (Prim2B v) = true.
Definition in_range (lo hi : Z) (r : R) : Prop := r = 0 \/ (bp lo <= Rabs r /\ Rabs r <= bp hi).
(* the hypothesis on the data *)
Definition pow2_scalable (e : Z) (v : PrimFloat.float) : Prop := f64_finite v /\ in_range (-969) (1022 - e) (f64_real v).
(* thresholds *)
Definition pow2_thr (e : Z) (v : PrimFloat.float) : Prop := f64_finite v /\ in_range (-1022) (1022 - e) (f64_real v).

Lemma in_range_weaken lo lo' hi r : (lo' <= lo)%Z -> in_range lo hi r -> in_range lo' hi r.
Proof.
  intros H [E|[A B]]; [left; exact E|right]. split; [|exact B].
  apply Rle_trans with (bp lo); [apply bpow_le; exact H|exact A].
Qed.
Lemma in_range_upper lo hi r : in_range lo hi r -> Rabs r <= bp hi.
Proof. intros [->|[_ B]]; [rewrite Rabs_R0; apply bpow_ge_0|exact B]. Qed.
Lemma in_range_lower lo hi r : in_range lo hi r -> r = 0 \/ bp lo <= Rabs r.
Proof. intros [E|[A _]]; [left; exact E|right; exact A]. Qed.
Lemma scalable_thr e v : pow2_scalable e v -> pow2_thr e v.
Proof. intros [F R]. split; [exact F|]. apply (in_range_weaken (-969)); [lia|exact R]. Qed.

(* 2^k as a binary64 number *)
Lemma ldexp1_correct k : (-1074 <= k <= 1023)%Z ->
  B2R (Prim2B (Z.ldexp 1 k)) = bp k /\ is_finite (Prim2B (Z.ldexp 1 k)) = true /\ Bsign (Prim2B (Z.ldexp 1 k)) = false.
Proof.
  intros Hk. rewrite ldexp_equiv. change 1%float with one. rewrite one_equiv, Prim2B_B2Prim.
  pose proof (Bldexp_correct prec emax Hprec Hmax mode_NE Bone k) as H.
  rewrite Bone_correct, Rmult_1_l in H.
  rewrite (round_generic radix2 fexp64 _ (bp k)) in H by (apply format_bpow; lia).
  rewrite Rabs_pos_eq in H by apply bpow_ge_0.
  rewrite Rlt_bool_true in H by (apply bpow_lt; unfold emax; lia).
  destruct H as (H1 & H2 & H3). split; [exact H1|]. split; [rewrite H2; reflexivity|rewrite H3; reflexivity].
Qed.
Lemma pow2_scalable_zero e : pow2_scalable e 0.
Proof. split; [reflexivity|left; reflexivity]. Qed.
Lemma pow2_scalable_pow2 e k : (-969 <= k <= 1022 - e)%Z -> (k <= 1023)%Z -> pow2_scalable e (Z.ldexp 1 k).
Proof.
  intros Hk Hk'. destruct (ldexp1_correct k) as (H1 & H2 & _); [lia|]. split; [exact H2|right].
  unfold f64_real. rewrite H1, Rabs_pos_eq by apply bpow_ge_0. split; apply bpow_le; lia.
Qed.

Section Pow2.
  Variable e : Z.
  Hypothesis He : (0 <= e <= 1023)%Z.

  Definition c2 : PrimFloat.float := Z.ldexp 1 e.
  Definition scale2 (v : PrimFloat.float) : PrimFloat.float := PrimFloat.mul v c2.

  Lemma c2_correct : B2R (Prim2B c2) = bp e /\ is_finite (Prim2B c2) = true /\ Bsign (Prim2B c2) = false.
  Proof. apply ldexp1_correct. lia. Qed.

  (* exact scaling *)
  Lemma scale2_correct v : f64_finite v -> Rabs (f64_real v) <= bp (1022 - e) ->
    f64_real (scale2 v) = f64_real v * bp e /\ f64_finite (scale2 v) /\
    Bsign (Prim2B (scale2 v)) = Bsign (Prim2B v).
  Proof.
    intros Fv Hv. unfold f64_real, f64_finite, scale2 in *. rewrite mul_equiv.
    destruct c2_correct as (C1 & C2 & C3).
    pose proof (Bmult_correct prec emax Hprec Hmax mode_NE (Prim2B v) (Prim2B c2)) as H.
    rewrite C1 in H.
    assert (Fmt : generic_format radix2 fexp64 (B2R (Prim2B v) * bp e)).
    { rewrite fexp64_FLT. apply mult_bpow_pos_exact_FLT; [rewrite <- fexp64_FLT; apply generic_format_B2R|lia]. }
    rewrite (round_generic radix2 fexp64 _ _ Fmt) in H.
    rewrite Rlt_bool_true in H.
    - destruct H as (H1 & H2 & H3). split; [exact H1|]. split; [rewrite H2, Fv, C2; reflexivity|].
      rewrite H3, C3; [apply xorb_false_r|].
      destruct (Bmult mode_NE (Prim2B v) (Prim2B c2)); try reflexivity. rewrite Fv, C2 in H2. discriminate.
    - rewrite Rabs_mult, (Rabs_pos_eq (bp e)) by apply bpow_ge_0.
      apply Rle_lt_trans with (bp (1022 - e) * bp e).
      + apply Rmult_le_compat_r; [apply bpow_ge_0|exact Hv].
      + rewrite <- bpow_plus. apply bpow_lt. unfold emax. lia.
  Qed.

  Lemma scale2_zero : scale2 0 = 0%float.
  Proof.
    apply Prim2B_inj.
    assert (F0 : f64_finite 0) by reflexivity.
    assert (R0 : f64_real 0 = 0) by reflexivity.
    destruct (scale2_correct 0 F0) as (H1 & H2 & H3).
    { rewrite R0, Rabs_R0. apply bpow_ge_0. }
    apply B2R_Bsign_inj; [exact H2|reflexivity| |exact H3].
    unfold f64_real in H1. rewrite H1. fold (f64_real 0). rewrite R0. ring.
  Qed.

  (* comparisons of finite floats *)
  Lemma leb_real a b : f64_finite a -> f64_finite b -> PrimFloat.leb a b = Rle_bool (f64_real a) (f64_real b).
  Proof. intros Fa Fb. rewrite leb_equiv. apply Bleb_correct; assumption. Qed.
  Lemma ltb_real a b : f64_finite a -> f64_finite b -> PrimFloat.ltb a b = Rlt_bool (f64_real a) (f64_real b).
  Proof. intros Fa Fb. rewrite ltb_equiv. apply Bltb_correct; assumption. Qed.
  Lemma eqb_real a b : f64_finite a -> f64_finite b -> PrimFloat.eqb a b = Req_bool (f64_real a) (f64_real b).
  Proof. intros Fa Fb. rewrite eqb_equiv. apply Beqb_correct; assumption. Qed.

  Lemma Rcompare_scale a b : Rcompare (a * bp e) (b * bp e) = Rcompare a b.
  Proof. apply Rcompare_mult_r. apply bpow_gt_0. Qed.

  Lemma scale2_cmp a b : pow2_thr e a -> pow2_thr e b ->
    PrimFloat.leb (scale2 a) (scale2 b) = PrimFloat.leb a b /\
    PrimFloat.ltb (scale2 a) (scale2 b) = PrimFloat.ltb a b /\
    PrimFloat.eqb (scale2 a) (scale2 b) = PrimFloat.eqb a b.
  Proof.
    intros [Fa Ra] [Fb Rb].
    destruct (scale2_correct a Fa (in_range_upper _ _ _ Ra)) as (A1 & A2 & _).
    destruct (scale2_correct b Fb (in_range_upper _ _ _ Rb)) as (B1 & B2 & _).
    rewrite !leb_real, !ltb_real, !eqb_real by assumption. rewrite A1, B1.
    unfold Rle_bool, Rlt_bool, Req_bool. rewrite Rcompare_scale. auto.
  Qed.

  (* ---------- the midpoint ---------- *)
  Definition fmid (a b : PrimFloat.float) : PrimFloat.float := PrimFloat.div (PrimFloat.add a b) (float_of_Z 2).

  Lemma two_correct : B2R (Prim2B (float_of_Z 2)) = 2 /\ is_finite (Prim2B (float_of_Z 2)) = true /\
                      Bsign (Prim2B (float_of_Z 2)) = false.
  Proof.
    change (float_of_Z 2) with 2%float. unfold Prim2B.
    rewrite B2R_SF2B, is_finite_SF2B, Bsign_SF2B.
    change (Prim2SF 2) with (S754_finite false 4503599627370496 (-51)).
    split; [|split; reflexivity]. cbn [SF2R cond_Zopp]. unfold F2R. cbn [Fnum Fexp bpow Z.pow_pos Pos.iter Z.mul Pos.mul radix_val radix2].
    lra.
  Qed.

  (* value, finiteness and sign of the midpoint of two finite floats of magnitude <= 2^1022 *)
  Lemma fmid_correct a b : f64_finite a -> f64_finite b ->
    Rabs (f64_real a) <= bp 1022 -> Rabs (f64_real b) <= bp 1022 ->
    f64_real (fmid a b) = rnd (rnd (f64_real a + f64_real b) / 2) /\ f64_finite (fmid a b) /\
    Bsign (Prim2B (fmid a b)) =
      match Rcompare (f64_real a + f64_real b) 0 with
      | Eq => andb (Bsign (Prim2B a)) (Bsign (Prim2B b)) | Lt => true | Gt => false end.
  Proof.
    intros Fa Fb Ha Hb. unfold f64_real, f64_finite, fmid in *. rewrite div_equiv, add_equiv.
    destruct two_correct as (T1 & T2 & T3).
    pose proof (Bplus_correct prec emax Hprec Hmax mode_NE (Prim2B a) (Prim2B b) Fa Fb) as HP.
    set (s := B2R (Prim2B a) + B2R (Prim2B b)) in *.
    assert (Hs : Rabs s <= bp 1023).
    { unfold s. apply Rle_trans with (1 := Rabs_triang _ _). change 1023%Z with (1022 + 1)%Z.
      rewrite bpow_succ_double. lra. }
    assert (Hrs : Rabs (rnd s) <= bp 1023) by (apply round_upper; [lia|exact Hs]).
    rewrite Rlt_bool_true in HP by (apply Rle_lt_trans with (1 := Hrs); apply bpow_lt; unfold emax; lia).
    destruct HP as (P1 & P2 & P3).
    pose proof (Bdiv_correct prec emax Hprec Hmax mode_NE (Bplus mode_NE (Prim2B a) (Prim2B b)) (Prim2B (float_of_Z 2))) as HD.
    rewrite T1, P1 in HD. specialize (HD ltac:(lra)).
    assert (Hh : Rabs (rnd s / 2) <= bp 1022).
    { replace 1022%Z with (1023 - 1)%Z by lia. apply half_upper. exact Hrs. }
    assert (Hrh : Rabs (rnd (rnd s / 2)) <= bp 1022) by (apply round_upper; [lia|exact Hh]).
    rewrite Rlt_bool_true in HD by (apply Rle_lt_trans with (1 := Hrh); apply bpow_lt; unfold emax; lia).
    destruct HD as (D1 & D2 & D3). split; [exact D1|]. split; [rewrite D2; exact P2|].
    rewrite D3, T3, xorb_false_r; [exact P3|].
    destruct (Bdiv mode_NE (Bplus mode_NE (Prim2B a) (Prim2B b)) (Prim2B (float_of_Z 2))); try reflexivity.
    rewrite P2 in D2. discriminate.
  Qed.

  Lemma fmid_thr a b : pow2_scalable e a -> pow2_scalable e b -> pow2_thr e (fmid a b).
  Proof.
    intros [Fa Ra] [Fb Rb].
    assert (Ua : Rabs (f64_real a) <= bp 1022).
    { apply Rle_trans with (1 := in_range_upper _ _ _ Ra). apply bpow_le. lia. }
    assert (Ub : Rabs (f64_real b) <= bp 1022).
    { apply Rle_trans with (1 := in_range_upper _ _ _ Rb). apply bpow_le. lia. }
    destruct (fmid_correct a b Fa Fb Ua Ub) as (M1 & M2 & _). split; [exact M2|]. rewrite M1.
    set (s := f64_real a + f64_real b).
    assert (Ls : s = 0 \/ bp (-1021) <= Rabs s).
    { change (-1021)%Z with (-969 - 52)%Z. apply sum_lower; [lia| | | |]; try apply generic_format_B2R.
      - exact (in_range_lower _ _ _ Ra).
      - exact (in_range_lower _ _ _ Rb). }
    assert (Lt' : rnd (rnd s / 2) = 0 \/ bp (-1022) <= Rabs (rnd (rnd s / 2))).
    { apply round_lower; [lia|]. change (-1022)%Z with (-1021 - 1)%Z. apply half_lower.
      apply round_lower; [lia|exact Ls]. }
    assert (Us : Rabs s <= bp (1022 - e + 1)).
    { unfold s. apply Rle_trans with (1 := Rabs_triang _ _). rewrite bpow_succ_double.
      pose proof (in_range_upper _ _ _ Ra). pose proof (in_range_upper _ _ _ Rb). lra. }
    assert (Ut : Rabs (rnd (rnd s / 2)) <= bp (1022 - e)).
    { apply round_upper; [lia|]. replace (1022 - e)%Z with (1022 - e + 1 - 1)%Z by lia. apply half_upper.
      apply round_upper; [lia|exact Us]. }
    destruct Lt' as [Z|L]; [left; exact Z|right; split; assumption].
  Qed.

  Lemma fmid_scale a b : pow2_scalable e a -> pow2_scalable e b ->
    fmid (scale2 a) (scale2 b) = scale2 (fmid a b).
  Proof.
    intros Sa Sb. pose proof (fmid_thr a b Sa Sb) as [Ft Rt]. destruct Sa as [Fa Ra], Sb as [Fb Rb].
    destruct (scale2_correct a Fa (in_range_upper _ _ _ Ra)) as (A1 & A2 & A3).
    destruct (scale2_correct b Fb (in_range_upper _ _ _ Rb)) as (B1 & B2 & B3).
    destruct (scale2_correct (fmid a b) Ft (in_range_upper _ _ _ Rt)) as (T1 & T2 & T3).
    assert (Ua : Rabs (f64_real a) <= bp 1022).
    { apply Rle_trans with (1 := in_range_upper _ _ _ Ra). apply bpow_le. lia. }
    assert (Ub : Rabs (f64_real b) <= bp 1022).
    { apply Rle_trans with (1 := in_range_upper _ _ _ Rb). apply bpow_le. lia. }
    assert (Usc : forall r, Rabs r <= bp (1022 - e) -> Rabs (r * bp e) <= bp 1022).
    { intros r Hr. rewrite Rabs_mult, (Rabs_pos_eq (bp e)) by apply bpow_ge_0.
      replace 1022%Z with (1022 - e + e)%Z by lia. rewrite bpow_plus.
      apply Rmult_le_compat_r; [apply bpow_ge_0|exact Hr]. }
    destruct (fmid_correct a b Fa Fb Ua Ub) as (M1 & M2 & M3).
    destruct (fmid_correct (scale2 a) (scale2 b) A2 B2) as (N1 & N2 & N3).
    { rewrite A1. apply Usc. exact (in_range_upper _ _ _ Ra). }
    { rewrite B1. apply Usc. exact (in_range_upper _ _ _ Rb). }
    set (s := f64_real a + f64_real b) in *.
    assert (Es : f64_real (scale2 a) + f64_real (scale2 b) = s * bp e) by (rewrite A1, B1; unfold s; ring).
    rewrite Es in N1, N3.
    assert (Ls : s = 0 \/ bp (-1021) <= Rabs s).
    { change (-1021)%Z with (-969 - 52)%Z. apply sum_lower; [lia| | | |]; try apply generic_format_B2R.
      - exact (in_range_lower _ _ _ Ra).
      - exact (in_range_lower _ _ _ Rb). }
    assert (Ls' : s = 0 \/ bp (-1022) <= Rabs s).
    { destruct Ls as [Z|L]; [left; exact Z|right]. apply Rle_trans with (2 := L). apply bpow_le. lia. }
    assert (Lh : rnd s / 2 = 0 \/ bp (-1022) <= Rabs (rnd s / 2)).
    { change (-1022)%Z with (-1021 - 1)%Z. apply half_lower. apply round_lower; [lia|exact Ls]. }
    apply Prim2B_inj. apply B2R_Bsign_inj; [exact N2|exact T2| |].
    - change (f64_real (fmid (scale2 a) (scale2 b)) = f64_real (scale2 (fmid a b))).
      rewrite N1, T1, M1. rewrite (round_scale s e) by (try lia; exact Ls').
      replace (rnd s * bp e / 2) with (rnd s / 2 * bp e) by (unfold Rdiv; ring).
      apply round_scale; [lia|exact Lh].
    - rewrite N3, T3, M3, A3, B3. replace 0 with (0 * bp e) at 1 by ring. rewrite Rcompare_scale. reflexivity.
  Qed.

  (* ---------- the fitted trees ---------- *)
  Lemma data_scalable x : Forall (Forall (pow2_scalable e)) x -> forall i j, pow2_scalable e (getx FOps x i j).
  Proof.
    intros Hx i j. unfold getx. apply Forall_nth_default; [|apply pow2_scalable_zero].
    apply (Forall_nth_default (Forall (pow2_scalable e))); [exact Hx|constructor].
  Qed.

  Ltac pow2_laws Hx :=
    cbn [FOps o0 oleb oltb oeqb];
    first
    [ exact scale2_zero
    | apply pow2_scalable_zero
    | (intros a b Ha Hb; apply (scale2_cmp a b); apply scalable_thr; assumption)
    | (intros a b Ha Hb; exact (fmid_thr a b Ha Hb))
    | (intros a b Ha Hb; exact (fmid_scale a b Ha Hb))
    | (intros v t Hv Ht; apply (scale2_cmp v t); [apply scalable_thr; exact Hv|exact Ht])
    | (apply data_scalable; exact Hx) ].

  Theorem fit_regressor_weak_pow2 x y samples vars md msl mss :
    Forall (Forall (pow2_scalable e)) x ->
    fit_regressor_weak FOps (map (map scale2) x) y samples vars md msl mss =
    option_map (relabel_tree scale2) (fit_regressor_weak FOps x y samples vars md msl mss).
  Proof.
    intros Hx. apply (fit_regressor_weak_relabel FOps scale2 (pow2_scalable e) (pow2_thr e)); pow2_laws Hx.
  Qed.

  Theorem fit_regressor_pow2 x y md msl mss :
    Forall (Forall (pow2_scalable e)) x ->
    fit_regressor FOps (map (map scale2) x) y md msl mss =
    option_map (relabel_tree scale2) (fit_regressor FOps x y md msl mss).
  Proof.
    intros Hx. apply (fit_regressor_relabel FOps scale2 (pow2_scalable e) (pow2_thr e)); pow2_laws Hx.
  Qed.

  Theorem fit_classifier_weak_pow2 lg2 crit x y samples vars md msl mss :
    Forall (Forall (pow2_scalable e)) x ->
    fit_classifier_weak FOps lg2 crit (map (map scale2) x) y samples vars md msl mss =
    option_map (relabel_classifier scale2) (fit_classifier_weak FOps lg2 crit x y samples vars md msl mss).
  Proof.
    intros Hx. apply (fit_classifier_weak_relabel FOps scale2 (pow2_scalable e) (pow2_thr e)); pow2_laws Hx.
  Qed.

  Theorem fit_classifier_pow2 lg2 crit x y md msl mss :
    Forall (Forall (pow2_scalable e)) x ->
    fit_classifier FOps lg2 crit (map (map scale2) x) y md msl mss =
    option_map (relabel_classifier scale2) (fit_classifier FOps lg2 crit x y md msl mss).
  Proof.
    intros Hx. apply (fit_classifier_relabel FOps scale2 (pow2_scalable e) (pow2_thr e)); pow2_laws Hx.
  Qed.
End Pow2.
