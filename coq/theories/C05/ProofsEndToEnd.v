(* C05 — end-to-end leaf-value theorems: the functions that compute the feature orders themselves
   (fit_regressor_weak / fit_regressor, fit_classifier_weak / fit_classifier), with the hypothesis
   `sorted_order` of ProofsReg.fit_regressor_consistent / ProofsCls.fit_classifier_consistent
   discharged by ProofsSorted.argsort_columns_sorted. *)
From Coq Require Import List Arith ZArith Bool Lia Reals Lra Permutation Sorted.
From SC Require Import Base.Num C05.Model C05.ProofsGrow C05.ProofsSort C05.ProofsReg C05.ProofsCls C05.ProofsSorted.
Import ListNotations.
Local Open Scope nat_scope.

Lemma nth_repeat_1 n i : i < n -> nth i (repeat 1 n) 0 = 1.
Proof. revert i. induction n; intros i H; [lia|]. destruct i; cbn; [reflexivity|apply IHn; lia]. Qed.

Lemma in_seq0_lt p j : In j (seq 0 p) -> j < p.
Proof. intros H. apply in_seq in H. lia. Qed.

(* ---------- regression ---------- *)
Lemma fit_regressor_weak_orders x y samples vars md msl mss nodes d :
  fit_regressor_weak ROps x y samples vars md msl mss = Some (nodes, d) ->
  exists order, argsort_columns ROps x (length (hd [] x)) = Some order /\
    (forall j, j < length (hd [] x) -> sorted_order x j (nth j order [])) /\
    fit_regressor_with_order ROps x y samples vars order md msl mss = Some (nodes, d).
Proof.
  unfold fit_regressor_weak. destruct (argsort_columns ROps x (length (hd [] x))) as [order|] eqn:E; [|discriminate].
  intros H. exists order. split; [reflexivity|]. split; [|exact H].
  apply (argsort_columns_sorted x _ order E).
Qed.

Lemma leaf_value_regression_weak x y samples vars md msl mss nodes d :
  length y = length x -> length samples = length x ->
  (forall id j, In j (vars id) -> j < length (hd [] x)) ->
  fit_regressor_weak ROps x y samples vars md msl mss = Some (nodes, d) ->
  exists G D, tree_consistent ROps 0%R x msl (reg_out_ok x y) samples nodes G D /\
    (forall i k, i < length x -> k < length nodes ->
      (route ROps nodes (nth i x []) k -> nth i (G k) 0 = nth i samples 0) /\
      (~ route ROps nodes (nth i x []) k -> nth i (G k) 0 = 0)) /\
    forall k, k < length nodes -> 0 < sum_nat (G k) ->
      (output (nth k nodes (dnode 0%R)) * IZN (sum_nat (G k)) =
       rsum (fun i => IZN (nth i (G k) 0%nat) * nth i y 0) (seq 0%nat (length x)))%R.
Proof.
  intros Hy Hs Hv H. apply fit_regressor_weak_orders in H as (order & _ & Ho & H).
  destruct (fit_regressor_consistent x y samples vars order md msl mss nodes d Hy Hs
              (fun id j Hj => Ho j (Hv id j Hj)) H) as (G & D & C & _).
  exists G, D. split; [exact C|]. split.
  - intros i k Hi Hk. exact (samples_routed ROps 0%R x msl _ samples nodes G D i k C Hi Hk).
  - intros k Hk Hpos. destruct (tc_out ROps 0%R x msl _ samples nodes G D C k Hk) as [Hl Hm].
    exact (Hm Hl Hpos).
Qed.

Lemma leaf_value_regression_fit x y md msl mss nodes d :
  length y = length x ->
  fit_regressor ROps x y md msl mss = Some (nodes, d) ->
  exists G D, tree_consistent ROps 0%R x msl (reg_out_ok x y) (repeat 1 (length x)) nodes G D /\
    (forall i k, i < length x -> k < length nodes ->
      (route ROps nodes (nth i x []) k -> nth i (G k) 0 = 1) /\
      (~ route ROps nodes (nth i x []) k -> nth i (G k) 0 = 0)) /\
    forall k, k < length nodes -> 0 < sum_nat (G k) ->
      (output (nth k nodes (dnode 0%R)) * IZN (sum_nat (G k)) =
       rsum (fun i => IZN (nth i (G k) 0%nat) * nth i y 0) (seq 0%nat (length x)))%R.
Proof.
  intros Hy H. unfold fit_regressor in H.
  destruct (leaf_value_regression_weak x y _ _ md msl mss nodes d Hy (repeat_length 1 (length x))
              (fun _ j Hj => in_seq0_lt _ j Hj) H) as (G & D & C & R & M).
  exists G, D. split; [exact C|]. split; [|exact M].
  intros i k Hi Hk. destruct (R i k Hi Hk) as [R1 R2]. split; [|exact R2].
  intros Hr. rewrite (R1 Hr). apply nth_repeat_1. exact Hi.
Qed.

(* ---------- classification ---------- *)
Lemma position_T_R v : forall l c, position_T ROps v l = Some c -> c < length l /\ nth c l 0%R = v.
Proof.
  induction l as [|h t IH]; intros c H; cbn [position_T] in H; [discriminate|].
  destruct (oeqb ROps v h) eqn:E.
  - inversion H; subst c. cbn [ROps oeqb] in E. apply Reqb_true in E. subst h. cbn. split; [lia|reflexivity].
  - destruct (position_T ROps v t) as [c'|]; [|discriminate]. cbn [option_map] in H. inversion H; subst c.
    destruct (IH c' eq_refl) as [I1 I2]. cbn. split; [lia|exact I2].
Qed.

Lemma fit_classifier_weak_orders lg2 crit x y samples vars md msl mss classes nodes d :
  fit_classifier_weak ROps lg2 crit x y samples vars md msl mss = Some (classes, nodes, d) ->
  classes = unique_T ROps y /\ 2 <= length classes /\
  exists yi order,
    length yi = length y /\
    (forall i, i < length y -> nth i yi 0 < length classes /\ nth (nth i yi 0) classes 0%R = nth i y 0%R) /\
    (forall j, j < length (hd [] x) -> sorted_order x j (nth j order [])) /\
    fit_classifier_with_order ROps lg2 crit x yi (length classes) samples vars order md msl mss = Some (nodes, d).
Proof.
  unfold fit_classifier_weak. destruct (length (unique_T ROps y) <? 2) eqn:K2; [discriminate|].
  apply Nat.ltb_ge in K2.
  destruct (mapM (fun v => position_T ROps v (unique_T ROps y)) y) as [yi|] eqn:E1; [|discriminate].
  destruct (argsort_columns ROps x (length (hd [] x))) as [order|] eqn:E2; [|discriminate].
  destruct (fit_classifier_with_order ROps lg2 crit x yi (length (unique_T ROps y)) samples vars order md msl mss)
    as [[n0 d0]|] eqn:E3; [|discriminate].
  intros H. inversion H; subst. split; [reflexivity|]. split; [exact K2|]. exists yi, order.
  apply mapM_nth in E1 as [L N]. split; [exact L|]. split.
  - intros i Hi. apply (position_T_R (nth i y 0%R)). apply N. exact Hi.
  - split; [|exact E3]. apply (argsort_columns_sorted x _ order E2).
Qed.

Lemma leaf_value_classification_weak lg2 crit x y samples vars md msl mss classes nodes d :
  length y = length x -> length samples = length x ->
  (forall id j, In j (vars id) -> j < length (hd [] x)) ->
  fit_classifier_weak ROps lg2 crit x y samples vars md msl mss = Some (classes, nodes, d) ->
  exists yi, length yi = length x /\
    (forall i, i < length x -> nth i yi 0 < length classes /\ nth (nth i yi 0) classes 0%R = nth i y 0%R) /\
    exists G D, tree_consistent ROps 0 x msl (cls_out_ok x yi (length classes)) samples nodes G D /\
      (forall i n, i < length x -> n < length nodes ->
        (route ROps nodes (nth i x []) n -> nth i (G n) 0 = nth i samples 0) /\
        (~ route ROps nodes (nth i x []) n -> nth i (G n) 0 = 0)) /\
      forall n, n < length nodes ->
        output (nth n nodes (dnode 0)) < length classes /\
        forall c, nth c (cvec x yi (length classes) (G n)) 0 <=
                  nth (output (nth n nodes (dnode 0))) (cvec x yi (length classes) (G n)) 0.
Proof.
  intros Hy Hs Hv H. apply fit_classifier_weak_orders in H as (_ & K2 & yi & order & Ly & Py & Ho & H).
  rewrite Hy in Ly, Py. exists yi. split; [exact Ly|]. split; [exact Py|].
  set (k := length classes) in *.
  destruct (fit_classifier_consistent lg2 crit x yi k samples vars order md msl mss nodes d Ly Hs
              (fun id j Hj => Ho j (Hv id j Hj)) H) as (G & D & C & _).
  exists G, D. split; [exact C|]. split.
  - intros i n Hi Hn. exact (samples_routed ROps 0 x msl _ samples nodes G D i n C Hi Hn).
  - intros n Hn. destruct (tc_out ROps 0 x msl _ samples nodes G D C n Hn) as [Hl Hm].
    rewrite (Hm Hl).
    assert (NE : cvec x yi k (G n) <> []).
    { intros E. pose proof (cvec_length x yi k (G n)) as L. rewrite E in L. cbn in L. lia. }
    destruct (which_max_spec _ NE) as [W1 W2]. rewrite cvec_length in W1. split; [exact W1|exact W2].
Qed.

Lemma leaf_value_classification_fit lg2 crit x y md msl mss classes nodes d :
  length y = length x ->
  fit_classifier ROps lg2 crit x y md msl mss = Some (classes, nodes, d) ->
  exists yi, length yi = length x /\
    (forall i, i < length x -> nth i yi 0 < length classes /\ nth (nth i yi 0) classes 0%R = nth i y 0%R) /\
    exists G D, tree_consistent ROps 0 x msl (cls_out_ok x yi (length classes)) (repeat 1 (length x)) nodes G D /\
      (forall i n, i < length x -> n < length nodes ->
        (route ROps nodes (nth i x []) n -> nth i (G n) 0 = 1) /\
        (~ route ROps nodes (nth i x []) n -> nth i (G n) 0 = 0)) /\
      forall n, n < length nodes ->
        output (nth n nodes (dnode 0)) < length classes /\
        forall c, nth c (cvec x yi (length classes) (G n)) 0 <=
                  nth (output (nth n nodes (dnode 0))) (cvec x yi (length classes) (G n)) 0.
Proof.
  intros Hy H. unfold fit_classifier in H.
  destruct (leaf_value_classification_weak lg2 crit x y _ _ md msl mss classes nodes d Hy (repeat_length 1 (length x))
              (fun _ j Hj => in_seq0_lt _ j Hj) H) as (yi & Ly & Py & G & D & C & R & M).
  exists yi. split; [exact Ly|]. split; [exact Py|]. exists G, D. split; [exact C|]. split; [|exact M].
  intros i n Hi Hn. destruct (R i n Hi Hn) as [R1 R2]. split; [|exact R2].
  intros Hr. rewrite (R1 Hr). apply nth_repeat_1. exact Hi.
Qed.
