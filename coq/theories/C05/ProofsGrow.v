From Coq Require Import List Arith Bool Lia.
From SC Require Import Base.Num C05.Model.
Import ListNotations.

(* ---------- list utilities ---------- *)
Lemma set_nth_length {A} (l : list A) i v : length (set_nth l i v) = length l.
Proof.
  unfold set_nth. destruct (i <? length l) eqn:E; auto.
  apply Nat.ltb_lt in E. rewrite app_length. cbn [length]. rewrite firstn_length, skipn_length. lia.
Qed.
Lemma nth_set_nth_eq {A} (l : list A) i v d : i < length l -> nth i (set_nth l i v) d = v.
Proof.
  intros H. unfold set_nth. apply Nat.ltb_lt in H as E. rewrite E.
  rewrite app_nth2; rewrite firstn_length; [|lia].
  replace (i - Nat.min i (length l)) with 0 by lia. reflexivity.
Qed.
Lemma nth_set_nth_neq {A} (l : list A) i k v d : k <> i -> nth k (set_nth l i v) d = nth k l d.
Proof.
  intros H. unfold set_nth. destruct (i <? length l) eqn:E; auto. apply Nat.ltb_lt in E.
  transitivity (nth k (firstn i l ++ skipn i l) d); [| now rewrite firstn_skipn].
  destruct (Nat.lt_ge_cases k i).
  - rewrite !app_nth1 by (rewrite firstn_length; lia). reflexivity.
  - rewrite !app_nth2 by (rewrite firstn_length; lia). rewrite firstn_length.
    replace (Nat.min i (length l)) with i by lia.
    destruct (k - i) eqn:K; [lia|]. cbn [nth].
    replace (skipn i l) with (nth i l d :: skipn (S i) l).
    + reflexivity.
    + clear -E. revert i E. induction l; intros; cbn in *; [lia|]. destruct i; cbn; auto. apply IHl. lia.
Qed.
Lemma nth_error_nth' {A} (l : list A) k d nd : nth_error l k = Some nd -> nth k l d = nd /\ k < length l.
Proof. intros H. split. apply nth_error_nth; auto. apply nth_error_Some. congruence. Qed.
Lemma nth_nth_error {A} (l : list A) k d : k < length l -> nth_error l k = Some (nth k l d).
Proof. intros. apply List.nth_error_nth'. auto. Qed.

Lemma In_combine_seq {A} (l : list A) : forall s k a, nth_error l k = Some a -> In (s + k, a) (combine (seq s (length l)) l).
Proof.
  induction l as [|h t IH]; intros s k a H; destruct k; cbn in *; try discriminate.
  - inversion H; subst. left. f_equal. lia.
  - right. replace (s + S k) with (S s + k) by lia. apply IH; auto.
Qed.

Lemma In_combine_seq_inv {A} (l : list A) d : forall s k a, In (k, a) (combine (seq s (length l)) l) ->
  s <= k < s + length l /\ nth (k - s) l d = a.
Proof.
  induction l as [|h t IH]; intros s0 k a H; cbn in H; [tauto|]. destruct H as [H|H].
  - inversion H; subst. cbn [length]. split; [lia|]. replace (k - k) with 0 by lia. reflexivity.
  - apply IH in H as [H1 H2]. cbn [length]. split; [lia|].
    replace (k - s0) with (S (k - S s0)) by lia. exact H2.
Qed.

Lemma nth_map_seq (f : nat -> nat) n i : i < n -> nth i (map f (seq 0 n)) 0 = f i.
Proof.
  intros H. rewrite (nth_indep _ 0 (f 0)) by (rewrite map_length, seq_length; auto).
  rewrite map_nth. rewrite seq_nth by auto. reflexivity.
Qed.

Lemma sum_nat_acc l : forall a, fold_left Nat.add l a = a + fold_left Nat.add l 0.
Proof. induction l; intros; cbn. lia. rewrite IHl. rewrite (IHl a). lia. Qed.

Section GrowProofs.
  Context {T A : Type} (O : Ops T) (a0 : A).
  Variable x : list (list T).
  Variable msl : nat.
  Variable find : nat -> A -> list nat -> option (cand T A).

  Local Notation dn := (dnode a0).
  Definition leafb (nd : node T A) : bool :=
    match nd.(true_child), nd.(false_child) with None, None => true | _, _ => false end.

  (* the path a row takes through the tree: one single-feature threshold test per internal node *)
  Inductive route (nodes : list (node T A)) (row : list T) : nat -> Prop :=
  | route_root : route nodes row 0
  | route_true : forall k nd c, route nodes row k -> nth_error nodes k = Some nd -> leafb nd = false ->
      le_thr O (rowget O row nd.(split_feature)) nd.(split_value) = true ->
      nd.(true_child) = Some c -> route nodes row c
  | route_false : forall k nd c, route nodes row k -> nth_error nodes k = Some nd -> leafb nd = false ->
      le_thr O (rowget O row nd.(split_feature)) nd.(split_value) = false ->
      nd.(false_child) = Some c -> route nodes row c.

  Lemma wf_treeb_nth (nodes : list (node T A)) k nd : wf_treeb nodes = true -> nth_error nodes k = Some nd ->
    wf_nodeb (length nodes) k nd = true.
  Proof.
    unfold wf_treeb. intros H E. apply andb_prop in H as [_ H].
    rewrite forallb_forall in H. apply (H (k, nd)). apply (In_combine_seq nodes 0 k nd E).
  Qed.

  Lemma predict_walk_routes (nodes : list (node T A)) row : wf_treeb nodes = true ->
    forall fuel id, id < length nodes -> length nodes - id <= fuel -> route nodes row id ->
    exists k nd, route nodes row k /\ nth_error nodes k = Some nd /\ leafb nd = true /\
                 predict_walk O fuel nodes row id = Some nd.(output).
  Proof.
    intros WF. induction fuel as [|f IH]; intros id Hid Hf R; [lia|].
    cbn [predict_walk]. destruct (nth_error nodes id) as [nd|] eqn:E.
    2:{ apply nth_error_None in E. lia. }
    pose proof (wf_treeb_nth nodes id nd WF E) as W. unfold wf_nodeb in W.
    destruct (true_child nd) as [tc|] eqn:Et; destruct (false_child nd) as [fc|] eqn:Ef; try discriminate.
    - apply andb_prop in W as [W W4]. apply andb_prop in W as [W W3]. apply andb_prop in W as [W1 W2].
      apply Nat.ltb_lt in W1, W2, W3, W4.
      assert (L : leafb nd = false) by (unfold leafb; rewrite Et; reflexivity).
      destruct (le_thr O (rowget O row (split_feature nd)) (split_value nd)) eqn:C.
      + apply IH; try lia. eapply route_true; eauto.
      + apply IH; try lia. eapply route_false; eauto.
    - exists id, nd. repeat split; auto. unfold leafb. rewrite Et, Ef. reflexivity.
  Qed.

  Lemma predict_routes (nodes : list (node T A)) row : wf_treeb nodes = true ->
    exists k nd, route nodes row k /\ nth_error nodes k = Some nd /\ leafb nd = true /\
                 predict_for_row O nodes row = Some nd.(output).
  Proof.
    intros WF. unfold predict_for_row. apply predict_walk_routes; auto; try lia.
    - unfold wf_treeb in WF. apply andb_prop in WF as [W _]. apply Nat.ltb_lt in W. exact W.
    - constructor.
  Qed.

  (* the route is a function of the row: two routed nodes that are both leaves coincide *)
  Lemma route_lt (nodes : list (node T A)) row k : wf_treeb nodes = true -> route nodes row k -> k < length nodes.
  Proof.
    intros WF R. induction R.
    - unfold wf_treeb in WF. apply andb_prop in WF as [W _]. apply Nat.ltb_lt in W. exact W.
    - pose proof (wf_treeb_nth _ _ _ WF H) as W. unfold wf_nodeb in W. rewrite H2 in W.
      destruct (false_child nd); try discriminate.
      repeat (apply andb_prop in W as [W ?]). apply Nat.ltb_lt. assumption.
    - pose proof (wf_treeb_nth _ _ _ WF H) as W. unfold wf_nodeb in W. rewrite H2 in W.
      destruct (true_child nd); try discriminate.
      repeat (apply andb_prop in W as [W ?]). apply Nat.ltb_lt. assumption.
  Qed.

  (* ---------------- growth invariant ---------------- *)
  Definition is_child (nodes : list (node T A)) (j k : nat) : Prop :=
    true_child (nth j nodes dn) = Some k \/ false_child (nth j nodes dn) = Some k.

  (* G k : the sample-count vector handed to node k;  D k : number of splits above node k *)
  Definition node_inv (nodes : list (node T A)) (G : nat -> list nat) (D : nat -> nat) (k : nat) : Prop :=
    let nd := nth k nodes dn in
    leafb nd = true \/
    exists tc, true_child nd = Some tc /\ false_child nd = Some (S tc) /\ k < tc /\ S tc < length nodes /\
      G tc = true_part O x (G k) (split_feature nd) (split_value nd) /\
      G (S tc) = false_part O x (G k) (split_feature nd) (split_value nd) /\
      D tc = S (D k) /\ D (S tc) = S (D k).

  Variable out_ok : list nat -> A -> Prop.
  Hypothesis find_ok : forall id out s c, find id out s = Some c -> out_ok s out ->
      out_ok (true_part O x s c.(c_feat) (Some c.(c_val))) c.(c_tco) /\
      out_ok (false_part O x s c.(c_feat) (Some c.(c_val))) c.(c_fco).

  Record tree_consistent (samples0 : list nat) (nodes : list (node T A))
         (G : nat -> list nat) (D : nat -> nat) : Prop := {
    tc_nonempty : 0 < length nodes;
    tc_rootG : G 0 = samples0;
    tc_rootD : D 0 = 0;
    tc_nodes : forall k, k < length nodes -> node_inv nodes G D k;
    tc_parent : forall k, 0 < k < length nodes -> exists j, j < k /\ is_child nodes j k;
    tc_size : forall k, 0 < k < length nodes -> msl <= sum_nat (G k);
    tc_out : forall k, k < length nodes -> out_ok (G k) (output (nth k nodes dn)) }.

  Definition q_inv (nodes : list (node T A)) (G : nat -> list nat) (D : nat -> nat) (depth : nat)
             (v : visitor A) : Prop :=
    v.(v_node) < length nodes /\ leafb (nth v.(v_node) nodes dn) = true /\ G v.(v_node) = v.(v_samples) /\
    (exists c, find v.(v_node) (output (nth v.(v_node) nodes dn)) v.(v_samples) = Some c /\
               split_feature (nth v.(v_node) nodes dn) = c.(c_feat) /\
               split_value (nth v.(v_node) nodes dn) = Some c.(c_val) /\
               v.(v_tco) = c.(c_tco) /\ v.(v_fco) = c.(c_fco)) /\
    S (D v.(v_node)) = v.(v_level) /\ v.(v_level) <= Nat.max 1 depth.

  Definition state_inv (samples0 : list nat) (md : nat) (nodes : list (node T A)) (depth : nat)
             (queue : list (visitor A)) : Prop :=
    exists G D, tree_consistent samples0 nodes G D /\ (forall k, k < length nodes -> D k <= md) /\
                Forall (q_inv nodes G D depth) queue /\ NoDup (map v_node queue).

  (* nodes' differs from nodes only in the split fields of the leaf `id` *)
  Definition upd_at (id : nat) (nodes nodes' : list (node T A)) : Prop :=
    length nodes' = length nodes /\ (forall k, k <> id -> nth k nodes' dn = nth k nodes dn) /\
    leafb (nth id nodes dn) = true /\ leafb (nth id nodes' dn) = true /\
    output (nth id nodes' dn) = output (nth id nodes dn).

  Lemma leafb_children nd : leafb nd = true -> true_child nd = None /\ false_child nd = None.
  Proof. unfold leafb. destruct (true_child nd), (false_child nd); intros; try discriminate; auto. Qed.

  Lemma consistent_upd id nodes nodes' s G D :
    upd_at id nodes nodes' -> tree_consistent s nodes G D -> tree_consistent s nodes' G D.
  Proof.
    intros (HL & HN & L1 & L2 & HO) C. destruct C as [c1 c2 c3 c4 c5 c6 c7].
    constructor; rewrite ?HL; auto.
    - intros k Hk. destruct (Nat.eq_dec k id) as [->|Ne].
      + left. exact L2.
      + unfold node_inv. rewrite (HN k Ne), HL. apply c4. exact Hk.
    - intros k Hk. destruct (c5 k Hk) as (j & Hj & Hc). exists j. split; auto.
      unfold is_child in *. destruct (Nat.eq_dec j id) as [->|Ne].
      + apply leafb_children in L1 as [E1 E2]. rewrite E1, E2 in Hc. destruct Hc; discriminate.
      + rewrite (HN j Ne). exact Hc.
    - intros k Hk. destruct (Nat.eq_dec k id) as [->|Ne].
      + rewrite HO. apply c7. exact Hk.
      + rewrite (HN k Ne). apply c7. exact Hk.
  Qed.

  Lemma q_inv_upd id nodes nodes' G D depth v :
    upd_at id nodes nodes' -> v_node v <> id -> q_inv nodes G D depth v -> q_inv nodes' G D depth v.
  Proof.
    intros (HL & HN & _) Ne Q. unfold q_inv in *. rewrite (HN _ Ne), HL. exact Q.
  Qed.

  Lemma q_inv_depth nodes G D d d' v : d <= d' -> q_inv nodes G D d v -> q_inv nodes G D d' v.
  Proof. unfold q_inv. intros Hd (Q1 & Q2 & Q3 & Q4 & Q5 & Q6). repeat split; auto. lia. Qed.

  Lemma fbc_spec nodes v nodes' v' b :
    find_best_cutoff a0 find nodes v = (nodes', v', b) ->
    v_node v < length nodes -> leafb (nth (v_node v) nodes dn) = true ->
    upd_at (v_node v) nodes nodes' /\
    v_node v' = v_node v /\ v_samples v' = v_samples v /\ v_level v' = v_level v /\
    (b = true -> exists c, find (v_node v) (output (nth (v_node v) nodes' dn)) (v_samples v) = Some c /\
               split_feature (nth (v_node v) nodes' dn) = c.(c_feat) /\
               split_value (nth (v_node v) nodes' dn) = Some c.(c_val) /\
               v_tco v' = c.(c_tco) /\ v_fco v' = c.(c_fco)).
  Proof.
    unfold find_best_cutoff. intros H Hlt L.
    destruct (find (v_node v) (output (nth (v_node v) nodes dn)) (v_samples v)) as [c|] eqn:F;
      inversion H; subst; clear H.
    - split.
      + unfold upd_at. rewrite set_nth_length. split; auto. split.
        * intros k Ne. apply nth_set_nth_neq; auto.
        * rewrite nth_set_nth_eq by auto. pose proof (leafb_children _ L) as [E1 E2].
          unfold leafb in *. cbn. rewrite E1, E2. auto.
      + cbn. split; [reflexivity|]. split; [reflexivity|]. split; [reflexivity|].
        intros _. exists c. rewrite nth_set_nth_eq by auto. cbn. auto.
    - split.
      + unfold upd_at. repeat split; auto.
      + split; [reflexivity|]. split; [reflexivity|]. split; [reflexivity|]. discriminate.
  Qed.

  (* find_best_cutoff on a fresh leaf `id` keeps the invariant and may enqueue its visitor *)
  Lemma fbc_inv s md nodes depth queue id smp lvl nodes' v' b G D :
    tree_consistent s nodes G D -> (forall k, k < length nodes -> D k <= md) ->
    Forall (q_inv nodes G D depth) queue -> NoDup (map v_node queue) ->
    id < length nodes -> leafb (nth id nodes dn) = true -> ~ In id (map v_node queue) ->
    G id = smp -> S (D id) = lvl -> lvl <= Nat.max 1 depth ->
    find_best_cutoff a0 find nodes (mkVis id smp a0 a0 lvl) = (nodes', v', b) ->
    tree_consistent s nodes' G D /\ length nodes' = length nodes /\
    Forall (q_inv nodes' G D depth) (if b then queue ++ [v'] else queue) /\
    NoDup (map v_node (if b then queue ++ [v'] else queue)) /\
    (forall k, k <> id -> nth k nodes' dn = nth k nodes dn).
  Proof.
    intros C HD Q ND Hid L NI HG HDl Hl F.
    apply fbc_spec in F; auto. cbn [v_node v_samples v_level] in F.
    destruct F as (U & E1 & E2 & E3 & Hb).
    assert (Q' : Forall (q_inv nodes' G D depth) queue).
    { rewrite Forall_forall in *. intros v Hv. eapply q_inv_upd; eauto.
      intros E. apply NI. rewrite <- E. apply in_map. exact Hv. }
    split; [eapply consistent_upd; eauto|]. destruct U as (HL & HN & L1 & L2 & HO).
    split; auto. destruct b.
    - destruct (Hb eq_refl) as (c & Fc & S1 & S2 & S3 & S4).
      split; [|split].
      + apply Forall_app. split; auto. constructor; auto.
        unfold q_inv. rewrite E1, E2, E3, HL. cbn [v_node v_samples v_level].
        split; [auto|]. split; [auto|]. split; [auto|].
        split; [exists c; repeat split; auto|]. split; auto.
      + rewrite map_app. cbn. rewrite E1. clear -ND NI.
        induction (map v_node queue); cbn in *.
        * constructor; [intros []|constructor].
        * inversion ND; subst. constructor.
          -- rewrite in_app_iff. cbn. intuition.
          -- apply IHl; auto.
      + exact HN.
    - split; auto.
  Qed.

  Lemma split_inv s md nodes depth v rest nodes' depth' queue' :
    state_inv s md nodes depth (v :: rest) -> depth < md ->
    split O a0 x msl find nodes depth v rest = (nodes', depth', queue') ->
    state_inv s md nodes' depth' queue'.
  Proof.
    intros (G & D & C & HD & Q & ND) Hmd HS.
    inversion Q as [|v0 r0 Qv Qr]; subst v0 r0.
    cbn [map] in ND. inversion ND as [|n0 l0 NIv NDr]; subst n0 l0.
    destruct Qv as (Hv & Lv & Gv & (c & Fc & Sf & Sv & Tco & Fco) & Dv & Lev).
    unfold split in HS.
    set (nd := nth (v_node v) nodes dn) in *.
    set (ts := true_part O x (v_samples v) (split_feature nd) (split_value nd)) in *.
    set (fs := false_part O x (v_samples v) (split_feature nd) (split_value nd)) in *.
    destruct ((sum_nat ts <? msl) || (sum_nat fs <? msl)) eqn:Guard.
    - (* re-validation fails: the node is reset and stays a leaf *)
      inversion HS; subst; clear HS.
      assert (U : upd_at (v_node v) nodes
                    (set_nth nodes (v_node v) (mkNode (output nd) 0 None None (true_child nd) (false_child nd)))).
      { unfold upd_at. rewrite set_nth_length. split; auto. split.
        - intros k Ne. apply nth_set_nth_neq; auto.
        - rewrite nth_set_nth_eq by auto. pose proof (leafb_children _ Lv) as [E1 E2].
          fold nd in E1, E2. unfold leafb in *. cbn. rewrite E1, E2. auto. }
      exists G, D. split; [eapply consistent_upd; eauto|].
      split; [destruct U as (HL & _); rewrite HL; auto|]. split; auto.
      rewrite Forall_forall in *. intros w Hw. eapply q_inv_upd; eauto.
      intros E. apply NIv. rewrite <- E. apply in_map. exact Hw.
    - apply orb_false_elim in Guard as [G1 G2]. apply Nat.ltb_ge in G1, G2.
      set (ti := length nodes) in *.
      set (nodes1 := nodes ++ [new_node (v_tco v); new_node (v_fco v)]) in *.
      set (nodes2 := set_nth nodes1 (v_node v)
                       (mkNode (output nd) (split_feature nd) (split_value nd) (split_score nd)
                               (Some ti) (Some (S ti)))) in *.
      set (G' := fun k => if k =? ti then ts else if k =? S ti then fs else G k).
      set (D' := fun k => if (k =? ti) || (k =? S ti) then v_level v else D k).
      assert (len1 : length nodes1 = ti + 2) by (unfold nodes1; rewrite app_length; cbn; lia).
      assert (len2 : length nodes2 = ti + 2) by (unfold nodes2; rewrite set_nth_length; auto).
      assert (N_old : forall k, k < ti -> k <> v_node v -> nth k nodes2 dn = nth k nodes dn).
      { intros k Hk Ne. unfold nodes2. rewrite nth_set_nth_neq by auto. unfold nodes1. apply app_nth1. exact Hk. }
      assert (N_v : nth (v_node v) nodes2 dn =
                    mkNode (output nd) (split_feature nd) (split_value nd) (split_score nd) (Some ti) (Some (S ti))).
      { unfold nodes2. apply nth_set_nth_eq. lia. }
      assert (N_ti : nth ti nodes2 dn = new_node (v_tco v)).
      { unfold nodes2. rewrite nth_set_nth_neq by (unfold ti; lia). unfold nodes1.
        rewrite app_nth2 by (unfold ti; lia). replace (ti - length nodes) with 0 by (unfold ti; lia). reflexivity. }
      assert (N_fi : nth (S ti) nodes2 dn = new_node (v_fco v)).
      { unfold nodes2. rewrite nth_set_nth_neq by (unfold ti; lia). unfold nodes1.
        rewrite app_nth2 by (unfold ti; lia). replace (S ti - length nodes) with 1 by (unfold ti; lia). reflexivity. }
      assert (G_old : forall k, k < ti -> G' k = G k).
      { intros k Hk. unfold G'. destruct (k =? ti) eqn:E1; [apply Nat.eqb_eq in E1; lia|].
        destruct (k =? S ti) eqn:E2; [apply Nat.eqb_eq in E2; lia|]. reflexivity. }
      assert (D_old : forall k, k < ti -> D' k = D k).
      { intros k Hk. unfold D'. destruct (k =? ti) eqn:E1; [apply Nat.eqb_eq in E1; lia|].
        destruct (k =? S ti) eqn:E2; [apply Nat.eqb_eq in E2; lia|]. reflexivity. }
      assert (G_ti : G' ti = ts) by (unfold G'; rewrite Nat.eqb_refl; reflexivity).
      assert (G_fi : G' (S ti) = fs).
      { unfold G'. destruct (S ti =? ti) eqn:E1; [apply Nat.eqb_eq in E1; lia|]. rewrite Nat.eqb_refl. reflexivity. }
      assert (D_ti : D' ti = v_level v) by (unfold D'; rewrite Nat.eqb_refl; reflexivity).
      assert (D_fi : D' (S ti) = v_level v) by (unfold D'; rewrite Nat.eqb_refl, orb_true_r; reflexivity).
      destruct C as [c1 c2 c3 c4 c5 c6 c7].
      assert (Lnd : true_child nd = None /\ false_child nd = None) by (apply leafb_children; exact Lv).
      assert (C2 : tree_consistent s nodes2 G' D').
      { constructor.
        - lia.
        - rewrite G_old by (unfold ti; lia). exact c2.
        - rewrite D_old by (unfold ti; lia). exact c3.
        - intros k Hk. rewrite len2 in Hk. unfold node_inv.
          destruct (Nat.eq_dec k (v_node v)) as [->|Ne].
          + right. rewrite N_v. cbn. exists ti. rewrite len2.
            rewrite G_ti, G_fi, D_ti, D_fi, G_old, D_old by exact Hv. rewrite Gv.
            repeat split; auto; try lia.
          + destruct (Nat.lt_ge_cases k ti) as [Hlt|Hge].
            * rewrite N_old by auto. destruct (c4 k Hlt) as [Lf|(tc & I1 & I2 & I3 & I4 & I5 & I6 & I7 & I8)].
              -- left. exact Lf.
              -- right. exists tc. rewrite len2. fold ti in I4.
                 rewrite !G_old, !D_old by lia. repeat split; auto; lia.
            * left. assert (k = ti \/ k = S ti) as [->| ->] by lia.
              -- rewrite N_ti. reflexivity.
              -- rewrite N_fi. reflexivity.
        - intros k Hk. rewrite len2 in Hk. destruct (Nat.lt_ge_cases k ti) as [Hlt|Hge].
          + destruct (c5 k (conj (proj1 Hk) Hlt)) as (j & Hj & Hc). exists j. split; auto.
            unfold is_child in *. rewrite N_old; auto; try lia.
            intros ->. fold nd in Hc. destruct Lnd as [E1 E2]. rewrite E1, E2 in Hc. destruct Hc; discriminate.
          + exists (v_node v). split; [lia|]. unfold is_child. rewrite N_v. cbn.
            assert (k = ti \/ k = S ti) as [->| ->] by lia; auto.
        - intros k Hk. rewrite len2 in Hk. destruct (Nat.lt_ge_cases k ti) as [Hlt|Hge].
          + rewrite G_old by auto. apply c6. lia.
          + assert (k = ti \/ k = S ti) as [->| ->] by lia.
            * rewrite G_ti. exact G1.
            * rewrite G_fi. exact G2.
        - intros k Hk. rewrite len2 in Hk.
          pose proof (find_ok _ _ _ _ Fc) as FO. fold nd in FO. rewrite <- Gv in FO.
          specialize (FO (c7 _ Hv)). rewrite Gv in FO. fold nd in Sf, Sv.
          rewrite <- Sf, <- Sv in FO. fold ts fs in FO. destruct FO as [FO1 FO2].
          destruct (Nat.lt_ge_cases k ti) as [Hlt|Hge].
          + rewrite G_old by auto. destruct (Nat.eq_dec k (v_node v)) as [->|Ne].
            * rewrite N_v. cbn. apply c7. exact Hv.
            * rewrite N_old by auto. apply c7. exact Hlt.
          + assert (k = ti \/ k = S ti) as [->| ->] by lia.
            * rewrite G_ti, N_ti. cbn. rewrite Tco. exact FO1.
            * rewrite G_fi, N_fi. cbn. rewrite Fco. exact FO2. }
      set (depth2 := Nat.max depth (S (v_level v))) in *.
      assert (HD2 : forall k, k < length nodes2 -> D' k <= md).
      { intros k Hk. rewrite len2 in Hk. destruct (Nat.lt_ge_cases k ti) as [Hlt|Hge].
        - rewrite D_old by auto. apply HD. exact Hlt.
        - assert (k = ti \/ k = S ti) as [->| ->] by lia; rewrite ?D_ti, ?D_fi; lia. }
      assert (Q2 : Forall (q_inv nodes2 G' D' depth2) rest).
      { rewrite Forall_forall in *. intros w Hw. destruct (Qr w Hw) as (W1 & W2 & W3 & W4 & W5 & W6).
        assert (Ne : v_node w <> v_node v).
        { intros E. apply NIv. rewrite <- E. apply in_map. exact Hw. }
        unfold q_inv. rewrite len2, N_old, G_old, D_old by auto.
        repeat split; auto; unfold depth2; lia. }
      assert (NI_ti : ~ In ti (map v_node rest)).
      { intros HI. apply in_map_iff in HI as (w & E & Hw). rewrite Forall_forall in Qr.
        destruct (Qr w Hw) as (W1 & _). unfold ti in E. lia. }
      assert (NI_fi : ~ In (S ti) (map v_node rest)).
      { intros HI. apply in_map_iff in HI as (w & E & Hw). rewrite Forall_forall in Qr.
        destruct (Qr w Hw) as (W1 & _). unfold ti in E. lia. }
      destruct (find_best_cutoff a0 find nodes2 (mkVis ti ts a0 a0 (S (v_level v)))) as [[nodes3 tv] tb] eqn:F1.
      destruct (find_best_cutoff a0 find nodes3 (mkVis (S ti) fs a0 a0 (S (v_level v)))) as [[nodes4 fv] fb] eqn:F2.
      inversion HS; subst nodes' depth' queue'; clear HS.
      assert (A1 : ti < length nodes2) by (rewrite len2; lia).
      assert (A2 : leafb (nth ti nodes2 dn) = true) by (rewrite N_ti; reflexivity).
      assert (A3 : S (D' ti) = S (v_level v)) by (rewrite D_ti; reflexivity).
      assert (A4 : S (v_level v) <= Nat.max 1 depth2) by (unfold depth2; lia).
      destruct (fbc_inv s md nodes2 depth2 rest ti ts (S (v_level v)) nodes3 tv tb G' D'
                        C2 HD2 Q2 NDr A1 A2 NI_ti G_ti A3 A4 F1) as (C3 & len3 & Q3 & ND3 & N3).
      assert (HD3 : forall k, k < length nodes3 -> D' k <= md) by (rewrite len3; exact HD2).
      assert (B1 : S ti < length nodes3) by (rewrite len3, len2; lia).
      assert (B2 : leafb (nth (S ti) nodes3 dn) = true) by (rewrite N3 by lia; rewrite N_fi; reflexivity).
      assert (B3 : S (D' (S ti)) = S (v_level v)) by (rewrite D_fi; reflexivity).
      assert (B0 : ~ In (S ti) (map v_node (if tb then rest ++ [tv] else rest))).
      { destruct tb; auto. rewrite map_app, in_app_iff. intros [HI|HI]; [auto|].
        cbn in HI. destruct HI as [HI|[]].
        apply fbc_spec in F1 as (_ & E1 & _); [|cbn; exact A1|cbn; exact A2].
        cbn in E1. lia. }
      destruct (fbc_inv s md nodes3 depth2 (if tb then rest ++ [tv] else rest) (S ti) fs (S (v_level v))
                        nodes4 fv fb G' D' C3 HD3 Q3 ND3 B1 B2 B0 G_fi B3 A4 F2) as (C4 & len4 & Q4 & ND4 & N4).
      exists G', D'. split; auto. split; auto. rewrite len4. exact HD3.
  Qed.

  Lemma grow_inv s md : forall fuel nodes depth queue nodes' d',
    state_inv s md nodes depth queue ->
    grow O a0 x msl find fuel md nodes depth queue = Some (nodes', d') ->
    exists G D, tree_consistent s nodes' G D /\ (forall k, k < length nodes' -> D k <= md).
  Proof.
    induction fuel as [|f IH]; intros nodes depth queue nodes' d' I H.
    - cbn [grow] in H. destruct (depth <? md); [destruct queue; [|discriminate]|];
        inversion H; subst; destruct I as (G & D & C & HD & _); exists G, D; auto.
    - cbn [grow] in H. destruct (depth <? md) eqn:E.
      + destruct queue as [|v rest].
        * inversion H; subst. destruct I as (G & D & C & HD & _). exists G, D; auto.
        * destruct (split O a0 x msl find nodes depth v rest) as [[n2 d2] q2] eqn:S.
          apply Nat.ltb_lt in E. eapply IH; [|exact H]. eapply split_inv; eauto.
      + inversion H; subst. destruct I as (G & D & C & HD & _). exists G, D; auto.
  Qed.

  Definition md_of (max_depth : option nat) : nat := match max_depth with Some d => d | None => 65535 end.

  Lemma grow_tree_consistent root_out samples max_depth nodes d :
    out_ok samples root_out ->
    grow_tree O a0 x msl find root_out samples max_depth = Some (nodes, d) ->
    exists G D, tree_consistent samples nodes G D /\ (forall k, k < length nodes -> D k <= md_of max_depth).
  Proof.
    intros HO H. unfold grow_tree in H.
    destruct (find_best_cutoff a0 find [new_node root_out] (mkVis 0 samples a0 a0 1)) as [[nodes0 v0] b0] eqn:F.
    fold (md_of max_depth) in H.
    assert (C0 : tree_consistent samples [new_node root_out] (fun _ => samples) (fun _ => 0)).
    { constructor; cbn [length]; auto.
      - intros k Hk. left. assert (k = 0) as -> by lia. reflexivity.
      - intros k Hk. lia.
      - intros k Hk. lia.
      - intros k Hk. assert (k = 0) as -> by lia. exact HO. }
    assert (A1 : 0 < length [new_node (T:=T) root_out]) by (cbn; lia).
    assert (A2 : leafb (nth 0 [new_node root_out] dn) = true) by reflexivity.
    assert (A3 : ~ In 0 (map (v_node (A:=A)) [])) by (intros []).
    assert (A4 : forall k, k < length [new_node (T:=T) root_out] -> (fun _ : nat => 0) k <= md_of max_depth) by (intros; lia).
    destruct (fbc_inv samples (md_of max_depth) [new_node root_out] 0 [] 0 samples 1 nodes0 v0 b0
                      (fun _ => samples) (fun _ => 0) C0 A4 (Forall_nil _) (NoDup_nil _) A1 A2 A3 eq_refl eq_refl
                      (Nat.le_refl _) F) as (C1 & len1 & Q1 & ND1 & _).
    eapply grow_inv; [|exact H]. exists (fun _ => samples), (fun _ => 0).
    split; auto. split; auto. rewrite len1. exact A4.
  Qed.

  (* ---------------- consequences of tree_consistent ---------------- *)
  Lemma consistent_wf s nodes G D : tree_consistent s nodes G D -> wf_treeb nodes = true.
  Proof.
    intros [c1 c2 c3 c4 c5 c6 c7]. unfold wf_treeb. apply andb_true_intro. split; [apply Nat.ltb_lt; auto|].
    apply forallb_forall. intros [k nd] HI. cbn [fst snd].
    assert (Hk : k < length nodes /\ nth k nodes dn = nd).
    { apply (In_combine_seq_inv nodes dn 0 k nd) in HI as [H1 H2]. rewrite Nat.sub_0_r in H2. split; auto; lia. }
    destruct Hk as [Hk <-]. unfold wf_nodeb.
    destruct (c4 k Hk) as [L|(tc & I1 & I2 & I3 & I4 & _)].
    - apply leafb_children in L as [E1 E2]. rewrite E1, E2. reflexivity.
    - rewrite I1, I2. repeat (apply andb_true_intro; split); apply Nat.ltb_lt; lia.
  Qed.

  (* structural depth: number of splits on the path from the root *)
  Inductive reach (nodes : list (node T A)) : nat -> nat -> Prop :=
  | reach_root : reach nodes 0 0
  | reach_child : forall j k d, reach nodes j d -> j < length nodes -> is_child nodes j k -> reach nodes k (S d).

  Lemma reach_depth s nodes G D k d : tree_consistent s nodes G D -> reach nodes k d ->
    k < length nodes /\ D k = d.
  Proof.
    intros C R. induction R as [|j k d R IH Hj Hc].
    - destruct C; auto.
    - destruct IH as [_ IH]. destruct (tc_nodes _ _ _ _ C j Hj) as [L|(tc & I1 & I2 & I3 & I4 & I5 & I6 & I7 & I8)].
      + apply leafb_children in L as [E1 E2]. unfold is_child in Hc. rewrite E1, E2 in Hc. destruct Hc; discriminate.
      + unfold is_child in Hc. rewrite I1, I2 in Hc. destruct Hc as [Hc|Hc]; inversion Hc; subst; split; auto; lia.
  Qed.

  Lemma nth_true_part smp f thr i : i < length x ->
    nth i (true_part O x smp f thr) 0 = if goes_true O x smp f thr i then nth i smp 0 else 0.
  Proof.
    intros Hi. unfold true_part.
    exact (nth_map_seq (fun i => if goes_true O x smp f thr i then nth i smp 0 else 0) _ _ Hi).
  Qed.
  Lemma nth_false_part smp f thr i : i < length x ->
    nth i (false_part O x smp f thr) 0 = if goes_true O x smp f thr i then 0 else nth i smp 0.
  Proof.
    intros Hi. unfold false_part.
    exact (nth_map_seq (fun i => if goes_true O x smp f thr i then 0 else nth i smp 0) _ _ Hi).
  Qed.

  (* the sample vector of node k is the indicator (times the row's count) of the training rows routed to k *)
  Lemma samples_routed_fwd s nodes G D i k : tree_consistent s nodes G D -> i < length x ->
    route nodes (nth i x []) k -> k < length nodes /\ nth i (G k) 0 = nth i s 0.
  Proof.
    intros C Hi R. induction R as [|k nd c R IH E L Cmp Ch|k nd c R IH E L Cmp Ch].
    - destruct C as [c1 c2]. rewrite c2. auto.
    - destruct IH as [Hk IH]. apply (nth_error_nth' _ _ dn) in E as [E _]. subst nd.
      destruct (tc_nodes _ _ _ _ C k Hk) as [L'|(tc & I1 & I2 & I3 & I4 & I5 & I6 & I7 & I8)]; [congruence|].
      rewrite Ch in I1. inversion I1; subst tc. split; [lia|]. rewrite I5, nth_true_part by auto.
      unfold goes_true. fold (rowget O (nth i x []) (split_feature (nth k nodes dn))) in Cmp.
      unfold getx. unfold rowget in Cmp. rewrite Cmp, andb_true_r. rewrite IH.
      destruct (0 <? nth i s 0) eqn:Z; auto. apply Nat.ltb_ge in Z. lia.
    - destruct IH as [Hk IH]. apply (nth_error_nth' _ _ dn) in E as [E _]. subst nd.
      destruct (tc_nodes _ _ _ _ C k Hk) as [L'|(tc & I1 & I2 & I3 & I4 & I5 & I6 & I7 & I8)]; [congruence|].
      rewrite Ch in I2. inversion I2; subst c. split; [lia|]. rewrite I6, nth_false_part by auto.
      unfold goes_true. unfold getx. unfold rowget in Cmp. rewrite Cmp, andb_false_r. exact IH.
  Qed.

  Lemma samples_routed_bwd s nodes G D i : tree_consistent s nodes G D -> i < length x ->
    forall k, k < length nodes -> 0 < nth i (G k) 0 -> route nodes (nth i x []) k.
  Proof.
    intros C Hi k. induction k as [k IH] using lt_wf_ind. intros Hk Pos.
    destruct (Nat.eq_dec k 0) as [->|Nz]; [constructor|].
    destruct (tc_parent _ _ _ _ C k) as (j & Hj & Hc); [lia|].
    assert (Hjl : j < length nodes) by lia.
    destruct (tc_nodes _ _ _ _ C j Hjl) as [L|(tc & I1 & I2 & I3 & I4 & I5 & I6 & I7 & I8)].
    - apply leafb_children in L as [E1 E2]. unfold is_child in Hc. rewrite E1, E2 in Hc. destruct Hc; discriminate.
    - assert (NL : leafb (nth j nodes dn) = false) by (unfold leafb; rewrite I1; reflexivity).
      unfold is_child in Hc. rewrite I1, I2 in Hc.
      destruct Hc as [Hc|Hc]; inversion Hc; subst k.
      + rewrite I5, nth_true_part in Pos by auto.
        destruct (goes_true O x (G j) (split_feature (nth j nodes dn)) (split_value (nth j nodes dn)) i) eqn:GT; [|lia].
        unfold goes_true in GT. apply andb_prop in GT as [_ GT].
        apply (route_true nodes (nth i x []) j (nth j nodes dn) tc); auto.
        apply nth_nth_error; exact Hjl.
      + rewrite I6, nth_false_part in Pos by auto.
        destruct (goes_true O x (G j) (split_feature (nth j nodes dn)) (split_value (nth j nodes dn)) i) eqn:GT; [lia|].
        assert (GT' : le_thr O (getx O x i (split_feature (nth j nodes dn))) (split_value (nth j nodes dn)) = false).
        { unfold goes_true in GT. apply andb_false_elim in GT as [GT|GT]; [|exact GT]. apply Nat.ltb_ge in GT. lia. }
        apply (route_false nodes (nth i x []) j (nth j nodes dn) (S tc)); auto.
        apply nth_nth_error; exact Hjl.
  Qed.

  Lemma samples_routed s nodes G D i k : tree_consistent s nodes G D -> i < length x -> k < length nodes ->
    (route nodes (nth i x []) k -> nth i (G k) 0 = nth i s 0) /\
    (~ route nodes (nth i x []) k -> nth i (G k) 0 = 0).
  Proof.
    intros C Hi Hk. split.
    - intros R. eapply samples_routed_fwd; eauto.
    - intros NR. destruct (nth i (G k) 0) eqn:E; [reflexivity|]. exfalso. apply NR.
      eapply samples_routed_bwd; eauto. lia.
  Qed.
End GrowProofs.

(* with the trivial output predicate: structure, sample vectors and depth of every grown tree *)
Lemma grow_tree_structure {T A} (O : Ops T) (a0 : A) x msl find root_out samples max_depth nodes d :
  grow_tree O a0 x msl find root_out samples max_depth = Some (nodes, d) ->
  exists G D, tree_consistent O a0 x msl (fun _ _ => True) samples nodes G D /\
              (forall k, k < length nodes -> D k <= md_of max_depth).
Proof.
  intros H. eapply grow_tree_consistent; [| |exact H]; auto.
Qed.
