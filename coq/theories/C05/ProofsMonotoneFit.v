(* C05 — the monotone-map theorem for DecisionTreeRegressor::fit itself (orders computed by quick_argsort on
   each matrix).  The sort makes the same comparisons on a column and on its image under a strictly
   increasing map f, so it returns the same permutation (ProofsScale.quick_argsort_phi).  That lemma is
   stated for maps with f 0 = 0 (the transliterated sort reads the default pair (0, 0) when it indexes
   outside the array, which it never does on these inputs, but the simulation proof does not exclude it);
   hence the side condition f 0 = 0 here.  The `_with_order` form in ProofsMonotoneReg.v has no such condition. *)
From Coq Require Import List Arith ZArith Bool Lia Reals Lra.
From SC Require Import Base.Num C05.Model C05.ProofsGrow C05.ProofsReg C05.ProofsSorted C05.ProofsEndToEnd
                       C05.ProofsScale C05.ProofsPredict C05.ProofsMonotone C05.ProofsMonotoneReg.
Import ListNotations.
Local Open Scope nat_scope.

Lemma mapM_map_ext_in {A B C} (g : A -> C) (h : C -> option B) (k : A -> option B) l :
  (forall a, In a l -> h (g a) = k a) -> mapM h (map g l) = mapM k l.
Proof.
  induction l as [|a t IH]; intros H; [reflexivity|]. cbn [map mapM].
  rewrite (H a (or_introl eq_refl)), IH; [reflexivity|]. intros b Hb. apply H. right. exact Hb.
Qed.

Section Fit.
  Variable f : R -> R.
  Hypothesis f0 : f 0%R = 0%R.
  Hypothesis f_incr : forall a b, (a < b)%R -> (f a < f b)%R.

  Lemma f_le a b : Rleb (f a) (f b) = Rleb a b.
  Proof.
    destruct (Rleb a b) eqn:E.
    - apply Rleb_true in E. apply Rleb_true. destruct (Rle_lt_or_eq_dec _ _ E) as [L|Q]; [left; auto|rewrite Q; lra].
    - apply Rleb_false in E. apply Rleb_false. auto.
  Qed.
  Lemma f_lt a b : Rltb (f a) (f b) = Rltb a b.
  Proof.
    destruct (Rltb a b) eqn:E.
    - apply Rltb_true in E. apply Rltb_true. auto.
    - apply Rltb_false in E. apply Rltb_false. destruct (Rle_lt_or_eq_dec _ _ E) as [L|Q]; [left; auto|rewrite Q; lra].
  Qed.

  Variable j0 : nat.
  Variable x : list (list R).
  Hypothesis rect : forall r, r < length x -> j0 < length (nth r x []).

  Lemma column_map_col j : column ROps (map_col f j0 x) j =
    if j =? j0 then map f (column ROps x j0) else column ROps x j.
  Proof.
    unfold column, map_col. rewrite map_map.
    destruct (j =? j0) eqn:Ej.
    - apply Nat.eqb_eq in Ej. subst j. rewrite map_map. apply map_ext_in. intros row Hrow.
      apply (In_nth _ _ []) in Hrow as (r & Hr & <-). unfold rowget. cbn [ROps o0].
      apply nth_set_nth_eq. apply rect. exact Hr.
    - apply Nat.eqb_neq in Ej. apply map_ext. intros row. unfold rowget. apply nth_set_nth_neq. exact Ej.
  Qed.

  Lemma argsort_columns_map_col p : argsort_columns ROps (map_col f j0 x) p = argsort_columns ROps x p.
  Proof.
    unfold argsort_columns. apply mapM_ext_in. intros j _. rewrite column_map_col.
    destruct (j =? j0) eqn:Ej; [|reflexivity]. apply Nat.eqb_eq in Ej. subst j.
    apply (quick_argsort_phi ROps f (fun _ => True) f0 I (fun a b _ _ => f_le a b) (fun a b _ _ => f_lt a b)).
    apply Forall_forall. auto.
  Qed.

  Lemma hd_map_col : length (hd [] (map_col f j0 x)) = length (hd [] x).
  Proof. destruct x as [|row t]; [reflexivity|]. cbn [map_col map hd]. apply set_nth_length. Qed.

  Lemma monotone_column_training_rows_fit y md msl mss :
    res_rel (fit_regressor ROps (map_col f j0 x) y md msl mss) (fit_regressor ROps x y md msl mss) /\
    forall nodes' nodes d' d,
      fit_regressor ROps (map_col f j0 x) y md msl mss = Some (nodes', d') ->
      fit_regressor ROps x y md msl mss = Some (nodes, d) ->
      map erase nodes' = map erase nodes /\ d' = d /\
      (exists G D, tree_consistent ROps 0%R x msl (fun _ _ => True) (repeat 1 (length x)) nodes G D /\
                   tree_consistent ROps 0%R (map_col f j0 x) msl (fun _ _ => True) (repeat 1 (length x)) nodes' G D) /\
      exists outs, predict_regressor ROps nodes' (map_col f j0 x) = Some outs /\
                   predict_regressor ROps nodes x = Some outs.
  Proof.
    unfold fit_regressor, fit_regressor_weak. rewrite map_col_length, hd_map_col, argsort_columns_map_col.
    destruct (argsort_columns ROps x (length (hd [] x))) as [order|] eqn:EA; [|split; [exact I|discriminate]].
    assert (Ho : forall id j, In j ((fun _ : nat => seq 0 (length (hd [] x))) id) -> sorted_order x j (nth j order [])).
    { intros _ j Hj. apply in_seq0_lt in Hj. exact (proj2 (argsort_columns_sorted x _ order EA) j Hj). }
    destruct (monotone_column_training_rows f j0 x y (repeat 1 (length x)) (fun _ => seq 0 (length (hd [] x))) order md msl mss
                f_incr rect Ho) as [RR FF].
    split; [exact RR|]. intros nodes' nodes d' d H' H.
    destruct (FF nodes' nodes d' d H' H) as (E & Ed & (G & D & C & C') & Pr).
    split; [exact E|]. split; [exact Ed|]. split; [exists G, D; auto|].
    pose proof (consistent_wf ROps 0%R x msl _ _ nodes G D C) as WF.
    destruct (predict_regressor_leaves ROps nodes x WF) as (outs & Eo & _).
    exists outs. split; [|exact Eo]. rewrite <- Eo. unfold predict_regressor.
    unfold map_col. apply mapM_map_ext_in. intros row Hrow.
    apply (In_nth _ _ []) in Hrow as (i & Hi & <-).
    specialize (Pr i Hi). rewrite nth_repeat_1 in Pr by exact Hi. specialize (Pr (Nat.lt_0_1)).
    unfold map_col in Pr.
    rewrite (nth_indep _ [] (set_nth [] j0 (f (nth j0 [] 0%R)))) in Pr by (rewrite map_length; exact Hi).
    rewrite (map_nth (fun row => set_nth row j0 (f (nth j0 row 0%R)))) in Pr. exact Pr.
  Qed.
End Fit.
