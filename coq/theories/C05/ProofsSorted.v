(* C05 — quick_argsort over the reals: the sortedness half.
   Whenever the transliterated explicit-stack median-of-three quicksort (insertion sort below 7
   elements) returns at all, the array of (value, index) pairs is sorted by value, and every pair
   is one of the input pairs; hence the returned index vector sorts the column.  Together with
   ProofsSort.quick_argsort_perm this gives `sorted_order` for every computed order.

   Invariant of the main loop (`Inv`): the pending ranges (current range :: explicit stack) are
   pairwise disjoint, lie inside the array, and every pair of positions p < q that does not lie
   inside one common pending range is already in order.  A step only moves elements inside the
   current range (`mw`), which keeps the cross-range order; insertion sort orders the range,
   partitioning replaces it by two sub-ranges separated by the pivot. *)
From Coq Require Import List Arith Bool Lia Reals Lra Permutation Sorted.
From SC Require Import Base.Num C05.Model C05.ProofsGrow C05.ProofsSort.
Import ListNotations.
Local Open Scope nat_scope.

Notation arrR := (list (R * nat)).
Definition K (arr : arrR) (i : nat) : R := key ROps arr i.
Notation ag := (aget ROps).

Lemma K_ag arr arr' p q : ag arr' p = ag arr q -> K arr' p = K arr q.
Proof. unfold K, key. intros ->. reflexivity. Qed.

Lemma swap_ag_l (arr : arrR) i j : i < length arr -> j < length arr -> ag (swap ROps arr i j) i = ag arr j.
Proof.
  intros Hi Hj. unfold swap. destruct (Nat.eq_dec i j) as [->|Ne].
  - apply aget_set_nth_eq. rewrite set_nth_length. exact Hj.
  - rewrite aget_set_nth_neq by exact Ne. apply aget_set_nth_eq. exact Hi.
Qed.
Lemma swap_ag_r (arr : arrR) i j : i < length arr -> j < length arr -> ag (swap ROps arr i j) j = ag arr i.
Proof. intros Hi Hj. unfold swap. apply aget_set_nth_eq. rewrite set_nth_length. exact Hj. Qed.

(* ---------- "moved within [l, ir]" ---------- *)
Definition mw (l ir : nat) (arr arr' : arrR) : Prop :=
  length arr' = length arr /\
  (forall q, ~ (l <= q <= ir) -> ag arr' q = ag arr q) /\
  (forall q, l <= q <= ir -> exists q', l <= q' <= ir /\ ag arr' q = ag arr q').

Lemma mw_refl l ir arr : mw l ir arr arr.
Proof. split; [reflexivity|]. split; [reflexivity|]. intros q Hq. exists q. auto. Qed.
Lemma mw_trans l ir a b c : mw l ir a b -> mw l ir b c -> mw l ir a c.
Proof.
  intros (L1 & O1 & I1) (L2 & O2 & I2). split; [congruence|]. split.
  - intros q Hq. rewrite O2, O1 by exact Hq. reflexivity.
  - intros q Hq. destruct (I2 q Hq) as (q1 & H1 & E1). destruct (I1 q1 H1) as (q2 & H2 & E2).
    exists q2. split; [exact H2|congruence].
Qed.
Lemma mw_weaken l ir l' ir' a b : l' <= l -> ir <= ir' -> mw l ir a b -> mw l' ir' a b.
Proof.
  intros Hl Hr (L & O & I). split; [exact L|]. split.
  - intros q Hq. apply O. lia.
  - intros q Hq. destruct (le_lt_dec l q) as [A|A]; [destruct (le_lt_dec q ir) as [B|B]|].
    + destruct (I q (conj A B)) as (q' & H' & E). exists q'. split; [lia|exact E].
    + exists q. split; [lia|]. apply O. lia.
    + exists q. split; [lia|]. apply O. lia.
Qed.
Lemma mw_swap l ir (arr : arrR) i j : l <= i <= ir -> l <= j <= ir -> i < length arr -> j < length arr ->
  mw l ir arr (swap ROps arr i j).
Proof.
  intros Hi Hj Li Lj. split; [apply swap_length|]. split.
  - intros q Hq. apply swap_aget_other; lia.
  - intros q Hq. destruct (Nat.eq_dec q i) as [->|Ni]; [|destruct (Nat.eq_dec q j) as [->|Nj]].
    + exists j. split; [exact Hj|]. apply swap_ag_l; assumption.
    + exists i. split; [exact Hi|]. apply swap_ag_r; assumption.
    + exists q. split; [exact Hq|]. apply swap_aget_other; assumption.
Qed.
Lemma mw_cond_swap (c : bool) l ir (arr : arrR) i j : l <= i <= ir -> l <= j <= ir ->
  i < length arr -> j < length arr -> mw l ir arr (if c then swap ROps arr i j else arr).
Proof. intros. destruct c; [apply mw_swap; assumption|apply mw_refl]. Qed.

(* every element of arr' is an element of arr *)
Definition sub (arr arr' : arrR) : Prop :=
  length arr' = length arr /\ forall q, q < length arr -> exists q', q' < length arr /\ ag arr' q = ag arr q'.
Lemma sub_refl arr : sub arr arr.
Proof. split; [reflexivity|]. intros q Hq. exists q. auto. Qed.
Lemma sub_trans a b c : sub a b -> sub b c -> sub a c.
Proof.
  intros (L1 & I1) (L2 & I2). split; [congruence|]. intros q Hq.
  destruct (I2 q) as (q1 & H1 & E1); [rewrite L1; exact Hq|]. rewrite L1 in H1.
  destruct (I1 q1 H1) as (q2 & H2 & E2). exists q2. split; [exact H2|congruence].
Qed.
Lemma mw_sub l ir a b : ir < length a -> mw l ir a b -> sub a b.
Proof.
  intros Hir (L & O & I). split; [exact L|]. intros q Hq.
  destruct (le_lt_dec l q) as [A|A]; [destruct (le_lt_dec q ir) as [B|B]|].
  - destruct (I q (conj A B)) as (q' & H' & E). exists q'. split; [lia|exact E].
  - exists q. split; [exact Hq|]. apply O. lia.
  - exists q. split; [exact Hq|]. apply O. lia.
Qed.

(* ---------- conditional swaps of the median-of-three ---------- *)
Lemma cond_swap_le (arr : arrR) i j : i <> j -> i < length arr -> j < length arr ->
  let arr' := if oltb ROps (key ROps arr j) (key ROps arr i) then swap ROps arr i j else arr in
  (K arr' i <= K arr' j)%R /\
  ((ag arr' i = ag arr i /\ ag arr' j = ag arr j) \/ (ag arr' i = ag arr j /\ ag arr' j = ag arr i)) /\
  forall k, k <> i -> k <> j -> ag arr' k = ag arr k.
Proof.
  intros Ne Hi Hj. cbn zeta. cbn [ROps oltb]. destruct (Rltb (key ROps arr j) (key ROps arr i)) eqn:C.
  - apply Rltb_true in C. split; [|split].
    + unfold K, key. rewrite swap_ag_l, swap_ag_r by assumption. unfold key in C. lra.
    + right. split; [apply swap_ag_l|apply swap_ag_r]; assumption.
    + intros k H1 H2. apply swap_aget_other; assumption.
  - apply Rltb_false in C. split; [exact C|]. split; [left; auto|auto].
Qed.

(* ---------- insertion sort of a range ---------- *)
Definition sorted_rng (arr : arrR) (l j : nat) : Prop :=
  forall p q, l <= p -> p <= q -> q <= j -> (K arr p <= K arr q)%R.

Lemma ins_shift_mw a : forall cnt (arr : arrR) i1, i1 < length arr -> cnt <= i1 ->
  let res := ins_shift ROps arr a cnt i1 in
  (forall q, ~ (i1 - cnt <= q <= i1) -> ag res q = ag arr q) /\
  (forall q, i1 - cnt <= q <= i1 -> ag res q = a \/ exists q', i1 - cnt <= q' <= i1 /\ ag res q = ag arr q').
Proof.
  assert (Base : forall (arr : arrR) i1 lo, i1 < length arr -> lo <= i1 ->
            (forall q, ~ (lo <= q <= i1) -> ag (set_nth arr i1 a) q = ag arr q) /\
            (forall q, lo <= q <= i1 -> ag (set_nth arr i1 a) q = a \/
                                        exists q', lo <= q' <= i1 /\ ag (set_nth arr i1 a) q = ag arr q')).
  { intros arr i1 lo Hi Hlo. split.
    - intros q Hq. apply aget_set_nth_neq. lia.
    - intros q Hq. destruct (Nat.eq_dec q i1) as [->|Nq].
      + left. apply aget_set_nth_eq. exact Hi.
      + right. exists q. split; [exact Hq|]. apply aget_set_nth_neq. exact Nq. }
  induction cnt as [|c IH]; intros arr i1 Hi Hc; cbn zeta; cbn [ins_shift].
  - apply Base; lia.
  - destruct (oleb ROps (key ROps arr (i1 - 1)) (fst a)); [apply Base; lia|].
    set (i := i1 - 1). assert (Hii : i < i1) by (unfold i; lia).
    set (A := set_nth arr i1 (ag arr i)).
    assert (HA : length A = length arr) by (unfold A; apply set_nth_length).
    destruct (IH A i) as [O I]; [rewrite HA; lia|lia|]. cbn zeta in O, I.
    replace (i - c) with (i1 - S c) in O, I by (unfold i; lia).
    split.
    + intros q Hq. rewrite O by lia. unfold A. apply aget_set_nth_neq. lia.
    + intros q Hq. destruct (Nat.eq_dec q i1) as [->|Nq].
      * right. exists i. split; [lia|]. rewrite O by lia. unfold A. apply aget_set_nth_eq. exact Hi.
      * destruct (I q) as [E|(q' & H' & E)]; [lia|left; exact E|].
        right. exists q'. split; [lia|]. rewrite E. unfold A. apply aget_set_nth_neq. lia.
Qed.

Lemma ins_shift_sorted a l j : forall cnt (arr : arrR) i1, i1 = l + cnt -> i1 <= j -> j < length arr ->
  (forall p q, l <= p -> p <= q -> q <= j -> p <> i1 -> q <> i1 -> (K arr p <= K arr q)%R) ->
  (forall q, i1 < q -> q <= j -> (fst a <= K arr q)%R) ->
  sorted_rng (ins_shift ROps arr a cnt i1) l j.
Proof.
  assert (Base : forall (arr : arrR) i1, l <= i1 -> i1 <= j -> j < length arr ->
            (forall p q, l <= p -> p <= q -> q <= j -> p <> i1 -> q <> i1 -> (K arr p <= K arr q)%R) ->
            (forall q, i1 < q -> q <= j -> (fst a <= K arr q)%R) ->
            (forall p, l <= p -> p < i1 -> (K arr p <= fst a)%R) ->
            sorted_rng (set_nth arr i1 a) l j).
  { intros arr i1 Hl Hj Hlen HS Hup Hlo p q Hp Hpq Hq.
    assert (Ei : K (set_nth arr i1 a) i1 = fst a).
    { unfold K, key. rewrite aget_set_nth_eq by lia. reflexivity. }
    assert (En : forall k, k <> i1 -> K (set_nth arr i1 a) k = K arr k).
    { intros k Hk. unfold K, key. rewrite aget_set_nth_neq by exact Hk. reflexivity. }
    destruct (Nat.eq_dec p i1) as [->|Np]; destruct (Nat.eq_dec q i1) as [->|Nq].
    - lra.
    - rewrite Ei, En by exact Nq. apply Hup; lia.
    - rewrite Ei, En by exact Np. apply Hlo; lia.
    - rewrite !En by assumption. apply HS; assumption. }
  induction cnt as [|c IH]; intros arr i1 Ei Hj Hlen HS Hup; cbn [ins_shift].
  - apply Base; try assumption; try lia.
  - destruct (oleb ROps (key ROps arr (i1 - 1)) (fst a)) eqn:C.
    + cbn [ROps oleb] in C. apply Rleb_true in C.
      apply Base; try assumption; try lia. intros p Hp1 Hp2.
      destruct (Nat.eq_dec p (i1 - 1)) as [->|Np]; [exact C|].
      apply Rle_trans with (K arr (i1 - 1)); [|exact C]. apply HS; lia.
    + cbn [ROps oleb] in C. apply Rleb_false in C.
      set (i := i1 - 1) in *. assert (Hii : i < i1) by (unfold i; lia).
      set (A := set_nth arr i1 (ag arr i)).
      assert (HA : length A = length arr) by (unfold A; apply set_nth_length).
      assert (Ei1 : K A i1 = K arr i).
      { unfold A, K, key. rewrite aget_set_nth_eq by lia. reflexivity. }
      assert (En : forall k, k <> i1 -> K A k = K arr k).
      { intros k Hk. unfold A, K, key. rewrite aget_set_nth_neq by exact Hk. reflexivity. }
      apply IH; [unfold i; lia|lia|rewrite HA; exact Hlen| |].
      * intros p q Hp Hpq Hq Np Nq.
        destruct (Nat.eq_dec p i1) as [->|Np1]; destruct (Nat.eq_dec q i1) as [->|Nq1].
        -- lra.
        -- rewrite Ei1, En by exact Nq1. apply HS; lia.
        -- rewrite Ei1, En by exact Np1. apply HS; lia.
        -- rewrite !En by assumption. apply HS; assumption.
      * intros q Hq1 Hq2. destruct (Nat.eq_dec q i1) as [->|Nq1].
        -- rewrite Ei1. unfold K. lra.
        -- rewrite En by exact Nq1. apply Hup; lia.
Qed.

Lemma insertion_fold_sorted l : forall m (arr : arrR) j0, l <= j0 -> j0 + m < length arr ->
  sorted_rng arr l j0 ->
  let res := fold_left (fun arr j => ins_shift ROps arr (ag arr j) (j - l) j) (seq (S j0) m) arr in
  sorted_rng res l (j0 + m) /\ mw l (j0 + m) arr res.
Proof.
  induction m as [|m IH]; intros arr j0 Hl Hlen HS; cbn zeta; cbn [seq fold_left].
  - rewrite Nat.add_0_r. split; [exact HS|apply mw_refl].
  - set (j := S j0). set (arr1 := ins_shift ROps arr (ag arr j) (j - l) j).
    assert (L1 : length arr1 = length arr) by (unfold arr1; apply ins_shift_length).
    assert (S1 : sorted_rng arr1 l j).
    { unfold arr1. apply ins_shift_sorted; try (unfold j; lia).
      intros p q Hp Hpq Hq Np Nq. apply HS; unfold j in *; lia. }
    assert (M1 : mw l j arr arr1).
    { destruct (ins_shift_mw (ag arr j) (j - l) arr j) as [O I]; [unfold j; lia|lia|]. cbn zeta in O, I.
      fold arr1 in O, I. replace (j - (j - l)) with l in O, I by (unfold j; lia).
      split; [exact L1|]. split; [exact O|]. intros q Hq. destruct (I q Hq) as [E|E]; [|exact E].
      exists j. split; [unfold j; lia|exact E]. }
    destruct (IH arr1 j) as [S2 M2]; [unfold j; lia|rewrite L1; unfold j; lia|exact S1|]. cbn zeta in S2, M2.
    replace (j0 + S m) with (j + m) by (unfold j; lia). split; [exact S2|].
    eapply mw_trans; [|exact M2]. eapply mw_weaken; [| |exact M1]; lia.
Qed.

Lemma insertion_spec (arr : arrR) l ir : ir < length arr ->
  sorted_rng (insertion ROps arr l ir) l ir /\ mw l ir arr (insertion ROps arr l ir).
Proof.
  intros Hir. unfold insertion. destruct (le_lt_dec ir l) as [H|H].
  - replace (ir - l) with 0 by lia. cbn [seq fold_left]. split; [|apply mw_refl].
    intros p q Hp Hpq Hq. assert (p = q) as -> by lia. lra.
  - destruct (insertion_fold_sorted l (ir - l) arr l) as [S M]; [lia|lia| |].
    + intros p q Hp Hpq Hq. assert (p = q) as -> by lia. lra.
    + cbn zeta in S, M. replace (l + (ir - l)) with ir in S, M by lia. split; assumption.
Qed.

(* ---------- the scans and the partition loop ---------- *)
Lemma scan_up_spec a (arr : arrR) : forall fuel i i', scan_up ROps fuel arr a i = Some i' ->
  i < i' < length arr /\ (a <= K arr i')%R /\ forall p, i < p -> p < i' -> (K arr p < a)%R.
Proof.
  induction fuel as [|f IH]; intros i i' H; cbn [scan_up] in H; [discriminate|].
  destruct (S i <? length arr) eqn:E; [|discriminate]. apply Nat.ltb_lt in E.
  destruct (oleb ROps a (key ROps arr (S i))) eqn:C; cbn [ROps oleb] in C.
  - inversion H; subst. apply Rleb_true in C. split; [lia|]. split; [exact C|]. intros p H1 H2. lia.
  - apply Rleb_false in C. apply IH in H as (B & Hi' & Hp). split; [lia|]. split; [exact Hi'|].
    intros p H1 H2. destruct (Nat.eq_dec p (S i)) as [->|Np]; [exact C|]. apply Hp; lia.
Qed.
Lemma scan_down_spec a (arr : arrR) : forall fuel j j', scan_down ROps fuel arr a j = Some j' ->
  j' < j /\ j' < length arr /\ (K arr j' <= a)%R /\ forall q, j' < q -> q < j -> (a < K arr q)%R.
Proof.
  induction fuel as [|f IH]; intros j j' H; cbn [scan_down] in H; [discriminate|].
  destruct j as [|j0]; [discriminate|].
  destruct (j0 <? length arr) eqn:E; [|discriminate]. apply Nat.ltb_lt in E.
  destruct (oleb ROps (key ROps arr j0) a) eqn:C; cbn [ROps oleb] in C.
  - inversion H; subst. apply Rleb_true in C. split; [lia|]. split; [exact E|]. split; [exact C|].
    intros q H1 H2. lia.
  - apply Rleb_false in C. apply IH in H as (B & B' & Hj' & Hq). split; [lia|]. split; [exact B'|].
    split; [exact Hj'|]. intros q H1 H2. destruct (Nat.eq_dec q j0) as [->|Nq]; [exact C|]. apply Hq; lia.
Qed.

Lemma part_loop_spec a L1 ir : forall fuel (arr : arrR) i j arr' i' j',
  part_loop ROps fuel arr a i j = Some (arr', i', j') ->
  ir < length arr -> L1 <= i -> i <= j -> j <= ir -> (i = j -> L1 < i /\ j < ir) ->
  (forall p, L1 <= p -> p <= i -> (K arr p <= a)%R) ->
  (forall q, j <= q -> q <= ir -> (a <= K arr q)%R) ->
  mw L1 ir arr arr' /\ j' < i' /\ L1 <= j' /\ i' <= ir /\
  (forall p, L1 <= p -> p < i' -> (K arr' p <= a)%R) /\
  (forall q, j' < q -> q <= ir -> (a <= K arr' q)%R).
Proof.
  induction fuel as [|f IH]; intros arr i j arr' i' j' H Hir Hi Hij Hj Heq Hlo Hhi;
    cbn [part_loop] in H; [discriminate|].
  destruct (scan_up ROps (length arr) arr a i) as [i1|] eqn:E1; [|discriminate].
  destruct (scan_down ROps (length arr) arr a j) as [j1|] eqn:E2; [|discriminate].
  apply scan_up_spec in E1 as (Bi & Ui & Upi). apply scan_down_spec in E2 as (Bj & Bj' & Dj & Dnj).
  (* the sentinels stop the scans inside the range *)
  assert (Hi1 : i1 <= ir /\ (i < j -> i1 <= j)).
  { destruct (Nat.eq_dec i j) as [E|Ne].
    - destruct (Heq E) as [_ Hlt]. split; [|lia].
      destruct (le_lt_dec i1 (S j)) as [A|A]; [lia|].
      assert (K arr (S j) < a)%R by (apply Upi; lia).
      assert (a <= K arr (S j))%R by (apply Hhi; lia). lra.
    - assert (i1 <= j); [|split; lia].
      destruct (le_lt_dec i1 j) as [A|A]; [exact A|].
      assert (K arr j < a)%R by (apply Upi; lia).
      assert (a <= K arr j)%R by (apply Hhi; lia). lra. }
  assert (Hj1 : L1 <= j1 /\ (i < j -> i <= j1)).
  { destruct (Nat.eq_dec i j) as [E|Ne].
    - destruct (Heq E) as [Hlt _]. split; [|lia].
      destruct (le_lt_dec (i - 1) j1) as [A|A]; [lia|].
      assert (a < K arr (i - 1))%R by (apply Dnj; lia).
      assert (K arr (i - 1) <= a)%R by (apply Hlo; lia). lra.
    - assert (i <= j1); [|split; lia].
      destruct (le_lt_dec i j1) as [A|A]; [exact A|].
      assert (a < K arr i)%R by (apply Dnj; lia).
      assert (K arr i <= a)%R by (apply Hlo; lia). lra. }
  assert (Lo1 : forall p, L1 <= p -> p < i1 -> (K arr p <= a)%R).
  { intros p H1 H2. destruct (le_lt_dec p i) as [A|A]; [apply Hlo; assumption|].
    apply Rlt_le. apply Upi; assumption. }
  assert (Hi1' : forall q, j1 < q -> q <= ir -> (a <= K arr q)%R).
  { intros q H1 H2. destruct (le_lt_dec j q) as [A|A]; [apply Hhi; assumption|].
    apply Rlt_le. apply Dnj; assumption. }
  destruct (j1 <? i1) eqn:C.
  - apply Nat.ltb_lt in C. inversion H; subst arr' i' j'.
    split; [apply mw_refl|]. repeat split; try lia; assumption.
  - apply Nat.ltb_ge in C.
    assert (Li1 : i1 < length arr) by lia. assert (Lj1 : j1 < length arr) by lia.
    set (arrs := swap ROps arr i1 j1) in *.
    assert (Ls : length arrs = length arr) by apply swap_length.
    assert (Ms : mw L1 ir arr arrs) by (apply mw_swap; lia).
    apply IH in H; [|rewrite Ls; exact Hir|lia|exact C|lia|lia| |].
    + destruct H as (M & R). split; [eapply mw_trans; eassumption|exact R].
    + intros p H1 H2. destruct (Nat.eq_dec p i1) as [->|Np].
      * unfold arrs. rewrite (K_ag arr _ i1 j1) by (apply swap_ag_l; assumption). exact Dj.
      * unfold arrs. rewrite (K_ag arr _ p p) by (apply swap_aget_other; lia). apply Lo1; lia.
    + intros q H1 H2. destruct (Nat.eq_dec q j1) as [->|Nq].
      * unfold arrs. rewrite (K_ag arr _ j1 i1) by (apply swap_ag_r; assumption). exact Ui.
      * unfold arrs. rewrite (K_ag arr _ q q) by (apply swap_aget_other; lia). apply Hi1'; lia.
Qed.

(* ---------- the invariant of the main loop ---------- *)
Definition inr (r : nat * nat) (p : nat) : Prop := fst r <= p <= snd r.
Definition disj (r1 r2 : nat * nat) : Prop := forall p, inr r1 p -> inr r2 p -> False.
Fixpoint pdisj (pend : list (nat * nat)) : Prop :=
  match pend with [] => True | r :: t => Forall (disj r) t /\ pdisj t end.
Definition cross_ok (arr : arrR) (pend : list (nat * nat)) : Prop :=
  forall p q, p < q -> q < length arr ->
    (K arr p <= K arr q)%R \/ exists r, In r pend /\ inr r p /\ inr r q.
Definition Inv (arr : arrR) (pend : list (nat * nat)) : Prop :=
  pdisj pend /\ Forall (fun r => snd r < length arr) pend /\ cross_ok arr pend.

(* pairs that are not both inside the current range keep their status when elements move inside it *)
Lemma cross_outside arr arr' l ir st : Inv arr ((l, ir) :: st) -> mw l ir arr arr' ->
  forall p q, p < q -> q < length arr' -> ~ (inr (l, ir) p /\ inr (l, ir) q) ->
    (K arr' p <= K arr' q)%R \/ exists r, In r st /\ inr r p /\ inr r q.
Proof.
  intros ((D1 & D2) & F & X) (L & O & I) p q Hpq Hq Hn. rewrite L in Hq. unfold inr in Hn. cbn [fst snd] in Hn.
  inversion F as [|r0 t0 Hir _]; subst r0 t0. cbn [snd] in Hir.
  rewrite Forall_forall in D1.
  assert (Src : forall t, exists t', ag arr' t = ag arr t' /\
            ((l <= t <= ir /\ l <= t' <= ir) \/ (~ (l <= t <= ir) /\ t' = t))).
  { intros t. destruct (le_lt_dec l t) as [A|A]; [destruct (le_lt_dec t ir) as [B|B]|].
    - destruct (I t (conj A B)) as (t' & H' & E). exists t'. split; [exact E|left; lia].
    - exists t. split; [apply O; lia|right; lia].
    - exists t. split; [apply O; lia|right; lia]. }
  destruct (Src p) as (p' & Ep & Cp). destruct (Src q) as (q' & Eq & Cq).
  rewrite (K_ag arr arr' p p' Ep), (K_ag arr arr' q q' Eq).
  assert (Hlt : p' < q' /\ q' < length arr) by lia.
  destruct (X p' q' (proj1 Hlt) (proj2 Hlt)) as [Le|(r & Hr & Rp & Rq)]; [left; exact Le|].
  destruct Hr as [<-|Hr].
  - exfalso. unfold inr in Rp, Rq. cbn [fst snd] in Rp, Rq. lia.
  - right. exists r. split; [exact Hr|].
    assert (Fix : forall t t', inr r t' -> ((l <= t <= ir /\ l <= t' <= ir) \/ (~ (l <= t <= ir) /\ t' = t)) -> inr r t).
    { intros t t' Rt [[_ Ht']|[_ ->]]; [|exact Rt]. exfalso. apply (D1 r Hr t'); [unfold inr; cbn; lia|exact Rt]. }
    split; [apply (Fix p p'); assumption|apply (Fix q q'); assumption].
Qed.

Lemma inv_pop arr arr' l ir st : Inv arr ((l, ir) :: st) -> mw l ir arr arr' -> sorted_rng arr' l ir ->
  Inv arr' st.
Proof.
  intros HI M S. pose proof HI as ((D1 & D2) & F & X). pose proof M as (L & _).
  split; [exact D2|]. split.
  - inversion F; subst. rewrite L. assumption.
  - intros p q Hpq Hq.
    destruct (le_lt_dec l p) as [A|A]; [destruct (le_lt_dec q ir) as [B|B]|].
    + left. apply S; lia.
    + apply (cross_outside arr arr' l ir st HI M p q Hpq Hq). unfold inr. cbn. lia.
    + apply (cross_outside arr arr' l ir st HI M p q Hpq Hq). unfold inr. cbn. lia.
Qed.

Lemma disj_sub r r' s : fst r <= fst r' -> snd r' <= snd r -> disj r s -> disj r' s.
Proof. intros H1 H2 D p Hp Hs. apply (D p); [unfold inr in *; lia|exact Hs]. Qed.

Lemma inv_partition arr arr' l ir st a i j : Inv arr ((l, ir) :: st) -> mw l ir arr arr' ->
  l < j -> j < i -> j <= ir ->
  (forall p, l <= p -> p < i -> p <= ir -> (K arr' p <= a)%R) ->
  (forall q, j <= q -> q <= ir -> (a <= K arr' q)%R) ->
  Inv arr' ((l, j - 1) :: (i, ir) :: st) /\ Inv arr' ((i, ir) :: (l, j - 1) :: st).
Proof.
  intros HI M Hlj Hji Hjr Lo Hi. pose proof HI as ((D1 & D2) & F & X). pose proof M as (L & _).
  inversion F as [|r0 t0 F1 F2]; subst r0 t0. cbn [snd] in F1.
  assert (Da : Forall (disj (l, j - 1)) st).
  { rewrite Forall_forall in *. intros s Hs. apply (disj_sub (l, ir)); cbn; try lia. apply D1. exact Hs. }
  assert (Db : Forall (disj (i, ir)) st).
  { rewrite Forall_forall in *. intros s Hs. apply (disj_sub (l, ir)); cbn; try lia. apply D1. exact Hs. }
  assert (Dab : disj (l, j - 1) (i, ir)) by (intros p H1 H2; unfold inr in *; cbn in *; lia).
  assert (Dba : disj (i, ir) (l, j - 1)) by (intros p H1 H2; unfold inr in *; cbn in *; lia).
  assert (Fst : Forall (fun r => snd r < length arr') st) by (rewrite L; exact F2).
  assert (Xn : forall pend, (forall r, In r ((l, j - 1) :: (i, ir) :: st) -> In r pend) -> cross_ok arr' pend).
  { intros pend Hin p q Hpq Hq.
    destruct (le_lt_dec l p) as [A|A]; [destruct (le_lt_dec q ir) as [B|B]|].
    - destruct (le_lt_dec q (j - 1)) as [Q|Q].
      + right. exists (l, j - 1). split; [apply Hin; left; reflexivity|]. unfold inr. cbn. lia.
      + destruct (le_lt_dec i p) as [P|P].
        * right. exists (i, ir). split; [apply Hin; right; left; reflexivity|]. unfold inr. cbn. lia.
        * left. apply Rle_trans with a; [apply Lo; lia|apply Hi; lia].
    - destruct (cross_outside arr arr' l ir st HI M p q Hpq Hq) as [Le|(r & Hr & R)];
        [unfold inr; cbn; lia|left; exact Le|].
      right. exists r. split; [apply Hin; right; right; exact Hr|exact R].
    - destruct (cross_outside arr arr' l ir st HI M p q Hpq Hq) as [Le|(r & Hr & R)];
        [unfold inr; cbn; lia|left; exact Le|].
      right. exists r. split; [apply Hin; right; right; exact Hr|exact R]. }
  split.
  - split; [|split].
    + cbn [pdisj]. split; [constructor; assumption|]. split; assumption.
    + constructor; [cbn; rewrite L; lia|]. constructor; [cbn; rewrite L; lia|exact Fst].
    + apply Xn. auto.
  - split; [|split].
    + cbn [pdisj]. split; [constructor; assumption|]. split; assumption.
    + constructor; [cbn; rewrite L; lia|]. constructor; [cbn; rewrite L; lia|exact Fst].
    + apply Xn. intros r [<-|[<-|Hr]]; cbn; auto.
Qed.

(* ---------- the main loop ---------- *)
Lemma qs_loop_sorted : forall fuel (arr : arrR) l ir stack res,
  Inv arr ((l, ir) :: stack) -> qs_loop ROps fuel arr l ir stack = Some res ->
  (forall p q, p < q -> q < length res -> (K res p <= K res q)%R) /\ sub arr res.
Proof.
  induction fuel as [|f IH]; intros arr l ir stack res HI H; cbn [qs_loop] in H; [discriminate|].
  pose proof HI as (_ & F & _). inversion F as [|r0 t0 Hir Fst]; subst r0 t0. cbn [snd] in Hir.
  destruct (ir - l <? 7) eqn:Small.
  - destruct (insertion_spec arr l ir Hir) as [S M].
    pose proof (inv_pop arr _ l ir stack HI M S) as HI'.
    pose proof (mw_sub l ir arr _ Hir M) as SB.
    destruct stack as [|[l' ir'] st].
    + inversion H; subst res. split; [|exact SB].
      intros p q Hpq Hq. destruct HI' as (_ & _ & X). destruct (X p q Hpq Hq) as [Le|(r & [] & _)]. exact Le.
    + apply IH in H; [|exact HI']. destruct H as [R1 R2]. split; [exact R1|]. eapply sub_trans; eassumption.
  - apply Nat.ltb_ge in Small.
    set (k := Nat.div2 (l + ir)) in *.
    assert (Hk : l <= k <= ir).
    { pose proof (Nat.div2_odd (l + ir)) as E. fold k in E. destruct (Nat.odd (l + ir)); cbn in E; lia. }
    set (arr1 := swap ROps arr k (l + 1)) in *.
    assert (L1 : length arr1 = length arr) by apply swap_length.
    assert (M1 : mw l ir arr arr1) by (apply mw_swap; lia).
    set (arr2 := if oltb ROps (key ROps arr1 ir) (key ROps arr1 l) then swap ROps arr1 l ir else arr1) in *.
    assert (M2 : mw l ir arr1 arr2) by (apply mw_cond_swap; lia).
    assert (L2 : length arr2 = length arr) by (rewrite (proj1 M2); exact L1).
    destruct (cond_swap_le arr1 l ir) as (A2 & B2 & C2); [lia|lia|lia|]. cbn zeta in A2, B2, C2. fold arr2 in A2, B2, C2.
    set (arr3 := if oltb ROps (key ROps arr2 ir) (key ROps arr2 (l + 1)) then swap ROps arr2 (l + 1) ir else arr2) in *.
    assert (M3 : mw l ir arr2 arr3) by (apply mw_cond_swap; lia).
    assert (L3 : length arr3 = length arr) by (rewrite (proj1 M3); exact L2).
    destruct (cond_swap_le arr2 (l + 1) ir) as (A3 & B3 & C3); [lia|lia|lia|]. cbn zeta in A3, B3, C3. fold arr3 in A3, B3, C3.
    set (arr4 := if oltb ROps (key ROps arr3 (l + 1)) (key ROps arr3 l) then swap ROps arr3 l (l + 1) else arr3) in *.
    assert (M4 : mw l ir arr3 arr4) by (apply mw_cond_swap; lia).
    assert (L4 : length arr4 = length arr) by (rewrite (proj1 M4); exact L3).
    destruct (cond_swap_le arr3 l (l + 1)) as (A4 & B4 & C4); [lia|lia|lia|]. cbn zeta in A4, B4, C4. fold arr4 in A4, B4, C4.
    (* median of three: K arr4 l <= K arr4 (l+1) <= K arr4 ir *)
    assert (Hl3 : (K arr3 l <= K arr3 ir)%R).
    { rewrite (K_ag arr2 arr3 l l) by (apply C3; lia).
      destruct B3 as [[_ E]|[E1 E2]].
      - rewrite (K_ag _ _ _ _ E). exact A2.
      - apply Rle_trans with (K arr2 ir); [exact A2|]. rewrite <- (K_ag _ _ _ _ E1). exact A3. }
    assert (Hmed : (K arr4 (l + 1) <= K arr4 ir)%R).
    { rewrite (K_ag arr3 arr4 ir ir) by (apply C4; lia).
      destruct B4 as [[_ E]|[_ E]]; rewrite (K_ag _ _ _ _ E); assumption. }
    set (ab := ag arr4 (l + 1)) in *. set (a := fst ab) in *.
    assert (Ea : K arr4 (l + 1) = a) by reflexivity.
    destruct (part_loop ROps (length arr4) arr4 a (l + 1) ir) as [[[arr5 i] j]|] eqn:P; [|discriminate].
    pose proof (part_loop_inv ROps a _ _ _ _ _ _ _ P) as (L5 & _ & _ & _ & Kp).
    apply (part_loop_spec a (l + 1) ir) in P; try lia.
    2:{ intros p H1 H2. assert (p = l + 1) as -> by lia. rewrite Ea. lra. }
    2:{ intros q H1 H2. assert (q = ir) as -> by lia. rewrite <- Ea. exact Hmed. }
    destruct P as (M5 & Hji & Hj & Hi & Lo5 & Hi5).
    assert (E7 : set_nth (set_nth arr5 (l + 1) (ag arr5 j)) j ab = swap ROps arr5 (l + 1) j).
    { unfold swap. rewrite (Kp (l + 1)) by lia. reflexivity. }
    rewrite E7 in H. set (arr7 := swap ROps arr5 (l + 1) j) in *.
    assert (L5' : length arr5 = length arr) by congruence.
    assert (M7 : mw l ir arr arr7).
    { eapply mw_trans; [exact M1|]. eapply mw_trans; [exact M2|]. eapply mw_trans; [exact M3|].
      eapply mw_trans; [exact M4|]. eapply mw_trans; [eapply mw_weaken; [| |exact M5]; lia|].
      apply mw_swap; lia. }
    assert (Lo7 : forall p, l <= p -> p < i -> p <= ir -> (K arr7 p <= a)%R).
    { intros p H1 H2 H3. unfold arr7.
      destruct (Nat.eq_dec p (l + 1)) as [->|N1]; [|destruct (Nat.eq_dec p j) as [->|N2]].
      - rewrite (K_ag arr5 _ (l + 1) j) by (apply swap_ag_l; lia). apply Lo5; lia.
      - rewrite (K_ag arr5 _ j (l + 1)) by (apply swap_ag_r; lia). apply Lo5; lia.
      - rewrite (K_ag arr5 _ p p) by (apply swap_aget_other; assumption).
        destruct (Nat.eq_dec p l) as [->|N3]; [|apply Lo5; lia].
        destruct M5 as (_ & O5 & _). rewrite (K_ag arr4 arr5 l l) by (apply O5; lia).
        rewrite <- Ea. exact A4. }
    assert (Hi7 : forall q, j <= q -> q <= ir -> (a <= K arr7 q)%R).
    { intros q H1 H2. unfold arr7. destruct (Nat.eq_dec q j) as [->|N1].
      - rewrite (K_ag arr5 _ j (l + 1)) by (apply swap_ag_r; lia).
        rewrite (K_ag arr4 arr5 (l + 1) (l + 1)) by (apply Kp; lia). rewrite Ea. lra.
      - rewrite (K_ag arr5 _ q q) by (apply swap_aget_other; lia). apply Hi5; lia. }
    destruct (inv_partition arr arr7 l ir stack a i j HI M7) as [I1 I2]; try lia; try assumption.
    pose proof (mw_sub l ir arr arr7 Hir M7) as SB.
    destruct (32 <=? length stack); [discriminate|].
    destruct (j - l <=? ir - i + 1).
    + apply IH in H; [|exact I1]. destruct H as [R1 R2]. split; [exact R1|]. eapply sub_trans; eassumption.
    + apply IH in H; [|exact I2]. destruct H as [R1 R2]. split; [exact R1|]. eapply sub_trans; eassumption.
Qed.

(* ---------- quick_argsort ---------- *)
Lemma ag_combine_seq (col : list R) q : q < length col ->
  ag (combine col (seq 0 (length col))) q = (nth q col 0%R, q).
Proof.
  intros Hq. unfold aget, dpair. cbn [ROps o0]. rewrite combine_nth by (rewrite seq_length; reflexivity).
  rewrite seq_nth by exact Hq. reflexivity.
Qed.

Lemma quick_argsort_sorted (col : list R) idx : quick_argsort ROps col = Some idx ->
  Permutation idx (seq 0 (length col)) /\
  forall i j, i <= j < length col -> (nth (nth i idx 0%nat) col 0 <= nth (nth j idx 0%nat) col 0)%R.
Proof.
  intros H. split; [exact (quick_argsort_perm ROps col idx H)|].
  unfold quick_argsort in H. destruct col as [|c0 ct] eqn:E; [discriminate|]. rewrite <- E in *. clear E c0 ct.
  set (n := length col) in *.
  destruct (qs_loop ROps (2 * n + 2) (combine col (seq 0 n)) 0 (n - 1) []) as [res|] eqn:Q; [|discriminate].
  cbn [option_map] in H. inversion H; subst idx. clear H.
  set (arr0 := combine col (seq 0 n)) in *.
  assert (Hn : length arr0 = n) by (unfold arr0; rewrite combine_length, seq_length; unfold n; lia).
  intros i j Hij. assert (Hpos : 0 < n) by lia.
  apply qs_loop_sorted in Q.
  2:{ split; [cbn; auto|]. split; [constructor; [cbn; lia|constructor]|].
      intros p q Hpq Hq. right. exists (0, n - 1). split; [left; reflexivity|]. unfold inr. cbn. lia. }
  destruct Q as [S (L & I)]. rewrite Hn in L, I.
  assert (Val : forall q, q < n -> nth (nth q (map snd res) 0) col 0%R = K res q).
  { intros q Hq. destruct (I q Hq) as (q' & Hq' & Eq).
    unfold arr0 in Eq. rewrite ag_combine_seq in Eq by exact Hq'.
    change 0 with (snd (dpair ROps)) at 1. rewrite map_nth. fold (ag res q). unfold K, key. rewrite Eq. reflexivity. }
  rewrite !Val by lia. destruct (Nat.eq_dec i j) as [->|Ne]; [lra|]. apply S; lia.
Qed.

(* ---------- the computed orders satisfy `sorted_order` ---------- *)
From SC Require Import C05.ProofsReg.
Local Open Scope nat_scope.

Lemma StronglySorted_nth {A} (Rr : A -> A -> Prop) d (l : list A) :
  (forall i j, i < j -> j < length l -> Rr (nth i l d) (nth j l d)) -> StronglySorted Rr l.
Proof.
  induction l as [|a t IH]; intros H; constructor.
  - apply IH. intros i j Hij Hj. apply (H (S i) (S j)); cbn; lia.
  - apply Forall_forall. intros b Hb. destruct (In_nth _ _ d Hb) as (m & Hm & <-).
    apply (H 0 (S m)); cbn; lia.
Qed.

Lemma nth_column (x : list (list R)) j r : nth r (column ROps x j) 0%R = getx ROps x r j.
Proof.
  unfold column, getx, rowget. cbn [ROps o0]. revert r. induction x as [|a t IH]; intros r.
  - cbn. destruct r, j; reflexivity.
  - destruct r; cbn [map nth]; [reflexivity|apply IH].
Qed.

Lemma quick_argsort_sorted_order (x : list (list R)) j ord :
  quick_argsort ROps (column ROps x j) = Some ord -> sorted_order x j ord.
Proof.
  intros H. apply quick_argsort_sorted in H as [P S].
  assert (Lc : length (column ROps x j) = length x) by (unfold column; apply map_length).
  rewrite Lc in P, S. split; [exact P|].
  apply (StronglySorted_nth _ 0). intros a b Hab Hb.
  assert (Lo : length ord = length x) by (rewrite (Permutation_length P), seq_length; reflexivity).
  unfold X. rewrite <- !nth_column. apply S. lia.
Qed.

Lemma mapM_nth {A B} (f : A -> option B) : forall (l : list A) r, mapM f l = Some r ->
  length r = length l /\ forall k da db, k < length l -> f (nth k l da) = Some (nth k r db).
Proof.
  induction l as [|a t IH]; intros r H; cbn [mapM] in H.
  - inversion H; subst. split; [reflexivity|]. intros k da db Hk. cbn in Hk. lia.
  - destruct (f a) as [b|] eqn:Fa; [|discriminate]. destruct (mapM f t) as [r'|] eqn:Ft; [|discriminate].
    inversion H; subst r. destruct (IH r' eq_refl) as [L N]. split; [cbn; lia|].
    intros k da db Hk. destruct k; cbn [nth]; [exact Fa|]. apply N. cbn in Hk. lia.
Qed.

Lemma argsort_columns_sorted (x : list (list R)) p order :
  argsort_columns ROps x p = Some order ->
  length order = p /\ forall j, j < p -> sorted_order x j (nth j order []).
Proof.
  unfold argsort_columns. intros H. apply mapM_nth in H as [L N]. rewrite seq_length in L, N.
  split; [exact L|]. intros j Hj. apply quick_argsort_sorted_order.
  specialize (N j 0 [] Hj). rewrite seq_nth in N by exact Hj. exact N.
Qed.
