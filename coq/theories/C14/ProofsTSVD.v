(* C14 — truncated SVD: conditional on the post-condition of the SVD the model of SVD::fit is
   handed, the components are the k leading right singular vectors: orthonormal, the energy
   |X C|_F^2 is the sum of the k largest squared singular values, and no orthonormal k-frame has
   more; transform is the row-wise linear map x -> x C (stacking). *)
From Coq Require Import List Arith Bool Lia Reals Lra.
From SC Require Import Base.Num C03.Model C03.ProofsBase C03.ProofsRed C14.Model C14.ProofsLin C14.ProofsModel C14.ProofsPCA.
Import ListNotations.
Local Open Scope R_scope.

Local Notation get := (Model.get ROps).

(* what is assumed of the SVD for the matrix it is called on: (X^T X) V = V diag(s^2), V orthogonal,
   s^2 non-increasing *)
Definition tsvd_fact_ok (svd : fact) (X : dm R) : Prop :=
  forall s V, svd X = Some (s, V) ->
    fact_ok (ncols X) (gramm (nrows X) (get X)) (fun c => lam_of s c * lam_of s c) V.

Lemma tsvd_fit_inv svd X k C :
  tsvd_fact_ok svd X -> tsvd_fit ROps svd X k = Some C ->
  exists s V, svd X = Some (s, V) /\ (k < ncols X)%nat /\
    nrows C = ncols X /\ ncols C = k /\ wf C /\
    forall i c, (i < ncols X)%nat -> (c < k)%nat -> get C i c = get V i c.
Proof.
  intros Hok. unfold tsvd_fit. destruct (ncols X <=? k)%nat eqn:Hk; [discriminate|]. apply Nat.leb_gt in Hk.
  destruct (svd X) as [[s V]|] eqn:Hs; [|discriminate]. intros Hsl.
  destruct (Hok s V Hs) as (v1 & v2 & _).
  destruct (proj2 (slice_spec ROps V 0 (ncols X) 0 k)) as (C' & E & c1 & c2 & c3 & c4).
  { left. lia. }
  rewrite Hsl in E. injection E as <-.
  exists s, V. repeat split; try assumption; try lia.
  intros i c Hi Hc. rewrite c4 by lia. rewrite !Nat.add_0_r. reflexivity.
Qed.

Lemma tsvd_transform_spec (C X' : dm R) :
  nrows C = ncols X' ->
  exists T, tsvd_transform ROps C X' = Some T /\ nrows T = nrows X' /\ ncols T = ncols C /\ wf T /\
    forall r c, (r < nrows X')%nat -> (c < ncols C)%nat ->
      get T r c = rsum (ncols X') (fun i => get X' r i * get C i c).
Proof.
  intros H. unfold tsvd_transform, matmul. rewrite H, Nat.eqb_refl. cbn [negb].
  eexists. split; [reflexivity|]. split; [reflexivity|]. split; [reflexivity|]. split; [apply tab_wf|].
  intros r c Hr Hc. rewrite get_tab by assumption. reflexivity.
Qed.

Lemma tsvd_transform_rejects (C X' : dm R) : nrows C <> ncols X' -> tsvd_transform ROps C X' = None.
Proof. intros H. unfold tsvd_transform. apply Nat.eqb_neq in H. rewrite H. reflexivity. Qed.

Lemma tsvd_transform_stack (C A B AB TA TB : dm R) :
  nrows C = ncols A -> nrows C = ncols B -> v_stack ROps A B = Some AB ->
  tsvd_transform ROps C A = Some TA -> tsvd_transform ROps C B = Some TB ->
  exists TAB, tsvd_transform ROps C AB = Some TAB /\ v_stack ROps TA TB = Some TAB.
Proof.
  intros HA HB Hst HTA HTB.
  destruct (tsvd_transform_spec C A HA) as (TA' & E1 & a1 & a2 & a3 & a4). rewrite HTA in E1. injection E1 as <-.
  destruct (tsvd_transform_spec C B HB) as (TB' & E2 & b1 & b2 & b3 & b4). rewrite HTB in E2. injection E2 as <-.
  unfold v_stack in Hst. rewrite <- HA, <- HB, Nat.eqb_refl in Hst. cbn [negb] in Hst. injection Hst as <-.
  match goal with |- context [tsvd_transform ROps C ?M] => set (AB := M) end.
  assert (HAB : nrows C = ncols AB) by reflexivity.
  destruct (tsvd_transform_spec C AB HAB) as (TAB & E & c1 & c2 & c3 & c4).
  exists TAB. split; [exact E|].
  unfold v_stack. rewrite a2, b2, Nat.eqb_refl. cbn [negb]. f_equal. symmetry.
  apply (dm_ext ROps).
  - exact c3.
  - apply tab_wf.
  - rewrite c1. cbn [nrows AB tab]. rewrite a1, b1. reflexivity.
  - rewrite c2. reflexivity.
  - intros r c Hr Hc. rewrite c1 in Hr. rewrite c2 in Hc. cbn [nrows AB tab] in Hr.
    rewrite (c4 r c Hr Hc). rewrite get_tab by (rewrite ?a1, ?b1; assumption).
    cbn [ncols AB tab]. destruct (r <? nrows TA)%nat eqn:Hlt.
    + apply Nat.ltb_lt in Hlt. rewrite a1 in Hlt. rewrite (a4 r c Hlt Hc). rewrite <- HA.
      apply rsum_ext. intros i Hi. unfold AB. rewrite get_tab by assumption.
      apply Nat.ltb_lt in Hlt. rewrite Hlt. reflexivity.
    + apply Nat.ltb_ge in Hlt. rewrite a1 in Hlt |- *.
      assert (Hr' : (r - nrows A < nrows B)%nat) by lia.
      rewrite (b4 _ c Hr' Hc). rewrite <- HB.
      apply rsum_ext. intros i Hi. unfold AB. rewrite get_tab by assumption.
      apply Nat.ltb_ge in Hlt. rewrite Hlt. reflexivity.
Qed.

Theorem tsvd_main svd X k C :
  tsvd_fact_ok svd X -> tsvd_fit ROps svd X k = Some C ->
  let n := nrows X in let p := ncols X in
  exists (s : list R) (T : dm R),
    (k < p)%nat /\ nrows C = p /\ ncols C = k /\ wf C /\
    orthocols p k (get C) /\
    eigcols p k (gramm n (get X)) (get C) (fun c => lam_of s c * lam_of s c) /\
    noninc p (fun c => lam_of s c * lam_of s c) /\
    (exists V, svd X = Some (s, V) /\ fact_ok p (gramm n (get X)) (fun c => lam_of s c * lam_of s c) V /\
               forall i c, (i < p)%nat -> (c < k)%nat -> get C i c = get V i c) /\
    tsvd_transform ROps C X = Some T /\ nrows T = n /\ ncols T = k /\ wf T /\
    (forall r c, (r < n)%nat -> (c < k)%nat -> get T r c = rsum p (fun i => get X r i * get C i c)) /\
    (* columns of X C are orthogonal with squared norms s_c^2; hence |X C|_F^2 = s_0^2 + ... + s_{k-1}^2 *)
    (forall a b, (a < k)%nat -> (b < k)%nat ->
       rsum n (fun r => get T r a * get T r b) = lam_of s b * lam_of s b * delta a b) /\
    rsum k (fun c => rsum n (fun r => get T r c * get T r c)) = rsum k (fun c => lam_of s c * lam_of s c).
Proof.
  intros Hok Hfit n p.
  destruct (tsvd_fit_inv _ _ _ _ Hok Hfit) as (s & V & Hs & Hk & c1 & c2 & c3 & c4).
  destruct (Hok s V Hs) as (v1 & v2 & v3 & v4 & v5 & v6 & v7).
  destruct (tsvd_transform_spec C X c1) as (T & HT & t1 & t2 & t3 & t4).
  assert (HoC : orthocols p k (get C)).
  { intros a b Ha Hb. rewrite <- (v4 a b) by (unfold p; lia).
    apply rsum_ext. intros i Hi. rewrite (c4 i a Hi Ha), (c4 i b Hi Hb). reflexivity. }
  assert (HeC : eigcols p k (gramm n (get X)) (get C) (fun c => lam_of s c * lam_of s c)).
  { apply (eigcols_ext p k (gramm n (get X)) (gramm n (get X)) (get V) (get C) (fun c => lam_of s c * lam_of s c) (fun c => lam_of s c * lam_of s c)); try (intros; reflexivity).
    - intros i c Hi Hc. apply c4; assumption.
    - apply (eigcols_le p p k); [unfold p; lia|exact v6]. }
  assert (Hdec : forall a b, (a < k)%nat -> (b < k)%nat ->
            rsum n (fun r => get T r a * get T r b) = lam_of s b * lam_of s b * delta a b).
  { intros a b Ha Hb.
    rewrite (rsum_ext n _ (fun r => mmul p (get X) (get C) r a * mmul p (get X) (get C) r b)).
    2:{ intros r Hr. rewrite (t4 r a Hr), (t4 r b Hr) by (rewrite c2; assumption). reflexivity. }
    apply (scores_decor n p k (get X) (get C) _ a b HeC HoC Ha Hb). }
  exists s, T. rewrite c2 in t2. repeat split; try assumption.
  - exists V. repeat split; assumption.
  - intros r c Hr Hc. apply t4; [exact Hr|rewrite c2; exact Hc].
  - apply rsum_ext. intros c Hc. rewrite (Hdec c c Hc Hc). unfold delta. rewrite Nat.eqb_refl. ring.
Qed.

(* no orthonormal k-frame Q has |X Q|_F^2 larger than the components' *)
Theorem tsvd_optimal svd X k C (Q : Mx) :
  (1 <= k)%nat -> tsvd_fact_ok svd X -> tsvd_fit ROps svd X k = Some C ->
  let n := nrows X in let p := ncols X in
  let energy := fun (q : nat -> R) => rsum n (fun r => rsum p (fun i => get X r i * q i) * rsum p (fun i => get X r i * q i)) in
  orthocols p k Q ->
  rsum k (fun a => energy (fun i => Q i a)) <= rsum k (fun a => energy (fun i => get C i a)).
Proof.
  intros Hk1 Hok Hfit n p energy HQ.
  destruct (tsvd_main _ _ _ _ Hok Hfit) as (s & T & Hk & c1 & c2 & c3 & HoC & HeC & Hni & (V & _ & HV & _) & _).
  destruct HV as (v1 & v2 & v3 & v4 & v5 & v6 & v7).
  assert (He : forall q, energy q = qf p (gramm n (get X)) q) by (intros q; unfold energy; rewrite <- qf_gramm; reflexivity).
  rewrite (rsum_ext k _ (fun a => qf p (gramm n (get X)) (fun i => Q i a))) by (intros; apply He).
  rewrite (rsum_ext k (fun a => energy (fun i => get C i a)) (fun c => lam_of s c * lam_of s c)).
  2:{ intros a Ha. rewrite He. apply (qf_eigvec p k _ (get C) _ a HeC HoC Ha). }
  apply (ky_fan p k (gramm n (get X)) (get V) Q); try assumption. unfold p in *. lia.
Qed.
