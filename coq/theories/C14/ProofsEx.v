(* C14 — a concrete instance on which the hypotheses of the conditional theorems hold
   (4 x 2 data with orthogonal centred columns: SVD path), and the link between the sample
   covariance used in the statements and the model of DenseMatrix::cov. *)
From Coq Require Import List Arith Bool Lia Reals Lra.
From SC Require Import Base.Num C03.Model C03.ProofsBase C03.ProofsRed C14.Model C14.ProofsLin C14.ProofsModel C14.ProofsPCA C14.ProofsTSVD.
Import ListNotations.
Local Open Scope R_scope.
Local Notation get := (Model.get ROps).

(* the sample covariance matrix of the statements is what the model of DenseMatrix::cov returns *)
Lemma scov_is_cov X C i j :
  (1 <= nrows X)%nat -> cov ROps X = Some C -> (i < ncols X)%nat -> (j < ncols X)%nat ->
  get C i j = scov (nrows X) (cen X) i j.
Proof.
  intros Hn HC Hi Hj. destruct (nrows X) as [|m1] eqn:E; [lia|].
  destruct (cov_spec X m1 E) as (C' & HC' & _ & _ & _ & Hg & _).
  rewrite HC in HC'. injection HC' as <-. rewrite (Hg i j Hi Hj).
  unfold scov, gramm, cen. rewrite E. replace (S m1 - 1)%nat with m1 by lia. reflexivity.
Qed.

(* covariance of the scores in the vocabulary of DenseMatrix::cov *)
Lemma pca_scores_cov svd evd X k corr st :
  (2 <= nrows X)%nat ->
  (corr = true -> forall i, (i < ncols X)%nat -> col_sd X i <> 0) ->
  pca_fact_ok svd evd X corr ->
  pca_fit ROps svd evd X k corr = Some st ->
  exists T D (lam : nat -> R),
    pca_transform ROps st X = Some T /\ cov ROps T = Some D /\ nrows D = k /\ ncols D = k /\
    (forall c, (c < k)%nat -> col_mu T c = 0) /\
    (forall a b, (a < k)%nat -> (b < k)%nat -> get D a b = if Nat.eqb a b then lam a else 0) /\
    (forall a b, (a <= b)%nat -> (b < k)%nat -> lam b <= lam a) /\
    eigcols (ncols X) k (scov (nrows X) (pdata X corr)) (pweights X corr (p_projection st)) lam /\
    (forall c, (c < k)%nat -> lam c = evscale X corr * nth c (p_eigenvalues st) 0).
Proof.
  intros Hn Hsd Hok Hfit.
  destruct (pca_main _ _ _ _ _ _ Hn Hsd Hok Hfit) as (lam & T & Hk & HoW & HeW & Hni & Hl & _ & HT & t1 & t2 & t3 & _ & Hz & Hd).
  destruct (scores_cov (nrows X) k T lam Hn t1 t2 Hz Hd) as (D & HD & d1 & d2 & d3).
  exists T, D, lam. repeat split; try assumption.
  - intros c Hc. unfold col_mu. rewrite column_mean_nth by (rewrite t2; exact Hc).
    rewrite t1, (Hz c Hc). unfold Rdiv. ring.
  - intros a b Ha Hb. rewrite (d3 a b Ha Hb). unfold delta. destruct (Nat.eqb_spec a b); [subst; ring|ring].
  - intros a b Hab Hb. apply Hni; lia.
  - intros c Hc. apply Hl. lia.
Qed.

(* ---------- instance ---------- *)
Definition exX : dm R := mkdm 4 2 [2; 2; -2; -2; 1; -1; 1; -1].
Definition exI2 : dm R := mkdm 2 2 [1; 0; 0; 1].
Definition ex_svd : @fact R := fun _ => Some ([4; 2], exI2).
Definition ex_evd : @fact R := fun _ => None.

Ltac two_cases a H := destruct a as [|[|a]]; [| |exfalso; lia].

Lemma ex_fact_ok_gen (C : dm R) :
  (forall r i, (r < 4)%nat -> (i < 2)%nat -> get C r i = get exX r i) ->
  fact_ok 2 (gramm 4 (get C)) (fun c => lam_of [4; 2] c * lam_of [4; 2] c) exI2.
Proof.
  intros HC.
  assert (G : forall i j, (i < 2)%nat -> (j < 2)%nat ->
            gramm 4 (get C) i j = gramm 4 (get exX) i j).
  { intros i j Hi Hj. unfold gramm. apply rsum_ext. intros r Hr. rewrite !HC by assumption. reflexivity. }
  unfold fact_ok. split; [reflexivity|]. split; [reflexivity|]. split; [reflexivity|].
  split; [|split; [|split]].
  - intros a b Ha Hb. two_cases a Ha; two_cases b Hb; unfold rsum, Model.get, delta; cbn; lra.
  - intros a b Ha Hb. two_cases a Ha; two_cases b Hb; unfold rsum, Model.get, delta; cbn; lra.
  - intros i c Hi Hc.
    rewrite (rsum_ext 2 _ (fun j => gramm 4 (get exX) i j * get exI2 j c)).
    2:{ intros j Hj. rewrite (G i j Hi Hj). reflexivity. }
    two_cases i Hi; two_cases c Hc; unfold gramm, rsum, Model.get, lam_of; cbn; lra.
  - intros i j Hij Hj. two_cases j Hj; destruct i as [|[|i]]; try lia; unfold lam_of; cbn; lra.
Qed.

Lemma ex_centre_get r i : (r < 4)%nat -> (i < 2)%nat ->
  get (centre ROps exX (column_mean ROps exX)) r i = get exX r i.
Proof.
  intros Hr Hi. rewrite (get_centre exX r i Hr Hi). unfold cen, col_mu.
  rewrite (column_mean_nth exX i Hi).
  two_cases i Hi; destruct r as [|[|[|[|r]]]]; try lia; unfold rsum, Model.get; cbn; lra.
Qed.

Lemma ex_pca_fact_ok : pca_fact_ok ex_svd ex_evd exX false.
Proof.
  unfold pca_fact_ok. change (svd_path exX false) with true. cbv iota.
  intros s V H. unfold ex_svd in H. injection H as <- <-.
  change (ncols exX) with 2%nat. change (nrows exX) with 4%nat.
  apply ex_fact_ok_gen. intros r i Hr Hi.
  change (pca_fact_input ROps exX false) with (centre ROps exX (column_mean ROps exX)).
  apply ex_centre_get; assumption.
Qed.

Lemma ex_pca_fit_some k : (k <= 2)%nat -> exists st, pca_fit ROps ex_svd ex_evd exX k false = Some st.
Proof.
  intros Hk. unfold pca_fit. change (ncols exX) with 2%nat.
  destruct (2 <? k)%nat eqn:E; [apply Nat.ltb_lt in E; lia|].
  unfold pca_eig. change ((ncols exX <? nrows exX)%nat && negb false) with true. cbv iota.
  unfold ex_svd. eexists. reflexivity.
Qed.

Lemma ex_tsvd_fact_ok : tsvd_fact_ok ex_svd exX.
Proof.
  intros s V H. unfold ex_svd in H. injection H as <- <-.
  change (ncols exX) with 2%nat. change (nrows exX) with 4%nat.
  apply ex_fact_ok_gen. intros; reflexivity.
Qed.

Lemma ex_tsvd_fit_some : exists C, tsvd_fit ROps ex_svd exX 1 = Some C.
Proof. unfold tsvd_fit, ex_svd. cbn [ncols exX Nat.leb]. unfold slice. cbn. eexists. reflexivity. Qed.

(* an orthonormal 1-frame other than the leading component *)
Lemma ex_frame : orthocols 2 1 (fun i _ => if Nat.eqb i 1 then 1 else 0).
Proof. intros a b Ha Hb. assert (a = 0%nat) by lia. assert (b = 0%nat) by lia. subst. unfold rsum, delta. cbn. lra. Qed.

(* ---------- instance in correlation mode (EVD path): 3 x 2 data with orthogonal centred columns of
   different scale; the correlation matrix is the identity ---------- *)
Definition exX2 : dm R := mkdm 3 2 [1; -1; 0; 1; 1; -2].
Definition ex_evd2 : @fact R := fun _ => Some ([1; 1], exI2).
Definition ex_svd2 : @fact R := fun _ => None.

Lemma ex2_cen r i : (r < 3)%nat -> (i < 2)%nat -> cen exX2 r i = get exX2 r i.
Proof.
  intros Hr Hi. unfold cen, col_mu. rewrite (column_mean_nth exX2 i Hi).
  two_cases i Hi; destruct r as [|[|[|r]]]; try lia; unfold rsum, Model.get; cbn; lra.
Qed.
Lemma ex2_ss0 : col_ss exX2 0 = 2.
Proof. unfold col_ss. change (nrows exX2) with 3%nat. unfold rsum. cbn [osumn]. rewrite !ex2_cen by lia. unfold Model.get; cbn. lra. Qed.
Lemma ex2_ss1 : col_ss exX2 1 = 6.
Proof. unfold col_ss. change (nrows exX2) with 3%nat. unfold rsum. cbn [osumn]. rewrite !ex2_cen by lia. unfold Model.get; cbn. lra. Qed.
Lemma ex2_sd_sq i : (i < 2)%nat -> col_sd exX2 i <> 0 /\ col_sd exX2 i * col_sd exX2 i = col_ss exX2 i / 3.
Proof.
  intros Hi. unfold col_sd. change (INR (nrows exX2)) with (INR 3). replace (INR 3) with 3 by (cbn; lra).
  assert (P : 0 < col_ss exX2 i / 3) by (two_cases i Hi; rewrite ?ex2_ss0, ?ex2_ss1; lra).
  split; [apply Rgt_not_eq, sqrt_lt_R0; exact P|apply sqrt_sqrt; lra].
Qed.
Lemma ex2_sd_nonzero : forall i, (i < ncols exX2)%nat -> col_sd exX2 i <> 0.
Proof. intros i Hi. apply ex2_sd_sq. exact Hi. Qed.

Lemma ex2_cor_entry i j : (i < 2)%nat -> (j < 2)%nat ->
  get (pca_fact_input ROps exX2 true) i j = delta i j.
Proof.
  intros Hi Hj.
  change (pca_fact_input ROps exX2 true)
    with (cor_of ROps (cov_n ROps (centre ROps exX2 (column_mean ROps exX2)))
                 (sd_of ROps (cov_n ROps (centre ROps exX2 (column_mean ROps exX2))))).
  rewrite (get_cor exX2 i j Hi Hj (ex2_sd_nonzero i Hi) (ex2_sd_nonzero j Hj)).
  change (nrows exX2) with 3%nat. replace (INR 3) with 3 by (cbn; lra).
  unfold gramm, std, rsum. cbn [osumn oadd o0 ROps]. rewrite !ex2_cen by lia.
  destruct (ex2_sd_sq 0 ltac:(lia)) as [n0 s0]. destruct (ex2_sd_sq 1 ltac:(lia)) as [n1 s1].
  rewrite ex2_ss0 in s0. rewrite ex2_ss1 in s1.
  two_cases i Hi; two_cases j Hj; unfold Model.get, delta; cbn [nth Nat.add Nat.mul nrows exX2 values Nat.eqb].
  - set (a := col_sd exX2 0) in *.
    assert (E : forall x y, x / a * (y / a) = x * y / (a * a)) by (intros; field; exact n0).
    rewrite !E, s0. lra.
  - field. split; assumption.
  - field. split; assumption.
  - set (a := col_sd exX2 1) in *.
    assert (E : forall x y, x / a * (y / a) = x * y / (a * a)) by (intros; field; exact n1).
    rewrite !E, s1. lra.
Qed.

Lemma ex2_pca_fact_ok : pca_fact_ok ex_svd2 ex_evd2 exX2 true.
Proof.
  unfold pca_fact_ok. change (svd_path exX2 true) with false. cbv iota.
  intros d V H. unfold ex_evd2 in H. injection H as <- <-. change (ncols exX2) with 2%nat.
  unfold fact_ok. split; [reflexivity|]. split; [reflexivity|]. split; [reflexivity|].
  split; [|split; [|split]].
  - intros a b Ha Hb. two_cases a Ha; two_cases b Hb; unfold rsum, Model.get, delta; cbn; lra.
  - intros a b Ha Hb. two_cases a Ha; two_cases b Hb; unfold rsum, Model.get, delta; cbn; lra.
  - intros i c Hi Hc.
    rewrite (rsum_ext 2 _ (fun j => delta i j * get exI2 j c)).
    2:{ intros j Hj. rewrite (ex2_cor_entry i j Hi Hj). reflexivity. }
    two_cases i Hi; two_cases c Hc; unfold rsum, Model.get, lam_of, delta; cbn; lra.
  - intros i j Hij Hj. two_cases j Hj; destruct i as [|[|i]]; try lia; unfold lam_of; cbn; lra.
Qed.

Lemma ex2_pca_fit_some k : (k <= 2)%nat -> exists st, pca_fit ROps ex_svd2 ex_evd2 exX2 k true = Some st.
Proof.
  intros Hk. unfold pca_fit. change (ncols exX2) with 2%nat.
  destruct (2 <? k)%nat eqn:E; [apply Nat.ltb_lt in E; lia|].
  unfold pca_eig. change ((ncols exX2 <? nrows exX2)%nat && negb true) with false. cbv iota.
  unfold ex_evd2. eexists. reflexivity.
Qed.
