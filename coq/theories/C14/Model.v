(* C14 — executable model of src/decomposition/pca.rs (PCA::{fit, transform, components}) and
   src/decomposition/svd.rs (SVD::{fit, transform, components}) on the built-in dense matrix
   (the `dm` record of C03/Model.v, column-major as in DenseMatrix).  Definitions only.

   The two factorisations the code calls — `x.svd()` (src/linalg/svd.rs) and `cov.evd(true)`
   (src/linalg/evd.rs, tred2 + tql2) — are NOT part of this model: they enter as the function
   arguments `svd` and `evd` ("what the factorisation returned for this matrix": the singular
   values / eigenvalues and the matrix V; `None` = panic or Err).  The theorems quantify over every
   such function that satisfies the factorisation's post-condition; the correspondence check
   instantiates them with what the implementation's own routines returned on the matrix that the
   model says is handed to them.

   Everything around the factorisation is transliterated loop by loop: accumulations start from
   zero and run in the code's order (`osumn`), the lower triangle of the covariance / correlation
   matrix is computed and mirrored, the choice of path is the code's test `m > n && !use_corr`. *)
From Coq Require Import List Arith Bool ZArith.
From SC Require Import Base.Num C03.Model.
Import ListNotations.

Record pca_st (T : Type) := mkPCA {
  p_eigenvectors : dm T;      (* field `eigenvectors` (n x n; divided row-wise by sd in correlation mode) *)
  p_eigenvalues : list T;     (* field `eigenvalues` (s_i^2 on the SVD path, d_i on the EVD path) *)
  p_projection : dm T;        (* field `projection` = components(): n x k *)
  p_mu : list T;              (* column means of the training data *)
  p_pmu : list T              (* projected mean, length k *)
}.
Arguments mkPCA {T}. Arguments p_eigenvectors {T}. Arguments p_eigenvalues {T}.
Arguments p_projection {T}. Arguments p_mu {T}. Arguments p_pmu {T}.

Section PCA.
  Context {T : Type} (K : Ops T).
  Local Notation zero := (K.(o0)).
  Local Notation get := (get K).
  Infix "+" := (K.(oadd)).
  Infix "-" := (K.(osub)).
  Infix "*" := (K.(omul)).
  Infix "/" := (K.(odiv)).

  (* what a factorisation hands back: values (s or d) and V *)
  Definition fact := dm T -> option (list T * dm T).

  (* `x = data.clone(); for c, for r: x[r,c] -= mu[c]` *)
  Definition centre (data : dm T) (mu : list T) : dm T :=
    tab (nrows data) (ncols data) (fun r c => get data r c - nth c mu zero).

  (* `cov[i,j] += x[k,i]*x[k,j]` for k ascending (j <= i), then `/= m`, then mirrored *)
  Definition cov_n (x : dm T) : dm T :=
    let m := nrows x in let n := ncols x in
    tab n n (fun i j => let a := Nat.max i j in let b := Nat.min i j in
                        osumn K m (fun k => get x k a * get x k b) / oofnat K m).
  Definition sd_of (cov : dm T) : list T := map (fun i => K.(osqrt) (get cov i i)) (seq O (ncols cov)).
  (* `cov[i,j] /= sd[i]*sd[j]` (j <= i), mirrored *)
  Definition cor_of (cov : dm T) (sd : list T) : dm T :=
    let n := ncols cov in
    tab n n (fun i j => let a := Nat.max i j in let b := Nat.min i j in
                        get cov a b / (nth a sd zero * nth b sd zero)).
  (* `eigenvectors[i,j] /= sd[i]` *)
  Definition unscale (n : nat) (V : dm T) (sd : list T) : dm T :=
    tab n n (fun i j => get V i j / nth i sd zero).

  (* the matrix that is handed to the factorisation (observable only through the result) *)
  Definition pca_fact_input (data : dm T) (use_corr : bool) : dm T :=
    let m := nrows data in let n := ncols data in
    let x := centre data (column_mean K data) in
    if (n <? m) && negb use_corr then x
    else let cov := cov_n x in
         if use_corr then cor_of cov (sd_of cov) else cov.

  (* eigenvalues and eigenvectors as stored in the struct *)
  Definition pca_eig (svd evd : fact) (data : dm T) (use_corr : bool) : option (list T * dm T) :=
    let m := nrows data in let n := ncols data in
    let x := centre data (column_mean K data) in
    if (n <? m) && negb use_corr then
      match svd x with
      | None => None
      | Some (s, V) => Some (map (fun e => e * e) s, V)
      end
    else
      let cov := cov_n x in
      if use_corr then
        let sd := sd_of cov in
        match evd (cor_of cov sd) with
        | None => None
        | Some (d, V) => Some (d, unscale n V sd)
        end
      else evd cov.

  Definition pca_fit (svd evd : fact) (data : dm T) (k : nat) (use_corr : bool) : option (pca_st T) :=
    let n := ncols data in
    if n <? k then None                                   (* Err: n_components > n *)
    else
      let mu := column_mean K data in
      match pca_eig svd evd data use_corr with
      | None => None
      | Some (eigenvalues, eigenvectors) =>
          let projection := tab k n (fun j i => get eigenvectors i j) in            (* k x n *)
          let pmu := map (fun i => osumn K n (fun c => get projection i c * nth c mu zero)) (seq O k) in
          Some (mkPCA eigenvectors eigenvalues (transpose K projection) mu pmu)
      end.

  Definition pca_components (st : pca_st T) : dm T := p_projection st.

  (* None = Err (column count) or the panic of matmul *)
  Definition pca_transform (st : pca_st T) (x : dm T) : option (dm T) :=
    if negb (ncols x =? length (p_mu st)) then None
    else match matmul K x (p_projection st) with
         | None => None
         | Some xt => Some (tab (nrows x) (ncols (p_projection st))
                                (fun r c => get xt r c - nth c (p_pmu st) zero))
         end.

  (* ---------- truncated SVD ---------- *)
  Definition tsvd_fit (svd : fact) (x : dm T) (k : nat) : option (dm T) :=
    let p := ncols x in
    if p <=? k then None                                  (* Err: n_components >= p *)
    else match svd x with
         | None => None
         | Some (_, V) => slice K V O p O k
         end.
  Definition tsvd_transform (components x : dm T) : option (dm T) :=
    if negb (nrows components =? ncols x) then None else matmul K x components.
End PCA.
