(* C14 — the PCA theorems: conditional on the post-condition of the factorisation the model of
   PCA::fit is handed, the projection diagonalises the sample covariance matrix of the (centred,
   in correlation mode standardised) data; hence zero-mean, decorrelated, variance-ordered scores
   whose captured variance is the sum of the k largest eigenvalues and is optimal (Ky Fan). *)
From Coq Require Import List Arith Bool Lia Reals Lra.
From SC Require Import Base.Num C03.Model C03.ProofsBase C03.ProofsRed C14.Model C14.ProofsLin C14.ProofsModel.
Import ListNotations.
Local Open Scope R_scope.

Local Notation get := (Model.get ROps).

Definition lam_of (vals : list R) (c : nat) : R := nth c vals 0.

(* post-condition of a symmetric eigen-factorisation of the p x p matrix G: V is p x p orthogonal,
   G V = V diag(lam), lam non-increasing *)
Definition fact_ok (p : nat) (G : Mx) (lam : nat -> R) (V : dm R) : Prop :=
  nrows V = p /\ ncols V = p /\ wf V /\
  orthocols p p (get V) /\ orthorows p (get V) /\ eigcols p p G (get V) lam /\ noninc p lam.

Definition svd_path (X : dm R) (corr : bool) : bool := (ncols X <? nrows X)%nat && negb corr.

(* what is assumed of the factorisation PCA::fit calls, for the matrix it is called on:
   SVD path: the V and s of an SVD of the centred data C, i.e. (C^T C) V = V diag(s^2);
   EVD path: the V and d of the symmetric eigen-decomposition of the covariance / correlation matrix *)
Definition pca_fact_ok (svd evd : fact) (X : dm R) (corr : bool) : Prop :=
  let C := pca_fact_input ROps X corr in
  if svd_path X corr
  then forall s V, svd C = Some (s, V) ->
         fact_ok (ncols X) (gramm (nrows X) (get C)) (fun c => lam_of s c * lam_of s c) V
  else forall d V, evd C = Some (d, V) -> fact_ok (ncols X) (get C) (lam_of d) V.

(* the data the components act on, and the components as they act on it *)
Definition pdata (X : dm R) (corr : bool) : Mx := if corr then std X else cen X.
Definition pweights (X : dm R) (corr : bool) (P : dm R) : Mx :=
  fun i c => (if corr then col_sd X i else 1) * get P i c.
(* stored eigenvalue -> eigenvalue of the sample covariance matrix (divisor n - 1) *)
Definition evscale (X : dm R) (corr : bool) : R :=
  if svd_path X corr then / INR (nrows X - 1) else INR (nrows X) / INR (nrows X - 1).

Lemma nth_map_sq (s : list R) c : nth c (map (fun e => e * e) s) 0 = nth c s 0 * nth c s 0.
Proof.
  revert c. induction s as [|x s IH]; intros [|c]; cbn [map nth]; try ring. apply IH.
Qed.

Lemma fact_ok_transfer p (G G' : Mx) lam lam' V kappa :
  (forall i j, (i < p)%nat -> (j < p)%nat -> G' i j = kappa * G i j) ->
  (forall c, (c < p)%nat -> lam' c = kappa * lam c) -> 0 <= kappa ->
  fact_ok p G lam V -> fact_ok p G' lam' V.
Proof.
  intros HG Hl Hk (a1 & a2 & a3 & a4 & a5 & a6 & a7).
  repeat split; try assumption.
  - apply (eigcols_ext p p G' G' (get V) (get V) (fun c => kappa * lam c) lam'); try (intros; reflexivity).
    + intros c Hc. apply Hl. exact Hc.
    + apply (eigcols_scale p p G G' (get V) lam kappa HG a6).
  - intros i j Hij Hj. rewrite (Hl i), (Hl j) by lia. apply Rmult_le_compat_l; [exact Hk|]. apply a7; assumption.
Qed.

(* ---------- the factorisation seen through the fitted state ---------- *)
Lemma pca_factor svd evd X k corr st :
  (2 <= nrows X)%nat ->
  (corr = true -> forall i, (i < ncols X)%nat -> col_sd X i <> 0) ->
  pca_fact_ok svd evd X corr ->
  pca_fit ROps svd evd X k corr = Some st ->
  exists (V : dm R) (lam : nat -> R),
    fact_ok (ncols X) (scov (nrows X) (pdata X corr)) lam V /\
    (forall i c, (i < ncols X)%nat -> (c < k)%nat -> pweights X corr (p_projection st) i c = get V i c) /\
    (forall c, (c < ncols X)%nat -> lam c = evscale X corr * nth c (p_eigenvalues st) 0).
Proof.
  intros Hn Hsd Hok Hfit.
  destruct (fit_inv _ _ _ _ _ _ Hfit) as (evals & evecs & Heig & Hk & Hev & _ & _ & _ & _ & _ & _ & Hpg & _).
  assert (Hn1 : 0 < INR (nrows X - 1)) by (apply lt_0_INR; lia).
  assert (Hn0 : 0 < INR (nrows X)) by (apply lt_0_INR; lia).
  unfold pca_fact_ok, pca_fact_input, svd_path in Hok. unfold pca_eig in Heig.
  unfold evscale, svd_path. rewrite Hev.
  destruct corr; [|destruct (ncols X <? nrows X)%nat eqn:Hpn]; cbn [andb negb] in Hok, Heig |- *.
  - (* correlation matrix *)
    rewrite andb_false_r in Hok, Heig |- *.
    set (cv := cov_n ROps (centre ROps X (column_mean ROps X))) in *.
    destruct (evd (cor_of ROps cv (sd_of ROps cv))) as [[d V]|] eqn:He; [|discriminate].
    injection Heig as <- <-. specialize (Hok d V eq_refl).
    exists V, (fun c => INR (nrows X) / INR (nrows X - 1) * lam_of d c).
    split; [|split].
    + apply (fact_ok_transfer (ncols X) (get (cor_of ROps cv (sd_of ROps cv))) _ (lam_of d) _ V
               (INR (nrows X) / INR (nrows X - 1))); try assumption.
      * intros i j Hi Hj. unfold cv. rewrite (get_cor X i j Hi Hj (Hsd eq_refl i Hi) (Hsd eq_refl j Hj)).
        unfold scov, pdata. field. split; apply Rgt_not_eq; assumption.
      * intros; reflexivity.
      * apply Rlt_le. apply Rdiv_lt_0_compat; assumption.
    + intros i c Hi Hc. unfold pweights. rewrite (Hpg i c Hi Hc). unfold unscale.
      destruct Hok as (v1 & v2 & _).
      rewrite get_tab by lia. cbn [odiv o0 ROps]. unfold cv. rewrite (sd_of_nth X i Hi).
      field. apply (Hsd eq_refl i Hi).
    + intros c Hc. reflexivity.
  - (* SVD of the centred data *)
    destruct (svd (centre ROps X (column_mean ROps X))) as [[s V]|] eqn:He; [|discriminate].
    injection Heig as <- <-. specialize (Hok s V eq_refl).
    exists V, (fun c => / INR (nrows X - 1) * (lam_of s c * lam_of s c)).
    split; [|split].
    + apply (fact_ok_transfer (ncols X) (gramm (nrows X) (get (centre ROps X (column_mean ROps X)))) _
               (fun c => lam_of s c * lam_of s c) _ V (/ INR (nrows X - 1))); try assumption.
      * intros i j Hi Hj. unfold scov, pdata, gramm, Rdiv. rewrite Rmult_comm. f_equal.
        apply rsum_ext. intros r Hr. rewrite !get_centre by assumption. reflexivity.
      * intros; reflexivity.
      * apply Rlt_le, Rinv_0_lt_compat. exact Hn1.
    + intros i c Hi Hc. unfold pweights. rewrite (Hpg i c Hi Hc). ring.
    + intros c Hc. cbn [omul ROps]. rewrite nth_map_sq. reflexivity.
  - (* eigen-decomposition of the covariance matrix *)
    set (cv := cov_n ROps (centre ROps X (column_mean ROps X))) in *.
    destruct (evd cv) as [[d V]|] eqn:He; [|discriminate].
    injection Heig as <- <-. specialize (Hok d V eq_refl).
    exists V, (fun c => INR (nrows X) / INR (nrows X - 1) * lam_of d c).
    split; [|split].
    + apply (fact_ok_transfer (ncols X) (get cv) _ (lam_of d) _ V (INR (nrows X) / INR (nrows X - 1))); try assumption.
      * intros i j Hi Hj. unfold cv. rewrite (get_cov_n X i j Hi Hj).
        unfold scov, pdata. field. split; apply Rgt_not_eq; assumption.
      * intros; reflexivity.
      * apply Rlt_le. apply Rdiv_lt_0_compat; assumption.
    + intros i c Hi Hc. unfold pweights. rewrite (Hpg i c Hi Hc). ring.
    + intros c Hc. reflexivity.
Qed.

(* ---------- the scores ---------- *)
Lemma pdata_zero_sum X corr i : (0 < nrows X)%nat -> (i < ncols X)%nat ->
  rsum (nrows X) (fun r => pdata X corr r i) = 0.
Proof. intros Hn Hi. destruct corr; [apply std_zero_sum|apply cen_zero_sum]; assumption. Qed.

(* transform of the training data = (standardised) centred data times the weights *)
Lemma scores_form svd evd X k corr st :
  (corr = true -> forall i, (i < ncols X)%nat -> col_sd X i <> 0) ->
  pca_fit ROps svd evd X k corr = Some st ->
  exists T, pca_transform ROps st X = Some T /\ nrows T = nrows X /\ ncols T = k /\ wf T /\
    forall r c, (r < nrows X)%nat -> (c < k)%nat ->
      get T r c = mmul (ncols X) (pdata X corr) (pweights X corr (p_projection st)) r c.
Proof.
  intros Hsd Hfit.
  destruct (transform_spec _ _ _ _ _ _ X Hfit eq_refl) as (T & E & t1 & t2 & t3 & t4).
  exists T. repeat split; try assumption.
  intros r c Hr Hc. rewrite (t4 r c Hr Hc). unfold mmul. apply rsum_ext. intros i Hi.
  unfold pdata, pweights. destruct corr.
  - unfold std, cen. field. apply (Hsd eq_refl i Hi).
  - unfold cen. ring.
Qed.

(* The main statement.  lam are eigenvalues of the sample covariance matrix S (divisor n-1) of the
   data the components act on, W the components as they act on it. *)
Theorem pca_main svd evd X k corr st :
  (2 <= nrows X)%nat ->
  (corr = true -> forall i, (i < ncols X)%nat -> col_sd X i <> 0) ->
  pca_fact_ok svd evd X corr ->
  pca_fit ROps svd evd X k corr = Some st ->
  let n := nrows X in let p := ncols X in
  let Y := pdata X corr in let S := scov n Y in
  let W := pweights X corr (p_projection st) in
  exists (lam : nat -> R) (T : dm R),
    (k <= p)%nat /\
    (* components: orthonormal eigenvectors of S for its k largest eigenvalues *)
    orthocols p k W /\ eigcols p k S W lam /\ noninc p lam /\
    (forall c, (c < p)%nat -> lam c = evscale X corr * nth c (p_eigenvalues st) 0) /\
    (* lam_0 >= ... >= lam_{p-1} is the whole spectrum of S: S = V diag(lam) V^T, V orthogonal, W = V[:, 0..k) *)
    (exists V, fact_ok p S lam V /\ forall i c, (i < p)%nat -> (c < k)%nat -> W i c = get V i c) /\
    (* scores of the training data *)
    pca_transform ROps st X = Some T /\ nrows T = n /\ ncols T = k /\ wf T /\
    (forall r c, (r < n)%nat -> (c < k)%nat -> get T r c = mmul p Y W r c) /\
    (forall c, (c < k)%nat -> rsum n (fun r => get T r c) = 0) /\
    (forall a b, (a < k)%nat -> (b < k)%nat ->
       rsum n (fun r => get T r a * get T r b) / INR (n - 1) = lam b * delta a b).
Proof.
  intros Hn Hsd Hok Hfit n p Y S W.
  destruct (pca_factor _ _ _ _ _ _ Hn Hsd Hok Hfit) as (V & lam & HV & HW & Hlam).
  destruct (scores_form _ _ _ _ _ _ Hsd Hfit) as (T & HT & t1 & t2 & t3 & t4).
  destruct (fit_inv _ _ _ _ _ _ Hfit) as (_ & _ & _ & Hk & _).
  destruct HV as (v1 & v2 & v3 & v4 & v5 & v6 & v7).
  assert (HoW : orthocols p k W).
  { intros a b Ha Hb. rewrite <- (v4 a b) by (unfold p in *; lia).
    apply rsum_ext. intros i Hi. unfold W. rewrite (HW i a Hi Ha), (HW i b Hi Hb). reflexivity. }
  assert (HeW : eigcols p k S W lam).
  { apply (eigcols_ext p k S S (get V) W lam lam); try (intros; reflexivity).
    - intros i c Hi Hc. apply HW; assumption.
    - apply (eigcols_le p p k); [exact Hk|exact v6]. }
  assert (Hn1 : INR (n - 1) <> 0) by (apply not_0_INR; unfold n; lia).
  exists lam, T. repeat split; try assumption.
  - exists V. split; [repeat split; assumption|exact HW].
  - intros c Hc.
    rewrite (rsum_ext n _ (fun r => mmul p Y W r c)) by (intros r Hr; apply t4; assumption).
    apply scores_zero_sum. intros i Hi. apply pdata_zero_sum; [unfold n in *; lia|exact Hi].
  - intros a b Ha Hb.
    rewrite (rsum_ext n _ (fun r => mmul p Y W r a * mmul p Y W r b)).
    2:{ intros r Hr. rewrite (t4 r a Hr Ha), (t4 r b Hr Hb). reflexivity. }
    assert (HeG : eigcols p k (gramm n Y) W (fun c => INR (n - 1) * lam c)).
    { apply (eigcols_scale p k S (gramm n Y) W lam (INR (n - 1))); [|exact HeW].
      intros i j _ _. unfold S, scov. field. exact Hn1. }
    rewrite (scores_decor n p k Y W _ a b HeG HoW Ha Hb). field. exact Hn1.
Qed.

(* ---------- consequences in the vocabulary of the property ---------- *)
(* the covariance matrix of the scores, as DenseMatrix::cov computes it, is diag(lam_0..lam_{k-1}) *)
Lemma scores_cov n k (T : dm R) (lam : nat -> R) :
  (2 <= n)%nat -> nrows T = n -> ncols T = k ->
  (forall c, (c < k)%nat -> rsum n (fun r => get T r c) = 0) ->
  (forall a b, (a < k)%nat -> (b < k)%nat ->
     rsum n (fun r => get T r a * get T r b) / INR (n - 1) = lam b * delta a b) ->
  exists D, cov ROps T = Some D /\ nrows D = k /\ ncols D = k /\
    forall a b, (a < k)%nat -> (b < k)%nat -> get D a b = lam b * delta a b.
Proof.
  intros Hn t1 t2 Hz Hd.
  destruct n as [|m1]; [lia|].
  destruct (cov_spec T m1 t1) as (D & HD & d1 & d2 & _ & d4 & _).
  exists D. rewrite d1, d2, t2. repeat split; try assumption.
  intros a b Ha Hb. rewrite d4 by (rewrite t2; assumption). rewrite t1.
  assert (Hmu : forall c, (c < k)%nat -> col_mu T c = 0).
  { intros c Hc. unfold col_mu. rewrite column_mean_nth by (rewrite t2; exact Hc).
    rewrite t1, (Hz c Hc). unfold Rdiv. ring. }
  rewrite (Hmu a Ha), (Hmu b Hb).
  rewrite <- (Hd a b Ha Hb). replace (S m1 - 1)%nat with m1 by lia.
  f_equal. apply rsum_ext. intros; ring.
Qed.

(* captured variance = sum of the k largest eigenvalues; no orthonormal k-frame captures more *)
Theorem pca_optimal svd evd X k corr st (Q : Mx) :
  (2 <= nrows X)%nat -> (1 <= k)%nat ->
  (corr = true -> forall i, (i < ncols X)%nat -> col_sd X i <> 0) ->
  pca_fact_ok svd evd X corr ->
  pca_fit ROps svd evd X k corr = Some st ->
  let n := nrows X in let p := ncols X in
  let Y := pdata X corr in let W := pweights X corr (p_projection st) in
  (* variance of the data projected on direction q (the data have zero column means) *)
  let pvar := fun (q : nat -> R) => rsum n (fun r => rsum p (fun i => Y r i * q i) * rsum p (fun i => Y r i * q i)) / INR (n - 1) in
  orthocols p k Q ->
  rsum k (fun a => pvar (fun i => Q i a)) <= rsum k (fun a => pvar (fun i => W i a)).
Proof.
  intros Hn Hk1 Hsd Hok Hfit n p Y W pvar HQ.
  destruct (pca_main _ _ _ _ _ _ Hn Hsd Hok Hfit) as (lam & T & Hk & HoW & HeW & Hni & _ & (V & HV & HWV) & _).
  destruct HV as (v1 & v2 & v3 & v4 & v5 & v6 & v7).
  assert (Hn1 : INR (n - 1) <> 0) by (apply not_0_INR; unfold n; lia).
  assert (Hpv : forall q, pvar q = qf p (scov n Y) q).
  { intros q. unfold pvar. rewrite <- qf_gramm. unfold qf, scov, Rdiv.
    rewrite <- rsum_scal_r. apply rsum_ext. intros i _. rewrite <- rsum_scal_r. apply rsum_ext. intros; ring. }
  rewrite (rsum_ext k _ (fun a => qf p (scov n Y) (fun i => Q i a))) by (intros; apply Hpv).
  rewrite (rsum_ext k (fun a => pvar (fun i => W i a)) lam).
  2:{ intros a Ha. rewrite Hpv. apply (qf_eigvec p k (scov n Y) W lam a HeW HoW Ha). }
  apply (ky_fan p k (scov n Y) (get V) Q lam); assumption.
Qed.
