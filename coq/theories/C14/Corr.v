(* C14 — correspondence interface (used by harness/src/bin/c14.rs through `Eval vm_compute`).

   * `corr_pca_fit*` : the model of PCA::fit at binary64.  The factorisation argument of the model is
     the function that returns what the implementation's own `svd()` / `evd(true)` returned, and only
     for the matrix the harness ran it on (`Cin`): so the case fails unless the model's centring /
     covariance / correlation matrix is bit for bit the matrix that was factorised, and the five
     fields of the fitted struct (serde) must then be reproduced bit for bit.
   * `corr_pca_transform`, `corr_tsvd_fit*`, `corr_tsvd_transform` : the model run on the
     implementation's own state (serde) / factors, bit for bit.
   * `corr_pca_valid`, `corr_tsvd_valid` : the hypothesis of the theorems of Properties/C14.v decided
     inside Coq for this run, in exact rational arithmetic (C02's `check_sym_q`): V^T V = I and
     V V^T = I within tol, G V = V diag(lambda) within tol*max|G|, lambda non-increasing, where G is
     the matrix whose eigenvectors the theorems speak about (covariance / correlation matrix on the
     EVD path, X^T X of the centred data on the SVD path, X^T X for truncated SVD). *)
From Coq Require Import List ZArith NArith QArith Qabs Bool Floats.
From SC Require Import Base.FloatUtil Base.Num C03.Model C02.Validator C14.Model.
Import ListNotations.
Close Scope Q_scope.

Definition F : Ops float := FOps.
Definition nn := N.to_nat.
(* a matrix literal: rows, columns, column-major values (DenseMatrix's serde form) *)
Definition M (n p : N) (v : list float) : dm float := mkdm (nn n) (nn p) v.

Definition dm_eq (a b : dm float) : bool :=
  Nat.eqb (nrows a) (nrows b) && Nat.eqb (ncols a) (ncols b) && flist_eq (values a) (values b).

(* the factorisation "oracle": what the implementation returned, for the matrix it was run on *)
Definition recorded (Cin : dm float) (vals : list float) (V : dm float) : fact :=
  fun C => if dm_eq C Cin then Some (vals, V) else None.

Definition st_eq (a : pca_st float) (evec : dm float) (eval : list float) (proj : dm float)
           (mu pmu : list float) : bool :=
  dm_eq (p_eigenvectors a) evec && flist_eq (p_eigenvalues a) eval && dm_eq (p_projection a) proj &&
  flist_eq (p_mu a) mu && flist_eq (p_pmu a) pmu.

(* fit returned Ok(struct) *)
Definition corr_pca_fit (data : dm float) (k : N) (use_corr : bool)
           (Cin : dm float) (vals : list float) (V : dm float)
           (evec : dm float) (eval : list float) (proj : dm float) (mu pmu : list float) : bool :=
  let f := recorded Cin vals V in
  match pca_fit F f f data (nn k) use_corr with
  | Some st => st_eq st evec eval proj mu pmu
  | None => false
  end.
(* fit returned Err (k > p): the model must refuse whatever the factorisation would return *)
Definition corr_pca_fit_err (data : dm float) (k : N) (use_corr : bool) : bool :=
  let f : fact := fun C => Some ([], C) in
  match pca_fit F f f data (nn k) use_corr with Some _ => false | None => true end.

Definition mk_state (evec : dm float) (eval : list float) (proj : dm float) (mu pmu : list float) :=
  mkPCA evec eval proj mu pmu.
Definition odm_eq := option_eqb dm_eq.
(* transform on the implementation's own fitted state; None = Err *)
Definition corr_pca_transform (proj : dm float) (mu pmu : list float) (x : dm float)
           (e : option (dm float)) : bool :=
  odm_eq (pca_transform F (mkPCA (mkdm O O []) [] proj mu pmu) x) e.

Definition corr_tsvd_fit (x : dm float) (k : N) (vals : list float) (V : dm float)
           (e : option (dm float)) : bool :=
  odm_eq (tsvd_fit F (recorded x vals V) x (nn k)) e.
Definition corr_tsvd_transform (comps x : dm float) (e : option (dm float)) : bool :=
  odm_eq (tsvd_transform F comps x) e.

(* ---------- the theorems' hypothesis, decided in exact arithmetic ---------- *)
Definition rows_of (m : dm float) : list (list float) :=
  map (fun r => map (fun c => get F m r c) (seq O (ncols m))) (seq O (nrows m)).
Definition qtranspose (n : nat) (A : list (list Q)) : list (list Q) := map (fun j => qcol j A) (seq O n).
(* X^T X of a list of rows *)
Definition qgram_of (p : nat) (X : list (list Q)) : list (list Q) :=
  map (fun i => map (fun j => qdot (qcol i X) (qcol j X)) (seq O p)) (seq O p).

Definition check_fact_q (tol : Q) (G V : list (list Q)) (lam : list Q) : bool :=
  let n := length G in
  check_sym_q tol G V lam (repeat 0%Q n) &&
  forallb (fun i => forallb (fun j => Qle_bool (Qabs (qgram (qtranspose n V) i j)) tol) (seq O n)) (seq O n).

(* G and lambda as the theorems see them, from the matrix handed to the factorisation *)
Definition check_fact (tol : float) (svd_path : bool) (C : dm float) (vals : list float) (V : dm float) : bool :=
  match F2Q tol, fmatQ (rows_of C), flistQ vals, fmatQ (rows_of V) with
  | Some t, Some c, Some v, Some vq =>
      if svd_path then check_fact_q t (qgram_of (ncols C) c) vq (map (fun s => qmul s s) v)
      else check_fact_q t c vq v
  | _, _, _, _ => false
  end.

Definition corr_pca_valid (data : dm float) (use_corr : bool) (vals : list float) (V : dm float)
           (tol : float) : bool :=
  let svd_path := (ncols data <? nrows data)%nat && negb use_corr in
  check_fact tol svd_path (pca_fact_input F data use_corr) vals V.
Definition corr_tsvd_valid (x : dm float) (vals : list float) (V : dm float) (tol : float) : bool :=
  check_fact tol true x vals V.
