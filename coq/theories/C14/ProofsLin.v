(* C14 — the linear algebra behind PCA / truncated SVD on matrices seen as functions
   nat -> nat -> R with explicit dimensions (finite sums `rsum` of C03/ProofsRed.v):
   Gram matrix of projected data, decorrelation by eigenvectors, zero column sums, the spectral
   form G = V diag(lambda) V^T, Bessel's inequality, and Ky Fan's maximum principle
   (no k orthonormal directions capture more than the k largest eigenvalues). All sizes. *)
From Coq Require Import List Arith Lia Reals Lra Psatz.
From SC Require Import Base.Num C03.Model C03.ProofsBase C03.ProofsRed.
Local Open Scope R_scope.

Definition Mx := nat -> nat -> R.
Definition delta (i j : nat) : R := if Nat.eqb i j then 1 else 0.
Definition mmul (q : nat) (A B : Mx) : Mx := fun i j => rsum q (fun t => A i t * B t j).
(* Y^T Y for Y with n rows *)
Definition gramm (n : nat) (Y : Mx) : Mx := fun i j => rsum n (fun r => Y r i * Y r j).
(* the first k columns of the p-row matrix V are orthonormal *)
Definition orthocols (p k : nat) (V : Mx) : Prop :=
  forall a b, (a < k)%nat -> (b < k)%nat -> rsum p (fun i => V i a * V i b) = delta a b.
Definition orthorows (p : nat) (V : Mx) : Prop :=
  forall i j, (i < p)%nat -> (j < p)%nat -> rsum p (fun a => V i a * V j a) = delta i j.
(* the first k columns of V are eigenvectors of the p x p matrix G: G V = V diag(lam) *)
Definition eigcols (p k : nat) (G V : Mx) (lam : nat -> R) : Prop :=
  forall i c, (i < p)%nat -> (c < k)%nat -> rsum p (fun j => G i j * V j c) = lam c * V i c.
Definition noninc (p : nat) (lam : nat -> R) : Prop :=
  forall i j, (i <= j)%nat -> (j < p)%nat -> lam j <= lam i.
(* quadratic form q^T G q *)
Definition qf (p : nat) (G : Mx) (q : nat -> R) : R :=
  rsum p (fun i => rsum p (fun j => q i * G i j * q j)).

(* ---------- sums ---------- *)
Lemma rsum_scal_r n a f : rsum n (fun i => f i * a) = rsum n f * a.
Proof.
  rewrite (rsum_ext n _ (fun i => a * f i)) by (intros; ring). rewrite rsum_scal. ring.
Qed.
Lemma rsum_minus n f g : rsum n (fun i => f i - g i) = rsum n f - rsum n g.
Proof.
  rewrite (rsum_ext n _ (fun i => (-1) * g i + f i)) by (intros; ring). rewrite rsum_lin. ring.
Qed.
Lemma rsum_le n f g : (forall i, (i < n)%nat -> f i <= g i) -> rsum n f <= rsum n g.
Proof.
  induction n as [|n IH]; intros H; [rewrite !rsum_0; lra|].
  rewrite !rsum_S. apply Rplus_le_compat; [apply IH; intros; apply H; lia|apply H; lia].
Qed.
Lemma rsum_delta_l n a f : (a < n)%nat -> rsum n (fun j => delta a j * f j) = f a.
Proof.
  induction n as [|n IH]; intros Ha; [lia|].
  rewrite rsum_S. destruct (Nat.eq_dec a n) as [->|Hne].
  - rewrite (rsum_ext n _ (fun _ => 0)).
    2:{ intros j Hj. unfold delta. destruct (Nat.eqb_spec n j); [lia|ring]. }
    rewrite rsum_zero. unfold delta. rewrite Nat.eqb_refl. ring.
  - rewrite IH by lia. unfold delta. destruct (Nat.eqb_spec a n); [lia|ring].
Qed.
Lemma delta_sym a b : delta a b = delta b a.
Proof. unfold delta. rewrite Nat.eqb_sym. reflexivity. Qed.
Lemma rsum_delta_r n a f : (a < n)%nat -> rsum n (fun j => f j * delta j a) = f a.
Proof.
  intros Ha. rewrite (rsum_ext n _ (fun j => delta a j * f j)).
  - apply rsum_delta_l. exact Ha.
  - intros j _. rewrite (delta_sym j a). ring.
Qed.
Lemma rsum_prod n m f g :
  rsum n f * rsum m g = rsum n (fun i => rsum m (fun j => f i * g j)).
Proof.
  rewrite <- rsum_scal_r. apply rsum_ext. intros i _. rewrite rsum_scal. reflexivity.
Qed.

(* ---------- Gram matrix of projected data ---------- *)
(* (Y W)^T (Y W) = W^T (Y^T Y) W, entry (a, b) *)
Lemma scores_gram n p (Y W : Mx) a b :
  rsum n (fun r => mmul p Y W r a * mmul p Y W r b)
  = rsum p (fun i => W i a * rsum p (fun j => gramm n Y i j * W j b)).
Proof.
  unfold mmul, gramm.
  transitivity (rsum n (fun r => rsum p (fun i => W i a * (Y r i * rsum p (fun j => Y r j * W j b))))).
  { apply rsum_ext. intros r _. rewrite <- rsum_scal_r. apply rsum_ext. intros i _. ring. }
  rewrite rsum_swap. apply rsum_ext. intros i _. rewrite rsum_scal. f_equal.
  transitivity (rsum n (fun r => rsum p (fun j => Y r i * Y r j * W j b))).
  { apply rsum_ext. intros r _. rewrite <- rsum_scal. apply rsum_ext. intros; ring. }
  rewrite rsum_swap. apply rsum_ext. intros j _. rewrite rsum_scal_r. reflexivity.
Qed.

(* eigenvector columns decorrelate the projected data *)
Lemma scores_decor n p k (Y W : Mx) mu a b :
  eigcols p k (gramm n Y) W mu -> orthocols p k W -> (a < k)%nat -> (b < k)%nat ->
  rsum n (fun r => mmul p Y W r a * mmul p Y W r b) = mu b * delta a b.
Proof.
  intros He Ho Ha Hb. rewrite scores_gram.
  rewrite (rsum_ext p _ (fun i => mu b * (W i a * W i b))).
  2:{ intros i Hi. rewrite (He i b Hi Hb). ring. }
  rewrite rsum_scal, (Ho a b Ha Hb). reflexivity.
Qed.

Lemma scores_zero_sum n p (Y W : Mx) c :
  (forall i, (i < p)%nat -> rsum n (fun r => Y r i) = 0) ->
  rsum n (fun r => mmul p Y W r c) = 0.
Proof.
  intros H. unfold mmul. rewrite rsum_swap.
  rewrite (rsum_ext p _ (fun _ => 0)); [apply rsum_zero|].
  intros i Hi. rewrite rsum_scal_r, (H i Hi). ring.
Qed.

Lemma eigcols_scale p k (G G' V : Mx) lam kappa :
  (forall i j, (i < p)%nat -> (j < p)%nat -> G' i j = kappa * G i j) ->
  eigcols p k G V lam -> eigcols p k G' V (fun c => kappa * lam c).
Proof.
  intros HG He i c Hi Hc.
  rewrite (rsum_ext p _ (fun j => kappa * (G i j * V j c))).
  2:{ intros j Hj. rewrite (HG i j Hi Hj). ring. }
  rewrite rsum_scal, (He i c Hi Hc). ring.
Qed.

Lemma eigcols_ext p k (G G' V V' : Mx) lam lam' :
  (forall i j, (i < p)%nat -> (j < p)%nat -> G' i j = G i j) ->
  (forall i c, (i < p)%nat -> (c < k)%nat -> V' i c = V i c) ->
  (forall c, (c < k)%nat -> lam' c = lam c) ->
  eigcols p k G V lam -> eigcols p k G' V' lam'.
Proof.
  intros HG HV Hl He i c Hi Hc.
  rewrite (rsum_ext p _ (fun j => G i j * V j c)).
  2:{ intros j Hj. rewrite (HG i j Hi Hj), (HV j c Hj Hc). reflexivity. }
  rewrite (He i c Hi Hc), (Hl c Hc), (HV i c Hi Hc). reflexivity.
Qed.

Lemma eigcols_le p k k' (G V : Mx) lam : (k' <= k)%nat -> eigcols p k G V lam -> eigcols p k' G V lam.
Proof. intros Hk He i c Hi Hc. apply He; [exact Hi|lia]. Qed.
Lemma orthocols_le p k k' (V : Mx) : (k' <= k)%nat -> orthocols p k V -> orthocols p k' V.
Proof. intros Hk Ho a b Ha Hb. apply Ho; lia. Qed.
Lemma noninc_le p p' lam : (p' <= p)%nat -> noninc p lam -> noninc p' lam.
Proof. intros Hp H i j Hij Hj. apply H; lia. Qed.

(* ---------- the SVD of the data gives the eigenvectors of its Gram matrix ---------- *)
(* X = U diag(s) V^T with orthonormal columns of U (m x p, tall) and of V (p x p):
   (X^T X) V = V diag(s^2) *)
Lemma svd_gives_eig m p (X U V : Mx) (s : nat -> R) :
  (forall r i, (r < m)%nat -> (i < p)%nat -> X r i = rsum p (fun a => U r a * (s a * V i a))) ->
  orthocols m p U -> orthocols p p V ->
  eigcols p p (gramm m X) V (fun c => s c * s c).
Proof.
  intros HX HU HV i c Hi Hc.
  assert (HG : forall j, (j < p)%nat -> gramm m X i j = rsum p (fun a => (s a * s a * V i a) * V j a)).
  { intros j Hj. unfold gramm.
    rewrite (rsum_ext m _ (fun r => mmul p U (fun a t => s a * V t a) r i * mmul p U (fun a t => s a * V t a) r j)).
    2:{ intros r Hr. rewrite (HX r i Hr Hi), (HX r j Hr Hj). reflexivity. }
    rewrite scores_gram. apply rsum_ext. intros a Ha.
    rewrite (rsum_ext p _ (fun b => delta a b * (s b * V j b))).
    2:{ intros b Hb. unfold gramm. rewrite (HU a b Ha Hb). reflexivity. }
    rewrite rsum_delta_l by exact Ha. ring. }
  rewrite (rsum_ext p _ (fun j => rsum p (fun a => (s a * s a * V i a) * (V j a * V j c)))).
  2:{ intros j Hj. rewrite (HG j Hj), <- rsum_scal_r. apply rsum_ext. intros; ring. }
  rewrite rsum_swap.
  rewrite (rsum_ext p _ (fun a => (s a * s a * V i a) * delta a c)).
  2:{ intros a Ha. rewrite rsum_scal, (HV a c Ha Hc). reflexivity. }
  rewrite rsum_delta_r by exact Hc. ring.
Qed.

(* ---------- spectral form and Ky Fan ---------- *)
Lemma spectral p (G V : Mx) lam :
  eigcols p p G V lam -> orthorows p V ->
  forall i j, (i < p)%nat -> (j < p)%nat -> G i j = rsum p (fun c => lam c * V i c * V j c).
Proof.
  intros He Hr i j Hi Hj. symmetry.
  transitivity (rsum p (fun c => rsum p (fun t => G i t * V t c * V j c))).
  { apply rsum_ext. intros c Hc. rewrite rsum_scal_r, (He i c Hi Hc). ring. }
  rewrite rsum_swap.
  transitivity (rsum p (fun t => G i t * delta t j)).
  { apply rsum_ext. intros t Ht.
    rewrite (rsum_ext p _ (fun c => G i t * (V t c * V j c))) by (intros; ring).
    rewrite rsum_scal, (Hr t j Ht Hj). reflexivity. }
  apply rsum_delta_r. exact Hj.
Qed.

(* q^T G q = sum_c lam_c (v_c . q)^2 *)
Lemma qf_spectral p (G V : Mx) lam (q : nat -> R) :
  eigcols p p G V lam -> orthorows p V ->
  qf p G q = rsum p (fun c => lam c * (rsum p (fun i => V i c * q i) * rsum p (fun i => V i c * q i))).
Proof.
  intros He Hr. unfold qf.
  transitivity (rsum p (fun i => rsum p (fun j => rsum p (fun c => lam c * ((V i c * q i) * (V j c * q j)))))).
  { apply rsum_ext. intros i Hi. apply rsum_ext. intros j Hj.
    rewrite (spectral p G V lam He Hr i j Hi Hj).
    rewrite <- rsum_scal, <- rsum_scal_r. apply rsum_ext. intros; ring. }
  transitivity (rsum p (fun i => rsum p (fun c => rsum p (fun j => lam c * ((V i c * q i) * (V j c * q j)))))).
  { apply rsum_ext. intros i _. apply rsum_swap. }
  rewrite rsum_swap. apply rsum_ext. intros c _.
  rewrite rsum_prod, <- rsum_scal. apply rsum_ext. intros i _.
  rewrite <- rsum_scal. reflexivity.
Qed.

(* Bessel: the squared coefficients of u on k orthonormal vectors sum to at most |u|^2 *)
Lemma bessel p k (Q : Mx) (u : nat -> R) :
  orthocols p k Q ->
  rsum k (fun a => rsum p (fun i => Q i a * u i) * rsum p (fun i => Q i a * u i))
  <= rsum p (fun i => u i * u i).
Proof.
  intros HQ.
  set (al := fun a => rsum p (fun i => Q i a * u i)).
  set (W := fun (a : nat) (_ : nat) => al a).
  assert (H2 : rsum p (fun i => mmul k Q W i 0%nat * mmul k Q W i 0%nat) = rsum k (fun a => al a * al a)).
  { rewrite scores_gram. apply rsum_ext. intros a Ha. unfold W. f_equal.
    rewrite (rsum_ext k _ (fun b => delta a b * al b)).
    2:{ intros b Hb. unfold gramm. rewrite (HQ a b Ha Hb). reflexivity. }
    apply rsum_delta_l. exact Ha. }
  assert (H1 : rsum p (fun i => u i * mmul k Q W i 0%nat) = rsum k (fun a => al a * al a)).
  { unfold mmul, W.
    rewrite (rsum_ext p _ (fun i => rsum k (fun a => al a * (Q i a * u i)))).
    2:{ intros i _. rewrite <- rsum_scal. apply rsum_ext. intros; ring. }
    rewrite rsum_swap. apply rsum_ext. intros a _. rewrite rsum_scal. reflexivity. }
  assert (H0 : 0 <= rsum p (fun i => (u i - mmul k Q W i 0%nat) * (u i - mmul k Q W i 0%nat))).
  { apply rsum_nonneg. intros i _. generalize (u i - mmul k Q W i 0%nat). intros x. nra. }
  rewrite (rsum_ext p _ (fun i => (-2) * (u i * mmul k Q W i 0%nat)
                                  + (u i * u i + mmul k Q W i 0%nat * mmul k Q W i 0%nat))) in H0
    by (intros; ring).
  rewrite rsum_lin, rsum_plus, H1, H2 in H0.
  change (rsum k (fun a => al a * al a) <= rsum p (fun i => u i * u i)). lra.
Qed.

(* sum_c lam_c w_c <= sum_{c<k} lam_c when lam is non-increasing, 0 <= w_c <= 1, sum w = k *)
Lemma weights_bound p k (lam w : nat -> R) :
  (1 <= k)%nat -> (k <= p)%nat -> noninc p lam ->
  (forall c, (c < p)%nat -> 0 <= w c <= 1) -> rsum p w = INR k ->
  rsum p (fun c => lam c * w c) <= rsum k lam.
Proof.
  intros Hk1 Hkp Hn Hw Hs.
  set (L := lam (k - 1)%nat).
  replace p with (k + (p - k))%nat in Hs |- * by lia.
  rewrite rsum_add in Hs |- *.
  assert (A : rsum k (fun c => lam c * w c) - rsum k lam <= L * (rsum k w - INR k)).
  { assert (E1 : rsum k (fun c => lam c * w c) - rsum k lam = rsum k (fun c => lam c * (w c - 1))).
    { rewrite <- rsum_minus. apply rsum_ext. intros; ring. }
    assert (E2 : L * (rsum k w - INR k) = rsum k (fun c => L * (w c - 1))).
    { rewrite rsum_scal, rsum_minus, rsum_const. ring. }
    rewrite E1, E2. apply rsum_le. intros c Hc.
    assert (lam (k - 1)%nat <= lam c) by (apply Hn; lia).
    assert (0 <= w c <= 1) by (apply Hw; lia). unfold L. nra. }
  assert (B : rsum (p - k) (fun i => lam (k + i)%nat * w (k + i)%nat) <= L * rsum (p - k) (fun i => w (k + i)%nat)).
  { rewrite <- rsum_scal. apply rsum_le. intros c Hc.
    assert (lam (k + c)%nat <= lam (k - 1)%nat) by (apply Hn; lia).
    assert (0 <= w (k + c)%nat <= 1) by (apply Hw; lia). unfold L. nra. }
  assert (C : rsum k w - INR k = - rsum (p - k) (fun i => w (k + i)%nat)) by lra.
  rewrite C in A. lra.
Qed.

(* Ky Fan's maximum principle: for G = V diag(lam) V^T with orthogonal V and non-increasing lam,
   any k orthonormal directions satisfy sum_a q_a^T G q_a <= lam_0 + ... + lam_{k-1} *)
Theorem ky_fan p k (G V Q : Mx) lam :
  (1 <= k)%nat -> (k <= p)%nat ->
  eigcols p p G V lam -> orthocols p p V -> orthorows p V -> noninc p lam ->
  orthocols p k Q ->
  rsum k (fun a => qf p G (fun i => Q i a)) <= rsum k lam.
Proof.
  intros Hk1 Hkp He Hc Hr Hn HQ.
  set (M := fun c a => rsum p (fun i => V i c * Q i a)).
  set (w := fun c => rsum k (fun a => M c a * M c a)).
  assert (E : rsum k (fun a => qf p G (fun i => Q i a)) = rsum p (fun c => lam c * w c)).
  { rewrite (rsum_ext k _ (fun a => rsum p (fun c => lam c * (M c a * M c a)))).
    2:{ intros a _. apply (qf_spectral p G V lam (fun i => Q i a) He Hr). }
    rewrite rsum_swap. apply rsum_ext. intros c _. unfold w. rewrite rsum_scal. reflexivity. }
  rewrite E. apply weights_bound; try assumption.
  - intros c Hcp. split.
    + unfold w. apply rsum_nonneg. intros a _. nra.
    + unfold w, M.
      rewrite (rsum_ext k _ (fun a => rsum p (fun i => Q i a * V i c) * rsum p (fun i => Q i a * V i c))).
      2:{ intros a _. f_equal; apply rsum_ext; intros; ring. }
      eapply Rle_trans; [apply (bessel p k Q (fun i => V i c) HQ)|].
      rewrite (Hc c c Hcp Hcp). unfold delta. rewrite Nat.eqb_refl. lra.
  - unfold w. rewrite rsum_swap.
    rewrite (rsum_ext k _ (fun _ => 1)); [rewrite rsum_const; ring|].
    intros a Ha. unfold M.
    set (Y := fun (c i : nat) => V i c). set (W := fun (i : nat) (_ : nat) => Q i a).
    change (rsum p (fun c => mmul p Y W c 0%nat * mmul p Y W c 0%nat) = 1).
    rewrite scores_gram. unfold W.
    rewrite (rsum_ext p _ (fun i => Q i a * Q i a)).
    2:{ intros i Hi. f_equal.
        rewrite (rsum_ext p _ (fun j => delta i j * Q j a)).
        2:{ intros j Hj. unfold gramm, Y. rewrite (Hr i j Hi Hj). reflexivity. }
        apply (rsum_delta_l p i (fun j => Q j a)). exact Hi. }
    rewrite (HQ a a Ha Ha). unfold delta. rewrite Nat.eqb_refl. reflexivity.
Qed.

(* the eigenvector frame itself attains the bound *)
Lemma qf_eigvec p k (G V : Mx) lam a :
  eigcols p k G V lam -> orthocols p k V -> (a < k)%nat ->
  qf p G (fun i => V i a) = lam a.
Proof.
  intros He Ho Ha. unfold qf.
  rewrite (rsum_ext p _ (fun i => lam a * (V i a * V i a))).
  2:{ intros i Hi.
      rewrite (rsum_ext p _ (fun j => V i a * (G i j * V j a))) by (intros; ring).
      rewrite rsum_scal, (He i a Hi Ha). ring. }
  rewrite rsum_scal, (Ho a a Ha Ha). unfold delta. rewrite Nat.eqb_refl. ring.
Qed.

(* q^T (Y^T Y) q is the sum of squares of the data projected on q *)
Lemma qf_gramm n p (Y : Mx) (q : nat -> R) :
  qf p (gramm n Y) q = rsum n (fun r => rsum p (fun i => Y r i * q i) * rsum p (fun i => Y r i * q i)).
Proof.
  set (W := fun (i : nat) (_ : nat) => q i).
  change (qf p (gramm n Y) q = rsum n (fun r => mmul p Y W r 0%nat * mmul p Y W r 0%nat)).
  rewrite scores_gram. unfold qf, W. apply rsum_ext. intros i _.
  rewrite <- rsum_scal. apply rsum_ext. intros; ring.
Qed.
