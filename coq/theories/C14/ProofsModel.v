(* C14 — what the model of PCA::fit / transform computes, over the reals, in terms of the
   logical view of the matrices: structure of the fitted state, the affine form of `transform`,
   stacking, the matrix handed to the factorisation as a Gram matrix of the (standardised)
   centred data. *)
From Coq Require Import List Arith Bool Lia Reals Lra.
From SC Require Import Base.Num C03.Model C03.ProofsBase C03.ProofsRed C14.Model C14.ProofsLin.
Import ListNotations.
Local Open Scope R_scope.

Local Notation get := (Model.get ROps).

(* centred data and its column scale *)
Definition cen (X : dm R) : Mx := fun r i => get X r i - col_mu X i.
(* sum of squared deviations of column i *)
Definition col_ss (X : dm R) (i : nat) : R := rsum (nrows X) (fun r => cen X r i * cen X r i).
(* population standard deviation (divisor n), as the code computes it *)
Definition col_sd (X : dm R) (i : nat) : R := sqrt (col_ss X i / INR (nrows X)).
Definition std (X : dm R) : Mx := fun r i => cen X r i / col_sd X i.
(* sample covariance matrix (divisor n - 1) of data given as a function *)
Definition scov (n : nat) (Y : Mx) : Mx := fun i j => gramm n Y i j / INR (n - 1).

Lemma cen_zero_sum X i : (0 < nrows X)%nat -> (i < ncols X)%nat -> rsum (nrows X) (fun r => cen X r i) = 0.
Proof.
  intros Hn Hi. unfold cen. rewrite rsum_minus, rsum_const. unfold col_mu.
  rewrite (column_mean_nth X i Hi).
  assert (INR (nrows X) <> 0) by (apply not_0_INR; lia). field. exact H.
Qed.

Lemma get_centre X r i : (r < nrows X)%nat -> (i < ncols X)%nat ->
  get (centre ROps X (column_mean ROps X)) r i = cen X r i.
Proof. intros Hr Hi. unfold centre. rewrite get_tab by assumption. reflexivity. Qed.

(* ---------- the fitted state ---------- *)
Lemma fit_inv svd evd X k corr st :
  pca_fit ROps svd evd X k corr = Some st ->
  exists evals evecs,
    pca_eig ROps svd evd X corr = Some (evals, evecs) /\ (k <= ncols X)%nat /\
    p_eigenvalues st = evals /\ p_eigenvectors st = evecs /\ p_mu st = column_mean ROps X /\
    nrows (p_projection st) = ncols X /\ ncols (p_projection st) = k /\ wf (p_projection st) /\
    length (p_pmu st) = k /\
    (forall i c, (i < ncols X)%nat -> (c < k)%nat -> get (p_projection st) i c = get evecs i c) /\
    (forall c, (c < k)%nat ->
       nth c (p_pmu st) 0 = rsum (ncols X) (fun i => get evecs i c * nth i (column_mean ROps X) 0)).
Proof.
  unfold pca_fit. destruct (ncols X <? k)%nat eqn:Hk; [discriminate|]. apply Nat.ltb_ge in Hk.
  destruct (pca_eig ROps svd evd X corr) as [[evals evecs]|]; [|discriminate].
  intros H. injection H as <-. exists evals, evecs. cbn [p_eigenvalues p_eigenvectors p_mu p_projection p_pmu].
  repeat split; try reflexivity; try exact Hk.
  - apply transpose_shape.
  - rewrite map_length, seq_length. reflexivity.
  - intros i c Hi Hc. rewrite get_transpose by (cbn; assumption). rewrite get_tab by assumption. reflexivity.
  - intros c Hc. rewrite nth_map_seq by exact Hc. apply rsum_ext. intros i Hi.
    rewrite get_tab by assumption. reflexivity.
Qed.

(* transform is the row-wise affine map x -> (x - mu) P *)
Lemma transform_spec svd evd X k corr st X' :
  pca_fit ROps svd evd X k corr = Some st -> ncols X' = ncols X ->
  exists T, pca_transform ROps st X' = Some T /\ nrows T = nrows X' /\ ncols T = k /\ wf T /\
    forall r c, (r < nrows X')%nat -> (c < k)%nat ->
      get T r c = rsum (ncols X) (fun i => (get X' r i - col_mu X i) * get (p_projection st) i c).
Proof.
  intros Hfit Hp.
  destruct (fit_inv _ _ _ _ _ _ Hfit) as (evals & evecs & _ & Hk & _ & _ & Hmu & Hpr & Hpc & Hpw & Hpl & Hpg & Hpmu).
  unfold pca_transform. rewrite Hmu, column_mean_length, Hp, Nat.eqb_refl. cbn [negb].
  unfold matmul. rewrite Hpr, Hp, Nat.eqb_refl. cbn [negb]. rewrite Hpc.
  eexists. split; [reflexivity|]. split; [reflexivity|]. split; [reflexivity|]. split; [apply tab_wf|].
  intros r c Hr Hc. rewrite get_tab by assumption. rewrite get_tab by assumption.
  cbn [o0 osub ROps]. rewrite (Hpmu c Hc).
  change (osumn ROps (ncols X)) with (rsum (ncols X)).
  rewrite <- rsum_minus. apply rsum_ext. intros i Hi. rewrite (Hpg i c Hi Hc). unfold col_mu.
  cbn [omul ROps]. ring.
Qed.

Lemma transform_rejects svd evd X k corr st X' :
  pca_fit ROps svd evd X k corr = Some st -> ncols X' <> ncols X -> pca_transform ROps st X' = None.
Proof.
  intros Hfit Hp.
  destruct (fit_inv _ _ _ _ _ _ Hfit) as (evals & evecs & _ & _ & _ & _ & Hmu & _).
  unfold pca_transform. rewrite Hmu, column_mean_length. apply Nat.eqb_neq in Hp. rewrite Hp. reflexivity.
Qed.

(* transforming a stack of rows = stacking the transforms *)
Lemma transform_stack svd evd X k corr st A B AB TA TB :
  pca_fit ROps svd evd X k corr = Some st ->
  ncols A = ncols X -> ncols B = ncols X -> v_stack ROps A B = Some AB ->
  pca_transform ROps st A = Some TA -> pca_transform ROps st B = Some TB ->
  exists TAB, pca_transform ROps st AB = Some TAB /\ v_stack ROps TA TB = Some TAB.
Proof.
  intros Hfit HA HB Hst HTA HTB.
  destruct (transform_spec _ _ _ _ _ _ A Hfit HA) as (TA' & E1 & a1 & a2 & a3 & a4). rewrite HTA in E1. injection E1 as <-.
  destruct (transform_spec _ _ _ _ _ _ B Hfit HB) as (TB' & E2 & b1 & b2 & b3 & b4). rewrite HTB in E2. injection E2 as <-.
  unfold v_stack in Hst. rewrite HA, HB, Nat.eqb_refl in Hst. cbn [negb] in Hst. injection Hst as <-.
  match goal with |- context [pca_transform ROps st ?M] => set (AB := M) end.
  assert (HAB : ncols AB = ncols X) by reflexivity.
  destruct (transform_spec _ _ _ _ _ _ AB Hfit HAB) as (TAB & E & c1 & c2 & c3 & c4).
  exists TAB. split; [exact E|].
  unfold v_stack. rewrite a2, b2, Nat.eqb_refl. cbn [negb]. f_equal. symmetry.
  apply (dm_ext ROps).
  - exact c3.
  - apply tab_wf.
  - rewrite c1. cbn [nrows AB tab]. rewrite a1, b1. reflexivity.
  - rewrite c2. reflexivity.
  - intros r c Hr Hc. rewrite c1 in Hr. rewrite c2 in Hc. cbn [nrows AB tab] in Hr.
    rewrite (c4 r c Hr Hc). rewrite get_tab by (rewrite ?a1, ?b1; assumption).
    unfold AB. destruct (r <? nrows TA)%nat eqn:Hlt.
    + apply Nat.ltb_lt in Hlt. rewrite a1 in Hlt. rewrite (a4 r c Hlt Hc).
      apply rsum_ext. intros i Hi. rewrite get_tab by assumption.
      apply Nat.ltb_lt in Hlt. rewrite Hlt. reflexivity.
    + apply Nat.ltb_ge in Hlt. rewrite a1 in Hlt |- *.
      assert (Hr' : (r - nrows A < nrows B)%nat) by lia.
      rewrite (b4 _ c Hr' Hc).
      apply rsum_ext. intros i Hi. rewrite get_tab by assumption.
      apply Nat.ltb_ge in Hlt. rewrite Hlt. reflexivity.
Qed.

(* ---------- the matrix handed to the factorisation ---------- *)
Lemma get_cov_n X i j : (i < ncols X)%nat -> (j < ncols X)%nat ->
  get (cov_n ROps (centre ROps X (column_mean ROps X))) i j = gramm (nrows X) (cen X) i j / INR (nrows X).
Proof.
  intros Hi Hj. unfold cov_n. cbn [nrows ncols centre tab]. rewrite get_tab by assumption.
  rewrite oofnat_INR. cbn [odiv ROps]. f_equal. unfold gramm.
  change (osumn ROps (nrows X)) with (rsum (nrows X)).
  apply rsum_ext. intros r Hr.
  assert (Ha : (Nat.max i j < ncols X)%nat) by lia. assert (Hb : (Nat.min i j < ncols X)%nat) by lia.
  change (centre ROps X (column_mean ROps X)) with (centre ROps X (column_mean ROps X)).
  rewrite (get_centre X r _ Hr Ha), (get_centre X r _ Hr Hb). cbn [omul ROps].
  destruct (le_lt_dec i j).
  - rewrite Nat.max_r, Nat.min_l by lia. ring.
  - rewrite Nat.max_l, Nat.min_r by lia. ring.
Qed.

Lemma cov_n_diag X i : (i < ncols X)%nat ->
  get (cov_n ROps (centre ROps X (column_mean ROps X))) i i = col_ss X i / INR (nrows X).
Proof. intros Hi. rewrite get_cov_n by assumption. reflexivity. Qed.

Lemma sd_of_nth X i : (i < ncols X)%nat ->
  nth i (sd_of ROps (cov_n ROps (centre ROps X (column_mean ROps X)))) 0 = col_sd X i.
Proof.
  intros Hi. unfold sd_of. cbn [ncols cov_n tab centre].
  rewrite nth_map_seq by exact Hi. cbn [osqrt ROps].
  change (tab (ncols X) (ncols X) _) with (cov_n ROps (centre ROps X (column_mean ROps X))).
  rewrite cov_n_diag by exact Hi. reflexivity.
Qed.

Lemma get_cor X i j : (i < ncols X)%nat -> (j < ncols X)%nat ->
  col_sd X i <> 0 -> col_sd X j <> 0 ->
  let cv := cov_n ROps (centre ROps X (column_mean ROps X)) in
  get (cor_of ROps cv (sd_of ROps cv)) i j = gramm (nrows X) (std X) i j / INR (nrows X).
Proof.
  intros Hi Hj Hsi Hsj cv. unfold cor_of.
  assert (Hnc : ncols cv = ncols X) by reflexivity. rewrite Hnc.
  rewrite get_tab by assumption. cbn [o0 odiv omul ROps].
  assert (Ha : (Nat.max i j < ncols X)%nat) by lia. assert (Hb : (Nat.min i j < ncols X)%nat) by lia.
  unfold cv. rewrite (sd_of_nth X _ Ha), (sd_of_nth X _ Hb), (get_cov_n X _ _ Ha Hb).
  unfold gramm, std.
  rewrite (rsum_ext (nrows X) (fun r => cen X r i / col_sd X i * (cen X r j / col_sd X j))
                    (fun r => / (col_sd X i * col_sd X j) * (cen X r i * cen X r j))).
  2:{ intros r _. field. split; assumption. }
  rewrite rsum_scal.
  destruct (le_lt_dec i j).
  - rewrite Nat.max_r, Nat.min_l by lia.
    rewrite (rsum_ext (nrows X) (fun r => cen X r j * cen X r i) (fun r => cen X r i * cen X r j)) by (intros; ring).
    field. repeat split; try assumption.
    destruct (Nat.eq_dec (nrows X) 0) as [E|E]; [|apply not_0_INR; exact E].
    exfalso. apply Hsi. unfold col_sd. rewrite E. cbn [INR]. unfold Rdiv. rewrite Rinv_0, Rmult_0_r. apply sqrt_0.
  - rewrite Nat.max_l, Nat.min_r by lia.
    field. repeat split; try assumption.
    destruct (Nat.eq_dec (nrows X) 0) as [E|E]; [|apply not_0_INR; exact E].
    exfalso. apply Hsi. unfold col_sd. rewrite E. cbn [INR]. unfold Rdiv. rewrite Rinv_0, Rmult_0_r. apply sqrt_0.
Qed.

Lemma std_zero_sum X i : (0 < nrows X)%nat -> (i < ncols X)%nat -> rsum (nrows X) (fun r => std X r i) = 0.
Proof.
  intros Hn Hi. unfold std, Rdiv. rewrite rsum_scal_r, (cen_zero_sum X i Hn Hi). ring.
Qed.
