(* C14 — rounding theorems for the binary64 instance (FOps, Coq primitive floats: the very definitions the
   correspondence check runs against src/decomposition/{pca,svd}.rs bit for bit) of PCA::transform and
   (truncated) SVD::transform.  Fitting goes through SVD / EVD and has no rounding theorem; transform is the
   straight-line computation
       SVD:  x.matmul(components)                       t_ic = fl(sum_j x_ij C_jc)
       PCA:  x.matmul(projection), then  -= pmu[c]      t_ic = fl( fl(sum_j x_ij P_jc) - pmu_c )
   (the code does NOT centre x first: it subtracts the PROJECTED mean pmu, stored at fit time, after the
   product), every sum a left fold from 0 over j = 0..p-1.

     transform_row_independent / tsvd_...   (every Ops, hence bit for bit at binary64) row r of the output is a
                                function of row r of the input alone: two inputs that agree on a row (at any two
                                positions) give the same output row
     pca_transform_stack_gen / tsvd_...     (every Ops) transform of a stack of rows = stack of the transforms
     tsvd_transform_float_error  |FR t_ic - S| <= Eu(p) (A + p eta) + p eta,  S = sum_j x_ij C_jc, A = sum_j |x_ij C_jc|
     pca_transform_float_error   |FR t_ic - (S - pmu_c)| <= u |S - pmu_c| + (1+u) (Eu(p) (A + p eta) + p eta)
                                                         <= Eu(p+1) (A + p eta) + p eta + u |pmu_c|
     pca_pmu_float_error         for a state produced by the model of fit at binary64:
                                |FR pmu_c - sum_j P_jc mu_j| <= Eu(p) (sum_j |P_jc mu_j| + p eta) + p eta
     tsvd_transform_scale_pow2_exact    data row times 2^a, component column times 2^b exactly, no product underflows: the
                                computed entry is scaled by exactly 2^(a+b)
     pca_transform_affine_float_error   hence, against the affine form  sum_j (x_ij - mu_j) P_jc  on the real values
                                of the stored mu and projection (real values of the floats: no claim about the
                                factorisation that produced the projection)

   Vocabulary (Base/FloatError.v): FR x = real value of a float, ffin x = finite, u64 = 2^-53,
   eta64 = 2^-1075, Eu k = (1+u64)^k - 1; RM m = the matrix of real values (C03/ProofsFloat.v); RSt = the
   fitted state of real values.  The only no-overflow hypothesis is that the entry in question is finite. *)
From Coq Require Import List Arith ZArith Bool Reals Floats Lra Lia Psatz.
From SC Require Import Base.FloatUtil Base.Num Base.FloatError.
From SC Require C03.Model C03.ProofsBase C03.ProofsFloat C03.ProofsFloat2 C14.Model.
Import ListNotations.
Local Open Scope R_scope.

Import SC.C03.ProofsFloat.
Module M := SC.C03.Model.
Module PB := SC.C03.ProofsBase.
Module F2 := SC.C03.ProofsFloat2.
Module PC := SC.C14.Model.

(* ============================ structure: every Ops ============================ *)
Section Gen.
  Context {T : Type} (K : Ops T).
  Local Notation get := (M.get K).

  (* the entry of the product x * c that both transforms start from, with the model's own operations *)
  Definition prod_entry (x c : M.dm T) (r j : nat) : T :=
    osumn K (M.ncols x) (fun i => omul K (get x r i) (get c i j)).

  Lemma tsvd_transform_inv C X Tm : PC.tsvd_transform K C X = Some Tm ->
    M.nrows C = M.ncols X /\ Tm = M.tab (M.nrows X) (M.ncols C) (prod_entry X C).
  Proof.
    unfold PC.tsvd_transform, M.matmul.
    destruct (Nat.eqb_spec (M.nrows C) (M.ncols X)) as [E|]; [|discriminate]. cbn [negb].
    rewrite <- E, Nat.eqb_refl. cbn [negb]. intros [= <-]. split; [reflexivity|].
    unfold prod_entry. rewrite E. reflexivity.
  Qed.

  Lemma pca_transform_inv st X Tm : PC.pca_transform K st X = Some Tm ->
    M.ncols X = length (PC.p_mu st) /\ M.ncols X = M.nrows (PC.p_projection st) /\
    Tm = M.tab (M.nrows X) (M.ncols (PC.p_projection st))
           (fun r c => osub K (prod_entry X (PC.p_projection st) r c) (nth c (PC.p_pmu st) (o0 K))).
  Proof.
    unfold PC.pca_transform, M.matmul.
    destruct (Nat.eqb_spec (M.ncols X) (length (PC.p_mu st))) as [E|]; [|discriminate]. cbn [negb].
    destruct (Nat.eqb_spec (M.ncols X) (M.nrows (PC.p_projection st))) as [E2|]; [|discriminate]. cbn [negb].
    intros [= <-]. split; [exact E|]. split; [exact E2|].
    apply PB.tab_ext. intros r c Hr Hc. rewrite PB.get_tab by assumption. reflexivity.
  Qed.

  Lemma tsvd_transform_some C X : M.nrows C = M.ncols X ->
    PC.tsvd_transform K C X = Some (M.tab (M.nrows X) (M.ncols C) (prod_entry X C)).
  Proof.
    intros E. unfold PC.tsvd_transform, M.matmul. rewrite E, Nat.eqb_refl. cbn [negb]. reflexivity.
  Qed.

  Lemma pca_transform_some st X : M.ncols X = length (PC.p_mu st) -> M.ncols X = M.nrows (PC.p_projection st) ->
    PC.pca_transform K st X =
      Some (M.tab (M.nrows X) (M.ncols (PC.p_projection st))
             (fun r c => osub K (prod_entry X (PC.p_projection st) r c) (nth c (PC.p_pmu st) (o0 K)))).
  Proof.
    intros E E2. unfold PC.pca_transform, M.matmul. rewrite <- E, <- E2, !Nat.eqb_refl. cbn [negb]. f_equal.
    apply PB.tab_ext. intros r c Hr Hc. rewrite PB.get_tab by assumption. reflexivity.
  Qed.

  Lemma prod_entry_rows X X' Pm r r' c : M.ncols X = M.ncols X' ->
    (forall i, (i < M.ncols X)%nat -> get X r i = get X' r' i) ->
    prod_entry X Pm r c = prod_entry X' Pm r' c.
  Proof.
    intros E H. unfold prod_entry. rewrite <- E. apply F2.osumn_ext. intros i Hi. rewrite (H i Hi). reflexivity.
  Qed.

  (* row r of the output depends on row r of the input only (and not on where the row stands) *)
  Theorem tsvd_transform_row_independent C X X' Tm Tm' r r' :
    PC.tsvd_transform K C X = Some Tm -> PC.tsvd_transform K C X' = Some Tm' ->
    (r < M.nrows X)%nat -> (r' < M.nrows X')%nat ->
    (forall i, (i < M.ncols X)%nat -> get X r i = get X' r' i) ->
    forall c, (c < M.ncols C)%nat -> get Tm r c = get Tm' r' c.
  Proof.
    intros H H' Hr Hr' Hrow c Hc.
    destruct (tsvd_transform_inv _ _ _ H) as [E ->]. destruct (tsvd_transform_inv _ _ _ H') as [E' ->].
    rewrite !PB.get_tab by assumption. apply prod_entry_rows; [congruence | exact Hrow].
  Qed.

  Theorem pca_transform_row_independent st X X' Tm Tm' r r' :
    PC.pca_transform K st X = Some Tm -> PC.pca_transform K st X' = Some Tm' ->
    (r < M.nrows X)%nat -> (r' < M.nrows X')%nat ->
    (forall i, (i < M.ncols X)%nat -> get X r i = get X' r' i) ->
    forall c, (c < M.ncols (PC.p_projection st))%nat -> get Tm r c = get Tm' r' c.
  Proof.
    intros H H' Hr Hr' Hrow c Hc.
    destruct (pca_transform_inv _ _ _ H) as (E & _ & ->). destruct (pca_transform_inv _ _ _ H') as (E' & _ & ->).
    rewrite !PB.get_tab by assumption. f_equal. apply prod_entry_rows; [congruence | exact Hrow].
  Qed.

  (* transforming a stack of rows = stacking the transforms (no hypothesis on the state) *)
  Lemma v_stack_inv A B AB : M.v_stack K A B = Some AB -> M.ncols A = M.ncols B /\
    AB = M.tab (M.nrows A + M.nrows B) (M.ncols A)
           (fun r c => if (r <? M.nrows A)%nat then get A r c else get B (r - M.nrows A) c).
  Proof.
    unfold M.v_stack. destruct (Nat.eqb_spec (M.ncols A) (M.ncols B)) as [E|]; [|discriminate]. cbn [negb].
    intros [= <-]. split; [exact E | reflexivity].
  Qed.

  Lemma v_stack_tabs n n' p f g :
    M.v_stack K (M.tab n p f) (M.tab n' p g) =
      Some (M.tab (n + n') p (fun r c => if (r <? n)%nat then f r c else g (r - n)%nat c)).
  Proof.
    unfold M.v_stack. cbn [M.tab M.ncols M.nrows]. rewrite Nat.eqb_refl. cbn [negb]. f_equal.
    apply PB.tab_ext. intros r c Hr Hc. destruct (Nat.ltb_spec r n) as [L|L].
    - apply PB.get_tab; assumption.
    - apply PB.get_tab; [lia | assumption].
  Qed.

  Lemma prod_entry_stack A B Pm r c : M.ncols A = M.ncols B ->
    (r < M.nrows A + M.nrows B)%nat ->
    prod_entry (M.tab (M.nrows A + M.nrows B) (M.ncols A)
                  (fun r c => if (r <? M.nrows A)%nat then get A r c else get B (r - M.nrows A) c)) Pm r c =
    if (r <? M.nrows A)%nat then prod_entry A Pm r c else prod_entry B Pm (r - M.nrows A) c.
  Proof.
    intros E Hr. unfold prod_entry. cbn [M.tab M.ncols]. rewrite <- E.
    destruct (r <? M.nrows A)%nat eqn:L; apply F2.osumn_ext; intros i Hi;
      rewrite PB.get_tab by assumption; rewrite L; reflexivity.
  Qed.

  Theorem tsvd_transform_stack_gen C A B AB TA TB :
    M.v_stack K A B = Some AB -> PC.tsvd_transform K C A = Some TA -> PC.tsvd_transform K C B = Some TB ->
    exists TAB, PC.tsvd_transform K C AB = Some TAB /\ M.v_stack K TA TB = Some TAB.
  Proof.
    intros Hs HA HB. destruct (v_stack_inv _ _ _ Hs) as [E ->].
    destruct (tsvd_transform_inv _ _ _ HA) as [EA ->]. destruct (tsvd_transform_inv _ _ _ HB) as [EB ->].
    eexists. split; [apply tsvd_transform_some; exact EA|].
    rewrite v_stack_tabs. f_equal. cbn [M.tab M.nrows]. apply PB.tab_ext. intros r c Hr Hc.
    symmetry. apply prod_entry_stack; assumption.
  Qed.

  Theorem pca_transform_stack_gen st A B AB TA TB :
    M.v_stack K A B = Some AB -> PC.pca_transform K st A = Some TA -> PC.pca_transform K st B = Some TB ->
    exists TAB, PC.pca_transform K st AB = Some TAB /\ M.v_stack K TA TB = Some TAB.
  Proof.
    intros Hs HA HB. destruct (v_stack_inv _ _ _ Hs) as [E ->].
    destruct (pca_transform_inv _ _ _ HA) as (EA & EA2 & ->). destruct (pca_transform_inv _ _ _ HB) as (EB & EB2 & ->).
    eexists. split; [apply pca_transform_some; [exact EA | exact EA2]|].
    rewrite v_stack_tabs. f_equal. cbn [M.tab M.nrows]. apply PB.tab_ext. intros r c Hr Hc.
    rewrite (prod_entry_stack A B _ r c E Hr). destruct (r <? M.nrows A)%nat; reflexivity.
  Qed.
End Gen.

(* ============================ rounding: binary64 ============================ *)
(* the fitted state of real values *)
Definition RSt (st : PC.pca_st PrimFloat.float) : PC.pca_st R :=
  PC.mkPCA (RM (PC.p_eigenvectors st)) (map FR (PC.p_eigenvalues st)) (RM (PC.p_projection st))
          (map FR (PC.p_mu st)) (map FR (PC.p_pmu st)).

Lemma prod_entry_R (X C : M.dm PrimFloat.float) i c :
  prod_entry ROps (RM X) (RM C) i c =
    Rsuml (map (fun j => FR (M.get FOps X i j) * FR (M.get FOps C j c)) (seq 0 (M.ncols X))).
Proof.
  unfold prod_entry. cbn [RM M.ncols]. rewrite <- F2.osumn_R. apply F2.osumn_ext. intros j _.
  cbn [ROps omul]. rewrite !F2.get_RM. reflexivity.
Qed.

(* truncated SVD: every finite entry of x * C *)
Theorem tsvd_transform_float_error (C X Tm : M.dm PrimFloat.float) (i c : nat) :
  PC.tsvd_transform FOps C X = Some Tm -> (i < M.nrows X)%nat -> (c < M.ncols C)%nat ->
  ffin (M.get FOps Tm i c) ->
  let p := M.ncols X in
  let t := fun j => FR (M.get FOps X i j) * FR (M.get FOps C j c) in
  (forall j, (j < p)%nat -> ffin (M.get FOps X i j) /\ ffin (M.get FOps C j c)) /\
  (exists TR, PC.tsvd_transform ROps (RM C) (RM X) = Some TR /\ M.get ROps TR i c = Rsuml (map t (seq 0 p))) /\
  Rabs (FR (M.get FOps Tm i c) - Rsuml (map t (seq 0 p))) <=
    ((1 + u64) ^ p - 1) * (Rsumabs (map t (seq 0 p)) + INR p * eta64) + INR p * eta64.
Proof.
  intros H Hi Hc Hfin p t.
  destruct (tsvd_transform_inv FOps _ _ _ H) as [E HT].
  assert (Hm : M.matmul FOps X C = Some Tm).
  { unfold PC.tsvd_transform in H. rewrite E, Nat.eqb_refl in H. exact H. }
  destruct (F2.matmul_entry_float_error X C Tm i c Hm Hi Hc Hfin) as (F & _ & B).
  split; [exact F|]. split; [|exact B].
  eexists. split; [apply (tsvd_transform_some ROps (RM C) (RM X)); exact E|].
  rewrite PB.get_tab by assumption. apply prod_entry_R.
Qed.

(* PCA: every finite entry of x * P - pmu *)
Theorem pca_transform_float_error (st : PC.pca_st PrimFloat.float) (X Tm : M.dm PrimFloat.float) (i c : nat) :
  PC.pca_transform FOps st X = Some Tm -> (i < M.nrows X)%nat -> (c < M.ncols (PC.p_projection st))%nat ->
  ffin (M.get FOps Tm i c) ->
  let p := M.ncols X in
  let Pm := PC.p_projection st in
  let m := FR (nth c (PC.p_pmu st) 0%float) in
  let t := fun j => FR (M.get FOps X i j) * FR (M.get FOps Pm j c) in
  let Sv := Rsuml (map t (seq 0 p)) in
  let A := Rsumabs (map t (seq 0 p)) in
  (forall j, (j < p)%nat -> ffin (M.get FOps X i j) /\ ffin (M.get FOps Pm j c)) /\
  ffin (nth c (PC.p_pmu st) 0%float) /\
  (exists TR, PC.pca_transform ROps (RSt st) (RM X) = Some TR /\ M.get ROps TR i c = Sv - m) /\
  Rabs (FR (M.get FOps Tm i c) - (Sv - m)) <=
    u64 * Rabs (Sv - m) + (1 + u64) * (((1 + u64) ^ p - 1) * (A + INR p * eta64) + INR p * eta64) /\
  Rabs (FR (M.get FOps Tm i c) - (Sv - m)) <=
    ((1 + u64) ^ (p + 1) - 1) * (A + INR p * eta64) + INR p * eta64 + u64 * Rabs m.
Proof.
  intros H Hi Hc Hfin p Pm m t Sv A.
  destruct (pca_transform_inv FOps _ _ _ H) as (E & E2 & HT). subst Tm.
  rewrite PB.get_tab in Hfin |- * by assumption. cbn [FOps osub o0] in Hfin |- *.
  destruct (fsub_finite _ _ Hfin) as (Fs & Fm & _).
  pose proof (fsub_error _ _ Hfin) as Hsub. fold m in Hsub.
  unfold prod_entry in Fs, Hsub, Hfin |- *. cbn [FOps omul] in Fs, Hsub, Hfin |- *. fold p Pm in Fs, Hsub, Hfin |- *.
  destruct (F2.osumn_prod_float_error p (fun j => M.get FOps X i j) (fun j => M.get FOps Pm j c) Fs) as (F & _ & B).
  fold t Sv A in B. fold (Eu p) in B |- *. fold (Eu (p + 1)).
  set (s := FR (osumn FOps p (fun j => PrimFloat.mul (M.get FOps X i j) (M.get FOps Pm j c)))) in *.
  set (e := Eu p * (A + INR p * eta64) + INR p * eta64) in *.
  split; [exact F|]. split; [exact Fm|]. split.
  - eexists. split.
    + apply (pca_transform_some ROps (RSt st) (RM X)); cbn [RSt PC.p_mu PC.p_projection RM M.ncols M.nrows];
        [rewrite map_length; exact E | exact E2].
    + cbn [RSt PC.p_projection PC.p_pmu RM M.nrows M.ncols]. rewrite PB.get_tab by assumption.
      rewrite (prod_entry_R X (PC.p_projection st) i c). unfold m. rewrite F2.FR_nth. reflexivity.
  - pose proof (Eu_nonneg p) as Ep. pose proof (Rsumabs_nonneg (map t (seq 0 p))) as An. fold A in An.
    pose proof (pos_INR p) as Pp. pose proof eta64_pos as Et. pose proof u64_pos as Up.
    pose proof (Rabs_pos m) as Mp. pose proof (Rabs_pos (Sv - m)) as SMp.
    assert (Pe : 0 <= INR p * eta64) by nra.
    assert (He : 0 <= e) by (unfold e; nra).
    assert (H1 : Rabs (s - m) <= Rabs (Sv - m) + e).
    { replace (s - m) with ((Sv - m) + (s - Sv)) by ring. eapply Rle_trans; [apply Rabs_triang|]. lra. }
    assert (G1 : Rabs (FR (PrimFloat.sub (osumn FOps p (fun j => PrimFloat.mul (M.get FOps X i j) (M.get FOps Pm j c)))
                                        (nth c (PC.p_pmu st) 0%float)) - (Sv - m)) <= u64 * Rabs (Sv - m) + (1 + u64) * e).
    { match goal with |- Rabs (?a - _) <= _ => replace (a - (Sv - m)) with ((a - (s - m)) + (s - Sv)) by ring end.
      eapply Rle_trans; [apply Rabs_triang|]. nra. }
    split; [exact G1|].
    eapply Rle_trans; [exact G1|].
    assert (HA : Rabs (Sv - m) <= A + Rabs m).
    { unfold Rminus. eapply Rle_trans; [apply Rabs_triang|]. rewrite Rabs_Ropp.
      pose proof (Rsuml_le_Rsumabs (map t (seq 0 p))) as SA. fold Sv A in SA. lra. }
    replace (p + 1)%nat with (Datatypes.S p) by lia. rewrite Eu_S. unfold e. nra.
Qed.

(* ============================ the projected mean stored by fit ============================ *)
(* (every Ops) what the model of fit stores in pmu, in terms of the stored projection and mu *)
Lemma fit_pmu {T} (K : Ops T) (svd evd : PC.fact) data k corr st :
  PC.pca_fit K svd evd data k corr = Some st ->
  M.nrows (PC.p_projection st) = M.ncols data /\ M.ncols (PC.p_projection st) = k /\
  length (PC.p_mu st) = M.ncols data /\
  forall c, (c < k)%nat ->
    nth c (PC.p_pmu st) (o0 K) =
      osumn K (M.ncols data) (fun j => omul K (M.get K (PC.p_projection st) j c) (nth j (PC.p_mu st) (o0 K))).
Proof.
  unfold PC.pca_fit. destruct (M.ncols data <? k)%nat; [discriminate|].
  destruct (PC.pca_eig K svd evd data corr) as [[evals evecs]|]; [|discriminate].
  intros [= <-]. cbn [PC.p_projection PC.p_mu PC.p_pmu].
  split; [reflexivity|]. split; [reflexivity|].
  split; [unfold M.column_mean; rewrite map_length, seq_length; reflexivity|].
  intros c Hc. rewrite F2.nth_map_seq by exact Hc. apply F2.osumn_ext. intros j Hj.
  rewrite (PB.get_transpose K) by (cbn [M.tab M.nrows M.ncols]; assumption). reflexivity.
Qed.

Theorem pca_pmu_float_error (svd evd : PC.fact) (data : M.dm PrimFloat.float) k corr st (c : nat) :
  PC.pca_fit FOps svd evd data k corr = Some st -> (c < k)%nat ->
  ffin (nth c (PC.p_pmu st) 0%float) ->
  let p := M.ncols data in
  let Pm := PC.p_projection st in
  let w := fun j => FR (M.get FOps Pm j c) * FR (nth j (PC.p_mu st) 0%float) in
  (forall j, (j < p)%nat -> ffin (M.get FOps Pm j c) /\ ffin (nth j (PC.p_mu st) 0%float)) /\
  Rabs (FR (nth c (PC.p_pmu st) 0%float) - Rsuml (map w (seq 0 p))) <=
    ((1 + u64) ^ p - 1) * (Rsumabs (map w (seq 0 p)) + INR p * eta64) + INR p * eta64.
Proof.
  intros Hfit Hc Hfin p Pm w.
  destruct (fit_pmu FOps _ _ _ _ _ _ Hfit) as (_ & _ & _ & Hpmu).
  pose proof (Hpmu c Hc) as Hq. cbn [FOps omul o0] in Hq. rewrite Hq in Hfin |- *. fold p Pm in Hfin |- *.
  destruct (F2.osumn_prod_float_error p (fun j => M.get FOps Pm j c) (fun j => nth j (PC.p_mu st) 0%float) Hfin)
    as (F & _ & B).
  split; [exact F | exact B].
Qed.

Lemma Rsuml_map_minus {A} (f g : A -> R) l :
  Rsuml (map (fun a => f a - g a) l) = Rsuml (map f l) - Rsuml (map g l).
Proof. induction l as [|a l IH]; cbn [map Rsuml fold_right]; [lra|]. fold (Rsuml (map (fun a => f a - g a) l)) (Rsuml (map f l)) (Rsuml (map g l)). lra. Qed.

(* fit then transform, both at binary64: every finite score against the affine form (x - mu) P on the real
   values of the stored mu and projection *)
Theorem pca_transform_affine_float_error (svd evd : PC.fact) (data : M.dm PrimFloat.float) k corr st
    (X Tm : M.dm PrimFloat.float) (i c : nat) :
  PC.pca_fit FOps svd evd data k corr = Some st ->
  PC.pca_transform FOps st X = Some Tm -> (i < M.nrows X)%nat -> (c < k)%nat ->
  ffin (M.get FOps Tm i c) ->
  let p := M.ncols X in
  let Pm := PC.p_projection st in
  let mu := fun j => FR (nth j (PC.p_mu st) 0%float) in
  let x := fun j => FR (M.get FOps X i j) in
  let A := Rsumabs (map (fun j => x j * FR (M.get FOps Pm j c)) (seq 0 p)) in
  let B := Rsumabs (map (fun j => FR (M.get FOps Pm j c) * mu j) (seq 0 p)) in
  p = M.ncols data /\
  (forall j, (j < p)%nat -> ffin (M.get FOps X i j) /\ ffin (M.get FOps Pm j c) /\ ffin (nth j (PC.p_mu st) 0%float)) /\
  Rabs (FR (M.get FOps Tm i c) - Rsuml (map (fun j => (x j - mu j) * FR (M.get FOps Pm j c)) (seq 0 p))) <=
    ((1 + u64) ^ (p + 1) - 1) * (A + B + 2 * INR p * eta64) + 2 * INR p * eta64.
Proof.
  intros Hfit Htr Hi Hc Hfin p Pm mu x A B.
  destruct (fit_pmu FOps _ _ _ _ _ _ Hfit) as (Hr & Hk & Hl & _).
  destruct (pca_transform_inv FOps _ _ _ Htr) as (E & _ & _).
  assert (Hp : p = M.ncols data) by (unfold p; congruence).
  assert (Hc' : (c < M.ncols (PC.p_projection st))%nat) by (rewrite Hk; exact Hc).
  destruct (pca_transform_float_error st X Tm i c Htr Hi Hc' Hfin) as (F1 & Fm & _ & _ & G).
  fold p Pm in F1, G. fold (Eu (p + 1)) in G |- *.
  destruct (pca_pmu_float_error svd evd data k corr st c Hfit Hc Fm) as (F2' & G2).
  rewrite <- Hp in F2', G2. fold Pm in F2', G2. fold (Eu p) in G2.
  split; [exact Hp|]. split.
  - intros j Hj. destruct (F1 j Hj) as [a b]. destruct (F2' j Hj) as [_ d]. repeat split; assumption.
  - change (fun j => FR (M.get FOps X i j) * FR (M.get FOps Pm j c)) with (fun j => x j * FR (M.get FOps Pm j c)) in G.
    fold A in G.
    change (fun j => FR (M.get FOps Pm j c) * FR (nth j (PC.p_mu st) 0%float))
      with (fun j => FR (M.get FOps Pm j c) * mu j) in G2. fold B in G2.
    set (Sx := Rsuml (map (fun j => x j * FR (M.get FOps Pm j c)) (seq 0 p))) in *.
    set (U := Rsuml (map (fun j => FR (M.get FOps Pm j c) * mu j) (seq 0 p))) in *.
    set (m := FR (nth c (PC.p_pmu st) 0%float)) in *.
    assert (EZ : Rsuml (map (fun j => (x j - mu j) * FR (M.get FOps Pm j c)) (seq 0 p)) = Sx - U).
    { unfold Sx, U. rewrite <- Rsuml_map_minus. f_equal. apply map_ext. intros j. ring. }
    rewrite EZ.
    pose proof (Eu_nonneg p) as Ep. pose proof (pos_INR p) as Pp. pose proof eta64_pos as Et.
    pose proof u64_pos as Up.
    assert (An : 0 <= A) by apply Rsumabs_nonneg. assert (Bn : 0 <= B) by apply Rsumabs_nonneg.
    assert (UB : Rabs U <= B) by apply Rsuml_le_Rsumabs.
    assert (Pe : 0 <= INR p * eta64) by nra.
    set (e2 := Eu p * (B + INR p * eta64) + INR p * eta64) in *.
    assert (He2 : 0 <= e2) by (unfold e2; nra).
    assert (Hm : Rabs m <= B + e2).
    { replace m with (U + (m - U)) by ring. eapply Rle_trans; [apply Rabs_triang|]. lra. }
    replace (FR (M.get FOps Tm i c) - (Sx - U)) with ((FR (M.get FOps Tm i c) - (Sx - m)) + (U - m)) by ring.
    eapply Rle_trans; [apply Rabs_triang|]. rewrite (Rabs_minus_sym U m).
    assert (K2 : u64 * (B + e2) + e2 = Eu (p + 1) * (B + INR p * eta64) + INR p * eta64).
    { replace (p + 1)%nat with (Datatypes.S p) by lia. rewrite Eu_S. unfold e2. ring. }
    assert (K1 : u64 * Rabs m <= u64 * (B + e2)) by nra.
    assert (K3 : Eu (p + 1) * (A + B + 2 * INR p * eta64) =
                 Eu (p + 1) * (A + INR p * eta64) + Eu (p + 1) * (B + INR p * eta64)) by ring.
    lra.
Qed.

(* ============================ exact scale invariance (truncated SVD) ============================ *)
From Flocq Require Import Core.

(* a sum of products whose terms are all scaled by exactly 2^e (no product rounded differently: none
   underflows before or after) is scaled by exactly 2^e — whatever the signs and the cancellation *)
Lemma osumn_prod_scale_exact (e : Z) n (f g f' g' : nat -> PrimFloat.float) :
  ffin (osumn FOps n (fun k => PrimFloat.mul (f k) (g k))) ->
  ffin (osumn FOps n (fun k => PrimFloat.mul (f' k) (g' k))) ->
  (forall k, (k < n)%nat ->
     FR (f' k) * FR (g' k) = FR (f k) * FR (g k) * bpow radix2 e /\
     (FR (f k) * FR (g k) = 0 \/
      (bpow radix2 (-1022) <= Rabs (FR (f k) * FR (g k)) /\
       bpow radix2 (-1022) <= Rabs (FR (f k) * FR (g k) * bpow radix2 e)))) ->
  FR (osumn FOps n (fun k => PrimFloat.mul (f' k) (g' k))) =
    FR (osumn FOps n (fun k => PrimFloat.mul (f k) (g k))) * bpow radix2 e.
Proof.
  intros Hf Hf' Hall. rewrite !F2.osumn_F in *. unfold fsum in *.
  apply (F2.fold_fadd_scaled e); try assumption; [|apply F2.scaled_zero].
  apply F2.Forall2_map_in. intros k Hk. apply in_seq in Hk. destruct (Hall k) as [Hs Hn]; [lia|].
  unfold F2.scaled.
  destruct (fold_fadd_finite_acc _ _ Hf) as [_ A]. destruct (fold_fadd_finite_acc _ _ Hf') as [_ A'].
  rewrite Forall_forall in A, A'.
  assert (Hin : forall (h : nat -> PrimFloat.float), In (h k) (map h (seq 0 n))).
  { intros h. apply in_map, in_seq. lia. }
  destruct (fmul_finite _ _ (A _ (Hin (fun k => PrimFloat.mul (f k) (g k))))) as (_ & _ & E).
  destruct (fmul_finite _ _ (A' _ (Hin (fun k => PrimFloat.mul (f' k) (g' k))))) as (_ & _ & E').
  rewrite E, E', Hs. apply F2.rnd64_scale_normal. exact Hn.
Qed.

(* the unit of the data (2^a) and of the components (2^b) factors out of x * C EXACTLY: same significands *)
Theorem tsvd_transform_scale_pow2_exact (a b : Z) (C C' X X' Tm Tm' : M.dm PrimFloat.float) (i c : nat) :
  PC.tsvd_transform FOps C X = Some Tm -> PC.tsvd_transform FOps C' X' = Some Tm' ->
  M.ncols X' = M.ncols X ->
  (i < M.nrows X)%nat -> (i < M.nrows X')%nat -> (c < M.ncols C)%nat -> (c < M.ncols C')%nat ->
  ffin (M.get FOps Tm i c) -> ffin (M.get FOps Tm' i c) ->
  (forall j, (j < M.ncols X)%nat ->
     FR (M.get FOps X' i j) = FR (M.get FOps X i j) * powerRZ 2 a /\
     FR (M.get FOps C' j c) = FR (M.get FOps C j c) * powerRZ 2 b /\
     let t := FR (M.get FOps X i j) * FR (M.get FOps C j c) in
     (t = 0 \/ (/ 2 ^ 1022 <= Rabs t /\ / 2 ^ 1022 <= Rabs (t * powerRZ 2 (a + b))))) ->
  FR (M.get FOps Tm' i c) = FR (M.get FOps Tm i c) * powerRZ 2 (a + b).
Proof.
  intros H H' Ep Hi Hi' Hc Hc' Hf Hf' Hall.
  destruct (tsvd_transform_inv FOps _ _ _ H) as [_ ->]. destruct (tsvd_transform_inv FOps _ _ _ H') as [_ ->].
  rewrite PB.get_tab in Hf by assumption. rewrite PB.get_tab in Hf' by assumption.
  rewrite !PB.get_tab by assumption.
  unfold prod_entry in *. rewrite Ep in *. cbn [FOps omul] in *.
  change 2 with (IZR radix2) in *. rewrite <- !bpow_powerRZ in *.
  apply (osumn_prod_scale_exact (a + b) (M.ncols X) (fun j => M.get FOps X i j) (fun j => M.get FOps C j c)
           (fun j => M.get FOps X' i j) (fun j => M.get FOps C' j c)); try assumption.
  intros j Hj. destruct (Hall j Hj) as (Hx & Hcc & Hn). cbv zeta in Hn. split.
  - rewrite Hx, Hcc, bpow_plus. ring.
  - rewrite F2.bpow_m1022. exact Hn.
Qed.

(* ============================ instances (non-vacuity; evaluated by vm_compute in Properties/C14.v) ============ *)
(* entries 0.1, 0.2, 0.3, 0.7, 0.6, 0.8 ...: none is a binary fraction, every operation rounds *)
Definition exf_X : M.dm PrimFloat.float :=           (* rows (0.1, 0.3) and (0.2, 0.7) *)
  M.mkdm 2 2 [0x1.999999999999ap-4; 0x1.999999999999ap-3; 0x1.3333333333333p-2; 0x1.6666666666666p-1]%float.
Definition exf_Y : M.dm PrimFloat.float :=           (* one row (0.2, 0.7) = row 1 of exf_X *)
  M.mkdm 1 2 [0x1.999999999999ap-3; 0x1.6666666666666p-1]%float.
Definition exf_C : M.dm PrimFloat.float :=           (* one component (0.6, -0.8) *)
  M.mkdm 2 1 [0x1.3333333333333p-1; (-0x1.999999999999ap-1)]%float.
Definition exf_data : M.dm PrimFloat.float :=        (* 3 x 2 training data: SVD path *)
  M.mkdm 3 2 [0x1.999999999999ap-4; 0x1.999999999999ap-3; 0x1.3333333333333p-2;
              0x1.3333333333333p-2; 0x1.6666666666666p-1; 0x1.999999999999ap-4]%float.
(* a factorisation returning s = (2, 1) and the rotation V = [[0.6, -0.8], [0.8, 0.6]] *)
Definition exf_svd : @PC.fact PrimFloat.float :=
  fun _ => Some ([2; 1]%float,
                 M.mkdm 2 2 [0x1.3333333333333p-1; 0x1.999999999999ap-1; (-0x1.999999999999ap-1); 0x1.3333333333333p-1]%float).
Definition exf_evd : @PC.fact PrimFloat.float := fun _ => None.

(* an instance of the hypotheses of tsvd_transform_scale_pow2_exact: data rows (3,5), (1,2) and component (2,7);
   data scaled by 2^1, component by 2^2 *)
Definition exs_X : M.dm PrimFloat.float := M.mkdm 2 2 [3; 1; 5; 2]%float.
Definition exs_X' : M.dm PrimFloat.float := M.mkdm 2 2 [6; 2; 10; 4]%float.
Definition exs_C : M.dm PrimFloat.float := M.mkdm 2 1 [2; 7]%float.
Definition exs_C' : M.dm PrimFloat.float := M.mkdm 2 1 [8; 28]%float.

Lemma ex_tsvd_scale :
  exists Tm Tm', PC.tsvd_transform FOps exs_C exs_X = Some Tm /\ PC.tsvd_transform FOps exs_C' exs_X' = Some Tm' /\
    M.ncols exs_X' = M.ncols exs_X /\
    (0 < M.nrows exs_X)%nat /\ (0 < M.nrows exs_X')%nat /\ (0 < M.ncols exs_C)%nat /\ (0 < M.ncols exs_C')%nat /\
    ffin (M.get FOps Tm 0 0) /\ ffin (M.get FOps Tm' 0 0) /\
    (forall j, (j < M.ncols exs_X)%nat ->
       FR (M.get FOps exs_X' 0 j) = FR (M.get FOps exs_X 0 j) * powerRZ 2 1 /\
       FR (M.get FOps exs_C' j 0) = FR (M.get FOps exs_C j 0) * powerRZ 2 2 /\
       let t := FR (M.get FOps exs_X 0 j) * FR (M.get FOps exs_C j 0) in
       (t = 0 \/ (/ 2 ^ 1022 <= Rabs t /\ / 2 ^ 1022 <= Rabs (t * powerRZ 2 (1 + 2))))).
Proof.
  do 2 eexists. split; [vm_compute; reflexivity|]. split; [vm_compute; reflexivity|].
  split; [reflexivity|]. do 4 (split; [vm_compute; lia|]).
  split; [vm_compute; reflexivity|]. split; [vm_compute; reflexivity|].
  assert (Hsmall : / 2 ^ 1022 <= 1).
  { assert (1 <= 2 ^ 1022) by (apply pow_R1_Rle; lra).
    apply (Rmult_le_reg_r (2 ^ 1022)); [lra|]. rewrite Rinv_l by lra. lra. }
  assert (F : forall z, (0 <= z < 2 ^ 53)%Z -> FR (float_of_Z z) = IZR z).
  { intros z Hz. apply (float_of_Z_exact z Hz). }
  change (powerRZ 2 1) with (2 * 1). change (powerRZ 2 2) with (2 * (2 * 1)).
  change (powerRZ 2 (1 + 2)) with (2 * (2 * (2 * 1))).
  intros j Hj. change (j < 2)%nat in Hj. cbv zeta.
  destruct j as [|[|j]]; [| |lia].
  - change (M.get FOps exs_X' 0 0) with (float_of_Z 6). change (M.get FOps exs_X 0 0) with (float_of_Z 3).
    change (M.get FOps exs_C' 0 0) with (float_of_Z 8). change (M.get FOps exs_C 0 0) with (float_of_Z 2).
    rewrite !F by lia. split; [lra|]. split; [lra|]. right. rewrite !Rabs_pos_eq by lra. lra.
  - change (M.get FOps exs_X' 0 1) with (float_of_Z 10). change (M.get FOps exs_X 0 1) with (float_of_Z 5).
    change (M.get FOps exs_C' 1 0) with (float_of_Z 28). change (M.get FOps exs_C 1 0) with (float_of_Z 7).
    rewrite !F by lia. split; [lra|]. split; [lra|]. right. rewrite !Rabs_pos_eq by lra. lra.
Qed.
