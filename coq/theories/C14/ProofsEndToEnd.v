(* C14 — END-TO-END corollaries in exact arithmetic: the `svd` / `evd` arguments of the PCA / truncated
   SVD models instantiated with C01's model of svd_mut (src/linalg/svd.rs) and C02's model of evd(true)
   (tred2 + QL sweeps + sort, src/linalg/evd.rs) over the reals with eps := 0, and the hypotheses
   pca_fact_ok / tsvd_fact_ok DISCHARGED from C01's svd_mut_correct and C02's evd_sym_partial_correct.
   What remains assumed is only that the factorisation model RETURNED (convergence of the sweeps is not
   proved) and, for the SVD, C01's `bd_regular` side condition on the bidiagonal entries.
   Also proved here: a square matrix with orthonormal columns has orthonormal rows (needed because
   C02's statement gives V^T V = I only). *)
From Coq Require Import List Arith Bool Lia Reals Lra Psatz.
From SC Require Import Base.Num C03.Model C03.ProofsBase C03.ProofsRed.
From SC Require Import C14.Model C14.ProofsLin C14.ProofsModel C14.ProofsPCA C14.ProofsTSVD.
From SC Require C01.Model C01.Proofs C01.Proofs_svd C01.Proofs_svd_bidiag C01.Proofs_svd_accum C01.Proofs_svd_iter.
From SC Require C02.Validator C02.FunMat C02.ModelSymEvd C02.ProofsTql2Sweep C02.ProofsSymEvd C02.ProofsValid.
Import ListNotations.
Local Open Scope R_scope.
Local Notation get := (C03.Model.get ROps).

(* ---------- square orthonormal columns => orthonormal rows ---------- *)
Lemma rsum_nonneg_zero n f : (forall i, (i < n)%nat -> 0 <= f i) -> rsum n f = 0 ->
  forall i, (i < n)%nat -> f i = 0.
Proof.
  induction n as [|n IH]; intros Hf Hs i Hi; [lia|].
  rewrite rsum_S in Hs.
  assert (H1 : 0 <= rsum n f) by (apply rsum_nonneg; intros; apply Hf; lia).
  assert (H2 : 0 <= f n) by (apply Hf; lia).
  destruct (Nat.eq_dec i n) as [->|Hne]; [lra|].
  apply IH; [intros; apply Hf; lia|lra|lia].
Qed.

Lemma bessel_identity p k (Q : Mx) (u : nat -> R) :
  orthocols p k Q ->
  let al := fun a => rsum p (fun i => Q i a * u i) in
  rsum p (fun i => (u i - rsum k (fun a => Q i a * al a)) * (u i - rsum k (fun a => Q i a * al a)))
  = rsum p (fun i => u i * u i) - rsum k (fun a => al a * al a).
Proof.
  intros HQ al.
  set (W := fun (a : nat) (_ : nat) => al a).
  change (rsum p (fun i => (u i - mmul k Q W i 0%nat) * (u i - mmul k Q W i 0%nat))
          = rsum p (fun i => u i * u i) - rsum k (fun a => al a * al a)).
  assert (H2 : rsum p (fun i => mmul k Q W i 0%nat * mmul k Q W i 0%nat) = rsum k (fun a => al a * al a)).
  { rewrite scores_gram. apply rsum_ext. intros a Ha. unfold W. f_equal.
    rewrite (rsum_ext k _ (fun b => delta a b * al b)).
    2:{ intros b Hb. unfold gramm. rewrite (HQ a b Ha Hb). reflexivity. }
    apply (rsum_delta_l k a al). exact Ha. }
  assert (H1 : rsum p (fun i => u i * mmul k Q W i 0%nat) = rsum k (fun a => al a * al a)).
  { unfold mmul, W.
    rewrite (rsum_ext p _ (fun i => rsum k (fun a => al a * (Q i a * u i)))).
    2:{ intros i _. rewrite <- rsum_scal. apply rsum_ext. intros; ring. }
    rewrite rsum_swap. apply rsum_ext. intros a _. rewrite rsum_scal. reflexivity. }
  rewrite (rsum_ext p _ (fun i => (-2) * (u i * mmul k Q W i 0%nat)
                                  + (u i * u i + mmul k Q W i 0%nat * mmul k Q W i 0%nat)))
    by (intros; ring).
  rewrite rsum_lin, rsum_plus, H1, H2. ring.
Qed.

Theorem orthocols_square_orthorows p (V : Mx) : orthocols p p V -> orthorows p V.
Proof.
  intros HV.
  set (rowsq := fun i => rsum p (fun a => V i a * V i a)).
  (* coefficients of e_i on the columns are the entries of row i *)
  assert (Hal : forall i a, (i < p)%nat -> rsum p (fun t => V t a * delta t i) = V i a).
  { intros i a Hi. apply (rsum_delta_r p i (fun t => V t a)). exact Hi. }
  assert (He : forall i, (i < p)%nat -> rsum p (fun t => delta t i * delta t i) = 1).
  { intros i Hi. rewrite (rsum_delta_r p i (fun t => delta t i) Hi). unfold delta. rewrite Nat.eqb_refl. reflexivity. }
  assert (Hle : forall i, (i < p)%nat -> rowsq i <= 1).
  { intros i Hi. pose proof (bessel p p V (fun t => delta t i) HV) as B. cbv beta in B. rewrite (He i Hi) in B.
    rewrite (rsum_ext p _ (fun a => V i a * V i a)) in B; [exact B|].
    intros a _. rewrite (Hal i a Hi). reflexivity. }
  assert (Hsum : rsum p rowsq = INR p).
  { unfold rowsq. rewrite rsum_swap. rewrite (rsum_ext p _ (fun _ => 1)); [rewrite rsum_const; ring|].
    intros a Ha. rewrite (HV a a Ha Ha). unfold delta. rewrite Nat.eqb_refl. reflexivity. }
  assert (Hone : forall i, (i < p)%nat -> rowsq i = 1).
  { intros i Hi.
    assert (Z : rsum p (fun t => 1 - rowsq t) = 0) by (rewrite rsum_minus, rsum_const, Hsum; ring).
    assert (NN : forall t, (t < p)%nat -> 0 <= 1 - rowsq t) by (intros t Ht; pose proof (Hle t Ht); lra).
    pose proof (rsum_nonneg_zero p (fun t => 1 - rowsq t) NN Z i Hi) as E.
    cbv beta in E. lra. }
  intros i j Hi Hj.
  pose proof (bessel_identity p p V (fun t => delta t i) HV) as B. cbv beta zeta in B.
  rewrite (He i Hi) in B.
  rewrite (rsum_ext p (fun a => rsum p (fun t => V t a * delta t i) * rsum p (fun t => V t a * delta t i))
                    (fun a => V i a * V i a)) in B
    by (intros a _; rewrite (Hal i a Hi); reflexivity).
  fold (rowsq i) in B. rewrite (Hone i Hi) in B.
  assert (Z : forall t, (t < p)%nat ->
     (delta t i - rsum p (fun a => V t a * rsum p (fun s => V s a * delta s i)))
     * (delta t i - rsum p (fun a => V t a * rsum p (fun s => V s a * delta s i))) = 0).
  { apply (rsum_nonneg_zero p (fun t =>
       (delta t i - rsum p (fun a => V t a * rsum p (fun s => V s a * delta s i)))
       * (delta t i - rsum p (fun a => V t a * rsum p (fun s => V s a * delta s i))))).
    - intros t _. match goal with |- 0 <= ?x * ?x => generalize x; intros y; nra end.
    - rewrite B. lra. }
  specialize (Z j Hj).
  rewrite (rsum_ext p (fun a => V j a * rsum p (fun s => V s a * delta s i)) (fun a => V i a * V j a)) in Z
    by (intros a _; rewrite (Hal i a Hi); ring).
  rewrite (delta_sym i j). nra.
Qed.

(* ---------- the factorisation models as `fact` arguments ---------- *)
(* C01's svd_mut over R with the negligibility threshold eps := 0; cs = copysign, minpos = T::min_positive *)
Definition svd_fact (cs : R -> R -> R) (minpos : R) : @fact R := fun C =>
  let m := nrows C in let n := ncols C in
  match C01.Model.svd_mut ROps 0 cs minpos m n (fun i j => get C i j) with
  | None => None
  | Some st => Some (map (C01.Model.sw st) (seq 0 n), tab n n (C01.Model.sV st))
  end.
(* C02's evd_sym_model over R with eps := 0 and the exact hypot; the ghost flag must be true *)
Definition evd_fact : @fact R := fun C =>
  let n := ncols C in
  match C02.ModelSymEvd.evd_sym_model ROps C02.ProofsTql2Sweep.hypR 0 (C02.FunMat.mrows n (fun i j => get C i j)) with
  | Some (V, d, e, true) => Some (d, tab n n (C02.FunMat.mfun 0 V))
  | _ => None
  end.

Lemma noninc_adjacent p (lam : nat -> R) :
  (forall j, (S j < p)%nat -> lam (S j) <= lam j) -> noninc p lam.
Proof.
  intros H i j Hij Hj. induction j as [|j IH].
  - replace i with 0%nat by lia. lra.
  - destruct (Nat.eq_dec i (S j)) as [->|Hne]; [lra|].
    apply Rle_trans with (lam j); [apply H; lia|apply IH; lia].
Qed.

(* C01's post-condition in the form fact_ok wants (tall or square matrices) *)
Lemma svd_fact_ok cs minpos (C : dm R) s V :
  (ncols C <= nrows C)%nat -> 0 < minpos -> C01.Proofs_svd_bidiag.cs_spec cs ->
  C01.Proofs_svd_accum.bd_regular minpos (ncols C)
     (C01.Proofs_svd_accum.svd_bd cs (nrows C) (ncols C) (fun i j => get C i j)) ->
  svd_fact cs minpos C = Some (s, V) ->
  fact_ok (ncols C) (gramm (nrows C) (get C)) (fun c => lam_of s c * lam_of s c) V.
Proof.
  intros Hnm Hmp Hcs Hreg Hrun. unfold svd_fact in Hrun.
  set (m := nrows C) in *. set (n := ncols C) in *.
  destruct (C01.Model.svd_mut ROps 0 cs minpos m n (fun i j => get C i j)) as [st|] eqn:E; [|discriminate].
  injection Hrun as <- <-.
  destruct (C01.Proofs_svd_iter.svd_mut_correct minpos cs m n _ st Hnm Hmp Hcs Hreg E)
    as (OU & OV & HA & Hs0 & Hsn & OR).
  assert (Hl : forall c, (c < n)%nat -> lam_of (map (C01.Model.sw st) (seq 0 n)) c = C01.Model.sw st c).
  { intros c Hc. unfold lam_of. apply nth_map_seq. exact Hc. }
  assert (Hg : forall i j, (i < n)%nat -> (j < n)%nat -> get (tab n n (C01.Model.sV st)) i j = C01.Model.sV st i j).
  { intros i j Hi Hj. apply get_tab; assumption. }
  unfold fact_ok. split; [reflexivity|]. split; [reflexivity|]. split; [apply tab_wf|].
  split; [|split; [|split]].
  - intros a b Ha Hb. unfold delta. rewrite <- (OV a b Ha Hb). apply rsum_ext. intros i Hi. rewrite !Hg by assumption. reflexivity.
  - intros a b Ha Hb. unfold delta. rewrite <- (OR a b Ha Hb). apply rsum_ext. intros i Hi. rewrite !Hg by assumption. reflexivity.
  - apply (eigcols_ext n n (gramm m (get C)) (gramm m (get C)) (C01.Model.sV st) _
             (fun c => C01.Model.sw st c * C01.Model.sw st c)); try (intros; reflexivity).
    + intros i c Hi Hc. apply Hg; assumption.
    + intros c Hc. rewrite (Hl c Hc). reflexivity.
    + apply (svd_gives_eig m n (get C) (C01.Model.sU st) (C01.Model.sV st) (C01.Model.sw st)).
      * intros r i Hr Hi. rewrite <- (HA r i Hr Hi). unfold C01.Proofs_svd.svd_A.
        apply rsum_ext. intros; ring.
      * exact OU.
      * exact OV.
  - intros i j Hij Hj. rewrite (Hl i), (Hl j) by lia.
    assert (0 <= C01.Model.sw st j) by (apply Hs0; lia).
    assert (C01.Model.sw st j <= C01.Model.sw st i) by (apply Hsn; lia). nra.
Qed.

(* C02's post-condition in the form fact_ok wants (symmetric matrices) *)
Lemma evd_fact_ok (C : dm R) d V :
  (forall i j, (i < ncols C)%nat -> (j < ncols C)%nat -> get C i j = get C j i) ->
  evd_fact C = Some (d, V) ->
  fact_ok (ncols C) (get C) (lam_of d) V.
Proof.
  intros Hsym Hrun. unfold evd_fact in Hrun. set (n := ncols C) in *.
  set (A := C02.FunMat.mrows n (fun i j => get C i j)) in *.
  destruct (C02.ModelSymEvd.evd_sym_model ROps C02.ProofsTql2Sweep.hypR 0 A) as [[[[V0 d0] e0] [|]]|] eqn:E; try discriminate.
  injection Hrun as <- <-.
  assert (HlenA : length A = n) by apply C02.FunMat.mrows_length.
  assert (HAsq : C02.Validator.square n A) by apply C02.ProofsSymEvd.square_mrows.
  assert (HAget : forall i j, (i < n)%nat -> (j < n)%nat -> C02.FunMat.mfun 0 A i j = get C i j).
  { intros i j Hi Hj. unfold A. apply C02.FunMat.mfun_mrows; assumption. }
  pose proof (C02.ProofsSymEvd.evd_sym_partial_correct A V0 d0 e0) as P. cbv zeta in P. rewrite HlenA in P.
  assert (Hok : C02.Validator.evd_sym_ok 0 A V0 d0 e0).
  { apply P; [exact HAsq| |exact E].
    intros i j Hi Hj. change (C02.FunMat.mfun 0 A i j = C02.FunMat.mfun 0 A j i).
    rewrite !HAget by assumption. apply Hsym; assumption. }
  pose proof (C02.ProofsValid.evd_sym_ok_exact A V0 d0 e0 Hok) as X. rewrite HlenA in X.
  destruct Hok as (_ & HVsq & Hd & _ & _ & _ & Hsorted & _). rewrite HlenA in HVsq, Hd, Hsorted.
  assert (Hg : forall i j, (i < n)%nat -> (j < n)%nat -> get (tab n n (C02.FunMat.mfun 0 V0)) i j = C02.FunMat.mfun 0 V0 i j).
  { intros i j Hi Hj. apply get_tab; assumption. }
  assert (OC : orthocols n n (get (tab n n (C02.FunMat.mfun 0 V0)))).
  { intros a b Ha Hb. destruct (X a b Ha Hb) as [_ G].
    rewrite (C02.ProofsSymEvd.rdot_cols n V0 a b HVsq) in G. unfold delta. rewrite <- G.
    unfold C02.FunMat.mmul, C02.FunMat.mtr. apply rsum_ext. intros i Hi. rewrite !Hg by assumption. reflexivity. }
  unfold fact_ok. split; [reflexivity|]. split; [reflexivity|]. split; [apply tab_wf|].
  split; [exact OC|]. split; [apply orthocols_square_orthorows; exact OC|]. split.
  - intros i c Hi Hc. destruct (X i c Hi Hc) as [Rz _].
    rewrite (C02.ProofsSymEvd.rdot_row_col n A V0 i c HAsq HVsq Hi) in Rz.
    rewrite C02.ProofsSymEvd.nth_rcol_mfun in Rz. rewrite (Hg i c Hi Hc). unfold lam_of. rewrite <- Rz.
    unfold C02.FunMat.mmul. apply rsum_ext. intros j Hj. rewrite (Hg j c Hj Hc), (HAget i j Hi Hj). reflexivity.
  - apply noninc_adjacent. intros j Hj. apply Hsorted. exact Hj.
Qed.

(* the matrices PCA hands to evd(true) are symmetric *)
Lemma cov_n_sym (x : dm R) i j : (i < ncols x)%nat -> (j < ncols x)%nat ->
  get (cov_n ROps x) i j = get (cov_n ROps x) j i.
Proof.
  intros Hi Hj. unfold cov_n. rewrite !get_tab by assumption.
  rewrite (Nat.max_comm j i), (Nat.min_comm j i). reflexivity.
Qed.
Lemma cor_of_sym (cv : dm R) sd i j : (i < ncols cv)%nat -> (j < ncols cv)%nat ->
  get (cor_of ROps cv sd) i j = get (cor_of ROps cv sd) j i.
Proof.
  intros Hi Hj. unfold cor_of. rewrite !get_tab by assumption.
  rewrite (Nat.max_comm j i), (Nat.min_comm j i). reflexivity.
Qed.

(* the side condition C01's theorem needs on the SVD path: regular bidiagonal entries of the centred data *)
Definition pca_svd_regular (cs : R -> R -> R) (minpos : R) (X : dm R) (corr : bool) : Prop :=
  svd_path X corr = true ->
  C01.Proofs_svd_accum.bd_regular minpos (ncols X)
    (C01.Proofs_svd_accum.svd_bd cs (nrows X) (ncols X)
       (fun i j => get (centre ROps X (column_mean ROps X)) i j)).

Theorem pca_fact_ok_end_to_end cs minpos X corr :
  0 < minpos -> C01.Proofs_svd_bidiag.cs_spec cs -> pca_svd_regular cs minpos X corr ->
  pca_fact_ok (svd_fact cs minpos) evd_fact X corr.
Proof.
  intros Hmp Hcs Hreg. unfold pca_fact_ok, pca_svd_regular in *.
  destruct (svd_path X corr) eqn:Hp.
  - intros s V Hrun. unfold svd_path in Hp. apply andb_prop in Hp. destruct Hp as [Hpn Hc].
    apply Nat.ltb_lt in Hpn. destruct corr; [discriminate|].
    unfold pca_fact_input in *. cbn [negb] in *. rewrite andb_true_r in *.
    apply Nat.ltb_lt in Hpn. rewrite Hpn in *. apply Nat.ltb_lt in Hpn.
    set (Xc := centre ROps X (column_mean ROps X)) in *.
    apply (svd_fact_ok cs minpos Xc s V); try assumption.
    + change (ncols Xc) with (ncols X). change (nrows Xc) with (nrows X). lia.
    + apply Hreg. reflexivity.
  - intros d V Hrun. unfold pca_fact_input in *. unfold svd_path in Hp. rewrite Hp in *.
    destruct corr.
    + refine (evd_fact_ok _ d V _ Hrun). intros i j Hi Hj. apply cor_of_sym; assumption.
    + refine (evd_fact_ok _ d V _ Hrun). intros i j Hi Hj. apply cov_n_sym; assumption.
Qed.

Theorem tsvd_fact_ok_end_to_end cs minpos X :
  (ncols X <= nrows X)%nat -> 0 < minpos -> C01.Proofs_svd_bidiag.cs_spec cs ->
  C01.Proofs_svd_accum.bd_regular minpos (ncols X)
    (C01.Proofs_svd_accum.svd_bd cs (nrows X) (ncols X) (fun i j => get X i j)) ->
  tsvd_fact_ok (svd_fact cs minpos) X.
Proof. intros Hnm Hmp Hcs Hreg s V Hrun. apply (svd_fact_ok cs minpos X s V); assumption. Qed.

(* ---------- an instance on which the modelled SVD provably returns: any single-column data set ---------- *)
Definition copysignR (a f : R) : R := if Rlt_dec f 0 then - Rabs a else Rabs a.
Lemma copysignR_spec : C01.Proofs_svd_bidiag.cs_spec copysignR.
Proof. intros a f. reflexivity. Qed.

Lemma single_column_end_to_end (X : dm R) :
  ncols X = 1%nat -> (2 <= nrows X)%nat ->
  exists minpos st, 0 < minpos /\ pca_svd_regular copysignR minpos X false /\
    pca_fit ROps (svd_fact copysignR minpos) evd_fact X 1 false = Some st.
Proof.
  intros Hp Hn. destruct X as [n p vals]. cbn [ncols nrows] in Hp, Hn. subst p.
  set (X := mkdm n 1 vals).
  set (Xc := centre ROps X (column_mean ROps X)).
  destruct (C01.Proofs_svd_iter.svd_column_instance copysignR n (fun i j => get Xc i j) copysignR_spec ltac:(lia))
    as (minpos & st0 & Hmp & Hreg & Hrun).
  assert (Hsv : svd_fact copysignR minpos Xc
                = Some (map (C01.Model.sw st0) (seq 0 1), tab 1 1 (C01.Model.sV st0))).
  { unfold svd_fact. change (nrows Xc) with n. change (ncols Xc) with 1%nat. rewrite Hrun. reflexivity. }
  exists minpos. eexists. split; [exact Hmp|]. split.
  - intros _. exact Hreg.
  - unfold pca_fit, pca_eig. change (ncols X) with 1%nat. change (nrows X) with n.
    assert (E : (1 <? n)%nat = true) by (apply Nat.ltb_lt; lia).
    rewrite E. cbn [Nat.ltb Nat.leb andb negb]. fold X. fold Xc. rewrite Hsv. reflexivity.
Qed.
