(* C14 — shape-level facts about the models (rejections). *)
From Coq Require Import List Arith Bool Lia.
From SC Require Import Base.Num C03.Model C14.Model.
Import ListNotations.

Lemma tsvd_rejects {T} (K : Ops T) (svd : fact) (x : dm T) (k : nat) :
  ncols x <= k -> tsvd_fit K svd x k = None.
Proof. intros H. unfold tsvd_fit. apply Nat.leb_le in H. rewrite H. reflexivity. Qed.

Lemma pca_rejects {T} (K : Ops T) (svd evd : fact) (x : dm T) (k : nat) (c : bool) :
  ncols x < k -> pca_fit K svd evd x k c = None.
Proof. intros H. unfold pca_fit. apply Nat.ltb_lt in H. rewrite H. reflexivity. Qed.
