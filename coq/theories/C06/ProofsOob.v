(* C06 — the out-of-bag clause for fitted forests in one statement: the list of bootstrap samples the
   member trees were grown on exists as an object, the stored masks are their supports, and entry i
   of predict_oob aggregates exactly the trees whose sample has count 0 at row i. *)
From Coq Require Import List Arith Bool Lia.
From SC Require Import Base.Num C05.Model C05.ProofsGrow C06.Model C06.ProofsBoot C06.ProofsAgg C06.ProofsFit.
Import ListNotations.

Section FitLoopSamples.
  Context {Tree : Type}.
  Variable sample : list nat -> option (list nat).
  Variable fit_tree : list nat -> (nat -> list nat) -> option Tree.
  Variable oracle : nat -> list nat * (nat -> list nat).

  Lemma fit_loop_samples : forall n trees masks,
    fit_loop sample fit_tree oracle n = Some (trees, masks) ->
    exists ss, length ss = n /\ length trees = n /\ masks = map mask_of ss /\
      forall t, t < n ->
        sample (fst (oracle t)) = Some (nth t ss []) /\
        fit_tree (nth t ss []) (snd (oracle t)) = nth_error trees t.
  Proof.
    unfold fit_loop. induction n as [|n IH]; intros trees masks H.
    - cbn in H. injection H as <- <-. exists []. split; [reflexivity|]. split; [reflexivity|]. split; [reflexivity|].
      intros t Ht. lia.
    - rewrite seq_S, fold_left_app in H. cbn [Nat.add fold_left] in H.
      destruct (fold_left (fit_step sample fit_tree oracle) (seq 0 n) (Some ([], []))) as [[tr0 mk0]|] eqn:E;
        [|discriminate].
      destruct (IH tr0 mk0 eq_refl) as (ss & L1 & L2 & -> & M). cbn [fit_step] in H.
      destruct (sample (fst (oracle n))) as [s|] eqn:S1; [|discriminate].
      destruct (fit_tree s (snd (oracle n))) as [tr|] eqn:F1; [|discriminate].
      injection H as <- <-. exists (ss ++ [s]). rewrite !app_length. cbn [length].
      split; [lia|]. split; [lia|]. split; [rewrite map_app; reflexivity|].
      intros t Ht. destruct (Nat.eq_dec t n) as [->|Nt].
      + rewrite app_nth2 by lia. rewrite L1, Nat.sub_diag. cbn [nth]. split; [exact S1|].
        rewrite nth_error_app2 by lia. rewrite L2, Nat.sub_diag. exact F1.
      + destruct (M t) as [A1 A2]; [lia|]. rewrite app_nth1 by lia. split; [exact A1|].
        rewrite nth_error_app1 by lia. exact A2.
  Qed.
End FitLoopSamples.

(* tree t is in the out-of-bag sub-forest of row i iff sample t has count 0 at row i (by position, so
   that equal trees are not confused) *)
Lemma oob_members_by_count {Tr} (trees : list Tr) (ss : list (list nat)) i :
  length ss = length trees -> Forall (fun s => i < length s) ss ->
  oob_members trees (map mask_of ss) i =
  map fst (filter (fun ts => nth i (snd ts) 0 =? 0) (combine trees ss)).
Proof.
  unfold oob_members. revert ss. induction trees as [|tr trees IH]; intros ss L F; [reflexivity|].
  destruct ss as [|s ss]; [discriminate|]. inversion F as [|? ? F1 F2]; subst.
  cbn [map combine filter snd]. injection L as L.
  assert (E : negb (nth i (mask_of s) true) = (nth i s 0 =? 0)).
  { destruct (Nat.eqb_spec (nth i s 0) 0) as [Z|NZ].
    - rewrite (proj2 (mask_of_false s i F1) Z). reflexivity.
    - destruct (nth i (mask_of s) true) eqn:Q; [reflexivity|]. apply (mask_of_false s i F1) in Q. contradiction. }
  rewrite E. destruct (nth i s 0 =? 0); cbn [map fst]; rewrite (IH ss L F2); reflexivity.
Qed.

Section RegOob.
  Context {T : Type} (O : Ops T).

  Lemma rforest_oob_exact x y n oracle md msl mss f out :
    fit_rforest O x y n oracle md msl mss true = Some f ->
    rf_predict_oob O f x = Some out ->
    exists ss : list (list nat),
      length ss = n /\ Forall (fun s => length s = length x /\ sum_nat s = length x) ss /\
      rf_samples f = Some (map mask_of ss) /\
      (forall t, t < n -> fit_regressor_weak O x y (nth t ss []) (snd (oracle t)) md msl mss = nth_error (rf_trees f) t) /\
      forall i, i < length x ->
        nth_error out i =
        rf_predict_for_row O (mkRF (map fst (filter (fun ts => nth i (snd ts) 0 =? 0) (combine (rf_trees f) ss))) None)
                           (nth i x []).
  Proof.
    unfold fit_rforest. intros H P.
    destruct (fit_loop _ _ oracle n) as [[trees masks]|] eqn:L; [|discriminate]. injection H as <-.
    destruct (fit_loop_samples _ _ _ _ _ _ L) as (ss & L1 & L2 & -> & M). cbn [rf_trees rf_samples] in *.
    assert (F : Forall (fun s => length s = length x /\ sum_nat s = length x) ss).
    { apply Forall_forall. intros s Hs. apply In_nth with (d := []) in Hs as (t & Ht & <-).
      rewrite L1 in Ht. destruct (M t Ht) as [A _]. exact (reg_sample_total _ _ _ A). }
    exists ss. split; [exact L1|]. split; [exact F|]. split; [reflexivity|]. split; [intros t Ht; apply (M t Ht)|].
    intros i Hi. destruct (rf_predict_oob_spec O _ x out P) as (masks' & S' & _ & Q). cbn [rf_samples] in S'.
    injection S' as <-. destruct (Q i Hi) as (v & Pv & Nv). cbn [rf_trees] in Pv. rewrite Nv, <- Pv.
    refine (f_equal (fun m => rf_predict_for_row O (mkRF m None) (nth i x [])) _).
    apply (oob_members_by_count trees ss i); [congruence|].
    eapply Forall_impl; [|exact F]. intros s [Ls _]. cbn beta. lia.
  Qed.
End RegOob.

Section ClsOob.
  Context {T : Type} (O : Ops T).
  Variable lg2 : T -> T.

  Lemma cforest_oob_exact crit x y n oracle md msl mss f out :
    length y = length x ->
    fit_cforest O lg2 crit x y n oracle md msl mss true = Some f ->
    cf_predict_oob O f x = Some out ->
    exists ss : list (list nat),
      length ss = n /\ Forall (fun s => length s = length x) ss /\
      cf_samples f = Some (map mask_of ss) /\
      (forall t, t < n -> fit_classifier_weak O lg2 crit x y (nth t ss []) (snd (oracle t)) md msl mss = nth_error (cf_trees f) t) /\
      forall i, i < length x ->
        exists c,
          cf_predict_for_row O (mkCF (map fst (filter (fun ts => nth i (snd ts) 0 =? 0) (combine (cf_trees f) ss)))
                                     (cf_classes f) None) (nth i x []) = Some c /\
          nth_error (cf_classes f) c = nth_error out i /\ c < length (cf_classes f).
  Proof.
    unfold fit_cforest. intros Hy H P.
    destruct (mapM (fun v => position_T O v (unique_T O y)) y) as [yi|] eqn:Y; [|discriminate].
    destruct (fit_loop _ _ oracle n) as [[trees masks]|] eqn:L; [|discriminate]. injection H as <-.
    destruct (fit_loop_samples _ _ _ _ _ _ L) as (ss & L1 & L2 & -> & M). cbn [cf_trees cf_samples cf_classes] in *.
    assert (F : Forall (fun s => length s = length x) ss).
    { apply Forall_forall. intros s Hs. apply In_nth with (d := []) in Hs as (t & Ht & <-).
      rewrite L1 in Ht. destruct (M t Ht) as [A _]. destruct (cls_sample_stratified _ _ _ _ A) as [Ls _].
      rewrite Ls, (mapM_length _ _ _ Y). exact Hy. }
    exists ss. split; [exact L1|]. split; [exact F|]. split; [reflexivity|]. split; [intros t Ht; apply (M t Ht)|].
    intros i Hi. destruct (cf_predict_oob_spec O _ x out P) as (masks' & S' & _ & Q). cbn [cf_samples] in S'.
    injection S' as <-. destruct (Q i Hi) as (c & Pc & Nc & Lc). cbn [cf_trees cf_classes] in *.
    exists c. split; [|split; [exact Nc|exact Lc]].
    rewrite <- Pc.
    refine (f_equal (fun m => cf_predict_for_row O (mkCF m (unique_T O y) None) (nth i x [])) _). symmetry.
    apply (oob_members_by_count trees ss i); [congruence|].
    eapply Forall_impl; [|exact F]. intros s Ls. cbn beta in Ls |- *. lia.
  Qed.
End ClsOob.
