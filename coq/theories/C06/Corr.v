(* C06 — correspondence interface: the forest model instantiated at binary64, with `N` arguments,
   compared against what the implementation returned (serde JSON of the fitted forests, the
   predictions, and the draws / sample counts / tried features recorded by the cfg hooks).
   Used by harness/src/bin/c06.rs through `Eval vm_compute`. *)
From Coq Require Import List ZArith NArith Bool Floats.
From SC Require Import Base.FloatUtil Base.Num C05.Model C05.Corr C06.Model.
Import ListNotations.

(* per tree: (draws of sample_with_replacement in order, [(node id, features tried)]) *)
Definition oracle_lit := list (list N * list (N * list N)).
Definition oracle_of (p : nat) (l : oracle_lit) (t : nat) : list nat * (nat -> list nat) :=
  match nth_error l t with
  | Some (d, tab) => (to_nats d, vars_of p tab)
  | None => ([], fun _ => [])
  end.
(* every recorded feature list is what `take(mtry)` of a permutation of 0..p can be, and every tree
   consumed exactly n draws *)
Definition oracle_okb (n p mtry : nat) (l : oracle_lit) : bool :=
  forallb (fun e => (length (fst e) =? n) &&
                    forallb (fun r => vars_okb p mtry (to_nats (snd r))) (snd e)) l.

Definition masks_eq : option (list (list bool)) -> option (list (list bool)) -> bool :=
  option_eqb (list_eqb (list_eqb Bool.eqb)).
(* hypothesis of the out-of-bag theorems on a forest state: one mask of n entries per tree *)
Definition masks_okb (n n_trees : nat) (s : option (list (list bool))) : bool :=
  match s with
  | None => true
  | Some masks => (length masks =? n_trees) && forallb (fun m => length m =? n) masks
  end.

(* the out-of-bag theorems (C06_oob_classifier / C06_oob_regressor) evaluated on a forest state: the
   out-of-bag prediction of training row i is the ordinary forest prediction of the sub-forest
   `oob_members trees masks i` (implied by masks_okb, ProofsAgg.cf_oob_is_subforest /
   rf_oob_is_subforest; evaluated so that `oob_members` itself runs on the implementation's masks) *)
Definition oob_sub_cls_okb (f : cforest float) (x : list (list float)) : bool :=
  match cf_samples f with
  | None => true
  | Some masks =>
      forallb (fun i => option_eqb Nat.eqb
                          (cf_predict_for_row FOps (mkCF (oob_members (cf_trees f) masks i) (cf_classes f) None) (nth i x []))
                          (cf_predict_for_row_oob FOps f masks (nth i x []) i)) (seq 0 (length x))
  end.
Definition oob_sub_reg_okb (f : rforest float) (x : list (list float)) : bool :=
  match rf_samples f with
  | None => true
  | Some masks =>
      forallb (fun i => option_eqb feq
                          (rf_predict_for_row FOps (mkRF (oob_members (rf_trees f) masks i) None) (nth i x []))
                          (rf_predict_for_row_oob FOps f masks (nth i x []) i)) (seq 0 (length x))
  end.

(* ---- bootstrap sampling on the recorded draws; stratification of the implementation's counts ---- *)
Definition class_total (yi : list nat) (counts : list nat) (l : nat) : nat :=
  sum_nat (map (fun i => nth i counts 0) (class_rows yi l)).
Definition stratifiedb (yi : list nat) (k : nat) (counts : list nat) : bool :=
  (length counts =? length yi) &&
  forallb (fun l => (class_total yi counts l =? length (class_rows yi l)) &&
                    ((length (class_rows yi l) =? 0) ||
                     existsb (fun i => 0 <? nth i counts 0) (class_rows yi l))) (seq 0 k).
Definition corr_cls_bootstrap (yi : list N) (k : N) (draws expected : list N) : bool :=
  option_eqb nlist_eqb (option_map of_nats (cls_sample_with_replacement (to_nats yi) (N.to_nat k) (to_nats draws)))
             (Some expected) &&
  stratifiedb (to_nats yi) (N.to_nat k) (to_nats expected).
Definition corr_reg_bootstrap (n : N) (draws expected : list N) : bool :=
  option_eqb nlist_eqb (option_map of_nats (reg_sample_with_replacement (N.to_nat n) (to_nats draws)))
             (Some expected) &&
  (sum_nat (to_nats expected) =? N.to_nat n).

(* ---- whole classifier forests ----
   `orders_okb x` (C05.Corr) evaluates the hypothesis `orders_sorted` of the range theorem on the
   orders the model computes for this matrix (binary64 comparisons). *)
Definition ctree_lit := (list float * list cnode * N)%type.
Definition ctree_eq (tr : ctree float) (e : ctree_lit) : bool :=
  let '(ec, en, ed) := e in
  flist_eq (fst (fst tr)) ec && list_eq2 cnode_eq (ct_nodes tr) en && N.eqb (N.of_nat (snd tr)) ed &&
  wf_treeb (ct_nodes tr).

Definition corr_cls_forest (crit : N) (x : list (list float)) (y : list float) (n_trees : N)
           (m md : option N) (msl mss : N) (keep : bool) (oracle : oracle_lit) (tab : list (float * float))
           (expected : option (list ctree_lit * list float * option (list (list bool))))
           (rows : list (list float)) (exp_pred : list float) (exp_oob : option (list float)) : bool :=
  let p := length (hd [] x) in
  oracle_okb (length x) p (mtry_of (onat m) p) oracle && orders_okb x &&
  match fit_cforest FOps (flog2 tab) (crit_of crit) x y (N.to_nat n_trees) (oracle_of p oracle)
                    (onat md) (N.to_nat msl) (N.to_nat mss) keep, expected with
  | None, None => true
  | Some f, Some (et, ec, es) =>
      list_eq2 ctree_eq (cf_trees f) et && flist_eq (cf_classes f) ec && masks_eq (cf_samples f) es &&
      masks_okb (length x) (N.to_nat n_trees) (cf_samples f) && oob_sub_cls_okb f x &&
      option_eqb flist_eq (cf_predict FOps f rows) (Some exp_pred) &&
      option_eqb flist_eq (cf_predict_oob FOps f x) exp_oob
  | _, _ => false
  end.

(* predict / predict_oob of the model on the implementation's own trees and masks *)
Definition corr_cls_forest_predict (classes : list float) (trees : list (list cnode))
           (samples : option (list (list bool))) (x rows : list (list float))
           (exp_pred : list float) (exp_oob : option (list float)) : bool :=
  let f := mkCF (map (fun ns => (classes, map cnode_of ns, 0)) trees) classes samples in
  forallb (fun tr => wf_treeb (ct_nodes tr)) (cf_trees f) &&
  masks_okb (length x) (length trees) samples && oob_sub_cls_okb f x &&
  option_eqb flist_eq (cf_predict FOps f rows) (Some exp_pred) &&
  option_eqb flist_eq (cf_predict_oob FOps f x) exp_oob.

(* ---- whole regressor forests ---- *)
Definition rtree_lit := (list rnode * N)%type.
Definition rtree_eq (tr : rtree float) (e : rtree_lit) : bool :=
  let '(en, ed) := e in
  list_eq2 rnode_eq (fst tr) en && N.eqb (N.of_nat (snd tr)) ed && wf_treeb (fst tr).

Definition corr_reg_forest (x : list (list float)) (y : list float) (n_trees : N)
           (m md : option N) (msl mss : N) (keep : bool) (oracle : oracle_lit)
           (expected : option (list rtree_lit * option (list (list bool))))
           (rows : list (list float)) (exp_pred : list float) (exp_oob : option (list float)) : bool :=
  let p := length (hd [] x) in
  oracle_okb (length x) p (mtry_of (onat m) p) oracle && orders_okb x &&
  match fit_rforest FOps x y (N.to_nat n_trees) (oracle_of p oracle)
                    (onat md) (N.to_nat msl) (N.to_nat mss) keep, expected with
  | None, None => true
  | Some f, Some (et, es) =>
      list_eq2 rtree_eq (rf_trees f) et && masks_eq (rf_samples f) es &&
      masks_okb (length x) (N.to_nat n_trees) (rf_samples f) && oob_sub_reg_okb f x &&
      option_eqb flist_eq (rf_predict FOps f rows) (Some exp_pred) &&
      option_eqb flist_eq (rf_predict_oob FOps f x) exp_oob
  | _, _ => false
  end.

Definition corr_reg_forest_predict (trees : list (list rnode)) (samples : option (list (list bool)))
           (x rows : list (list float)) (exp_pred : list float) (exp_oob : option (list float)) : bool :=
  let f := mkRF (map (fun ns => (map rnode_of ns, 0)) trees) samples in
  forallb (fun tr => wf_treeb (fst tr)) (rf_trees f) &&
  masks_okb (length x) (length trees) samples && oob_sub_reg_okb f x &&
  option_eqb flist_eq (rf_predict FOps f rows) (Some exp_pred) &&
  option_eqb flist_eq (rf_predict_oob FOps f x) exp_oob.
