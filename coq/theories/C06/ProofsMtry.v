(* C06 — mtry, the feature subsample tried at a node, and the Fisher-Yates shuffle behind it.
   - `mtry_of` is floor(sqrt p) by default, within 1..p, a user value is passed through;
   - the boolean validators `nodupb` / `vars_okb` that the correspondence evaluates on every recorded
     feature list are sound AND complete for "mtry-prefix of a permutation of 0..p-1";
   - the transliterated `shuffle` of rand 0.8 returns a permutation of its input for every sequence of
     draws, returns on every sequence gen_index can produce, and can produce every permutation;
     hence `node_vars` (what find_best_cutoff tries) always passes `vars_okb`, and every list that
     passes `vars_okb` is a possible value of `node_vars`. *)
From Coq Require Import List Arith Bool Lia Permutation.
From SC Require Import Base.Num C05.Model C05.ProofsGrow C06.Model.

Import ListNotations.

(* ------------------------------------------------------------------------------------------ *)
(* mtry                                                                                        *)
(* ------------------------------------------------------------------------------------------ *)
Lemma mtry_of_spec p :
  (forall m, mtry_of (Some m) p = m) /\
  (mtry_of None p * mtry_of None p <= p < S (mtry_of None p) * S (mtry_of None p)) /\
  (forall r, r * r <= p < S r * S r -> mtry_of None p = r) /\
  (1 <= p -> 1 <= mtry_of None p <= p) /\
  (2 <= p -> mtry_of None p < p).
Proof.
  cbn [mtry_of]. split; [reflexivity|]. split; [apply Nat.sqrt_spec; lia|].
  split; [intros r Hr; apply Nat.sqrt_unique; exact Hr|]. split.
  - intros Hp. split; [|apply Nat.sqrt_le_lin].
    change 1 with (Nat.sqrt 1) at 1. apply Nat.sqrt_le_mono. exact Hp.
  - intros Hp. apply Nat.sqrt_lt_lin. lia.
Qed.

(* ------------------------------------------------------------------------------------------ *)
(* the boolean validators                                                                      *)
(* ------------------------------------------------------------------------------------------ *)
Lemma existsb_eqb_In a l : existsb (Nat.eqb a) l = true <-> In a l.
Proof.
  rewrite existsb_exists. split.
  - intros (x & Hx & E). apply Nat.eqb_eq in E. subst. exact Hx.
  - intros H. exists a. split; [exact H|apply Nat.eqb_refl].
Qed.

Lemma nodupb_NoDup l : nodupb l = true <-> NoDup l.
Proof.
  induction l as [|a t IH]; cbn [nodupb].
  - split; [constructor|reflexivity].
  - rewrite andb_true_iff, negb_true_iff, IH. split.
    + intros (H1 & H2). constructor; [|exact H2]. intros HI. apply existsb_eqb_In in HI. congruence.
    + intros H. inversion H as [|? ? H1 H2]; subst. split; [|exact H2].
      destruct (existsb (Nat.eqb a) t) eqn:E; [|reflexivity]. apply existsb_eqb_In in E. contradiction.
Qed.

(* what a feature list tried at a node must be: min(mtry, p) distinct column indices *)
Definition valid_subsample (p mtry : nat) (vs : list nat) : Prop :=
  length vs = Nat.min mtry p /\ (forall j, In j vs -> j < p) /\ NoDup vs.

Lemma vars_okb_valid p mtry vs : vars_okb p mtry vs = true <-> valid_subsample p mtry vs.
Proof.
  unfold vars_okb, valid_subsample. rewrite !andb_true_iff, Nat.eqb_eq, forallb_forall, nodupb_NoDup.
  split.
  - intros ((H1 & H2) & H3). repeat split; auto. intros j Hj. apply Nat.ltb_lt. auto.
  - intros (H1 & H2 & H3). repeat split; auto. intros j Hj. apply Nat.ltb_lt. auto.
Qed.

Lemma NoDup_app_intro {A} (l1 l2 : list A) :
  NoDup l1 -> NoDup l2 -> (forall x, In x l1 -> ~ In x l2) -> NoDup (l1 ++ l2).
Proof.
  induction l1 as [|a t IH]; intros H1 H2 H; cbn; [exact H2|].
  inversion H1 as [|? ? Ha Ht]; subst. constructor.
  - rewrite in_app_iff. intros [HI|HI]; [contradiction|]. apply (H a); [left; reflexivity|exact HI].
  - apply IH; auto. intros x Hx. apply H. right. exact Hx.
Qed.

Lemma NoDup_app_l {A} (l1 l2 : list A) : NoDup (l1 ++ l2) -> NoDup l1.
Proof.
  induction l1 as [|a t IH]; cbn; intros H; [constructor|].
  inversion H as [|? ? Ha Ht]; subst. constructor; [|apply IH; exact Ht].
  intros HI. apply Ha. apply in_app_iff. left. exact HI.
Qed.

Lemma NoDup_firstn {A} n (l : list A) : NoDup l -> NoDup (firstn n l).
Proof. intros H. rewrite <- (firstn_skipn n l) in H. exact (NoDup_app_l _ _ H). Qed.

Lemma In_firstn {A} n (l : list A) x : In x (firstn n l) -> In x l.
Proof. intros H. rewrite <- (firstn_skipn n l). apply in_app_iff. left. exact H. Qed.

(* soundness: the mtry-prefix of ANY permutation of 0..p-1 is a valid subsample *)
Lemma prefix_of_perm_valid p mtry perm :
  Permutation (seq 0 p) perm -> valid_subsample p mtry (firstn mtry perm).
Proof.
  intros HP. unfold valid_subsample. repeat split.
  - rewrite firstn_length, <- (Permutation_length HP), seq_length. reflexivity.
  - intros j Hj. apply In_firstn in Hj. apply (Permutation_in _ (Permutation_sym HP)) in Hj.
    apply in_seq in Hj. lia.
  - apply NoDup_firstn. apply (Permutation_NoDup HP). apply seq_NoDup.
Qed.

(* completeness: every valid subsample is the mtry-prefix of a permutation of 0..p-1
   (the listed features followed by the remaining ones in increasing order) *)
Definition complete_perm (p : nat) (vs : list nat) : list nat :=
  vs ++ filter (fun j => negb (existsb (Nat.eqb j) vs)) (seq 0 p).

Lemma complete_perm_perm p mtry vs :
  valid_subsample p mtry vs -> Permutation (seq 0 p) (complete_perm p vs).
Proof.
  intros (HL & HI & HN). apply NoDup_Permutation.
  - apply seq_NoDup.
  - apply NoDup_app_intro; [exact HN|apply NoDup_filter, seq_NoDup|].
    intros x Hx Hf. apply filter_In in Hf. destruct Hf as (_ & Hf).
    apply negb_true_iff in Hf. apply existsb_eqb_In in Hx. congruence.
  - intros x. unfold complete_perm. rewrite in_app_iff, filter_In, in_seq. split.
    + intros Hx. destruct (existsb (Nat.eqb x) vs) eqn:E.
      * left. apply existsb_eqb_In. exact E.
      * right. split; [exact Hx|reflexivity].
    + intros [Hx|(Hx & _)]; [|exact Hx]. specialize (HI x Hx). lia.
Qed.

Lemma complete_perm_prefix p mtry vs :
  valid_subsample p mtry vs -> firstn mtry (complete_perm p vs) = vs.
Proof.
  intros HV. pose proof (complete_perm_perm p mtry vs HV) as HP.
  apply Permutation_length in HP. rewrite seq_length in HP.
  destruct HV as (HL & _ & _). unfold complete_perm in *. rewrite app_length in HP.
  destruct (le_lt_dec mtry p) as [Hm|Hm].
  - rewrite Nat.min_l in HL by exact Hm. rewrite firstn_app, HL, Nat.sub_diag. cbn [firstn].
    rewrite <- HL, firstn_all. apply app_nil_r.
  - rewrite Nat.min_r in HL by lia.
    destruct (filter _ (seq 0 p)) as [|b r] eqn:E; [|cbn [length] in HP; lia].
    rewrite app_nil_r. apply firstn_all2. lia.
Qed.

Lemma valid_subsample_iff_prefix p mtry vs :
  valid_subsample p mtry vs <-> exists perm, Permutation (seq 0 p) perm /\ vs = firstn mtry perm.
Proof.
  split.
  - intros HV. exists (complete_perm p vs). split; [exact (complete_perm_perm p mtry vs HV)|].
    symmetry. exact (complete_perm_prefix p mtry vs HV).
  - intros (perm & HP & ->). exact (prefix_of_perm_valid p mtry perm HP).
Qed.

(* ------------------------------------------------------------------------------------------ *)
(* the shuffle                                                                                 *)
(* ------------------------------------------------------------------------------------------ *)
Lemma set_nth_mid {A} (l1 l2 : list A) x v : set_nth (l1 ++ x :: l2) (length l1) v = l1 ++ v :: l2.
Proof.
  unfold set_nth. rewrite app_length. cbn [length].
  replace (length l1 <? length l1 + S (length l2)) with true by (symmetry; apply Nat.ltb_lt; lia).
  rewrite firstn_app, firstn_all, Nat.sub_diag. cbn [firstn]. rewrite app_nil_r.
  rewrite skipn_app, skipn_all2 by lia. replace (S (length l1) - length l1) with 1 by lia.
  reflexivity.
Qed.

(* two distinct positions i < j of a list *)
Lemma split_two {A} (l : list A) i j a b :
  i < j -> nth_error l i = Some a -> nth_error l j = Some b ->
  exists l1 m1 m2, l = l1 ++ a :: m1 ++ b :: m2 /\ length l1 = i /\ length (l1 ++ a :: m1) = j.
Proof.
  intros Hij Ha Hb. destruct (nth_error_split l i Ha) as (l1 & l2 & -> & Hl1).
  rewrite nth_error_app2 in Hb by lia. rewrite Hl1 in Hb.
  destruct (j - i) as [|k] eqn:Ek; [lia|]. cbn [nth_error] in Hb.
  destruct (nth_error_split l2 k Hb) as (m1 & m2 & -> & Hm1).
  exists l1, m1, m2. split; [reflexivity|]. split; [exact Hl1|].
  rewrite app_length. cbn [length]. lia.
Qed.

Lemma swap_at_length {A} (l l' : list A) i j : swap_at l i j = Some l' -> length l' = length l.
Proof.
  unfold swap_at. destruct (nth_error l i); [|discriminate]. destruct (nth_error l j); [|discriminate].
  intros H. injection H as <-. rewrite !set_nth_length. reflexivity.
Qed.

Lemma swap_at_some {A} (l : list A) i j : i < length l -> j < length l -> exists l', swap_at l i j = Some l'.
Proof.
  intros Hi Hj. unfold swap_at.
  destruct (nth_error l i) eqn:Ei; [|apply nth_error_None in Ei; lia].
  destruct (nth_error l j) eqn:Ej; [|apply nth_error_None in Ej; lia].
  eexists. reflexivity.
Qed.

Lemma swap_mid_perm {A} (l1 m1 m2 : list A) a b :
  Permutation (l1 ++ a :: m1 ++ b :: m2) (l1 ++ b :: m1 ++ a :: m2).
Proof.
  apply Permutation_app_head.
  transitivity (a :: b :: m1 ++ m2).
  - constructor. symmetry. apply Permutation_middle.
  - transitivity (b :: a :: m1 ++ m2); [constructor|]. constructor. apply Permutation_middle.
Qed.

Lemma swap_at_perm {A} (l l' : list A) i j : swap_at l i j = Some l' -> Permutation l l'.
Proof.
  unfold swap_at. destruct (nth_error l i) as [a|] eqn:Ea; [|discriminate].
  destruct (nth_error l j) as [b|] eqn:Eb; [|discriminate]. intros H. injection H as <-.
  destruct (lt_eq_lt_dec i j) as [[Hij|Hij]|Hij].
  - destruct (split_two l i j a b Hij Ea Eb) as (l1 & m1 & m2 & -> & H1 & H2).
    rewrite <- H1 at 1. rewrite set_nth_mid.
    replace (l1 ++ b :: m1 ++ b :: m2) with ((l1 ++ b :: m1) ++ b :: m2) by (rewrite <- app_assoc; reflexivity).
    replace j with (length (l1 ++ b :: m1)) by (rewrite <- H2, !app_length; reflexivity).
    rewrite set_nth_mid, <- app_assoc. cbn [app]. apply swap_mid_perm.
  - subst j. rewrite Ea in Eb. injection Eb as <-.
    destruct (nth_error_split l i Ea) as (l1 & l2 & -> & H1).
    rewrite <- H1. rewrite !set_nth_mid. reflexivity.
  - destruct (split_two l j i b a Hij Eb Ea) as (l1 & m1 & m2 & -> & H1 & H2).
    replace (l1 ++ b :: m1 ++ a :: m2) with ((l1 ++ b :: m1) ++ a :: m2) at 2 by (rewrite <- app_assoc; reflexivity).
    rewrite <- H2 at 1. rewrite set_nth_mid, <- app_assoc. cbn [app].
    rewrite <- H1. rewrite set_nth_mid. apply swap_mid_perm.
Qed.

(* the loop returns a permutation of its input, whatever the draws *)
Lemma fy_loop_perm {A} i : forall (l : list A) draws l', fy_loop i l draws = Some l' -> Permutation l l'.
Proof.
  induction i as [|i IH]; intros l draws l' H; cbn [fy_loop] in H.
  - injection H as <-. reflexivity.
  - destruct draws as [|j rest]; [discriminate|].
    destruct (j <=? S i); [|discriminate].
    destruct (swap_at l (S i) j) as [l1|] eqn:E; [|discriminate].
    transitivity l1; [exact (swap_at_perm _ _ _ _ E)|exact (IH _ _ _ H)].
Qed.

Lemma shuffle_model_perm {A} (l : list A) draws l' : shuffle_model l draws = Some l' -> Permutation l l'.
Proof. apply fy_loop_perm. Qed.

(* what gen_index can return: iteration i receives a value <= i (one value per iteration) *)
Fixpoint fy_draws_ok (i : nat) (draws : list nat) : Prop :=
  match i with
  | 0 => True
  | S i' => match draws with
            | [] => False
            | j :: rest => j <= i /\ fy_draws_ok i' rest
            end
  end.

Lemma fy_loop_total {A} i : forall (l : list A) draws,
  i < length l \/ i = 0 -> fy_draws_ok i draws -> exists l', fy_loop i l draws = Some l'.
Proof.
  induction i as [|i IH]; intros l draws Hi Hd; cbn [fy_loop].
  - eexists. reflexivity.
  - destruct Hi as [Hi|Hi]; [|discriminate]. cbn [fy_draws_ok] in Hd.
    destruct draws as [|j rest]; [contradiction|]. destruct Hd as (Hj & Hr).
    apply Nat.leb_le in Hj as Ej. rewrite Ej.
    destruct (swap_at_some l (S i) j Hi ltac:(lia)) as (l1 & E). rewrite E.
    apply IH; [|exact Hr]. left. rewrite (swap_at_length _ _ _ _ E). lia.
Qed.

Lemma shuffle_model_total {A} (l : list A) draws :
  fy_draws_ok (length l - 1) draws -> exists l', shuffle_model l draws = Some l'.
Proof. intros H. apply fy_loop_total; [lia|exact H]. Qed.

(* the loop can produce EVERY permutation: iterations i..1 only touch positions 0..i, so any
   rearrangement of the first i+1 entries is reachable with draws in range *)
Lemma set_nth_app_l {A} (l1 l2 : list A) i v : i < length l1 -> set_nth (l1 ++ l2) i v = set_nth l1 i v ++ l2.
Proof.
  intros Hi. unfold set_nth. rewrite app_length.
  replace (i <? length l1 + length l2) with true by (symmetry; apply Nat.ltb_lt; lia).
  replace (i <? length l1) with true by (symmetry; apply Nat.ltb_lt; lia).
  rewrite firstn_app, skipn_app. replace (i - length l1) with 0 by lia.
  replace (S i - length l1) with 0 by lia. cbn [firstn skipn]. rewrite app_nil_r, <- app_assoc. reflexivity.
Qed.

Lemma swap_at_app_l {A} (l1 l2 l1' : list A) i j :
  swap_at l1 i j = Some l1' -> swap_at (l1 ++ l2) i j = Some (l1' ++ l2).
Proof.
  unfold swap_at. destruct (nth_error l1 i) as [a|] eqn:Ea; [|discriminate].
  destruct (nth_error l1 j) as [b|] eqn:Eb; [|discriminate]. intros H. injection H as <-.
  assert (Hi : i < length l1) by (apply nth_error_Some; congruence).
  assert (Hj : j < length l1) by (apply nth_error_Some; congruence).
  rewrite !nth_error_app1, Ea, Eb by assumption.
  rewrite set_nth_app_l by assumption. rewrite set_nth_app_l by (rewrite set_nth_length; assumption).
  reflexivity.
Qed.

Lemma fy_loop_app_l {A} i : forall (l1 l2 l1' : list A) draws,
  fy_loop i l1 draws = Some l1' -> fy_loop i (l1 ++ l2) draws = Some (l1' ++ l2).
Proof.
  induction i as [|i IH]; intros l1 l2 l1' draws H; cbn [fy_loop] in *.
  - injection H as <-. reflexivity.
  - destruct draws as [|j rest]; [discriminate|]. destruct (j <=? S i); [|discriminate].
    destruct (swap_at l1 (S i) j) as [m|] eqn:E; [|discriminate].
    rewrite (swap_at_app_l _ l2 _ _ _ E). apply IH. exact H.
Qed.

(* swapping the last position with position j *)
Lemma swap_last {A} (l1 l2 : list A) a b :
  swap_at ((l1 ++ b :: l2) ++ [a]) (length (l1 ++ b :: l2)) (length l1) = Some ((l1 ++ a :: l2) ++ [b]).
Proof.
  unfold swap_at.
  rewrite nth_error_app2, Nat.sub_diag by lia. cbn [nth_error].
  rewrite <- app_assoc. cbn [app].
  rewrite nth_error_app2, Nat.sub_diag by lia. cbn [nth_error].
  replace (l1 ++ b :: l2 ++ [a]) with ((l1 ++ b :: l2) ++ [a]) by (rewrite <- app_assoc; reflexivity).
  replace [a] with (a :: @nil A) by reflexivity. rewrite set_nth_mid.
  rewrite <- app_assoc. cbn [app]. rewrite set_nth_mid. rewrite <- app_assoc. reflexivity.
Qed.

Lemma fy_loop_surjective {A} i : forall (l l' : list A),
  length l = S i -> Permutation l l' ->
  exists draws, fy_draws_ok i draws /\ length draws = i /\ fy_loop i l draws = Some l'.
Proof.
  induction i as [|i IH]; intros l l' HL HP.
  - exists []. repeat split. cbn [fy_loop].
    destruct l as [|a [|? ?]]; try discriminate. apply Permutation_length_1_inv in HP. subst. reflexivity.
  - (* l' = q ++ [z]; z occurs in l *)
    assert (HL' : length l' = S (S i)) by (rewrite <- (Permutation_length HP); exact HL).
    destruct (exists_last (l := l')) as (q & z & ->); [intros ->; discriminate|].
    rewrite app_length in HL'. cbn [length] in HL'.
    assert (Hz : In z l).
    { apply (Permutation_in _ (Permutation_sym HP)). apply in_app_iff. right. left. reflexivity. }
    destruct (exists_last (l := l)) as (r & a & ->); [intros ->; discriminate|].
    rewrite app_length in HL. cbn [length] in HL.
    apply in_app_iff in Hz. destruct Hz as [Hz|[Hz|[]]].
    + (* z sits at position j < S i of l *)
      apply in_split in Hz. destruct Hz as (l1 & l2 & ->).
      pose proof (swap_last l1 l2 a z) as HS.
      assert (HP1 : Permutation (l1 ++ a :: l2) q).
      { apply (Permutation_app_inv_r [z]).
        transitivity ((l1 ++ z :: l2) ++ [a]); [|exact HP].
        symmetry. rewrite <- !app_assoc. cbn [app]. apply swap_mid_perm. }
      destruct (IH (l1 ++ a :: l2) q) as (ds & Hok & Hlen & Hrun); [|exact HP1|].
      { rewrite app_length in *. cbn [length] in *. lia. }
      exists (length l1 :: ds). split; [|split].
      * cbn [fy_draws_ok]. split; [|exact Hok]. rewrite app_length in HL. cbn [length] in HL. lia.
      * cbn [length]. lia.
      * cbn [fy_loop]. rewrite app_length in HL. cbn [length] in HL.
        replace (length l1 <=? S i) with true by (symmetry; apply Nat.leb_le; lia).
        assert (EL : length (l1 ++ z :: l2) = S i) by (rewrite app_length; cbn [length]; lia).
        rewrite EL in HS. rewrite HS.
        apply fy_loop_app_l. exact Hrun.
    + (* z is already last: draw j = i *)
      subst a.
      assert (HP1 : Permutation r q) by (apply (Permutation_app_inv_r [z]); exact HP).
      destruct (IH r q) as (ds & Hok & Hlen & Hrun); [lia|exact HP1|].
      exists (S i :: ds). split; [|split].
      * cbn [fy_draws_ok]. split; [lia|exact Hok].
      * cbn [length]. lia.
      * cbn [fy_loop]. rewrite Nat.leb_refl.
        assert (E : swap_at (r ++ [z]) (S i) (S i) = Some (r ++ [z])).
        { unfold swap_at. replace (S i) with (length r) by lia.
          rewrite nth_error_app2, Nat.sub_diag by lia. cbn [nth_error].
          replace [z] with (z :: @nil A) by reflexivity. rewrite !set_nth_mid. reflexivity. }
        rewrite E. apply fy_loop_app_l. exact Hrun.
Qed.

Lemma shuffle_model_surjective {A} (l l' : list A) :
  Permutation l l' ->
  exists draws, fy_draws_ok (length l - 1) draws /\ shuffle_model l draws = Some l'.
Proof.
  intros HP. unfold shuffle_model. destruct l as [|a t].
  - apply Permutation_nil in HP. subst. exists []. split; [exact I|reflexivity].
  - destruct (fy_loop_surjective (length t) (a :: t) l' eq_refl HP) as (ds & H1 & _ & H2).
    exists ds. replace (length (a :: t) - 1) with (length t) by (cbn [length]; lia). split; assumption.
Qed.

(* ------------------------------------------------------------------------------------------ *)
(* the features tried at a node                                                                *)
(* ------------------------------------------------------------------------------------------ *)
(* whatever the generator returns, the list is a valid subsample, and the boolean check passes *)
Lemma node_vars_valid p mtry draws vs :
  node_vars p mtry draws = Some vs ->
  valid_subsample p mtry vs /\ vars_okb p mtry vs = true /\
  exists perm, Permutation (seq 0 p) perm /\ vs = firstn mtry perm.
Proof.
  intros H. assert (HE : exists perm, Permutation (seq 0 p) perm /\ vs = firstn mtry perm).
  { unfold node_vars in H. destruct (mtry <? p).
    - destruct (shuffle_model (seq 0 p) draws) as [perm|] eqn:E; [|discriminate].
      cbn [option_map] in H. injection H as <-. exists perm. split; [|reflexivity].
      exact (shuffle_model_perm _ _ _ E).
    - cbn [option_map] in H. injection H as <-. exists (seq 0 p). split; reflexivity. }
  assert (HV : valid_subsample p mtry vs) by (apply valid_subsample_iff_prefix; exact HE).
  split; [exact HV|]. split; [apply vars_okb_valid; exact HV|exact HE].
Qed.

(* no shuffle when mtry >= p: all features in increasing order *)
Lemma node_vars_all p mtry draws : p <= mtry -> node_vars p mtry draws = Some (seq 0 p).
Proof.
  intros H. unfold node_vars. replace (mtry <? p) with false by (symmetry; apply Nat.ltb_ge; exact H).
  cbn [option_map]. rewrite firstn_all2; [reflexivity|rewrite seq_length; exact H].
Qed.

(* the model returns on every sequence of values gen_index can produce *)
Lemma node_vars_total p mtry draws : fy_draws_ok (p - 1) draws -> exists vs, node_vars p mtry draws = Some vs.
Proof.
  intros H. unfold node_vars. destruct (mtry <? p); [|eexists; reflexivity].
  destruct (shuffle_model_total (seq 0 p) draws) as (l' & E); [rewrite seq_length; exact H|].
  rewrite E. eexists. reflexivity.
Qed.

(* and every list the boolean check accepts is a possible value: the check is exact *)
Lemma vars_okb_reachable p mtry vs :
  mtry < p -> vars_okb p mtry vs = true ->
  exists draws, fy_draws_ok (p - 1) draws /\ node_vars p mtry draws = Some vs.
Proof.
  intros Hm H. apply vars_okb_valid in H. apply valid_subsample_iff_prefix in H.
  destruct H as (perm & HP & ->).
  destruct (shuffle_model_surjective (seq 0 p) perm HP) as (ds & H1 & H2).
  rewrite seq_length in H1. exists ds. split; [exact H1|].
  unfold node_vars. replace (mtry <? p) with true by (symmetry; apply Nat.ltb_lt; exact Hm).
  rewrite H2. reflexivity.
Qed.
