(* C06 — the vote breaks ties towards the smallest class index: which_max keeps the FIRST maximum. *)
From Coq Require Import List Arith Bool Lia.
From SC Require Import Base.Num C05.Model C05.ProofsGrow C05.ProofsReg C05.ProofsCls C06.Model C06.ProofsBoot C06.ProofsAgg.
Import ListNotations.

Lemma which_max_first (l : list nat) : forall c, c < which_max l -> nth c l 0 < nth (which_max l) l 0.
Proof.
  destruct l as [|m0 t]; [cbn; intros; lia|]. unfold which_max.
  assert (G : forall t' pre m w, w < length pre -> nth w (pre ++ t') 0 = m ->
              (forall c, c < length pre -> nth c (pre ++ t') 0 <= m) ->
              (forall c, c < w -> nth c (pre ++ t') 0 < m) ->
              let r := fold_left (fun '(m, w) '(i, v) => if m <? v then (v, i) else (m, w))
                                 (combine (seq (length pre) (length t')) t') (m, w) in
              nth (snd r) (pre ++ t') 0 = fst r /\
              forall c, c < snd r -> nth c (pre ++ t') 0 < fst r).
  { induction t' as [|v t' IH]; intros pre m w Hw Hm Hall Hlt; cbn [length seq combine fold_left].
    - cbn [fst snd]. auto.
    - assert (E' : pre ++ v :: t' = (pre ++ [v]) ++ t') by (rewrite <- app_assoc; reflexivity).
      assert (Hv : nth (length pre) (pre ++ v :: t') 0 = v) by (rewrite app_nth2 by lia; rewrite Nat.sub_diag; reflexivity).
      replace (S (length pre)) with (length (pre ++ [v])) by (rewrite app_length; cbn; lia).
      destruct (m <? v) eqn:C.
      + apply Nat.ltb_lt in C. rewrite E'. apply IH.
        * rewrite app_length. cbn. lia.
        * rewrite <- E'. exact Hv.
        * intros c Hc. rewrite app_length in Hc. cbn in Hc. rewrite <- E'.
          destruct (Nat.eq_dec c (length pre)) as [->|Ne]; [lia|]. specialize (Hall c). lia.
        * intros c Hc. rewrite <- E'. specialize (Hall c). lia.
      + apply Nat.ltb_ge in C. rewrite E'. apply IH.
        * rewrite app_length. cbn. lia.
        * rewrite <- E'. exact Hm.
        * intros c Hc. rewrite app_length in Hc. cbn in Hc. rewrite <- E'.
          destruct (Nat.eq_dec c (length pre)) as [->|Ne]; [lia|]. apply Hall. lia.
        * intros c Hc. rewrite <- E'. apply Hlt. exact Hc. }
  specialize (G t [m0] m0 0). cbn [length app] in G.
  destruct G as (G2 & G3); auto.
  - intros c Hc. assert (c = 0) as -> by lia. reflexivity.
  - intros c Hc. lia.
  - intros c Hc. rewrite G2. apply G3. exact Hc.
Qed.

Section TieBreak.
  Context {T : Type} (O : Ops T).

  Lemma member_preds_fun (trees : list (ctree T)) row p1 p2 :
    member_preds O trees row p1 -> member_preds O trees row p2 -> p1 = p2.
  Proof.
    intros M1. revert p2. induction M1 as [|tr c trees p1 H1 M1 IH]; intros p2 M2; inversion M2 as [|? c2 ? p2' H2 M2']; subst.
    - reflexivity.
    - f_equal; [congruence|apply IH; exact M2'].
  Qed.

  (* among the classes with the most votes the forest reports the one with the smallest index *)
  Lemma cf_predict_for_row_first_max (f : cforest T) row c preds :
    cf_predict_for_row O f row = Some c -> member_preds O (cf_trees f) row preds ->
    forall c', c' < c -> count_occ Nat.eq_dec preds c' < count_occ Nat.eq_dec preds c.
  Proof.
    intros H M c' Hc. unfold cf_predict_for_row in H.
    destruct (agg_all (vote_step O row) (cf_trees f) (repeat 0 (length (cf_classes f)))) as [r|] eqn:E;
      [|discriminate]. cbn [option_map] in H. injection H as <-.
    destruct (votes_spec O row _ _ _ E) as (preds' & M' & _ & _ & Cnt).
    rewrite (member_preds_fun _ _ _ _ M M').
    pose proof (which_max_first r c' Hc) as W. rewrite !Cnt, !nth_repeat0 in W. lia.
  Qed.
End TieBreak.
