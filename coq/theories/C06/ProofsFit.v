(* C06 — proofs about whole fitted forests (any number type): members, masks, number of trees,
   stratification in terms of the original labels, label originality, out-of-bag prediction. *)
From Coq Require Import List Arith Bool Lia.
From SC Require Import Base.Num C05.Model C05.ProofsGrow C05.ProofsReg C05.ProofsCls
     C06.Model C06.ProofsBoot C06.ProofsAgg.
Import ListNotations.

(* ---- mapM ---- *)
Lemma mapM_length {A B} (g : A -> option B) : forall l r, mapM g l = Some r -> length r = length l.
Proof.
  induction l as [|a l IH]; intros r H; cbn [mapM] in H.
  - injection H as <-. reflexivity.
  - destruct (g a); [|discriminate]. destruct (mapM g l) as [r'|]; [|discriminate].
    injection H as <-. cbn. f_equal. apply IH. reflexivity.
Qed.
Lemma mapM_nth {A B} (g : A -> option B) : forall l r i a,
  mapM g l = Some r -> nth_error l i = Some a -> exists b, g a = Some b /\ nth_error r i = Some b.
Proof.
  induction l as [|a0 l IH]; intros r i a H Hi; [destruct i; discriminate|]. cbn [mapM] in H.
  destruct (g a0) as [b0|] eqn:G; [|discriminate]. destruct (mapM g l) as [r'|] eqn:M; [|discriminate].
  injection H as <-. destruct i as [|i]; cbn in Hi.
  - injection Hi as <-. exists b0. split; [exact G|reflexivity].
  - apply (IH r' i a eq_refl Hi).
Qed.
Lemma mapM_Forall {A B} (g : A -> option B) (P : B -> Prop) : forall l r,
  mapM g l = Some r -> (forall a b, In a l -> g a = Some b -> P b) -> Forall P r.
Proof.
  induction l as [|a0 l IH]; intros r H HP; cbn [mapM] in H.
  - injection H as <-. constructor.
  - destruct (g a0) as [b0|] eqn:G; [|discriminate]. destruct (mapM g l) as [r'|] eqn:M; [|discriminate].
    injection H as <-. constructor; [apply (HP a0); [left; reflexivity|exact G]|].
    apply IH; [reflexivity|]. intros a b Ha. apply HP. right. exact Ha.
Qed.

(* ---- class indices ---- *)
Section Position.
  Context {T : Type} (O : Ops T).
  Lemma position_T_lt v : forall l c, position_T O v l = Some c -> c < length l.
  Proof.
    induction l as [|h l IH]; intros c H; cbn [position_T] in H; [discriminate|].
    destruct (oeqb O v h); [injection H as <-; cbn; lia|].
    destruct (position_T O v l) as [c'|]; [|discriminate]. injection H as <-. cbn. specialize (IH c' eq_refl). lia.
  Qed.
  Lemma position_T_eqb v : forall l c d, position_T O v l = Some c -> oeqb O v (nth c l d) = true.
  Proof.
    induction l as [|h l IH]; intros c d H; cbn [position_T] in H; [discriminate|].
    destruct (oeqb O v h) eqn:E; [injection H as <-; exact E|].
    destruct (position_T O v l) as [c'|]; [|discriminate]. injection H as <-. cbn. apply IH. reflexivity.
  Qed.
End Position.

(* ------------------------------------------------------------------------------------------ *)
(* classifier forest                                                                           *)
(* ------------------------------------------------------------------------------------------ *)
Section CFit.
  Context {T : Type} (O : Ops T).
  Variable lg2 : T -> T.

  (* what a successful fit consists of *)
  Lemma fit_cforest_spec crit x y n oracle md msl mss keep f :
    fit_cforest O lg2 crit x y n oracle md msl mss keep = Some f ->
    exists yi masks,
      mapM (fun v => position_T O v (unique_T O y)) y = Some yi /\
      cf_classes f = unique_T O y /\
      length (cf_trees f) = n /\ length masks = n /\
      cf_samples f = (if keep then Some masks else None) /\
      forall t, t < n ->
        member_ok (cls_sample_with_replacement yi (length (unique_T O y)))
                  (fun s vars => fit_classifier_weak O lg2 crit x y s vars md msl mss)
                  oracle (cf_trees f) masks t.
  Proof.
    unfold fit_cforest. intros H.
    destruct (mapM (fun v => position_T O v (unique_T O y)) y) as [yi|] eqn:Y; [|discriminate].
    destruct (fit_loop _ _ oracle n) as [[trees masks]|] eqn:L; [|discriminate]. injection H as <-.
    destruct (fit_loop_spec _ _ _ _ _ _ L) as (L1 & L2 & M).
    exists yi, masks. cbn [cf_classes cf_trees cf_samples]. repeat split; auto.
  Qed.

  (* n_trees_members, and the shape of the stored samples *)
  Lemma cforest_members crit x y n oracle md msl mss keep f :
    fit_cforest O lg2 crit x y n oracle md msl mss keep = Some f ->
    length (cf_trees f) = n /\
    (keep = false -> cf_samples f = None) /\
    (keep = true -> exists masks, cf_samples f = Some masks /\ length masks = n /\
                                  Forall (fun m => length m = length y) masks).
  Proof.
    intros H. destruct (fit_cforest_spec _ _ _ _ _ _ _ _ _ _ H) as (yi & masks & Y & _ & L1 & L2 & S & M).
    split; [exact L1|]. split; [intros ->; exact S|]. intros ->. exists masks. split; [exact S|]. split; [exact L2|].
    apply Forall_forall. intros m Hm. apply In_nth_error in Hm as [t Ht].
    assert (Lt : t < n). { rewrite <- L2. apply nth_error_Some. congruence. }
    destruct (M t Lt) as (s & tr & A1 & _ & _ & A4). rewrite Ht in A4. injection A4 as ->.
    rewrite mask_of_length. destruct (cls_sample_stratified _ _ _ _ A1) as [Ls _]. rewrite Ls.
    apply (mapM_length _ _ _ Y).
  Qed.

  (* stratification in terms of the ORIGINAL labels: the sample drawn for tree t (the counts the tree
     is grown on, and the stored mask) contains a row of every label that occurs in y, and for each
     label exactly as many draws as the label has rows.  `eqb_sound`: the number type's == decides
     equality (true over R; over binary64 it identifies 0.0 and -0.0). *)
  Hypothesis eqb_sound : forall a b, oeqb O a b = true -> a = b.
  Hypothesis eqb_refl : forall a, oeqb O a a = true.

  Lemma yi_same_label y yi d : mapM (fun v => position_T O v (unique_T O y)) y = Some yi ->
    forall i j, i < length y -> j < length y -> (nth i yi 0 = nth j yi 0 <-> nth i y d = nth j y d).
  Proof.
    intros Y i j Hi Hj.
    destruct (mapM_nth _ _ _ i (nth i y d) Y (nth_nth_error y i d Hi)) as (ci & Pi & Ni).
    destruct (mapM_nth _ _ _ j (nth j y d) Y (nth_nth_error y j d Hj)) as (cj & Pj & Nj).
    rewrite (proj1 (nth_error_nth' yi i 0 ci Ni)), (proj1 (nth_error_nth' yi j 0 cj Nj)).
    split.
    - intros ->. rewrite (eqb_sound _ _ (position_T_eqb O _ _ _ d Pi)), (eqb_sound _ _ (position_T_eqb O _ _ _ d Pj)).
      reflexivity.
    - intros E. rewrite E in Pi. congruence.
  Qed.

  Lemma cforest_bootstrap_stratified crit x y n oracle md msl mss keep f d :
    fit_cforest O lg2 crit x y n oracle md msl mss keep = Some f ->
    forall t, t < n ->
    exists s tr,
      (* the counts tree t was grown on *)
      fit_classifier_weak O lg2 crit x y s (snd (oracle t)) md msl mss = Some tr /\
      nth_error (cf_trees f) t = Some tr /\ length s = length y /\ sum_nat s = length y /\
      (keep = true -> exists masks, cf_samples f = Some masks /\ nth_error masks t = Some (mask_of s)) /\
      forall v, In v y ->
        (* as many draws as the label has rows ... *)
        nsum (fun i => nth i s 0) (filter (fun i => oeqb O (nth i y d) v) (seq 0 (length y))) =
        length (filter (fun i => oeqb O (nth i y d) v) (seq 0 (length y))) /\
        (* ... and at least one row of it *)
        exists i, i < length y /\ nth i y d = v /\ 0 < nth i s 0 /\ nth i (mask_of s) false = true.
  Proof.
    intros H t Ht. destruct (fit_cforest_spec _ _ _ _ _ _ _ _ _ _ H) as (yi & masks & Y & _ & L1 & L2 & S & M).
    destruct (M t Ht) as (s & tr & A1 & A2 & A3 & A4). exists s, tr.
    pose proof (mapM_length _ _ _ Y) as Lyi.
    destruct (cls_sample_stratified _ _ _ _ A1) as (Ls & Tot & Ex & _).
    split; [exact A2|]. split; [exact A3|]. split; [congruence|]. split.
    { rewrite <- Lyi. apply (cls_sample_total yi (length (unique_T O y)) (fst (oracle t))); [|exact A1].
      intros i Hi. rewrite Lyi in Hi.
      destruct (mapM_nth _ _ _ i (nth i y d) Y (nth_nth_error y i d Hi)) as (ci & Pi & Ni).
      rewrite (proj1 (nth_error_nth' yi i 0 ci Ni)). apply (position_T_lt O _ _ _ Pi). }
    split; [intros ->; exists masks; split; [exact S|exact A4]|].
    intros v Hv. apply In_nth with (d := d) in Hv as (j & Hj & <-).
    destruct (mapM_nth _ _ _ j (nth j y d) Y (nth_nth_error y j d Hj)) as (cj & Pj & Nj).
    pose proof (position_T_lt O _ _ _ Pj) as Lc.
    assert (Ej : nth j yi 0 = cj) by exact (proj1 (nth_error_nth' yi j 0 cj Nj)).
    assert (F : filter (fun i => oeqb O (nth i y d) (nth j y d)) (seq 0 (length y)) = class_rows yi cj).
    { unfold class_rows. rewrite Lyi. apply filter_ext_in. intros i Hi. apply in_seq in Hi.
      destruct (Nat.eqb_spec (nth i yi 0) cj) as [E|NE].
      - rewrite <- Ej in E. apply (yi_same_label y yi d Y i j) in E; [|lia|lia]. rewrite E. apply eqb_refl.
      - destruct (oeqb O (nth i y d) (nth j y d)) eqn:Q; [|reflexivity]. exfalso. apply NE. rewrite <- Ej.
        apply (yi_same_label y yi d Y i j); [lia|lia|]. apply eqb_sound. exact Q. }
    rewrite F. split; [exact (Tot cj Lc)|].
    destruct (Ex cj Lc) as (i & Hi & Pos).
    { intros E. assert (In j (class_rows yi cj)) by (apply class_rows_In; split; [lia|exact Ej]).
      rewrite E in H0. destruct H0. }
    apply class_rows_In in Hi as [Hi1 Hi2]. exists i. split; [lia|]. split.
    - apply (yi_same_label y yi d Y i j); [lia|lia|congruence].
    - split; [exact Pos|]. unfold mask_of.
      rewrite (nth_indep _ false (negb (0 =? 0))) by (rewrite map_length; lia).
      rewrite (map_nth (fun c => negb (c =? 0)) s 0 i). destruct (Nat.eqb_spec (nth i s 0) 0); [lia|reflexivity].
  Qed.
End CFit.

(* labels_are_originals: every value predict / predict_oob returns is an entry of `classes`;
   for a fitted forest these are labels of the training set *)
Section Labels.
  Context {T : Type} (O : Ops T).

  Lemma cf_predict_in_classes (f : cforest T) rows out :
    cf_predict O f rows = Some out -> Forall (fun v => In v (cf_classes f)) out.
  Proof.
    intros H. apply (mapM_Forall _ _ _ _ H). intros row v _ E.
    destruct (cf_predict_for_row O f row); [|discriminate]. apply nth_error_In in E. exact E.
  Qed.
  Lemma cf_predict_oob_in_classes (f : cforest T) x out :
    cf_predict_oob O f x = Some out -> Forall (fun v => In v (cf_classes f)) out.
  Proof.
    unfold cf_predict_oob. intros H. destruct (cf_samples f) as [masks|]; [|discriminate].
    destruct masks as [|m0 masks]; [discriminate|]. destruct (negb (length m0 =? length x)); [discriminate|].
    apply (mapM_Forall _ _ _ _ H). intros i v _ E.
    destruct (cf_predict_for_row_oob O f (m0 :: masks) (nth i x []) i); [|discriminate].
    apply nth_error_In in E. exact E.
  Qed.

  Lemma cforest_labels_original lg2 crit x y n oracle md msl mss keep f :
    fit_cforest O lg2 crit x y n oracle md msl mss keep = Some f ->
    (forall rows out, cf_predict O f rows = Some out -> Forall (fun v => In v y) out) /\
    (forall out, cf_predict_oob O f x = Some out -> Forall (fun v => In v y) out).
  Proof.
    intros H. destruct (fit_cforest_spec O lg2 _ _ _ _ _ _ _ _ _ _ H) as (yi & masks & _ & C & _).
    split.
    - intros rows out P. eapply Forall_impl; [|apply (cf_predict_in_classes _ _ _ P)].
      intros v Hv. rewrite C in Hv. apply (unique_T_In O y v Hv).
    - intros out P. eapply Forall_impl; [|apply (cf_predict_oob_in_classes _ _ _ P)].
      intros v Hv. rewrite C in Hv. apply (unique_T_In O y v Hv).
  Qed.
End Labels.

(* ------------------------------------------------------------------------------------------ *)
(* out-of-bag prediction of whole matrices                                                     *)
(* ------------------------------------------------------------------------------------------ *)
Section OobSome.
  Context {Tr Acc : Type}.
  Variable step : Acc -> Tr -> option Acc.
  (* without any assumption on the masks: if the out-of-bag loop returns at all, it returns what the
     sub-forest of out-of-bag trees returns *)
  Lemma agg_oob_members_some : forall trees masks i a0 r,
    agg_oob step trees masks i a0 = Some r -> agg_all step (oob_members trees masks i) a0 = Some r.
  Proof.
    unfold agg_oob, agg_all, oob_members. intros trees masks i a0 r.
    generalize (Some a0) as acc. revert masks.
    induction trees as [|tr trees IH]; intros masks acc H; [exact H|].
    destruct masks as [|m masks]; [exact H|]. cbn [combine fold_left filter snd fst] in *.
    destruct acc as [a|].
    - destruct (nth_error m i) as [b|] eqn:E.
      + rewrite (proj1 (nth_error_nth' m i true b E)).
        destruct b; cbn [negb map fold_left fst]; apply IH; exact H.
      + exfalso. clear -H. induction (combine trees masks) as [|u t IHt]; cbn in H; [discriminate|auto].
    - exfalso. clear -H. induction (combine trees masks) as [|u t IHt]; cbn in H; [discriminate|auto].
  Qed.
End OobSome.

Section Oob.
  Context {T : Type} (O : Ops T).

  (* oob_uses_exactly_unsampled_trees (classifier): entry i of predict_oob is the label of the class
     that the sub-forest of the trees whose sample excludes row i votes for on row i *)
  Lemma cf_predict_oob_spec (f : cforest T) x out :
    cf_predict_oob O f x = Some out ->
    exists masks, cf_samples f = Some masks /\ length out = length x /\
      forall i, i < length x ->
        exists c, cf_predict_for_row O (mkCF (oob_members (cf_trees f) masks i) (cf_classes f) None) (nth i x []) = Some c /\
                  nth_error (cf_classes f) c = nth_error out i /\ c < length (cf_classes f).
  Proof.
    unfold cf_predict_oob. intros H. destruct (cf_samples f) as [masks|]; [|discriminate].
    exists masks. split; [reflexivity|].
    destruct masks as [|m0 masks]; [discriminate|]. destruct (negb (length m0 =? length x)); [discriminate|].
    split; [rewrite (mapM_length _ _ _ H); apply seq_length|].
    intros i Hi.
    destruct (mapM_nth _ _ _ i i H) as (v & G & N).
    { rewrite (nth_nth_error (seq 0 (length x)) i 0) by (rewrite seq_length; exact Hi). rewrite seq_nth by exact Hi. reflexivity. }
    destruct (cf_predict_for_row_oob O f (m0 :: masks) (nth i x []) i) as [c|] eqn:E; [|discriminate].
    exists c. split.
    - unfold cf_predict_for_row_oob in E. unfold cf_predict_for_row. cbn [cf_trees cf_classes].
      destruct (agg_oob (vote_step O (nth i x [])) (cf_trees f) (m0 :: masks) i (repeat 0 (length (cf_classes f)))) as [r|] eqn:A;
        [|discriminate]. rewrite (agg_oob_members_some _ _ _ _ _ _ A). exact E.
    - split; [congruence|]. apply nth_error_Some. congruence.
  Qed.

  (* ... and for the regressor: entry i is the forest mean of that sub-forest on row i *)
  Lemma rf_predict_oob_spec (f : rforest T) x out :
    rf_predict_oob O f x = Some out ->
    exists masks, rf_samples f = Some masks /\ length out = length x /\
      forall i, i < length x ->
        exists v, rf_predict_for_row O (mkRF (oob_members (rf_trees f) masks i) None) (nth i x []) = Some v /\
                  nth_error out i = Some v.
  Proof.
    unfold rf_predict_oob. intros H. destruct (rf_samples f) as [masks|]; [|discriminate].
    exists masks. split; [reflexivity|].
    destruct masks as [|m0 masks]; [discriminate|]. destruct (negb (length m0 =? length x)); [discriminate|].
    split; [rewrite (mapM_length _ _ _ H); apply seq_length|].
    intros i Hi.
    destruct (mapM_nth _ _ _ i i H) as (v & G & N).
    { rewrite (nth_nth_error (seq 0 (length x)) i 0) by (rewrite seq_length; exact Hi). rewrite seq_nth by exact Hi. reflexivity. }
    exists v. split; [|exact N].
    unfold rf_predict_for_row_oob in G. unfold rf_predict_for_row. cbn [rf_trees].
    destruct (agg_oob (sum_cnt_step O (nth i x [])) (rf_trees f) (m0 :: masks) i (o0 O, 0)) as [[s k]|] eqn:A; [|discriminate].
    apply agg_oob_members_some in A. destruct (sum_cnt_spec O _ _ _ _ _ _ A) as [-> ->]. exact G.
  Qed.
End Oob.

(* ------------------------------------------------------------------------------------------ *)
(* regressor forest                                                                            *)
(* ------------------------------------------------------------------------------------------ *)
Section RFit.
  Context {T : Type} (O : Ops T).

  Lemma fit_rforest_spec x y n oracle md msl mss keep f :
    fit_rforest O x y n oracle md msl mss keep = Some f ->
    exists masks,
      length (rf_trees f) = n /\ length masks = n /\
      rf_samples f = (if keep then Some masks else None) /\
      forall t, t < n ->
        member_ok (reg_sample_with_replacement (length x))
                  (fun s vars => fit_regressor_weak O x y s vars md msl mss)
                  oracle (rf_trees f) masks t.
  Proof.
    unfold fit_rforest. intros H.
    destruct (fit_loop _ _ oracle n) as [[trees masks]|] eqn:L; [|discriminate]. injection H as <-.
    destruct (fit_loop_spec _ _ _ _ _ _ L) as (L1 & L2 & M).
    exists masks. cbn [rf_trees rf_samples]. repeat split; auto.
  Qed.

  Lemma rforest_members x y n oracle md msl mss keep f :
    fit_rforest O x y n oracle md msl mss keep = Some f ->
    length (rf_trees f) = n /\
    (keep = false -> rf_samples f = None) /\
    (keep = true -> exists masks, rf_samples f = Some masks /\ length masks = n /\
                                  Forall (fun m => length m = length x) masks) /\
    forall t, t < n -> exists s tr,
      fit_regressor_weak O x y s (snd (oracle t)) md msl mss = Some tr /\
      nth_error (rf_trees f) t = Some tr /\ length s = length x /\ sum_nat s = length x /\
      (keep = true -> exists masks, rf_samples f = Some masks /\ nth_error masks t = Some (mask_of s)).
  Proof.
    intros H. destruct (fit_rforest_spec _ _ _ _ _ _ _ _ _ H) as (masks & L1 & L2 & S & M).
    split; [exact L1|]. split; [intros ->; exact S|]. split.
    - intros ->. exists masks. split; [exact S|]. split; [exact L2|].
      apply Forall_forall. intros m Hm. apply In_nth_error in Hm as [t Ht].
      assert (Lt : t < n). { rewrite <- L2. apply nth_error_Some. congruence. }
      destruct (M t Lt) as (s & tr & A1 & _ & _ & A4). rewrite Ht in A4. injection A4 as ->.
      rewrite mask_of_length. apply (reg_sample_total _ _ _ A1).
    - intros t Ht. destruct (M t Ht) as (s & tr & A1 & A2 & A3 & A4). exists s, tr.
      destruct (reg_sample_total _ _ _ A1) as [B1 B2]. repeat split; auto.
      intros ->. exists masks. split; [exact S|exact A4].
  Qed.
End RFit.

(* a stored mask entry is `false` exactly for the rows the bootstrap sample does not contain *)
Lemma mask_of_false s i : i < length s -> (nth i (mask_of s) true = false <-> nth i s 0 = 0).
Proof.
  intros H. unfold mask_of. rewrite (nth_indep _ true (negb (0 =? 0))) by (rewrite map_length; lia).
  rewrite (map_nth (fun c => negb (c =? 0)) s 0 i). destruct (Nat.eqb_spec (nth i s 0) 0); cbn; intuition congruence.
Qed.
