(* C06 — C05's float-partition theorem carried to the member trees of a forest fitted in binary64.
   C05/ProofsFloatFit.v states it for DecisionTree*::fit (all weights 1, all features tried); the member
   trees of a forest are grown by fit_weak_learner on bootstrap counts `s` and with the features
   `snd (oracle t) id` tried at node id.  The proof is the same (C05.ProofsFloat.reg_find_mid /
   cls_find_mid / grown_tree_float_partition are already stated for any weights and any tried features);
   the only extra hypothesis is that every tried feature is a column index — which the correspondence
   establishes for the recorded lists (C06_recorded_features_valid).
     fit_regressor_weak_float_partition / fit_classifier_weak_float_partition
     rforest_members_float_partition / cforest_members_float_partition
        every member tree t of a forest fitted over binary64 on finite data whose computed orders pass
        the executable test orders_okb: at EVERY internal node the two children receive exactly the
        (bootstrap-counted) training rows that the exact test at the real midpoint of two consecutive
        counted values sends them, when the rounded threshold is below the larger value
        (`float_tree_partition 0 x msl s nodes`, s = the bootstrap sample of tree t).
   Together with C06_classifier_votes_exact (the vote is integer arithmetic) the only places where
   binary64 enters a classifier forest's answer are these threshold comparisons and the split search's
   rounded gains. *)
From Coq Require Import List Arith ZArith Bool Reals Floats Lra Lia.
From SC Require Import Base.FloatUtil Base.Num Base.FloatError C05.Model C05.Corr C05.ProofsFloat C05.ProofsFloatFit
                       C06.Model C06.ProofsBoot C06.ProofsAgg C06.ProofsFit.
Import ListNotations.
Local Open Scope nat_scope.

Lemma fit_regressor_weak_float_partition x y s vars md msl mss nodes d :
  Forall (Forall ffin) x -> orders_okb x = true ->
  (forall id j, In j (vars id) -> j < length (hd [] x)) ->
  fit_regressor_weak FOps x y s vars md msl mss = Some (nodes, d) ->
  float_tree_partition 0%float x msl s nodes.
Proof.
  intros Hx Hok Hv H. unfold fit_regressor_weak in H.
  destruct (argsort_columns FOps x (length (hd [] x))) as [order|] eqn:E; [|discriminate].
  unfold fit_regressor_with_order in H. destruct (root_stats FOps y s) as [n sum].
  refine (grown_tree_float_partition _ x msl _ _ _ md nodes d Hx _ H).
  apply reg_find_mid; [exact Hx|]. intros id j Hj.
  apply (orders_okb_sorted x order Hx Hok E). exact (Hv id j Hj).
Qed.

Lemma fit_classifier_weak_float_partition lg2 crit x y s vars md msl mss classes nodes d :
  Forall (Forall ffin) x -> orders_okb x = true ->
  (forall id j, In j (vars id) -> j < length (hd [] x)) ->
  fit_classifier_weak FOps lg2 crit x y s vars md msl mss = Some (classes, nodes, d) ->
  float_tree_partition 0 x msl s nodes.
Proof.
  intros Hx Hok Hv H. unfold fit_classifier_weak in H. cbv zeta in H.
  destruct (length (unique_T FOps y) <? 2); [discriminate|].
  destruct (mapM (fun v => position_T FOps v (unique_T FOps y)) y) as [yi|]; [|discriminate].
  destruct (argsort_columns FOps x (length (hd [] x))) as [order|] eqn:E; [|discriminate].
  destruct (fit_classifier_with_order FOps lg2 crit x yi (length (unique_T FOps y)) s vars order md msl mss)
    as [[nodes' d']|] eqn:F; [|discriminate].
  inversion H; subst classes nodes' d'. unfold fit_classifier_with_order in F.
  refine (grown_tree_float_partition _ x msl _ _ _ md nodes d Hx _ F).
  apply cls_find_mid; [exact Hx|]. intros id j Hj.
  apply (orders_okb_sorted x order Hx Hok E). exact (Hv id j Hj).
Qed.

Theorem rforest_members_float_partition x y n oracle md msl mss keep f :
  Forall (Forall ffin) x -> orders_okb x = true ->
  (forall t id j, t < n -> In j (snd (oracle t) id) -> j < length (hd [] x)) ->
  fit_rforest FOps x y n oracle md msl mss keep = Some f ->
  forall t, t < n ->
  exists s nodes d,
    nth_error (rf_trees f) t = Some (nodes, d) /\ length s = length x /\ sum_nat s = length x /\
    (keep = true -> exists masks, rf_samples f = Some masks /\ nth_error masks t = Some (mask_of s)) /\
    float_tree_partition 0%float x msl s nodes.
Proof.
  intros Hx Hok Hv H t Ht.
  destruct (rforest_members FOps x y n oracle md msl mss keep f H) as (_ & _ & _ & M).
  destruct (M t Ht) as (s & [nodes d] & A1 & A2 & A3 & A4 & A5).
  exists s, nodes, d. split; [exact A2|]. split; [exact A3|]. split; [exact A4|]. split; [exact A5|].
  apply (fit_regressor_weak_float_partition x y s (snd (oracle t)) md msl mss nodes d Hx Hok); [|exact A1].
  intros id j Hj. exact (Hv t id j Ht Hj).
Qed.

Theorem cforest_members_float_partition lg2 crit x y n oracle md msl mss keep f :
  Forall (Forall ffin) x -> orders_okb x = true ->
  (forall t id j, t < n -> In j (snd (oracle t) id) -> j < length (hd [] x)) ->
  fit_cforest FOps lg2 crit x y n oracle md msl mss keep = Some f ->
  forall t, t < n ->
  exists s classes nodes d,
    nth_error (cf_trees f) t = Some (classes, nodes, d) /\ length s = length y /\
    (keep = true -> exists masks, cf_samples f = Some masks /\ nth_error masks t = Some (mask_of s)) /\
    float_tree_partition 0 x msl s nodes.
Proof.
  intros Hx Hok Hv H t Ht.
  destruct (fit_cforest_spec FOps lg2 crit x y n oracle md msl mss keep f H)
    as (yi & masks & Y & _ & L1 & L2 & S & M).
  destruct (M t Ht) as (s & [[classes nodes] d] & A1 & A2 & A3 & A4).
  exists s, classes, nodes, d. split; [exact A3|]. split.
  - destruct (cls_sample_stratified _ _ _ _ A1) as [Ls _]. rewrite Ls. apply (mapM_length _ _ _ Y).
  - split.
    + intros ->. exists masks. split; [exact S | exact A4].
    + apply (fit_classifier_weak_float_partition lg2 crit x y s (snd (oracle t)) md msl mss classes nodes d Hx Hok);
        [|exact A2].
      intros id j Hj. exact (Hv t id j Ht Hj).
Qed.
