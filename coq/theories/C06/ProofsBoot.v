(* C06 — proofs about the bootstrap samplers: for EVERY draw sequence the classifier's sample keeps
   each class's row count (stratified), the regressor's sample has n draws. *)
From Coq Require Import List Arith Bool Lia.
From SC Require Import Base.Num C05.Model C05.ProofsGrow C05.ProofsReg C06.Model.
Import ListNotations.

Lemma nth_add_at s r w i : r < length s ->
  nth i (add_at s r w) 0 = if i =? r then nth i s 0 + w else nth i s 0.
Proof.
  intros Hr. unfold add_at. destruct (Nat.eqb_spec i r) as [->|N].
  - apply nth_set_nth_eq. exact Hr.
  - apply nth_set_nth_neq. exact N.
Qed.
Lemma add_at_length s r w : length (add_at s r w) = length s.
Proof. apply set_nth_length. Qed.

Lemma nsum_add_at_in s r l : NoDup l -> In r l -> r < length s ->
  nsum (fun i => nth i (add_at s r 1) 0) l = nsum (fun i => nth i s 0) l + 1.
Proof.
  intros ND. induction ND as [|a l Ha ND IH]; intros HI Hr; [destruct HI|].
  cbn [nsum]. rewrite (nth_add_at s r 1 a Hr). destruct HI as [->|HI].
  - rewrite Nat.eqb_refl. rewrite (nsum_ext (fun i => nth i (add_at s r 1) 0) (fun i => nth i s 0)); [lia|].
    intros i Hi. rewrite (nth_add_at s r 1 i Hr). destruct (Nat.eqb_spec i r) as [->|]; [contradiction|reflexivity].
  - destruct (Nat.eqb_spec a r) as [->|]; [contradiction|]. rewrite (IH HI Hr). lia.
Qed.
Lemma nsum_add_at_notin s r l : ~ In r l -> r < length s ->
  nsum (fun i => nth i (add_at s r 1) 0) l = nsum (fun i => nth i s 0) l.
Proof.
  intros HN Hr. apply nsum_ext. intros i Hi. rewrite (nth_add_at s r 1 i Hr).
  destruct (Nat.eqb_spec i r) as [->|]; [contradiction|reflexivity].
Qed.

(* one class: `size` draws, all landing on rows of `index` *)
Lemma draw_loop_spec : forall size index samples draws s' d',
  NoDup index -> draw_loop size index samples draws = Some (s', d') ->
  length s' = length samples /\
  nsum (fun i => nth i s' 0) index = nsum (fun i => nth i samples 0) index + size /\
  (forall i, ~ In i index -> nth i s' 0 = nth i samples 0) /\
  (exists used, draws = used ++ d' /\ length used = size).
Proof.
  induction size as [|size IH]; intros index samples draws s' d' ND H; cbn [draw_loop] in H.
  - injection H as <- <-. repeat split; auto. exists []. split; reflexivity.
  - destruct draws as [|xi rest]; [discriminate|].
    destruct (nth_error index xi) as [r|] eqn:E; [|discriminate].
    destruct (r <? length samples) eqn:L; [|discriminate]. apply Nat.ltb_lt in L.
    apply nth_error_In in E.
    destruct (IH index _ rest s' d' ND H) as (H1 & H2 & H3 & (used & H4 & H5)).
    rewrite add_at_length in H1. split; [exact H1|]. split; [|split].
    + rewrite H2, (nsum_add_at_in samples r index ND E L). lia.
    + intros i Hi. rewrite (H3 i Hi), (nth_add_at samples r 1 i L).
      destruct (Nat.eqb_spec i r) as [->|]; [contradiction|reflexivity].
    + exists (xi :: used). split; [cbn; f_equal; exact H4|cbn; f_equal; exact H5].
Qed.

Lemma class_rows_NoDup yi l : NoDup (class_rows yi l).
Proof. unfold class_rows. apply NoDup_filter. apply seq_NoDup. Qed.
Lemma class_rows_In yi l i : In i (class_rows yi l) <-> i < length yi /\ nth i yi 0 = l.
Proof.
  unfold class_rows. rewrite filter_In, in_seq, Nat.eqb_eq. intuition lia.
Qed.

(* number of draws that hit the rows of class l *)
Definition class_total (yi samples : list nat) (l : nat) : nat :=
  nsum (fun i => nth i samples 0) (class_rows yi l).

(* state after the classes 0..j-1 have been sampled *)
Definition strat_inv (yi : list nat) (j : nat) (samples : list nat) : Prop :=
  length samples = length yi /\
  (forall l, l < j -> class_total yi samples l = length (class_rows yi l)) /\
  (forall i, j <= nth i yi 0 -> nth i samples 0 = 0).

Lemma nsum_all_zero (f : nat -> nat) l : (forall i, In i l -> f i = 0) -> nsum f l = 0.
Proof. apply nsum_zero. Qed.

Lemma cls_fold_spec yi : forall k j st samples draws s' d',
  strat_inv yi j samples -> st = Some (samples, draws) ->
  fold_left (cls_sample_class yi) (seq j k) st = Some (s', d') ->
  strat_inv yi (j + k) s'.
Proof.
  induction k as [|k IH]; intros j st samples draws s' d' I -> H; cbn [seq fold_left] in H.
  - injection H as <- <-. rewrite Nat.add_0_r. exact I.
  - unfold cls_sample_class at 2 in H.
    destruct (draw_loop (length (class_rows yi j)) (class_rows yi j) samples draws) as [[s1 d1]|] eqn:E.
    + destruct (draw_loop_spec _ _ _ _ _ _ (class_rows_NoDup yi j) E) as (L1 & T1 & U1 & _).
      destruct I as (I1 & I2 & I3).
      replace (j + S k) with (S j + k) by lia. eapply IH; [|reflexivity|exact H].
      split; [congruence|]. split.
      * intros l Hl. unfold class_total in *. destruct (Nat.eq_dec l j) as [->|Nl].
        -- rewrite T1. rewrite nsum_all_zero; [lia|]. intros i Hi. apply class_rows_In in Hi as [_ Hi].
           apply I3. lia.
        -- rewrite <- (I2 l) by lia. apply nsum_ext. intros i Hi. apply U1.
           intros Hj. apply class_rows_In in Hi as [_ Hi]. apply class_rows_In in Hj as [_ Hj]. congruence.
      * intros i Hi. rewrite U1; [apply I3; lia|]. intros Hj. apply class_rows_In in Hj as [_ Hj]. lia.
    + exfalso. clear -H. induction (seq (S j) k) as [|a t IHt]; cbn in H; [discriminate|auto].
Qed.

Lemma nth_repeat0 n i : nth i (repeat 0 n) 0 = 0.
Proof. revert i. induction n; destruct i; cbn; auto. Qed.

(* bootstrap_stratified *)
Lemma cls_sample_stratified yi k draws samples :
  cls_sample_with_replacement yi k draws = Some samples ->
  length samples = length yi /\
  (forall l, l < k -> class_total yi samples l = length (class_rows yi l)) /\
  (forall l, l < k -> class_rows yi l <> [] -> exists i, In i (class_rows yi l) /\ 0 < nth i samples 0) /\
  (forall i, k <= nth i yi 0 -> nth i samples 0 = 0).
Proof.
  unfold cls_sample_with_replacement. intros H.
  destruct (fold_left (cls_sample_class yi) (seq 0 k) (Some (repeat 0 (length yi), draws))) as [[s d]|] eqn:E;
    [|discriminate]. cbn in H. injection H as ->.
  assert (I0 : strat_inv yi 0 (repeat 0 (length yi))).
  { split; [apply repeat_length|]. split; [intros; lia|]. intros. apply nth_repeat0. }
  destruct (cls_fold_spec yi k 0 _ _ draws samples d I0 eq_refl E) as (I1 & I2 & I3). cbn [Nat.add] in *.
  split; [exact I1|]. split; [exact I2|]. split; [|exact I3].
  intros l Hl NE. specialize (I2 l Hl). unfold class_total in I2.
  destruct (class_rows yi l) as [|a t] eqn:CR; [contradiction|].
  assert (P : 0 < nsum (fun i => nth i samples 0) (a :: t)) by (rewrite I2; cbn; lia).
  clear -P. induction (a :: t) as [|b u IH]; cbn [nsum] in P; [lia|].
  destruct (Nat.eq_dec (nth b samples 0) 0) as [Z|NZ].
  - rewrite Z in P. destruct (IH P) as (i & Hi & Hp). exists i. split; [right; exact Hi|exact Hp].
  - exists b. split; [left; reflexivity|lia].
Qed.

(* all rows counted: the sample has as many draws as there are rows, when every class index is < k *)
Lemma nsum_filter_split (f : nat -> nat) (g : nat -> bool) l :
  nsum f l = nsum f (filter g l) + nsum f (filter (fun i => negb (g i)) l).
Proof. induction l as [|a l IH]; cbn; [reflexivity|]. destruct (g a); cbn; lia. Qed.

Lemma class_partition_sum (f : nat -> nat) yi : forall k l,
  (forall i, In i l -> nth i yi 0 < k) ->
  nsum f l = nsum (fun c => nsum f (filter (fun i => nth i yi 0 =? c) l)) (seq 0 k).
Proof.
  induction k as [|k IH]; intros l H.
  - destruct l as [|a l]; [reflexivity|]. specialize (H a (or_introl eq_refl)). lia.
  - rewrite seq_S, nsum_app. cbn [nsum Nat.add]. rewrite Nat.add_0_r.
    rewrite (nsum_filter_split f (fun i => nth i yi 0 =? k) l).
    rewrite (IH (filter (fun i => negb (nth i yi 0 =? k)) l)).
    + rewrite Nat.add_comm. f_equal. apply nsum_ext. intros c Hc. apply in_seq in Hc.
      f_equal. clear -Hc. induction l as [|a l IHl]; cbn; [reflexivity|].
      destruct (Nat.eqb_spec (nth a yi 0) k) as [E|NE]; cbn.
      * rewrite E. destruct (Nat.eqb_spec k c); [lia|exact IHl].
      * destruct (nth a yi 0 =? c); cbn; rewrite IHl; reflexivity.
    + intros i Hi. apply filter_In in Hi as [Hi Hn]. specialize (H i Hi).
      apply negb_true_iff, Nat.eqb_neq in Hn. lia.
Qed.

Lemma cls_sample_total yi k draws samples :
  (forall i, i < length yi -> nth i yi 0 < k) ->
  cls_sample_with_replacement yi k draws = Some samples -> sum_nat samples = length yi.
Proof.
  intros Hk H. destruct (cls_sample_stratified yi k draws samples H) as (L & Tt & _ & _).
  rewrite (sum_nat_nsum samples (length yi) L).
  rewrite (class_partition_sum (fun i => nth i samples 0) yi k (seq 0 (length yi))).
  2:{ intros i Hi. apply in_seq in Hi. apply Hk. lia. }
  rewrite (nsum_ext _ (fun c => length (class_rows yi c))).
  2:{ intros c Hc. apply in_seq in Hc. apply (Tt c). lia. }
  assert (G : forall (l : list nat), (forall i, In i l -> nth i yi 0 < k) ->
            nsum (fun c => length (filter (fun i => nth i yi 0 =? c) l)) (seq 0 k) = length l).
  { intros l Hl. rewrite <- (nsum_ext (fun c => nsum (fun _ => 1) (filter (fun i => nth i yi 0 =? c) l))).
    - rewrite <- (class_partition_sum (fun _ => 1) yi k l Hl). clear. induction l; cbn; auto.
    - intros c _. clear. induction (filter _ l); cbn; auto. }
  unfold class_rows. rewrite G; [apply seq_length|]. intros i Hi. apply in_seq in Hi. apply Hk. lia.
Qed.

(* ---- regressor: n draws over n rows ---- *)
Lemma reg_draw_loop_spec : forall cnt nrows samples draws s',
  length samples = nrows -> reg_draw_loop cnt nrows samples draws = Some s' ->
  length s' = nrows /\ sum_nat s' = sum_nat samples + cnt.
Proof.
  induction cnt as [|cnt IH]; intros nrows samples draws s' L H; cbn [reg_draw_loop] in H.
  - injection H as <-. split; [exact L|lia].
  - destruct draws as [|xi rest]; [discriminate|]. destruct (xi <? nrows) eqn:E; [|discriminate].
    apply Nat.ltb_lt in E.
    destruct (IH nrows (add_at samples xi 1) rest s') as [H1 H2]; [rewrite add_at_length; exact L|exact H|].
    split; [exact H1|]. rewrite H2.
    rewrite (sum_nat_nsum (add_at samples xi 1) nrows) by (rewrite add_at_length; exact L).
    rewrite (sum_nat_nsum samples nrows L).
    rewrite (nsum_add_at_in samples xi (seq 0 nrows)); [lia|apply seq_NoDup|apply in_seq; lia|lia].
Qed.

Lemma reg_sample_total nrows draws samples :
  reg_sample_with_replacement nrows draws = Some samples ->
  length samples = nrows /\ sum_nat samples = nrows.
Proof.
  unfold reg_sample_with_replacement. intros H.
  destruct (reg_draw_loop_spec nrows nrows (repeat 0 nrows) draws samples (repeat_length _ _) H) as [H1 H2].
  split; [exact H1|]. rewrite H2.
  rewrite (sum_nat_nsum (repeat 0 nrows) nrows (repeat_length _ _)).
  rewrite nsum_zero; [lia|]. intros. apply nth_repeat0.
Qed.

(* the sampler succeeds on every in-range draw sequence that is long enough (so the theorems above
   are not vacuous for any generator output) *)
Lemma reg_draw_loop_total : forall cnt nrows samples draws,
  cnt <= length draws -> Forall (fun xi => xi < nrows) draws ->
  exists s', reg_draw_loop cnt nrows samples draws = Some s'.
Proof.
  induction cnt as [|cnt IH]; intros nrows samples draws L F; cbn [reg_draw_loop].
  - eexists. reflexivity.
  - destruct draws as [|xi rest]; [cbn in L; lia|]. inversion F as [|? ? F1 F2]; subst.
    apply Nat.ltb_lt in F1. rewrite F1. apply IH; [cbn in L; lia|exact F2].
Qed.
