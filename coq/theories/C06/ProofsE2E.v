(* C06 — composition with C05's end-to-end theorems (quick_argsort returns a sorting permutation over
   R): the range theorem without any hypothesis on the feature orders or on the tried features, and
   the majority-class clause for the member trees of a fitted classifier forest.
   A tried "feature" j >= p (not a column; cannot come from `variables = 0..p`) sweeps the empty order
   and leaves the running best unchanged, so the fit equals the fit with such entries filtered out;
   this removes C05's side condition `vars id` subset of 0..p.  The equality of the two split-search
   functions is stated with functional extensionality (already among the Reals axioms). *)
From Coq Require Import List Arith ZArith Bool Reals Lra Lia FunctionalExtensionality.
From SC Require Import Base.Num C05.Model C05.ProofsGrow C05.ProofsReg C05.ProofsCls C05.ProofsSorted C05.ProofsEndToEnd
     C06.Model C06.ProofsBoot C06.ProofsAgg C06.ProofsFit C06.ProofsRange.
Import ListNotations.
Local Open Scope nat_scope.

Lemma fold_left_skip {A} (F : A -> nat -> A) (keep : nat -> bool) :
  (forall a j, keep j = false -> F a j = a) ->
  forall l a, fold_left F l a = fold_left F (filter keep l) a.
Proof.
  intros H. induction l as [|j l IH]; intros a; cbn [fold_left filter]; [reflexivity|].
  destruct (keep j) eqn:K; cbn [fold_left]; [apply IH|]. rewrite (H a j K). apply IH.
Qed.

Definition in_cols (p : nat) (vars : nat -> list nat) : nat -> list nat :=
  fun id => filter (fun j => j <? p) (vars id).
Lemma in_cols_lt p vars id j : In j (in_cols p vars id) -> j < p.
Proof. unfold in_cols. intros H. apply filter_In in H as [_ H]. apply Nat.ltb_lt. exact H. Qed.

Section Filter.
  Context {T : Type} (O : Ops T).

  Lemma reg_find_in_cols x y order msl mss vars :
    reg_find O x y order msl mss vars = reg_find O x y order msl mss (in_cols (length order) vars).
  Proof.
    extensionality id. extensionality out. extensionality samples. unfold reg_find, in_cols.
    destruct (sum_nat samples <? mss); [reflexivity|]. apply fold_left_skip.
    intros best j K. apply Nat.ltb_ge in K. unfold reg_find_best_split.
    rewrite (nth_overflow order [] K). reflexivity.
  Qed.

  Lemma cls_find_in_cols lg2 crit x yi k order msl mss vars :
    cls_find O lg2 crit x yi k order msl mss vars =
    cls_find O lg2 crit x yi k order msl mss (in_cols (length order) vars).
  Proof.
    extensionality id. extensionality out. extensionality samples. unfold cls_find, in_cols.
    destruct (is_pure x yi samples); [reflexivity|]. destruct (sum_nat samples <=? mss); [reflexivity|].
    apply fold_left_skip. intros best j K. apply Nat.ltb_ge in K. unfold cls_find_best_split.
    rewrite (nth_overflow order [] K). reflexivity.
  Qed.
End Filter.

Lemma argsort_columns_length x p order : argsort_columns ROps x p = Some order -> length order = p.
Proof. intros H. apply (argsort_columns_sorted x p order H). Qed.

Lemma fit_regressor_weak_in_cols x y s vars md msl mss :
  fit_regressor_weak ROps x y s vars md msl mss =
  fit_regressor_weak ROps x y s (in_cols (length (hd [] x)) vars) md msl mss.
Proof.
  unfold fit_regressor_weak. destruct (argsort_columns ROps x (length (hd [] x))) as [order|] eqn:E; [|reflexivity].
  unfold fit_regressor_with_order. rewrite (reg_find_in_cols ROps x y order msl mss vars).
  rewrite (argsort_columns_length _ _ _ E). reflexivity.
Qed.

Lemma fit_classifier_weak_in_cols lg2 crit x y s vars md msl mss :
  fit_classifier_weak ROps lg2 crit x y s vars md msl mss =
  fit_classifier_weak ROps lg2 crit x y s (in_cols (length (hd [] x)) vars) md msl mss.
Proof.
  unfold fit_classifier_weak. destruct (length (unique_T ROps y) <? 2); [reflexivity|].
  destruct (mapM (fun v => position_T ROps v (unique_T ROps y)) y) as [yi|]; [|reflexivity].
  destruct (argsort_columns ROps x (length (hd [] x))) as [order|] eqn:E; [|reflexivity].
  unfold fit_classifier_with_order. rewrite (cls_find_in_cols ROps lg2 crit x yi _ order msl mss vars).
  rewrite (argsort_columns_length _ _ _ E). reflexivity.
Qed.

(* every prediction of a fitted regression tree, for ANY row, any sample counts with a positive total
   and any tried features, is within the range of the targets — no hypothesis on the orders *)
Lemma tree_predict_in_range_e2e x y s vars md msl mss nodes d lo hi :
  length y = length x -> length s = length x -> (0 < sum_nat s)%nat -> (1 <= msl)%nat ->
  (forall i, (i < length y)%nat -> (lo <= nth i y 0 <= hi)%R) ->
  fit_regressor_weak ROps x y s vars md msl mss = Some (nodes, d) ->
  forall row v, predict_for_row ROps nodes row = Some v -> (lo <= v <= hi)%R.
Proof.
  intros Hy Hs Hpos Hmsl Hb H row v P. rewrite fit_regressor_weak_in_cols in H.
  destruct (leaf_value_regression_weak x y s _ md msl mss nodes d Hy Hs (in_cols_lt _ vars) H)
    as (G & D & C & _ & M).
  pose proof (consistent_wf ROps 0%R x msl _ s nodes G D C) as WF.
  destruct (predict_routes ROps nodes row WF) as (k & nd & _ & Nk & _ & Pk).
  rewrite Pk in P. injection P as <-.
  destruct (nth_error_nth' nodes k (dnode 0%R) nd Nk) as [E Lk]. rewrite <- E.
  destruct (tc_out ROps 0%R x msl _ s nodes G D C k Lk) as [Hl _].
  assert (Pk' : (0 < sum_nat (G k))%nat).
  { destruct k as [|k].
    - rewrite (tc_rootG ROps 0%R x msl _ s nodes G D C). exact Hpos.
    - pose proof (tc_size ROps 0%R x msl _ s nodes G D C (S k)). lia. }
  specialize (M k Lk Pk'). rewrite (sum_nat_nsum (G k) (length x) Hl) in M, Pk'.
  apply (wmean_in_range (fun i => nth i (G k) 0%nat) (fun i => nth i y 0%R) lo hi (seq 0 (length x))); auto.
  intros i Hi. apply in_seq in Hi. apply Hb. lia.
Qed.

Lemma rforest_in_range_e2e x y n oracle md msl mss keep f lo hi :
  x <> [] -> length y = length x -> (1 <= msl)%nat ->
  (forall i, (i < length y)%nat -> (lo <= nth i y 0 <= hi)%R) ->
  fit_rforest ROps x y n oracle md msl mss keep = Some f ->
  Forall (tree_in_range lo hi) (rf_trees f).
Proof.
  intros NE Hy Hmsl Hb H.
  destruct (rforest_members ROps x y n oracle md msl mss keep f H) as (L & _ & _ & M).
  apply Forall_forall. intros tr Htr. apply In_nth_error in Htr as [t Ht].
  assert (Lt : (t < n)%nat). { rewrite <- L. apply nth_error_Some. congruence. }
  destruct (M t Lt) as (s & tr' & A1 & A2 & A3 & A4 & _). rewrite Ht in A2. injection A2 as <-.
  destruct tr as [nodes d]. intros row v P. cbn [fst] in P.
  apply (tree_predict_in_range_e2e x y s (snd (oracle t)) md msl mss nodes d lo hi) with (row := row); auto.
  rewrite A4. destruct x; [contradiction|cbn; lia].
Qed.

(* member trees of a fitted classifier forest: every node's output is a majority class of the
   bootstrap-weighted training rows routed to it *)
Lemma cforest_member_majority lg2 crit x y n oracle md msl mss keep f :
  length y = length x ->
  fit_cforest ROps lg2 crit x y n oracle md msl mss keep = Some f ->
  forall t, (t < n)%nat ->
  exists s classes nodes d,
    nth_error (cf_trees f) t = Some (classes, nodes, d) /\
    length s = length x /\ sum_nat s = length x /\
    (keep = true -> exists masks, cf_samples f = Some masks /\ nth_error masks t = Some (mask_of s)) /\
    exists yi, length yi = length x /\
      (forall i, (i < length x)%nat -> (nth i yi 0 < length classes)%nat /\ nth (nth i yi 0%nat) classes 0%R = nth i y 0%R) /\
      exists G D, tree_consistent ROps 0%nat x msl (cls_out_ok x yi (length classes)) s nodes G D /\
        (forall i k, (i < length x)%nat -> (k < length nodes)%nat ->
          (route ROps nodes (nth i x []) k -> nth i (G k) 0%nat = nth i s 0%nat) /\
          (~ route ROps nodes (nth i x []) k -> nth i (G k) 0%nat = 0%nat)) /\
        forall k, (k < length nodes)%nat ->
          (output (nth k nodes (dnode 0%nat)) < length classes)%nat /\
          forall c, (nth c (cvec x yi (length classes) (G k)) 0 <=
                     nth (output (nth k nodes (dnode 0%nat))) (cvec x yi (length classes) (G k)) 0)%nat.
Proof.
  intros Hy H t Ht.
  destruct (cforest_bootstrap_stratified ROps lg2 (fun a b E => proj1 (Reqb_true a b) E)
              (fun a => proj2 (Reqb_true a a) eq_refl) crit x y n oracle md msl mss keep f 0%R H t Ht)
    as (s & tr & A1 & A2 & A3 & A4 & A5 & _).
  destruct tr as [[classes nodes] d]. exists s, classes, nodes, d.
  split; [exact A2|]. split; [congruence|]. split; [congruence|]. split; [exact A5|].
  rewrite fit_classifier_weak_in_cols in A1.
  apply (leaf_value_classification_weak lg2 crit x y s (in_cols (length (hd [] x)) (snd (oracle t))) md msl mss classes nodes d Hy); [congruence| |exact A1].
  apply in_cols_lt.
Qed.
