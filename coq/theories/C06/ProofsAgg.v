(* C06 — proofs about the fit loop and the aggregation of the member trees' predictions
   (vote, mean, out-of-bag selection).  Everything here holds for every number type (`Ops T`),
   every oracle and every list of member trees; axiom-free. *)
From Coq Require Import List Arith Bool Lia.
From SC Require Import Base.Num C05.Model C05.ProofsGrow C05.ProofsReg C05.ProofsCls C06.Model C06.ProofsBoot.
Import ListNotations.

(* ------------------------------------------------------------------------------------------ *)
(* fit loop                                                                                    *)
(* ------------------------------------------------------------------------------------------ *)
Section FitLoopProofs.
  Context {Tree : Type}.
  Variable sample : list nat -> option (list nat).
  Variable fit_tree : list nat -> (nat -> list nat) -> option Tree.
  Variable oracle : nat -> list nat * (nat -> list nat).

  (* tree t was grown on the bootstrap sample drawn for it, and mask t is that sample's support *)
  Definition member_ok (trees : list Tree) (masks : list (list bool)) (t : nat) : Prop :=
    exists s tr, sample (fst (oracle t)) = Some s /\ fit_tree s (snd (oracle t)) = Some tr /\
                 nth_error trees t = Some tr /\ nth_error masks t = Some (mask_of s).

  Lemma fit_loop_spec : forall n trees masks,
    fit_loop sample fit_tree oracle n = Some (trees, masks) ->
    length trees = n /\ length masks = n /\ forall t, t < n -> member_ok trees masks t.
  Proof.
    unfold fit_loop. induction n as [|n IH]; intros trees masks H.
    - cbn in H. injection H as <- <-. repeat split; auto. intros; lia.
    - rewrite seq_S, fold_left_app in H. cbn [Nat.add fold_left] in H.
      destruct (fold_left (fit_step sample fit_tree oracle) (seq 0 n) (Some ([], []))) as [[tr0 mk0]|] eqn:E;
        [|discriminate].
      destruct (IH tr0 mk0 eq_refl) as (L1 & L2 & M). cbn [fit_step] in H.
      destruct (sample (fst (oracle n))) as [s|] eqn:S1; [|discriminate].
      destruct (fit_tree s (snd (oracle n))) as [tr|] eqn:F1; [|discriminate].
      injection H as <- <-. rewrite !app_length. cbn [length]. split; [lia|]. split; [lia|].
      intros t Ht. destruct (Nat.eq_dec t n) as [->|Nt].
      + exists s, tr. repeat split; auto.
        * rewrite nth_error_app2 by lia. rewrite L1, Nat.sub_diag. reflexivity.
        * rewrite nth_error_app2 by lia. rewrite L2, Nat.sub_diag. reflexivity.
      + destruct (M t) as (s' & tr' & A1 & A2 & A3 & A4); [lia|]. exists s', tr'. repeat split; auto.
        * rewrite nth_error_app1 by lia. exact A3.
        * rewrite nth_error_app1 by lia. exact A4.
  Qed.
End FitLoopProofs.

Lemma Forall2_len {A B} (R : A -> B -> Prop) l1 l2 : Forall2 R l1 l2 -> length l1 = length l2.
Proof. induction 1; cbn; auto. Qed.

Lemma mask_of_length s : length (mask_of s) = length s.
Proof. apply map_length. Qed.
Lemma mask_of_nth s i : i < length s -> nth_error (mask_of s) i = Some (negb (nth i s 0 =? 0)).
Proof.
  intros H. unfold mask_of. rewrite nth_error_map. rewrite (nth_nth_error s i 0 H). reflexivity.
Qed.

(* ------------------------------------------------------------------------------------------ *)
(* out-of-bag aggregation = ordinary aggregation over the sub-forest of out-of-bag trees       *)
(* ------------------------------------------------------------------------------------------ *)
Section AggProofs.
  Context {Tr Acc : Type}.
  Variable step : Acc -> Tr -> option Acc.

  Lemma agg_none (trees : list Tr) :
    fold_left (fun acc tr => match acc with None => None | Some a => step a tr end) trees None = None.
  Proof. induction trees; cbn; auto. Qed.

  Lemma agg_oob_members : forall trees masks i a0,
    Forall (fun m => i < length m) masks ->
    agg_oob step trees masks i a0 = agg_all step (oob_members trees masks i) a0.
  Proof.
    unfold agg_oob, agg_all, oob_members. intros trees masks i a0 F.
    generalize (Some a0) as acc. revert masks F.
    induction trees as [|tr trees IH]; intros masks F acc; [reflexivity|].
    destruct masks as [|m masks]; [reflexivity|]. inversion F as [|? ? F1 F2]; subst.
    cbn [combine fold_left filter snd fst].
    destruct (nth_error m i) as [b|] eqn:E; [|apply nth_error_None in E; lia].
    rewrite (proj1 (nth_error_nth' m i true b E)).
    destruct acc as [a|].
    - destruct b; cbn [negb map fold_left fst]; apply IH; exact F2.
    - destruct b; cbn [negb map fold_left fst]; apply IH; exact F2.
  Qed.

  Lemma oob_members_length_le (trees : list Tr) masks i : length (oob_members trees masks i) <= length trees.
  Proof.
    unfold oob_members. rewrite map_length. revert masks.
    induction trees as [|a trees IH]; intros masks; [cbn; lia|].
    destruct masks as [|m masks]; [cbn; lia|]. cbn [combine filter snd].
    specialize (IH masks). destruct (negb (nth i m true)); cbn [length]; lia.
  Qed.

  (* membership: a tree takes part iff its mask excludes row i *)
  Lemma oob_members_In (trees : list Tr) masks i tr :
    In tr (oob_members trees masks i) <->
    exists t m, nth_error trees t = Some tr /\ nth_error masks t = Some m /\ nth i m true = false.
  Proof.
    unfold oob_members. rewrite in_map_iff. split.
    - intros ([tr' m] & <- & H). apply filter_In in H as [H1 H2]. cbn [snd fst] in *.
      apply In_nth_error in H1 as [t Ht]. exists t, m.
      revert masks t Ht. induction trees as [|a trees IH]; intros masks t Ht; [destruct t; discriminate|].
      destruct masks as [|b masks]; [destruct t; discriminate|]. destruct t as [|t]; cbn in *.
      + injection Ht as -> ->. repeat split; auto. apply negb_true_iff. exact H2.
      + apply IH. exact Ht.
    - intros (t & m & H1 & H2 & H3). exists (tr, m). split; [reflexivity|]. apply filter_In. split.
      + revert masks t H1 H2. induction trees as [|a trees IH]; intros masks t H1 H2; [destruct t; discriminate|].
        destruct masks as [|b masks]; [destruct t; discriminate|]. destruct t as [|t]; cbn in *.
        * left. congruence.
        * right. eapply IH; eauto.
      + cbn [snd]. rewrite H3. reflexivity.
  Qed.
End AggProofs.

(* ------------------------------------------------------------------------------------------ *)
(* the vote                                                                                    *)
(* ------------------------------------------------------------------------------------------ *)
Section VoteProofs.
  Context {T : Type} (O : Ops T).

  (* preds = the member trees' own predictions for `row`, in tree order *)
  Definition member_preds (trees : list (ctree T)) (row : list T) (preds : list nat) : Prop :=
    Forall2 (fun tr c => predict_for_row O (ct_nodes tr) row = Some c) trees preds.

  Lemma votes_spec row : forall trees r0 r,
    agg_all (vote_step O row) trees r0 = Some r ->
    exists preds, member_preds trees row preds /\ Forall (fun c => c < length r0) preds /\
                  length r = length r0 /\
                  forall c, nth c r 0 = nth c r0 0 + count_occ Nat.eq_dec preds c.
  Proof.
    unfold agg_all. induction trees as [|tr trees IH]; intros r0 r H.
    - cbn in H. injection H as <-. exists []. repeat split; auto. constructor.
    - cbn [fold_left] in H. unfold vote_step at 2 in H.
      destruct (predict_for_row O (ct_nodes tr) row) as [c|] eqn:P; [|rewrite agg_none in H; discriminate].
      destruct (c <? length r0) eqn:L; [|rewrite agg_none in H; discriminate]. apply Nat.ltb_lt in L.
      destruct (IH _ _ H) as (preds & M & B & Len & Cnt). rewrite add_at_length in *.
      exists (c :: preds). split; [constructor; auto|]. split; [constructor; auto|]. split; [exact Len|].
      intros c'. rewrite Cnt, (nth_add_at r0 c 1 c' L). cbn [count_occ].
      destruct (Nat.eq_dec c c') as [->|N].
      + rewrite Nat.eqb_refl. lia.
      + destruct (Nat.eqb_spec c' c); [congruence|lia].
  Qed.

  (* forest_vote: the forest's class index is a plurality class of its members' predictions *)
  Lemma cf_predict_for_row_plurality (f : cforest T) row c :
    0 < length (cf_classes f) ->
    cf_predict_for_row O f row = Some c ->
    exists preds, member_preds (cf_trees f) row preds /\
                  Forall (fun c' => c' < length (cf_classes f)) preds /\
                  c < length (cf_classes f) /\
                  forall c', count_occ Nat.eq_dec preds c' <= count_occ Nat.eq_dec preds c.
  Proof.
    intros K H. unfold cf_predict_for_row in H.
    destruct (agg_all (vote_step O row) (cf_trees f) (repeat 0 (length (cf_classes f)))) as [r|] eqn:E;
      [|discriminate]. cbn [option_map] in H. injection H as <-.
    destruct (votes_spec row _ _ _ E) as (preds & M & B & Len & Cnt). rewrite repeat_length in *.
    exists preds. split; [exact M|]. split; [exact B|].
    assert (NE : r <> []) by (intros ->; cbn in Len; lia).
    destruct (which_max_spec r NE) as [W1 W2]. split; [lia|].
    intros c'. specialize (W2 c'). rewrite !Cnt, !nth_repeat0 in W2. lia.
  Qed.
End VoteProofs.

(* ------------------------------------------------------------------------------------------ *)
(* the mean                                                                                    *)
(* ------------------------------------------------------------------------------------------ *)
Section MeanProofs.
  Context {T : Type} (O : Ops T).

  Definition member_vals (trees : list (rtree T)) (row : list T) (preds : list T) : Prop :=
    Forall2 (fun tr v => predict_for_row O (fst tr) row = Some v) trees preds.

  Lemma sum_spec row : forall trees s0 s,
    agg_all (sum_step O row) trees s0 = Some s ->
    exists preds, member_vals trees row preds /\ s = fold_left O.(oadd) preds s0.
  Proof.
    unfold agg_all. induction trees as [|tr trees IH]; intros s0 s H.
    - cbn in H. injection H as <-. exists []. split; [constructor|reflexivity].
    - cbn [fold_left] in H. unfold sum_step at 2 in H.
      destruct (predict_for_row O (fst tr) row) as [v|] eqn:P; [|rewrite agg_none in H; discriminate].
      destruct (IH _ _ H) as (preds & M & ->). exists (v :: preds). split; [constructor; auto|reflexivity].
  Qed.

  Lemma sum_cnt_spec row : forall trees s0 n0 s n,
    agg_all (sum_cnt_step O row) trees (s0, n0) = Some (s, n) ->
    agg_all (sum_step O row) trees s0 = Some s /\ n = n0 + length trees.
  Proof.
    unfold agg_all. induction trees as [|tr trees IH]; intros s0 n0 s n H.
    - cbn in H. injection H as <- <-. split; [reflexivity|cbn; lia].
    - cbn [fold_left] in *. unfold sum_cnt_step at 2 in H. unfold sum_step at 2.
      destruct (predict_for_row O (fst tr) row) as [v|] eqn:P; [|rewrite agg_none in H; discriminate].
      cbn [fst snd] in H. destruct (IH _ _ _ _ H) as [A B]. split; [exact A|cbn [length]; lia].
  Qed.
  Lemma sum_cnt_none row : forall trees s0 n0,
    agg_all (sum_cnt_step O row) trees (s0, n0) = None -> agg_all (sum_step O row) trees s0 = None.
  Proof.
    unfold agg_all. induction trees as [|tr trees IH]; intros s0 n0 H; [discriminate|].
    cbn [fold_left] in *. unfold sum_cnt_step at 2 in H. unfold sum_step at 2.
    destruct (predict_for_row O (fst tr) row) as [v|] eqn:P; [|apply agg_none].
    cbn [fst snd] in H. eapply IH. exact H.
  Qed.

  (* forest_mean: sum of the members' predictions in tree order, divided by the number of members *)
  Lemma rf_predict_for_row_mean (f : rforest T) row v :
    rf_predict_for_row O f row = Some v ->
    exists preds, member_vals (rf_trees f) row preds /\
                  v = O.(odiv) (fold_left O.(oadd) preds O.(o0)) (ofn O (length preds)).
  Proof.
    unfold rf_predict_for_row. intros H.
    destruct (agg_all (sum_step O row) (rf_trees f) (o0 O)) as [s|] eqn:E; [|discriminate].
    cbn [option_map] in H. injection H as <-. destruct (sum_spec row _ _ _ E) as (preds & M & ->).
    exists preds. split; [exact M|]. replace (length preds) with (length (rf_trees f)) by (exact (Forall2_len _ _ _ M)). reflexivity.
  Qed.

  (* the out-of-bag mean is the ordinary forest mean of the sub-forest of out-of-bag trees *)
  Lemma rf_oob_is_subforest (f : rforest T) masks row i :
    Forall (fun m => i < length m) masks ->
    rf_predict_for_row_oob O f masks row i =
    rf_predict_for_row O (mkRF (oob_members (rf_trees f) masks i) None) row.
  Proof.
    intros F. unfold rf_predict_for_row_oob, rf_predict_for_row. cbn [rf_trees].
    rewrite (agg_oob_members _ _ _ _ _ F).
    destruct (agg_all (sum_cnt_step O row) (oob_members (rf_trees f) masks i) (o0 O, 0)) as [[s n]|] eqn:E.
    - destruct (sum_cnt_spec row _ _ _ _ _ E) as [-> ->]. reflexivity.
    - rewrite (sum_cnt_none row _ _ _ E). reflexivity.
  Qed.

  Lemma cf_oob_is_subforest (f : cforest T) masks row i :
    Forall (fun m => i < length m) masks ->
    cf_predict_for_row_oob O f masks row i =
    cf_predict_for_row O (mkCF (oob_members (cf_trees f) masks i) (cf_classes f) None) row.
  Proof.
    intros F. unfold cf_predict_for_row_oob, cf_predict_for_row. cbn [cf_trees cf_classes].
    rewrite (agg_oob_members _ _ _ _ _ F). reflexivity.
  Qed.
End MeanProofs.
