(* C06 — a concrete exact-arithmetic instance on which every hypothesis of the range theorem holds
   (the comparisons of quick_argsort over R are decided by rewriting with lra). *)
From Coq Require Import List Arith ZArith Bool Reals Lra Lia Permutation Sorted.
From SC Require Import Base.Num C05.Model C05.ProofsGrow C05.ProofsReg C06.Model C06.ProofsBoot C06.ProofsAgg C06.ProofsFit C06.ProofsRange.
Import ListNotations.
Local Open Scope R_scope.
#[local] Arguments Rleb : simpl never.
#[local] Arguments Rltb : simpl never.
#[local] Arguments Reqb : simpl never.
Ltac rdec :=
  cbn; repeat (
   match goal with
   | |- context [Rleb ?a ?b] => first [rewrite (proj2 (Rleb_true a b)) by lra | rewrite (proj2 (Rleb_false a b)) by lra]
   | |- context [Rltb ?a ?b] => first [rewrite (proj2 (Rltb_true a b)) by lra | rewrite (proj2 (Rltb_false a b)) by lra]
   | |- context [Reqb ?a ?b] => first [rewrite (proj2 (Reqb_true a b)) by lra | rewrite (proj2 (Reqb_false a b)) by lra]
   end; cbn).

Definition xr : list (list R) := [[1];[3];[2]].
Lemma argsort_xr : argsort_columns ROps xr 1 = Some [[0;2;1]%nat].
Proof.
  unfold xr, argsort_columns. cbn [seq mapM column map rowget nth ROps o0].
  unfold quick_argsort. cbn [length combine seq Nat.mul Nat.add qs_loop Nat.sub Nat.ltb Nat.leb].
  unfold insertion. cbn [seq Nat.sub fold_left].
  rdec. reflexivity.
Qed.

Definition yr : list R := [1; 5; 3].
Definition orc (t : nat) : list nat * (nat -> list nat) :=
  (match t with 0%nat => [0; 2; 2]%nat | _ => [1; 1; 0]%nat end, fun _ => [0%nat]).

Lemma orders_sorted_xr : orders_sorted xr (fun _ => [0%nat]).
Proof.
  intros order H id j [<-|[]]. change (length (hd [] xr)) with 1%nat in H. rewrite argsort_xr in H. injection H as <-. cbn [nth]. split.
  - cbn. apply perm_skip. apply perm_swap.
  - unfold X, getx, xr. repeat constructor; cbn; lra.
Qed.

(* min_samples_split = 10 > 3 rows: every member tree is its root (the weighted mean of its sample) *)
Lemma fit_xr : exists f, fit_rforest ROps xr yr 2 orc None 1 10 true = Some f /\ length (rf_trees f) = 2%nat.
Proof.
  eexists. unfold fit_rforest, fit_loop. cbn [seq fold_left fit_step orc fst snd length xr].
  cbn [reg_sample_with_replacement reg_draw_loop repeat Nat.ltb Nat.leb add_at set_nth length firstn skipn nth Nat.add app].
  unfold fit_regressor_weak. cbn [xr hd length]. fold xr. rewrite argsort_xr.
  unfold fit_regressor_with_order, root_stats, grow_tree, find_best_cutoff, reg_find. cbn. split; reflexivity.
Qed.
