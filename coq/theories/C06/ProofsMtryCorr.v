(* C06 — what the boolean check `oracle_okb` of the correspondence (C06/Corr.v) means: when it
   evaluates to `true` on the recorded draws and feature lists, every tree consumed exactly n draws and
   every feature list the model's member trees are given is a valid subsample in the sense of
   ProofsMtry.v (min(mtry,p) distinct column indices = the mtry-prefix of a permutation of 0..p-1 =
   a possible value of `node_vars`); node ids without a record get all features 0..p-1. *)
From Coq Require Import List Arith NArith Bool Lia Permutation.
From SC Require Import Base.Num C05.Model C06.Model.
From SC Require Import C06.ProofsMtry.
From SC Require C05.Corr C06.Corr.
Import ListNotations.

Lemma oracle_okb_sound n p mtry (l : SC.C06.Corr.oracle_lit) :
  SC.C06.Corr.oracle_okb n p mtry l = true ->
  forall t, t < length l ->
    length (fst (SC.C06.Corr.oracle_of p l t)) = n /\
    forall id, let vs := snd (SC.C06.Corr.oracle_of p l t) id in
      vs = seq 0 p \/
      (valid_subsample p mtry vs /\ exists perm, Permutation (seq 0 p) perm /\ vs = firstn mtry perm).
Proof.
  unfold SC.C06.Corr.oracle_okb. rewrite forallb_forall. intros H t Ht.
  unfold SC.C06.Corr.oracle_of. destruct (nth_error l t) as [[d tab]|] eqn:E; [|apply nth_error_None in E; lia].
  apply nth_error_In in E. specialize (H _ E). cbn [fst snd] in H.
  apply andb_true_iff in H. destruct H as (H1 & H2). apply Nat.eqb_eq in H1. cbn [fst snd]. split.
  - unfold SC.C05.Corr.to_nats. rewrite map_length. exact H1.
  - intros id. cbn zeta. unfold SC.C05.Corr.vars_of.
    destruct (find _ tab) as [e|] eqn:F; [|left; reflexivity]. right.
    apply find_some in F. destruct F as (F & _). rewrite forallb_forall in H2. specialize (H2 _ F).
    apply vars_okb_valid in H2. split; [exact H2|]. apply valid_subsample_iff_prefix. exact H2.
Qed.
