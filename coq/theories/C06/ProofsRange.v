(* C06 — exact-arithmetic (ROps) proofs: the forest mean is the arithmetic mean, and every prediction
   of a fitted regressor forest (also for unseen rows, also out of bag) lies within the range of the
   training targets.  Uses C05's leaf-value invariant (every node's output is the weighted mean target
   of the rows routed to it), hence its hypothesis that the feature orders are sorting permutations. *)
From Coq Require Import List Arith Bool Reals Lra Lia.
From SC Require Import Base.Num C05.Model C05.ProofsGrow C05.ProofsReg
     C06.Model C06.ProofsBoot C06.ProofsAgg C06.ProofsFit.
Import ListNotations.
Local Open Scope R_scope.

Definition Rsum (l : list R) : R := fold_right Rplus 0 l.
Lemma fold_left_Rplus l : forall a, fold_left Rplus l a = a + Rsum l.
Proof. induction l as [|v l IH]; intros a; cbn [fold_left Rsum fold_right]; [lra|]. rewrite IH. unfold Rsum. lra. Qed.

Lemma Rsum_bounds lo hi l : Forall (fun v => lo <= v <= hi) l ->
  lo * IZN (length l) <= Rsum l <= hi * IZN (length l).
Proof.
  induction 1 as [|v l Hv F IH]; cbn [Rsum fold_right length].
  - unfold IZN. cbn. lra.
  - replace (S (length l)) with (1 + length l)%nat by lia. rewrite IZN_plus. unfold IZN at 1 3. cbn [Z.of_nat].
    fold (Rsum l). cbn. lra.
Qed.

Lemma mean_in_range lo hi l v : Forall (fun u => lo <= u <= hi) l -> (0 < length l)%nat ->
  v = Rsum l / IZN (length l) -> lo <= v <= hi.
Proof.
  intros F P ->. pose proof (Rsum_bounds lo hi l F) as [B1 B2]. pose proof (IZN_pos _ P) as Q.
  split.
  - apply Rmult_le_reg_r with (IZN (length l)); [exact Q|]. unfold Rdiv. rewrite Rmult_assoc, Rinv_l by lra. lra.
  - apply Rmult_le_reg_r with (IZN (length l)); [exact Q|]. unfold Rdiv. rewrite Rmult_assoc, Rinv_l by lra. lra.
Qed.

(* a weighted mean with natural weights lies between the bounds of the values *)
Lemma wsum_bounds (w : nat -> nat) (yv : nat -> R) lo hi l :
  (forall i, In i l -> lo <= yv i <= hi) ->
  lo * IZN (nsum w l) <= rsum (fun i => IZN (w i) * yv i) l <= hi * IZN (nsum w l).
Proof.
  induction l as [|a l IH]; intros H; cbn [nsum rsum].
  - unfold IZN. cbn. lra.
  - rewrite IZN_plus. destruct IH as [I1 I2]; [intros i Hi; apply H; right; exact Hi|].
    destruct (H a (or_introl eq_refl)) as [A1 A2].
    assert (W : 0 <= IZN (w a)) by (unfold IZN; apply IZR_le; lia).
    split; nra.
Qed.
Lemma wmean_in_range (w : nat -> nat) (yv : nat -> R) lo hi l out :
  (forall i, In i l -> lo <= yv i <= hi) -> (0 < nsum w l)%nat ->
  out * IZN (nsum w l) = rsum (fun i => IZN (w i) * yv i) l -> lo <= out <= hi.
Proof.
  intros H P E. destruct (wsum_bounds w yv lo hi l H) as [B1 B2]. pose proof (IZN_pos _ P) as Q.
  rewrite <- E in B1, B2. split; apply Rmult_le_reg_r with (IZN (nsum w l)); auto; lra.
Qed.

(* the hypothesis inherited from C05: the orders computed by quick_argsort for the tried features are
   sorting permutations of the rows (C05 proves the permutation half; sortedness is validated at run time) *)
Definition orders_sorted (x : list (list R)) (vars : nat -> list nat) : Prop :=
  forall order, argsort_columns ROps x (length (hd [] x)) = Some order ->
    forall id j, In j (vars id) -> sorted_order x j (nth j order []).

(* every prediction of a fitted regression tree (for ANY row) is within the range of the targets *)
Lemma tree_predict_in_range x y s vars md msl mss nodes d lo hi :
  length y = length x -> length s = length x -> (0 < sum_nat s)%nat -> (1 <= msl)%nat ->
  orders_sorted x vars ->
  (forall i, (i < length y)%nat -> lo <= nth i y 0 <= hi) ->
  fit_regressor_weak ROps x y s vars md msl mss = Some (nodes, d) ->
  forall row v, predict_for_row ROps nodes row = Some v -> lo <= v <= hi.
Proof.
  intros Hy Hs Hpos Hmsl Hord Hb H row v P. unfold fit_regressor_weak in H.
  destruct (argsort_columns ROps x (length (hd [] x))) as [order|] eqn:AO; [|discriminate].
  destruct (fit_regressor_consistent x y s vars order md msl mss nodes d Hy Hs (Hord order AO) H)
    as (G & D & C & _).
  pose proof (consistent_wf ROps 0 x msl _ s nodes G D C) as WF.
  destruct (predict_routes ROps nodes row WF) as (k & nd & _ & Nk & _ & Pk).
  rewrite Pk in P. injection P as <-.
  destruct (nth_error_nth' nodes k (dnode 0) nd Nk) as [E Lk]. rewrite <- E.
  destruct (tc_out ROps 0 x msl _ s nodes G D C k Lk) as [Hl Hm].
  assert (Pk' : (0 < sum_nat (G k))%nat).
  { destruct k as [|k].
    - rewrite (tc_rootG ROps 0 x msl _ s nodes G D C). exact Hpos.
    - pose proof (tc_size ROps 0 x msl _ s nodes G D C (S k)). lia. }
  specialize (Hm Hl Pk'). rewrite (sum_nat_nsum (G k) (length x) Hl) in Hm, Pk'.
  unfold wsum, Y, gety in Hm. cbn [ROps o0] in Hm.
  apply (wmean_in_range (fun i => nth i (G k) 0%nat) (fun i => nth i y 0) lo hi (seq 0 (length x))); auto.
  intros i Hi. apply in_seq in Hi. apply Hb. lia.
Qed.

Section ForestRange.
  Variables lo hi : R.
  Definition tree_in_range (tr : rtree R) : Prop :=
    forall row v, predict_for_row ROps (fst tr) row = Some v -> lo <= v <= hi.

  (* forest_mean over R: n * prediction = sum of the members' predictions *)
  Lemma rf_mean_R (f : rforest R) row v :
    rf_predict_for_row ROps f row = Some v ->
    exists preds, member_vals ROps (rf_trees f) row preds /\ v = Rsum preds / IZN (length preds).
  Proof.
    intros H. destruct (rf_predict_for_row_mean ROps f row v H) as (preds & M & E).
    exists preds. split; [exact M|]. rewrite E, ofn_R. cbn [ROps oadd odiv o0].
    rewrite fold_left_Rplus. f_equal. lra.
  Qed.

  Lemma forest_in_range (trees : list (rtree R)) smp row v :
    Forall tree_in_range trees -> trees <> [] ->
    rf_predict_for_row ROps (mkRF trees smp) row = Some v -> lo <= v <= hi.
  Proof.
    intros F NE H. destruct (rf_mean_R _ row v H) as (preds & M & E). cbn [rf_trees] in M.
    apply (mean_in_range lo hi preds v); [| |exact E].
    - clear -F M. induction M as [|tr p trees preds Hp M IH]; [constructor|].
      inversion F as [|? ? F1 F2]; subst. constructor; [exact (F1 row p Hp)|exact (IH F2)].
    - rewrite <- (Forall2_len _ _ _ M). destruct trees; [contradiction|cbn; lia].
  Qed.
End ForestRange.

(* regressor_within_target_range *)
Lemma rforest_in_range x y n oracle md msl mss keep f lo hi :
  x <> [] -> length y = length x -> (1 <= msl)%nat ->
  (forall t, (t < n)%nat -> orders_sorted x (snd (oracle t))) ->
  (forall i, (i < length y)%nat -> lo <= nth i y 0 <= hi) ->
  fit_rforest ROps x y n oracle md msl mss keep = Some f ->
  Forall (tree_in_range lo hi) (rf_trees f).
Proof.
  intros NE Hy Hmsl Hord Hb H.
  destruct (rforest_members ROps x y n oracle md msl mss keep f H) as (L & _ & _ & M).
  apply Forall_forall. intros tr Htr. apply In_nth_error in Htr as [t Ht].
  assert (Lt : (t < n)%nat). { rewrite <- L. apply nth_error_Some. congruence. }
  destruct (M t Lt) as (s & tr' & A1 & A2 & A3 & A4 & _). rewrite Ht in A2. injection A2 as <-.
  destruct tr as [nodes d]. intros row v P. cbn [fst] in P.
  apply (tree_predict_in_range x y s (snd (oracle t)) md msl mss nodes d lo hi) with (row := row); auto.
  rewrite A4. destruct x; [contradiction|cbn; lia].
Qed.

Lemma oob_members_sub {Tr} (trees : list Tr) masks i (P : Tr -> Prop) :
  Forall P trees -> Forall P (oob_members trees masks i).
Proof.
  intros F. apply Forall_forall. intros tr H. apply oob_members_In in H as (t & m & H1 & _).
  apply nth_error_In in H1. revert tr H1. apply Forall_forall. exact F.
Qed.
