(* C06 — executable model of smartcore's random forests
   (src/ensemble/random_forest_classifier.rs, src/ensemble/random_forest_regressor.rs).
   Definitions only; proofs are in Proofs*.v.  The member trees are C05's model
   (`fit_classifier_weak`, `fit_regressor_weak`, `predict_for_row`).

   Transliteration notes
   - generic in `Ops T` (Base/Num.v): `ROps` for theorems, `FOps` for execution on binary64.
   - the single `StdRng` is not modelled (DESIGN 3.3): what it produced is an explicit argument
     `oracle : nat -> list nat * (nat -> list nat)`; `oracle t` is, for the t-th tree, the values
     returned by `rng.gen_range(..)` inside `sample_with_replacement`, in order, and the features
     tried at each node id of that tree (the first `mtry` entries of the shuffled `variables`,
     exactly the argument `vars` of C05's model).  Theorems quantify over all oracles, hence over
     all seeds; the correspondence check replays the draws recorded by the cfg hooks
     VERIF_FOREST_TRACE / VERIF_TREE_VARS.
   - `rng.gen_range(0..n)` returns a value < n; a draw outside its range (or a missing draw) makes the
     model return `None` (in Rust `index[xi]` / `samples[xi]` would panic).
   - classifier `sample_with_replacement`: `class_weight` is all 1, so
     `size = ((n_samples as f64) / 1.0) as usize = n_samples` (exact below 2^53).
   - `Err` / panic = `None`.  `keep_samples = false` leaves `samples = None`; the masks are then never
     built in Rust and are dropped here after the loop (same observable result).
   - `mtry` only determines how many features a node tries, i.e. the length of `vars id`; `mtry_of`
     and `vars_okb` state what an admissible oracle looks like. *)
From Coq Require Import List Arith ZArith Bool.
From SC Require Import Base.Num C05.Model.
Import ListNotations.

(* ------------------------------------------------------------------------------------------ *)
(* bootstrap sampling                                                                          *)
(* ------------------------------------------------------------------------------------------ *)
(* for _ in 0..size { let xi = rng.gen_range(0..n_samples); samples[index[xi]] += 1; }
   (index.len() = n_samples) ; returns the counts and the unread draws *)
Fixpoint draw_loop (size : nat) (index : list nat) (samples draws : list nat)
  : option (list nat * list nat) :=
  match size with
  | 0 => Some (samples, draws)
  | S s =>
      match draws with
      | [] => None
      | xi :: rest =>
          match nth_error index xi with
          | None => None
          | Some r => if r <? length samples then draw_loop s index (add_at samples r 1) rest else None
          end
      end
  end.

(* for (i, y_i) in y.iter().enumerate() { if *y_i == l { index.push(i) } } *)
Definition class_rows (yi : list nat) (l : nat) : list nat :=
  filter (fun i => nth i yi 0 =? l) (seq 0 (length yi)).

Definition cls_sample_class (yi : list nat) (st : option (list nat * list nat)) (l : nat)
  : option (list nat * list nat) :=
  match st with
  | None => None
  | Some (samples, draws) => let index := class_rows yi l in draw_loop (length index) index samples draws
  end.

(* RandomForestClassifier::sample_with_replacement(y, num_classes, rng) *)
Definition cls_sample_with_replacement (yi : list nat) (k : nat) (draws : list nat) : option (list nat) :=
  option_map fst (fold_left (cls_sample_class yi) (seq 0 k) (Some (repeat 0 (length yi), draws))).

(* RandomForestRegressor::sample_with_replacement(nrows, rng) *)
Fixpoint reg_draw_loop (cnt nrows : nat) (samples draws : list nat) : option (list nat) :=
  match cnt with
  | 0 => Some samples
  | S c =>
      match draws with
      | [] => None
      | xi :: rest => if xi <? nrows then reg_draw_loop c nrows (add_at samples xi 1) rest else None
      end
  end.
Definition reg_sample_with_replacement (nrows : nat) (draws : list nat) : option (list nat) :=
  reg_draw_loop nrows nrows (repeat 0 nrows) draws.

(* samples.iter().map(|x| *x != 0).collect() *)
Definition mask_of (samples : list nat) : list bool := map (fun c => negb (c =? 0)) samples.

(* parameters.m.unwrap_or(floor(sqrt(num_attributes))) *)
Definition mtry_of (m : option nat) (p : nat) : nat :=
  match m with Some v => v | None => Nat.sqrt p end.
Fixpoint nodupb (l : list nat) : bool :=
  match l with [] => true | a :: t => negb (existsb (Nat.eqb a) t) && nodupb t end.
(* what `variables.iter().take(mtry)` of a (shuffled) 0..p can be *)
Definition vars_okb (p mtry : nat) (vs : list nat) : bool :=
  (length vs =? Nat.min mtry p) && forallb (fun j => j <? p) vs && nodupb vs.

(* ------------------------------------------------------------------------------------------ *)
(* the fit loop, common to both forests                                                        *)
(* ------------------------------------------------------------------------------------------ *)
Section FitLoop.
  Context {Tree : Type}.
  Variable sample : list nat -> option (list nat).                  (* draws -> per-row counts *)
  Variable fit_tree : list nat -> (nat -> list nat) -> option Tree.  (* counts, tried features -> tree *)
  Variable oracle : nat -> list nat * (nat -> list nat).

  (* one iteration of `for _ in 0..parameters.n_trees` *)
  Definition fit_step (st : option (list Tree * list (list bool))) (t : nat)
    : option (list Tree * list (list bool)) :=
    match st with
    | None => None
    | Some (trees, masks) =>
        match sample (fst (oracle t)) with
        | None => None
        | Some s =>
            match fit_tree s (snd (oracle t)) with
            | None => None                                           (* fit_weak_learner(..)? *)
            | Some tr => Some (trees ++ [tr], masks ++ [mask_of s])
            end
        end
    end.
  Definition fit_loop (n_trees : nat) : option (list Tree * list (list bool)) :=
    fold_left fit_step (seq 0 n_trees) (Some ([], [])).
End FitLoop.

(* ------------------------------------------------------------------------------------------ *)
(* aggregation over the member trees, common to both forests                                   *)
(* ------------------------------------------------------------------------------------------ *)
Section Agg.
  Context {Tr Acc : Type}.
  Variable step : Acc -> Tr -> option Acc.        (* add one tree's prediction; None = panic *)

  (* for tree in self.trees.iter() { ... } *)
  Definition agg_all (trees : list Tr) (a0 : Acc) : option Acc :=
    fold_left (fun acc tr => match acc with None => None | Some a => step a tr end) trees (Some a0).

  (* for (tree, samples) in self.trees.iter().zip(self.samples) { if !samples[row] { ... } } *)
  Definition agg_oob (trees : list Tr) (masks : list (list bool)) (i : nat) (a0 : Acc) : option Acc :=
    fold_left (fun acc tm => match acc with
                             | None => None
                             | Some a => match nth_error (snd tm) i with
                                         | None => None                  (* samples[row] out of bounds *)
                                         | Some true => Some a
                                         | Some false => step a (fst tm)
                                         end
                             end) (combine trees masks) (Some a0).
End Agg.

(* ------------------------------------------------------------------------------------------ *)
(* RandomForestClassifier                                                                      *)
(* ------------------------------------------------------------------------------------------ *)
Definition ctree (T : Type) : Type := (list T * list (node T nat) * nat)%type.   (* classes, nodes, depth *)
Definition ct_nodes {T} (tr : ctree T) : list (node T nat) := snd (fst tr).

Record cforest (T : Type) := mkCF {
  cf_trees : list (ctree T); cf_classes : list T; cf_samples : option (list (list bool)) }.
Arguments mkCF {T}. Arguments cf_trees {T}. Arguments cf_classes {T}. Arguments cf_samples {T}.

Section CForest.
  Context {T : Type} (O : Ops T).
  Variable lg2 : T -> T.

  (* RandomForestClassifier::fit *)
  Definition fit_cforest (crit : criterion) (x : list (list T)) (y : list T) (n_trees : nat)
             (oracle : nat -> list nat * (nat -> list nat))
             (max_depth : option nat) (msl mss : nat) (keep : bool) : option (cforest T) :=
    let classes := unique_T O y in
    match mapM (fun v => position_T O v classes) y with
    | None => None                                                    (* position(..).unwrap() *)
    | Some yi =>
        let k := length classes in
        match fit_loop (cls_sample_with_replacement yi k)
                       (fun s vars => fit_classifier_weak O lg2 crit x y s vars max_depth msl mss)
                       oracle n_trees with
        | None => None
        | Some (trees, masks) => Some (mkCF trees classes (if keep then Some masks else None))
        end
    end.

  (* result[tree.predict_for_row(x, row)] += 1 *)
  Definition vote_step (row : list T) (r : list nat) (tr : ctree T) : option (list nat) :=
    match predict_for_row O (ct_nodes tr) row with
    | None => None
    | Some c => if c <? length r then Some (add_at r c 1) else None
    end.

  Definition cf_predict_for_row (f : cforest T) (row : list T) : option nat :=
    option_map which_max (agg_all (vote_step row) (cf_trees f) (repeat 0 (length (cf_classes f)))).
  Definition cf_predict_for_row_oob (f : cforest T) (masks : list (list bool)) (row : list T) (i : nat)
    : option nat :=
    option_map which_max (agg_oob (vote_step row) (cf_trees f) masks i (repeat 0 (length (cf_classes f)))).

  (* predict: self.classes[self.predict_for_row(x, i)] *)
  Definition cf_predict (f : cforest T) (rows : list (list T)) : option (list T) :=
    mapM (fun row => match cf_predict_for_row f row with
                     | None => None
                     | Some c => nth_error (cf_classes f) c
                     end) rows.

  (* predict_oob: Err without samples / when samples[0].len() != n *)
  Definition cf_predict_oob (f : cforest T) (x : list (list T)) : option (list T) :=
    match cf_samples f with
    | None => None
    | Some masks =>
        match masks with
        | [] => None                                                   (* samples[0] panics *)
        | m0 :: _ =>
            if negb (length m0 =? length x) then None
            else mapM (fun i => match cf_predict_for_row_oob f masks (nth i x []) i with
                                | None => None
                                | Some c => nth_error (cf_classes f) c
                                end) (seq 0 (length x))
        end
    end.
End CForest.

(* ------------------------------------------------------------------------------------------ *)
(* RandomForestRegressor                                                                       *)
(* ------------------------------------------------------------------------------------------ *)
Definition rtree (T : Type) : Type := (list (node T T) * nat)%type.               (* nodes, depth *)

Record rforest (T : Type) := mkRF { rf_trees : list (rtree T); rf_samples : option (list (list bool)) }.
Arguments mkRF {T}. Arguments rf_trees {T}. Arguments rf_samples {T}.

Section RForest.
  Context {T : Type} (O : Ops T).

  (* RandomForestRegressor::fit *)
  Definition fit_rforest (x : list (list T)) (y : list T) (n_trees : nat)
             (oracle : nat -> list nat * (nat -> list nat))
             (max_depth : option nat) (msl mss : nat) (keep : bool) : option (rforest T) :=
    match fit_loop (reg_sample_with_replacement (length x))
                   (fun s vars => fit_regressor_weak O x y s vars max_depth msl mss)
                   oracle n_trees with
    | None => None
    | Some (trees, masks) => Some (mkRF trees (if keep then Some masks else None))
    end.

  (* result += tree.predict_for_row(x, row) *)
  Definition sum_step (row : list T) (s : T) (tr : rtree T) : option T :=
    match predict_for_row O (fst tr) row with
    | None => None
    | Some v => Some (O.(oadd) s v)
    end.
  (* ... ; n_trees += 1 *)
  Definition sum_cnt_step (row : list T) (sn : T * nat) (tr : rtree T) : option (T * nat) :=
    match predict_for_row O (fst tr) row with
    | None => None
    | Some v => Some (O.(oadd) (fst sn) v, S (snd sn))
    end.

  (* result / T::from(n_trees).unwrap() with n_trees = self.trees.len() *)
  Definition rf_predict_for_row (f : rforest T) (row : list T) : option T :=
    option_map (fun s => O.(odiv) s (ofn O (length (rf_trees f))))
               (agg_all (sum_step row) (rf_trees f) O.(o0)).
  (* result / T::from(n_trees).unwrap() with n_trees counted in the loop (0/0 when no tree is out of bag) *)
  Definition rf_predict_for_row_oob (f : rforest T) (masks : list (list bool)) (row : list T) (i : nat)
    : option T :=
    option_map (fun sn => O.(odiv) (fst sn) (ofn O (snd sn)))
               (agg_oob (sum_cnt_step row) (rf_trees f) masks i (O.(o0), 0)).

  Definition rf_predict (f : rforest T) (rows : list (list T)) : option (list T) :=
    mapM (rf_predict_for_row f) rows.

  Definition rf_predict_oob (f : rforest T) (x : list (list T)) : option (list T) :=
    match rf_samples f with
    | None => None
    | Some masks =>
        match masks with
        | [] => None
        | m0 :: _ =>
            if negb (length m0 =? length x) then None
            else mapM (fun i => rf_predict_for_row_oob f masks (nth i x []) i) (seq 0 (length x))
        end
    end.
End RForest.

(* ------------------------------------------------------------------------------------------ *)
(* the sub-forest that takes part in the out-of-bag prediction of training row i               *)
(* ------------------------------------------------------------------------------------------ *)
Definition oob_members {Tr} (trees : list Tr) (masks : list (list bool)) (i : nat) : list Tr :=
  map fst (filter (fun tm => negb (nth i (snd tm) true)) (combine trees masks)).

(* ------------------------------------------------------------------------------------------ *)
(* the features tried at a node: find_best_cutoff's                                            *)
(*   let mut variables = (0..n_attr).collect(); if mtry < n_attr { variables.shuffle(rng) }    *)
(*   for variable in variables.iter().take(mtry)                                               *)
(* with rand 0.8's SliceRandom::shuffle (library code outside /repo, transliterated from       *)
(* rand-0.8.x/src/seq/mod.rs):                                                                 *)
(*   for i in (1..self.len()).rev() { self.swap(i, gen_index(rng, i + 1)); }                   *)
(* `draws` = the values gen_index returned, in order.  NOT executed by the correspondence (the *)
(* hooks record the resulting feature lists, not the shuffle's draws); it is the subject of    *)
(* C06_shuffle_is_permutation / C06_feature_subsample_valid only.                              *)
(* ------------------------------------------------------------------------------------------ *)
(* slice::swap(i, j): panics when an index is out of bounds *)
Definition swap_at {A} (l : list A) (i j : nat) : option (list A) :=
  match nth_error l i, nth_error l j with
  | Some a, Some b => Some (set_nth (set_nth l i b) j a)
  | _, _ => None
  end.

(* the iterations i, i-1, .., 1 of the loop; gen_index(rng, i+1) = gen_range(0..i+1) returns j <= i *)
Fixpoint fy_loop {A} (i : nat) (l : list A) (draws : list nat) : option (list A) :=
  match i with
  | 0 => Some l
  | S i' =>
      match draws with
      | [] => None
      | j :: rest =>
          if j <=? i then
            match swap_at l i j with
            | None => None
            | Some l' => fy_loop i' l' rest
            end
          else None
      end
  end.
Definition shuffle_model {A} (l : list A) (draws : list nat) : option (list A) :=
  fy_loop (length l - 1) l draws.

Definition node_vars (p mtry : nat) (draws : list nat) : option (list nat) :=
  option_map (firstn mtry) (if mtry <? p then shuffle_model (seq 0 p) draws else Some (seq 0 p)).
