(* C06 — the samplers return on every draw sequence `gen_range` can produce (each draw below the bound
   it was asked for, enough draws): the theorems about `Some samples` are not vacuous for any seed. *)
From Coq Require Import List Arith Bool Lia.
From SC Require Import Base.Num C05.Model C05.ProofsGrow C06.Model C06.ProofsBoot.
Import ListNotations.

Lemma draw_loop_total : forall size index samples draws,
  size <= length draws -> Forall (fun xi => xi < length index) (firstn size draws) ->
  Forall (fun r => r < length samples) index ->
  exists s', draw_loop size index samples draws = Some (s', skipn size draws) /\ length s' = length samples.
Proof.
  induction size as [|size IH]; intros index samples draws L F B; cbn [draw_loop].
  - exists samples. split; reflexivity.
  - destruct draws as [|xi rest]; [cbn in L; lia|]. cbn [firstn] in F. inversion F as [|? ? F1 F2]; subst.
    destruct (nth_error index xi) as [r|] eqn:E; [|apply nth_error_None in E; lia].
    assert (Hr : r < length samples). { apply nth_error_In in E. revert r E. apply Forall_forall. exact B. }
    apply Nat.ltb_lt in Hr. rewrite Hr. cbn [skipn].
    destruct (IH index (add_at samples r 1) rest) as (s' & A1 & A2).
    + cbn in L. lia.
    + exact F2.
    + rewrite add_at_length. exact B.
    + exists s'. split; [exact A1|]. rewrite A2. apply add_at_length.
Qed.

(* the draws, class by class: class l asks for |class l| values below |class l| *)
Fixpoint draws_ok (sizes : list nat) (draws : list nat) : Prop :=
  match sizes with
  | [] => True
  | sz :: rest => sz <= length draws /\ Forall (fun xi => xi < sz) (firstn sz draws) /\
                  draws_ok rest (skipn sz draws)
  end.

Lemma class_rows_bound yi l : Forall (fun r => r < length yi) (class_rows yi l).
Proof. apply Forall_forall. intros r H. apply class_rows_In in H. lia. Qed.

Lemma cls_fold_total yi : forall ls samples draws,
  length samples = length yi ->
  draws_ok (map (fun l => length (class_rows yi l)) ls) draws ->
  exists s' d', fold_left (cls_sample_class yi) ls (Some (samples, draws)) = Some (s', d').
Proof.
  induction ls as [|l ls IH]; intros samples draws L D; cbn [fold_left map draws_ok] in *.
  - eauto.
  - destruct D as (D1 & D2 & D3). unfold cls_sample_class at 2.
    destruct (draw_loop_total (length (class_rows yi l)) (class_rows yi l) samples draws D1 D2) as (s1 & A1 & A2).
    { rewrite L. apply class_rows_bound. }
    rewrite A1. apply IH; [congruence|exact D3].
Qed.

Lemma cls_sample_total_fn yi k draws :
  draws_ok (map (fun l => length (class_rows yi l)) (seq 0 k)) draws ->
  exists samples, cls_sample_with_replacement yi k draws = Some samples.
Proof.
  intros D. unfold cls_sample_with_replacement.
  destruct (cls_fold_total yi (seq 0 k) (repeat 0 (length yi)) draws (repeat_length _ _) D) as (s & d & E).
  rewrite E. exists s. reflexivity.
Qed.

Lemma reg_sample_total_fn nrows draws :
  nrows <= length draws -> Forall (fun xi => xi < nrows) draws ->
  exists samples, reg_sample_with_replacement nrows draws = Some samples.
Proof. intros L F. apply reg_draw_loop_total; assumption. Qed.
