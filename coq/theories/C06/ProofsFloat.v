(* C06 — rounding theorems for the binary64 instance of the forest model (SC.C06.Model at FOps), on top
   of Base/FloatError.v.

   1. The classifier's aggregation involves no floating-point operation at all: the vote counters of
      the model (and of the Rust code: `vec![0; k]`, `+= 1`) are machine integers.  For EVERY number
      type the forest's class index is a function `vote_of_preds` of the number of classes and of the
      member trees' own class indices only; it is the first plurality class of the tally.  Hence two
      forests (e.g. one over binary64 and one over the reals) whose member trees answer alike predict
      alike.
   2. The regressor's prediction is `fl(fl(..fl(fl(0+o_1)+o_2)..+o_T) / fl(T))`: a recursive sum of
      the T tree outputs in tree order (T-1 roundings, the first addition is exact), then one division
      by the exactly converted count (T < 2^53).  If the result is finite, every tree output is finite
      and  |FR pred - (sum FR o_t)/T| <= ((1+u)^T - 1) * (sum |FR o_t|)/T + eta.  The real mean is the
      value of the ROps model on any forest over R whose member trees return the real values FR o_t.
   3. Out-of-bag: both statements for the sub-forest `oob_members trees masks i`; when no tree is
      out of bag the classifier returns class index 0 and the regressor returns 0/0 = NaN.
   4. Consequence: tree outputs in [lo,hi] => a finite forest mean in [lo-E, hi+E],
      E = ((1+u)^n - 1) * max(|lo|,|hi|) + eta.
   `FR x` real value of a float, `ffin x` finiteness, u64 = 2^-53, eta64 = 2^-1075. *)
From Coq Require Import List Arith ZArith Bool Reals Floats Lra Lia Psatz.
From SC Require Import Base.FloatUtil Base.Num Base.FloatError.
From SC Require Import C05.Model C05.ProofsCls C06.Model C06.ProofsBoot C06.ProofsAgg C06.ProofsTie.
Import ListNotations.

(* ------------------------------------------------------------------------------------------ *)
(* helpers                                                                                     *)
(* ------------------------------------------------------------------------------------------ *)
Lemma mapM_Forall2 {A B} (g : A -> option B) : forall l r,
  mapM g l = Some r <-> Forall2 (fun a b => g a = Some b) l r.
Proof.
  induction l as [|a l IH]; intros r; cbn [mapM].
  - split; [intros [= <-]; constructor | intros H; inversion H; reflexivity].
  - split.
    + destruct (g a) as [b|] eqn:E; [|discriminate]. destruct (mapM g l) as [r'|] eqn:E'; [|discriminate].
      intros [= <-]. constructor; [exact E | apply IH; reflexivity].
    + intros H. inversion H as [|? b ? r' Hb Hr]; subst. rewrite Hb.
      rewrite (proj2 (IH r') Hr). reflexivity.
Qed.

Lemma mapM_len {A B} (g : A -> option B) l r : mapM g l = Some r -> length r = length l.
Proof. intros H. apply mapM_Forall2 in H. symmetry. exact (Forall2_len _ _ _ H). Qed.

Lemma mapM_ext2 {A A' B} (g : A -> option B) (g' : A' -> option B) : forall l l',
  Forall2 (fun a a' => g a = g' a') l l' -> mapM g l = mapM g' l'.
Proof.
  induction 1 as [|a a' l l' H F IH]; cbn [mapM]; [reflexivity|]. rewrite H, IH. reflexivity.
Qed.

(* ------------------------------------------------------------------------------------------ *)
(* 1. the vote: integers only                                                                  *)
(* ------------------------------------------------------------------------------------------ *)
(* the number of member trees that answered class c, for c = 0 .. k-1 *)
Definition tally (k : nat) (preds : list nat) : list nat :=
  map (fun c => count_occ Nat.eq_dec preds c) (seq 0 k).
(* the whole aggregation as a function of the member trees' class indices: an index outside 0..k-1 is
   the panic of `result[..] += 1`; otherwise the first class with the maximal count *)
Definition vote_of_preds (k : nat) (preds : list nat) : option nat :=
  if forallb (fun c => c <? k) preds then Some (which_max (tally k preds)) else None.

Lemma fold_add_at_length preds : forall r0, length (fold_left (fun r c => add_at r c 1) preds r0) = length r0.
Proof. induction preds as [|c preds IH]; intros r0; cbn [fold_left]; [reflexivity|]. rewrite IH. apply add_at_length. Qed.

Lemma fold_add_at_nth preds : forall r0 c', Forall (fun c => c < length r0) preds ->
  nth c' (fold_left (fun r c => add_at r c 1) preds r0) 0 = nth c' r0 0 + count_occ Nat.eq_dec preds c'.
Proof.
  induction preds as [|c preds IH]; intros r0 c' F; cbn [fold_left count_occ]; [lia|].
  inversion F as [|? ? Hc F']; subst. rewrite IH.
  - rewrite (nth_add_at r0 c 1 c' Hc). destruct (Nat.eq_dec c c') as [->|N].
    + rewrite Nat.eqb_refl. lia.
    + destruct (Nat.eqb_spec c' c); [congruence|lia].
  - rewrite add_at_length. exact F'.
Qed.

Lemma fold_add_at_tally k preds : Forall (fun c => c < k) preds ->
  fold_left (fun r c => add_at r c 1) preds (repeat 0 k) = tally k preds.
Proof.
  intros F. apply (nth_ext _ _ 0 0).
  - rewrite fold_add_at_length, repeat_length. unfold tally. rewrite map_length, seq_length. reflexivity.
  - intros c Hc. rewrite fold_add_at_length, repeat_length in Hc.
    rewrite fold_add_at_nth by (rewrite repeat_length; exact F). rewrite nth_repeat0.
    unfold tally. rewrite (nth_indep _ 0 (count_occ Nat.eq_dec preds 0)) by (rewrite map_length, seq_length; exact Hc).
    rewrite (map_nth (fun c => count_occ Nat.eq_dec preds c)), seq_nth by exact Hc. reflexivity.
Qed.

Lemma tally_length k preds : length (tally k preds) = k.
Proof. unfold tally. rewrite map_length, seq_length. reflexivity. Qed.
Lemma tally_nth k preds c : c < k -> nth c (tally k preds) 0 = count_occ Nat.eq_dec preds c.
Proof.
  intros Hc. unfold tally. rewrite (nth_indep _ 0 (count_occ Nat.eq_dec preds 0)) by (rewrite map_length, seq_length; exact Hc).
  rewrite (map_nth (fun c => count_occ Nat.eq_dec preds c)), seq_nth by exact Hc. reflexivity.
Qed.

Section VoteExact.
  Context {T : Type} (O : Ops T).

  (* the member trees' own class indices for `row`, in tree order (None: some tree walk fails) *)
  Definition tree_classes (trees : list (ctree T)) (row : list T) : option (list nat) :=
    mapM (fun tr => predict_for_row O (ct_nodes tr) row) trees.

  Lemma tree_classes_member_preds trees row preds :
    tree_classes trees row = Some preds <-> member_preds O trees row preds.
  Proof. apply mapM_Forall2. Qed.

  Lemma agg_votes row : forall trees r0,
    agg_all (vote_step O row) trees r0 =
    match tree_classes trees row with
    | None => None
    | Some preds => if forallb (fun c => c <? length r0) preds
                    then Some (fold_left (fun r c => add_at r c 1) preds r0) else None
    end.
  Proof.
    unfold agg_all, tree_classes. induction trees as [|tr trees IH]; intros r0; [reflexivity|].
    cbn [fold_left mapM]. unfold vote_step at 2.
    destruct (predict_for_row O (ct_nodes tr) row) as [c|]; [|apply agg_none].
    destruct (c <? length r0) eqn:L.
    - rewrite IH, add_at_length.
      destruct (mapM (fun tr0 => predict_for_row O (ct_nodes tr0) row) trees) as [preds|]; [|reflexivity].
      cbn [forallb fold_left]. rewrite L. reflexivity.
    - rewrite agg_none.
      destruct (mapM (fun tr0 => predict_for_row O (ct_nodes tr0) row) trees) as [preds|]; [|reflexivity].
      cbn [forallb]. rewrite L. reflexivity.
  Qed.

  (* classifier_votes_exact: the forest's class index, for every number type *)
  Theorem cf_predict_for_row_votes (f : cforest T) row :
    cf_predict_for_row O f row =
    match tree_classes (cf_trees f) row with
    | None => None
    | Some preds => vote_of_preds (length (cf_classes f)) preds
    end.
  Proof.
    unfold cf_predict_for_row. rewrite agg_votes, repeat_length.
    destruct (tree_classes (cf_trees f) row) as [preds|]; [|reflexivity]. unfold vote_of_preds.
    destruct (forallb (fun c => c <? length (cf_classes f)) preds) eqn:B; [|reflexivity].
    cbn [option_map]. rewrite fold_add_at_tally; [reflexivity|].
    rewrite forallb_forall in B. apply Forall_forall. intros c Hc. apply Nat.ltb_lt, B, Hc.
  Qed.

  Theorem cf_predict_for_row_oob_votes (f : cforest T) masks row i :
    Forall (fun m => i < length m) masks ->
    cf_predict_for_row_oob O f masks row i =
    match tree_classes (oob_members (cf_trees f) masks i) row with
    | None => None
    | Some preds => vote_of_preds (length (cf_classes f)) preds
    end.
  Proof.
    intros F. rewrite (cf_oob_is_subforest O f masks row i F).
    exact (cf_predict_for_row_votes (mkCF (oob_members (cf_trees f) masks i) (cf_classes f) None) row).
  Qed.
End VoteExact.

(* what vote_of_preds returns: a class index with the maximal count, the first such *)
Lemma vote_of_preds_spec k preds c : vote_of_preds k preds = Some c -> 0 < k ->
  Forall (fun c' => c' < k) preds /\ c < k /\
  (forall c', count_occ Nat.eq_dec preds c' <= count_occ Nat.eq_dec preds c) /\
  (forall c', c' < c -> count_occ Nat.eq_dec preds c' < count_occ Nat.eq_dec preds c).
Proof.
  unfold vote_of_preds. destruct (forallb (fun c => c <? k) preds) eqn:B; [|discriminate]. intros [= <-] K.
  assert (F : Forall (fun c' => c' < k) preds).
  { rewrite forallb_forall in B. apply Forall_forall. intros c Hc. apply Nat.ltb_lt, B, Hc. }
  assert (NE : tally k preds <> []) by (intros E; pose proof (tally_length k preds) as L; rewrite E in L; cbn in L; lia).
  destruct (which_max_spec _ NE) as [W1 W2]. rewrite tally_length in W1.
  split; [exact F|]. split; [exact W1|]. split.
  - intros c'. destruct (Nat.lt_ge_cases c' k) as [Hc|Hc].
    + specialize (W2 c'). rewrite !tally_nth in W2 by assumption. exact W2.
    + rewrite (proj1 (count_occ_not_In Nat.eq_dec preds c')); [lia|].
      intros Hin. rewrite Forall_forall in F. specialize (F _ Hin). lia.
  - intros c' Hc'. pose proof (which_max_first (tally k preds) c' Hc') as W.
    rewrite !tally_nth in W by lia. exact W.
Qed.

(* no member tree (e.g. no tree is out of bag): all counts are 0 and the first class wins *)
Lemma vote_of_preds_nil k : vote_of_preds k [] = Some 0.
Proof.
  unfold vote_of_preds. cbn [forallb]. f_equal.
  destruct (Nat.eq_dec (which_max (tally k [])) 0) as [E|N]; [exact E|].
  assert (H : 0 < which_max (tally k [])) by lia.
  pose proof (which_max_first (tally k []) 0 H) as W.
  destruct (Nat.lt_ge_cases (which_max (tally k [])) k) as [Hk|Hk].
  - rewrite !tally_nth in W by lia. cbn [count_occ] in W. lia.
  - pose proof (nth_overflow (tally k []) 0 (n := which_max (tally k []))) as Z.
    rewrite tally_length in Z. specialize (Z Hk). lia.
Qed.

(* two forests over two number types whose member trees answer alike (same class index or both fail)
   and that have the same number of classes predict alike: whatever differs between binary64 and
   exact arithmetic in a forest's answer differs already in some member tree's answer *)
Theorem cf_predict_transfer {T1 T2} (O1 : Ops T1) (O2 : Ops T2) (f1 : cforest T1) (f2 : cforest T2) row1 row2 :
  length (cf_classes f1) = length (cf_classes f2) ->
  Forall2 (fun t1 t2 => predict_for_row O1 (ct_nodes t1) row1 = predict_for_row O2 (ct_nodes t2) row2)
          (cf_trees f1) (cf_trees f2) ->
  cf_predict_for_row O1 f1 row1 = cf_predict_for_row O2 f2 row2.
Proof.
  intros K F. rewrite !cf_predict_for_row_votes, K. unfold tree_classes.
  rewrite (mapM_ext2 _ (fun tr => predict_for_row O2 (ct_nodes tr) row2) _ _ F). reflexivity.
Qed.

(* the binary64 instance, assembled *)
Theorem classifier_votes_exact (f : cforest PrimFloat.float) row :
  (cf_predict_for_row FOps f row =
     match tree_classes FOps (cf_trees f) row with
     | None => None
     | Some preds => vote_of_preds (length (cf_classes f)) preds
     end) /\
  (forall c, cf_predict_for_row FOps f row = Some c -> 0 < length (cf_classes f) ->
     exists preds, member_preds FOps (cf_trees f) row preds /\
       Forall (fun c' => c' < length (cf_classes f)) preds /\ c < length (cf_classes f) /\
       (forall c', count_occ Nat.eq_dec preds c' <= count_occ Nat.eq_dec preds c) /\
       (forall c', c' < c -> count_occ Nat.eq_dec preds c' < count_occ Nat.eq_dec preds c)) /\
  (forall (g : cforest R) rowR,
     length (cf_classes f) = length (cf_classes g) ->
     Forall2 (fun tf tg => predict_for_row FOps (ct_nodes tf) row = predict_for_row ROps (ct_nodes tg) rowR)
             (cf_trees f) (cf_trees g) ->
     cf_predict_for_row FOps f row = cf_predict_for_row ROps g rowR).
Proof.
  split; [apply cf_predict_for_row_votes|]. split.
  - intros c H K. rewrite cf_predict_for_row_votes in H.
    destruct (tree_classes FOps (cf_trees f) row) as [preds|] eqn:E; [|discriminate].
    exists preds. split; [apply tree_classes_member_preds, E|]. exact (vote_of_preds_spec _ _ _ H K).
  - intros g rowR. apply cf_predict_transfer.
Qed.

Theorem classifier_oob_votes_exact (f : cforest PrimFloat.float) masks row i :
  Forall (fun m => i < length m) masks ->
  (cf_predict_for_row_oob FOps f masks row i =
     match tree_classes FOps (oob_members (cf_trees f) masks i) row with
     | None => None
     | Some preds => vote_of_preds (length (cf_classes f)) preds
     end) /\
  (oob_members (cf_trees f) masks i = [] -> cf_predict_for_row_oob FOps f masks row i = Some 0) /\
  (forall (g : cforest R) rowR,
     length (cf_classes f) = length (cf_classes g) ->
     Forall2 (fun tf tg => predict_for_row FOps (ct_nodes tf) row = predict_for_row ROps (ct_nodes tg) rowR)
             (oob_members (cf_trees f) masks i) (cf_trees g) ->
     cf_predict_for_row_oob FOps f masks row i = cf_predict_for_row ROps g rowR).
Proof.
  intros F. split; [apply cf_predict_for_row_oob_votes, F|]. split.
  - intros E. rewrite (cf_predict_for_row_oob_votes FOps f masks row i F), E. cbn [tree_classes mapM].
    apply vote_of_preds_nil.
  - intros g rowR K H. rewrite (cf_oob_is_subforest FOps f masks row i F).
    apply cf_predict_transfer; [exact K | exact H].
Qed.

(* ------------------------------------------------------------------------------------------ *)
(* 2. the mean                                                                                 *)
(* ------------------------------------------------------------------------------------------ *)
Local Open Scope R_scope.

Lemma fold_left_Rplus_Rsuml (l : list R) (a : R) : fold_left Rplus l a = a + Rsuml l.
Proof.
  revert a. induction l as [|h t IH]; intros a; cbn [fold_left Rsuml fold_right]; [lra|].
  rewrite IH. fold (Rsuml t). lra.
Qed.

(* q' ~ q up to Eu m relative to a magnitude bound B >= |q|; r = rounding of q' with relative error u
   and absolute error e  (as in C03/ProofsFloat2.v) *)
Lemma quot_step_signed (m : nat) (q' q B e r : R) : Rabs q <= B ->
  Rabs (q' - q) <= Eu m * B ->
  Rabs (r - q') <= u64 * Rabs q' + e ->
  Rabs (r - q) <= Eu (S m) * B + e.
Proof.
  intros Hq H1 H2. pose proof (Eu_nonneg m). pose proof u64_pos. pose proof (Rabs_pos q).
  assert (Rabs q' <= (1 + Eu m) * B).
  { replace q' with ((q' - q) + q) at 1 by ring. eapply Rle_trans; [apply Rabs_triang|]. nra. }
  replace (r - q) with ((r - q') + (q' - q)) by ring.
  eapply Rle_trans; [apply Rabs_triang|]. rewrite Eu_S. nra.
Qed.

(* recursive sum of n floats from 0, then one division by the converted count n *)
Lemma fmean_error (l : list PrimFloat.float) (n : nat) : n = length l -> (Z.of_nat n < 2 ^ 53)%Z ->
  ffin (PrimFloat.div (fsum l) (float_of_Z (Z.of_nat n))) ->
  (0 < n)%nat /\ Forall ffin l /\ ffin (fsum l) /\
  Rabs (FR (PrimFloat.div (fsum l) (float_of_Z (Z.of_nat n))) - Rsuml (map FR l) / INR n) <=
    Eu n * (Rsumabs (map FR l) / INR n) + eta64.
Proof.
  intros Hlen Hlt Hfin. set (v := map FR l).
  assert (Hn : (0 < n)%nat).
  { destruct l as [|x a]; [|cbn in Hlen; lia]. exfalso. subst n. vm_compute in Hfin. discriminate Hfin. }
  destruct (float_of_Z_exact (Z.of_nat n)) as [Fn En]; [lia|]. rewrite <- INR_IZR_INZ in En.
  assert (Hn0 : 0 < INR n) by (apply lt_0_INR; exact Hn).
  assert (Hi : 0 < / INR n) by apply Rinv_0_lt_compat, Hn0.
  destruct (fdiv_finite (fsum l) _ Fn) as [Fs Em]; [rewrite En; lra | exact Hfin |].
  pose proof (fdiv_error (fsum l) _ Fn) as Herr. rewrite En in Herr.
  pose proof (fsum_signed_error _ Fs) as Hb. fold v in Hb. rewrite <- Hlen in Hb.
  split; [exact Hn|]. split; [exact (proj2 (fold_fadd_finite_acc _ _ Fs))|]. split; [exact Fs|].
  replace (Eu n) with (Eu (S (n - 1))) by (f_equal; lia).
  apply (quot_step_signed (n - 1) (FR (fsum l) / INR n)).
  - unfold Rdiv. rewrite Rabs_mult, (Rabs_pos_eq (/ INR n)) by lra.
    apply Rmult_le_compat_r; [lra | apply Rsuml_le_Rsumabs].
  - replace (FR (fsum l) / INR n - Rsuml v / INR n) with ((FR (fsum l) - Rsuml v) * / INR n) by (unfold Rdiv; ring).
    rewrite Rabs_mult, (Rabs_pos_eq (/ INR n)) by lra.
    unfold Rdiv. rewrite <- Rmult_assoc. apply Rmult_le_compat_r; [lra | exact Hb].
  - apply Herr; [lra | exact Hfin].
Qed.

(* the mean of real numbers lies within the mean of magnitudes *)
Lemma Rmean_le_absmean (v : list R) (n : nat) : (0 < n)%nat -> Rabs (Rsuml v / INR n) <= Rsumabs v / INR n.
Proof.
  intros Hn. assert (0 < / INR n) by (apply Rinv_0_lt_compat, lt_0_INR, Hn).
  unfold Rdiv. rewrite Rabs_mult, (Rabs_pos_eq (/ INR n)) by lra.
  apply Rmult_le_compat_r; [lra | apply Rsuml_le_Rsumabs].
Qed.

Section MeanGeneric.
  Context {T : Type} (O : Ops T).

  (* the member trees' own outputs for `row`, in tree order (None: some tree walk fails) *)
  Definition tree_values (trees : list (rtree T)) (row : list T) : option (list T) :=
    mapM (fun tr => predict_for_row O (fst tr) row) trees.

  Lemma tree_values_member_vals trees row outs :
    tree_values trees row = Some outs <-> member_vals O trees row outs.
  Proof. apply mapM_Forall2. Qed.

  Lemma agg_sum row : forall trees s0,
    agg_all (sum_step O row) trees s0 =
    option_map (fun outs => fold_left O.(oadd) outs s0) (tree_values trees row).
  Proof.
    unfold agg_all, tree_values. induction trees as [|tr trees IH]; intros s0; [reflexivity|].
    cbn [fold_left mapM]. unfold sum_step at 2.
    destruct (predict_for_row O (fst tr) row) as [v|]; [|apply agg_none].
    rewrite IH. destruct (mapM (fun tr0 => predict_for_row O (fst tr0) row) trees); reflexivity.
  Qed.

  (* the forest's value as a function of the member trees' outputs only, for every number type *)
  Lemma rf_predict_for_row_values (f : rforest T) row :
    rf_predict_for_row O f row =
    option_map (fun outs => O.(odiv) (fold_left O.(oadd) outs O.(o0)) (ofn O (length outs)))
               (tree_values (rf_trees f) row).
  Proof.
    unfold rf_predict_for_row. rewrite agg_sum.
    destruct (tree_values (rf_trees f) row) as [outs|] eqn:E; [|reflexivity]. cbn [option_map].
    unfold tree_values in E. rewrite (mapM_len _ _ _ E). reflexivity.
  Qed.
End MeanGeneric.

(* the ROps model on a forest over R whose member trees return the reals o: the arithmetic mean *)
Lemma rf_predict_R_mean (g : rforest R) rowR (o : list R) :
  member_vals ROps (rf_trees g) rowR o ->
  rf_predict_for_row ROps g rowR = Some (Rsuml o / INR (length o)).
Proof.
  intros M. rewrite rf_predict_for_row_values. rewrite (proj2 (tree_values_member_vals ROps _ _ _) M).
  cbn [option_map]. unfold ofn. cbn [ROps oadd odiv o0 oofZ].
  rewrite fold_left_Rplus_Rsuml, Rplus_0_l, <- INR_IZR_INZ. reflexivity.
Qed.

(* regressor_mean_float_error *)
Theorem regressor_mean_float_error (f : rforest PrimFloat.float) row v :
  rf_predict_for_row FOps f row = Some v -> ffin v ->
  (Z.of_nat (length (rf_trees f)) < 2 ^ 53)%Z ->
  exists outs : list PrimFloat.float,
    member_vals FOps (rf_trees f) row outs /\
    let n := length (rf_trees f) in
    let o := map FR outs in
    (0 < n)%nat /\ length outs = n /\ Forall ffin outs /\
    v = PrimFloat.div (fsum outs) (float_of_Z (Z.of_nat n)) /\
    Rabs (FR v - Rsuml o / INR n) <= ((1 + u64) ^ n - 1) * (Rsumabs o / INR n) + eta64 /\
    Rabs (FR v) <= (1 + u64) ^ n * (Rsumabs o / INR n) + eta64 /\
    (forall (g : rforest R) rowR, member_vals ROps (rf_trees g) rowR o ->
       rf_predict_for_row ROps g rowR = Some (Rsuml o / INR n)).
Proof.
  intros H Hfin Hlt. rewrite rf_predict_for_row_values in H.
  destruct (tree_values FOps (rf_trees f) row) as [outs|] eqn:E; [|discriminate].
  cbn [option_map] in H. injection H as <-.
  pose proof (proj1 (tree_values_member_vals FOps _ _ _) E) as M.
  assert (L : length outs = length (rf_trees f)) by (unfold tree_values in E; exact (mapM_len _ _ _ E)).
  exists outs. split; [exact M|]. cbv zeta. unfold ofn in *. cbn [FOps oadd odiv o0 oofZ] in *.
  fold (fsum outs) in *. rewrite L in Hfin |- *.
  destruct (fmean_error outs (length (rf_trees f)) (eq_sym L) Hlt Hfin) as (Hn & Hall & _ & B).
  split; [exact Hn|]. split; [reflexivity|]. split; [exact Hall|]. split; [reflexivity|].
  fold (Eu (length (rf_trees f))). split; [exact B|]. split.
  - pose proof (Rmean_le_absmean (map FR outs) _ Hn) as Q.
    set (x := FR (PrimFloat.div (fsum outs) (float_of_Z (Z.of_nat (length (rf_trees f)))))) in *.
    set (m := Rsuml (map FR outs) / INR (length (rf_trees f))) in *.
    replace x with ((x - m) + m) by ring. eapply Rle_trans; [apply Rabs_triang|].
    unfold Eu in B. lra.
  - intros g rowR Mg. rewrite (rf_predict_R_mean g rowR _ Mg), map_length, L. reflexivity.
Qed.

(* ------------------------------------------------------------------------------------------ *)
(* 3. out-of-bag mean                                                                          *)
(* ------------------------------------------------------------------------------------------ *)
Theorem regressor_oob_mean_float_error (f : rforest PrimFloat.float) masks row i v :
  Forall (fun m => (i < length m)%nat) masks ->
  rf_predict_for_row_oob FOps f masks row i = Some v -> ffin v ->
  (Z.of_nat (length (rf_trees f)) < 2 ^ 53)%Z ->
  let members := oob_members (rf_trees f) masks i in
  exists outs : list PrimFloat.float,
    member_vals FOps members row outs /\
    let n := length members in
    let o := map FR outs in
    (0 < n <= length (rf_trees f))%nat /\ length outs = n /\ Forall ffin outs /\
    v = PrimFloat.div (fsum outs) (float_of_Z (Z.of_nat n)) /\
    Rabs (FR v - Rsuml o / INR n) <= ((1 + u64) ^ n - 1) * (Rsumabs o / INR n) + eta64 /\
    Rabs (FR v) <= (1 + u64) ^ n * (Rsumabs o / INR n) + eta64 /\
    (forall (g : rforest R) rowR, member_vals ROps (rf_trees g) rowR o ->
       rf_predict_for_row ROps g rowR = Some (Rsuml o / INR n)).
Proof.
  intros F H Hfin Hlt members. rewrite (rf_oob_is_subforest FOps f masks row i F) in H.
  pose proof (oob_members_length_le (rf_trees f) masks i) as Hle. fold members in H, Hle.
  destruct (regressor_mean_float_error (mkRF members None) row v H Hfin) as (outs & M & Hn & R).
  { cbn [rf_trees]. lia. }
  cbn [rf_trees] in *. exists outs. split; [exact M|]. cbv zeta. split; [lia | exact R].
Qed.

(* no tree is out of bag for row i: the model (like the Rust code) returns 0/0, a NaN *)
Theorem regressor_oob_no_member_nan (f : rforest PrimFloat.float) masks row i :
  Forall (fun m => (i < length m)%nat) masks ->
  oob_members (rf_trees f) masks i = [] ->
  exists v, rf_predict_for_row_oob FOps f masks row i = Some v /\
            PrimFloat.is_nan v = true /\ ~ ffin v.
Proof.
  intros F E. rewrite (rf_oob_is_subforest FOps f masks row i F), E.
  eexists. split; [reflexivity|]. split; [vm_compute; reflexivity | vm_compute; discriminate].
Qed.

(* conversely a finite out-of-bag value certifies that some tree was out of bag (first conjunct of the
   theorem above); and a forest without trees predicts NaN for every row *)
Theorem regressor_no_tree_nan (row : list PrimFloat.float) smp :
  exists v, rf_predict_for_row FOps (mkRF [] smp) row = Some v /\ PrimFloat.is_nan v = true.
Proof. eexists. split; [reflexivity | vm_compute; reflexivity]. Qed.

(* ------------------------------------------------------------------------------------------ *)
(* 4. a consequence: the binary64 mean leaves the range of the tree outputs by rounding only    *)
(* ------------------------------------------------------------------------------------------ *)
Lemma Rsuml_bounds lo hi (l : list R) : Forall (fun a => lo <= a <= hi) l ->
  lo * INR (length l) <= Rsuml l <= hi * INR (length l).
Proof.
  induction 1 as [|a l Ha F IH]; [cbn; lra|]. cbn [Rsuml fold_right]. fold (Rsuml l).
  change (length (a :: l)) with (S (length l)). rewrite S_INR. lra.
Qed.
Lemma Rsumabs_bound M (l : list R) : Forall (fun a => Rabs a <= M) l -> Rsumabs l <= M * INR (length l).
Proof.
  induction 1 as [|a l Ha F IH]; [cbn; lra|]. cbn [Rsumabs fold_right]. fold (Rsumabs l).
  change (length (a :: l)) with (S (length l)). rewrite S_INR. lra.
Qed.

Lemma member_vals_range (trees : list (rtree PrimFloat.float)) row outs (lo hi : R) :
  member_vals FOps trees row outs -> Forall ffin outs ->
  (forall tr o, In tr trees -> predict_for_row FOps (fst tr) row = Some o -> ffin o -> lo <= FR o <= hi) ->
  Forall (fun a => lo <= a <= hi) (map FR outs).
Proof.
  intros M. induction M as [|tr o trees outs Ho M IH]; intros Hall Hr; [constructor|].
  inversion Hall as [|? ? Fo Hall']; subst. cbn [map]. constructor.
  - apply (Hr tr o); [left; reflexivity | exact Ho | exact Fo].
  - apply IH; [exact Hall'|]. intros tr' o' Hin. apply Hr. right. exact Hin.
Qed.

Theorem regressor_float_within_outputs_range (f : rforest PrimFloat.float) row v (lo hi : R) :
  rf_predict_for_row FOps f row = Some v -> ffin v ->
  (Z.of_nat (length (rf_trees f)) < 2 ^ 53)%Z ->
  (forall tr o, In tr (rf_trees f) -> predict_for_row FOps (fst tr) row = Some o -> ffin o -> lo <= FR o <= hi) ->
  let n := length (rf_trees f) in
  let E := ((1 + u64) ^ n - 1) * Rmax (Rabs lo) (Rabs hi) + eta64 in
  lo - E <= FR v <= hi + E.
Proof.
  intros H Hfin Hlt Hr n E.
  destruct (regressor_mean_float_error f row v H Hfin Hlt) as (outs & M & Hn & L & Hall & _ & B & _ & _).
  fold n in Hn, L, B.
  assert (R1 : Forall (fun a => lo <= a <= hi) (map FR outs))
    by (exact (member_vals_range (rf_trees f) row outs lo hi M Hall Hr)).
  assert (R2 : Forall (fun a => Rabs a <= Rmax (Rabs lo) (Rabs hi)) (map FR outs)).
  { eapply Forall_impl; [|exact R1]. intros a Ha. cbn beta in *.
    pose proof (Rmax_l (Rabs lo) (Rabs hi)). pose proof (Rmax_r (Rabs lo) (Rabs hi)).
    unfold Rabs in *. destruct (Rcase_abs a), (Rcase_abs lo), (Rcase_abs hi); lra. }
  pose proof (Rsuml_bounds lo hi _ R1) as S1. pose proof (Rsumabs_bound _ _ R2) as S2.
  rewrite map_length, L in S1, S2.
  assert (Hn0 : 0 < INR n) by (apply lt_0_INR; exact Hn).
  assert (Hi : 0 < / INR n) by apply Rinv_0_lt_compat, Hn0.
  set (m := Rsuml (map FR outs) / INR n) in *. set (A := Rsumabs (map FR outs) / INR n) in *.
  assert (Hm : lo <= m <= hi).
  { unfold m, Rdiv. split; apply (Rmult_le_reg_r (INR n)); try exact Hn0;
      rewrite Rmult_assoc, Rinv_l by lra; lra. }
  assert (HA : A <= Rmax (Rabs lo) (Rabs hi)).
  { unfold A, Rdiv. apply (Rmult_le_reg_r (INR n)); [exact Hn0|]. rewrite Rmult_assoc, Rinv_l by lra. lra. }
  assert (HE : 0 <= (1 + u64) ^ n - 1) by apply (Eu_nonneg n).
  assert (Hb : Rabs (FR v - m) <= E) by (unfold E; nra).
  unfold Rabs in Hb. destruct (Rcase_abs (FR v - m)); lra.
Qed.
