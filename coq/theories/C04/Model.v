(* C04 — executable model of smartcore's nearest-neighbour search and k-NN estimators
   (src/algorithm/sort/heap_select.rs, src/algorithm/neighbour/{linear_search,cover_tree}.rs,
    src/neighbors/{mod,knn_classifier,knn_regressor}.rs).
   Definitions only; proofs are in Proofs*.v so that the model still runs when a proof breaks.

   Transliteration notes
   - the element / distance type is abstract: a type with the two boolean comparisons the code
     uses (`partial_cmp == Some(Less)` is `ltb`, `Some(Equal) | Some(Greater)` of (a,b) is `leb b a`,
     `<=`, `<` on floats are `leb`, `ltb`), an addition (pruning bound) and the constants the code
     uses (`F::max_value()`, `F::infinity()`, `F::zero()`).  Corr.v instantiates it with binary64;
     the theorems with any total preorder.  NaN distances (which make `partial_cmp(..).unwrap()`
     panic) are outside the model: every comparison is one of the booleans above.
   - `Vec<T>` is `list`, indexing is `nth` with a default that is never reached for in-range
     indices; `Err(..)` is `None`; the `while` loops carry fuel (out of fuel = `None` for the
     level loop of the cover tree; `sift_down` is given `n + 2` iterations, more than it can use).
   - search results are lists of (index, distance); the third component `&data[index]` of the
     Rust triple is determined by the index.
   - the distance from the query to data point i is the argument `dq : nat -> D`
     (`self.distance.distance(from, &self.data[i])`), so the model is independent of the point
     type and of the metric; Corr.v supplies the metric.
   - `CoverTree.identical_excluded` is `false` in every tree `CoverTree::new` builds (no other
     code sets it); the model describes that case (the harness asserts the flag in the dump). *)
From Coq Require Import List Arith Bool.
From SC Require Import Base.FloatUtil Base.Num.
Import ListNotations.

(* ---------------------------------------------------------------------------------------- *)
(* HeapSelection<T>                                                                          *)
(* ---------------------------------------------------------------------------------------- *)
Section Heap.
  Context {A : Type} (ltb leb : A -> A -> bool) (d0 : A).

  Fixpoint upd (l : list A) (i : nat) (x : A) : list A :=
    match l, i with
    | [], _ => []
    | _ :: t, 0 => x :: t
    | a :: t, S i' => a :: upd t i' x
    end.
  (* Vec::swap(i, j) *)
  Definition swap (l : list A) (i j : nat) : list A :=
    upd (upd l i (nth j l d0)) j (nth i l d0).

  (* fn sift_down(&mut self, k, n): children of kk are 2kk and 2kk+1 on a 0-based array *)
  Fixpoint sift_down (fuel : nat) (heap : list A) (kk n : nat) : list A :=
    match fuel with
    | 0 => heap
    | S f =>
      if 2 * kk <=? n then
        let j := 2 * kk in
        let j := if (j <? n) && ltb (nth j heap d0) (nth (j + 1) heap d0) then j + 1 else j in
        if leb (nth j heap d0) (nth kk heap d0)            (* heap[kk] >= heap[j] : break *)
        then heap
        else sift_down f (swap heap kk j) j n
      else heap
    end.
  Definition sift (heap : list A) (kk n : nat) : list A := sift_down (n + 2) heap kk n.

  (* heap.sort_by(|a, b| b.partial_cmp(a).unwrap()) : stable, descending *)
  Fixpoint insert_desc (x : A) (l : list A) : list A :=
    match l with
    | [] => [x]
    | y :: t => if ltb x y then y :: insert_desc x t else x :: l
    end.
  Definition sort_desc (l : list A) : list A := fold_right insert_desc [] l.

  Record heapsel := mkHeap { hk : nat; hn : nat; hsorted : bool; hheap : list A }.

  Definition with_capacity (k : nat) : heapsel := mkHeap k 0 false [].

  Definition hs_add (h : heapsel) (x : A) : heapsel :=
    if hn h <? hk h then
      let heap' := hheap h ++ [x] in
      if S (hn h) =? hk h
      then mkHeap (hk h) (S (hn h)) true (sort_desc heap')
      else mkHeap (hk h) (S (hn h)) false heap'
    else
      match hheap h with
      | [] => mkHeap (hk h) (S (hn h)) false []             (* k = 0: Rust panics on heap[0] *)
      | top :: _ =>
        if ltb x top
        then mkHeap (hk h) (S (hn h)) false (sift (upd (hheap h) 0 x) 0 (hk h - 1))
        else mkHeap (hk h) (S (hn h)) false (hheap h)
      end.

  (* for i in (0..=(n / 2 - 1)).rev() { self.sift_down(i, n - 1) } *)
  Definition hs_heapify (h : heapsel) : heapsel :=
    let n := length (hheap h) in
    if n <=? 1 then h
    else mkHeap (hk h) (hn h) (hsorted h)
                (fold_left (fun hp i => sift hp i (n - 1)) (rev (seq 0 (n / 2))) (hheap h)).

  (* iter().max_by(..): the last of several equal maxima *)
  Definition max_by (l : list A) : A :=
    match l with
    | [] => d0                                               (* Rust: unwrap of None panics *)
    | a :: t => fold_left (fun acc x => if ltb x acc then acc else x) t a
    end.
  Definition hs_peek (h : heapsel) : A :=
    if hsorted h then nth 0 (hheap h) d0 else max_by (hheap h).
  Definition hs_peek_mut (h : heapsel) : A := nth 0 (hheap h) d0.
  Definition hs_set_root (h : heapsel) (x : A) : heapsel :=
    mkHeap (hk h) (hn h) (hsorted h) (upd (hheap h) 0 x).
  Definition hs_get (h : heapsel) : list A := hheap h.
End Heap.
Arguments heapsel : clear implicits.

(* ---------------------------------------------------------------------------------------- *)
(* LinearKNNSearch                                                                           *)
(* ---------------------------------------------------------------------------------------- *)
Section Linear.
  Context {D : Type} (ltb leb : D -> D -> bool) (dinf dzero : D).

  (* struct KNNPoint { distance, index }, ordered by distance only *)
  Definition kpt := (D * option nat)%type.
  Definition kltb (a b : kpt) : bool := ltb (fst a) (fst b).
  Definition kleb (a b : kpt) : bool := leb (fst a) (fst b).
  Definition kd0 : kpt := (dinf, None).

  Fixpoint iterate {S} (n : nat) (f : S -> S) (s : S) : S :=
    match n with 0 => s | S n' => iterate n' f (f s) end.

  Definition linear_scan (dq : nat -> D) (n : nat) (h : heapsel kpt) : heapsel kpt :=
    fold_left
      (fun h i =>
         let d := dq i in
         let datum := hs_peek_mut kd0 h in
         if ltb d (fst datum)
         then hs_heapify kltb kleb kd0 (hs_set_root h (d, Some i))
         else h)
      (seq 0 n) h.

  Definition linear_find (dq : nat -> D) (n k : nat) : option (list (nat * D)) :=
    if (k <? 1) || (n <? k) then None
    else
      let h0 := iterate k (fun h => hs_add kltb kleb kd0 h (dinf, None)) (with_capacity k) in
      let h := linear_scan dq n h0 in
      Some (flat_map (fun x : kpt => match snd x with Some i => [(i, fst x)] | None => [] end)
                     (hs_get h)).

  Definition linear_find_radius (dq : nat -> D) (n : nat) (radius : D) : option (list (nat * D)) :=
    if leb radius dzero then None
    else Some (flat_map (fun i => if leb (dq i) radius then [(i, dq i)] else []) (seq 0 n)).
End Linear.

(* ---------------------------------------------------------------------------------------- *)
(* CoverTree::{find, find_radius} on a given tree                                            *)
(* ---------------------------------------------------------------------------------------- *)
Section Tree.
  Context {D : Type}.
  Inductive ctree := Node (idx : nat) (max_dist : D) (children : list ctree).
  Definition t_idx (t : ctree) := match t with Node i _ _ => i end.
  Definition t_max (t : ctree) := match t with Node _ m _ => m end.
  Definition t_children (t : ctree) := match t with Node _ _ c => c end.
  Fixpoint height (t : ctree) : nat :=
    match t with Node _ _ cs => S (fold_right (fun c m => Nat.max (height c) m) 0 cs) end.
End Tree.
Arguments ctree : clear implicits.

Section Cover.
  Context {D : Type} (ltb leb : D -> D -> bool) (plus : D -> D -> D) (dmax dzero : D).
  Let tree := ctree D.

  (* neighbors.sort_by(|a, b| a.1.partial_cmp(&b.1).unwrap()) : stable, ascending *)
  Fixpoint insert_asc (x : nat * D) (l : list (nat * D)) : list (nat * D) :=
    match l with
    | [] => [x]
    | y :: t => if ltb (snd y) (snd x) then y :: insert_asc x t else x :: l
    end.
  Definition sort_asc (l : list (nat * D)) : list (nat * D) := fold_right insert_asc [] l.

  (* state of one level: heap, next_cover_set, zero_set *)
  Definition fstate := (heapsel D * list (D * tree) * list (D * tree))%type.

  (* body of `for c in 0..parent.children.len()` *)
  Definition find_visit (dq : nat -> D) (st : fstate) (c : nat) (pd : D) (child : tree) : fstate :=
    let '(heap, next, zero) := st in
    let d := if c =? 0 then pd else dq (t_idx child) in
    let upper_bound := hs_peek ltb dzero heap in
    if leb d (plus upper_bound (t_max child)) then
      let heap' := if negb (c =? 0) && ltb d upper_bound then hs_add ltb leb dzero heap d else heap in
      match t_children child with
      | _ :: _ => (heap', next ++ [(d, child)], zero)
      | [] => if leb d upper_bound then (heap', next, zero ++ [(d, child)]) else (heap', next, zero)
      end
    else st.

  Definition enumerate {X} (l : list X) : list (nat * X) := combine (seq 0 (length l)) l.

  (* `for par in current_cover_set { for c in .. }` *)
  Definition find_level (dq : nat -> D) (cur : list (D * tree)) (heap : heapsel D)
             (zero : list (D * tree)) : fstate :=
    fold_left
      (fun st par =>
         fold_left (fun st cc => find_visit dq st (fst cc) (fst par) (snd cc))
                   (enumerate (t_children (snd par))) st)
      cur (heap, [], zero).

  (* `while !current_cover_set.is_empty()` *)
  Fixpoint find_levels (fuel : nat) (dq : nat -> D) (cur : list (D * tree)) (heap : heapsel D)
           (zero : list (D * tree)) : option (heapsel D * list (D * tree)) :=
    match cur with
    | [] => Some (heap, zero)
    | _ :: _ =>
      match fuel with
      | 0 => None
      | S f =>
        let '(heap', next, zero') := find_level dq cur heap zero in
        find_levels f dq next heap' zero'
      end
    end.

  Definition cover_find (dq : nat -> D) (root : tree) (n k : nat) : option (list (nat * D)) :=
    if k =? 0 then None
    else if n <? k then None
    else
      let d := dq (t_idx root) in
      let heap := hs_add ltb leb dzero (with_capacity k) dmax in
      let heap := hs_add ltb leb dzero heap d in
      match find_levels (S (height root)) dq [(d, root)] heap [] with
      | None => None
      | Some (heap, zero) =>
        let upper_bound := hs_peek ltb dzero heap in
        let neighbors :=
            flat_map (fun ds : D * tree =>
                        if leb (fst ds) upper_bound then [(t_idx (snd ds), fst ds)] else []) zero in
        let neighbors := if k <? length neighbors then sort_asc neighbors else neighbors in
        Some (firstn k neighbors)
      end.

  (* find_radius *)
  Definition rstate := (list (D * tree) * list (D * tree))%type.   (* next_cover_set, zero_set *)
  Definition radius_visit (dq : nat -> D) (radius : D) (st : rstate) (c : nat) (pd : D)
             (child : tree) : rstate :=
    let '(next, zero) := st in
    let d := if c =? 0 then pd else dq (t_idx child) in
    if leb d (plus radius (t_max child)) then
      match t_children child with
      | _ :: _ => (next ++ [(d, child)], zero)
      | [] => if leb d radius then (next, zero ++ [(d, child)]) else (next, zero)
      end
    else st.
  Definition radius_level (dq : nat -> D) (radius : D) (cur : list (D * tree))
             (zero : list (D * tree)) : rstate :=
    fold_left
      (fun st par =>
         fold_left (fun st cc => radius_visit dq radius st (fst cc) (fst par) (snd cc))
                   (enumerate (t_children (snd par))) st)
      cur ([], zero).
  Fixpoint radius_levels (fuel : nat) (dq : nat -> D) (radius : D) (cur : list (D * tree))
           (zero : list (D * tree)) : option (list (D * tree)) :=
    match cur with
    | [] => Some zero
    | _ :: _ =>
      match fuel with
      | 0 => None
      | S f => let '(next, zero') := radius_level dq radius cur zero in
               radius_levels f dq radius next zero'
      end
    end.
  Definition cover_find_radius (dq : nat -> D) (root : tree) (radius : D)
    : option (list (nat * D)) :=
    if leb radius dzero then None
    else
      match radius_levels (S (height root)) dq radius [(dq (t_idx root), root)] [] with
      | None => None
      | Some zero => Some (map (fun ds : D * tree => (t_idx (snd ds), fst ds)) zero)
      end.
End Cover.

(* ---------------------------------------------------------------------------------------- *)
(* Well-formedness of a cover tree (the hypothesis of the exactness theorems; evaluated on    *)
(* every tree the implementation builds).  `dpp i j` = distance between data points i and j.   *)
(* ---------------------------------------------------------------------------------------- *)
Section Wf.
  Context {D : Type} (leb : D -> D -> bool) (dpp : nat -> nat -> D).

  (* the data indices a subtree enumerates: its leaves *)
  Fixpoint leaves (t : ctree D) : list nat :=
    match t with
    | Node i _ [] => [i]
    | Node _ _ cs => flat_map leaves cs
    end.

  (* every node: max_dist bounds the distance from the node's point to every point below it,
     and the first child repeats the node's point *)
  Fixpoint wfb (t : ctree D) : bool :=
    match t with
    | Node i md cs =>
      forallb (fun x => leb (dpp i x) md) (leaves t)
      && match cs with [] => true | c :: _ => t_idx c =? i end
      && forallb wfb cs
    end.

  Fixpoint insert_nat (x : nat) (l : list nat) : list nat :=
    match l with [] => [x] | y :: t => if x <=? y then x :: l else y :: insert_nat x t end.
  Definition sort_nat (l : list nat) : list nat := fold_right insert_nat [] l.

  (* the root is an internal node and the leaves enumerate 0..n-1, each once *)
  Definition wf_root (n : nat) (t : ctree D) : bool :=
    wfb t
    && match t_children t with [] => false | _ :: _ => true end
    && list_eqb Nat.eqb (sort_nat (leaves t)) (seq 0 n).
End Wf.

(* ---------------------------------------------------------------------------------------- *)
(* KNNWeightFunction::calc_weights, KNNClassifier / KNNRegressor                              *)
(* ---------------------------------------------------------------------------------------- *)
Inductive weightfn := Uniform | DistanceW.
Inductive algo := LinearSearch | CoverTreeSearch.

Section Estimators.
  Context {T : Type} (O : Ops T).

  Definition calc_weights (w : weightfn) (distances : list T) : list T :=
    match w with
    | DistanceW =>
      if existsb (fun e => O.(oeqb) e O.(o0)) distances
      then map (fun e => if O.(oeqb) e O.(o0) then O.(o1) else O.(o0)) distances
      else map (fun e => O.(odiv) O.(o1) e) distances
    | Uniform => repeat O.(o1) (length distances)
    end.

  Fixpoint updT (l : list T) (i : nat) (x : T) : list T :=
    match l, i with
    | [], _ => []
    | _ :: t, 0 => x :: t
    | a :: t, S i' => a :: updT t i' x
    end.

  (* KNNClassifier::predict_for_row after the search: index into `classes` *)
  Definition clf_vote (nclasses : nat) (y : list nat) (w : weightfn) (sr : list (nat * T)) : nat :=
    let weights := calc_weights w (map snd sr) in
    let w_sum := osum O weights in
    let '(_, _, max_i) :=
        fold_left
          (fun (st : list T * T * nat) (rw : (nat * T) * T) =>
             let '(c, max_c, max_i) := st in
             let yi := nth (fst (fst rw)) y 0 in
             let c' := updT c yi (O.(oadd) (nth yi c O.(o0)) (O.(odiv) (snd rw) w_sum)) in
             if O.(oltb) max_c (nth yi c' O.(o0)) then (c', nth yi c' O.(o0), yi) else (c', max_c, max_i))
          (combine sr weights) (repeat O.(o0) nclasses, O.(o0), 0) in
    max_i.

  (* KNNRegressor::predict_for_row after the search *)
  Definition reg_mean (y : list T) (w : weightfn) (sr : list (nat * T)) : T :=
    let weights := calc_weights w (map snd sr) in
    let w_sum := osum O weights in
    fold_left (fun result (rw : (nat * T) * T) =>
                 O.(oadd) result (O.(omul) (nth (fst (fst rw)) y O.(o0)) (O.(odiv) (snd rw) w_sum)))
              (combine sr weights) O.(o0).

  (* y_m.unique(): sort ascending, dedup; yi = position of the label in `classes` *)
  Fixpoint insert_label (x : T) (l : list T) : list T :=
    match l with
    | [] => [x]
    | y :: t => if O.(oltb) y x then y :: insert_label x t else x :: l
    end.
  Fixpoint dedup (l : list T) : list T :=
    match l with
    | [] => []
    | a :: t => match dedup t with
                | [] => [a]
                | b :: t' => if O.(oeqb) a b then b :: t' else a :: b :: t'
                end
    end.
  Definition unique (l : list T) : list T := dedup (fold_right insert_label [] l).
  Fixpoint position (c : T) (l : list T) : nat :=
    match l with [] => 0 | x :: t => if O.(oeqb) c x then 0 else S (position c t) end.

  (* The search structure a fitted estimator owns: the number of points, and for the cover tree the
     tree itself (built by CoverTree::new; the construction is not modelled — wf_root is evaluated on it). *)
  Inductive searcher := SLinear (n : nat) | SCover (n : nat) (root : ctree T).

  Definition searcher_find (dmax dinf : T) (s : searcher) (dq : nat -> T) (k : nat)
    : option (list (nat * T)) :=
    match s with
    | SLinear n => linear_find O.(oltb) O.(oleb) dinf dq n k
    | SCover n root => cover_find O.(oltb) O.(oleb) O.(oadd) dmax O.(o0) dq root n k
    end.

  (* fit: parameter / shape checks (the search structure is passed in) *)
  Definition clf_fit_ok (x_n y_n k : nat) : bool := (x_n =? y_n) && negb (k <=? 1).
  Definition reg_fit_ok (x_n y_n k : nat) : bool := (x_n =? y_n) && negb (k <? 1).

  (* predict for one row: `find(&x, k)?` then the vote / mean *)
  Definition clf_predict_row (dmax dinf : T) (s : searcher) (classes : list T) (y : list nat)
             (w : weightfn) (k : nat) (dq : nat -> T) : option T :=
    match searcher_find dmax dinf s dq k with
    | None => None
    | Some sr => Some (nth (clf_vote (length classes) y w sr) classes O.(o0))
    end.
  Definition reg_predict_row (dmax dinf : T) (s : searcher) (y : list T)
             (w : weightfn) (k : nat) (dq : nat -> T) : option T :=
    match searcher_find dmax dinf s dq k with
    | None => None
    | Some sr => Some (reg_mean y w sr)
    end.
End Estimators.
