(* C04 — executable model of the cover-tree CONSTRUCTION
   (src/algorithm/neighbour/cover_tree.rs: CoverTree::new / build_cover_tree / batch_insert / split /
    dist_split / get_scale / max).  Definitions only; proofs are in ProofsBuild.v.

   Transliteration notes
   - `DistanceSet { idx, dist: Vec<F> }` is `(idx, stack)` with the stack stored top-first: `dist.push(d)`
     is `cons`, `dist[dist.len()-1]` is `hd`, `dist.remove(dist.len()-1)` is `tl`.  The stacks are never
     empty where the code reads them (each set starts with one entry, pushes and pops are balanced), so
     the default of `hd` is never used.
   - `Vec<DistanceSet>` is a list in Vec order; `v.remove(v.len()-1)` is `unsnoc`; `drain(0..)` loops are
     `filter` / `map` in list order (each loop only appends to vectors that it does not read).
   - scales are `i64` in the code and `Z` here; `smin` is `i64::MIN`, `saturating_sub(1)` is
     `Z.max (s - 1) smin`.  `get_scale(d)` is `if d <= 0 { MIN } else { let s = ceil(ln d / ln 1.3);
     if get_cover_radius(s) < d { s + 1 } else { s } }`: the branches are in the model, the rounded
     logarithm `gsp : D -> Z` and `get_cover_radius = radius : Z -> D` (1.3^s) are parameters (ln / powf are not reproduced in Coq; Corr.v passes the values the implementation's
     formulas give as finite tables, the theorems assume only the three facts listed in ProofsBuild.v).
   - `dpp i j` is `self.distance.distance(&data[i], &data[j])`, argument order as in the code.
   - the recursion of batch_insert carries fuel (out of fuel = `None`); the `while !point_set.is_empty()`
     loop carries its own fuel `1 + |point_set| + |far|` (each iteration consumes one set).
   - `new_point_set` / `new_consumed_set` are declared outside the `while` loop but are drained to empty at
     the end of every iteration, so the model creates them per iteration.
   - the fields `parent_dist` and `_scale` of `Node` are never read by the queries and are not modelled
     (`top_scale - max_scale` can therefore not overflow here). *)
From Coq Require Import List Arith Bool ZArith.
From SC Require Import C04.Model.
Import ListNotations.

Section Build.
  Context {D : Type} (ltb leb : D -> D -> bool) (dzero dmone : D).
  Context (smin : Z) (gsp : D -> Z) (radius : Z -> D) (dpp : nat -> nat -> D).
  Let tree := ctree D.

  Definition dset := (nat * list D)%type.
  Definition ds_last (s : dset) : D := hd dzero (snd s).
  Definition ds_push (d : D) (s : dset) : dset := (fst s, d :: snd s).
  Definition ds_pop (s : dset) : dset := (fst s, tl (snd s)).

  (* fn get_scale(&self, d): `gsp d` is `(inv_log_base * d.ln()).ceil()`; the scale is bumped by one when
     the rounded logarithm leaves the cover radius short of d *)
  Definition get_scale (d : D) : Z :=
    if leb d dzero then smin
    else let s := gsp d in if ltb (radius s) d then (s + 1)%Z else s.

  (* fn max(&self, distance_set): `if max < last { max = last }` from F::zero() *)
  Definition max_of (l : list dset) : D :=
    fold_left (fun m s => if ltb m (ds_last s) then ds_last s else m) l dzero.

  Definition is_near (fmax : D) (s : dset) : bool := leb (ds_last s) fmax.
  Definition is_far (fmax : D) (s : dset) : bool := negb (leb (ds_last s) fmax).

  (* fn dist_split(point_set, new_point_set, new_point, max_scale): returns (point_set, new_point_set) *)
  Definition near_of (fmax : D) (q : nat) (s : dset) : bool := leb (dpp q (fst s)) fmax.
  Definition dist_split (fmax : D) (q : nat) (ps nps : list dset) : list dset * list dset :=
    (filter (fun s => negb (near_of fmax q s)) ps,
     nps ++ map (fun s => ds_push (dpp q (fst s)) s) (filter (near_of fmax q) ps)).

  Definition new_leaf (i : nat) : tree := Node i dzero [].

  Fixpoint unsnoc {X} (l : list X) : option (list X * X) :=
    match l with
    | [] => None
    | x :: t => match unsnoc t with
                | None => Some ([], x)
                | Some (t', y) => Some (x :: t', y)
                end
    end.

  (* the `while !point_set.is_empty()` loop of batch_insert; `rec q nps` is
     `self.batch_insert(q, next_scale, top_scale, &mut new_point_set, &mut new_consumed_set)`;
     returns (far, consumed_set, children) — point_set is empty on exit *)
  Definition bi_loop (rec : nat -> list dset -> option (tree * list dset * list dset)) (fmax : D) :=
    fix loop (lf : nat) (ps far cs : list dset) (children : list tree)
      : option (list dset * list dset * list tree) :=
      match unsnoc ps with
      | None => Some (far, cs, children)
      | Some (ps1, set) =>
        match lf with
        | 0 => None
        | S lf' =>
          let '(ps2, nps) := dist_split fmax (fst set) ps1 [] in
          let '(far2, nps2) := dist_split fmax (fst set) far nps in
          match rec (fst set) nps2 with
          | None => None
          | Some (new_child, nps3, ncs) =>
            let back := map ds_pop nps3 in
            loop lf' (ps2 ++ filter (is_near fmax) back) (far2 ++ filter (is_far fmax) back)
                 (cs ++ [set] ++ map ds_pop ncs) (children ++ [new_child])
          end
        end
      end.

  Definition is_nil {X} (l : list X) : bool := match l with [] => true | _ => false end.

  (* fn batch_insert(&self, p, max_scale, top_scale, point_set, consumed_set) -> Node;
     returns (node, point_set, consumed_set) *)
  Fixpoint batch_insert (fuel : nat) (p : nat) (max_scale top_scale : Z) (ps cs : list dset)
    : option (tree * list dset * list dset) :=
    match fuel with
    | 0 => None
    | S f =>
      match ps with
      | [] =>
        if (max_scale =? top_scale)%Z && is_nil cs
        then Some (Node p dzero [new_leaf p], [], cs)
        else Some (new_leaf p, [], cs)
      | _ :: _ =>
        let max_dist := max_of ps in
        let next_scale := Z.min (Z.max (max_scale - 1) smin) (get_scale max_dist) in
        if (next_scale =? smin)%Z then
          Some (Node p dzero (new_leaf p :: map (fun s : dset => new_leaf (fst s)) (rev ps)), [], cs ++ rev ps)
        else
          let fmax := radius max_scale in
          let near := filter (is_near fmax) ps in
          let far := filter (is_far fmax) ps in
          match batch_insert f p next_scale top_scale near cs with
          | None => None
          | Some (child, ps1, cs1) =>
            match ps1 with
            | [] => Some (child, far, cs1)
            | _ :: _ =>
              match bi_loop (fun q nps => batch_insert f q next_scale top_scale nps []) fmax
                            (S (length ps1 + length far)) ps1 far cs1 [child] with
              | None => None
              | Some (far', cs', children) => Some (Node p (max_of cs') children, far', cs')
              end
            end
          end
      end
    end.

  (* fn build_cover_tree(&mut self) (n = data.len(); `&self.data[0]` panics for n = 0) *)
  Definition initial_sets (n : nat) : list dset := map (fun i => (i, [dpp 0 i])) (seq 1 (n - 1)).
  Definition initial_max (n : nat) : D :=
    fold_left (fun m i => if ltb m (dpp 0 i) then dpp 0 i else m) (seq 1 (n - 1)) dmone.
  Definition cover_build (fuel : nat) (n : nat) : option tree :=
    match n with
    | 0 => None
    | _ =>
      let sc := get_scale (initial_max n) in
      match batch_insert fuel 0 sc sc (initial_sets n) [] with
      | None => None
      | Some (root, _, _) => Some root
      end
    end.
End Build.
