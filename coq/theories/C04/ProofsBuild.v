(* C04 — every tree the construction model (ModelBuild: CoverTree::new / batch_insert / split /
   dist_split) builds is well formed: build_wf.  No symmetry or triangle inequality is needed for this
   (max_dist is computed from the recorded distances, it is not inferred from the scale). *)
From Coq Require Import List Arith Bool Lia Permutation Sorted ZArith Morphisms.
From SC Require Import Base.FloatUtil C04.Model C04.Proofs_Heap C04.Proofs_Linear C04.Proofs_Cover.
From SC Require Import C04.ModelBuild.
Import ListNotations.

(* ---- permutations of concatenations, up to associativity / commutativity ---- *)
Lemma bring_here {X} (x r : list X) : Permutation (x ++ r) (x ++ r).
Proof. apply Permutation_refl. Qed.
Lemma bring_skip {X} (x r1 t t' : list X) : Permutation t (x ++ t') -> Permutation (r1 ++ t) (x ++ r1 ++ t').
Proof.
  intros H. eapply perm_trans; [apply Permutation_app_head, H|]. apply Permutation_app_swap_app.
Qed.
Ltac bring x := first [ apply (bring_here x) | apply (bring_skip x); bring x ].
Ltac perm_ac_loop :=
  lazymatch goal with
  | |- Permutation [] [] => constructor
  | |- Permutation (?c ++ ?L) ?R =>
    eapply perm_trans; [ | apply Permutation_sym; bring c ]; apply Permutation_app_head; perm_ac_loop
  end.
Ltac perm_ac :=
  match goal with
  | |- Permutation ?L ?R => rewrite <- (app_nil_r L), <- (app_nil_r R)
  end; rewrite <- ?app_assoc; perm_ac_loop.

Lemma filter_partition {X} (f : X -> bool) (l : list X) :
  Permutation l (filter f l ++ filter (fun x => negb (f x)) l).
Proof.
  induction l as [|a l IH]; simpl; auto. destruct (f a); simpl.
  - now constructor.
  - eapply perm_trans; [apply perm_skip, IH|]. apply Permutation_middle.
Qed.

Lemma unsnoc_some {X} (l l' : list X) x : unsnoc l = Some (l', x) -> l = l' ++ [x].
Proof.
  revert l'. induction l as [|a l IH]; simpl; intros l' H; [discriminate|].
  destruct (unsnoc l) as [[t y]|] eqn:E.
  - inversion H; subst. simpl. f_equal. now apply IH.
  - inversion H; subst. destruct l as [|b l]; [reflexivity|]. simpl in E. destruct (unsnoc l) as [[? ?]|]; discriminate.
Qed.
Lemma unsnoc_none {X} (l : list X) : unsnoc l = None -> l = [].
Proof. destruct l as [|a l]; simpl; auto. destruct (unsnoc l) as [[? ?]|]; discriminate. Qed.

Lemma list_eqb_nat_refl (l : list nat) : list_eqb Nat.eqb l l = true.
Proof. induction l; simpl; auto. now rewrite Nat.eqb_refl. Qed.

(* insertion sort of a permutation of 0..n-1 is 0..n-1 *)
Lemma insert_nat_sorted x l : StronglySorted le l -> StronglySorted le (insert_nat x l).
Proof.
  induction 1 as [|y t Ht IH Hy]; simpl; [repeat constructor|].
  destruct (x <=? y) eqn:E.
  - apply Nat.leb_le in E. constructor; [constructor; auto|]. constructor; auto.
    eapply Forall_impl; [|exact Hy]. intros; lia.
  - apply Nat.leb_gt in E. constructor; auto.
    assert (P : Permutation (insert_nat x t) (x :: t)).
    { clear. induction t as [|z t IH]; simpl; auto. destruct (x <=? z); auto.
      eapply perm_trans; [apply perm_skip, IH|apply perm_swap]. }
    eapply Permutation_Forall; [apply Permutation_sym, P|]. constructor; auto. lia.
Qed.
Lemma sort_nat_sorted l : StronglySorted le (sort_nat l).
Proof. induction l; simpl; [constructor|now apply insert_nat_sorted]. Qed.
Lemma sorted_perm_eq (l1 : list nat) : forall l2, StronglySorted le l1 -> StronglySorted le l2 ->
  Permutation l1 l2 -> l1 = l2.
Proof.
  induction l1 as [|a l1 IH]; intros l2 S1 S2 P.
  - apply Permutation_nil in P. now subst.
  - destruct l2 as [|b l2]; [apply Permutation_sym, Permutation_nil in P; discriminate|].
    inversion S1 as [|? ? S1' F1]; inversion S2 as [|? ? S2' F2]; subst.
    assert (a = b).
    { rewrite Forall_forall in F1, F2.
      assert (In b (a :: l1)) by (eapply Permutation_in; [apply Permutation_sym, P|now left]).
      assert (In a (b :: l2)) by (eapply Permutation_in; [exact P|now left]).
      destruct H as [H|H]; [auto|]. destruct H0 as [H0|H0]; [auto|].
      specialize (F1 _ H). specialize (F2 _ H0). lia. }
    subst b. f_equal. apply IH; auto. eapply Permutation_cons_inv; eauto.
Qed.
Lemma seq_sorted n : forall s, StronglySorted le (seq s n).
Proof.
  induction n; intros s; simpl; constructor; auto.
  apply Forall_forall. intros x Hx. apply in_seq in Hx. lia.
Qed.
Lemma sort_nat_seq l n : Permutation l (seq 0 n) -> sort_nat l = seq 0 n.
Proof.
  intros P. apply sorted_perm_eq; [apply sort_nat_sorted|apply seq_sorted|].
  eapply perm_trans; [|exact P].
  clear. induction l as [|a l IH]; simpl; auto.
  assert (Q : forall x t, Permutation (insert_nat x t) (x :: t)).
  { clear. intros x t. induction t as [|z t IH]; simpl; auto. destruct (x <=? z); auto.
    eapply perm_trans; [apply perm_skip, IH|apply perm_swap]. }
  eapply perm_trans; [apply Q|]. now constructor.
Qed.

Section BuildProofs.
  Context {D : Type} (ltb leb : D -> D -> bool) (dzero dmone : D).
  Hypothesis PO : preorder ltb leb.
  Context (smin : Z) (gsp : D -> Z) (radius : Z -> D) (dpp : nat -> nat -> D).
  (* what the proof needs of the scale functions: positive distances have a scale well above i64::MIN
     (slo: some floor, e.g. -3000 for binary64), cover radii of scales below that floor are <= 0
     (1.3^s underflows), and a point is at distance <= 0 from itself *)
  Variable slo : Z.
  Hypothesis slo_gap : (smin + 2 < slo)%Z.
  Hypothesis gsp_lo : forall d, leb d dzero = false -> (slo <= gsp d)%Z.
  Hypothesis radius_lo : forall s x, (s < slo)%Z -> leb x (radius s) = true -> leb x dzero = true.
  Hypothesis dpp_refl : forall i, leb (dpp i i) dzero = true.

  Notation "a <== b" := (leb a b = true) (at level 70).
  Notation tree := (ctree D).
  Notation dset := (@dset D).
  Notation last := (ds_last dzero).
  Notation maxof := (max_of ltb dzero).
  Notation leaf := (new_leaf dzero).
  Notation BI := (batch_insert ltb leb dzero smin gsp radius dpp).
  Notation LOOP := (bi_loop leb dzero dpp).
  Notation gscale := (get_scale ltb leb dzero smin gsp radius).
  Notation WF := (wfb leb dpp).
  Notation near fmax := (is_near leb dzero fmax).
  Notation far fmax := (is_far leb dzero fmax).

  Let trans := leb_trans _ _ PO.

  (* ---- running maxima ---- *)
  Section FoldMax.
    Context {X : Type} (g : X -> D).
    Let step := fun (m : D) (x : X) => if ltb m (g x) then g x else m.
    Lemma fold_max_ge l : forall m, m <== fold_left step l m /\ forall x, In x l -> g x <== fold_left step l m.
    Proof.
      induction l as [|a l IH]; intros m; simpl.
      - split; [apply (leb_refl _ _ PO)|tauto].
      - destruct (IH (step m a)) as [H1 H2].
        assert (Hm : m <== step m a /\ g a <== step m a).
        { unfold step. destruct (ltb m (g a)) eqn:E.
          - split; [now apply (ltb_true _ _ PO)|apply (leb_refl _ _ PO)].
          - split; [apply (leb_refl _ _ PO)|now apply (ltb_false _ _ PO)]. }
        split; [eapply trans; [apply Hm|exact H1]|].
        intros x [<-|Hx]; [eapply trans; [apply Hm|exact H1]|now apply H2].
    Qed.
    Lemma fold_max_in l : forall m, fold_left step l m = m \/ exists x, In x l /\ fold_left step l m = g x.
    Proof.
      induction l as [|a l IH]; intros m; simpl; auto.
      destruct (IH (step m a)) as [H|(x & Hx & H)].
      - rewrite H. unfold step. destruct (ltb m (g a)); auto. right. exists a. auto.
      - right. exists x. auto.
    Qed.
  End FoldMax.

  Lemma maxof_ge l s : In s l -> last s <== maxof l.
  Proof. intros H. now apply (fold_max_ge last l dzero). Qed.
  Lemma maxof_nonneg l : dzero <== maxof l.
  Proof. apply (fold_max_ge last l dzero). Qed.
  Lemma maxof_zero l : (forall s, In s l -> last s <== dzero) -> maxof l <== dzero.
  Proof.
    intros H. unfold max_of. destruct (fold_max_in last l dzero) as [E|(x & Hx & E)]; rewrite E.
    - apply (leb_refl _ _ PO).
    - now apply H.
  Qed.

  Lemma pop_push d (s : dset) : ds_pop (ds_push d s) = s.
  Proof. destruct s; reflexivity. Qed.
  Lemma fst_pop (s : dset) : fst (ds_pop s) = fst s.
  Proof. reflexivity. Qed.

  (* ---- leaves / wfb of the node shapes the construction produces ---- *)
  Lemma wfb_leaf i : WF (leaf i) = true.
  Proof. cbn. now rewrite dpp_refl. Qed.
  Lemma leaves_leafs (l : list dset) : flat_map leaves (map (fun s : dset => leaf (fst s)) l) = map fst l.
  Proof. induction l; simpl; auto. now rewrite IHl. Qed.

  Definition last_ok (p : nat) (s : dset) : Prop := last s = dpp p (fst s).
  Definition Inv (ms : Z) (ps : list dset) : Prop :=
    (slo - 1 <= ms)%Z \/ forall s, In s ps -> last s <== dzero.

  (* the contract of one batch_insert call *)
  Definition BI_post (p : nat) (ms : Z) (ps cs : list dset) (r : tree * list dset * list dset) : Prop :=
    let '(t, ps', cs') := r in
    exists newc, cs' = cs ++ newc /\ Permutation ps (ps' ++ newc) /\
                 (forall s, In s ps' -> leb (last s) (radius ms) = false) /\
                 ((forall s, In s ps -> last s <== dzero) -> ps' = []) /\
                 t_idx t = p /\ Permutation (leaves t) ([p] ++ map fst newc) /\ WF t = true.
  Definition rec_ok (rec : nat -> list dset -> option (tree * list dset * list dset)) (ns : Z) : Prop :=
    forall q nps r, rec q nps = Some r -> (forall s, In s nps -> last_ok q s) -> Inv ns nps ->
                    BI_post q ns nps [] r.

  Lemma bi_loop_eq rec fmax lf ps fr cs ch :
    LOOP rec fmax lf ps fr cs ch =
    match unsnoc ps with
    | None => Some (fr, cs, ch)
    | Some (ps1, set) =>
      match lf with
      | 0 => None
      | S lf' =>
        let '(ps2, nps) := dist_split leb dpp fmax (fst set) ps1 [] in
        let '(far2, nps2) := dist_split leb dpp fmax (fst set) fr nps in
        match rec (fst set) nps2 with
        | None => None
        | Some (new_child, nps3, ncs) =>
          let back := map ds_pop nps3 in
          LOOP rec fmax lf' (ps2 ++ filter (near fmax) back) (far2 ++ filter (far fmax) back)
               (cs ++ [set] ++ map ds_pop ncs) (ch ++ [new_child])
        end
      end
    end.
  Proof. destruct lf; reflexivity. Qed.

  Lemma bi_loop_spec rec fmax p ns : rec_ok rec ns ->
    ((slo - 1 <= ns)%Z \/ forall x, x <== fmax -> x <== dzero) ->
    forall lf ps fr cs ch fr' cs' ch',
    LOOP rec fmax lf ps fr cs ch = Some (fr', cs', ch') ->
    (forall s, In s ps -> last_ok p s) -> (forall s, In s fr -> last_ok p s) ->
    (forall s, In s fr -> far fmax s = true) ->
    exists newc newch, cs' = cs ++ newc /\ ch' = ch ++ newch /\
      Permutation (ps ++ fr) (fr' ++ newc) /\
      (forall s, In s fr' -> far fmax s = true) /\
      (forall c, In c newch -> WF c = true) /\
      Permutation (flat_map leaves newch) (map fst newc).
  Proof.
    intros Hrec HI. induction lf as [|lf IH]; intros ps fr cs ch fr' cs' ch' E Hps Hfr Hfar;
      rewrite bi_loop_eq in E; (destruct (unsnoc ps) as [[ps1 set]|] eqn:U;
      [|apply unsnoc_none in U; subst ps; inversion E; subst; exists [], []; rewrite !app_nil_r; simpl;
        repeat split; auto; intros c []]).
    - discriminate.
    - apply unsnoc_some in U. subst ps. cbn [dist_split] in E.
      set (q := fst set) in *.
      set (N1 := filter (near_of leb dpp fmax q) ps1) in *.
      set (N2 := filter (near_of leb dpp fmax q) fr) in *.
      set (ps2 := filter (fun s => negb (near_of leb dpp fmax q s)) ps1) in *.
      set (far2 := filter (fun s => negb (near_of leb dpp fmax q s)) fr) in *.
      match type of E with context [map ?f N1] => set (push := f) in * end.
      match type of E with context [rec q ?X] => set (nps2 := X) in * end.
      destruct (rec q nps2) as [[[child nps3] ncs]|] eqn:ER; [|discriminate].
      assert (Hnps2 : forall s, In s nps2 -> exists s0, s = push s0 /\ (In s0 ps1 \/ In s0 fr) /\
                                                 dpp q (fst s0) <== fmax).
      { intros s Hs. unfold nps2 in Hs. simpl in Hs. apply in_app_or in Hs.
        destruct Hs as [Hs|Hs]; apply in_map_iff in Hs; destruct Hs as (s0 & <- & H0);
          apply filter_In in H0; destruct H0 as [H0 H1]; exists s0; auto. }
      assert (Pre1 : forall s, In s nps2 -> last_ok q s).
      { intros s Hs. destruct (Hnps2 s Hs) as (s0 & -> & _ & _). reflexivity. }
      assert (Pre2 : Inv ns nps2).
      { destruct HI as [HI|HI]; [now left|right]. intros s Hs.
        destruct (Hnps2 s Hs) as (s0 & -> & _ & Hle). apply HI. exact Hle. }
      destruct (Hrec q nps2 _ ER Pre1 Pre2) as (newcr & Encs & Pr & _ & _ & Hidx & Hlv & Hwf).
      simpl in Encs. subst newcr.
      set (back := map ds_pop nps3) in *.
      assert (Hpop : map ds_pop nps2 = N1 ++ N2).
      { unfold nps2. simpl. rewrite map_app, !map_map.
        f_equal; (erewrite map_ext; [apply map_id|]); intros s; apply pop_push. }
      assert (Pb : Permutation (N1 ++ N2) (back ++ map ds_pop ncs)).
      { rewrite <- Hpop. unfold back. rewrite <- map_app. now apply Permutation_map. }
      assert (Hback : forall s, In s back -> In s ps1 \/ In s fr).
      { intros s Hs. assert (In s (N1 ++ N2)).
        { eapply Permutation_in; [apply Permutation_sym, Pb|]. apply in_or_app. now left. }
        apply in_app_or in H. destruct H as [H|H]; apply filter_In in H; tauto. }
      assert (Hok1 : forall s, In s ps1 -> last_ok p s).
      { intros s Hs. apply Hps. apply in_or_app. now left. }
      specialize (IH _ _ _ _ _ _ _ E). destruct IH as (newc' & newch' & E1 & E2 & P' & F' & W' & L').
      + intros s Hs. apply in_app_or in Hs. destruct Hs as [Hs|Hs].
        * apply Hok1. apply filter_In in Hs. tauto.
        * apply filter_In in Hs. destruct Hs as [Hs _]. destruct (Hback s Hs); auto.
      + intros s Hs. apply in_app_or in Hs. destruct Hs as [Hs|Hs].
        * apply Hfr. apply filter_In in Hs. tauto.
        * apply filter_In in Hs. destruct Hs as [Hs _]. destruct (Hback s Hs); auto.
      + intros s Hs. apply in_app_or in Hs. destruct Hs as [Hs|Hs].
        * apply Hfar. apply filter_In in Hs. tauto.
        * apply filter_In in Hs. tauto.
      + exists ([set] ++ map ds_pop ncs ++ newc'), ([child] ++ newch').
        split; [rewrite E1, <- !app_assoc; reflexivity|].
        split; [rewrite E2, <- !app_assoc; reflexivity|].
        split; [|split; [exact F'|split]].
        * pose proof (filter_partition (near_of leb dpp fmax q) ps1) as Q1. fold N1 ps2 in Q1.
          pose proof (filter_partition (near_of leb dpp fmax q) fr) as Q2. fold N2 far2 in Q2.
          pose proof (filter_partition (near fmax) back) as Q3.
          assert (Q4 : Permutation (ps1 ++ fr) ((ps2 ++ far2) ++ (N1 ++ N2))).
          { rewrite Q1 at 1. rewrite Q2 at 1. perm_ac. }
          rewrite Pb in Q4.
          assert (Q5 : Permutation (ps1 ++ fr) ((fr' ++ newc') ++ map ds_pop ncs)).
          { rewrite Q4. rewrite <- P'. rewrite Q3 at 1. unfold is_far. perm_ac. }
          assert (Q6 : Permutation ((ps1 ++ [set]) ++ fr) ((ps1 ++ fr) ++ [set])) by perm_ac.
          rewrite Q6, Q5. perm_ac.
        * intros c [<-|Hc]; auto.
        * rewrite !map_app, map_map. cbn [flat_map app map].
          rewrite L', Hlv. rewrite (map_ext (fun x => fst (ds_pop x)) fst) by reflexivity.
          fold q. rewrite <- app_assoc. reflexivity.
  Qed.

  (* next_scale = MIN only happens when every remaining point is at distance <= 0 *)
  Lemma flat_all_zero ms (ps : list dset) :
    Z.min (Z.max (ms - 1) smin) (gscale (maxof ps)) = smin -> Inv ms ps ->
    forall s, In s ps -> last s <== dzero.
  Proof.
    intros E I. unfold get_scale in E. destruct (leb (maxof ps) dzero) eqn:Em.
    - intros s Hs. eapply trans; [apply maxof_ge, Hs|exact Em].
    - pose proof (gsp_lo _ Em). destruct I as [I|I]; [|exact I].
      destruct (ltb (radius (gsp (maxof ps))) (maxof ps)); lia.
  Qed.
  Lemma nonflat_inv ms (ps : list dset) : let ns := Z.min (Z.max (ms - 1) smin) (gscale (maxof ps)) in
    ns <> smin -> Inv ms ps ->
    ((slo - 1 <= ns)%Z \/ forall x, x <== radius ms -> x <== dzero) /\
    ~ (forall s, In s ps -> last s <== dzero).
  Proof.
    intros ns Hne I. unfold ns, get_scale in *.
    assert (NZ : ~ (forall s, In s ps -> last s <== dzero)).
    { intros A. apply maxof_zero in A. rewrite A in Hne. lia. }
    split; auto. destruct (leb (maxof ps) dzero) eqn:Em; [lia|].
    pose proof (gsp_lo _ Em). destruct I as [I|I]; [|contradiction].
    destruct (Z_lt_le_dec ms slo) as [Hlt|Hge].
    - right. intros x. apply radius_lo. exact Hlt.
    - left. destruct (ltb (radius (gsp (maxof ps))) (maxof ps)); lia.
  Qed.

  Theorem bi_spec : forall fuel p ms ts ps cs r,
    BI fuel p ms ts ps cs = Some r -> (forall s, In s ps -> last_ok p s) -> Inv ms ps ->
    BI_post p ms ps cs r.
  Proof.
    induction fuel as [|f IHf]; intros p ms ts ps cs r E Hok I; [discriminate|].
    cbn [batch_insert] in E. destruct ps as [|s0 ps0].
    - (* no point left: a leaf (or, for a one-point data set, a root with one leaf) *)
      assert (R : exists t, r = (t, [], cs) /\ (t = Node p dzero [leaf p] \/ t = leaf p)).
      { destruct ((ms =? ts)%Z && is_nil cs); inversion E; eauto. }
      destruct R as (t & -> & Ht). exists []. rewrite app_nil_r.
      split; auto. split; [constructor|]. split; [intros s []|]. split; auto.
      destruct Ht as [->| ->]; cbn; rewrite ?dpp_refl, ?Nat.eqb_refl; auto.
    - remember (s0 :: ps0) as ps eqn:Eps.
      set (ns := Z.min (Z.max (ms - 1) smin) (gscale (maxof ps))) in *.
      destruct (ns =? smin)%Z eqn:Ens.
      + (* all remaining points coincide with p: one flat node *)
        apply Z.eqb_eq in Ens. pose proof (flat_all_zero ms ps Ens I) as Hz.
        inversion E; subst r; clear E. exists (rev ps).
        split; auto. split; [simpl; apply Permutation_rev|]. split; [intros s []|]. split; auto.
        split; auto. split.
        * cbn [leaves flat_map]. rewrite leaves_leafs. reflexivity.
        * cbn [wfb leaves flat_map]. rewrite leaves_leafs. cbn [t_idx new_leaf]. rewrite Nat.eqb_refl, andb_true_r.
          apply andb_true_iff. split.
          -- apply forallb_forall. intros x [<-|Hx]; [apply dpp_refl|].
             apply in_map_iff in Hx. destruct Hx as (s & <- & Hs). apply in_rev in Hs.
             rewrite <- (Hok s Hs). now apply Hz.
          -- cbn [forallb]. rewrite wfb_leaf. apply forallb_forall. intros c Hc.
             apply in_map_iff in Hc. destruct Hc as (s & <- & _). apply wfb_leaf.
      + apply Z.eqb_neq in Ens. destruct (nonflat_inv ms ps Ens I) as [HI NZ]. fold ns in HI.
        set (fmax := radius ms) in *.
        set (nr := filter (near fmax) ps) in *. set (fr := filter (far fmax) ps) in *.
        assert (Qp : Permutation ps (nr ++ fr)) by apply filter_partition.
        assert (Hnr : forall s, In s nr -> In s ps /\ last s <== fmax).
        { intros s Hs. apply filter_In in Hs. exact Hs. }
        assert (Hfr : forall s, In s fr -> In s ps /\ far fmax s = true).
        { intros s Hs. apply filter_In in Hs. exact Hs. }
        assert (HInv : forall l : list dset, (forall s, In s l -> last s <== fmax) -> Inv ns l).
        { intros l Hl. destruct HI as [HI|HI]; [now left|right]. intros s Hs. apply HI, Hl, Hs. }
        destruct (BI f p ns ts nr cs) as [[[child ps1] cs1]|] eqn:E1; [|discriminate].
        apply IHf in E1; [|intros s Hs; apply Hok, Hnr, Hs|apply HInv; intros s Hs; apply Hnr, Hs].
        destruct E1 as (newc1 & Ecs1 & P1 & _ & _ & Hidx & Hlv & Hwf).
        destruct ps1 as [|d1 ps1'].
        * (* everything near was absorbed by the self-child *)
          inversion E; subst r; clear E. exists newc1. split; auto.
          split; [rewrite Qp; simpl in P1; rewrite P1; apply Permutation_app_comm|].
          split; [intros s Hs; apply Hfr in Hs; destruct Hs as [_ Hs]; unfold is_far in Hs;
                  now apply negb_true_iff in Hs|].
          split; [intros A; contradiction|]. auto.
        * set (ps1 := d1 :: ps1') in *.
          destruct (LOOP (fun q nps => BI f q ns ts nps []) fmax (S (length ps1 + length fr)) ps1 fr cs1 [child])
            as [[[fr' cs'] children]|] eqn:EL; [|discriminate].
          inversion E; subst r; clear E.
          apply (bi_loop_spec _ fmax p ns) in EL; auto.
          -- destruct EL as (newc2 & newch & Ecs' & Ech & P2 & F2 & W2 & L2).
             assert (Pall : Permutation ps (fr' ++ newc1 ++ newc2)).
             { rewrite Qp, P1. transitivity ((ps1 ++ fr) ++ newc1); [perm_ac|rewrite P2; perm_ac]. }
             exists (newc1 ++ newc2). split; [rewrite Ecs', Ecs1, app_assoc; reflexivity|].
             split; [exact Pall|].
             split; [intros s Hs; apply F2 in Hs; unfold is_far in Hs; now apply negb_true_iff in Hs|].
             split; [intros A; contradiction|]. split; auto.
             assert (Lv : Permutation (leaves (Node p (maxof cs') children)) ([p] ++ map fst (newc1 ++ newc2))).
             { subst children. cbn [app leaves flat_map]. rewrite Hlv, L2, map_app. reflexivity. }
             split; [exact Lv|].
             cbn [wfb]. apply andb_true_iff. split; [apply andb_true_iff; split|].
             ++ apply forallb_forall. intros x Hx.
                eapply Permutation_in in Hx; [|exact Lv]. destruct Hx as [<-|Hx].
                ** eapply trans; [apply dpp_refl|apply maxof_nonneg].
                ** apply in_map_iff in Hx. destruct Hx as (s & <- & Hs).
                   assert (In s ps).
                   { eapply Permutation_in; [apply Permutation_sym, Pall|]. apply in_or_app. now right. }
                   rewrite <- (Hok s H). apply maxof_ge. rewrite Ecs', Ecs1, <- app_assoc.
                   apply in_or_app. now right.
             ++ subst children. cbn [app]. rewrite Hidx. apply Nat.eqb_refl.
             ++ subst children. apply forallb_forall. intros c [<-|Hc]; auto.
          -- intros q nps r Er Hq Iq. eapply IHf; eauto.
          -- intros s Hs. apply Hok, Hnr. eapply Permutation_in; [apply Permutation_sym, P1|].
             apply in_or_app. now left.
          -- intros s Hs. apply Hok, Hfr, Hs.
          -- intros s Hs. apply Hfr, Hs.
  Qed.

  (* ---- the construction terminates: enough fuel is one level per scale between max_scale and the floor ---- *)
  Lemma filter_split_length {X} (f : X -> bool) (l : list X) :
    length (filter f l) + length (filter (fun x => negb (f x)) l) = length l.
  Proof. induction l as [|a l IH]; simpl; auto. destruct (f a); simpl; lia. Qed.

  Definition rec_total (rec : nat -> list dset -> option (tree * list dset * list dset)) (ns : Z) : Prop :=
    forall q nps, (forall s, In s nps -> last_ok q s) -> Inv ns nps -> exists r, rec q nps = Some r.

  Lemma bi_loop_total rec fmax ns : rec_ok rec ns -> rec_total rec ns ->
    ((slo - 1 <= ns)%Z \/ forall x, x <== fmax -> x <== dzero) ->
    forall lf ps fr cs ch, length ps + length fr <= lf -> exists r, LOOP rec fmax lf ps fr cs ch = Some r.
  Proof.
    intros Hrec Htot HI. induction lf as [|lf IH]; intros ps fr cs ch Hlen;
      rewrite bi_loop_eq; (destruct (unsnoc ps) as [[ps1 set]|] eqn:U; [|eexists; reflexivity]);
      apply unsnoc_some in U; subst ps; rewrite app_length in Hlen; simpl in Hlen; [lia|].
    cbn [dist_split].
    set (q := fst set).
    set (N1 := filter (near_of leb dpp fmax q) ps1).
    set (N2 := filter (near_of leb dpp fmax q) fr).
    set (ps2 := filter (fun s => negb (near_of leb dpp fmax q s)) ps1).
    set (far2 := filter (fun s => negb (near_of leb dpp fmax q s)) fr).
    match goal with |- context [map ?f N1] => set (push := f) end.
    match goal with |- context [rec q ?X] => set (nps2 := X) end.
    assert (Hnps2 : forall s, In s nps2 -> exists s0, s = push s0 /\ dpp q (fst s0) <== fmax).
    { intros s Hs. unfold nps2 in Hs. simpl in Hs. apply in_app_or in Hs.
      destruct Hs as [Hs|Hs]; apply in_map_iff in Hs; destruct Hs as (s0 & <- & H0);
        apply filter_In in H0; destruct H0 as [H0 H1]; exists s0; auto. }
    assert (Pre1 : forall s, In s nps2 -> last_ok q s).
    { intros s Hs. destruct (Hnps2 s Hs) as (s0 & -> & _). reflexivity. }
    assert (Pre2 : Inv ns nps2).
    { destruct HI as [HI|HI]; [now left|right]. intros s Hs.
      destruct (Hnps2 s Hs) as (s0 & -> & Hle). apply HI. exact Hle. }
    destruct (Htot q nps2 Pre1 Pre2) as ([[child nps3] ncs] & ER). rewrite ER.
    destruct (Hrec q nps2 _ ER Pre1 Pre2) as (newcr & _ & Pr & _).
    apply IH. rewrite !app_length.
    pose proof (filter_split_length (near fmax) (map ds_pop nps3)) as L1.
    change (fun x : dset => negb (near fmax x)) with (far fmax) in L1.
    pose proof (filter_split_length (near_of leb dpp fmax q) ps1) as L2. fold N1 ps2 in L2.
    pose proof (filter_split_length (near_of leb dpp fmax q) fr) as L3. fold N2 far2 in L3.
    apply Permutation_length in Pr. rewrite app_length in Pr.
    assert (L4 : length nps2 = length N1 + length N2).
    { unfold nps2. simpl. rewrite app_length, !map_length. reflexivity. }
    rewrite map_length in L1. lia.
  Qed.

  Theorem bi_total : forall fuel p ms ts ps cs,
    (forall s, In s ps -> last_ok p s) -> Inv ms ps -> Z.to_nat (ms - slo + 2) + 1 <= fuel ->
    exists r, BI fuel p ms ts ps cs = Some r.
  Proof.
    induction fuel as [|f IHf]; intros p ms ts ps cs Hok I Hf; [lia|].
    cbn [batch_insert]. destruct ps as [|s0 ps0].
    - destruct ((ms =? ts)%Z && is_nil cs); eexists; reflexivity.
    - remember (s0 :: ps0) as ps eqn:Eps.
      set (ns := Z.min (Z.max (ms - 1) smin) (gscale (maxof ps))) in *.
      destruct (ns =? smin)%Z eqn:Ens; [eexists; reflexivity|].
      apply Z.eqb_neq in Ens. destruct (nonflat_inv ms ps Ens I) as [HI NZ]. fold ns in HI.
      assert (Hms : (slo - 1 <= ms)%Z) by (destruct I as [I|I]; [exact I|contradiction]).
      assert (Hns : (ns <= ms - 1)%Z) by (unfold ns; lia).
      assert (Hf' : Z.to_nat (ns - slo + 2) + 1 <= f) by lia.
      set (fmax := radius ms) in *.
      set (nr := filter (near fmax) ps). set (fr := filter (far fmax) ps).
      assert (Hnr : forall s, In s nr -> In s ps /\ last s <== fmax).
      { intros s Hs. apply filter_In in Hs. exact Hs. }
      assert (HInv : forall l : list dset, (forall s, In s l -> last s <== fmax) -> Inv ns l).
      { intros l Hl. destruct HI as [HI|HI]; [now left|right]. intros s Hs. apply HI, Hl, Hs. }
      assert (Pre1 : forall s, In s nr -> last_ok p s) by (intros s Hs; apply Hok, Hnr, Hs).
      assert (Pre2 : Inv ns nr) by (apply HInv; intros s Hs; apply Hnr, Hs).
      destruct (IHf p ns ts nr cs Pre1 Pre2 Hf') as ([[child ps1] cs1] & E1). rewrite E1.
      destruct ps1 as [|d1 ps1']; [eexists; reflexivity|].
      destruct (bi_loop_total (fun q nps => BI f q ns ts nps []) fmax ns) with
          (lf := S (length (d1 :: ps1') + length fr)) (ps := d1 :: ps1') (fr := fr) (cs := cs1) (ch := [child])
        as ([[fr' cs'] children] & EL); auto.
      + intros q nps r Er Hq Iq. eapply bi_spec; eauto.
      + intros q nps Hq Iq. apply IHf; auto.
      + rewrite EL. eexists; reflexivity.
  Qed.

  (* ---- the root call ---- *)
  (* the rounded logarithm is off by at most one step: when the cover radius of the scale it gives falls
     short of d, the next scale's radius reaches d.  With this the (repaired) get_scale satisfies
     d <= radius (get_scale d), which is what keeps every point of the data set in the root's near set *)
  Hypothesis radius_next : forall d, leb d dzero = false -> ltb (radius (gsp d)) d = true ->
                                     d <== radius (gsp d + 1).
  Lemma gscale_covers d : leb d dzero = false -> d <== radius (gscale d).
  Proof.
    intros Hd. unfold get_scale. rewrite Hd. destruct (ltb (radius (gsp d)) d) eqn:E.
    - now apply radius_next.
    - now apply (ltb_false _ _ PO).
  Qed.
  Lemma gscale_lo d : leb d dzero = false -> (slo <= gscale d)%Z.
  Proof.
    intros Hd. unfold get_scale. rewrite Hd. pose proof (gsp_lo _ Hd).
    destruct (ltb (radius (gsp d)) d); lia.
  Qed.

  Lemma initial_max_ge n i : 1 <= i < n -> dpp 0 i <== initial_max ltb dmone dpp n.
  Proof. intros Hi. apply (fold_max_ge (dpp 0) (seq 1 (n - 1)) dmone). apply in_seq. lia. Qed.

  Theorem build_wf fuel n t :
    cover_build ltb leb dzero dmone smin gsp radius dpp fuel n = Some t -> wf_root leb dpp n t = true.
  Proof.
    unfold cover_build. destruct n as [|m]; [discriminate|].
    set (n := S m). set (sc := gscale (initial_max ltb dmone dpp n)).
    destruct (BI fuel 0 sc sc (initial_sets dpp n) []) as [[[root ps'] cs']|] eqn:E; [|discriminate].
    intros X; inversion X; subst t; clear X.
    destruct m as [|m'].
    { (* one point: the code wraps the leaf in a one-child root *)
      destruct fuel as [|f]; [discriminate|]. cbn in E. rewrite Z.eqb_refl in E. cbn in E.
      inversion E; subst. unfold n, wf_root. cbn. now rewrite !dpp_refl. }
    remember (S m') as m eqn:Em'.
    assert (Hsets : map fst (initial_sets dpp n) = seq 1 m).
    { unfold initial_sets, n. simpl. rewrite Nat.sub_0_r, map_map. apply map_id. }
    assert (Hlast : forall s, In s (initial_sets dpp n) -> last_ok 0 s /\ 1 <= fst s < n).
    { intros s Hs. apply in_map_iff in Hs. destruct Hs as (i & <- & Hi). apply in_seq in Hi.
      split; [reflexivity|simpl; lia]. }
    assert (Hle : forall s, In s (initial_sets dpp n) -> last s <== initial_max ltb dmone dpp n).
    { intros s Hs. destruct (Hlast s Hs) as [-> Hi]. now apply initial_max_ge. }
    assert (I0 : Inv sc (initial_sets dpp n)).
    { destruct (leb (initial_max ltb dmone dpp n) dzero) eqn:Em.
      - right. intros s Hs. eapply trans; [now apply Hle|exact Em].
      - left. pose proof (gscale_lo _ Em). fold sc in H. lia. }
    apply bi_spec in E; [|intros s Hs; apply Hlast, Hs|exact I0].
    destruct E as (newc & _ & P & Hfar & Hzero & _ & Lv & W).
    assert (Hnil : ps' = []).
    { destruct (leb (initial_max ltb dmone dpp n) dzero) eqn:Em.
      - apply Hzero. intros s Hs. eapply trans; [now apply Hle|exact Em].
      - destruct ps' as [|s ps'']; auto. exfalso.
        assert (Hs : In s (initial_sets dpp n)).
        { eapply Permutation_in; [apply Permutation_sym, P|]. now left. }
        specialize (Hfar s (or_introl eq_refl)).
        unfold sc in Hfar. rewrite (trans _ _ _ (Hle s Hs) (gscale_covers _ Em)) in Hfar. discriminate. }
    subst ps'. simpl in P.
    assert (Lv' : Permutation (leaves root) (seq 0 n)).
    { rewrite Lv. change (seq 0 n) with ([0] ++ seq 1 m). apply Permutation_app_head.
      rewrite <- Hsets. apply Permutation_map, Permutation_sym, P. }
    unfold wf_root. rewrite W, (sort_nat_seq _ _ Lv'), list_eqb_nat_refl, andb_true_r. cbn [andb].
    destruct root as [i md [|c cs]]; auto.
    exfalso. apply Permutation_length in Lv'. rewrite seq_length in Lv'. simpl in Lv'. unfold n in Lv'. lia.
  Qed.
  (* CoverTree::new succeeds on every non-empty data set: the model returns a tree as soon as the fuel covers
     one level per scale between the root's scale and the floor *)
  Theorem build_total fuel n : 1 <= n ->
    Z.to_nat (gscale (initial_max ltb dmone dpp n) - slo + 2) + 1 <= fuel ->
    exists t, cover_build ltb leb dzero dmone smin gsp radius dpp fuel n = Some t.
  Proof.
    intros Hn Hf. unfold cover_build. destruct n as [|m]; [lia|].
    set (n := S m) in *. set (sc := gscale (initial_max ltb dmone dpp n)) in *.
    assert (Hlast : forall s, In s (initial_sets dpp n) -> last_ok 0 s /\ 1 <= fst s < n).
    { intros s Hs. apply in_map_iff in Hs. destruct Hs as (i & <- & Hi). apply in_seq in Hi.
      split; [reflexivity|simpl; unfold n; lia]. }
    assert (I0 : Inv sc (initial_sets dpp n)).
    { destruct (leb (initial_max ltb dmone dpp n) dzero) eqn:Em.
      - right. intros s Hs. destruct (Hlast s Hs) as [-> Hi].
        eapply trans; [now apply initial_max_ge|exact Em].
      - left. pose proof (gscale_lo _ Em). fold sc in H. lia. }
    destruct (bi_total fuel 0 sc sc (initial_sets dpp n) []) as ([[root ps'] cs'] & E); auto.
    - intros s Hs. apply Hlast, Hs.
    - rewrite E. eexists; reflexivity.
  Qed.
End BuildProofs.

(* what build_wf assumes of the two scale functions (rounded logarithm `gsp`, cover radius `radius`),
   bundled: positive distances have a rounded logarithm >= slo, a floor well above i64::MIN; cover radii
   of scales below the floor are <= 0 (1.3^s underflows to 0); and the rounded logarithm is off by at
   most one step (if radius (gsp d) < d then d <= radius (gsp d + 1)) *)
Definition scale_ok {D} (ltb leb : D -> D -> bool) (dzero : D) (smin : Z) (gsp : D -> Z) (radius : Z -> D)
           (slo : Z) : Prop :=
  (smin + 2 < slo)%Z /\
  (forall d, leb d dzero = false -> (slo <= gsp d)%Z) /\
  (forall s x, (s < slo)%Z -> leb x (radius s) = true -> leb x dzero = true) /\
  (forall d, leb d dzero = false -> ltb (radius (gsp d)) d = true -> leb d (radius (gsp d + 1)%Z) = true).

Theorem build_wf' {D} (ltb leb : D -> D -> bool) (dzero dmone : D) (PO : preorder ltb leb)
        smin gsp radius slo (dpp : nat -> nat -> D) :
  scale_ok ltb leb dzero smin gsp radius slo -> (forall i, leb (dpp i i) dzero = true) ->
  forall fuel n t, cover_build ltb leb dzero dmone smin gsp radius dpp fuel n = Some t ->
                   wf_root leb dpp n t = true.
Proof.
  intros (H1 & H2 & H3 & H4) Hr fuel n t. exact (build_wf ltb leb dzero dmone PO smin gsp radius dpp slo H1 H2 H3 Hr H4 fuel n t).
Qed.

(* total correctness of the construction: with one unit of fuel per scale between the root's scale and the
   floor, CoverTree::new returns a tree, and it is well formed *)
Theorem build_total' {D} (ltb leb : D -> D -> bool) (dzero dmone : D) (PO : preorder ltb leb)
        smin gsp radius slo (dpp : nat -> nat -> D) :
  scale_ok ltb leb dzero smin gsp radius slo -> (forall i, leb (dpp i i) dzero = true) ->
  forall fuel n, 1 <= n ->
  Z.to_nat (get_scale ltb leb dzero smin gsp radius (initial_max ltb dmone dpp n) - slo + 2) + 1 <= fuel ->
  exists t, cover_build ltb leb dzero dmone smin gsp radius dpp fuel n = Some t /\ wf_root leb dpp n t = true.
Proof.
  intros SC Hr fuel n Hn Hf. pose proof SC as (H1 & H2 & H3 & H4).
  destruct (build_total ltb leb dzero dmone PO smin gsp radius dpp slo H1 H2 H3 Hr H4 fuel n Hn Hf) as (t & E).
  exists t. split; auto. eapply (build_wf' ltb leb dzero dmone PO); eauto.
Qed.
