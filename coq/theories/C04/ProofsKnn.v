(* C04 — the k-NN estimators end to end (over the reals): search theorem + construction theorem + vote /
   mean theorem composed into one statement per estimator, for both search structures. *)
From Coq Require Import List Arith Bool Lia Reals Lra ZArith.
From SC Require Import Base.Num C04.Model C04.ModelBuild C04.Proofs_Heap C04.Proofs_Linear C04.Proofs_Cover
     C04.Proofs_Est C04.ProofsBuild.
Import ListNotations.
Local Open Scope R_scope.

Lemma R_preorder : preorder Rltb Rleb.
Proof.
  split.
  - intros a b. destruct (Rle_dec a b) as [H|H]; [left|right]; apply Rleb_true; lra.
  - intros a b c H1 H2. apply Rleb_true in H1, H2. apply Rleb_true. lra.
  - intros a b. destruct (Rleb b a) eqn:E.
    + apply Rleb_true in E. apply Rltb_false. exact E.
    + apply Rleb_false in E. apply Rltb_true. exact E.
Qed.
Lemma Rplus_leb_mono a b c d : Rleb a b = true -> Rleb c d = true -> Rleb (a + c) (b + d) = true.
Proof. intros H1 H2. apply Rleb_true in H1, H2. apply Rleb_true. lra. Qed.

(* total weight of a non-empty neighbour list with non-negative distances is positive *)
Lemma rsum_nonneg l : (forall x, In x l -> 0 <= x) -> 0 <= rsum l.
Proof.
  induction l as [|a l IH]; simpl; intros H; [lra|].
  assert (0 <= a) by (apply H; now left). assert (0 <= rsum l) by (apply IH; intros; apply H; now right). lra.
Qed.
Lemma rsum_pos_in l x : (forall y, In y l -> 0 <= y) -> In x l -> 0 < x -> 0 < rsum l.
Proof.
  induction l as [|a l IH]; simpl; intros H Hin Hp; [contradiction|]. destruct Hin as [->|Hx].
  - assert (0 <= rsum l) by (apply rsum_nonneg; intros; apply H; now right). lra.
  - assert (0 <= a) by (apply H; now left).
    assert (0 < rsum l) by (apply IH; auto; intros; apply H; now right). lra.
Qed.
Lemma weights_sum_pos w ds : ds <> [] -> (forall d, In d ds -> 0 <= d) -> 0 < rsum (calc_weights ROps w ds).
Proof.
  intros Hne Hd. pose proof (weights_nonneg w ds Hd) as Hnn. destruct w.
  - rewrite weights_uniform. destruct ds as [|d ds]; [congruence|]. simpl.
    assert (0 <= rsum (repeat 1 (length ds))).
    { apply rsum_nonneg. intros x Hx. apply repeat_spec in Hx. lra. }
    lra.
  - destruct (in_dec Req_EM_T 0 ds) as [H|H].
    + apply (rsum_pos_in _ 1); auto; [|lra]. rewrite weights_exact_match by auto.
      apply in_map_iff. exists 0. split; auto. destruct (Req_EM_T 0 0); [reflexivity|congruence].
    + destruct ds as [|d ds]; [congruence|].
      assert (0 < d). { destruct (Hd d (or_introl eq_refl)); auto. subst. exfalso. apply H. now left. }
      apply (rsum_pos_in _ (1 / d)); auto.
      * rewrite weights_inverse by auto. simpl. now left.
      * unfold Rdiv. rewrite Rmult_1_l. now apply Rinv_0_lt_compat.
Qed.

Section EndToEnd.
  Context {P : Type} (dist : P -> P -> R) (pt : nat -> P) (q : P).
  Hypothesis dist_sym : forall a b, dist a b = dist b a.
  Hypothesis dist_tri : forall a b c, dist a c <= dist a b + dist b c.
  Hypothesis dist_nonneg : forall a b, 0 <= dist a b.
  Hypothesis dist_refl : forall a, dist a a = 0.
  Context (smin : Z) (gsp : R -> Z) (radius : Z -> R) (slo : Z).
  Hypothesis SC : scale_ok Rltb Rleb 0 smin gsp radius slo.
  Context (dmax dinf : R).

  Notation dqq := (dq dist pt q).

  (* the search structure a fitted estimator owns: the exhaustive scan over the n training rows, or the
     cover tree that CoverTree::new (the construction model, any fuel that suffices) built from them *)
  Definition fitted (s : searcher (T:=R)) (n : nat) : Prop :=
    match s with
    | SLinear n' => n' = n
    | SCover n' root =>
      n' = n /\ exists fuel, cover_build Rltb Rleb 0 (-1) smin gsp radius (dpp dist pt) fuel n = Some root
    end.

  Theorem search_knn s n k : fitted s n -> (1 <= k <= n)%nat ->
    (forall i, (i < n)%nat -> dqq i < dinf) -> (forall i, (i < n)%nat -> dqq i <= dmax) ->
    exists sr, searcher_find ROps dmax dinf s dqq k = Some sr /\ is_knn Rleb dqq n k sr.
  Proof.
    intros F Hk Hinf Hmax. destruct s as [n'|n' root]; simpl in F.
    - subst n'. apply (linear_find_exact Rltb Rleb dinf R_preorder); auto.
      intros i Hi. apply Rltb_true. now apply Hinf.
    - destruct F as (-> & fuel & B).
      apply (cover_find_exact Rltb Rleb Rplus R_preorder Rplus_leb_mono dist pt q dist_sym); try tauto.
      + intros a b c. apply Rleb_true. apply dist_tri.
      + eapply (build_wf' Rltb Rleb 0 (-1) R_preorder); eauto.
        intros i. apply Rleb_true. unfold dpp. rewrite dist_refl. lra.
      + intros i Hi. apply Rleb_true. now apply Hmax.
  Qed.

  Lemma knn_facts n k sr : is_knn Rleb dqq n k sr -> (1 <= k)%nat ->
    map snd sr <> [] /\ (forall d, In d (map snd sr) -> 0 <= d) /\ (forall r, In r sr -> (fst r < n)%nat /\ 0 <= snd r).
  Proof.
    intros (L & _ & Hin & _) Hk.
    assert (A : forall r, In r sr -> (fst r < n)%nat /\ 0 <= snd r).
    { intros (i, d) Hr. destruct (Hin i d Hr) as [Hi ->]. split; auto. apply dist_nonneg. }
    split; [|split; auto].
    - destruct sr; simpl in *; [lia|discriminate].
    - intros d Hd. apply in_map_iff in Hd. destruct Hd as (r & <- & Hr). now apply A.
  Qed.

  (* KNNRegressor::predict, one row: the prediction is the weighted mean (uniform or inverse-distance
     weights, all weight on exact matches) of the targets of a k-nearest set of the training rows *)
  Theorem knn_regressor_end_to_end s n k (y : list R) w :
    fitted s n -> (1 <= k <= n)%nat ->
    (forall i, (i < n)%nat -> dqq i < dinf) -> (forall i, (i < n)%nat -> dqq i <= dmax) ->
    exists sr, is_knn Rleb dqq n k sr /\
      let ws := calc_weights ROps w (map snd sr) in
      let W := rsum ws in
      0 < W /\
      exists pred, reg_predict_row ROps dmax dinf s y w k dqq = Some pred /\
        pred * W = rsum (map (fun rw : (nat * R) * R => nth (fst (fst rw)) y 0 * snd rw) (combine sr ws)).
  Proof.
    intros F Hk Hinf Hmax. destruct (search_knn s n k F Hk Hinf Hmax) as (sr & E & K).
    exists sr. split; auto. intros ws W.
    destruct (knn_facts n k sr K (proj1 Hk)) as (Hne & Hnn & _).
    assert (HW : 0 < W) by (apply weights_sum_pos; auto).
    split; auto. unfold reg_predict_row. rewrite E. eexists; split; [reflexivity|].
    apply (knn_regressor_mean y w sr). fold ws. fold W. lra.
  Qed.

  (* KNNClassifier::predict, one row: the predicted label is the label of a class of maximal total
     (normalised) weight among a k-nearest set of the training rows *)
  Theorem knn_classifier_end_to_end s n k (classes : list R) (y : list nat) w :
    fitted s n -> (1 <= k <= n)%nat -> (forall i, (i < n)%nat -> (nth i y 0 < length classes)%nat) ->
    (forall i, (i < n)%nat -> dqq i < dinf) -> (forall i, (i < n)%nat -> dqq i <= dmax) ->
    exists sr, is_knn Rleb dqq n k sr /\
      let ws := calc_weights ROps w (map snd sr) in
      let W := rsum ws in
      let c := clf_vote ROps (length classes) y w sr in
      clf_predict_row ROps dmax dinf s classes y w k dqq = Some (nth c classes 0) /\
      forall j, (j < length classes)%nat -> score y W (combine sr ws) j <= score y W (combine sr ws) c.
  Proof.
    intros F Hk Hy Hinf Hmax. destruct (search_knn s n k F Hk Hinf Hmax) as (sr & E & K).
    exists sr. split; auto. intros ws W c.
    destruct (knn_facts n k sr K (proj1 Hk)) as (Hne & Hnn & Hr).
    split; [unfold clf_predict_row; rewrite E; reflexivity|].
    apply (knn_classifier_vote (length classes) y w sr).
    - intros r Hin. apply Hy. now apply Hr.
    - intros r Hin. now apply Hr.
    - now apply weights_sum_pos.
  Qed.
End EndToEnd.
