(* C04 — two corollaries of the end-to-end estimator theorems (over the reals, one query row):
   k = 1: both predict functions return the target / label of a NEAREST training row;
   exact match under distance weighting (any k): if the query coincides with training rows (distance 0) and
   those rows agree on their target / label, that target / label is returned (the zero-distance neighbours
   take all the weight). *)
From Coq Require Import List Arith Bool Lia Reals Lra ZArith.
From SC Require Import Base.Num C04.Model C04.ModelBuild C04.Proofs_Heap C04.Proofs_Linear C04.Proofs_Cover
     C04.Proofs_Est C04.ProofsBuild C04.ProofsKnn C04.ProofsLabels C04.ProofsClassifier.
Import ListNotations.
Local Open Scope R_scope.

Lemma combine_map_self {X Y} (h : X -> Y) (l : list X) : combine l (map h l) = map (fun r => (r, h r)) l.
Proof. induction l; simpl; [reflexivity|]. now rewrite IHl. Qed.

Lemma rsum_const_factor {X} (f : X -> R) (g : X -> R) (v : R) (l : list X) :
  (forall x, In x l -> g x <> 0 -> f x = v) ->
  rsum (map (fun x => f x * g x) l) = v * rsum (map g l).
Proof.
  induction l as [|a l IH]; intros H; simpl; [lra|].
  rewrite IH by (intros; apply H; auto; now right).
  destruct (Req_EM_T (g a) 0) as [E|E]; [rewrite E; lra|].
  rewrite (H a (or_introl eq_refl) E). lra.
Qed.

Lemma lscore_pos_in' ys W l lab : 0 < lscore ys W l lab ->
  exists rw, In rw l /\ nth (fst (fst rw)) ys 0 = lab /\ 0 < snd rw / W.
Proof.
  unfold lscore. induction l as [|a l IH]; simpl; intros H; [lra|].
  destruct (Req_EM_T (nth (fst (fst a)) ys 0) lab) as [Q|Q].
  - destruct (Rlt_dec 0 (snd a / W)) as [Pa|Pa]; [exists a; auto|].
    destruct IH as (rw & Hrw & E & Pw); [lra|]. exists rw; auto.
  - destruct IH as (rw & Hrw & E & Pw); [lra|]. exists rw; auto.
Qed.

Section Nearest.
  Context {P : Type} (dist : P -> P -> R) (pt : nat -> P) (q : P).
  Hypothesis dist_sym : forall a b, dist a b = dist b a.
  Hypothesis dist_tri : forall a b c, dist a c <= dist a b + dist b c.
  Hypothesis dist_nonneg : forall a b, 0 <= dist a b.
  Hypothesis dist_refl : forall a, dist a a = 0.
  Context (smin : Z) (gsp : R -> Z) (radius : Z -> R) (slo : Z).
  Hypothesis SC : scale_ok Rltb Rleb 0 smin gsp radius slo.
  Context (dmax dinf : R).
  Notation dqq := (dq dist pt q).
  Notation fit_cl ys := (unique ROps ys).
  Notation fit_yi ys := (map (fun l => position ROps l (unique ROps ys)) ys).

  (* a 1-nearest set is one nearest row *)
  Lemma knn1_shape n sr : is_knn Rleb dqq n 1 sr ->
    exists i, sr = [(i, dqq i)] /\ (i < n)%nat /\ forall j, (j < n)%nat -> dqq i <= dqq j.
  Proof.
    intros (L & _ & Hin & Hout). destruct sr as [|(i, d) [|? ?]]; simpl in L; try discriminate.
    destruct (Hin i d (or_introl eq_refl)) as [Hi ->]. exists i. split; [reflexivity|]. split; [exact Hi|].
    intros j Hj. destruct (Nat.eq_dec j i) as [->|Hne]; [lra|].
    apply Rleb_true. apply (Hout i (dqq i) j); auto; [now left|]. simpl. intros [?|[]]. congruence.
  Qed.

  (* k = 1: regressor and classifier (predict_for_row; KNNClassifier::fit itself refuses k = 1) return the
     target / the original label of a nearest training row, for both weight functions and both searches *)
  Theorem knn_k1_nearest s n (y ys : list R) w :
    fitted dist pt smin gsp radius s n -> (1 <= n)%nat -> length ys = n ->
    (forall i, (i < n)%nat -> dqq i < dinf) -> (forall i, (i < n)%nat -> dqq i <= dmax) ->
    exists i, (i < n)%nat /\ (forall j, (j < n)%nat -> dqq i <= dqq j) /\
      reg_predict_row ROps dmax dinf s y w 1 dqq = Some (nth i y 0) /\
      clf_predict_row ROps dmax dinf s (fit_cl ys) (fit_yi ys) w 1 dqq = Some (nth i ys 0).
  Proof.
    intros F Hn Hys Hinf Hmax.
    assert (Hk : (1 <= 1 <= n)%nat) by lia.
    destruct (search_knn dist pt q dist_sym dist_tri dist_refl smin gsp radius slo SC dmax dinf s n 1 F Hk Hinf Hmax)
      as (sr & E & K).
    destruct (knn_facts dist pt q dist_sym dist_tri dist_nonneg dist_refl dinf n 1 sr K (proj1 Hk)) as (Hne & Hnn & Hr).
    destruct (knn1_shape n sr K) as (i & -> & Hi & Hmin).
    exists i. split; auto. split; auto.
    assert (HW : 0 < rsum (calc_weights ROps w (map snd [(i, dqq i)]))) by (now apply weights_sum_pos).
    split.
    - unfold reg_predict_row. rewrite E. f_equal.
      destruct (knn_regressor_mean y w [(i, dqq i)]) as [_ M]. specialize (M (Rgt_not_eq _ _ HW)).
      pose proof (weights_length w (map snd [(i, dqq i)])) as Lw.
      destruct (calc_weights ROps w (map snd [(i, dqq i)])) as [|x [|? ?]]; simpl in Lw; try discriminate.
      simpl in M, HW. apply Rmult_eq_reg_r with x; lra.
    - unfold clf_predict_row. rewrite E. f_equal.
      destruct (clf_vote_label ys w [(i, dqq i)]) as ((r & Hin & Er) & _); auto.
      + intros r Hin. rewrite Hys. now apply Hr.
      + intros r Hin. now apply Hr.
      + destruct Hin as [<-|[]]. symmetry. exact Er.
  Qed.

  (* exact match, distance weighting, any 1 <= k <= n: when some training rows are at distance 0 from the query
     and all of them carry the target v and the label lv, the regressor returns v and the classifier lv *)
  Theorem knn_exact_match s n k (y ys : list R) (v lv : R) :
    fitted dist pt smin gsp radius s n -> (1 <= k <= n)%nat -> length ys = n ->
    (forall i, (i < n)%nat -> dqq i < dinf) -> (forall i, (i < n)%nat -> dqq i <= dmax) ->
    (exists i0, (i0 < n)%nat /\ dqq i0 = 0) ->
    (forall j, (j < n)%nat -> dqq j = 0 -> nth j y 0 = v /\ nth j ys 0 = lv) ->
    reg_predict_row ROps dmax dinf s y DistanceW k dqq = Some v /\
    clf_predict_row ROps dmax dinf s (fit_cl ys) (fit_yi ys) DistanceW k dqq = Some lv.
  Proof.
    intros F Hk Hys Hinf Hmax (i0 & Hi0 & Z0) Hv.
    destruct (search_knn dist pt q dist_sym dist_tri dist_refl smin gsp radius slo SC dmax dinf s n k F Hk Hinf Hmax)
      as (sr & E & K).
    destruct (knn_facts dist pt q dist_sym dist_tri dist_nonneg dist_refl dinf n k sr K (proj1 Hk)) as (Hne & Hnn & Hr).
    pose proof K as (Lk & _ & Hin & Hout).
    (* a zero distance is among the neighbours *)
    assert (HZ : In 0 (map snd sr)).
    { destruct (in_dec Nat.eq_dec i0 (map fst sr)) as [I|I].
      - apply in_map_iff in I. destruct I as ((i, d) & Ei & Hid). simpl in Ei. subst i.
        destruct (Hin i0 d Hid) as [_ ->]. rewrite <- Z0. apply in_map_iff. exists (i0, dqq i0). auto.
      - destruct sr as [|(i, d) sr']; [simpl in Hne; congruence|].
        pose proof (Hout i d i0 (or_introl eq_refl) Hi0 I) as Hle. apply Rleb_true in Hle.
        destruct (Hr (i, d) (or_introl eq_refl)) as [_ Hd]. simpl in Hd.
        assert (d = 0) by lra. subst d. simpl. now left. }
    set (ind := fun e : R => if Req_EM_T e 0 then 1 else 0).
    assert (Ews : calc_weights ROps DistanceW (map snd sr) = map (fun r : nat * R => ind (snd r)) sr).
    { rewrite weights_exact_match by auto. now rewrite map_map. }
    assert (HW : 0 < rsum (calc_weights ROps DistanceW (map snd sr))) by (now apply weights_sum_pos).
    (* a neighbour with non-zero weight is a training row at distance 0 *)
    assert (Hzero : forall r, In r sr -> ind (snd r) <> 0 -> (fst r < n)%nat /\ dqq (fst r) = 0).
    { intros (i, d) Hrin Hnz. destruct (Hin i d Hrin) as [Hi Ed]. simpl in *. split; auto.
      unfold ind in Hnz. destruct (Req_EM_T d 0); [congruence|lra]. }
    split.
    - unfold reg_predict_row. rewrite E. f_equal.
      destruct (knn_regressor_mean y DistanceW sr) as [_ M]. specialize (M (Rgt_not_eq _ _ HW)).
      rewrite Ews in M, HW. rewrite combine_map_self in M. rewrite map_map in M. cbn [fst snd] in M.
      rewrite (rsum_const_factor (fun r : nat * R => nth (fst r) y 0) (fun r => ind (snd r)) v) in M.
      + apply Rmult_eq_reg_r with (rsum (map (fun r : nat * R => ind (snd r)) sr)); lra.
      + intros r Hrin Hnz. destruct (Hzero r Hrin Hnz) as [Hi Zi]. now apply Hv.
    - unfold clf_predict_row. rewrite E. f_equal.
      destruct (clf_vote_label ys DistanceW sr) as (_ & _ & Hp & _); auto.
      + intros r Hrin. rewrite Hys. now apply Hr.
      + intros r Hrin. now apply Hr.
      + apply lscore_pos_in' in Hp. destruct Hp as (rw & Hrw & El & Pw).
        rewrite Ews, combine_map_self in Hrw. apply in_map_iff in Hrw. destruct Hrw as (r & <- & Hrin).
        cbn [fst snd] in *.
        assert (Hnz : ind (snd r) <> 0).
        { intros Q. rewrite Q in Pw. unfold Rdiv in Pw. rewrite Rmult_0_l in Pw. lra. }
        destruct (Hzero r Hrin Hnz) as [Hi Zi].
        transitivity (nth (fst r) ys 0); [symmetry; exact El|now apply Hv].
  Qed.
End Nearest.
