(* C04 — CoverTree::{find, find_radius} are exact on every well-formed tree *)
From Coq Require Import List Arith Bool Lia Permutation Sorted.
From SC Require Import Base.FloatUtil C04.Model C04.Proofs_Heap C04.Proofs_Linear.
Import ListNotations.

Notation cnt := (count_occ Nat.eq_dec).

Lemma cnt_in l x : In x l <-> 1 <= cnt l x.
Proof. rewrite (count_occ_In Nat.eq_dec). lia. Qed.
Lemma cnt_flat_map {X} (f : X -> list nat) (l : list X) x a :
  In a l -> cnt (f a) x <= cnt (flat_map f l) x.
Proof.
  induction l as [|b l IH]; simpl; [tauto|]. rewrite count_occ_app. intros [->|H]; [lia|]. specialize (IH H). lia.
Qed.
Lemma fold_left_flat_map {X Y S} (f : S -> Y -> S) (g : X -> list Y) (l : list X) : forall a,
  fold_left f (flat_map g l) a = fold_left (fun a x => fold_left f (g x) a) l a.
Proof. induction l; intros; simpl; auto. rewrite fold_left_app. apply IHl. Qed.
Lemma flat_map_flat_map {X Y Z} (f : Y -> list Z) (g : X -> list Y) (l : list X) :
  flat_map f (flat_map g l) = flat_map (fun x => flat_map f (g x)) l.
Proof. induction l; simpl; auto. rewrite flat_map_app. f_equal; auto. Qed.
Lemma flat_map_ext_in' {X Y} (f g : X -> list Y) (l : list X) :
  (forall x, In x l -> f x = g x) -> flat_map f l = flat_map g l.
Proof. induction l; simpl; auto. intros H. rewrite H by auto. f_equal. apply IHl. auto. Qed.
Lemma list_eqb_nat_eq (a b : list nat) : list_eqb Nat.eqb a b = true -> a = b.
Proof.
  revert b; induction a as [|x a IH]; destruct b as [|y b]; simpl; intros H; try discriminate; auto.
  apply andb_true_iff in H. destruct H as [H1 H2]. apply Nat.eqb_eq in H1. f_equal; auto.
Qed.

Section TreeFacts.
  Context {D : Type}.
  Notation tree := (ctree D).
  Fixpoint ctree_ind' (P : tree -> Prop) (H : forall i m cs, Forall P cs -> P (Node i m cs))
           (t : tree) : P t :=
    match t with
    | Node i m cs =>
      H i m cs ((fix go (l : list tree) : Forall P l :=
                   match l with
                   | [] => Forall_nil P
                   | c :: l' => Forall_cons c (ctree_ind' P H c) (go l')
                   end) cs)
    end.

  Lemma height_child i m (cs : list tree) c : In c cs -> height c < height (Node i m cs).
  Proof.
    simpl. induction cs as [|a cs IH]; simpl; [tauto|]. intros [->|H]; [lia|]. specialize (IH H). lia.
  Qed.
  Lemma height_pos (t : tree) : 1 <= height t.
  Proof. destruct t; simpl; lia. Qed.

  Context (leb : D -> D -> bool) (dpp : nat -> nat -> D).
  Lemma wfb_node i m cs : wfb leb dpp (Node i m cs) = true ->
    (forall x, In x (leaves (Node i m cs)) -> leb (dpp i x) m = true) /\
    (match cs with [] => True | c :: _ => t_idx c = i end) /\
    (forall c, In c cs -> wfb leb dpp c = true).
  Proof.
    cbn [wfb]. rewrite !andb_true_iff. intros [[H1 H2] H3]. split; [|split].
    - rewrite forallb_forall in H1. exact H1.
    - destruct cs; auto. now apply Nat.eqb_eq.
    - rewrite forallb_forall in H3. exact H3.
  Qed.
  Lemma leaves_internal i m c (cs : list tree) :
    leaves (Node i m (c :: cs)) = flat_map leaves (c :: cs).
  Proof. reflexivity. Qed.
  Lemma idx_in_leaves (t : tree) : wfb leb dpp t = true -> In (t_idx t) (leaves t).
  Proof.
    induction t as [i m cs IH] using ctree_ind'. intros W. destruct (wfb_node _ _ _ W) as (_ & H2 & H3).
    destruct cs as [|c cs]; [simpl; auto|]. rewrite leaves_internal. cbn [flat_map t_idx].
    apply in_or_app. left. inversion IH as [|? ? IHc _]. rewrite <- H2. apply IHc. apply H3. now left.
  Qed.
End TreeFacts.

Section Cover.
  Context {D : Type} (ltb leb : D -> D -> bool) (plus : D -> D -> D).
  Hypothesis PO : preorder ltb leb.
  Hypothesis plus_mono : forall a b c d, leb a b = true -> leb c d = true -> leb (plus a c) (plus b d) = true.
  Context {P : Type} (dist : P -> P -> D) (pt : nat -> P) (q : P).
  Hypothesis dist_sym : forall a b, dist a b = dist b a.
  Hypothesis dist_tri : forall a b c, leb (dist a c) (plus (dist a b) (dist b c)) = true.
  Notation tree := (ctree D).
  Definition dq (i : nat) : D := dist (pt i) q.
  Definition dpp (i j : nat) : D := dist (pt i) (pt j).
  Notation "a <== b" := (leb a b = true) (at level 70).
  Notation WF := (wfb leb dpp).

  (* the pruning rule is sound: a subtree that holds a point within `ub` is never cut *)
  Lemma prune_sound (N : tree) x ub :
    dpp (t_idx N) x <== t_max N -> dq x <== ub -> dq (t_idx N) <== plus ub (t_max N).
  Proof.
    intros H1 H2. unfold dq, dpp in *.
    eapply (leb_trans _ _ PO); [|apply plus_mono; [exact H2|exact H1]].
    rewrite (dist_sym (pt (t_idx N)) q), (dist_sym (pt x) q), (dist_sym (pt (t_idx N)) (pt x)).
    apply dist_tri.
  Qed.
  Lemma wf_cover (N : tree) x : WF N = true -> In x (leaves N) -> dpp (t_idx N) x <== t_max N.
  Proof. destruct N as [i m cs]. intros W Hx. destruct (wfb_node _ _ _ _ _ W) as (H & _). simpl. now apply H. Qed.
  Lemma leaves_leaf (N : tree) : t_children N = [] -> leaves N = [t_idx N].
  Proof. destruct N as [i m cs]; simpl. intros ->. reflexivity. Qed.

  Section Gen.
    Context {S : Type} (bound : S -> D) (gupd : S -> bool -> D -> S).
    Context (J : S -> list nat -> Prop) (Zok : D -> Prop).
    Hypothesis bound_mono : forall s f d O, J s O -> bound (gupd s f d) <== bound s.
    Hypothesis J_first : forall s d O, J s O -> J (gupd s true d) O.
    Hypothesis J_new : forall s i O, J s O -> ~ In i O -> J (gupd s false (dq i)) (i :: O).
    Hypothesis J_incl : forall s O O', J s O -> incl O O' -> J s O'.
    Hypothesis Zok_intro : forall s d, d <== bound s -> Zok d.

    Definition gstate := (S * list (D * tree) * list (D * tree))%type.
    Definition gvisit (st : gstate) (c : nat) (pd : D) (child : tree) : gstate :=
      let '(s, next, zero) := st in
      let d := if c =? 0 then pd else dq (t_idx child) in
      let ub := bound s in
      if leb d (plus ub (t_max child)) then
        let s' := gupd s (c =? 0) d in
        match t_children child with
        | _ :: _ => (s', next ++ [(d, child)], zero)
        | [] => if leb d ub then (s', next, zero ++ [(d, child)]) else (s', next, zero)
        end
      else st.
    Definition task := (nat * D * tree)%type.
    Definition tasks_of (par : D * tree) : list task :=
      map (fun cc : nat * tree => (fst cc, fst par, snd cc)) (enumerate (t_children (snd par))).
    Definition gstep (st : gstate) (t : task) : gstate := gvisit st (fst (fst t)) (snd (fst t)) (snd t).
    Definition glevel (cur : list (D * tree)) (s : S) (zero : list (D * tree)) : gstate :=
      fold_left gstep (flat_map tasks_of cur) (s, [], zero).
    Fixpoint glevels (fuel : nat) (cur : list (D * tree)) (s : S) (zero : list (D * tree))
      : option (S * list (D * tree)) :=
      match cur with
      | [] => Some (s, zero)
      | _ :: _ =>
        match fuel with
        | 0 => None
        | Datatypes.S f => let '(s', next, zero') := glevel cur s zero in glevels f next s' zero'
        end
      end.

    Definition TL (T : list task) := flat_map (fun t : task => leaves (snd t)) T.
    Definition XL (X : list (D * tree)) := flat_map (fun x : D * tree => leaves (snd x)) X.
    Definition ZL (Z : list (D * tree)) := map (fun z : D * tree => t_idx (snd z)) Z.
    Definition alive (T : list task) :=
      flat_map (fun t : task => if fst (fst t) =? 0 then [t_idx (snd t)] else []) T.

    Record GI (L0 : list nat) (hb : nat) (T : list task) (s : S) (X Z : list (D * tree)) (Dr : list nat) : Prop := {
      gi_cnt : forall x, cnt L0 x = cnt (TL T) x + cnt (XL X) x + cnt (ZL Z) x + cnt Dr x;
      gi_dr : forall x, In x Dr -> ltb (bound s) (dq x) = true;
      gi_T : forall t, In t T -> WF (snd t) = true /\ height (snd t) <= hb /\
                                 (fst (fst t) = 0 -> snd (fst t) = dq (t_idx (snd t)));
      gi_X : forall x, In x X -> WF (snd x) = true /\ height (snd x) <= hb /\
                                 fst x = dq (t_idx (snd x)) /\ t_children (snd x) <> [];
      gi_Z : forall z, In z Z -> fst z = dq (t_idx (snd z)) /\ Zok (fst z);
      gi_J : J s (alive T ++ ZL X ++ ZL Z ++ Dr) }.

    Lemma alive_in_TL T i : (forall t, In t T -> WF (snd t) = true) -> In i (alive T) -> 1 <= cnt (TL T) i.
    Proof.
      intros W Hi. unfold alive in Hi. apply in_flat_map in Hi. destruct Hi as (t & Ht & Hi).
      destruct (fst (fst t) =? 0); [|contradiction]. destruct Hi as [<-|[]].
      eapply Nat.le_trans; [|apply (cnt_flat_map (fun t : task => leaves (snd t)) T _ t Ht)].
      apply cnt_in. apply (idx_in_leaves leb dpp). now apply W.
    Qed.
    Lemma XI_in_XL X i : (forall x, In x X -> WF (snd x) = true) -> In i (ZL X) -> 1 <= cnt (XL X) i.
    Proof.
      intros W Hi. unfold ZL in Hi. apply in_map_iff in Hi. destruct Hi as (x & <- & Hx).
      eapply Nat.le_trans; [|apply (cnt_flat_map (fun x : D * tree => leaves (snd x)) X _ x Hx)].
      apply cnt_in. apply (idx_in_leaves leb dpp). now apply W.
    Qed.

    Lemma gstep_inv L0 hb t T s X Z Dr : (forall x, cnt L0 x <= 1) ->
      GI L0 hb (t :: T) s X Z Dr ->
      exists Dr', let '(s', X', Z') := gstep (s, X, Z) t in GI L0 hb T s' X' Z' Dr'.
    Proof.
      intros ND [Gc Gd GT GX GZ GJ]. destruct t as ((c, pd), ch). unfold gstep, gvisit. cbn [fst snd].
      destruct (GT _ (or_introl eq_refl)) as (Wch & Hch & Hpd). cbn [fst snd] in *.
      set (d := if c =? 0 then pd else dq (t_idx ch)).
      assert (Hd : d = dq (t_idx ch)).
      { unfold d. destruct (c =? 0) eqn:E; auto. apply Nat.eqb_eq in E. auto. }
      assert (GT' : forall t, In t T -> WF (snd t) = true /\ height (snd t) <= hb /\
                                 (fst (fst t) = 0 -> snd (fst t) = dq (t_idx (snd t)))).
      { intros t Ht. apply GT. now right. }
      assert (WT : forall t, In t T -> WF (snd t) = true) by (intros t Ht; apply (GT' t Ht)).
      assert (WX : forall x, In x X -> WF (snd x) = true) by (intros x Hx; apply (GX x Hx)).
      assert (Hself : 1 <= cnt (leaves ch) (t_idx ch)) by (apply cnt_in, (idx_in_leaves leb dpp), Wch).
      assert (Gc' : forall x, cnt L0 x = cnt (leaves ch) x + cnt (TL T) x + cnt (XL X) x + cnt (ZL Z) x + cnt Dr x).
      { intros x. rewrite Gc. unfold TL. cbn [flat_map snd]. rewrite count_occ_app. lia. }
      set (Orest := alive T ++ ZL X ++ ZL Z ++ Dr).
      change (alive ((c, pd, ch) :: T)) with ((if c =? 0 then [t_idx ch] else []) ++ alive T) in GJ.
      destruct (leb d (plus (bound s) (t_max ch))) eqn:E.
      - (* visited *)
        set (s' := gupd s (c =? 0) d).
        assert (Js' : J s' (t_idx ch :: Orest)).
        { unfold s'. destruct (c =? 0) eqn:Ec.
          - apply J_first. exact GJ.
          - rewrite Hd. apply J_new; [exact GJ|]. cbn [app]. fold Orest.
            intros Hin. specialize (Gc' (t_idx ch)). specialize (ND (t_idx ch)).
            unfold Orest in Hin. rewrite !in_app_iff in Hin. destruct Hin as [H|[H|[H|H]]].
            + apply alive_in_TL in H; auto. lia.
            + apply XI_in_XL in H; auto. lia.
            + apply cnt_in in H. lia.
            + apply cnt_in in H. lia. }
        assert (Hb : bound s' <== bound s) by (eapply bound_mono; exact GJ).
        assert (Gd' : forall x, In x Dr -> ltb (bound s') (dq x) = true).
        { intros x Hx. eapply (le_lt_trans _ _ PO); [exact Hb|]. now apply Gd. }
        destruct (t_children ch) as [|c1 cs1] eqn:Ech.
        + pose proof (leaves_leaf ch Ech) as Hl.
          destruct (leb d (bound s)) eqn:Eub.
          * exists Dr. split; auto.
            -- intros x. rewrite Gc', Hl. unfold ZL. rewrite map_app, count_occ_app. cbn [map snd]. lia.
            -- intros z Hz. apply in_app_or in Hz. destruct Hz as [Hz|[<-|[]]]; [now apply GZ|].
               cbn [fst snd]. split; auto. eapply Zok_intro. exact Eub.
            -- eapply J_incl; [exact Js'|]. unfold Orest, ZL. rewrite map_app. cbn [map snd].
               intros y Hy. simpl in Hy. rewrite !in_app_iff in *. simpl. tauto.
          * exists (t_idx ch :: Dr). split; auto.
            -- intros x. rewrite Gc', Hl. simpl. destruct (Nat.eq_dec (t_idx ch) x); lia.
            -- intros x [<-|Hx]; [|now apply Gd'].
               eapply (le_lt_trans _ _ PO); [exact Hb|]. rewrite (ltb_leb _ _ PO), <- Hd, Eub. reflexivity.
            -- eapply J_incl; [exact Js'|]. unfold Orest.
               intros y Hy. simpl in Hy. rewrite !in_app_iff in *. simpl. tauto.
        + exists Dr. split; auto.
          * intros x. rewrite Gc'. unfold XL. rewrite flat_map_app, count_occ_app. cbn [flat_map snd]. rewrite app_nil_r. lia.
          * intros x Hx. apply in_app_or in Hx. destruct Hx as [Hx|[<-|[]]]; [now apply GX|].
            cbn [fst snd]. repeat split; auto. rewrite Ech. discriminate.
          * eapply J_incl; [exact Js'|]. unfold Orest, ZL. rewrite map_app. cbn [map snd].
            intros y Hy. simpl in Hy. rewrite !in_app_iff in *. simpl. tauto.
      - (* pruned: every point below is farther than the bound *)
        exists (leaves ch ++ Dr). split; auto.
        + intros x. rewrite Gc', count_occ_app. lia.
        + intros x Hx. apply in_app_or in Hx. destruct Hx as [Hx|Hx]; [|now apply Gd].
          rewrite (ltb_leb _ _ PO). destruct (leb (dq x) (bound s)) eqn:Ex; auto.
          rewrite Hd in E. rewrite (prune_sound ch x (bound s)) in E; [discriminate| |exact Ex].
          now apply wf_cover.
        + eapply J_incl; [exact GJ|].
          intros y Hy. rewrite !in_app_iff in *.
          destruct Hy as [[Hy|Hy]|Hy]; [|tauto|tauto].
          destruct (c =? 0); [|contradiction]. destruct Hy as [<-|[]].
          right. right. right. left. apply cnt_in. exact Hself.
    Qed.

    Lemma gfold_inv L0 hb : (forall x, cnt L0 x <= 1) -> forall T s X Z Dr,
      GI L0 hb T s X Z Dr ->
      exists Dr', let '(s', X', Z') := fold_left gstep T (s, X, Z) in GI L0 hb [] s' X' Z' Dr'.
    Proof.
      intros ND. induction T as [|t T IH]; intros s X Z Dr G; cbn [fold_left].
      - exists Dr; auto.
      - destruct (gstep_inv L0 hb t T s X Z Dr ND G) as (Dr1 & H1).
        destruct (gstep (s, X, Z) t) as ((s1, X1), Z1). apply (IH _ _ _ _ H1).
    Qed.

    Lemma TL_enum (g : nat * tree -> task) (Hg : forall cc, snd (g cc) = snd cc) (cs : list tree) : forall st,
      TL (map g (combine (seq st (length cs)) cs)) = flat_map leaves cs.
    Proof.
      induction cs as [|c cs IH]; intros st; simpl; auto. unfold TL in *. cbn [flat_map]. rewrite Hg. cbn [snd].
      f_equal. apply IH.
    Qed.
    Lemma TL_tasks_of d (N : tree) : t_children N <> [] -> TL (tasks_of (d, N)) = leaves N.
    Proof.
      intros Hne. unfold tasks_of, enumerate. cbn [fst snd]. rewrite TL_enum by reflexivity.
      destruct N as [i m [|c cs]]; [simpl in Hne; congruence|]. reflexivity.
    Qed.
    Lemma enum_first (cs : list tree) st c ch : In (c, ch) (combine (seq st (length cs)) cs) ->
      In ch cs /\ (c = st -> exists cs', cs = ch :: cs').
    Proof.
      destruct cs as [|a cs]; simpl; [tauto|]. intros [H|H].
      - inversion H; subst. split; eauto.
      - split; [right; eapply in_combine_r; eauto|]. intros ->. apply in_combine_l, in_seq in H. lia.
    Qed.

    Lemma level_end L0 hb s X Z Dr : GI L0 (Datatypes.S hb) [] s X Z Dr ->
      GI L0 hb (flat_map tasks_of X) s [] Z Dr.
    Proof.
      intros [Gc Gd GT GX GZ GJ]. split; auto.
      - intros x. rewrite Gc. cbn [TL XL flat_map]. simpl.
        assert (E : TL (flat_map tasks_of X) = XL X).
        { unfold TL. rewrite flat_map_flat_map. unfold XL.
          apply flat_map_ext_in'. intros (d, N) Hx. apply (TL_tasks_of d N). apply (GX _ Hx). }
        rewrite E. lia.
      - intros t Ht. apply in_flat_map in Ht. destruct Ht as ((d, N) & Hx & Ht).
        destruct (GX _ Hx) as (W & Hh & Hd & Hne). cbn [fst snd] in *.
        unfold tasks_of in Ht. apply in_map_iff in Ht. destruct Ht as ((c, ch) & <- & Hc). cbn [fst snd] in *.
        apply enum_first in Hc. destruct Hc as (Hin & Hfirst).
        destruct N as [i m cs]. cbn [t_children t_idx] in *.
        destruct (wfb_node _ _ _ _ _ W) as (_ & W2 & W3).
        split; [now apply W3|]. split.
        + pose proof (height_child i m cs ch Hin). lia.
        + intros ->. destruct (Hfirst eq_refl) as (cs' & ->). rewrite W2. exact Hd.
      - intros x [].
      - eapply J_incl; [exact GJ|]. intros y Hy. cbn [alive flat_map app ZL map] in Hy.
        rewrite !in_app_iff in *. destruct Hy as [Hy|Hy]; [|cbn [ZL map]; simpl; tauto].
        left. unfold ZL in Hy. apply in_map_iff in Hy. destruct Hy as ((d, N) & <- & Hx).
        destruct (GX _ Hx) as (W & _ & _ & Hne). cbn [fst snd] in *.
        destruct N as [i m [|c0 cs]]; [simpl in Hne; congruence|].
        destruct (wfb_node _ _ _ _ _ W) as (_ & W2 & _). cbn [t_idx].
        unfold alive. apply in_flat_map. exists (0, d, c0). split.
        + apply in_flat_map. exists (d, Node i m (c0 :: cs)). split; auto. unfold tasks_of, enumerate. simpl. now left.
        + simpl. now left.
    Qed.

    Lemma glevels_ok L0 : (forall x, cnt L0 x <= 1) -> forall fuel hb cur s Z Dr,
      hb <= fuel -> GI L0 hb [] s cur Z Dr ->
      exists s' Z' Dr', glevels fuel cur s Z = Some (s', Z') /\ GI L0 0 [] s' [] Z' Dr'.
    Proof.
      intros ND. induction fuel as [|f IH]; intros hb cur s Z Dr Hhb G.
      - destruct cur as [|x cur].
        + exists s, Z, Dr. split; auto. destruct G. split; auto; intros ? [].
        + exfalso. destruct (gi_X _ _ _ _ _ _ _ G x (or_introl eq_refl)) as (_ & Hh & _).
          pose proof (height_pos (snd x)). lia.
      - destruct cur as [|x cur].
        + exists s, Z, Dr. split; auto. destruct G. split; auto; intros ? [].
        + assert (Hpos : 1 <= hb).
          { destruct (gi_X _ _ _ _ _ _ _ G x (or_introl eq_refl)) as (_ & Hh & _).
            pose proof (height_pos (snd x)). lia. }
          destruct hb as [|hb']; [lia|].
          apply level_end in G. apply (gfold_inv L0 hb' ND) in G. destruct G as (Dr1 & G1).
          cbn [glevels]. unfold glevel.
          destruct (fold_left gstep (flat_map tasks_of (x :: cur)) (s, [], Z)) as ((s1, X1), Z1).
          apply (IH hb' X1 s1 Z1 Dr1); [lia|exact G1].
    Qed.
  End Gen.

  (* ---- start and end of the traversal ---- *)
  Lemma insert_nat_perm x l : Permutation (insert_nat x l) (x :: l).
  Proof.
    induction l as [|y t IH]; simpl; auto. destruct (x <=? y); auto.
    eapply perm_trans; [apply perm_skip, IH|apply perm_swap].
  Qed.
  Lemma sort_nat_perm l : Permutation (sort_nat l) l.
  Proof. induction l; simpl; auto. eapply perm_trans; [apply insert_nat_perm|]. now constructor. Qed.

  Lemma wf_root_facts n (root : tree) : wf_root leb dpp n root = true ->
    WF root = true /\ t_children root <> [] /\ Permutation (leaves root) (seq 0 n) /\
    (forall x, cnt (leaves root) x <= 1).
  Proof.
    unfold wf_root. rewrite !andb_true_iff. intros [[H1 H2] H3]. split; auto. split.
    - destruct (t_children root); [discriminate|congruence].
    - apply list_eqb_nat_eq in H3.
      assert (Pm : Permutation (leaves root) (seq 0 n)).
      { rewrite <- H3. apply Permutation_sym, sort_nat_perm. }
      split; auto. apply (NoDup_count_occ Nat.eq_dec).
      eapply Permutation_NoDup; [apply Permutation_sym, Pm|apply seq_NoDup].
  Qed.

  Section GenTop.
    Context {S : Type} (bound : S -> D) (gupd : S -> bool -> D -> S).
    Context (J : S -> list nat -> Prop) (Zok : D -> Prop).
    Hypothesis bound_mono : forall s f d O, J s O -> bound (gupd s f d) <== bound s.
    Hypothesis J_first : forall s d O, J s O -> J (gupd s true d) O.
    Hypothesis J_new : forall s i O, J s O -> ~ In i O -> J (gupd s false (dq i)) (i :: O).
    Hypothesis J_incl : forall s O O', J s O -> incl O O' -> J s O'.
    Hypothesis Zok_intro : forall s d, d <== bound s -> Zok d.

    Theorem gtraverse n (root : tree) s0 : wf_root leb dpp n root = true -> J s0 [t_idx root] ->
      exists s Z Dr,
        glevels bound gupd (Datatypes.S (height root)) [(dq (t_idx root), root)] s0 [] = Some (s, Z) /\
        (forall x, cnt (leaves root) x = cnt (ZL Z) x + cnt Dr x) /\
        (forall x, In x Dr -> ltb (bound s) (dq x) = true) /\
        (forall z, In z Z -> fst z = dq (t_idx (snd z)) /\ Zok (fst z)) /\
        J s (ZL Z ++ Dr).
    Proof.
      intros W J0. destruct (wf_root_facts n root W) as (W1 & W2 & W3 & W4).
      assert (G0 : GI bound J Zok (leaves root) (height root) [] s0 [(dq (t_idx root), root)] [] []).
      { split.
        - intros x. cbn [TL XL ZL flat_map map snd]. rewrite app_nil_r. simpl. lia.
        - intros x [].
        - intros t [].
        - intros x [<-|[]]. cbn [fst snd]. repeat split; auto.
        - intros z [].
        - exact J0. }
      destruct (glevels_ok bound gupd J Zok bound_mono J_first J_new J_incl Zok_intro (leaves root) W4
                           (Datatypes.S (height root)) (height root) _ s0 [] [] (Nat.le_succ_diag_r _) G0)
        as (s & Z & Dr & E & [Gc Gd _ _ GZ GJ]).
      exists s, Z, Dr. split; [exact E|]. split; [|split; [exact Gd|split; [exact GZ|exact GJ]]].
      intros x. rewrite Gc. simpl. lia.
    Qed.
  End GenTop.

  (* nested loops of the model = one fold over the flattened child visits *)
  Lemma fold_left_map {X Y A} (f : A -> Y -> A) (g : X -> Y) (l : list X) : forall a,
    fold_left f (map g l) a = fold_left (fun a x => f a (g x)) l a.
  Proof. induction l; intros; simpl; auto. Qed.
  Lemma fold_left_ext {X A} (f g : A -> X -> A) (l : list X) : (forall a x, f a x = g a x) -> forall a,
    fold_left f l a = fold_left g l a.
  Proof. intros H. induction l; intros; simpl; auto. rewrite H. auto. Qed.
  Lemma nested_fold {A} (V : A -> nat -> D -> tree -> A) (cur : list (D * tree)) (a : A) :
    fold_left (fun st par => fold_left (fun st cc => V st (fst cc) (fst par) (snd cc))
                                       (enumerate (t_children (snd par))) st) cur a =
    fold_left (fun st (t : task) => V st (fst (fst t)) (snd (fst t)) (snd t)) (flat_map tasks_of cur) a.
  Proof.
    rewrite fold_left_flat_map. apply fold_left_ext. intros st par. unfold tasks_of.
    rewrite fold_left_map. reflexivity.
  Qed.

  (* ---- find_radius ---- *)
  Section Radius.
    Variables (dzero r : D).
    Definition rbound (_ : unit) : D := r.
    Definition rupd (s : unit) (_ : bool) (_ : D) : unit := s.
    Definition rproj (st : @gstate unit) : @rstate D := (snd (fst st), snd st).
    Definition rstep (st : @rstate D) (t : task) := radius_visit leb plus dq r st (fst (fst t)) (snd (fst t)) (snd t).

    Lemma radius_visit_sim st t : rproj (gstep rbound rupd st t) = rstep (rproj st) t.
    Proof.
      destruct st as ((u, X), Z). destruct t as ((c, pd), ch).
      unfold gstep, gvisit, rstep, radius_visit, rproj, rbound, rupd. cbn [fst snd].
      destruct (leb _ _); auto. destruct (t_children ch); auto. destruct (leb _ r); auto.
    Qed.
    Lemma radius_fold_sim T : forall st, rproj (fold_left (gstep rbound rupd) T st) = fold_left rstep T (rproj st).
    Proof. induction T; intros; simpl; auto. rewrite IHT, radius_visit_sim. reflexivity. Qed.
    Lemma radius_level_sim cur zero :
      radius_level leb plus dq r cur zero = rproj (glevel rbound rupd cur tt zero).
    Proof.
      unfold radius_level, glevel. rewrite radius_fold_sim. unfold rproj at 1. cbn [fst snd].
      apply (nested_fold (radius_visit leb plus dq r)).
    Qed.
    Lemma radius_levels_sim fuel : forall cur zero,
      radius_levels leb plus fuel dq r cur zero = option_map snd (glevels rbound rupd fuel cur tt zero).
    Proof.
      induction fuel; intros [|x cur] zero; cbn [radius_levels glevels option_map snd]; auto.
      rewrite radius_level_sim.
      destruct (glevel rbound rupd (x :: cur) tt zero) as ((u, X), Z). unfold rproj. cbn [fst snd].
      destruct u. apply IHfuel.
    Qed.

    Theorem cover_radius_exact n (root : tree) : wf_root leb dpp n root = true -> leb r dzero = false ->
      exists res, cover_find_radius leb plus dzero dq root r = Some res /\ is_ball leb dq n r res.
    Proof.
      intros W Hr. unfold cover_find_radius. rewrite Hr. rewrite radius_levels_sim.
      assert (T := gtraverse rbound rupd (fun _ _ => True) (fun d => d <== r)
                     (fun _ _ _ _ _ => leb_refl _ _ PO r) (fun _ _ _ _ => I) (fun _ _ _ _ _ => I)
                     (fun _ _ _ _ _ => I) (fun _ _ H => H) n root tt W I).
      destruct T as (s & Z & Dr & E & Gc & Gd & GZ & _).
      rewrite E. cbn [option_map snd]. eexists; split; [reflexivity|].
      destruct (wf_root_facts n root W) as (_ & _ & Pm & ND).
      assert (Hmap : map fst (map (fun ds : D * tree => (t_idx (snd ds), fst ds)) Z) = ZL Z).
      { rewrite map_map. reflexivity. }
      split.
      - rewrite Hmap. apply (NoDup_count_occ Nat.eq_dec). intros x. specialize (Gc x). specialize (ND x). lia.
      - intros i d. rewrite in_map_iff. split.
        + intros ((d', N) & Heq & Hz). inversion Heq; subst. destruct (GZ _ Hz) as (H1 & H2). cbn [fst snd] in *.
          split; [|split; auto; rewrite <- H1; exact H2].
          assert (Hin : In (t_idx N) (leaves root)).
          { apply cnt_in. specialize (Gc (t_idx N)).
            assert (1 <= cnt (ZL Z) (t_idx N)) by (apply cnt_in, in_map_iff; exists (d, N); auto). lia. }
          eapply Permutation_in in Hin; [|exact Pm]. apply in_seq in Hin. lia.
        + intros (Hi & -> & Hle).
          assert (Hin : In i (leaves root)).
          { eapply Permutation_in; [apply Permutation_sym, Pm|]. apply in_seq. lia. }
          apply cnt_in in Hin. rewrite Gc in Hin.
          assert (HZ : In i (ZL Z)).
          { destruct (in_dec Nat.eq_dec i (ZL Z)) as [H|H]; auto. exfalso.
            assert (In i Dr).
            { apply cnt_in. apply (count_occ_not_In Nat.eq_dec) in H. lia. }
            specialize (Gd i H0). unfold rbound in Gd. rewrite (ltb_leb _ _ PO), Hle in Gd. discriminate. }
          unfold ZL in HZ. apply in_map_iff in HZ. destruct HZ as ((d', N) & Hidx & Hz). cbn [snd] in Hidx.
          exists (d', N). split; auto. cbn [fst snd]. destruct (GZ _ Hz) as (H1 & _). cbn [fst snd] in H1.
          subst. reflexivity.
    Qed.
  End Radius.

  (* ---- find ---- *)
  Lemma NoDup_app_l'' {X} (l l' : list X) : NoDup (l ++ l') -> NoDup l.
  Proof.
    induction l; simpl; intros H; [constructor|]. inversion H; subst. constructor; auto.
    intros Hin. apply H2. apply in_or_app. now left.
  Qed.

  Section Find.
    Variables (dmax dzero : D) (k : nat).
    Hypothesis Hk : 1 <= k.
    Notation heap := (heapsel D).
    Definition dq' (o : option nat) : D := match o with Some i => dq i | None => dmax end.
    Definition somes (l : list (option nat)) : list nat :=
      flat_map (fun o : option nat => match o with Some i => [i] | None => [] end) l.
    Definition fbound (s : heap) : D := hs_peek ltb dzero s.
    Definition fupd (s : heap) (first : bool) (d : D) : heap :=
      if negb first && ltb d (hs_peek ltb dzero s) then hs_add ltb leb dzero s d else s.
    Definition FJ (s : heap) (O : list nat) : Prop :=
      exists added S', hs_inv leb dzero k s added /\ hheap s <> [] /\
                       Permutation (hheap s) (map dq' S') /\ NoDup (somes S') /\
                       incl (somes S') O /\ (In None S' \/ length S' = k).

    Lemma somes_perm l l' : Permutation l l' -> Permutation (somes l) (somes l').
    Proof. apply Permutation_flat_map. Qed.

    Lemma add_nonempty s added x : hs_inv leb dzero k s added -> hheap (hs_add ltb leb dzero s x) <> [].
    Proof.
      intros Inv. destruct (hs_add_inv ltb leb dzero PO k s added x Hk Inv) as (_ & _ & El & _).
      intros E. rewrite E, app_length in El. simpl in El. lia.
    Qed.
    Lemma add_subset s added x y : hs_inv leb dzero k s added ->
      In y (hheap (hs_add ltb leb dzero s x)) -> y = x \/ In y (hheap s).
    Proof.
      intros Inv Hy. destruct (hs_add_content ltb leb dzero PO k s added x Hk Inv)
        as [(_ & P1)|[(_ & _ & P1)|(_ & _ & P1)]].
      - eapply Permutation_in in Hy; [|exact P1]. destruct Hy; auto.
      - assert (In y (x :: hheap s)) as [H|H]; auto.
        eapply Permutation_in; [exact P1|]. now right.
      - rewrite P1 in Hy. auto.
    Qed.

    Ltac fj_intro := split; [|split; [|split; [|split; [|split]]]].
    Lemma FJ_add s O i : FJ s O -> ~ In i O -> FJ (hs_add ltb leb dzero s (dq i)) (i :: O).
    Proof.
      intros (added & S' & Inv & Hne & Pm & ND & Inc & Cl) Hi.
      pose proof (hs_add_inv ltb leb dzero PO k s added (dq i) Hk Inv) as Inv'.
      pose proof (add_nonempty s added (dq i) Inv) as Hne'.
      assert (Hlen : length S' = length (hheap s)).
      { apply Permutation_length in Pm. rewrite map_length in Pm. auto. }
      assert (HiS : ~ In i (somes S')) by (intros X; apply Hi, Inc, X).
      destruct (hs_add_content ltb leb dzero PO k s added (dq i) Hk Inv)
        as [(Hlt & P1)|[(Hge & Ex & P1)|(Hge & Ex & P1)]].
      - exists (added ++ [dq i]), (Some i :: S'). fj_intro; auto.
        + eapply perm_trans; [exact P1|]. simpl. now constructor.
        + simpl. constructor; auto.
        + intros y [<-|Hy]; [now left|right; now apply Inc].
        + left. right. destruct Cl as [Cl|Cl]; auto. exfalso.
          destruct Inv as (_ & _ & El & _). lia.
      - set (top := nth 0 (hheap s) dzero) in *.
        assert (Htop : In top (map dq' S')).
        { eapply Permutation_in; [exact Pm|]. unfold top. destruct (hheap s); [congruence|simpl; auto]. }
        apply in_map_iff in Htop. destruct Htop as (o & Ho & Hin).
        apply in_split in Hin. destruct Hin as (l1 & l2 & ES).
        assert (PS : Permutation S' (o :: l1 ++ l2)) by (rewrite ES; apply Permutation_sym, Permutation_middle).
        exists (added ++ [dq i]), (Some i :: l1 ++ l2). fj_intro; auto.
        + apply Permutation_cons_inv with (a := top).
          eapply perm_trans; [exact P1|].
          eapply perm_trans; [apply perm_skip, Pm|].
          eapply perm_trans; [apply perm_skip, Permutation_map, PS|].
          simpl. rewrite Ho. apply perm_swap.
        + pose proof (somes_perm _ _ PS) as PS'.
          assert (ND' : NoDup (somes (o :: l1 ++ l2))) by (eapply Permutation_NoDup; eauto).
          simpl. constructor.
          * intros X. apply HiS. eapply Permutation_in; [apply Permutation_sym, PS'|].
            simpl. apply in_or_app. now right.
          * simpl in ND'. now apply NoDup_app_l' in ND'.
        + intros y [<-|Hy]; [now left|]. right. apply Inc.
          eapply Permutation_in; [apply Permutation_sym, somes_perm, PS|]. simpl. apply in_or_app. now right.
        + right. simpl. apply Permutation_length in PS. simpl in PS. rewrite <- PS, Hlen.
          destruct Inv as (_ & _ & El & _). lia.
      - exists (added ++ [dq i]), S'. fj_intro; auto.
        + rewrite P1. exact Pm.
        + intros y Hy. right. now apply Inc.
    Qed.

    Lemma FJ_bound_mono s f d O : FJ s O -> fbound (fupd s f d) <== fbound s.
    Proof.
      intros (added & S' & Inv & Hne & _). unfold fupd, fbound.
      destruct (negb f && ltb d (hs_peek ltb dzero s)) eqn:E; [|apply (leb_refl _ _ PO)].
      apply andb_true_iff in E. destruct E as [_ E].
      pose proof (hs_add_inv ltb leb dzero PO k s added d Hk Inv) as Inv'.
      destruct (hs_peek_spec ltb leb dzero PO _ _ _ Inv' (add_nonempty s added d Inv)) as [P1 _].
      destruct (hs_peek_spec ltb leb dzero PO _ _ _ Inv Hne) as [_ P2].
      apply (add_subset s added d _ Inv) in P1. destruct P1 as [->|P1].
      - now apply (ltb_true _ _ PO).
      - now apply P2.
    Qed.
    Lemma FJ_new s i O : FJ s O -> ~ In i O -> FJ (fupd s false (dq i)) (i :: O).
    Proof.
      intros HJ Hi. unfold fupd. cbn [negb andb].
      destruct (ltb (dq i) (hs_peek ltb dzero s)); [now apply FJ_add|].
      destruct HJ as (added & S' & Inv & Hne & Pm & ND & Inc & Cl).
      exists added, S'. fj_intro; auto. intros y Hy. right. now apply Inc.
    Qed.
    Lemma FJ_incl s O O' : FJ s O -> incl O O' -> FJ s O'.
    Proof.
      intros (added & S' & Inv & Hne & Pm & ND & Inc & Cl) H.
      exists added, S'. fj_intro; auto. intros y Hy. apply H, Inc, Hy.
    Qed.
    Lemma FJ_init i :
      FJ (hs_add ltb leb dzero (hs_add ltb leb dzero (with_capacity k) dmax) (dq i)) [i].
    Proof.
      apply FJ_add; [|intros []].
      pose proof (hs_inv_init leb dzero k) as I0.
      pose proof (hs_add_inv ltb leb dzero PO k _ _ dmax Hk I0) as I1. simpl in I1.
      exists [dmax], [None]. fj_intro; auto.
      - apply (add_nonempty _ [] dmax I0).
      - destruct (hs_add_content ltb leb dzero PO k _ [] dmax Hk I0) as [(_ & P1)|[(Hge & _)|(Hge & _)]];
          [exact P1|simpl in Hge; lia|simpl in Hge; lia].
      - simpl. constructor.
      - intros y [].
      - left. now left.
    Qed.

    (* model loops = the generic traversal instantiated with the heap *)
    Lemma find_visit_eq st c pd ch :
      find_visit ltb leb plus dzero dq st c pd ch = gvisit fbound fupd st c pd ch.
    Proof. destruct st as ((h, X), Z). reflexivity. Qed.
    Lemma find_level_eq cur h zero :
      find_level ltb leb plus dzero dq cur h zero = glevel fbound fupd cur h zero.
    Proof.
      unfold find_level, glevel. rewrite (nested_fold (find_visit ltb leb plus dzero dq)).
      apply fold_left_ext. intros st t. apply find_visit_eq.
    Qed.
    Lemma find_levels_eq fuel : forall cur h zero,
      find_levels ltb leb plus dzero fuel dq cur h zero = glevels fbound fupd fuel cur h zero.
    Proof.
      induction fuel; intros [|x cur] h zero; cbn [find_levels glevels]; auto.
      rewrite find_level_eq. destruct (glevel fbound fupd (x :: cur) h zero) as ((h1, X1), Z1). apply IHfuel.
    Qed.

    (* ---- from "everything within the final bound" to "the k nearest" ---- *)
    Notation sorted_asc := (StronglySorted (fun a b : nat * D => snd a <== snd b)).
    Lemma insert_asc_perm x l : Permutation (insert_asc ltb x l) (x :: l).
    Proof.
      induction l as [|y t IH]; simpl; auto. destruct (ltb (snd y) (snd x)); auto.
      eapply perm_trans; [apply perm_skip, IH|apply perm_swap].
    Qed.
    Lemma sort_asc_perm l : Permutation (sort_asc ltb l) l.
    Proof. induction l; simpl; auto. eapply perm_trans; [apply insert_asc_perm|]. now constructor. Qed.
    Lemma insert_asc_sorted x l : sorted_asc l -> sorted_asc (insert_asc ltb x l).
    Proof.
      induction 1 as [|y t Ht IH Hy]; simpl; [repeat constructor|].
      destruct (ltb (snd y) (snd x)) eqn:E.
      - constructor; auto. eapply Permutation_Forall; [apply Permutation_sym, insert_asc_perm|].
        constructor; auto. now apply (ltb_true _ _ PO).
      - constructor; [constructor; auto|]. constructor; [now apply (ltb_false _ _ PO)|].
        eapply Forall_impl; [|exact Hy]. intros a Ha. simpl in Ha.
        eapply (leb_trans _ _ PO); [apply (ltb_false _ _ PO); exact E|exact Ha].
    Qed.
    Lemma sort_asc_sorted l : sorted_asc (sort_asc ltb l).
    Proof. induction l; simpl; [constructor|now apply insert_asc_sorted]. Qed.
    Lemma sorted_app_le (l1 l2 : list (nat * D)) : sorted_asc (l1 ++ l2) ->
      forall a b, In a l1 -> In b l2 -> snd a <== snd b.
    Proof.
      induction l1 as [|x l1 IH]; simpl; intros H a b Ha Hb; [contradiction|].
      inversion H as [|? ? Hs Hf]; subst. destruct Ha as [<-|Ha]; [|eapply IH; eauto].
      rewrite Forall_forall in Hf. apply Hf. apply in_or_app. now right.
    Qed.

    Lemma ball_to_knn n ub res0 : is_ball leb dq n ub res0 -> k <= length res0 ->
      is_knn leb dq n k (firstn k (if k <? length res0 then sort_asc ltb res0 else res0)).
    Proof.
      intros [ND B] Hlen.
      assert (Far : forall j, j < n -> ~ In j (map fst res0) -> forall i d, In (i, d) res0 -> d <== dq j).
      { intros j Hj Hnin i d Hid. apply B in Hid. destruct Hid as (_ & -> & Hle).
        eapply (leb_trans _ _ PO); [exact Hle|]. apply (leb_false _ _ PO).
        destruct (leb (dq j) ub) eqn:E; auto. exfalso. apply Hnin.
        apply in_map_iff. exists (j, dq j). split; auto. apply B. auto. }
      destruct (k <? length res0) eqn:E.
      - apply Nat.ltb_lt in E. set (l := sort_asc ltb res0).
        pose proof (sort_asc_perm res0) as Pl. fold l in Pl.
        pose proof (sort_asc_sorted res0) as Sl. fold l in Sl.
        rewrite <- (firstn_skipn k l) in Sl.
        assert (Hin : forall x, In x (firstn k l) -> In x res0).
        { intros x Hx. eapply Permutation_in; [exact Pl|]. rewrite <- (firstn_skipn k l). apply in_or_app. now left. }
        assert (NDl : NoDup (map fst (firstn k l) ++ map fst (skipn k l))).
        { rewrite <- map_app, firstn_skipn. eapply Permutation_NoDup; [apply Permutation_map, Permutation_sym, Pl|exact ND]. }
        split; [|split; [|split]].
        + rewrite firstn_length_le; auto. rewrite (Permutation_length Pl). lia.
        + eapply NoDup_app_l''. exact NDl.
        + intros i d Hid. apply Hin, B in Hid. tauto.
        + intros i d j Hid Hj Hnin.
          destruct (in_dec Nat.eq_dec j (map fst (skipn k l))) as [Hs|Hs].
          * apply in_map_iff in Hs. destruct Hs as ((j', d') & Hj' & Hs). simpl in Hj'. subst j'.
            assert (Hd' : d' = dq j).
            { assert (In (j, d') res0).
              { eapply Permutation_in; [exact Pl|]. rewrite <- (firstn_skipn k l). apply in_or_app. now right. }
              apply B in H. tauto. }
            subst d'. apply (sorted_app_le _ _ Sl (i, d) (j, dq j) Hid Hs).
          * apply (Far j Hj) with (i := i); [|now apply Hin].
            intros X. eapply Permutation_in in X; [|apply Permutation_map, Permutation_sym, Pl].
            rewrite <- (firstn_skipn k l), map_app in X. apply in_app_or in X. tauto.
      - apply Nat.ltb_ge in E. assert (k = length res0) by lia. subst k. rewrite firstn_all.
        split; [|split; [|split]]; auto.
        + intros i d Hid. apply B in Hid. tauto.
        + intros i d j Hid Hj Hnin. eapply Far; eauto.
    Qed.

    Lemma filter_nodup (Z : list (D * tree)) ub : NoDup (ZL Z) ->
      NoDup (map fst (flat_map (fun ds : D * tree => if leb (fst ds) ub then [(t_idx (snd ds), fst ds)] else []) Z)).
    Proof.
      induction Z as [|z Z IH]; simpl; intros H; [constructor|]. inversion H; subst.
      rewrite map_app. destruct (leb (fst z) ub); simpl; auto.
      constructor; auto. intros X. apply H2. apply in_map_iff in X. destruct X as ((i, d) & Hi & X).
      apply in_flat_map in X. destruct X as (z' & Hz' & X). destruct (leb (fst z') ub); [|contradiction].
      destruct X as [X|[]]. inversion X; subst. simpl. unfold ZL. apply in_map_iff. exists z'. auto.
    Qed.
    Lemma somes_all l : ~ In None l -> length (somes l) = length l /\ forall j, In j (somes l) <-> In (Some j) l.
    Proof.
      induction l as [|[j|] l IH]; simpl; intros H.
      - split; auto. intros; tauto.
      - destruct IH as [IH1 IH2]; [tauto|]. split; [lia|]. intros j'. rewrite IH2.
        split; (intros [X|X]; [left; congruence|right; exact X]).
      - exfalso. apply H. now left.
    Qed.

    Theorem cover_find_exact n (root : tree) :
      wf_root leb dpp n root = true -> (forall i, i < n -> dq i <== dmax) -> k <= n ->
      exists res, cover_find ltb leb plus dmax dzero dq root n k = Some res /\ is_knn leb dq n k res.
    Proof.
      intros W Hmax Hkn. unfold cover_find.
      replace (k =? 0) with false by (symmetry; apply Nat.eqb_neq; lia).
      replace (n <? k) with false by (symmetry; apply Nat.ltb_ge; lia).
      rewrite find_levels_eq.
      destruct (gtraverse fbound fupd FJ (fun _ => True) FJ_bound_mono
                          (fun s d O H => H) FJ_new FJ_incl (fun _ _ _ => I) n root _ W (FJ_init (t_idx root)))
        as (s & Z & Dr & E & Gc & Gd & GZ & GJ).
      rewrite E. eexists; split; [reflexivity|].
      set (ub := hs_peek ltb dzero s).
      set (res0 := flat_map (fun ds : D * tree => if leb (fst ds) ub then [(t_idx (snd ds), fst ds)] else []) Z).
      destruct (wf_root_facts n root W) as (_ & _ & Pm & NDc).
      assert (NDZ : NoDup (ZL Z)).
      { apply (NoDup_count_occ Nat.eq_dec). intros x. specialize (Gc x). specialize (NDc x). lia. }
      assert (Hin0 : forall i d, In (i, d) res0 <-> exists N, In (d, N) Z /\ t_idx N = i /\ d <== ub).
      { intros i d. unfold res0. rewrite in_flat_map. split.
        - intros ((d', N) & Hz & X). cbn [fst snd] in X. destruct (leb d' ub) eqn:El; [|contradiction].
          destruct X as [X|[]]. inversion X; subst. eauto.
        - intros (N & Hz & <- & Hle). exists (d, N). split; auto. cbn [fst snd]. rewrite Hle. now left. }
      assert (Ball : is_ball leb dq n ub res0).
      { split; [apply filter_nodup, NDZ|]. intros i d. rewrite Hin0. split.
        - intros (N & Hz & <- & Hle). destruct (GZ _ Hz) as (H1 & _). cbn [fst snd] in H1. subst d.
          split; [|split; auto].
          assert (Hin : In (t_idx N) (leaves root)).
          { apply cnt_in. specialize (Gc (t_idx N)).
            assert (1 <= cnt (ZL Z) (t_idx N)) by (apply cnt_in, in_map_iff; exists (dq (t_idx N), N); auto). lia. }
          eapply Permutation_in in Hin; [|exact Pm]. apply in_seq in Hin. lia.
        - intros (Hi & -> & Hle).
          assert (Hin : In i (leaves root)).
          { eapply Permutation_in; [apply Permutation_sym, Pm|]. apply in_seq. lia. }
          apply cnt_in in Hin. rewrite Gc in Hin.
          assert (HZ : In i (ZL Z)).
          { destruct (in_dec Nat.eq_dec i (ZL Z)) as [H|H]; auto. exfalso.
            assert (In i Dr) by (apply cnt_in; apply (count_occ_not_In Nat.eq_dec) in H; lia).
            specialize (Gd i H0). unfold fbound in Gd. fold ub in Gd.
            rewrite (ltb_leb _ _ PO), Hle in Gd. discriminate. }
          unfold ZL in HZ. apply in_map_iff in HZ. destruct HZ as ((d', N) & Hidx & Hz). cbn [snd] in Hidx.
          exists N. destruct (GZ _ Hz) as (H1 & _). cbn [fst snd] in H1. subst. auto. }
      assert (Hcount : k <= length res0).
      { destruct GJ as (added & S' & Inv & Hne & PmS & NDS & Inc & Cl).
        destruct (hs_peek_spec ltb leb dzero PO _ _ _ Inv Hne) as [_ Hpk]. fold ub in Hpk.
        assert (Hall : forall j, j < n -> dq j <== ub -> In j (map fst res0)).
        { intros j Hj Hle. apply in_map_iff. exists (j, dq j). split; auto. apply Ball. auto. }
        assert (HOn : forall j, In j (ZL Z ++ Dr) -> j < n).
        { intros j Hj. assert (In j (leaves root)).
          { apply cnt_in. rewrite Gc. apply in_app_or in Hj. destruct Hj as [Hj|Hj]; apply cnt_in in Hj; lia. }
          eapply Permutation_in in H; [|exact Pm]. apply in_seq in H. lia. }
        destruct (in_dec (fun a b : option nat => ltac:(decide equality; apply Nat.eq_dec)) None S') as [HN|HN].
        - assert (dmax <== ub).
          { apply Hpk. eapply Permutation_in; [apply Permutation_sym, PmS|]. apply in_map_iff. exists None; auto. }
          assert (incl (seq 0 n) (map fst res0)).
          { intros j Hj. apply in_seq in Hj. apply Hall; [lia|].
            eapply (leb_trans _ _ PO); [apply Hmax; lia|exact H]. }
          pose proof (NoDup_incl_length (seq_NoDup n 0) H0) as L. rewrite seq_length, map_length in L. lia.
        - destruct Cl as [Cl|Cl]; [contradiction|].
          destruct (somes_all S' HN) as [L1 L2].
          assert (incl (somes S') (map fst res0)).
          { intros j Hj. apply Hall; [apply HOn, Inc, Hj|]. apply Hpk.
            eapply Permutation_in; [apply Permutation_sym, PmS|]. apply in_map_iff. exists (Some j). split; auto.
            now apply L2. }
          pose proof (NoDup_incl_length NDS H) as L. rewrite map_length in L. lia. }
      exact (ball_to_knn n ub res0 Ball Hcount).
    Qed.
  End Find.
End Cover.

(* parameter errors of the cover-tree queries *)
Lemma cover_find_error {D} (ltb leb : D -> D -> bool) plus dmax dzero dq (root : ctree D) n k :
  k = 0 \/ n < k -> cover_find ltb leb plus dmax dzero dq root n k = None.
Proof.
  intros H. unfold cover_find. destruct (k =? 0) eqn:E; auto.
  apply Nat.eqb_neq in E. replace (n <? k) with true; auto. symmetry. apply Nat.ltb_lt. lia.
Qed.
Lemma cover_radius_error {D} (leb : D -> D -> bool) plus dzero dq (root : ctree D) r :
  leb r dzero = true -> cover_find_radius leb plus dzero dq root r = None.
Proof. intros H. unfold cover_find_radius. now rewrite H. Qed.
