(* C04 — CoverTree::{find, find_radius} are exact on every well-formed tree *)
From Coq Require Import List Arith Bool Lia Permutation Sorted.
From SC Require Import Base.FloatUtil C04.Model C04.Proofs_Heap C04.Proofs_Linear.
Import ListNotations.

Notation cnt := (count_occ Nat.eq_dec).

Lemma cnt_in l x : In x l <-> 1 <= cnt l x.
Proof. rewrite (count_occ_In Nat.eq_dec). lia. Qed.
Lemma cnt_flat_map {X} (f : X -> list nat) (l : list X) x a :
  In a l -> cnt (f a) x <= cnt (flat_map f l) x.
Proof.
  induction l as [|b l IH]; simpl; [tauto|]. rewrite count_occ_app. intros [->|H]; [lia|]. specialize (IH H). lia.
Qed.
Lemma fold_left_flat_map {X Y S} (f : S -> Y -> S) (g : X -> list Y) (l : list X) : forall a,
  fold_left f (flat_map g l) a = fold_left (fun a x => fold_left f (g x) a) l a.
Proof. induction l; intros; simpl; auto. rewrite fold_left_app. apply IHl. Qed.
Lemma flat_map_flat_map {X Y Z} (f : Y -> list Z) (g : X -> list Y) (l : list X) :
  flat_map f (flat_map g l) = flat_map (fun x => flat_map f (g x)) l.
Proof. induction l; simpl; auto. rewrite flat_map_app. f_equal; auto. Qed.
Lemma flat_map_ext_in' {X Y} (f g : X -> list Y) (l : list X) :
  (forall x, In x l -> f x = g x) -> flat_map f l = flat_map g l.
Proof. induction l; simpl; auto. intros H. rewrite H by auto. f_equal. apply IHl. auto. Qed.
Lemma list_eqb_nat_eq (a b : list nat) : list_eqb Nat.eqb a b = true -> a = b.
Proof.
  revert b; induction a as [|x a IH]; destruct b as [|y b]; simpl; intros H; try discriminate; auto.
  apply andb_true_iff in H. destruct H as [H1 H2]. apply Nat.eqb_eq in H1. f_equal; auto.
Qed.

Section TreeFacts.
  Context {D : Type}.
  Notation tree := (ctree D).
  Fixpoint ctree_ind' (P : tree -> Prop) (H : forall i m cs, Forall P cs -> P (Node i m cs))
           (t : tree) : P t :=
    match t with
    | Node i m cs =>
      H i m cs ((fix go (l : list tree) : Forall P l :=
                   match l with
                   | [] => Forall_nil P
                   | c :: l' => Forall_cons c (ctree_ind' P H c) (go l')
                   end) cs)
    end.

  Lemma height_child i m (cs : list tree) c : In c cs -> height c < height (Node i m cs).
  Proof.
    simpl. induction cs as [|a cs IH]; simpl; [tauto|]. intros [->|H]; [lia|]. specialize (IH H). lia.
  Qed.
  Lemma height_pos (t : tree) : 1 <= height t.
  Proof. destruct t; simpl; lia. Qed.

  Context (leb : D -> D -> bool) (dpp : nat -> nat -> D).
  Lemma wfb_node i m cs : wfb leb dpp (Node i m cs) = true ->
    (forall x, In x (leaves (Node i m cs)) -> leb (dpp i x) m = true) /\
    (match cs with [] => True | c :: _ => t_idx c = i end) /\
    (forall c, In c cs -> wfb leb dpp c = true).
  Proof.
    cbn [wfb]. rewrite !andb_true_iff. intros [[H1 H2] H3]. split; [|split].
    - rewrite forallb_forall in H1. exact H1.
    - destruct cs; auto. now apply Nat.eqb_eq.
    - rewrite forallb_forall in H3. exact H3.
  Qed.
  Lemma leaves_internal i m c (cs : list tree) :
    leaves (Node i m (c :: cs)) = flat_map leaves (c :: cs).
  Proof. reflexivity. Qed.
  Lemma idx_in_leaves (t : tree) : wfb leb dpp t = true -> In (t_idx t) (leaves t).
  Proof.
    induction t as [i m cs IH] using ctree_ind'. intros W. destruct (wfb_node _ _ _ W) as (_ & H2 & H3).
    destruct cs as [|c cs]; [simpl; auto|]. rewrite leaves_internal. cbn [flat_map t_idx].
    apply in_or_app. left. inversion IH as [|? ? IHc _]. rewrite <- H2. apply IHc. apply H3. now left.
  Qed.
End TreeFacts.

Section Cover.
  Context {D : Type} (ltb leb : D -> D -> bool) (plus : D -> D -> D).
  Hypothesis PO : preorder ltb leb.
  Hypothesis plus_mono : forall a b c d, leb a b = true -> leb c d = true -> leb (plus a c) (plus b d) = true.
  Context {P : Type} (dist : P -> P -> D) (pt : nat -> P) (q : P).
  Hypothesis dist_sym : forall a b, dist a b = dist b a.
  Hypothesis dist_tri : forall a b c, leb (dist a c) (plus (dist a b) (dist b c)) = true.
  Notation tree := (ctree D).
  Definition dq (i : nat) : D := dist (pt i) q.
  Definition dpp (i j : nat) : D := dist (pt i) (pt j).
  Notation "a <== b" := (leb a b = true) (at level 70).
  Notation WF := (wfb leb dpp).

  (* the pruning rule is sound: a subtree that holds a point within `ub` is never cut *)
  Lemma prune_sound (N : tree) x ub :
    dpp (t_idx N) x <== t_max N -> dq x <== ub -> dq (t_idx N) <== plus ub (t_max N).
  Proof.
    intros H1 H2. unfold dq, dpp in *.
    eapply (leb_trans _ _ PO); [|apply plus_mono; [exact H2|exact H1]].
    rewrite (dist_sym (pt (t_idx N)) q), (dist_sym (pt x) q), (dist_sym (pt (t_idx N)) (pt x)).
    apply dist_tri.
  Qed.
  Lemma wf_cover (N : tree) x : WF N = true -> In x (leaves N) -> dpp (t_idx N) x <== t_max N.
  Proof. destruct N as [i m cs]. intros W Hx. destruct (wfb_node _ _ _ _ _ W) as (H & _). simpl. now apply H. Qed.
  Lemma leaves_leaf (N : tree) : t_children N = [] -> leaves N = [t_idx N].
  Proof. destruct N as [i m cs]; simpl. intros ->. reflexivity. Qed.

  Section Gen.
    Context {S : Type} (bound : S -> D) (gupd : S -> bool -> D -> S).
    Context (J : S -> list nat -> Prop) (Zok : D -> Prop).
    Hypothesis bound_mono : forall s f d O, J s O -> bound (gupd s f d) <== bound s.
    Hypothesis J_first : forall s d O, J s O -> J (gupd s true d) O.
    Hypothesis J_new : forall s i O, J s O -> ~ In i O -> J (gupd s false (dq i)) (i :: O).
    Hypothesis J_incl : forall s O O', J s O -> incl O O' -> J s O'.
    Hypothesis Zok_intro : forall s d, d <== bound s -> Zok d.

    Definition gstate := (S * list (D * tree) * list (D * tree))%type.
    Definition gvisit (st : gstate) (c : nat) (pd : D) (child : tree) : gstate :=
      let '(s, next, zero) := st in
      let d := if c =? 0 then pd else dq (t_idx child) in
      let ub := bound s in
      if leb d (plus ub (t_max child)) then
        let s' := gupd s (c =? 0) d in
        match t_children child with
        | _ :: _ => (s', next ++ [(d, child)], zero)
        | [] => if leb d ub then (s', next, zero ++ [(d, child)]) else (s', next, zero)
        end
      else st.
    Definition task := (nat * D * tree)%type.
    Definition tasks_of (par : D * tree) : list task :=
      map (fun cc : nat * tree => (fst cc, fst par, snd cc)) (enumerate (t_children (snd par))).
    Definition gstep (st : gstate) (t : task) : gstate := gvisit st (fst (fst t)) (snd (fst t)) (snd t).
    Definition glevel (cur : list (D * tree)) (s : S) (zero : list (D * tree)) : gstate :=
      fold_left gstep (flat_map tasks_of cur) (s, [], zero).
    Fixpoint glevels (fuel : nat) (cur : list (D * tree)) (s : S) (zero : list (D * tree))
      : option (S * list (D * tree)) :=
      match cur with
      | [] => Some (s, zero)
      | _ :: _ =>
        match fuel with
        | 0 => None
        | Datatypes.S f => let '(s', next, zero') := glevel cur s zero in glevels f next s' zero'
        end
      end.

    Definition TL (T : list task) := flat_map (fun t : task => leaves (snd t)) T.
    Definition XL (X : list (D * tree)) := flat_map (fun x : D * tree => leaves (snd x)) X.
    Definition ZL (Z : list (D * tree)) := map (fun z : D * tree => t_idx (snd z)) Z.
    Definition alive (T : list task) :=
      flat_map (fun t : task => if fst (fst t) =? 0 then [t_idx (snd t)] else []) T.

    Record GI (L0 : list nat) (hb : nat) (T : list task) (s : S) (X Z : list (D * tree)) (Dr : list nat) : Prop := {
      gi_cnt : forall x, cnt L0 x = cnt (TL T) x + cnt (XL X) x + cnt (ZL Z) x + cnt Dr x;
      gi_dr : forall x, In x Dr -> ltb (bound s) (dq x) = true;
      gi_T : forall t, In t T -> WF (snd t) = true /\ height (snd t) <= hb /\
                                 (fst (fst t) = 0 -> snd (fst t) = dq (t_idx (snd t)));
      gi_X : forall x, In x X -> WF (snd x) = true /\ height (snd x) <= hb /\
                                 fst x = dq (t_idx (snd x)) /\ t_children (snd x) <> [];
      gi_Z : forall z, In z Z -> fst z = dq (t_idx (snd z)) /\ Zok (fst z);
      gi_J : J s (alive T ++ ZL X ++ ZL Z ++ Dr) }.

    Lemma alive_in_TL T i : (forall t, In t T -> WF (snd t) = true) -> In i (alive T) -> 1 <= cnt (TL T) i.
    Proof.
      intros W Hi. unfold alive in Hi. apply in_flat_map in Hi. destruct Hi as (t & Ht & Hi).
      destruct (fst (fst t) =? 0); [|contradiction]. destruct Hi as [<-|[]].
      eapply Nat.le_trans; [|apply (cnt_flat_map (fun t : task => leaves (snd t)) T _ t Ht)].
      apply cnt_in. apply (idx_in_leaves leb dpp). now apply W.
    Qed.
    Lemma XI_in_XL X i : (forall x, In x X -> WF (snd x) = true) -> In i (ZL X) -> 1 <= cnt (XL X) i.
    Proof.
      intros W Hi. unfold ZL in Hi. apply in_map_iff in Hi. destruct Hi as (x & <- & Hx).
      eapply Nat.le_trans; [|apply (cnt_flat_map (fun x : D * tree => leaves (snd x)) X _ x Hx)].
      apply cnt_in. apply (idx_in_leaves leb dpp). now apply W.
    Qed.

    Lemma gstep_inv L0 hb t T s X Z Dr : (forall x, cnt L0 x <= 1) ->
      GI L0 hb (t :: T) s X Z Dr ->
      exists Dr', let '(s', X', Z') := gstep (s, X, Z) t in GI L0 hb T s' X' Z' Dr'.
    Proof.
      intros ND [Gc Gd GT GX GZ GJ]. destruct t as ((c, pd), ch). unfold gstep, gvisit. cbn [fst snd].
      destruct (GT _ (or_introl eq_refl)) as (Wch & Hch & Hpd). cbn [fst snd] in *.
      set (d := if c =? 0 then pd else dq (t_idx ch)).
      assert (Hd : d = dq (t_idx ch)).
      { unfold d. destruct (c =? 0) eqn:E; auto. apply Nat.eqb_eq in E. auto. }
      assert (GT' : forall t, In t T -> WF (snd t) = true /\ height (snd t) <= hb /\
                                 (fst (fst t) = 0 -> snd (fst t) = dq (t_idx (snd t)))).
      { intros t Ht. apply GT. now right. }
      assert (WT : forall t, In t T -> WF (snd t) = true) by (intros t Ht; apply (GT' t Ht)).
      assert (WX : forall x, In x X -> WF (snd x) = true) by (intros x Hx; apply (GX x Hx)).
      assert (Hself : 1 <= cnt (leaves ch) (t_idx ch)) by (apply cnt_in, (idx_in_leaves leb dpp), Wch).
      assert (Gc' : forall x, cnt L0 x = cnt (leaves ch) x + cnt (TL T) x + cnt (XL X) x + cnt (ZL Z) x + cnt Dr x).
      { intros x. rewrite Gc. unfold TL. cbn [flat_map snd]. rewrite count_occ_app. lia. }
      set (Orest := alive T ++ ZL X ++ ZL Z ++ Dr).
      change (alive ((c, pd, ch) :: T)) with ((if c =? 0 then [t_idx ch] else []) ++ alive T) in GJ.
      destruct (leb d (plus (bound s) (t_max ch))) eqn:E.
      - (* visited *)
        set (s' := gupd s (c =? 0) d).
        assert (Js' : J s' (t_idx ch :: Orest)).
        { unfold s'. destruct (c =? 0) eqn:Ec.
          - apply J_first. exact GJ.
          - rewrite Hd. apply J_new; [exact GJ|]. cbn [app]. fold Orest.
            intros Hin. specialize (Gc' (t_idx ch)). specialize (ND (t_idx ch)).
            unfold Orest in Hin. rewrite !in_app_iff in Hin. destruct Hin as [H|[H|[H|H]]].
            + apply alive_in_TL in H; auto. lia.
            + apply XI_in_XL in H; auto. lia.
            + apply cnt_in in H. lia.
            + apply cnt_in in H. lia. }
        assert (Hb : bound s' <== bound s) by (eapply bound_mono; exact GJ).
        assert (Gd' : forall x, In x Dr -> ltb (bound s') (dq x) = true).
        { intros x Hx. eapply (le_lt_trans _ _ PO); [exact Hb|]. now apply Gd. }
        destruct (t_children ch) as [|c1 cs1] eqn:Ech.
        + pose proof (leaves_leaf ch Ech) as Hl.
          destruct (leb d (bound s)) eqn:Eub.
          * exists Dr. split; auto.
            -- intros x. rewrite Gc', Hl. unfold ZL. rewrite map_app, count_occ_app. cbn [map snd]. lia.
            -- intros z Hz. apply in_app_or in Hz. destruct Hz as [Hz|[<-|[]]]; [now apply GZ|].
               cbn [fst snd]. split; auto. eapply Zok_intro. exact Eub.
            -- eapply J_incl; [exact Js'|]. unfold Orest, ZL. rewrite map_app. cbn [map snd].
               intros y Hy. simpl in Hy. rewrite !in_app_iff in *. simpl. tauto.
          * exists (t_idx ch :: Dr). split; auto.
            -- intros x. rewrite Gc', Hl. simpl. destruct (Nat.eq_dec (t_idx ch) x); lia.
            -- intros x [<-|Hx]; [|now apply Gd'].
               eapply (le_lt_trans _ _ PO); [exact Hb|]. rewrite (ltb_leb _ _ PO), <- Hd, Eub. reflexivity.
            -- eapply J_incl; [exact Js'|]. unfold Orest.
               intros y Hy. simpl in Hy. rewrite !in_app_iff in *. simpl. tauto.
        + exists Dr. split; auto.
          * intros x. rewrite Gc'. unfold XL. rewrite flat_map_app, count_occ_app. cbn [flat_map snd]. rewrite app_nil_r. lia.
          * intros x Hx. apply in_app_or in Hx. destruct Hx as [Hx|[<-|[]]]; [now apply GX|].
            cbn [fst snd]. repeat split; auto. rewrite Ech. discriminate.
          * eapply J_incl; [exact Js'|]. unfold Orest, ZL. rewrite map_app. cbn [map snd].
            intros y Hy. simpl in Hy. rewrite !in_app_iff in *. simpl. tauto.
      - (* pruned: every point below is farther than the bound *)
        exists (leaves ch ++ Dr). split; auto.
        + intros x. rewrite Gc', count_occ_app. lia.
        + intros x Hx. apply in_app_or in Hx. destruct Hx as [Hx|Hx]; [|now apply Gd].
          rewrite (ltb_leb _ _ PO). destruct (leb (dq x) (bound s)) eqn:Ex; auto.
          rewrite Hd in E. rewrite (prune_sound ch x (bound s)) in E; [discriminate| |exact Ex].
          now apply wf_cover.
        + eapply J_incl; [exact GJ|].
          intros y Hy. rewrite !in_app_iff in *.
          destruct Hy as [[Hy|Hy]|Hy]; [|tauto|tauto].
          destruct (c =? 0); [|contradiction]. destruct Hy as [<-|[]].
          right. right. right. left. apply cnt_in. exact Hself.
    Qed.

    Lemma gfold_inv L0 hb : (forall x, cnt L0 x <= 1) -> forall T s X Z Dr,
      GI L0 hb T s X Z Dr ->
      exists Dr', let '(s', X', Z') := fold_left gstep T (s, X, Z) in GI L0 hb [] s' X' Z' Dr'.
    Proof.
      intros ND. induction T as [|t T IH]; intros s X Z Dr G; cbn [fold_left].
      - exists Dr; auto.
      - destruct (gstep_inv L0 hb t T s X Z Dr ND G) as (Dr1 & H1).
        destruct (gstep (s, X, Z) t) as ((s1, X1), Z1). apply (IH _ _ _ _ H1).
    Qed.

    Lemma TL_enum (g : nat * tree -> task) (Hg : forall cc, snd (g cc) = snd cc) (cs : list tree) : forall st,
      TL (map g (combine (seq st (length cs)) cs)) = flat_map leaves cs.
    Proof.
      induction cs as [|c cs IH]; intros st; simpl; auto. unfold TL in *. cbn [flat_map]. rewrite Hg. cbn [snd].
      f_equal. apply IH.
    Qed.
    Lemma TL_tasks_of d (N : tree) : t_children N <> [] -> TL (tasks_of (d, N)) = leaves N.
    Proof.
      intros Hne. unfold tasks_of, enumerate. cbn [fst snd]. rewrite TL_enum by reflexivity.
      destruct N as [i m [|c cs]]; [simpl in Hne; congruence|]. reflexivity.
    Qed.
    Lemma enum_first (cs : list tree) st c ch : In (c, ch) (combine (seq st (length cs)) cs) ->
      In ch cs /\ (c = st -> exists cs', cs = ch :: cs').
    Proof.
      destruct cs as [|a cs]; simpl; [tauto|]. intros [H|H].
      - inversion H; subst. split; eauto.
      - split; [right; eapply in_combine_r; eauto|]. intros ->. apply in_combine_l, in_seq in H. lia.
    Qed.

    Lemma level_end L0 hb s X Z Dr : GI L0 (Datatypes.S hb) [] s X Z Dr ->
      GI L0 hb (flat_map tasks_of X) s [] Z Dr.
    Proof.
      intros [Gc Gd GT GX GZ GJ]. split; auto.
      - intros x. rewrite Gc. cbn [TL XL flat_map]. simpl.
        assert (E : TL (flat_map tasks_of X) = XL X).
        { unfold TL. rewrite flat_map_flat_map. unfold XL.
          apply flat_map_ext_in'. intros (d, N) Hx. apply (TL_tasks_of d N). apply (GX _ Hx). }
        rewrite E. lia.
      - intros t Ht. apply in_flat_map in Ht. destruct Ht as ((d, N) & Hx & Ht).
        destruct (GX _ Hx) as (W & Hh & Hd & Hne). cbn [fst snd] in *.
        unfold tasks_of in Ht. apply in_map_iff in Ht. destruct Ht as ((c, ch) & <- & Hc). cbn [fst snd] in *.
        apply enum_first in Hc. destruct Hc as (Hin & Hfirst).
        destruct N as [i m cs]. cbn [t_children t_idx] in *.
        destruct (wfb_node _ _ _ _ _ W) as (_ & W2 & W3).
        split; [now apply W3|]. split.
        + pose proof (height_child i m cs ch Hin). lia.
        + intros ->. destruct (Hfirst eq_refl) as (cs' & ->). rewrite W2. exact Hd.
      - intros x [].
      - eapply J_incl; [exact GJ|]. intros y Hy. cbn [alive flat_map app ZL map] in Hy.
        rewrite !in_app_iff in *. destruct Hy as [Hy|Hy]; [|cbn [ZL map]; simpl; tauto].
        left. unfold ZL in Hy. apply in_map_iff in Hy. destruct Hy as ((d, N) & <- & Hx).
        destruct (GX _ Hx) as (W & _ & _ & Hne). cbn [fst snd] in *.
        destruct N as [i m [|c0 cs]]; [simpl in Hne; congruence|].
        destruct (wfb_node _ _ _ _ _ W) as (_ & W2 & _). cbn [t_idx].
        unfold alive. apply in_flat_map. exists (0, d, c0). split.
        + apply in_flat_map. exists (d, Node i m (c0 :: cs)). split; auto. unfold tasks_of, enumerate. simpl. now left.
        + simpl. now left.
    Qed.

    Lemma glevels_ok L0 : (forall x, cnt L0 x <= 1) -> forall fuel hb cur s Z Dr,
      hb <= fuel -> GI L0 hb [] s cur Z Dr ->
      exists s' Z' Dr', glevels fuel cur s Z = Some (s', Z') /\ GI L0 0 [] s' [] Z' Dr'.
    Proof.
      intros ND. induction fuel as [|f IH]; intros hb cur s Z Dr Hhb G.
      - destruct cur as [|x cur].
        + exists s, Z, Dr. split; auto. destruct G. split; auto; intros ? [].
        + exfalso. destruct (gi_X _ _ _ _ _ _ _ G x (or_introl eq_refl)) as (_ & Hh & _).
          pose proof (height_pos (snd x)). lia.
      - destruct cur as [|x cur].
        + exists s, Z, Dr. split; auto. destruct G. split; auto; intros ? [].
        + assert (Hpos : 1 <= hb).
          { destruct (gi_X _ _ _ _ _ _ _ G x (or_introl eq_refl)) as (_ & Hh & _).
            pose proof (height_pos (snd x)). lia. }
          destruct hb as [|hb']; [lia|].
          apply level_end in G. apply (gfold_inv L0 hb' ND) in G. destruct G as (Dr1 & G1).
          cbn [glevels]. unfold glevel.
          destruct (fold_left gstep (flat_map tasks_of (x :: cur)) (s, [], Z)) as ((s1, X1), Z1).
          apply (IH hb' X1 s1 Z1 Dr1); [lia|exact G1].
    Qed.
  End Gen.

  (* ---- start and end of the traversal ---- *)
  Lemma insert_nat_perm x l : Permutation (insert_nat x l) (x :: l).
  Proof.
    induction l as [|y t IH]; simpl; auto. destruct (x <=? y); auto.
    eapply perm_trans; [apply perm_skip, IH|apply perm_swap].
  Qed.
  Lemma sort_nat_perm l : Permutation (sort_nat l) l.
  Proof. induction l; simpl; auto. eapply perm_trans; [apply insert_nat_perm|]. now constructor. Qed.

  Lemma wf_root_facts n (root : tree) : wf_root leb dpp n root = true ->
    WF root = true /\ t_children root <> [] /\ Permutation (leaves root) (seq 0 n) /\
    (forall x, cnt (leaves root) x <= 1).
  Proof.
    unfold wf_root. rewrite !andb_true_iff. intros [[H1 H2] H3]. split; auto. split.
    - destruct (t_children root); [discriminate|congruence].
    - apply list_eqb_nat_eq in H3.
      assert (Pm : Permutation (leaves root) (seq 0 n)).
      { rewrite <- H3. apply Permutation_sym, sort_nat_perm. }
      split; auto. apply (NoDup_count_occ Nat.eq_dec).
      eapply Permutation_NoDup; [apply Permutation_sym, Pm|apply seq_NoDup].
  Qed.

  Section GenTop.
    Context {S : Type} (bound : S -> D) (gupd : S -> bool -> D -> S).
    Context (J : S -> list nat -> Prop) (Zok : D -> Prop).
    Hypothesis bound_mono : forall s f d O, J s O -> bound (gupd s f d) <== bound s.
    Hypothesis J_first : forall s d O, J s O -> J (gupd s true d) O.
    Hypothesis J_new : forall s i O, J s O -> ~ In i O -> J (gupd s false (dq i)) (i :: O).
    Hypothesis J_incl : forall s O O', J s O -> incl O O' -> J s O'.
    Hypothesis Zok_intro : forall s d, d <== bound s -> Zok d.

    Theorem gtraverse n (root : tree) s0 : wf_root leb dpp n root = true -> J s0 [t_idx root] ->
      exists s Z Dr,
        glevels bound gupd (Datatypes.S (height root)) [(dq (t_idx root), root)] s0 [] = Some (s, Z) /\
        (forall x, cnt (leaves root) x = cnt (ZL Z) x + cnt Dr x) /\
        (forall x, In x Dr -> ltb (bound s) (dq x) = true) /\
        (forall z, In z Z -> fst z = dq (t_idx (snd z)) /\ Zok (fst z)) /\
        J s (ZL Z ++ Dr).
    Proof.
      intros W J0. destruct (wf_root_facts n root W) as (W1 & W2 & W3 & W4).
      assert (G0 : GI bound J Zok (leaves root) (height root) [] s0 [(dq (t_idx root), root)] [] []).
      { split.
        - intros x. cbn [TL XL ZL flat_map map snd]. rewrite app_nil_r. simpl. lia.
        - intros x [].
        - intros t [].
        - intros x [<-|[]]. cbn [fst snd]. repeat split; auto.
        - intros z [].
        - exact J0. }
      destruct (glevels_ok bound gupd J Zok bound_mono J_first J_new J_incl Zok_intro (leaves root) W4
                           (Datatypes.S (height root)) (height root) _ s0 [] [] (Nat.le_succ_diag_r _) G0)
        as (s & Z & Dr & E & [Gc Gd _ _ GZ GJ]).
      exists s, Z, Dr. split; [exact E|]. split; [|split; [exact Gd|split; [exact GZ|exact GJ]]].
      intros x. rewrite Gc. simpl. lia.
    Qed.
  End GenTop.

  (* nested loops of the model = one fold over the flattened child visits *)
  Lemma fold_left_map {X Y A} (f : A -> Y -> A) (g : X -> Y) (l : list X) : forall a,
    fold_left f (map g l) a = fold_left (fun a x => f a (g x)) l a.
  Proof. induction l; intros; simpl; auto. Qed.
  Lemma fold_left_ext {X A} (f g : A -> X -> A) (l : list X) : (forall a x, f a x = g a x) -> forall a,
    fold_left f l a = fold_left g l a.
  Proof. intros H. induction l; intros; simpl; auto. rewrite H. auto. Qed.
  Lemma nested_fold {A} (V : A -> nat -> D -> tree -> A) (cur : list (D * tree)) (a : A) :
    fold_left (fun st par => fold_left (fun st cc => V st (fst cc) (fst par) (snd cc))
                                       (enumerate (t_children (snd par))) st) cur a =
    fold_left (fun st (t : task) => V st (fst (fst t)) (snd (fst t)) (snd t)) (flat_map tasks_of cur) a.
  Proof.
    rewrite fold_left_flat_map. apply fold_left_ext. intros st par. unfold tasks_of.
    rewrite fold_left_map. reflexivity.
  Qed.

  (* ---- find_radius ---- *)
  Section Radius.
    Variables (dzero r : D).
    Definition rbound (_ : unit) : D := r.
    Definition rupd (s : unit) (_ : bool) (_ : D) : unit := s.
    Definition rproj (st : @gstate unit) : @rstate D := (snd (fst st), snd st).
    Definition rstep (st : @rstate D) (t : task) := radius_visit leb plus dq r st (fst (fst t)) (snd (fst t)) (snd t).

    Lemma radius_visit_sim st t : rproj (gstep rbound rupd st t) = rstep (rproj st) t.
    Proof.
      destruct st as ((u, X), Z). destruct t as ((c, pd), ch).
      unfold gstep, gvisit, rstep, radius_visit, rproj, rbound, rupd. cbn [fst snd].
      destruct (leb _ _); auto. destruct (t_children ch); auto. destruct (leb _ r); auto.
    Qed.
    Lemma radius_fold_sim T : forall st, rproj (fold_left (gstep rbound rupd) T st) = fold_left rstep T (rproj st).
    Proof. induction T; intros; simpl; auto. rewrite IHT, radius_visit_sim. reflexivity. Qed.
    Lemma radius_level_sim cur zero :
      radius_level leb plus dq r cur zero = rproj (glevel rbound rupd cur tt zero).
    Proof.
      unfold radius_level, glevel. rewrite radius_fold_sim. unfold rproj at 1. cbn [fst snd].
      apply (nested_fold (radius_visit leb plus dq r)).
    Qed.
    Lemma radius_levels_sim fuel : forall cur zero,
      radius_levels leb plus fuel dq r cur zero = option_map snd (glevels rbound rupd fuel cur tt zero).
    Proof.
      induction fuel; intros [|x cur] zero; cbn [radius_levels glevels option_map snd]; auto.
      rewrite radius_level_sim.
      destruct (glevel rbound rupd (x :: cur) tt zero) as ((u, X), Z). unfold rproj. cbn [fst snd].
      destruct u. apply IHfuel.
    Qed.

    Theorem cover_radius_exact n (root : tree) : wf_root leb dpp n root = true -> leb r dzero = false ->
      exists res, cover_find_radius leb plus dzero dq root r = Some res /\ is_ball leb dq n r res.
    Proof.
      intros W Hr. unfold cover_find_radius. rewrite Hr. rewrite radius_levels_sim.
      assert (T := gtraverse rbound rupd (fun _ _ => True) (fun d => d <== r)
                     (fun _ _ _ _ _ => leb_refl _ _ PO r) (fun _ _ _ _ => I) (fun _ _ _ _ _ => I)
                     (fun _ _ _ _ _ => I) (fun _ _ H => H) n root tt W I).
      destruct T as (s & Z & Dr & E & Gc & Gd & GZ & _).
      rewrite E. cbn [option_map snd]. eexists; split; [reflexivity|].
      destruct (wf_root_facts n root W) as (_ & _ & Pm & ND).
      assert (Hmap : map fst (map (fun ds : D * tree => (t_idx (snd ds), fst ds)) Z) = ZL Z).
      { rewrite map_map. reflexivity. }
      split.
      - rewrite Hmap. apply (NoDup_count_occ Nat.eq_dec). intros x. specialize (Gc x). specialize (ND x). lia.
      - intros i d. rewrite in_map_iff. split.
        + intros ((d', N) & Heq & Hz). inversion Heq; subst. destruct (GZ _ Hz) as (H1 & H2). cbn [fst snd] in *.
          split; [|split; auto; rewrite <- H1; exact H2].
          assert (Hin : In (t_idx N) (leaves root)).
          { apply cnt_in. specialize (Gc (t_idx N)).
            assert (1 <= cnt (ZL Z) (t_idx N)) by (apply cnt_in, in_map_iff; exists (d, N); auto). lia. }
          eapply Permutation_in in Hin; [|exact Pm]. apply in_seq in Hin. lia.
        + intros (Hi & -> & Hle).
          assert (Hin : In i (leaves root)).
          { eapply Permutation_in; [apply Permutation_sym, Pm|]. apply in_seq. lia. }
          apply cnt_in in Hin. rewrite Gc in Hin.
          assert (HZ : In i (ZL Z)).
          { destruct (in_dec Nat.eq_dec i (ZL Z)) as [H|H]; auto. exfalso.
            assert (In i Dr).
            { apply cnt_in. apply (count_occ_not_In Nat.eq_dec) in H. lia. }
            specialize (Gd i H0). unfold rbound in Gd. rewrite (ltb_leb _ _ PO), Hle in Gd. discriminate. }
          unfold ZL in HZ. apply in_map_iff in HZ. destruct HZ as ((d', N) & Hidx & Hz). cbn [snd] in Hidx.
          exists (d', N). split; auto. cbn [fst snd]. destruct (GZ _ Hz) as (H1 & _). cbn [fst snd] in H1.
          subst. reflexivity.
    Qed.
  End Radius.
End Cover.
