(* C04 — KNNWeightFunction::calc_weights and the vote / mean of the k-NN estimators, over the reals *)
From Coq Require Import List Arith Bool Lia Reals Lra.
From SC Require Import Base.Num C04.Model.
Import ListNotations.
Open Scope R_scope.

Definition rsum (l : list R) : R := fold_right Rplus 0 l.
Lemma fold_left_Rplus_gen {X} (f : X -> R) (l : list X) : forall a,
  fold_left (fun acc x => acc + f x) l a = a + rsum (map f l).
Proof. induction l; intros; simpl; [lra|]. rewrite IHl. lra. Qed.
Lemma fold_left_Rplus l : forall a, fold_left Rplus l a = a + rsum l.
Proof. induction l; intros; simpl; [lra|]. rewrite IHl. lra. Qed.
Lemma osum_R l : osum ROps l = rsum l.
Proof. unfold osum. simpl. rewrite fold_left_Rplus. lra. Qed.

(* ---- calc_weights ---- *)
Lemma weights_uniform ds : calc_weights ROps Uniform ds = repeat 1 (length ds).
Proof. reflexivity. Qed.
Lemma weights_exact_match ds : In 0 ds ->
  calc_weights ROps DistanceW ds = map (fun e => if Req_EM_T e 0 then 1 else 0) ds.
Proof.
  intros H. unfold calc_weights. simpl.
  replace (existsb (fun e => Reqb e 0) ds) with true.
  - apply map_ext. intros e. unfold Reqb. destruct (Req_EM_T e 0); reflexivity.
  - symmetry. apply existsb_exists. exists 0. split; auto. apply Reqb_true. reflexivity.
Qed.
Lemma weights_inverse ds : ~ In 0 ds ->
  calc_weights ROps DistanceW ds = map (fun e => 1 / e) ds.
Proof.
  intros H. unfold calc_weights. simpl.
  replace (existsb (fun e => Reqb e 0) ds) with false; auto.
  symmetry. destruct (existsb (fun e => Reqb e 0) ds) eqn:E; auto.
  apply existsb_exists in E. destruct E as (x & Hx & Ex). apply Reqb_true in Ex. subst. contradiction.
Qed.
Lemma weights_length w ds : length (calc_weights ROps w ds) = length ds.
Proof. destruct w; unfold calc_weights; simpl; [now rewrite repeat_length|]. destruct (existsb _ ds); now rewrite map_length. Qed.
Lemma weights_nonneg w ds : (forall d, In d ds -> 0 <= d) -> forall x, In x (calc_weights ROps w ds) -> 0 <= x.
Proof.
  intros Hd x Hx. destruct w.
  - rewrite weights_uniform in Hx. apply repeat_spec in Hx. lra.
  - destruct (in_dec Req_EM_T 0 ds) as [H|H].
    + rewrite weights_exact_match in Hx by auto. apply in_map_iff in Hx. destruct Hx as (e & <- & _).
      destruct (Req_EM_T e 0); lra.
    + rewrite weights_inverse in Hx by auto. apply in_map_iff in Hx. destruct Hx as (e & <- & He).
      assert (0 < e). { destruct (Hd e He); auto. subst. contradiction. }
      unfold Rdiv. rewrite Rmult_1_l. left. now apply Rinv_0_lt_compat.
Qed.

(* ---- regressor: the prediction is the weighted mean of the neighbours' targets ---- *)
Theorem knn_regressor_mean y w (sr : list (nat * R)) :
  let ws := calc_weights ROps w (map snd sr) in
  let W := rsum ws in
  reg_mean ROps y w sr = rsum (map (fun rw : (nat * R) * R => nth (fst (fst rw)) y 0 * (snd rw / W)) (combine sr ws)) /\
  (W <> 0 -> reg_mean ROps y w sr * W = rsum (map (fun rw : (nat * R) * R => nth (fst (fst rw)) y 0 * snd rw) (combine sr ws))).
Proof.
  intros ws W. unfold reg_mean. rewrite osum_R. fold ws. fold W. simpl.
  rewrite (fold_left_Rplus_gen (fun rw : (nat * R) * R => nth (fst (fst rw)) y 0 * (snd rw / W))).
  rewrite Rplus_0_l. split; auto. intros HW.
  induction (combine sr ws) as [|a l IH]; simpl; [lra|]. rewrite Rmult_plus_distr_r, IH. field. exact HW.
Qed.

(* ---- classifier: the predicted class has maximal accumulated weight ---- *)
Lemma updT_length {T} (l : list T) i x : length (updT l i x) = length l.
Proof. revert i; induction l; destruct i; simpl; auto. Qed.
Lemma nth_updT_same (l : list R) i x : (i < length l)%nat -> nth i (updT l i x) 0 = x.
Proof. revert i; induction l; destruct i; simpl; intros; try lia; auto. apply IHl; lia. Qed.
Lemma nth_updT_other (l : list R) i j x : i <> j -> nth j (updT l i x) 0 = nth j l 0.
Proof. revert i j; induction l; destruct i, j; simpl; intros; try lia; auto. Qed.

Definition score (y : list nat) (W : R) (l : list ((nat * R) * R)) (j : nat) : R :=
  rsum (map (fun rw : (nat * R) * R => if Nat.eqb (nth (fst (fst rw)) y 0%nat) j then snd rw / W else 0) l).

Definition vote_step (y : list nat) (W : R) (st : list R * R * nat) (rw : (nat * R) * R) :=
  let '(c, max_c, max_i) := st in
  let yi := nth (fst (fst rw)) y 0%nat in
  let c' := updT c yi (nth yi c 0 + snd rw / W) in
  if Rltb max_c (nth yi c' 0) then (c', nth yi c' 0, yi) else (c', max_c, max_i).

Lemma vote_fold y W ncl : forall l c mc mi,
  length c = ncl -> (forall rw, In rw l -> (nth (fst (fst rw)) y 0 < ncl)%nat /\ 0 <= snd rw / W) ->
  (forall j, nth j c 0 <= mc) -> mc <= nth mi c 0 ->
  let '(c', mc', mi') := fold_left (vote_step y W) l (c, mc, mi) in
  length c' = ncl /\ (forall j, nth j c' 0 <= nth mi' c' 0) /\
  (forall j, (j < ncl)%nat -> nth j c' 0 = nth j c 0 + score y W l j).
Proof.
  induction l as [|rw l IH]; intros c mc mi Hl Hrw Hmax Hmi; simpl.
  - split; auto. split; [intros j; eapply Rle_trans; eauto|]. intros j _. unfold score. simpl. lra.
  - destruct (Hrw rw (or_introl eq_refl)) as [Hy Hinc].
    set (yi := nth (fst (fst rw)) y 0%nat) in *.
    set (c1 := updT c yi (nth yi c 0 + snd rw / W)).
    assert (Hc1 : forall j, nth j c1 0 = if Nat.eqb yi j then nth j c 0 + snd rw / W else nth j c 0).
    { intros j. unfold c1. destruct (Nat.eqb yi j) eqn:E.
      - apply Nat.eqb_eq in E. subst j. apply nth_updT_same. lia.
      - apply Nat.eqb_neq in E. now apply nth_updT_other. }
    assert (Hmono : forall j, nth j c 0 <= nth j c1 0).
    { intros j. rewrite Hc1. destruct (Nat.eqb yi j); lra. }
    assert (Hl1 : length c1 = ncl) by (unfold c1; now rewrite updT_length).
    assert (Hrw' : forall rw0, In rw0 l -> (nth (fst (fst rw0)) y 0 < ncl)%nat /\ 0 <= snd rw0 / W).
    { intros; apply Hrw; now right. }
    assert (Hsc : forall j, (j < ncl)%nat -> nth j c1 0 + score y W l j = nth j c 0 + score y W (rw :: l) j).
    { intros j Hj. rewrite Hc1. unfold score. simpl. fold yi. destruct (Nat.eqb yi j); lra. }
    fold yi. fold c1.
    destruct (Rltb mc (nth yi c1 0)) eqn:E.
    + apply Rltb_true in E.
      specialize (IH c1 (nth yi c1 0) yi Hl1 Hrw').
      destruct (fold_left (vote_step y W) l (c1, nth yi c1 0, yi)) as ((c', mc'), mi').
      destruct IH as (H1 & H2 & H3).
      * intros j. rewrite (Hc1 j). destruct (Nat.eqb yi j) eqn:Ej.
        -- apply Nat.eqb_eq in Ej. subst j. rewrite Hc1, Nat.eqb_refl. lra.
        -- specialize (Hmax j). lra.
      * lra.
      * split; auto. split; auto. intros j Hj. rewrite H3 by auto. now apply Hsc.
    + apply Rltb_false in E.
      specialize (IH c1 mc mi Hl1 Hrw').
      destruct (fold_left (vote_step y W) l (c1, mc, mi)) as ((c', mc'), mi').
      destruct IH as (H1 & H2 & H3).
      * intros j. rewrite (Hc1 j). destruct (Nat.eqb yi j) eqn:Ej.
        -- apply Nat.eqb_eq in Ej. subst j. rewrite Hc1, Nat.eqb_refl in E. lra.
        -- apply Hmax.
      * eapply Rle_trans; [exact Hmi|apply Hmono].
      * split; auto. split; auto. intros j Hj. rewrite H3 by auto. now apply Hsc.
Qed.

Lemma nth_repeat0 n j : nth j (repeat 0 n) 0 = 0.
Proof. revert j; induction n; destruct j; simpl; auto. Qed.

Theorem knn_classifier_vote ncl y w (sr : list (nat * R)) :
  let ws := calc_weights ROps w (map snd sr) in
  let W := rsum ws in
  (forall r, In r sr -> (nth (fst r) y 0 < ncl)%nat) -> (forall r, In r sr -> 0 <= snd r) -> 0 < W ->
  forall j, (j < ncl)%nat ->
  score y W (combine sr ws) j <= score y W (combine sr ws) (clf_vote ROps ncl y w sr).
Proof.
  intros ws W Hy Hd HW j Hj. unfold clf_vote. rewrite osum_R. fold ws. fold W.
  change (fold_left _ (combine sr ws) (repeat (o0 ROps) ncl, o0 ROps, 0%nat))
    with (fold_left (vote_step y W) (combine sr ws) (repeat 0 ncl, 0, 0%nat)).
  pose proof (vote_fold y W ncl (combine sr ws) (repeat 0 ncl) 0 0%nat) as F.
  destruct (fold_left (vote_step y W) (combine sr ws) (repeat 0 ncl, 0, 0%nat)) as ((c', mc'), mi').
  destruct F as (H1 & H2 & H3).
  - apply repeat_length.
  - intros (p, r) Hrw. cbn [fst snd]. split.
    + apply Hy. exact (in_combine_l sr ws p r Hrw).
    + assert (0 <= r).
      { apply (weights_nonneg w (map snd sr)).
        - intros d Hdd. apply in_map_iff in Hdd. destruct Hdd as (r0 & <- & Hr). now apply Hd.
        - exact (in_combine_r sr ws p r Hrw). }
      unfold Rdiv. apply Rmult_le_pos; auto. left. now apply Rinv_0_lt_compat.
  - intros j0. rewrite nth_repeat0. lra.
  - rewrite nth_repeat0. lra.
  - assert (Hs : forall j0, (j0 < ncl)%nat -> nth j0 c' 0 = score y W (combine sr ws) j0).
    { intros j0 Hj0. rewrite H3 by auto. rewrite nth_repeat0. lra. }
    destruct (lt_dec mi' ncl) as [Hm|Hm].
    + rewrite <- !Hs by auto. apply H2.
    + (* max_i out of range cannot beat an in-range tally: then every tally is <= the default 0 *)
      specialize (H2 j). rewrite (nth_overflow c' 0%R (n:=mi')) in H2 by lia. rewrite Hs in H2 by auto.
      assert (G : forall l, (forall rw, In rw l -> 0 <= snd rw / W) -> 0 <= score y W l mi').
      { unfold score. induction l as [|a l IHl]; intros Hl; simpl; [lra|].
        assert (0 <= snd a / W) by (apply Hl; now left).
        assert (0 <= rsum (map (fun rw : nat * R * R => if Nat.eqb (nth (fst (fst rw)) y 0%nat) mi' then snd rw / W else 0) l))
          by (apply IHl; intros; apply Hl; now right).
        destruct (Nat.eqb _ mi'); lra. }
      assert (0 <= score y W (combine sr ws) mi').
      { apply G. intros (p, r) Hrw. cbn [snd].
        assert (0 <= r).
        { apply (weights_nonneg w (map snd sr)).
          - intros d Hdd. apply in_map_iff in Hdd. destruct Hdd as (r0 & <- & Hr). now apply Hd.
          - exact (in_combine_r sr ws p r Hrw). }
        unfold Rdiv. apply Rmult_le_pos; auto. left. now apply Rinv_0_lt_compat. }
      lra.
Qed.
