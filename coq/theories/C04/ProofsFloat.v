(* C04 — rounding theorems for the binary64 instance of the k-NN estimators (SC.C04.Model at FOps), on top
   of Base/FloatError.v.  Uniform weights throughout (KNNWeightFunction::Uniform).

   The model (and the Rust code) computes, for a neighbour list `sr` of k entries,
       weights = [1; ..; 1],  w_sum = fl(..fl(fl(0+1)+1)..+1) = k  (exact for k <= 2^53),
       r = fl(1 / w_sum)  (one rounding, 1/k >= 2^-53 is in the normal range),
     regressor   fl(..fl(fl(0 + fl(y_1 * r)) + fl(y_2 * r)).. + fl(y_k * r))
     classifier  c[y_i] <- fl(c[y_i] + r), the running arg-max updated with the strict `<`.

   1. regressor_uniform_mean_float_error: if the prediction is finite then the k targets are finite and
        |FR pred - (sum y_i)/k| <= ((1+u)^(k+1) - 1) * ((sum |y_i|)/k + k*eta) + k*eta.
   2. classifier: the score of a class after m votes is g(m) = the m-fold float sum r + .. + r, THE SAME
      function of the count for every class, and g is strictly increasing on 0..k for k <= 2^51
      (g(m) <= 4/3, so adding r >= 2^-52 is never absorbed).  Hence every comparison the vote makes
      between two float scores is the comparison of the two integer counts: the binary64 vote equals the
      integer vote `vote_count` (same winner, same tie-breaking), and so equals the exact (ROps) vote.
   3. exhaustive scan, general k: see the last section.
   `FR x` real value of a float, `ffin x` finiteness, u64 = 2^-53, eta64 = 2^-1075. *)
From Coq Require Import List Arith ZArith Bool Reals Floats Lra Lia Psatz Permutation.
From Flocq Require Import Core BinarySingleNaN PrimFloat.
From SC Require Import Base.FloatUtil Base.Num Base.FloatError C04.Model.
Import ListNotations.
Local Open Scope R_scope.
Local Existing Instance Hprec.
Local Existing Instance Hmax.

Local Notation fadd := PrimFloat.add.
Local Notation fmul := PrimFloat.mul.
Local Notation fdiv := PrimFloat.div.

(* ------------------------------------------------------------------------------------------ *)
(* helpers                                                                                     *)
(* ------------------------------------------------------------------------------------------ *)
Lemma fmt64_bpow e : (-1074 <= e <= 1023)%Z -> fmt64 (bpow radix2 e).
Proof. intros H. apply generic_format_bpow. unfold FLT_exp. lia. Qed.

Lemma rnd64_abs_le a M : fmt64 M -> Rabs a <= M -> Rabs (rnd64 a) <= M.
Proof.
  intros FM H. apply Rabs_le. apply Rabs_le_inv in H. split.
  - rewrite <- (rnd64_id (- M)) by (apply fmt64_opp, FM). apply rnd64_le. lra.
  - rewrite <- (rnd64_id M) by exact FM. apply rnd64_le. lra.
Qed.

(* no overflow => the sum of two finite floats is finite *)
Lemma fadd_bounded x y M : ffin x -> ffin y -> fmt64 M -> M < bpow radix2 1024 ->
  Rabs (FR x + FR y) <= M -> ffin (x + y)%float /\ FR (x + y)%float = rnd64 (FR x + FR y).
Proof.
  rewrite !ffin_B. unfold FR. intros Hx Hy FM HM Hb. rewrite add_equiv.
  generalize (Bplus_correct prec emax Hprec Hmax mode_NE _ _ Hx Hy).
  pose proof (rnd64_abs_le _ _ FM Hb) as Hr. unfold rnd64 in Hr.
  rewrite Rlt_bool_true.
  - intros (P & Q & _). split; [exact Q | exact P].
  - eapply Rle_lt_trans; [exact Hr | exact HM].
Qed.

Lemma fltb_finite a b : ffin a -> ffin b -> PrimFloat.ltb a b = Rlt_bool (FR a) (FR b).
Proof. intros Ha Hb. rewrite ltb_equiv. apply (Bltb_correct prec emax); apply ffin_B; assumption. Qed.
Lemma fleb_finite a b : ffin a -> ffin b -> PrimFloat.leb a b = Rle_bool (FR a) (FR b).
Proof. intros Ha Hb. rewrite leb_equiv. apply (Bleb_correct prec emax); apply ffin_B; assumption. Qed.

Lemma FR_one : FR 1%float = 1.
Proof. exact (proj2 (float_of_Z_exact 1 ltac:(lia))). Qed.
Lemma ffin_one : ffin 1%float.
Proof. reflexivity. Qed.

Lemma bpow53 : bpow radix2 53 = 2 ^ 53.
Proof. change (bpow radix2 53) with (IZR (2 ^ Z.of_nat 53)). rewrite <- pow_IZR. reflexivity. Qed.

Lemma INR_le_pow (k : nat) (e : nat) : (Z.of_nat k <= 2 ^ Z.of_nat e)%Z -> INR k <= 2 ^ e.
Proof. intros H. rewrite INR_IZR_INZ. apply IZR_le in H. rewrite <- pow_IZR in H. exact H. Qed.

(* ------------------------------------------------------------------------------------------ *)
(* w_sum: the float sum of k ones is k, exactly                                                *)
(* ------------------------------------------------------------------------------------------ *)
Lemma fold_ones m : forall acc c, ffin acc -> FR acc = INR c -> (Z.of_nat (c + m) <= 2 ^ 53)%Z ->
  ffin (fold_left fadd (repeat 1%float m) acc) /\ FR (fold_left fadd (repeat 1%float m) acc) = INR (c + m).
Proof.
  induction m as [|m IH]; intros acc c Fa Ea Hb; cbn [repeat fold_left].
  - rewrite Nat.add_0_r. split; assumption.
  - assert (HS : INR (S c) <= 2 ^ 53) by (apply (INR_le_pow (S c) 53); lia).
    assert (E1 : FR acc + FR 1%float = INR (S c)) by (rewrite Ea, FR_one, S_INR; reflexivity).
    destruct (fadd_bounded acc 1%float (bpow radix2 53) Fa ffin_one) as [F1 V1].
    + apply fmt64_bpow. lia.
    + apply bpow_lt. lia.
    + rewrite E1, bpow53, Rabs_pos_eq by apply pos_INR. exact HS.
    + rewrite E1 in V1. rewrite rnd64_id in V1.
      * replace (c + S m)%nat with (S c + m)%nat by lia. apply IH; [exact F1 | exact V1 | lia].
      * rewrite INR_IZR_INZ. destruct (Z.eq_dec (Z.of_nat (S c)) (2 ^ 53)) as [E|NE].
        -- rewrite E. change (IZR (2 ^ 53)) with (bpow radix2 53). apply fmt64_bpow. lia.
        -- apply fmt64_IZR. lia.
Qed.

Lemma wsum_uniform (k : nat) : (Z.of_nat k <= 2 ^ 53)%Z ->
  ffin (osum FOps (repeat 1%float k)) /\ FR (osum FOps (repeat 1%float k)) = INR k.
Proof.
  intros H. unfold osum. cbn [FOps oadd o0].
  apply (fold_ones k 0%float 0%nat ffin_zero); [rewrite FR_zero; reflexivity | exact H].
Qed.

(* r = fl(1 / w_sum): finite, 2^-53 <= r <= 1, relative error u *)
Definition rinv (k : nat) : PrimFloat.float := fdiv 1%float (osum FOps (repeat 1%float k)).

Lemma rinv_spec (k : nat) : (0 < k)%nat -> (Z.of_nat k <= 2 ^ 53)%Z ->
  ffin (rinv k) /\ u64 <= FR (rinv k) <= 1 /\ Rabs (FR (rinv k) - / INR k) <= u64 * / INR k.
Proof.
  intros Hk Hb. destruct (wsum_uniform k Hb) as [Fw Ew].
  assert (Hk1 : 1 <= INR k) by (change 1 with (INR 1); apply le_INR; lia).
  assert (Hk2 : INR k <= 2 ^ 53) by (apply (INR_le_pow k 53); exact Hb).
  assert (Hi1 : / INR k <= 1) by (rewrite <- Rinv_1; apply Rinv_le_contravar; lra).
  assert (Hi2 : u64 <= / INR k).
  { rewrite u64_eq. apply Rinv_le_contravar; lra. }
  assert (Hi0 : 0 < / INR k) by (apply Rinv_0_lt_compat; lra).
  assert (Q : FR 1%float / FR (osum FOps (repeat 1%float k)) = / INR k).
  { rewrite FR_one, Ew. unfold Rdiv. lra. }
  destruct (fdiv_small 1%float (osum FOps (repeat 1%float k)) ffin_one Fw) as [Fr Er].
  - rewrite Ew. lra.
  - rewrite Q, Rabs_pos_eq; lra.
  - fold (rinv k) in Fr, Er. rewrite Q in Er. split; [exact Fr|]. split.
    + rewrite Er. split.
      * rewrite <- (rnd64_id u64) by (apply fmt64_bpow; lia). apply rnd64_le. exact Hi2.
      * rewrite <- (rnd64_id 1) by (change 1 with (bpow radix2 0); apply fmt64_bpow; lia).
        apply rnd64_le. exact Hi1.
    + rewrite Er. pose proof (rnd64_err_normal (/ INR k)) as G.
      rewrite (Rabs_pos_eq (/ INR k)) in G by lra. apply G.
      apply Rle_trans with u64; [|exact Hi2]. apply bpow_le. lia.
Qed.

(* ------------------------------------------------------------------------------------------ *)
(* 1. the regressor                                                                            *)
(* ------------------------------------------------------------------------------------------ *)
Lemma calc_weights_uniform {T} (O : Ops T) (ds : list T) :
  calc_weights O Uniform ds = repeat O.(o1) (length ds).
Proof. reflexivity. Qed.

Lemma combine_repeat_map {A B} (l : list A) (b : B) :
  combine l (repeat b (length l)) = map (fun a => (a, b)) l.
Proof. induction l as [|a l IH]; cbn [length repeat combine map]; [reflexivity|]. rewrite IH. reflexivity. Qed.

Lemma fold_left_map {A B C} (f : A -> C -> A) (g : B -> C) (l : list B) : forall a,
  fold_left f (map g l) a = fold_left (fun a b => f a (g b)) l a.
Proof. induction l as [|b l IH]; intros a; cbn [map fold_left]; [reflexivity|]. apply IH. Qed.

(* the regressor's value, unfolded: the float sum of the terms fl(y_i * r) *)
Lemma reg_mean_uniform_F (y : list PrimFloat.float) (sr : list (nat * PrimFloat.float)) :
  reg_mean FOps y Uniform sr =
  fsum (map (fun p : nat * PrimFloat.float => fmul (nth (fst p) y 0%float) (rinv (length sr))) sr).
Proof.
  unfold reg_mean. rewrite calc_weights_uniform, map_length, combine_repeat_map.
  unfold fsum. rewrite !fold_left_map. cbn [FOps oadd omul odiv o0 o1 fst snd]. reflexivity.
Qed.

Lemma Rsuml_scale (c : R) (l : list R) : Rsuml (map (fun v => v * c) l) = Rsuml l * c.
Proof. induction l as [|a l IH]; cbn [map Rsuml fold_right]; [lra|]. fold (Rsuml (map (fun v => v * c) l)) (Rsuml l). rewrite IH. lra. Qed.
Lemma Rsumabs_scale (c : R) (l : list R) : 0 <= c -> Rsumabs (map (fun v => v * c) l) = Rsumabs l * c.
Proof.
  intros Hc. induction l as [|a l IH]; cbn [map Rsumabs fold_right]; [lra|].
  fold (Rsumabs (map (fun v => v * c) l)) (Rsumabs l). rewrite IH, Rabs_mult, (Rabs_pos_eq c) by exact Hc. lra.
Qed.

Theorem regressor_uniform_mean_float_error (y : list PrimFloat.float) (sr : list (nat * PrimFloat.float)) :
  let k := length sr in
  let ys := map (fun p : nat * PrimFloat.float => nth (fst p) y 0%float) sr in
  (Z.of_nat k < 2 ^ 53)%Z -> ffin (reg_mean FOps y Uniform sr) ->
  Forall ffin ys /\
  reg_mean FOps y Uniform sr = fsum (map (fun v => fmul v (rinv k)) ys) /\
  Rabs (FR (reg_mean FOps y Uniform sr) - Rsuml (map FR ys) / INR k) <=
    ((1 + u64) ^ (k + 1) - 1) * (Rsumabs (map FR ys) / INR k + INR k * eta64) + INR k * eta64.
Proof.
  intros k ys Hk Hfin. rewrite reg_mean_uniform_F in Hfin |- *. fold k in Hfin |- *.
  assert (EQ : map (fun p : nat * PrimFloat.float => fmul (nth (fst p) y 0%float) (rinv k)) sr =
               map (fun v => fmul v (rinv k)) ys) by (unfold ys; rewrite map_map; reflexivity).
  rewrite EQ in Hfin |- *.
  assert (Lys : length ys = k) by (unfold ys; rewrite map_length; reflexivity).
  destruct (Nat.eq_dec k 0) as [K0|K0].
  { destruct ys; [|cbn in Lys; lia]. split; [constructor|]. split; [reflexivity|].
    cbn [map fsum fold_left Rsuml Rsumabs fold_right]. rewrite FR_zero, K0. cbn [INR]. unfold Rdiv.
    rewrite !Rmult_0_l, !Rplus_0_r, Rmult_0_r, Rminus_0_r, Rabs_R0. lra. }
  destruct (rinv_spec k) as (Fr & (Hr1 & Hr2) & Er); [lia | lia |].
  pose proof u64_pos as Hu. pose proof eta64_pos as Heta.
  assert (Hk1 : 1 <= INR k) by (change 1 with (INR 1); apply le_INR; lia).
  assert (Hi0 : 0 < / INR k) by (apply Rinv_0_lt_compat; lra).
  assert (Hall : Forall ffin ys).
  { pose proof (proj2 (fold_fadd_finite_acc _ _ Hfin)) as HF. rewrite Forall_map in HF.
    eapply Forall_impl; [|exact HF]. intros v Hv. cbn beta in Hv. exact (proj1 (fmul_finite _ _ Hv)). }
  split; [exact Hall|]. split; [reflexivity|].
  pose proof (fsum_error_signed 2 eta64 (Rlt_le _ _ Heta) (map (fun v => fmul v (rinv k)) ys)
                (map (fun v => v * / INR k) (map FR ys))) as G.
  rewrite !map_length, Lys in G. rewrite Rsuml_scale, Rsumabs_scale in G by lra.
  replace (2 + k - 1)%nat with (k + 1)%nat in G by lia. unfold Eu in G at 1. unfold Rdiv.
  apply G; [|exact Hfin]. clear G Hfin EQ Hall Lys.
  induction ys as [|v ys IH]; cbn [map]; constructor; [|exact IH].
  intros Hv. pose proof (fmul_error _ _ Hv) as E1.
  (* |fl(v r) - v r| <= u |v r| + eta, |v r - v/k| <= u |v|/k *)
  assert (E2 : Rabs (FR v * FR (rinv k) - FR v * / INR k) <= u64 * (Rabs (FR v) * / INR k)).
  { replace (FR v * FR (rinv k) - FR v * / INR k) with (FR v * (FR (rinv k) - / INR k)) by ring.
    rewrite Rabs_mult. pose proof (Rabs_pos (FR v)). nra. }
  assert (E3 : Rabs (FR v * FR (rinv k)) <= (1 + u64) * (Rabs (FR v) * / INR k)).
  { replace (FR v * FR (rinv k)) with ((FR v * FR (rinv k) - FR v * / INR k) + FR v * / INR k) by ring.
    eapply Rle_trans; [apply Rabs_triang|]. rewrite (Rabs_mult (FR v) (/ INR k)), (Rabs_pos_eq (/ INR k)) by lra. lra. }
  rewrite (Rabs_mult (FR v) (/ INR k)), (Rabs_pos_eq (/ INR k)) by lra.
  replace (FR (fmul v (rinv k)) - FR v * / INR k)
    with ((FR (fmul v (rinv k)) - FR v * FR (rinv k)) + (FR v * FR (rinv k) - FR v * / INR k)) by ring.
  eapply Rle_trans; [apply Rabs_triang|]. unfold Eu. cbn [pow].
  pose proof (Rabs_pos (FR v)). assert (0 <= Rabs (FR v) * / INR k) by nra. nra.
Qed.

(* ------------------------------------------------------------------------------------------ *)
(* 2. the classifier under uniform weights                                                     *)
(* ------------------------------------------------------------------------------------------ *)
Local Close Scope R_scope.

Lemma updT_len {T} (l : list T) i x : length (updT l i x) = length l.
Proof. revert i. induction l as [|a l IH]; intros [|i]; cbn [updT length]; auto. Qed.
Lemma nth_updT_eq {T} (l : list T) i x d : i < length l -> nth i (updT l i x) d = x.
Proof. revert i. induction l as [|a l IH]; intros [|i] H; cbn [updT nth length] in *; try lia; auto. apply IH. lia. Qed.
Lemma nth_updT_neq {T} (l : list T) i j x d : i <> j -> nth j (updT l i x) d = nth j l d.
Proof.
  revert i j. induction l as [|a l IH]; intros [|i] [|j] H; cbn [updT nth]; try reflexivity; try lia.
  apply IH. lia.
Qed.
Lemma nth_updT_out {T} (l : list T) i x : length l <= i -> updT l i x = l.
Proof. revert i. induction l as [|a l IH]; intros [|i] H; cbn [updT length] in *; try reflexivity; try lia. f_equal. apply IH. lia. Qed.
Lemma updT_map {A B} (g : A -> B) (l : list A) i x : updT (map g l) i (g x) = map g (updT l i x).
Proof. revert i. induction l as [|a l IH]; intros [|i]; cbn [updT map]; try reflexivity. f_equal. apply IH. Qed.
Lemma updT_Forall {T} (P : T -> Prop) (l : list T) i x : Forall P l -> P x -> Forall P (updT l i x).
Proof.
  intros H Hx. revert i. induction H as [|a l Ha Hl IH]; intros [|i]; cbn [updT]; constructor; auto.
Qed.

Lemma map_repeat_ {A B} (g : A -> B) a n : map g (repeat a n) = repeat (g a) n.
Proof. induction n as [|n IH]; cbn [repeat map]; [reflexivity|]. rewrite IH. reflexivity. Qed.

(* the integer vote: counts instead of scores, same loop, same strict `<` *)
Definition vote_step_count (y : list nat) (st : list nat * nat * nat) (i : nat) : list nat * nat * nat :=
  let '(c, max_c, max_i) := st in
  let yi := nth i y 0 in
  let c' := updT c yi (S (nth yi c 0)) in
  if max_c <? nth yi c' 0 then (c', nth yi c' 0, yi) else (c', max_c, max_i).
Definition vote_count (ncl : nat) (y : list nat) (idxs : list nat) : nat :=
  let '(_, _, max_i) := fold_left (vote_step_count y) idxs (repeat 0 ncl, 0, 0) in max_i.

Section VoteGeneric.
  Context {T : Type} (O : Ops T).

  (* the score of a class after m votes *)
  Fixpoint gsc (r : T) (m : nat) : T :=
    match m with 0 => O.(o0) | S m' => O.(oadd) (gsc r m') r end.

  Definition vote_step_T (y : list nat) (r : T) (st : list T * T * nat) (i : nat) : list T * T * nat :=
    let '(c, max_c, max_i) := st in
    let yi := nth i y 0 in
    let c' := updT c yi (O.(oadd) (nth yi c O.(o0)) r) in
    if O.(oltb) max_c (nth yi c' O.(o0)) then (c', nth yi c' O.(o0), yi) else (c', max_c, max_i).

  Lemma clf_vote_uniform_fold ncl y (sr : list (nat * T)) :
    clf_vote O ncl y Uniform sr =
    let r := O.(odiv) O.(o1) (osum O (repeat O.(o1) (length sr))) in
    let '(_, _, max_i) := fold_left (vote_step_T y r) (map fst sr) (repeat O.(o0) ncl, O.(o0), 0) in max_i.
  Proof.
    unfold clf_vote. rewrite calc_weights_uniform, map_length, combine_repeat_map, !fold_left_map.
    cbv zeta. unfold vote_step_T. cbn [fst snd]. reflexivity.
  Qed.

  Variables (r : T) (k : nat).
  Hypothesis Hmono : forall a b, a <= k -> b <= k -> O.(oltb) (gsc r a) (gsc r b) = (a <? b).

  Lemma vote_sim y (l : list nat) : forall cN mN iN t,
    Forall (fun a => a <= t) cN -> mN <= t -> t + length l <= k ->
    fold_left (vote_step_T y r) l (map (gsc r) cN, gsc r mN, iN) =
    let '(cN', mN', iN') := fold_left (vote_step_count y) l (cN, mN, iN) in (map (gsc r) cN', gsc r mN', iN').
  Proof.
    induction l as [|i l IH]; intros cN mN iN t Hc Hm Ht; cbn [fold_left length] in *; [reflexivity|].
    set (yi := nth i y 0).
    assert (Hn : nth yi cN 0 <= t).
    { destruct (Nat.lt_ge_cases yi (length cN)) as [L|L].
      - rewrite Forall_forall in Hc. apply Hc, nth_In, L.
      - rewrite nth_overflow by exact L. lia. }
    set (cN' := updT cN yi (S (nth yi cN 0))).
    assert (Hc' : Forall (fun a => a <= S t) cN').
    { apply updT_Forall; [|lia]. eapply Forall_impl; [|exact Hc]. intros a Ha. cbn beta in *. lia. }
    assert (Hn' : nth yi cN' 0 <= S t).
    { destruct (Nat.lt_ge_cases yi (length cN')) as [L|L].
      - rewrite Forall_forall in Hc'. apply Hc', nth_In, L.
      - rewrite nth_overflow by exact L. lia. }
    assert (E1 : nth yi (map (gsc r) cN) O.(o0) = gsc r (nth yi cN 0)) by (exact (map_nth (gsc r) cN 0 yi)).
    assert (E2 : updT (map (gsc r) cN) yi (O.(oadd) (nth yi (map (gsc r) cN) O.(o0)) r) = map (gsc r) cN').
    { rewrite E1. change (O.(oadd) (gsc r (nth yi cN 0)) r) with (gsc r (S (nth yi cN 0))). apply updT_map. }
    assert (E3 : nth yi (map (gsc r) cN') O.(o0) = gsc r (nth yi cN' 0)) by (exact (map_nth (gsc r) cN' 0 yi)).
    unfold vote_step_T at 2, vote_step_count at 2. fold yi. rewrite E2. fold cN'. rewrite E3.
    rewrite Hmono by lia.
    destruct (mN <? nth yi cN' 0); apply (IH _ _ _ (S t)); try assumption; lia.
  Qed.

  Lemma vote_generic ncl y (idxs : list nat) : length idxs <= k ->
    (let '(_, _, max_i) := fold_left (vote_step_T y r) idxs (repeat O.(o0) ncl, O.(o0), 0) in max_i) =
    vote_count ncl y idxs.
  Proof.
    intros Hk. unfold vote_count.
    change (repeat O.(o0) ncl) with (repeat (gsc r 0) ncl). rewrite <- (map_repeat_ (gsc r) 0 ncl).
    change O.(o0) with (gsc r 0) at 1.
    rewrite (vote_sim y idxs (repeat 0 ncl) 0 0 0); try lia.
    - destruct (fold_left (vote_step_count y) idxs (repeat 0 ncl, 0, 0)) as [[c m] i]. reflexivity.
    - apply Forall_forall. intros a Ha. apply repeat_spec in Ha. lia.
  Qed.
End VoteGeneric.

(* what the integer vote returns: a class with the maximal number of votes *)
Definition labels_of (y : list nat) (idxs : list nat) : list nat := map (fun i => nth i y 0) idxs.

Lemma vote_count_inv ncl y (l : list nat) : forall c m i (done : list nat),
  length c = ncl ->
  (forall j, nth j c 0 = count_occ Nat.eq_dec done j) ->
  nth i c 0 = m -> (forall j, nth j c 0 <= m) ->
  Forall (fun x => nth x y 0 < ncl) l ->
  let '(c', m', i') := fold_left (vote_step_count y) l (c, m, i) in
  forall j, count_occ Nat.eq_dec (done ++ labels_of y l) j <= count_occ Nat.eq_dec (done ++ labels_of y l) i'.
Proof.
  induction l as [|x l IH]; intros c m i done Lc Hcnt Hm Hmax HF; cbn [fold_left labels_of map].
  - rewrite app_nil_r. intros j. rewrite <- !Hcnt, Hm. apply Hmax.
  - apply Forall_cons_iff in HF as [Hx HF']. set (yi := nth x y 0) in *.
    unfold vote_step_count at 2. fold yi.
    set (c' := updT c yi (S (nth yi c 0))).
    assert (Lc' : length c' = length c) by apply updT_len.
    assert (Hn' : nth yi c' 0 = S (nth yi c 0)) by (apply nth_updT_eq; rewrite Lc; exact Hx).
    assert (Hcnt' : forall j, nth j c' 0 = count_occ Nat.eq_dec (done ++ [yi]) j).
    { intros j. rewrite count_occ_app. cbn [count_occ]. destruct (Nat.eq_dec yi j) as [<-|NE].
      - rewrite Hn', Hcnt. lia.
      - unfold c'. rewrite nth_updT_neq by exact NE. rewrite Hcnt. lia. }
    assert (EQ : done ++ yi :: labels_of y l = (done ++ [yi]) ++ labels_of y l) by (rewrite <- app_assoc; reflexivity).
    fold (labels_of y l). rewrite EQ.
    destruct (m <? nth yi c' 0) eqn:B.
    + apply Nat.ltb_lt in B. apply IH; try assumption; [lia | reflexivity |].
      intros j. destruct (Nat.eq_dec yi j) as [<-|NE]; [lia|].
      unfold c' at 1. rewrite nth_updT_neq by exact NE. specialize (Hmax j). lia.
    + apply Nat.ltb_ge in B. apply IH; try assumption; [lia | |].
      * destruct (Nat.eq_dec yi i) as [E|NE].
        -- exfalso. rewrite <- E in Hm. lia.
        -- unfold c'. rewrite nth_updT_neq by exact NE. exact Hm.
      * intros j. destruct (Nat.eq_dec yi j) as [<-|NE]; [lia|].
        unfold c'. rewrite nth_updT_neq by exact NE. apply Hmax.
Qed.

Lemma nth_repeat0 ncl j : nth j (repeat 0 ncl) 0 = 0.
Proof. revert j. induction ncl as [|n IH]; intros [|j]; cbn [repeat nth]; auto. Qed.

(* the integer vote returns a plurality class of the neighbours' labels; if the plurality is strict,
   THE plurality class *)
Theorem vote_count_plurality ncl y (idxs : list nat) :
  Forall (fun x => nth x y 0 < ncl) idxs ->
  let c := vote_count ncl y idxs in
  (forall j, count_occ Nat.eq_dec (labels_of y idxs) j <= count_occ Nat.eq_dec (labels_of y idxs) c) /\
  (forall cs, (forall j, j <> cs -> count_occ Nat.eq_dec (labels_of y idxs) j < count_occ Nat.eq_dec (labels_of y idxs) cs) ->
              c = cs).
Proof.
  intros HF. cbv zeta.
  assert (H : forall j, count_occ Nat.eq_dec (labels_of y idxs) j <=
                        count_occ Nat.eq_dec (labels_of y idxs) (vote_count ncl y idxs)).
  { unfold vote_count.
    pose proof (vote_count_inv ncl y idxs (repeat 0 ncl) 0 0 [] (repeat_length 0 ncl)) as G.
    destruct (fold_left (vote_step_count y) idxs (repeat 0 ncl, 0, 0)) as [[c' m'] i'].
    cbn [app] in G. apply G; try assumption.
    - intros j. apply nth_repeat0.
    - apply nth_repeat0.
    - intros j. rewrite nth_repeat0. lia. }
  split; [exact H|]. intros cs Hs.
  destruct (Nat.eq_dec (vote_count ncl y idxs) cs) as [E|NE]; [exact E|].
  specialize (Hs _ NE). specialize (H cs). lia.
Qed.

(* ---------------- the exact instance ---------------- *)
Local Open Scope R_scope.

Lemma gsc_R (r : R) m : gsc ROps r m = INR m * r.
Proof. induction m as [|m IH]; [cbn; lra|]. cbn [gsc]. rewrite IH, S_INR. cbn [ROps oadd]. lra. Qed.

Theorem classifier_uniform_vote_exact ncl y (sr : list (nat * R)) :
  clf_vote ROps ncl y Uniform sr = vote_count ncl y (map fst sr).
Proof.
  rewrite clf_vote_uniform_fold. cbv zeta.
  destruct sr as [|p sr]; [reflexivity|].
  set (k := length (p :: sr)). set (r := odiv ROps (o1 ROps) (osum ROps (repeat (o1 ROps) k))).
  apply (vote_generic ROps r k); [|unfold k; rewrite map_length; lia].
  assert (Hr : 0 < r).
  { unfold r, osum. cbn [ROps odiv o1 oadd o0].
    assert (E : forall m a, fold_left Rplus (repeat 1 m) a = a + INR m).
    { induction m as [|m IH]; intros a; cbn [repeat fold_left]; [cbn; lra|]. rewrite IH, S_INR. lra. }
    rewrite E, Rplus_0_l. unfold k. cbn [length]. rewrite S_INR. pose proof (pos_INR (length sr)).
    apply Rdiv_lt_0_compat; lra. }
  intros a b _ _. rewrite !gsc_R. cbn [ROps oltb]. destruct (Nat.ltb_spec a b) as [L|L].
  - apply Rltb_true. apply lt_INR in L. nra.
  - apply Rltb_false. apply le_INR in L. nra.
Qed.

(* ---------------- the binary64 instance ---------------- *)
Lemma pow1u_bound (m : nat) : (1 + u64) ^ m * (1 - INR m * u64) <= 1.
Proof.
  pose proof u64_pos as Hu. induction m as [|m IH]; [cbn; lra|].
  rewrite S_INR. cbn [pow]. pose proof (pos_INR m) as Hm.
  assert (P : 0 <= (1 + u64) ^ m) by (apply pow_le; lra).
  assert ((1 + u64) * (1 - (INR m + 1) * u64) <= 1 - INR m * u64) by nra.
  nra.
Qed.

Lemma pow1u_le_43 (m : nat) : INR m * u64 <= / 4 -> 1 <= (1 + u64) ^ m <= 4 / 3.
Proof.
  intros H. pose proof u64_pos as Hu. pose proof (pow1u_bound m) as G.
  assert (P : 1 <= (1 + u64) ^ m) by (apply pow_R1_Rle; lra).
  split; [exact P|]. nra.
Qed.

Section GF.
  Variables (r : PrimFloat.float) (k : nat).
  Hypothesis Fr : ffin r.
  Hypothesis Hr : u64 <= FR r <= 1.
  Hypothesis Hk : INR k * u64 <= / 4.
  Notation g := (gsc FOps r).

  Lemma ku_le m : (m <= k)%nat -> INR m * u64 <= / 4.
  Proof. intros H. apply le_INR in H. pose proof u64_pos. nra. Qed.

  Lemma gF_step m : (S m <= k)%nat -> ffin (g m) -> 0 <= FR (g m) <= INR m * FR r * (1 + u64) ^ m ->
    ffin (g (S m)) /\ 0 <= FR (g (S m)) <= INR (S m) * FR r * (1 + u64) ^ (S m) /\ FR (g m) < FR (g (S m)).
  Proof.
    intros Hm Fg Bg. pose proof u64_pos as Hu. pose proof u64_lt_1 as Hu1.
    pose proof (pow1u_le_43 m (ku_le m ltac:(lia))) as [P1 P2].
    pose proof (ku_le m ltac:(lia)) as Hmu. pose proof (pos_INR m) as Hm0.
    set (G := FR (g m)) in *. set (Rr := FR r) in *. set (P := (1 + u64) ^ m) in *.
    assert (HG : G <= 4 / 3 * (INR m * Rr)) by nra.
    assert (Hm53 : INR m <= 2 ^ 51).
    { rewrite u64_eq in Hmu. apply (Rmult_le_compat_r (2 ^ 53)) in Hmu; [|lra].
      rewrite Rmult_assoc, Rinv_l in Hmu by lra. lra. }
    cbn [gsc]. cbn [FOps oadd].
    destruct (fadd_bounded (g m) r (bpow radix2 53) Fg Fr) as [F1 V1].
    - apply fmt64_bpow. lia.
    - apply bpow_lt. lia.
    - fold G Rr. rewrite bpow53, Rabs_pos_eq by lra. nra.
    - split; [exact F1|]. fold G Rr in V1. rewrite V1.
      pose proof (rnd64_add_err (FR (g m)) (FR r) (fmt64_FR _) (fmt64_FR _)) as E. fold G Rr in E.
      rewrite (Rabs_pos_eq (G + Rr)) in E by lra. apply Rabs_le_inv in E.
      rewrite S_INR. cbn [pow]. fold P. split; [split|].
      + apply rnd64_ge_0. lra.
      + assert (rnd64 (G + Rr) <= (1 + u64) * (G + Rr)) by lra.
        assert (G + Rr <= (INR m + 1) * Rr * P) by nra.
        nra.
      + assert ((1 - u64) * (G + Rr) <= rnd64 (G + Rr)) by lra.
        assert (u64 * G <= Rr / 3) by nra.
        assert (u64 <= / 4) by (rewrite u64_eq; apply Rinv_le_contravar; lra).
        nra.
  Qed.

  Lemma gF_all m : (m <= k)%nat -> ffin (g m) /\ 0 <= FR (g m) <= INR m * FR r * (1 + u64) ^ m.
  Proof.
    induction m as [|m IH]; intros Hm.
    - cbn [gsc FOps o0 INR pow]. rewrite FR_zero. split; [exact ffin_zero | lra].
    - destruct (IH ltac:(lia)) as [F B]. destruct (gF_step m Hm F B) as (F' & B' & _). split; assumption.
  Qed.

  Lemma gF_lt a b : (a < b)%nat -> (b <= k)%nat -> FR (g a) < FR (g b).
  Proof.
    induction 1 as [|b Hab IH]; intros Hb.
    - destruct (gF_all a ltac:(lia)) as [F B]. exact (proj2 (proj2 (gF_step a Hb F B))).
    - destruct (gF_all b ltac:(lia)) as [F B]. pose proof (proj2 (proj2 (gF_step b Hb F B))). specialize (IH ltac:(lia)). lra.
  Qed.

  Lemma gF_mono a b : (a <= k)%nat -> (b <= k)%nat -> PrimFloat.ltb (g a) (g b) = (a <? b)%nat.
  Proof.
    intros Ha Hb. rewrite (fltb_finite _ _ (proj1 (gF_all a Ha)) (proj1 (gF_all b Hb))).
    destruct (Nat.ltb_spec a b) as [L|L].
    - apply Rlt_bool_true. apply gF_lt; assumption.
    - apply Rlt_bool_false. destruct (Nat.eq_dec a b) as [->|NE]; [lra|].
      apply Rlt_le. apply gF_lt; [lia | exact Ha].
  Qed.
End GF.

Lemma k51_u (k : nat) : (Z.of_nat k <= 2 ^ 51)%Z -> INR k * u64 <= / 4.
Proof.
  intros H. pose proof (INR_le_pow k 51 H) as G. rewrite u64_eq.
  replace (/ 4) with (2 ^ 51 * / 2 ^ 53) by (change (2 ^ 53) with (2 ^ (51 + 2)%nat); rewrite pow_add; field; apply pow_nonzero; lra).
  apply Rmult_le_compat_r; [|exact G]. apply Rlt_le, Rinv_0_lt_compat, pow_lt. lra.
Qed.

(* the binary64 vote is the integer vote: same winner, same tie-breaking *)
Theorem classifier_uniform_vote_float_count ncl y (sr : list (nat * PrimFloat.float)) :
  (Z.of_nat (length sr) <= 2 ^ 51)%Z ->
  clf_vote FOps ncl y Uniform sr = vote_count ncl y (map fst sr).
Proof.
  intros Hk. rewrite clf_vote_uniform_fold. cbv zeta.
  destruct sr as [|p sr]; [reflexivity|].
  set (k := length (p :: sr)) in *.
  change (odiv FOps (o1 FOps) (osum FOps (repeat (o1 FOps) k))) with (rinv k).
  destruct (rinv_spec k) as (Fr & Hr & _); [unfold k; cbn [length]; lia | lia |].
  apply (vote_generic FOps (rinv k) k); [|unfold k; rewrite map_length; lia].
  apply (gF_mono (rinv k) k Fr Hr (k51_u k Hk)).
Qed.

(* the statement of the target: arg-max of the float scores = plurality of the labels; and the float
   vote equals the exact vote on every neighbour list with the same indices *)
Theorem classifier_uniform_vote_float ncl y (sr : list (nat * PrimFloat.float)) :
  (Z.of_nat (length sr) <= 2 ^ 51)%Z ->
  (forall p, In p sr -> (nth (fst p) y 0 < ncl)%nat) ->
  let c := clf_vote FOps ncl y Uniform sr in
  let labels := labels_of y (map fst sr) in
  (forall j, (count_occ Nat.eq_dec labels j <= count_occ Nat.eq_dec labels c)%nat) /\
  (forall cs, (forall j, j <> cs -> (count_occ Nat.eq_dec labels j < count_occ Nat.eq_dec labels cs)%nat) -> c = cs) /\
  (forall srR : list (nat * R), map fst srR = map fst sr -> clf_vote ROps ncl y Uniform srR = c).
Proof.
  intros Hk Hy. cbv zeta. rewrite (classifier_uniform_vote_float_count ncl y sr Hk).
  assert (HF : Forall (fun x => (nth x y 0 < ncl)%nat) (map fst sr)).
  { apply Forall_forall. intros x Hx. apply in_map_iff in Hx as (p & <- & Hp). apply Hy, Hp. }
  destruct (vote_count_plurality ncl y (map fst sr) HF) as [A B].
  split; [exact A|]. split; [exact B|].
  intros srR E. rewrite classifier_uniform_vote_exact, E. reflexivity.
Qed.
