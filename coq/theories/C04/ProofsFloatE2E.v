(* C04 — binary64 estimators END TO END on the exhaustive scan, uniform weights: the search theorem
   (ProofsFloatScan.knn_set_float_robust: under a separation margin the float scan returns the true
   k-nearest index set S) composed with the estimator theorems of ProofsFloat (regressor mean bound,
   classifier vote = integer vote).  The float result lists S in heap order, the statements are about S
   as a set: real sums and vote counts are invariant under permutation. *)
From Coq Require Import List Arith ZArith Bool Reals Floats Lra Lia Psatz Permutation.
From SC Require Import Base.FloatUtil Base.Num Base.FloatError C04.Model C04.Proofs_Linear
     C04.ProofsFloat C04.ProofsFloatScan.
Import ListNotations.
Local Open Scope R_scope.

Lemma Rsuml_perm l l' : Permutation l l' -> Rsuml l = Rsuml l'.
Proof.
  induction 1 as [|a l l' P IH|a b l|l l' l'' P IH P' IH']; cbn [Rsuml fold_right] in *; try lra.
  - fold (Rsuml l) (Rsuml l') in *. lra.
Qed.
Lemma Rsumabs_perm l l' : Permutation l l' -> Rsumabs l = Rsumabs l'.
Proof.
  induction 1 as [|a l l' P IH|a b l|l l' l'' P IH P' IH']; cbn [Rsumabs fold_right] in *; try lra.
  - fold (Rsumabs l) (Rsumabs l') in *. lra.
Qed.

(* the regressor: search + mean in binary64 against the exact mean over the true k-nearest set S *)
Theorem knn_regressor_float_end_to_end (dq : nat -> PrimFloat.float) (R_ e : nat -> R) (n k : nat) (S : list nat)
        (y : list PrimFloat.float) (dmax : PrimFloat.float) :
  NoDup S -> length S = k -> (1 <= k)%nat -> (Z.of_nat k < 2 ^ 53)%Z -> (forall s, In s S -> (s < n)%nat) ->
  (forall i, (i < n)%nat -> ffin (dq i) /\ Rabs (FR (dq i) - R_ i) <= e i) ->
  (forall s j, In s S -> (j < n)%nat -> ~ In j S -> e s + e j < R_ j - R_ s) ->
  exists v, reg_predict_row FOps dmax infinity (SLinear n) y Uniform k dq = Some v /\
    (ffin v ->
     let ys := map (fun s => FR (nth s y 0%float)) S in
     Forall (fun s => ffin (nth s y 0%float)) S /\
     Rabs (FR v - Rsuml ys / INR k) <=
       ((1 + u64) ^ (k + 1) - 1) * (Rsumabs ys / INR k + INR k * eta64) + INR k * eta64).
Proof.
  intros NS LS Hk1 Hk53 HSn Herr Hsep.
  destruct (knn_set_float_robust dq R_ e n k S NS LS Hk1 HSn Herr Hsep) as [(resF & EF & PF & _) _].
  exists (reg_mean FOps y Uniform resF). split.
  - unfold reg_predict_row, searcher_find. cbn [FOps oltb oleb]. rewrite EF. reflexivity.
  - intros Hfin. cbv zeta.
    assert (LF : length resF = k).
    { rewrite <- (map_length fst resF), <- (Permutation_length PF). exact LS. }
    pose proof (regressor_uniform_mean_float_error y resF) as G. cbv zeta in G. rewrite LF in G.
    destruct (G Hk53 Hfin) as (A & _ & B).
    assert (P1 : Permutation (map (fun s => nth s y 0%float) S)
                             (map (fun p : nat * PrimFloat.float => nth (fst p) y 0%float) resF)).
    { rewrite <- (map_map fst (fun s => nth s y 0%float) resF). apply Permutation_map. exact PF. }
    assert (P2 : Permutation (map (fun s => FR (nth s y 0%float)) S)
                             (map FR (map (fun p : nat * PrimFloat.float => nth (fst p) y 0%float) resF))).
    { rewrite <- (map_map (fun s => nth s y 0%float) FR S). apply Permutation_map. exact P1. }
    split.
    + apply Forall_forall. intros s Hs. rewrite Forall_forall in A. apply A.
      apply (Permutation_in _ P1). apply (in_map (fun s => nth s y 0%float)). exact Hs.
    + rewrite (Rsuml_perm _ _ P2), (Rsumabs_perm _ _ P2). exact B.
Qed.

(* the classifier: search + vote in binary64; the predicted class index is a plurality class of the labels
   of the true k-nearest set S, and when the plurality is strict the float classifier and the exact
   classifier (ROps, exact distances R_) predict the same class index *)
Theorem knn_classifier_float_end_to_end (dq : nat -> PrimFloat.float) (R_ e : nat -> R) (n k : nat) (S : list nat)
        (classes : list PrimFloat.float) (y : list nat) (dmax : PrimFloat.float) :
  NoDup S -> length S = k -> (1 <= k)%nat -> (Z.of_nat k <= 2 ^ 51)%Z -> (forall s, In s S -> (s < n)%nat) ->
  (forall s, In s S -> (nth s y 0 < length classes)%nat) ->
  (forall i, (i < n)%nat -> ffin (dq i) /\ Rabs (FR (dq i) - R_ i) <= e i) ->
  (forall s j, In s S -> (j < n)%nat -> ~ In j S -> e s + e j < R_ j - R_ s) ->
  let labels := labels_of y S in
  exists c, clf_predict_row FOps dmax infinity (SLinear n) classes y Uniform k dq = Some (nth c classes 0%float) /\
    (forall j, (count_occ Nat.eq_dec labels j <= count_occ Nat.eq_dec labels c)%nat) /\
    (forall cs, (forall j, j <> cs -> (count_occ Nat.eq_dec labels j < count_occ Nat.eq_dec labels cs)%nat) ->
       c = cs /\
       forall (classesR : list R) (dmaxR dinfR : R), length classesR = length classes ->
         (forall i, (i < n)%nat -> R_ i < dinfR) ->
         clf_predict_row ROps dmaxR dinfR (SLinear n) classesR y Uniform k R_ = Some (nth cs classesR 0)).
Proof.
  intros NS LS Hk1 Hk51 HSn Hy Herr Hsep labels.
  destruct (knn_set_float_robust dq R_ e n k S NS LS Hk1 HSn Herr Hsep) as [(resF & EF & PF & _) HR].
  assert (LF : length resF = k).
  { rewrite <- (map_length fst resF), <- (Permutation_length PF). exact LS. }
  assert (PL : forall res : list nat, Permutation S res ->
               forall j, count_occ Nat.eq_dec (labels_of y res) j = count_occ Nat.eq_dec labels j).
  { intros res P j. symmetry. apply (proj1 (Permutation_count_occ Nat.eq_dec _ _)).
    unfold labels, labels_of. apply Permutation_map. exact P. }
  assert (HF : forall res : list nat, Permutation S res -> Forall (fun x => (nth x y 0 < length classes)%nat) res).
  { intros res P. apply Forall_forall. intros x Hx. apply Hy. apply (Permutation_in _ (Permutation_sym P)). exact Hx. }
  exists (clf_vote FOps (length classes) y Uniform resF). split.
  - unfold clf_predict_row, searcher_find. cbn [FOps oltb oleb o0]. rewrite EF. reflexivity.
  - rewrite (classifier_uniform_vote_float_count _ y resF) by (rewrite LF; exact Hk51).
    destruct (vote_count_plurality (length classes) y (map fst resF) (HF _ PF)) as [A B]. split.
    + intros j. rewrite <- !(PL _ PF). apply A.
    + intros cs Hcs. split.
      * apply B. intros j Hj. rewrite !(PL _ PF). apply Hcs, Hj.
      * intros classesR dmaxR dinfR LC Hinf. destruct (HR dinfR Hinf) as (resR & ER & PR & _).
        unfold clf_predict_row, searcher_find. cbn [ROps oltb oleb o0]. rewrite ER. f_equal. f_equal.
        rewrite classifier_uniform_vote_exact, LC.
        destruct (vote_count_plurality (length classes) y (map fst resR) (HF _ PR)) as [_ B'].
        apply B'. intros j Hj. rewrite !(PL _ PR). apply Hcs, Hj.
Qed.
