(* C04 — correspondence interface: the model instantiated at binary64, run on literal inputs and on
   the implementation's own dumped cover trees, compared with what the implementation returned.
   Used by harness/src/bin/c04.rs through `Eval vm_compute`. *)
From Coq Require Import List ZArith Bool Floats.
From SC Require Import Base.FloatUtil Base.Num C04.Model C04.ModelBuild.
Import ListNotations.

Definition f64_max : float := 0x1.fffffffffffffp+1023%float.
Definition fltb := PrimFloat.ltb.
Definition fleb := PrimFloat.leb.

(* ---------- metrics (src/math/distance/*.rs), same operation order as the code ---------- *)
Definition euclid (x y : list float) : float :=
  PrimFloat.sqrt
    (fold_left (fun sum xy => let d := PrimFloat.sub (fst xy) (snd xy) in PrimFloat.add sum (PrimFloat.mul d d))
               (combine x y) 0%float).
Definition manhattan (x y : list float) : float :=
  fold_left (fun dist xy => PrimFloat.add dist (PrimFloat.abs (PrimFloat.sub (fst xy) (snd xy))))
            (combine x y) 0%float.
Definition hamming (x y : list float) : float :=
  let cnt := fold_left (fun c xy => if PrimFloat.eqb (fst xy) (snd xy) then c else S c) (combine x y) 0 in
  PrimFloat.div (float_of_nat cnt) (float_of_nat (length x)).

(* MTable: distances computed by the implementation's metric (Minkowski uses powf, which is not
   reproduced bit-exactly in Coq): query-to-point vector and point-to-point matrix *)
Inductive metric :=
| MEuclid | MManhattan | MHamming
| MTable (dqs : list float) (dpps : list (list float)).

Definition mdist (m : metric) (x y : list float) : float :=
  match m with
  | MEuclid => euclid x y | MManhattan => manhattan x y | MHamming => hamming x y
  | MTable _ _ => 0%float
  end.
Definition row (data : list (list float)) (i : nat) : list float := nth i data [].
(* CoverTree: distance(data[idx], p);  LinearKNNSearch: distance(from, data[i]) *)
Definition dq_cover (m : metric) (data : list (list float)) (q : list float) (i : nat) : float :=
  match m with MTable dqs _ => nth i dqs 0%float | _ => mdist m (row data i) q end.
Definition dq_linear (m : metric) (data : list (list float)) (q : list float) (i : nat) : float :=
  match m with MTable dqs _ => nth i dqs 0%float | _ => mdist m q (row data i) end.
Definition dpp_of (m : metric) (data : list (list float)) (i j : nat) : float :=
  match m with MTable _ t => nth j (nth i t []) 0%float | _ => mdist m (row data i) (row data j) end.

(* ---------- results ---------- *)
Definition res_eqb (a b : list (N * float)) : bool :=
  list_eqb (fun x y => N.eqb (fst x) (fst y) && feq (snd x) (snd y)) a b.
Definition to_res (r : option (list (nat * float))) : option (list (N * float)) :=
  option_map (map (fun x => (N.of_nat (fst x), snd x))) r.
Definition ores_eqb := option_eqb res_eqb.

(* ---------- HeapSelection<f64> ---------- *)
Definition fheap := heapsel float.
Definition fadd := hs_add fltb fleb 0%float.
(* with_capacity(k); add each element; peek after each add; final get() *)
Definition run_heap_adds (k : N) (adds : list float) : list float * list float :=
  let '(h, peeks) :=
      fold_left (fun hp x => let h' := fadd (fst hp) x in (h', snd hp ++ [hs_peek fltb 0%float h']))
                adds (with_capacity (N.to_nat k), []) in
  (hs_get h, peeks).
Definition corr_heap_adds (k : N) (adds exp_heap exp_peeks : list float) : bool :=
  let '(h, p) := run_heap_adds k adds in flist_eq h exp_heap && flist_eq p exp_peeks.
(* fill with `init` (k = |init|), then for each x: *peek_mut() = x; heapify(); record the array *)
Definition run_heap_replace (init ops : list float) : list (list float) :=
  let h0 := fold_left fadd init (with_capacity (length init)) in
  snd (fold_left (fun hp x => let h' := hs_heapify fltb fleb 0%float (hs_set_root (fst hp) x) in
                              (h', snd hp ++ [hs_get h']))
                 ops (h0, [hs_get h0])).
Definition corr_heap_replace (init ops : list float) (exp : list (list float)) : bool :=
  fmat_eq (run_heap_replace init ops) exp.

(* ---------- LinearKNNSearch ---------- *)
Definition run_linear_find m data q (k : N) :=
  to_res (linear_find fltb fleb infinity (dq_linear m data q) (length data) (N.to_nat k)).
Definition corr_linear_find m data q k (exp : option (list (N * float))) : bool :=
  ores_eqb (run_linear_find m data q k) exp.
Definition run_linear_radius m data q (r : float) :=
  to_res (linear_find_radius fleb 0%float (dq_linear m data q) (length data) r).
Definition corr_linear_radius m data q r (exp : option (list (N * float))) : bool :=
  ores_eqb (run_linear_radius m data q r) exp.

(* ---------- CoverTree on the implementation's dumped tree ---------- *)
Inductive jtree := J (idx : N) (max_dist : float) (children : list jtree).
Fixpoint of_j (t : jtree) : ctree float :=
  match t with J i m cs => Node (N.to_nat i) m (map of_j cs) end.

Definition run_cover_find m data (t : jtree) q (k : N) :=
  to_res (cover_find fltb fleb PrimFloat.add f64_max 0%float (dq_cover m data q) (of_j t)
                     (length data) (N.to_nat k)).
Definition corr_cover_find m data t q k (exp : option (list (N * float))) : bool :=
  ores_eqb (run_cover_find m data t q k) exp.
Definition run_cover_radius m data (t : jtree) q (r : float) :=
  to_res (cover_find_radius fleb PrimFloat.add 0%float (dq_cover m data q) (of_j t) r).
Definition corr_cover_radius m data t q r (exp : option (list (N * float))) : bool :=
  ores_eqb (run_cover_radius m data t q r) exp.

(* the hypothesis of the exactness theorems, on the dumped tree *)
Definition corr_wf m data (t : jtree) : bool :=
  wf_root fleb (dpp_of m data) (length data) (of_j t).

(* ---------- estimators ---------- *)
Definition searcher_of (n : nat) (t : option jtree) : searcher :=
  match t with None => SLinear n | Some t => SCover n (of_j t) end.
Definition dq_of (t : option jtree) m data q :=
  match t with None => dq_linear m data q | Some _ => dq_cover m data q end.
Definition wcode (w : N) : weightfn := if N.eqb w 0 then Uniform else DistanceW.

(* classes / y indices as fit computes them from the labels *)
Definition corr_clf_fit (labels : list float) (exp_classes : list float) (exp_y : list N) : bool :=
  let classes := unique FOps labels in
  flist_eq classes exp_classes
  && nlist_eqb (map (fun l => N.of_nat (position FOps l classes)) labels) exp_y.

(* predictions for a batch of query rows; `tree` = the tree inside the fitted estimator (None: linear).
   For MTable the query distances differ per query, so the harness passes one metric per query. *)
Definition corr_clf_predict (ms : list metric) data (t : option jtree) (classes : list float)
           (y : list N) (w k : N) (qs : list (list float)) (exp : list (option float)) : bool :=
  list_eqb (option_eqb feq)
    (map (fun mq => clf_predict_row FOps f64_max infinity (searcher_of (length data) t) classes
                      (map N.to_nat y) (wcode w) (N.to_nat k) (dq_of t (fst mq) data (snd mq)))
         (combine ms qs)) exp.
Definition corr_reg_predict (ms : list metric) data (t : option jtree) (y : list float)
           (w k : N) (qs : list (list float)) (exp : list (option float)) : bool :=
  list_eqb (option_eqb feq)
    (map (fun mq => reg_predict_row FOps f64_max infinity (searcher_of (length data) t) y
                      (wcode w) (N.to_nat k) (dq_of t (fst mq) data (snd mq)))
         (combine ms qs)) exp.
Definition corr_fit_ok (clf : bool) (x_n y_n k : N) (exp : bool) : bool :=
  Bool.eqb (if clf then clf_fit_ok (N.to_nat x_n) (N.to_nat y_n) (N.to_nat k)
            else reg_fit_ok (N.to_nat x_n) (N.to_nat y_n) (N.to_nat k)) exp.

(* ---------- batched variants: one data set / tree, several queries ---------- *)
Definition fq := (list float * N * option (list (N * float)))%type.        (* query, k, expected *)
Definition fr := (list float * float * option (list (N * float)))%type.    (* query, radius, expected *)
(* for MTable the table of query distances changes with the query: (metric, query) pairs *)
Definition corr_cover_find_many (ms : list metric) data t (qs : list fq) : bool :=
  forallb (fun mq : metric * fq =>
             let '(m, (q, k, e)) := mq in corr_cover_find m data t q k e) (combine ms qs).
Definition corr_linear_find_many (ms : list metric) data (qs : list fq) : bool :=
  forallb (fun mq : metric * fq =>
             let '(m, (q, k, e)) := mq in corr_linear_find m data q k e) (combine ms qs).
Definition corr_cover_radius_many (ms : list metric) data t (qs : list fr) : bool :=
  forallb (fun mq : metric * fr =>
             let '(m, (q, r, e)) := mq in corr_cover_radius m data t q r e) (combine ms qs).
Definition corr_linear_radius_many (ms : list metric) data (qs : list fr) : bool :=
  forallb (fun mq : metric * fr =>
             let '(m, (q, r, e)) := mq in corr_linear_radius m data q r e) (combine ms qs).

(* ---------- CoverTree::new: the construction model against the implementation's dumped tree ---------- *)
(* get_cover_radius(s) = 1.3f64.powf(s) and the rounded logarithm ceil(ln d / ln 1.3) inside get_scale are
   passed as finite tables (powf / ln are not reproduced in Coq): `rtab` lists radius(lo), radius(lo+1), ...
   as the implementation's get_cover_radius returns them (cfg hook); `stab` maps every positive pairwise
   distance of the data set to its rounded logarithm.  A lookup outside a table yields nan / 0, which
   makes the comparison fail rather than pass. *)
Definition i64_min : Z := (-9223372036854775808)%Z.
Definition tab_radius (lo : Z) (rtab : list float) (s : Z) : float :=
  if (s <? lo)%Z then nan else nth (Z.to_nat (s - lo)) rtab nan.
Definition tab_scale (stab : list (float * Z)) (d : float) : Z :=
  match find (fun e : float * Z => PrimFloat.eqb (fst e) d) stab with Some e => snd e | None => 0%Z end.
Fixpoint tree_eqb (a b : ctree float) : bool :=
  match a, b with
  | Node i m cs, Node j m' cs' =>
    Nat.eqb i j && feq m m' &&
    (fix go (l l' : list (ctree float)) : bool :=
       match l, l' with
       | [], [] => true
       | x :: t, y :: t' => tree_eqb x y && go t t'
       | _, _ => false
       end) cs cs'
  end.
Definition build_fuel : nat := N.to_nat 7000.
Definition run_build m data (lo : Z) (rtab : list float) (stab : list (float * Z)) : option (ctree float) :=
  cover_build fltb fleb 0%float (-1)%float i64_min (tab_scale stab) (tab_radius lo rtab) (dpp_of m data)
              build_fuel (length data).
Definition corr_build m data lo rtab stab (t : jtree) : bool :=
  match run_build m data lo rtab stab with
  | Some t' => tree_eqb t' (of_j t)
  | None => false
  end.
(* get_scale: for every positive pairwise distance d of the data set, the model's get_scale (rounded
   logarithm from `stab`, bumped by one when the cover radius falls short) is the implementation's
   (`exp`, cfg hook), and the hypothesis of build_wf holds for it: d <= radius (get_scale d) *)
Definition corr_scale (lo : Z) (rtab : list float) (stab exp : list (float * Z)) : bool :=
  forallb (fun e : float * Z =>
             let s := get_scale fltb fleb 0%float i64_min (tab_scale stab) (tab_radius lo rtab) (fst e) in
             Z.eqb s (snd e) && fleb (fst e) (tab_radius lo rtab s)) exp.
