(* C04 — the k-NN classifier with its label mapping, end to end (over the reals): the predicted value is an
   ORIGINAL training label, namely the label of one of the k nearest rows whose total (uniform or distance)
   weight over the k-nearest set is maximal; on ties the class whose running tally reaches the final
   maximum FIRST in the order of the search result wins (`if c[y] > max_c` is a strict comparison). *)
From Coq Require Import List Arith Bool Lia Reals Lra ZArith Sorted.
From SC Require Import Base.Num C04.Model C04.ModelBuild C04.Proofs_Heap C04.Proofs_Linear C04.Proofs_Cover
     C04.Proofs_Est C04.ProofsBuild C04.ProofsKnn C04.ProofsLabels.
Import ListNotations.
Local Open Scope R_scope.

(* the reals with < and = are a label order *)
Lemma R_label_order : label_order ROps.
Proof.
  split; simpl.
  - intros a b. apply Reqb_true.
  - intros a. apply Rltb_false. lra.
  - intros a b c H1 H2. apply Rltb_true in H1, H2. apply Rltb_true. lra.
  - intros a b H1 H2. apply Rltb_false in H1, H2. lra.
Qed.

(* ---- score: additivity, sign ---- *)
Lemma rsum_app l1 l2 : rsum (l1 ++ l2) = rsum l1 + rsum l2.
Proof. induction l1; simpl; [lra|]. rewrite IHl1. lra. Qed.
Lemma score_app y W l1 l2 j : score y W (l1 ++ l2) j = score y W l1 j + score y W l2 j.
Proof. unfold score. now rewrite map_app, rsum_app. Qed.
Lemma score_nonneg y W l j : (forall rw, In rw l -> 0 <= snd rw / W) -> 0 <= score y W l j.
Proof.
  unfold score. induction l as [|a l IH]; intros H; simpl; [lra|].
  assert (0 <= snd a / W) by (apply H; now left).
  assert (0 <= rsum (map (fun rw : nat * R * R => if Nat.eqb (nth (fst (fst rw)) y 0%nat) j then snd rw / W else 0) l))
    by (apply IH; intros; apply H; now right).
  destruct (Nat.eqb _ j); lra.
Qed.
Lemma score_ge_term y W l rw : (forall rw, In rw l -> 0 <= snd rw / W) -> In rw l ->
  snd rw / W <= score y W l (nth (fst (fst rw)) y 0%nat).
Proof.
  intros H Hin. apply in_split in Hin. destruct Hin as (l1 & l2 & ->).
  rewrite score_app.
  assert (0 <= score y W l1 (nth (fst (fst rw)) y 0%nat)).
  { apply score_nonneg. intros; apply H. apply in_or_app. now left. }
  assert (0 <= score y W l2 (nth (fst (fst rw)) y 0%nat)).
  { apply score_nonneg. intros; apply H. apply in_or_app. right. now right. }
  change (score y W (rw :: l2) (nth (fst (fst rw)) y 0%nat))
    with ((if Nat.eqb (nth (fst (fst rw)) y 0%nat) (nth (fst (fst rw)) y 0%nat) then snd rw / W else 0)
          + score y W l2 (nth (fst (fst rw)) y 0%nat)).
  rewrite Nat.eqb_refl. lra.
Qed.
Lemma rsum_pos_exists l : 0 < rsum l -> exists x, In x l /\ 0 < x.
Proof.
  induction l as [|a l IH]; simpl; intros H; [lra|].
  destruct (Rlt_dec 0 a) as [Ha|Ha]; [exists a; auto|].
  destruct IH as (x & Hx & Px); [lra|]. exists x; auto.
Qed.

(* ---- the vote fold once more, now tracking WHICH class of maximal tally is kept ---- *)
(* class mi reached the value mc at the end of the prefix l1 of `pre`, every other class was below mc then *)
Definition first_reach (y : list nat) (W : R) (ncl : nat) (pre : list ((nat * R) * R)) (mc : R) (mi : nat) : Prop :=
  (mi < ncl)%nat /\ 0 < mc /\
  exists l1 l2, pre = l1 ++ l2 /\ score y W l1 mi = mc /\
                forall j, (j < ncl)%nat -> j <> mi -> score y W l1 j < mc.

Lemma vote_fold_first y W ncl : forall l pre c mc mi,
  length c = ncl -> (forall rw, In rw l -> (nth (fst (fst rw)) y 0 < ncl)%nat /\ 0 <= snd rw / W) ->
  (forall j, (j < ncl)%nat -> nth j c 0 = score y W pre j) ->
  (forall j, nth j c 0 <= mc) -> mc <= nth mi c 0 ->
  ((mc = 0 /\ mi = 0%nat) \/ first_reach y W ncl pre mc mi) ->
  let '(c', mc', mi') := fold_left (vote_step y W) l (c, mc, mi) in
  (forall j, (j < ncl)%nat -> nth j c' 0 = score y W (pre ++ l) j) /\
  (forall j, nth j c' 0 <= mc') /\ mc' <= nth mi' c' 0 /\
  ((mc' = 0 /\ mi' = 0%nat) \/ first_reach y W ncl (pre ++ l) mc' mi').
Proof.
  induction l as [|rw l IH]; intros pre c mc mi Hl Hrw Hsc Hmax Hmi HP.
  - simpl. rewrite app_nil_r. auto.
  - destruct (Hrw rw (or_introl eq_refl)) as [Hy Hinc].
    cbn [fold_left]. unfold vote_step at 2.
    set (yi := nth (fst (fst rw)) y 0%nat) in *.
    set (c1 := updT c yi (nth yi c 0 + snd rw / W)).
    assert (Hc1 : forall j, nth j c1 0 = if Nat.eqb yi j then nth j c 0 + snd rw / W else nth j c 0).
    { intros j. unfold c1. destruct (Nat.eqb yi j) eqn:E.
      - apply Nat.eqb_eq in E. subst j. apply nth_updT_same. lia.
      - apply Nat.eqb_neq in E. now apply nth_updT_other. }
    assert (Hl1 : length c1 = ncl) by (unfold c1; now rewrite updT_length).
    assert (Hrw' : forall rw0, In rw0 l -> (nth (fst (fst rw0)) y 0 < ncl)%nat /\ 0 <= snd rw0 / W).
    { intros; apply Hrw; now right. }
    assert (Hsc1 : forall j, (j < ncl)%nat -> nth j c1 0 = score y W (pre ++ [rw]) j).
    { intros j Hj. rewrite Hc1, score_app. rewrite (Hsc j Hj).
      change (score y W [rw] j) with ((if Nat.eqb yi j then snd rw / W else 0) + 0).
      destruct (Nat.eqb yi j); lra. }
    replace (pre ++ rw :: l) with ((pre ++ [rw]) ++ l) by (rewrite <- app_assoc; reflexivity).
    destruct (Rltb mc (nth yi c1 0)) eqn:E.
    + apply Rltb_true in E. apply (IH (pre ++ [rw]) c1 (nth yi c1 0) yi); auto.
      * intros j. rewrite (Hc1 j). destruct (Nat.eqb yi j) eqn:Ej.
        -- apply Nat.eqb_eq in Ej. subst j. rewrite Hc1, Nat.eqb_refl. lra.
        -- specialize (Hmax j). lra.
      * lra.
      * right. split; [exact Hy|]. split.
        -- assert (0 <= mc). { destruct HP as [[-> _]|(_ & Hp & _)]; lra. } lra.
        -- exists (pre ++ [rw]), []. split; [now rewrite app_nil_r|]. split; [symmetry; now apply Hsc1|].
           intros j Hj Hne. rewrite <- Hsc1 by auto. rewrite (Hc1 j).
           replace (Nat.eqb yi j) with false by (symmetry; apply Nat.eqb_neq; auto).
           specialize (Hmax j). lra.
    + apply Rltb_false in E. apply (IH (pre ++ [rw]) c1 mc mi); auto.
      * intros j. rewrite (Hc1 j). destruct (Nat.eqb yi j) eqn:Ej.
        -- apply Nat.eqb_eq in Ej. subst j. rewrite Hc1, Nat.eqb_refl in E. lra.
        -- apply Hmax.
      * eapply Rle_trans; [exact Hmi|]. rewrite Hc1. destruct (Nat.eqb yi mi); lra.
      * destruct HP as [HP|(H1 & H2 & l1 & l2 & -> & H3 & H4)]; [now left|right].
        split; auto. split; auto. exists l1, (l2 ++ [rw]). split; [now rewrite app_assoc|]. auto.
Qed.

(* KNNClassifier::predict_for_row after the search, with the tie rule: the predicted class index is in range,
   its total weight is positive and maximal, and it is the class whose running tally reached that maximum
   first (at the end of a prefix l1 of the neighbour list every other class is strictly below it). *)
Theorem clf_vote_first_max ncl y w (sr : list (nat * R)) :
  let ws := calc_weights ROps w (map snd sr) in
  let W := rsum ws in
  let L := combine sr ws in
  let c := clf_vote ROps ncl y w sr in
  (forall r, In r sr -> (nth (fst r) y 0 < ncl)%nat) -> (forall r, In r sr -> 0 <= snd r) -> 0 < W ->
  (c < ncl)%nat /\ 0 < score y W L c /\
  (forall j, score y W L j <= score y W L c) /\
  exists l1 l2, L = l1 ++ l2 /\ score y W l1 c = score y W L c /\
                forall j, j <> c -> score y W l1 j < score y W L c.
Proof.
  intros ws W L c Hy Hd HW.
  assert (Hterm : forall rw, In rw L -> (nth (fst (fst rw)) y 0 < ncl)%nat /\ 0 <= snd rw / W).
  { intros (p, r) Hrw. cbn [fst snd]. split.
    - apply Hy. exact (in_combine_l sr ws p r Hrw).
    - assert (0 <= r).
      { apply (weights_nonneg w (map snd sr)).
        - intros d Hdd. apply in_map_iff in Hdd. destruct Hdd as (r0 & <- & Hr). now apply Hd.
        - exact (in_combine_r sr ws p r Hrw). }
      unfold Rdiv. apply Rmult_le_pos; auto. left. now apply Rinv_0_lt_compat. }
  assert (Hnn : forall rw, In rw L -> 0 <= snd rw / W) by (intros; now apply Hterm).
  (* scores of out-of-range classes vanish on every sublist of L *)
  assert (Hout : forall l, (forall rw, In rw l -> In rw L) -> forall j, (ncl <= j)%nat -> score y W l j = 0).
  { intros l Hl j Hj. unfold score. induction l as [|a l IHl]; simpl; [reflexivity|].
    rewrite IHl by (intros; apply Hl; now right).
    destruct (Hterm a (Hl a (or_introl eq_refl))) as [Ha _].
    replace (Nat.eqb (nth (fst (fst a)) y 0%nat) j) with false by (symmetry; apply Nat.eqb_neq; lia). lra. }
  (* some class has a positive score *)
  assert (Hpos : exists j, (j < ncl)%nat /\ 0 < score y W L j).
  { destruct (rsum_pos_exists ws HW) as (x & Hx & Px).
    assert (length ws = length sr) by (unfold ws; rewrite weights_length; apply map_length).
    destruct (In_nth ws x 0 Hx) as (i & Hi & Ei).
    set (rw := (nth i sr (0%nat, 0), x)).
    assert (Hin : In rw L).
    { unfold rw, L. rewrite <- Ei. rewrite <- combine_nth by auto. apply nth_In. rewrite combine_length. lia. }
    exists (nth (fst (fst rw)) y 0%nat). split; [now apply Hterm|].
    eapply Rlt_le_trans; [|apply score_ge_term; eauto].
    cbn [snd rw]. unfold Rdiv. apply Rmult_lt_0_compat; auto. now apply Rinv_0_lt_compat. }
  unfold c, clf_vote. rewrite osum_R. fold ws. fold W. fold L.
  change (fold_left _ L (repeat (o0 ROps) ncl, o0 ROps, 0%nat))
    with (fold_left (vote_step y W) L (repeat 0 ncl, 0, 0%nat)).
  pose proof (vote_fold_first y W ncl L [] (repeat 0 ncl) 0 0%nat) as F.
  destruct (fold_left (vote_step y W) L (repeat 0 ncl, 0, 0%nat)) as ((c', mc'), mi').
  destruct F as (H1 & H2 & H3 & H4).
  - apply repeat_length.
  - exact Hterm.
  - intros j _. rewrite nth_repeat0. reflexivity.
  - intros j. rewrite nth_repeat0. lra.
  - rewrite nth_repeat0. lra.
  - now left.
  - cbn [app] in *. destruct H4 as [[-> ->]|(Hm & Hp & l1 & l2 & EL & Hs & Hlt)].
    + exfalso. destruct Hpos as (j & Hj & Pj). rewrite <- H1 in Pj by auto. specialize (H2 j). lra.
    + assert (Emc : mc' = score y W L mi').
      { rewrite <- H1 by auto. apply Rle_antisym; auto. }
      split; auto. rewrite <- Emc. split; auto. split.
      * intros j. destruct (lt_dec j ncl) as [Hj|Hj].
        -- rewrite <- H1 by auto. apply H2.
        -- rewrite (Hout L) by (auto; lia). lra.
      * exists l1, l2. split; auto. split; auto. intros j Hne.
        destruct (lt_dec j ncl) as [Hj|Hj]; [now apply Hlt|].
        rewrite (Hout l1); [lra| |lia]. intros rw Hrw. rewrite EL. apply in_or_app. now left.
Qed.

(* ---- from class indices back to labels ---- *)
(* total normalised weight of the neighbours whose training label is `lab` *)
Definition lscore (ys : list R) (W : R) (l : list ((nat * R) * R)) (lab : R) : R :=
  rsum (map (fun rw : (nat * R) * R => if Req_EM_T (nth (fst (fst rw)) ys 0) lab then snd rw / W else 0) l).

(* what KNNClassifier::fit stores: classes = y.unique(), y[i] = position of label i in classes *)
Definition fit_classes (ys : list R) : list R := unique ROps ys.
Definition fit_y (ys : list R) : list nat := map (fun l => position ROps l (unique ROps ys)) ys.

Lemma fit_y_nth ys i : (i < length ys)%nat ->
  nth i (fit_y ys) 0%nat = position ROps (nth i ys 0) (fit_classes ys).
Proof.
  intros Hi. unfold fit_y, fit_classes.
  rewrite (nth_indep _ 0%nat (position ROps 0 (unique ROps ys))) by (now rewrite map_length).
  now rewrite (map_nth (fun l => position ROps l (unique ROps ys))).
Qed.
Lemma fit_y_range ys i : (i < length ys)%nat -> (nth i (fit_y ys) 0 < length (fit_classes ys))%nat.
Proof.
  intros Hi. rewrite fit_y_nth by auto.
  apply (position_in ROps R_label_order 0). apply (unique_in ROps R_label_order). now apply nth_In.
Qed.
Lemma fit_y_label ys i : (i < length ys)%nat -> nth (nth i (fit_y ys) 0%nat) (fit_classes ys) 0 = nth i ys 0.
Proof.
  intros Hi. rewrite fit_y_nth by auto.
  apply (position_in ROps R_label_order 0). apply (unique_in ROps R_label_order). now apply nth_In.
Qed.

(* score by class index = score by label, for class indices in range *)
Lemma score_lscore ys W l j : (forall rw, In rw l -> (fst (fst rw) < length ys)%nat) ->
  (j < length (fit_classes ys))%nat ->
  score (fit_y ys) W l j = lscore ys W l (nth j (fit_classes ys) 0).
Proof.
  intros Hl Hj. unfold score, lscore. f_equal. apply map_ext_in. intros rw Hrw.
  specialize (Hl rw Hrw). set (i := fst (fst rw)) in *.
  destruct (Nat.eqb (nth i (fit_y ys) 0%nat) j) eqn:E.
  - apply Nat.eqb_eq in E. rewrite <- E, fit_y_label by auto.
    destruct (Req_EM_T (nth i ys 0) (nth i ys 0)); [reflexivity|congruence].
  - apply Nat.eqb_neq in E. destruct (Req_EM_T (nth i ys 0) (nth j (fit_classes ys) 0)) as [Q|Q]; [|reflexivity].
    exfalso. apply E. rewrite fit_y_nth by auto. rewrite Q.
    apply (position_nth ROps R_label_order 0); auto. apply (unique_sorted ROps R_label_order).
Qed.
(* a label that no neighbour carries has score 0; scores are non-negative *)
Lemma lscore_nonneg ys W l lab : (forall rw, In rw l -> 0 <= snd rw / W) -> 0 <= lscore ys W l lab.
Proof.
  unfold lscore. induction l as [|a l IH]; intros H; simpl; [lra|].
  assert (0 <= snd a / W) by (apply H; now left).
  assert (0 <= rsum (map (fun rw : nat * R * R => if Req_EM_T (nth (fst (fst rw)) ys 0) lab then snd rw / W else 0) l))
    by (apply IH; intros; apply H; now right).
  destruct (Req_EM_T _ lab); lra.
Qed.
Lemma lscore_absent ys W l lab : (forall rw, In rw l -> nth (fst (fst rw)) ys 0 <> lab) -> lscore ys W l lab = 0.
Proof.
  unfold lscore. induction l as [|a l IH]; intros H; simpl; [reflexivity|].
  rewrite IH by (intros; apply H; now right).
  destruct (Req_EM_T (nth (fst (fst a)) ys 0) lab) as [Q|Q]; [|lra]. exfalso. exact (H a (or_introl eq_refl) Q).
Qed.
Lemma lscore_pos_in ys W l lab : 0 < lscore ys W l lab -> exists rw, In rw l /\ nth (fst (fst rw)) ys 0 = lab.
Proof.
  unfold lscore. induction l as [|a l IH]; simpl; intros H; [lra|].
  destruct (Req_EM_T (nth (fst (fst a)) ys 0) lab) as [Q|Q]; [exists a; auto|].
  destruct IH as (rw & Hrw & E); [lra|]. exists rw; auto.
Qed.

(* The vote in terms of the ORIGINAL labels: with classes / y as fit computes them from the label vector ys,
   the predicted value nth c classes is the label of one of the neighbours, its total weight is positive and
   maximal among ALL labels, and ties go to the label whose running total reached the maximum first. *)
Theorem clf_vote_label ys w (sr : list (nat * R)) :
  let ws := calc_weights ROps w (map snd sr) in
  let W := rsum ws in
  let L := combine sr ws in
  let lbl := nth (clf_vote ROps (length (fit_classes ys)) (fit_y ys) w sr) (fit_classes ys) 0 in
  (forall r, In r sr -> (fst r < length ys)%nat) -> (forall r, In r sr -> 0 <= snd r) -> 0 < W ->
  (exists r, In r sr /\ nth (fst r) ys 0 = lbl) /\ In lbl ys /\
  0 < lscore ys W L lbl /\
  (forall lab, lscore ys W L lab <= lscore ys W L lbl) /\
  exists l1 l2, L = l1 ++ l2 /\ lscore ys W l1 lbl = lscore ys W L lbl /\
                forall lab, lab <> lbl -> lscore ys W l1 lab < lscore ys W L lbl.
Proof.
  intros ws W L lbl Hr Hd HW.
  set (cl := fit_classes ys) in *. set (c := clf_vote ROps (length cl) (fit_y ys) w sr) in *.
  destruct (clf_vote_first_max (length cl) (fit_y ys) w sr) as (Hc & Hp & Hmax & l1 & l2 & EL & Hs & Hlt); auto.
  { intros r Hin. apply fit_y_range. now apply Hr. }
  fold ws W L c in Hp, Hmax, EL, Hs, Hlt |- *. fold ws in W. fold W in L.
  assert (HL : forall rw, In rw L -> (fst (fst rw) < length ys)%nat).
  { intros (p, r) Hrw. cbn [fst]. apply Hr. exact (in_combine_l sr ws p r Hrw). }
  assert (HL1 : forall rw, In rw l1 -> (fst (fst rw) < length ys)%nat).
  { intros rw Hrw. apply HL. rewrite EL. apply in_or_app. now left. }
  assert (Hnn : forall rw, In rw L -> 0 <= snd rw / W).
  { intros (p, r) Hrw. cbn [snd].
    assert (0 <= r).
    { apply (weights_nonneg w (map snd sr)).
      - intros d Hdd. apply in_map_iff in Hdd. destruct Hdd as (r0 & <- & Hr0). now apply Hd.
      - exact (in_combine_r sr ws p r Hrw). }
    unfold Rdiv. apply Rmult_le_pos; auto. left. now apply Rinv_0_lt_compat. }
  assert (Elbl : score (fit_y ys) W L c = lscore ys W L lbl) by (apply score_lscore; auto).
  assert (Elbl1 : score (fit_y ys) W l1 c = lscore ys W l1 lbl) by (apply score_lscore; auto).
  rewrite Elbl in *. rewrite Elbl1 in *.
  (* every label is either absent from ys (score 0 everywhere) or a class *)
  assert (Hlab : forall lab l, (forall rw, In rw l -> (fst (fst rw) < length ys)%nat) ->
                 (exists j, (j < length cl)%nat /\ lab = nth j cl 0 /\ lscore ys W l lab = score (fit_y ys) W l j)
                 \/ lscore ys W l lab = 0).
  { intros lab l Hl. destruct (in_dec Req_EM_T lab ys) as [I|I].
    - left. apply (unique_in ROps R_label_order) in I. destruct (In_nth _ _ 0 I) as (j & Hj & Ej).
      exists j. split; auto. split; auto. rewrite <- Ej. symmetry. now apply score_lscore.
    - right. apply lscore_absent. intros rw Hrw Q. apply I. rewrite <- Q. apply nth_In. now apply Hl. }
  assert (Hin : exists r, In r sr /\ nth (fst r) ys 0 = lbl).
  { destruct (lscore_pos_in ys W L lbl Hp) as ((p, r) & Hrw & E). exists p. split; auto.
    exact (in_combine_l sr ws p r Hrw). }
  split; auto. split.
  { destruct Hin as (r & Hin & <-). apply nth_In. now apply Hr. }
  split; auto. split.
  - intros lab. destruct (Hlab lab L HL) as [(j & Hj & _ & ->) | ->]; [apply Hmax|lra].
  - exists l1, l2. split; auto. split; auto. intros lab Hne.
    destruct (Hlab lab l1 HL1) as [(j & Hj & El & ->) | ->]; [|lra].
    apply Hlt. intros ->. apply Hne. exact El.
Qed.

(* ---- end to end ---- *)
Section EndToEndLabels.
  Context {P : Type} (dist : P -> P -> R) (pt : nat -> P) (q : P).
  Hypothesis dist_sym : forall a b, dist a b = dist b a.
  Hypothesis dist_tri : forall a b c, dist a c <= dist a b + dist b c.
  Hypothesis dist_nonneg : forall a b, 0 <= dist a b.
  Hypothesis dist_refl : forall a, dist a a = 0.
  Context (smin : Z) (gsp : R -> Z) (radius : Z -> R) (slo : Z).
  Hypothesis SC : scale_ok Rltb Rleb 0 smin gsp radius slo.
  Context (dmax dinf : R).
  Notation dqq := (dq dist pt q).

  (* KNNClassifier fit + predict, one query row, in terms of the training labels ys only *)
  Theorem knn_classifier_predicts_original_label s n k (ys : list R) w :
    fitted dist pt smin gsp radius s n -> (1 <= k <= n)%nat -> length ys = n ->
    (forall i, (i < n)%nat -> dqq i < dinf) -> (forall i, (i < n)%nat -> dqq i <= dmax) ->
    exists sr, is_knn Rleb dqq n k sr /\
      let ws := calc_weights ROps w (map snd sr) in
      let W := rsum ws in
      let L := combine sr ws in
      exists lbl,
        clf_predict_row ROps dmax dinf s (unique ROps ys) (map (fun l => position ROps l (unique ROps ys)) ys)
                        w k dqq = Some lbl /\
        (exists r, In r sr /\ nth (fst r) ys 0 = lbl) /\ In lbl ys /\
        0 < lscore ys W L lbl /\
        (forall lab, lscore ys W L lab <= lscore ys W L lbl) /\
        exists l1 l2, L = l1 ++ l2 /\ lscore ys W l1 lbl = lscore ys W L lbl /\
                      forall lab, lab <> lbl -> lscore ys W l1 lab < lscore ys W L lbl.
  Proof.
    intros F Hk Hn Hinf Hmax.
    destruct (search_knn dist pt q dist_sym dist_tri dist_refl smin gsp radius slo SC dmax dinf s n k F Hk Hinf Hmax)
      as (sr & E & K).
    exists sr. split; auto. intros ws W L.
    destruct (knn_facts dist pt q dist_sym dist_tri dist_nonneg dist_refl dinf n k sr K (proj1 Hk)) as (Hne & Hnn & Hr).
    eexists. split.
    - unfold clf_predict_row. rewrite E. reflexivity.
    - apply (clf_vote_label ys w sr).
      + intros r Hin. rewrite Hn. now apply Hr.
      + intros r Hin. now apply Hr.
      + now apply weights_sum_pos.
  Qed.
End EndToEndLabels.

(* evaluation of comparisons between real literals *)
Ltac rcmp_step :=
  match goal with
  | |- context [Rltb ?a ?b] =>
    first [replace (Rltb a b) with true by (symmetry; apply Rltb_true; lra)
          |replace (Rltb a b) with false by (symmetry; apply Rltb_false; lra)]
  | |- context [Reqb ?a ?b] =>
    first [replace (Reqb a b) with true by (symmetry; apply Reqb_true; lra)
          |replace (Reqb a b) with false by (symmetry; apply Reqb_false; lra)]
  end.

(* a concrete fit: labels 2, 1, 2 give classes [1; 2] and class indices 1, 0, 1 *)
Lemma fit_example : fit_classes [2; 1; 2] = [1; 2] /\ fit_y [2; 1; 2] = [1%nat; 0%nat; 1%nat].
Proof.
  assert (Ecl : fit_classes [2; 1; 2] = [1; 2]).
  { unfold fit_classes, unique. cbn [fold_right insert_label]. change (oltb ROps) with Rltb.
    repeat (rcmp_step; cbn [insert_label]; change (oltb ROps) with Rltb).
    cbn [dedup]. change (oeqb ROps) with Reqb. repeat rcmp_step. reflexivity. }
  split; [exact Ecl|]. unfold fit_y. fold (fit_classes [2; 1; 2]). rewrite Ecl. cbn [map position].
  change (oeqb ROps) with Reqb. repeat rcmp_step. reflexivity.
Qed.

(* the tie rule is NOT "smallest class index": two neighbours with equal weight, the first carrying the
   larger label - the larger label wins although the smaller one has the same total weight *)
Lemma clf_tie_goes_to_first_reached :
  let ys := [2; 1; 2] in let sr := [(0%nat, 1); (1%nat, 1)] in
  let ws := calc_weights ROps Uniform (map snd sr) in
  let W := rsum ws in
  nth (clf_vote ROps (length (fit_classes ys)) (fit_y ys) Uniform sr) (fit_classes ys) 0 = 2 /\
  lscore ys W (combine sr ws) 1 = lscore ys W (combine sr ws) 2 /\ 1 < 2.
Proof.
  cbn zeta. destruct fit_example as [-> ->]. split; [|split; [|lra]].
  - unfold clf_vote. cbn [map snd calc_weights length repeat combine fold_left fst nth updT osum].
    cbn [o0 o1 oadd odiv oltb ROps].
    replace (0 + 1 + 1) with 2 by lra.
    rcmp_step. cbn [nth updT]. rcmp_step. reflexivity.
  - unfold lscore. cbn [calc_weights length repeat o1 ROps combine map fst snd nth rsum fold_right].
    repeat match goal with |- context [Req_EM_T ?a ?b] => destruct (Req_EM_T a b); try lra end.
Qed.
