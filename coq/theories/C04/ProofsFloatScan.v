(* C04 — the exhaustive scan LinearKNNSearch::find(from, k) for GENERAL k in binary64: under a separation
   margin between the k nearest points and the rest, the float scan (heap machinery included) returns the
   same index set as the exact scan.

   Route.  linear_find is polymorphic in the distance type and only ever compares distances, so it
   commutes with every comparison-preserving map f : D1 -> D2 (`linear_find_map`, proved through upd /
   swap / sift_down / sort_desc / hs_add / hs_heapify / linear_scan).  The float scan on computed
   distances dq i (finite for i < n) is the image of the scan over the key type `option nat`
   (Some i = point i, None = the +infinity sentinel) ordered by the float comparisons of the keys; that
   order IS a total preorder (no NaN among the keys), so the axiom-free theorem linear_find_exact applies
   and the float result is a k-nearest set for the float order.  A k-nearest set for an order that
   strictly separates S from its complement is S (`knn_set_unique`). *)
From Coq Require Import List Arith ZArith Bool Reals Floats Lra Lia Psatz Permutation.
From Flocq Require Import Core BinarySingleNaN PrimFloat.
From SC Require Import Base.FloatUtil Base.Num Base.FloatError C04.Model C04.Proofs_Heap C04.Proofs_Linear
     C04.ProofsKnn C04.ProofsFloat.
Import ListNotations.
Local Existing Instance Hprec.
Local Existing Instance Hmax.

(* ------------------------------------------------------------------------------------------ *)
(* naturality of the heap and of the scan                                                      *)
(* ------------------------------------------------------------------------------------------ *)
Section HeapNat.
  Context {A1 A2 : Type} (lt1 le1 : A1 -> A1 -> bool) (lt2 le2 : A2 -> A2 -> bool) (g : A1 -> A2) (d0 : A1).
  Hypothesis Hlt : forall a b, lt2 (g a) (g b) = lt1 a b.
  Hypothesis Hle : forall a b, le2 (g a) (g b) = le1 a b.

  Lemma upd_map l : forall i x, map g (upd l i x) = upd (map g l) i (g x).
  Proof. induction l as [|a l IH]; intros [|i] x; cbn [upd map]; try reflexivity. f_equal. apply IH. Qed.

  Lemma nth_map_g l j : nth j (map g l) (g d0) = g (nth j l d0).
  Proof. apply map_nth. Qed.

  Lemma swap_map l i j : map g (swap d0 l i j) = swap (g d0) (map g l) i j.
  Proof. unfold swap. rewrite !upd_map, !nth_map_g. reflexivity. Qed.

  Lemma sift_down_map fuel : forall heap kk n,
    map g (sift_down lt1 le1 d0 fuel heap kk n) = sift_down lt2 le2 (g d0) fuel (map g heap) kk n.
  Proof.
    induction fuel as [|fuel IH]; intros heap kk n; cbn [sift_down]; [reflexivity|].
    destruct (2 * kk <=? n); [|reflexivity].
    rewrite !nth_map_g, Hlt, Hle.
    match goal with |- context [le1 ?a ?b] => destruct (le1 a b) end; [reflexivity|].
    rewrite IH, swap_map. reflexivity.
  Qed.

  Lemma sift_map heap kk n : map g (sift lt1 le1 d0 heap kk n) = sift lt2 le2 (g d0) (map g heap) kk n.
  Proof. apply sift_down_map. Qed.

  Lemma insert_desc_map x l : map g (insert_desc lt1 x l) = insert_desc lt2 (g x) (map g l).
  Proof.
    induction l as [|a l IH]; cbn [insert_desc map]; [reflexivity|]. rewrite Hlt.
    destruct (lt1 x a); cbn [map]; [rewrite IH|]; reflexivity.
  Qed.
  Lemma sort_desc_map l : map g (sort_desc lt1 l) = sort_desc lt2 (map g l).
  Proof.
    unfold sort_desc. induction l as [|a l IH]; cbn [fold_right map]; [reflexivity|].
    rewrite insert_desc_map, IH. reflexivity.
  Qed.

  Definition hmap (h : heapsel A1) : heapsel A2 := mkHeap (hk h) (hn h) (hsorted h) (map g (hheap h)).

  Lemma hs_add_map h x : hmap (hs_add lt1 le1 d0 h x) = hs_add lt2 le2 (g d0) (hmap h) (g x).
  Proof.
    destruct h as [k n s heap]. unfold hs_add, hmap. cbn [hk hn hsorted hheap].
    destruct (n <? k).
    - destruct (S n =? k); cbn [hk hn hsorted hheap]; rewrite ?sort_desc_map, map_app; reflexivity.
    - destruct heap as [|top t]; cbn [map]; [reflexivity|]. rewrite Hlt.
      destruct (lt1 x top); cbn [hk hn hsorted hheap]; [|reflexivity].
      rewrite sift_map. change (g top :: map g t) with (map g (top :: t)). rewrite <- upd_map. reflexivity.
  Qed.

  Lemma fold_sift_map m l : forall heap,
    map g (fold_left (fun hp i => sift lt1 le1 d0 hp i m) l heap) =
    fold_left (fun hp i => sift lt2 le2 (g d0) hp i m) l (map g heap).
  Proof. induction l as [|i l IH]; intros heap; cbn [fold_left]; [reflexivity|]. rewrite IH, sift_map. reflexivity. Qed.

  Lemma hs_heapify_map h : hmap (hs_heapify lt1 le1 d0 h) = hs_heapify lt2 le2 (g d0) (hmap h).
  Proof.
    destruct h as [k n s heap]. unfold hs_heapify, hmap. cbn [hk hn hsorted hheap]. rewrite map_length.
    destruct (length heap <=? 1); cbn [hk hn hsorted hheap]; [reflexivity|]. rewrite fold_sift_map. reflexivity.
  Qed.

  Lemma hs_set_root_map h x : hmap (hs_set_root h x) = hs_set_root (hmap h) (g x).
  Proof. destruct h as [k n s heap]. unfold hs_set_root, hmap. cbn [hk hn hsorted hheap]. rewrite upd_map. reflexivity. Qed.
  Lemma hs_peek_mut_map h : hs_peek_mut (g d0) (hmap h) = g (hs_peek_mut d0 h).
  Proof. destruct h as [k n s heap]. unfold hs_peek_mut, hmap. cbn [hheap]. apply nth_map_g. Qed.
End HeapNat.

Section ScanNat.
  Context {D1 D2 : Type} (lt1 le1 : D1 -> D1 -> bool) (lt2 le2 : D2 -> D2 -> bool) (f : D1 -> D2) (dinf : D1).
  Hypothesis Hlt : forall a b, lt2 (f a) (f b) = lt1 a b.
  Hypothesis Hle : forall a b, le2 (f a) (f b) = le1 a b.

  Definition gk (p : kpt (D := D1)) : kpt (D := D2) := (f (fst p), snd p).

  Lemma kltb_gk a b : kltb lt2 (gk a) (gk b) = kltb lt1 a b.
  Proof. unfold kltb, gk. cbn [fst]. apply Hlt. Qed.
  Lemma kleb_gk a b : kleb le2 (gk a) (gk b) = kleb le1 a b.
  Proof. unfold kleb, gk. cbn [fst]. apply Hle. Qed.

  Lemma linear_scan_map dq (l : list nat) : forall h,
    hmap gk (fold_left
      (fun h i => let d := dq i in let datum := hs_peek_mut (kd0 dinf) h in
                  if lt1 d (fst datum) then hs_heapify (kltb lt1) (kleb le1) (kd0 dinf) (hs_set_root h (d, Some i)) else h) l h) =
    fold_left
      (fun h i => let d := f (dq i) in let datum := hs_peek_mut (kd0 (f dinf)) h in
                  if lt2 d (fst datum) then hs_heapify (kltb lt2) (kleb le2) (kd0 (f dinf)) (hs_set_root h (d, Some i)) else h) l (hmap gk h).
  Proof.
    induction l as [|i l IH]; intros h; cbn [fold_left]; [reflexivity|]. rewrite IH. f_equal. cbv zeta.
    change (kd0 (f dinf)) with (gk (kd0 dinf)).
    rewrite (hs_peek_mut_map gk (kd0 dinf) h). unfold gk at 2. cbn [fst]. rewrite Hlt.
    destruct (lt1 (dq i) (fst (hs_peek_mut (kd0 dinf) h))); [|reflexivity].
    rewrite (hs_heapify_map (kltb lt1) (kleb le1) (kltb lt2) (kleb le2) gk (kd0 dinf) kltb_gk kleb_gk).
    rewrite hs_set_root_map. reflexivity.
  Qed.

  Lemma iterate_map {S1 S2} (F1 : S1 -> S1) (F2 : S2 -> S2) (m : S1 -> S2) :
    (forall s, m (F1 s) = F2 (m s)) -> forall k s, m (iterate k F1 s) = iterate k F2 (m s).
  Proof. intros H. induction k as [|k IH]; intros s; cbn [iterate]; [reflexivity|]. rewrite IH, H. reflexivity. Qed.

  Lemma flat_map_gk (l : list (kpt (D := D1))) :
    flat_map (fun x : kpt (D := D2) => match snd x with Some i => [(i, fst x)] | None => [] end) (map gk l) =
    map (fun p : nat * D1 => (fst p, f (snd p)))
        (flat_map (fun x : kpt (D := D1) => match snd x with Some i => [(i, fst x)] | None => [] end) l).
  Proof.
    induction l as [|[d [i|]] l IH]; cbn [map flat_map gk fst snd app]; [reflexivity| |exact IH].
    rewrite IH. reflexivity.
  Qed.

  Theorem linear_find_map dq n k :
    linear_find lt2 le2 (f dinf) (fun i => f (dq i)) n k =
    option_map (map (fun p : nat * D1 => (fst p, f (snd p)))) (linear_find lt1 le1 dinf dq n k).
  Proof.
    unfold linear_find. destruct ((k <? 1) || (n <? k)); [reflexivity|]. cbn [option_map]. f_equal.
    unfold linear_scan, hs_get. rewrite <- flat_map_gk. f_equal.
    change (hheap ?h) with (hheap h).
    match goal with |- hheap ?a = map gk (hheap ?b) => change (map gk (hheap b)) with (hheap (hmap gk b)) end.
    f_equal. rewrite linear_scan_map. f_equal.
    rewrite (iterate_map (fun h => hs_add (kltb lt1) (kleb le1) (kd0 dinf) h (dinf, None))
                         (fun h => hs_add (kltb lt2) (kleb le2) (kd0 (f dinf)) h (f dinf, None)) (hmap gk)).
    - reflexivity.
    - intros s. rewrite (hs_add_map (kltb lt1) (kleb le1) (kltb lt2) (kleb le2) gk (kd0 dinf) kltb_gk kleb_gk). reflexivity.
  Qed.
End ScanNat.

Lemma fold_left_ext_in {A B} (F F' : A -> B -> A) (l : list B) :
  (forall a x, In x l -> F a x = F' a x) -> forall a, fold_left F l a = fold_left F' l a.
Proof.
  induction l as [|x l IH]; intros H a; cbn [fold_left]; [reflexivity|].
  rewrite (H a x (or_introl eq_refl)). apply IH. intros a' x' Hx. apply H. right. exact Hx.
Qed.

(* the scan reads the distance function on 0..n-1 only *)
Lemma linear_find_ext {D} (ltb leb : D -> D -> bool) (dinf : D) (dq dq' : nat -> D) n k :
  (forall i, i < n -> dq i = dq' i) ->
  linear_find ltb leb dinf dq n k = linear_find ltb leb dinf dq' n k.
Proof.
  intros H. unfold linear_find. destruct ((k <? 1) || (n <? k)); [reflexivity|]. f_equal. f_equal. f_equal.
  unfold linear_scan. apply fold_left_ext_in. intros h i Hi. apply in_seq in Hi. cbv zeta.
  rewrite (H i) by lia. reflexivity.
Qed.

(* ------------------------------------------------------------------------------------------ *)
(* a k-nearest set for an order that strictly separates S from its complement is S             *)
(* ------------------------------------------------------------------------------------------ *)
Lemma knn_set_unique {D} (leb : D -> D -> bool) (dq : nat -> D) n k res (S : list nat) :
  is_knn leb dq n k res -> NoDup S -> length S = k -> (forall s, In s S -> s < n) ->
  (forall s j, In s S -> j < n -> ~ In j S -> leb (dq j) (dq s) = false) ->
  Permutation S (map fst res).
Proof.
  intros (L & ND & Hin & Hmin) NS LS HSn Hsep.
  set (I := map fst res) in *.
  assert (HI : forall j, In j I -> j < n /\ In (j, dq j) res).
  { intros j Hj. apply in_map_iff in Hj as ([i d] & E & Hp). cbn [fst] in E. subst i.
    destruct (Hin _ _ Hp) as [A B]. subst d. split; assumption. }
  assert (LI : length I = k) by (unfold I; rewrite map_length; exact L).
  apply NoDup_Permutation_bis; [exact NS | lia |].
  intros s Hs. destruct (in_dec Nat.eq_dec s I) as [Y|N]; [exact Y|]. exfalso.
  assert (EX : exists j, In j I /\ ~ In j S).
  { destruct (Exists_dec (fun j => ~ In j S) I) as [E|E].
    - intros j. destruct (in_dec Nat.eq_dec j S); [right; tauto | left; assumption].
    - apply Exists_exists in E. exact E.
    - exfalso. assert (INC : incl I S).
      { intros j Hj. destruct (in_dec Nat.eq_dec j S) as [Y|N']; [exact Y|]. exfalso. apply E.
        apply Exists_exists. exists j. tauto. }
      apply N. apply (@NoDup_length_incl nat I S ND); [lia | exact INC | exact Hs]. }
  destruct EX as (j & Hj & HjS). destruct (HI j Hj) as [Hjn Hjr].
  pose proof (Hmin j (dq j) s Hjr (HSn s Hs) N) as T. rewrite (Hsep s j Hs Hjn HjS) in T. discriminate T.
Qed.

(* ------------------------------------------------------------------------------------------ *)
(* the float order on finite keys and the +infinity sentinel                                   *)
(* ------------------------------------------------------------------------------------------ *)
Local Open Scope R_scope.

Definition fval (x : PrimFloat.float) : R := if PrimFloat.is_finite x then FR x else bpow radix2 1024.
Definition fokey (x : PrimFloat.float) : Prop := ffin x \/ x = infinity.

Lemma FR_lt_emax a : ffin a -> Rabs (FR a) < bpow radix2 1024.
Proof. intros H. unfold FR. apply (abs_B2R_lt_emax prec emax). Qed.

Lemma fcmp_fin_inf a : ffin a ->
  PrimFloat.ltb a infinity = true /\ PrimFloat.leb a infinity = true /\
  PrimFloat.ltb infinity a = false /\ PrimFloat.leb infinity a = false.
Proof.
  intros H. apply ffin_B in H. rewrite !ltb_equiv, !leb_equiv.
  destruct (Prim2B a) as [s|s| |s m e He]; try discriminate H; repeat split; vm_compute; reflexivity.
Qed.

Lemma fcmp_key a b : fokey a -> fokey b ->
  PrimFloat.ltb a b = Rlt_bool (fval a) (fval b) /\ PrimFloat.leb a b = Rle_bool (fval a) (fval b).
Proof.
  assert (VI : fval infinity = bpow radix2 1024) by reflexivity.
  assert (VF : forall x, ffin x -> fval x = FR x /\ fval x < bpow radix2 1024).
  { intros x Hx. unfold fval. unfold ffin in Hx. rewrite Hx. split; [reflexivity|].
    pose proof (FR_lt_emax x Hx) as B. apply Rabs_lt_inv in B. lra. }
  intros [Ha| ->] [Hb| ->].
  - destruct (VF a Ha) as [-> _], (VF b Hb) as [-> _]. split; [apply fltb_finite | apply fleb_finite]; assumption.
  - destruct (fcmp_fin_inf a Ha) as (-> & -> & _). destruct (VF a Ha) as [_ B]. rewrite VI.
    split; symmetry; [apply Rlt_bool_true | apply Rle_bool_true]; lra.
  - destruct (fcmp_fin_inf b Hb) as (_ & _ & -> & ->). destruct (VF b Hb) as [_ B]. rewrite VI.
    split; symmetry; [apply Rlt_bool_false | apply Rle_bool_false]; lra.
  - rewrite VI. split; [change (PrimFloat.ltb infinity infinity) with false | change (PrimFloat.leb infinity infinity) with true]; symmetry.
    + apply Rlt_bool_false. lra.
    + apply Rle_bool_true. lra.
Qed.

Lemma Rle_bool_inv x y : Rle_bool x y = true -> x <= y.
Proof. destruct (Rle_bool_spec x y); [tauto | discriminate]. Qed.

(* keys: Some i = point i (i < n), None = the sentinel *)
Definition fkey (dq : nat -> PrimFloat.float) (n : nat) (o : option nat) : PrimFloat.float :=
  match o with Some i => if (i <? n)%nat then dq i else 0%float | None => infinity end.

Lemma fkey_ok dq n : (forall i, (i < n)%nat -> ffin (dq i)) -> forall o, fokey (fkey dq n o).
Proof.
  intros H [i|]; cbn [fkey]; [|right; reflexivity]. left.
  destruct (Nat.ltb_spec i n) as [L|L]; [apply H, L | exact ffin_zero].
Qed.

Lemma fkey_preorder dq n : (forall i, (i < n)%nat -> ffin (dq i)) ->
  preorder (fun a b => PrimFloat.ltb (fkey dq n a) (fkey dq n b)) (fun a b => PrimFloat.leb (fkey dq n a) (fkey dq n b)).
Proof.
  intros H. pose proof (fkey_ok dq n H) as OK. constructor.
  - intros a b. rewrite (proj2 (fcmp_key _ _ (OK a) (OK b))), (proj2 (fcmp_key _ _ (OK b) (OK a))).
    destruct (Rle_or_lt (fval (fkey dq n a)) (fval (fkey dq n b))) as [L|L];
      [left | right]; apply Rle_bool_true; lra.
  - intros a b c. rewrite (proj2 (fcmp_key _ _ (OK a) (OK b))), (proj2 (fcmp_key _ _ (OK b) (OK c))),
      (proj2 (fcmp_key _ _ (OK a) (OK c))).
    intros H1 H2. apply Rle_bool_inv in H1. apply Rle_bool_inv in H2. apply Rle_bool_true. lra.
  - intros a b. rewrite (proj1 (fcmp_key _ _ (OK a) (OK b))), (proj2 (fcmp_key _ _ (OK b) (OK a))).
    symmetry. apply negb_Rlt_bool.
Qed.

(* ------------------------------------------------------------------------------------------ *)
(* the theorem                                                                                  *)
(* ------------------------------------------------------------------------------------------ *)
(* binary64, any metric: dq i is the computed distance to point i, R_ i the exact one, e i a bound on the
   error, S the k nearest points (any list of k distinct indices) *)
Theorem knn_set_float_robust (dq : nat -> PrimFloat.float) (R_ e : nat -> R) (n k : nat) (S : list nat) :
  NoDup S -> length S = k -> (1 <= k)%nat -> (forall s, In s S -> (s < n)%nat) ->
  (forall i, (i < n)%nat -> ffin (dq i) /\ Rabs (FR (dq i) - R_ i) <= e i) ->
  (forall s j, In s S -> (j < n)%nat -> ~ In j S -> e s + e j < R_ j - R_ s) ->
  (exists resF, linear_find PrimFloat.ltb PrimFloat.leb infinity dq n k = Some resF /\
                Permutation S (map fst resF) /\ (forall i d, In (i, d) resF -> d = dq i)) /\
  (forall dinfR, (forall i, (i < n)%nat -> R_ i < dinfR) ->
     exists resR, linear_find Rltb Rleb dinfR R_ n k = Some resR /\
                  Permutation S (map fst resR) /\ (forall i d, In (i, d) resR -> d = R_ i)).
Proof.
  intros NS LS Hk1 HSn Herr Hsep.
  assert (Hkn : (k <= n)%nat).
  { rewrite <- LS, <- (seq_length n 0). apply NoDup_incl_length; [exact NS|].
    intros s Hs. apply in_seq. specialize (HSn s Hs). lia. }
  assert (Hfin : forall i, (i < n)%nat -> ffin (dq i)) by (intros i Hi; apply (Herr i Hi)).
  assert (He0 : forall i, (i < n)%nat -> 0 <= e i).
  { intros i Hi. destruct (Herr i Hi) as [_ H]. pose proof (Rabs_pos (FR (dq i) - R_ i)). lra. }
  split.
  - set (fk := fkey dq n).
    set (ltK := fun a b : option nat => PrimFloat.ltb (fk a) (fk b)).
    set (leK := fun a b : option nat => PrimFloat.leb (fk a) (fk b)).
    pose proof (fkey_preorder dq n Hfin) as PO. fold fk in PO. fold ltK leK in PO.
    assert (FK : forall i, (i < n)%nat -> fk (Some i) = dq i).
    { intros i Hi. unfold fk. cbn [fkey]. rewrite (proj2 (Nat.ltb_lt i n) Hi). reflexivity. }
    destruct (linear_find_exact ltK leK None PO Some n k) as (res1 & E1 & KN).
    { intros i Hi. unfold ltK. rewrite (FK i Hi). change (fk None) with infinity.
      exact (proj1 (fcmp_fin_inf _ (Hfin i Hi))). }
    { lia. }
    pose proof (linear_find_map ltK leK PrimFloat.ltb PrimFloat.leb fk None
                  (fun a b => eq_refl) (fun a b => eq_refl) Some n k) as NAT.
    rewrite E1 in NAT. cbn [option_map] in NAT. change (fk None) with infinity in NAT.
    rewrite (linear_find_ext _ _ _ (fun i => fk (Some i)) dq n k FK) in NAT.
    exists (map (fun p : nat * option nat => (fst p, fk (snd p))) res1).
    split; [exact NAT|]. split.
    + rewrite map_map. cbn [fst]. change (map (fun x : nat * option nat => fst x) res1) with (map fst res1).
      apply (knn_set_unique leK Some n k res1 S KN NS LS HSn).
      intros s j Hs Hj HjS. unfold leK. rewrite (FK j Hj), (FK s (HSn s Hs)).
      rewrite (fleb_finite _ _ (Hfin j Hj) (Hfin s (HSn s Hs))). apply Rle_bool_false.
      destruct (Herr j Hj) as [_ Ej]. destruct (Herr s (HSn s Hs)) as [_ Es].
      specialize (Hsep s j Hs Hj HjS). apply Rabs_le_inv in Ej. apply Rabs_le_inv in Es. lra.
    + intros i d Hin. apply in_map_iff in Hin as ([i' d'] & E & Hp). cbn [fst snd] in E.
      injection E as <- <-. destruct KN as (_ & _ & KI & _). destruct (KI _ _ Hp) as [Hi ->]. apply FK, Hi.
  - intros dinfR Hinf.
    destruct (linear_find_exact Rltb Rleb dinfR R_preorder R_ n k) as (resR & ER & KN).
    { intros i Hi. apply Rltb_true, Hinf, Hi. }
    { lia. }
    exists resR. split; [exact ER|]. split.
    + apply (knn_set_unique Rleb R_ n k resR S KN NS LS HSn).
      intros s j Hs Hj HjS. apply Rleb_false. specialize (Hsep s j Hs Hj HjS).
      pose proof (He0 j Hj). pose proof (He0 s (HSn s Hs)). lra.
    + intros i d Hin. destruct KN as (_ & _ & KI & _). exact (proj2 (KI _ _ Hin)).
Qed.
