(* C04 — the exhaustive scan in binary64 for general k with the Euclidean metric the k-NN estimators use
   (Euclidian::distance = sqrt of the squared-distance fold): ProofsFloatScan.knn_set_float_robust
   instantiated with the error bound of C17.ProofsFloat.euclidian_float_error_checked, as packaged by
   C12.ProofsFloatKnn.euclidF_error (|computed - exact| <= ((1+u)^(p+3) - 1) * exact for p coordinates,
   no underflow in the squared differences).  Generalises C12.ProofsFloatKnn.knn1_euclid_float_robust. *)
From Coq Require Import List Arith ZArith Bool Reals Floats Lra Lia Psatz Permutation.
From SC Require Import Base.FloatUtil Base.Num Base.FloatError C04.Model C04.ProofsFloatScan.
From SC Require C17.ProofsFloat.
From SC Require Import C12.ProofsFloatKnn.
Import ListNotations.
Local Open Scope R_scope.

Theorem knn_set_euclid_float_robust (data : list (list PrimFloat.float)) (q : list PrimFloat.float)
        (k : nat) (S : list nat) :
  let n := length data in
  let p := length q in
  let dq := fun i => euclidF q (nth i data []) in
  let R_ := fun i => euclidR (map FR q) (map FR (nth i data [])) in
  NoDup S -> length S = k -> (1 <= k)%nat -> (forall s, In s S -> (s < n)%nat) ->
  (forall i, (i < n)%nat -> length (nth i data []) = p /\ ffin (dq i) /\
                            C17.ProofsFloat.diff_normal_b q (nth i data []) = true) ->
  (forall s j, In s S -> (j < n)%nat -> ~ In j S -> Eu (p + 3) * (R_ s + R_ j) < R_ j - R_ s) ->
  (exists resF, linear_find PrimFloat.ltb PrimFloat.leb infinity dq n k = Some resF /\
                Permutation S (map fst resF) /\ (forall i d, In (i, d) resF -> d = dq i)) /\
  (forall dinfR, (forall i, (i < n)%nat -> R_ i < dinfR) ->
     exists resR, linear_find Rltb Rleb dinfR R_ n k = Some resR /\
                  Permutation S (map fst resR) /\ (forall i d, In (i, d) resR -> d = R_ i)).
Proof.
  intros n p dq R_ NS LS Hk HSn Hh Hsep.
  apply (knn_set_float_robust dq R_ (fun i => Eu (p + 3) * R_ i) n k S NS LS Hk HSn).
  - intros i Hi. destruct (Hh i Hi) as (L & F & B). split; [exact F|].
    apply (euclidF_error q (nth i data []) (eq_sym L) F B).
  - intros s j Hs Hj HjS. specialize (Hsep s j Hs Hj HjS). lra.
Qed.
