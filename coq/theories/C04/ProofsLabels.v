(* C04 — the classifier's label mapping (KNNClassifier::fit: `classes = y.unique()` = sort ascending + dedup,
   `yi = classes.iter().position(|c| yc == *c)`): insert_label / dedup / unique / position of the model,
   for every element type whose `oltb` is a strict total order and whose `oeqb` decides equality
   (the reals; binary64 without NaN and with one zero). *)
From Coq Require Import List Arith Bool Lia Sorted.
From SC Require Import Base.Num C04.Model.
Import ListNotations.

Section Labels.
  Context {T : Type} (O : Ops T).
  Notation ltb := (oltb O).
  Notation eqb := (oeqb O).

  (* the order used by sort_by(partial_cmp) and the equality used by dedup / position *)
  Record label_order : Prop := {
    lo_eqb : forall a b, eqb a b = true <-> a = b;
    lo_irrefl : forall a, ltb a a = false;
    lo_trans : forall a b c, ltb a b = true -> ltb b c = true -> ltb a c = true;
    lo_total : forall a b, ltb a b = false -> ltb b a = false -> a = b }.
  Hypothesis LO : label_order.

  Definition lle (a b : T) : Prop := ltb b a = false.
  Definition llt (a b : T) : Prop := ltb a b = true.

  Lemma lle_trans a b c : lle a b -> lle b c -> lle a c.
  Proof.
    unfold lle. intros H1 H2. destruct (ltb c a) eqn:E; auto. exfalso.
    (* c < a, not b < a, not c < b *)
    destruct (ltb a b) eqn:E1.
    - pose proof (lo_trans LO c a b E E1). congruence.
    - pose proof (lo_total LO a b E1 H1). subst. congruence.
  Qed.
  Lemma llt_lle a b : llt a b -> lle a b.
  Proof.
    unfold llt, lle. intros H. destruct (ltb b a) eqn:E; auto.
    pose proof (lo_trans LO a b a H E). rewrite (lo_irrefl LO) in H0. discriminate.
  Qed.
  Lemma lle_neq_llt a b : lle a b -> a <> b -> llt a b.
  Proof.
    unfold llt, lle. intros H N. destruct (ltb a b) eqn:E; auto. exfalso. apply N. now apply (lo_total LO).
  Qed.
  Lemma llt_lle_trans a b c : llt a b -> lle b c -> llt a c.
  Proof.
    intros H1 H2. apply lle_neq_llt.
    - eapply lle_trans; [apply llt_lle|]; eauto.
    - intros ->. unfold llt, lle in *. congruence.
  Qed.

  (* ---- insert_label / the insertion sort ---- *)
  Lemma insert_label_in x l z : In z (insert_label O x l) <-> z = x \/ In z l.
  Proof.
    induction l as [|y t IH]; simpl.
    - intuition.
    - destruct (ltb y x); simpl; [rewrite IH|]; intuition.
  Qed.
  Lemma insert_label_sorted x l : StronglySorted lle l -> StronglySorted lle (insert_label O x l).
  Proof.
    induction l as [|y t IH]; simpl; intros S.
    - constructor; [constructor|constructor].
    - inversion S as [|? ? St Ft]; subst. destruct (ltb y x) eqn:E.
      + constructor; [now apply IH|]. apply Forall_forall. intros z Hz.
        apply insert_label_in in Hz. destruct Hz as [->|Hz].
        * now apply llt_lle.
        * rewrite Forall_forall in Ft. now apply Ft.
      + constructor; auto. constructor; [exact E|].
        apply Forall_forall. intros z Hz. rewrite Forall_forall in Ft.
        apply (lle_trans x y z); [exact E|now apply Ft].
  Qed.
  Lemma sort_label_in l z : In z (fold_right (insert_label O) [] l) <-> In z l.
  Proof.
    induction l as [|a l IH]; simpl; [tauto|]. rewrite insert_label_in, IH. intuition.
  Qed.
  Lemma sort_label_sorted l : StronglySorted lle (fold_right (insert_label O) [] l).
  Proof. induction l; simpl; [constructor|now apply insert_label_sorted]. Qed.

  (* ---- dedup ---- *)
  Lemma dedup_head a t : exists t', dedup O (a :: t) = a :: t'.
  Proof.
    simpl. destruct (dedup O t) as [|b t'] eqn:E; [now exists []|].
    destruct (eqb a b) eqn:Eab.
    - apply (lo_eqb LO) in Eab. subst. now exists t'.
    - now exists (b :: t').
  Qed.
  Lemma dedup_in l z : In z (dedup O l) <-> In z l.
  Proof.
    induction l as [|a t IH]; simpl; [tauto|].
    destruct (dedup O t) as [|b t'] eqn:E.
    - simpl in *. intuition.
    - destruct (eqb a b) eqn:Eab.
      + apply (lo_eqb LO) in Eab. subst. rewrite <- IH. simpl. intuition.
      + rewrite <- IH. simpl. intuition.
  Qed.
  Lemma dedup_sorted l : StronglySorted lle l -> StronglySorted llt (dedup O l).
  Proof.
    induction l as [|a t IH]; intros S; [constructor|].
    inversion S as [|? ? St Ft]; subst. specialize (IH St). simpl.
    destruct (dedup O t) as [|b t'] eqn:E.
    - constructor; constructor.
    - destruct (eqb a b) eqn:Eab; [exact IH|].
      assert (Hab : llt a b).
      { apply lle_neq_llt.
        - rewrite Forall_forall in Ft. apply Ft. apply dedup_in. rewrite E. now left.
        - intros ->. assert (eqb b b = true) by now apply (lo_eqb LO). congruence. }
      constructor; [exact IH|]. constructor; [exact Hab|].
      inversion IH as [|? ? _ Fb]; subst. apply Forall_forall. intros z Hz.
      rewrite Forall_forall in Fb. eapply llt_lle_trans; [exact Hab|]. apply llt_lle. now apply Fb.
  Qed.

  (* ---- unique ---- *)
  Lemma unique_in l z : In z (unique O l) <-> In z l.
  Proof. unfold unique. now rewrite dedup_in, sort_label_in. Qed.
  Lemma unique_sorted l : StronglySorted llt (unique O l).
  Proof. unfold unique. apply dedup_sorted, sort_label_sorted. Qed.

  Lemma ssorted_nth (d : T) l : StronglySorted llt l ->
    forall i j, i < j < length l -> llt (nth i l d) (nth j l d).
  Proof.
    induction l as [|a t IH]; intros S i j Hij; simpl in *; [lia|].
    inversion S as [|? ? St Ft]; subst. destruct j as [|j]; [lia|]. destruct i as [|i].
    - rewrite Forall_forall in Ft. apply Ft. apply nth_In. lia.
    - apply IH; auto. lia.
  Qed.

  (* ---- position ---- *)
  Lemma position_in (d : T) c l : In c l -> position O c l < length l /\ nth (position O c l) l d = c.
  Proof.
    induction l as [|x t IH]; simpl; intros H; [contradiction|].
    destruct (eqb c x) eqn:E.
    - apply (lo_eqb LO) in E. subst. split; [lia|reflexivity].
    - destruct H as [->|H].
      + assert (eqb c c = true) by now apply (lo_eqb LO). congruence.
      + destruct (IH H). split; [lia|auto].
  Qed.
  Lemma position_nth (d : T) l : StronglySorted llt l ->
    forall i, i < length l -> position O (nth i l d) l = i.
  Proof.
    induction l as [|x t IH]; intros S i Hi; simpl in *; [lia|].
    inversion S as [|? ? St Ft]; subst. destruct i as [|i].
    - assert (eqb x x = true) by now apply (lo_eqb LO). now rewrite H.
    - assert (Hx : llt x (nth i t d)). { rewrite Forall_forall in Ft. apply Ft. apply nth_In. lia. }
      destruct (eqb (nth i t d) x) eqn:E.
      + apply (lo_eqb LO) in E. rewrite E in Hx. unfold llt in Hx. rewrite (lo_irrefl LO) in Hx. discriminate.
      + f_equal. apply IH; auto. lia.
  Qed.

  (* KNNClassifier::fit's label mapping: `classes` is strictly increasing, has exactly the values of the label
     vector, and position / nth are mutually inverse between the labels and 0..|classes|-1 *)
  Theorem classes_sorted_unique (d : T) (ys : list T) :
    let cl := unique O ys in
    (forall i j, i < j < length cl -> ltb (nth i cl d) (nth j cl d) = true) /\
    (forall x, In x cl <-> In x ys) /\
    (forall y, In y ys -> position O y cl < length cl /\ nth (position O y cl) cl d = y) /\
    (forall i, i < length cl -> position O (nth i cl d) cl = i).
  Proof.
    intros cl. split; [|split; [|split]].
    - apply ssorted_nth. apply unique_sorted.
    - intros x. apply unique_in.
    - intros y Hy. apply position_in. now apply unique_in.
    - apply position_nth. apply unique_sorted.
  Qed.
End Labels.
