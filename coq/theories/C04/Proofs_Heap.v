(* C04 — proofs about HeapSelection and LinearKNNSearch *)
From Coq Require Import List Arith Bool Lia Permutation Sorted ZArith Zify ZifyNat.
From SC Require Import C04.Model.
Import ListNotations.
Ltac Zify.zify_post_hook ::= Z.div_mod_to_equations.

(* total preorder seen through the two boolean comparisons the code uses *)
Record preorder {A} (ltb leb : A -> A -> bool) : Prop := {
  leb_total : forall a b, leb a b = true \/ leb b a = true;
  leb_trans : forall a b c, leb a b = true -> leb b c = true -> leb a c = true;
  ltb_leb : forall a b, ltb a b = negb (leb b a) }.

Section HeapProofs.
  Context {A : Type} (ltb leb : A -> A -> bool) (d0 : A).
  Hypothesis PO : preorder ltb leb.
  Notation "a <== b" := (leb a b = true) (at level 70).

  Lemma leb_refl a : a <== a.
  Proof. destruct (leb_total _ _ PO a a); auto. Qed.
  Lemma ltb_true a b : ltb a b = true -> a <== b.
  Proof.
    rewrite (ltb_leb _ _ PO). intros H. destruct (leb_total _ _ PO a b) as [H1|H1]; auto.
    rewrite H1 in H. discriminate.
  Qed.
  Lemma ltb_false a b : ltb a b = false -> b <== a.
  Proof. rewrite (ltb_leb _ _ PO). destruct (leb b a); simpl; congruence. Qed.
  Lemma ltb_true_not a b : ltb a b = true -> leb b a = false.
  Proof. rewrite (ltb_leb _ _ PO). destruct (leb b a); simpl; congruence. Qed.
  Lemma leb_false a b : leb a b = false -> b <== a.
  Proof. intros H. destruct (leb_total _ _ PO a b) as [H1|H1]; congruence. Qed.
  Lemma lt_le_trans a b c : ltb a b = true -> b <== c -> ltb a c = true.
  Proof.
    rewrite !(ltb_leb _ _ PO). intros H1 H2. destruct (leb c a) eqn:E; auto.
    rewrite (leb_trans _ _ PO _ _ _ H2 E) in H1. discriminate.
  Qed.
  Lemma le_lt_trans a b c : a <== b -> ltb b c = true -> ltb a c = true.
  Proof.
    rewrite !(ltb_leb _ _ PO). intros H1 H2. destruct (leb c a) eqn:E; auto.
    rewrite (leb_trans _ _ PO _ _ _ E H1) in H2. discriminate.
  Qed.

  (* ---- upd / swap ---- *)
  Lemma upd_length (l : list A) i x : length (upd l i x) = length l.
  Proof. revert i; induction l; destruct i; simpl; auto. Qed.
  Lemma nth_upd_same (l : list A) i x : i < length l -> nth i (upd l i x) d0 = x.
  Proof. revert i; induction l; destruct i; simpl; intros; try lia; auto. apply IHl; lia. Qed.
  Lemma nth_upd_other (l : list A) i j x : i <> j -> nth j (upd l i x) d0 = nth j l d0.
  Proof. revert i j; induction l; destruct i, j; simpl; intros; try lia; auto. Qed.
  Lemma upd_nth_id (l : list A) i : upd l i (nth i l d0) = l.
  Proof. revert i; induction l; destruct i; simpl; auto. f_equal; auto. Qed.
  Lemma upd_perm (l : list A) i x : i < length l -> Permutation (x :: l) (nth i l d0 :: upd l i x).
  Proof.
    revert i; induction l as [|a l IH]; destruct i; simpl; intros; try lia.
    - apply perm_swap.
    - eapply perm_trans; [apply perm_swap|]. eapply perm_trans; [|apply perm_swap].
      constructor. apply IH; lia.
  Qed.
  Lemma swap_length (l : list A) i j : length (swap d0 l i j) = length l.
  Proof. unfold swap. now rewrite !upd_length. Qed.
  Lemma swap_perm (l : list A) i j : i < length l -> j < length l -> Permutation (swap d0 l i j) l.
  Proof.
    intros Hi Hj. unfold swap. destruct (Nat.eq_dec i j) as [->|Hij].
    - rewrite upd_nth_id. rewrite upd_nth_id. reflexivity.
    - apply Permutation_cons_inv with (a := nth j l d0).
      eapply perm_trans; [|apply Permutation_sym, (upd_perm l i (nth j l d0) Hi)].
      pose proof (upd_perm (upd l i (nth j l d0)) j (nth i l d0)) as H.
      rewrite upd_length in H. specialize (H Hj). rewrite nth_upd_other in H by auto.
      apply Permutation_sym. exact H.
  Qed.
  Lemma nth_swap (l : list A) i j c : i < length l -> j < length l ->
    nth c (swap d0 l i j) d0 = if c =? j then nth i l d0 else if c =? i then nth j l d0 else nth c l d0.
  Proof.
    intros Hi Hj. unfold swap.
    destruct (c =? j) eqn:Ej.
    - apply Nat.eqb_eq in Ej; subst. apply nth_upd_same. now rewrite upd_length.
    - apply Nat.eqb_neq in Ej. rewrite nth_upd_other by congruence.
      destruct (c =? i) eqn:Ei.
      + apply Nat.eqb_eq in Ei; subst. now apply nth_upd_same.
      + apply Nat.eqb_neq in Ei. apply nth_upd_other; congruence.
  Qed.

  (* ---- sift_down: permutation, length ---- *)
  Definition pick_child (h : list A) (kk n : nat) : nat :=
    if (2 * kk <? n) && ltb (nth (2 * kk) h d0) (nth (2 * kk + 1) h d0) then 2 * kk + 1 else 2 * kk.
  Lemma sift_down_S f h kk n :
    sift_down ltb leb d0 (S f) h kk n =
    if 2 * kk <=? n then
      if leb (nth (pick_child h kk n) h d0) (nth kk h d0) then h
      else sift_down ltb leb d0 f (swap d0 h kk (pick_child h kk n)) (pick_child h kk n) n
    else h.
  Proof. reflexivity. Qed.
  Lemma pick_child_spec h kk n : 2 * kk <= n -> n < length h ->
    let j := pick_child h kk n in
    j <= n /\ (j = 2 * kk \/ j = 2 * kk + 1) /\
    (forall c, c <= n -> c = 2 * kk \/ c = 2 * kk + 1 -> nth c h d0 <== nth j h d0).
  Proof.
    intros E Hn. unfold pick_child. destruct (2 * kk <? n) eqn:E2; cbn [andb].
    - apply Nat.ltb_lt in E2. destruct (ltb (nth (2 * kk) h d0) (nth (2 * kk + 1) h d0)) eqn:E3.
      + split; [lia|]. split; [lia|]. intros c Hc [->| ->].
        * now apply ltb_true. * apply leb_refl.
      + split; [lia|]. split; [lia|]. intros c Hc [->| ->].
        * apply leb_refl. * now apply ltb_false.
    - apply Nat.ltb_ge in E2. split; [lia|]. split; [lia|]. intros c Hc [->| ->]; [apply leb_refl|lia].
  Qed.
  Lemma sift_down_length f : forall h kk n, length (sift_down ltb leb d0 f h kk n) = length h.
  Proof.
    induction f; intros; [reflexivity|]. rewrite sift_down_S.
    destruct (2 * kk <=? n); auto.
    destruct (leb _ _); auto.
    rewrite IHf. apply swap_length.
  Qed.
  Lemma sift_down_perm f : forall h kk n, n < length h -> kk < length h ->
    Permutation (sift_down ltb leb d0 f h kk n) h.
  Proof.
    induction f; intros h kk n Hn Hk; [reflexivity|]. rewrite sift_down_S.
    destruct (2 * kk <=? n) eqn:E; auto. apply Nat.leb_le in E.
    destruct (pick_child_spec h kk n E Hn) as (Hj & _ & _).
    destruct (leb _ _); auto.
    eapply perm_trans; [apply IHf; rewrite ?swap_length; lia|]. apply swap_perm; lia.
  Qed.

  (* ---- heap order: parent of c >= 1 is c / 2 (node 0 has the single child 1) ---- *)
  Definition heap_ok (h : list A) : Prop :=
    forall c, 1 <= c < length h -> nth c h d0 <== nth (c / 2) h d0.
  Definition sift_inv (h : list A) (kk : nat) : Prop :=
    (forall c, 1 <= c < length h -> c / 2 <> kk -> nth c h d0 <== nth (c / 2) h d0) /\
    (1 <= kk -> forall c, 1 <= c < length h -> c / 2 = kk -> nth c h d0 <== nth (kk / 2) h d0).

  Lemma heap_ok_root h : heap_ok h -> forall c, c < length h -> nth c h d0 <== nth 0 h d0.
  Proof.
    intros H c. induction c as [c IH] using lt_wf_ind. intros Hc.
    destruct (Nat.eq_dec c 0) as [->|Hn]; [apply leb_refl|].
    eapply (leb_trans _ _ PO); [apply H; lia|]. apply IH; lia.
  Qed.

  Lemma sift_down_ok f : forall h kk, h <> [] -> kk < length h ->
    length h + 1 <= f + kk -> sift_inv h kk ->
    heap_ok (sift_down ltb leb d0 f h kk (length h - 1)).
  Proof.
    induction f; intros h kk Hne Hk Hf [I1 I2].
    - simpl. intros c Hc. apply I1; auto. simpl in Hf. lia.
    - rewrite sift_down_S. destruct (2 * kk <=? length h - 1) eqn:E.
      2:{ apply Nat.leb_gt in E. intros c Hc. apply I1; auto. lia. }
      apply Nat.leb_le in E.
      assert (Hlen : length h - 1 < length h) by (destruct h; simpl in *; [congruence|lia]).
      destruct (pick_child_spec h kk _ E Hlen) as (Hjl & Hjv & Hjmax).
      set (j := pick_child h kk (length h - 1)) in *.
      destruct (leb (nth j h d0) (nth kk h d0)) eqn:E4.
      + (* break *)
        intros c Hc. destruct (Nat.eq_dec (c / 2) kk) as [Hck|Hck]; [|apply I1; auto].
        rewrite Hck. eapply (leb_trans _ _ PO); [apply Hjmax; lia|exact E4].
      + (* swap and continue at j *)
        assert (Hjk : j <> kk).
        { intros Heq. rewrite Heq, leb_refl in E4. discriminate. }
        assert (Hlt : nth kk h d0 <== nth j h d0) by (apply leb_false; exact E4).
        pose proof (swap_length h kk j) as SL.
        replace (length h - 1) with (length (swap d0 h kk j) - 1) by (rewrite SL; reflexivity).
        assert (Hjl' : j < length h) by lia.
        apply IHf.
        * intros Hs. apply (f_equal (@length A)) in Hs. rewrite SL in Hs. destruct h; simpl in *; congruence.
        * rewrite SL; auto.
        * rewrite SL. lia.
        * split.
          -- intros c Hc Hcj. rewrite ?SL in Hc. rewrite !nth_swap by auto.
             destruct (c =? j) eqn:C1.
             ++ apply Nat.eqb_eq in C1; subst c.
                assert (Hj2 : j / 2 = kk) by lia.
                replace (j / 2 =? j) with false by (symmetry; apply Nat.eqb_neq; lia).
                rewrite Hj2, Nat.eqb_refl. exact Hlt.
             ++ apply Nat.eqb_neq in C1.
                destruct (c =? kk) eqn:C2.
                ** apply Nat.eqb_eq in C2; subst c.
                   replace (kk / 2 =? j) with false by (symmetry; apply Nat.eqb_neq; lia).
                   replace (kk / 2 =? kk) with false by (symmetry; apply Nat.eqb_neq; lia).
                   apply I2; try lia.
                ** apply Nat.eqb_neq in C2.
                   replace (c / 2 =? j) with false by (symmetry; apply Nat.eqb_neq; lia).
                   destruct (c / 2 =? kk) eqn:C3.
                   --- apply Nat.eqb_eq in C3. apply Hjmax; lia.
                   --- apply Nat.eqb_neq in C3. apply I1; auto.
          -- intros Hj1 c Hc Hcj. rewrite ?SL in Hc. rewrite !nth_swap by auto.
             replace (c =? j) with false by (symmetry; apply Nat.eqb_neq; lia).
             replace (c =? kk) with false by (symmetry; apply Nat.eqb_neq; lia).
             assert (Hj2 : j / 2 = kk) by lia. rewrite Hj2.
             replace (kk =? j) with false by (symmetry; apply Nat.eqb_neq; lia).
             rewrite Nat.eqb_refl. replace (nth j h d0) with (nth (c / 2) h d0) by (rewrite Hcj; reflexivity). apply I1; lia.
  Qed.

  (* ---- sift from the root after the root was overwritten ---- *)
  Lemma sift_root_ok h x : heap_ok h -> h <> [] ->
    heap_ok (sift ltb leb d0 (upd h 0 x) 0 (length h - 1)) /\
    Permutation (sift ltb leb d0 (upd h 0 x) 0 (length h - 1)) (upd h 0 x).
  Proof.
    intros H Hne. assert (Hl : 0 < length h) by (destruct h; simpl; [congruence|lia]).
    unfold sift. split.
    - replace (length h - 1) with (length (upd h 0 x) - 1) at 2 by now rewrite upd_length.
      apply sift_down_ok.
      + intros E. apply (f_equal (@length A)) in E. rewrite upd_length in E. simpl in E. lia.
      + rewrite upd_length; lia.
      + rewrite upd_length; lia.
      + split; [|lia]. intros c Hc Hc0. rewrite upd_length in Hc.
        rewrite !nth_upd_other by lia. apply H; lia.
    - apply sift_down_perm; rewrite upd_length; lia.
  Qed.

  (* ---- sort_desc ---- *)
  Lemma insert_desc_perm x l : Permutation (insert_desc ltb x l) (x :: l).
  Proof.
    induction l as [|y t IH]; simpl; auto. destruct (ltb x y); auto.
    eapply perm_trans; [apply perm_skip, IH|apply perm_swap].
  Qed.
  Lemma sort_desc_perm l : Permutation (sort_desc ltb l) l.
  Proof.
    induction l; simpl; auto. eapply perm_trans; [apply insert_desc_perm|]. now constructor.
  Qed.
  Definition desc := StronglySorted (fun a b : A => b <== a).
  Lemma insert_desc_sorted x l : desc l -> desc (insert_desc ltb x l).
  Proof.
    induction 1 as [|y t Ht IH Hy]; simpl.
    - repeat constructor.
    - destruct (ltb x y) eqn:E.
      + constructor; auto.
        eapply Permutation_Forall; [apply Permutation_sym, insert_desc_perm|].
        constructor; auto. now apply ltb_true.
      + constructor; [constructor; auto|].
        constructor; [now apply ltb_false|].
        eapply Forall_impl; [|exact Hy]. intros a Ha. simpl in Ha.
        eapply (leb_trans _ _ PO); [exact Ha|now apply ltb_false].
  Qed.
  Lemma sort_desc_sorted l : desc (sort_desc ltb l).
  Proof. induction l; simpl; [constructor|now apply insert_desc_sorted]. Qed.
  Lemma desc_nth l : desc l -> forall i j, i <= j < length l -> nth j l d0 <== nth i l d0.
  Proof.
    induction 1 as [|y t Ht IH Hy]; intros i j Hij; simpl in Hij; [lia|].
    destruct i, j; simpl; try lia.
    - apply leb_refl.
    - rewrite Forall_forall in Hy. apply Hy. apply nth_In. lia.
    - apply IH. lia.
  Qed.
  Lemma desc_heap_ok l : desc l -> heap_ok l.
  Proof. intros H c Hc. apply desc_nth; auto. lia. Qed.

  (* ---- max_by ---- *)
  Lemma max_by_fold t : forall a,
    let m := fold_left (fun acc x => if ltb x acc then acc else x) t a in
    In m (a :: t) /\ (forall x, In x (a :: t) -> x <== m).
  Proof.
    induction t as [|b t IH]; intros a; simpl.
    - split; auto. intros x [->|[]]. apply leb_refl.
    - destruct (ltb b a) eqn:E.
      + destruct (IH a) as [H1 H2]. split.
        * simpl in H1. tauto.
        * intros x [->|[->|Hx]].
          -- apply H2; simpl; auto.
          -- eapply (leb_trans _ _ PO); [apply ltb_true; exact E|]. apply H2; simpl; auto.
          -- apply H2; simpl; auto.
      + destruct (IH b) as [H1 H2]. split.
        * simpl in H1. tauto.
        * intros x [->|[->|Hx]].
          -- eapply (leb_trans _ _ PO); [apply ltb_false; exact E|]. apply H2; simpl; auto.
          -- apply H2; simpl; auto.
          -- apply H2; simpl; auto.
  Qed.
  Lemma max_by_spec l : l <> [] ->
    In (max_by ltb d0 l) l /\ (forall x, In x l -> x <== max_by ltb d0 l).
  Proof. destruct l as [|a t]; [congruence|]. intros _. apply max_by_fold. Qed.

  (* ---- the selection invariant ---- *)
  Definition hs_inv (k : nat) (h : heapsel A) (added : list A) : Prop :=
    hk h = k /\ hn h = length added /\ length (hheap h) = Nat.min k (length added) /\
    (k <= length added -> heap_ok (hheap h)) /\
    (hsorted h = true -> forall x, In x (hheap h) -> x <== nth 0 (hheap h) d0) /\
    exists rest, Permutation added (hheap h ++ rest) /\
                 (forall x y, In x (hheap h) -> In y rest -> x <== y).

  Lemma hs_inv_init k : hs_inv k (with_capacity k) [].
  Proof.
    unfold hs_inv, with_capacity; simpl.
    split; [reflexivity|]. split; [reflexivity|]. split; [lia|].
    split; [intros _ c Hc; simpl in Hc; lia|].
    split; [discriminate|].
    exists []. split; auto.
  Qed.

  Lemma hs_peek_spec k h added : hs_inv k h added -> hheap h <> [] ->
    In (hs_peek ltb d0 h) (hheap h) /\ (forall x, In x (hheap h) -> x <== hs_peek ltb d0 h).
  Proof.
    intros (_ & _ & _ & _ & Hs & _) Hne. unfold hs_peek. destruct (hsorted h).
    - split; [|apply Hs; auto]. destruct (hheap h); [congruence|simpl; auto].
    - now apply max_by_spec.
  Qed.

  Lemma hs_add_content k h added x : 1 <= k -> hs_inv k h added ->
    (length added < k /\ Permutation (hheap (hs_add ltb leb d0 h x)) (x :: hheap h)) \/
    (k <= length added /\ ltb x (nth 0 (hheap h) d0) = true /\
     Permutation (nth 0 (hheap h) d0 :: hheap (hs_add ltb leb d0 h x)) (x :: hheap h)) \/
    (k <= length added /\ ltb x (nth 0 (hheap h) d0) = false /\
     hheap (hs_add ltb leb d0 h x) = hheap h).
  Proof.
    intros Hk (Ek & En & El & Hok & Hs & rest & Hp & Hr). unfold hs_add. rewrite Ek, En.
    destruct (length added <? k) eqn:E.
    - apply Nat.ltb_lt in E. left. split; auto.
      destruct (S (length added) =? k); simpl.
      + eapply perm_trans; [apply sort_desc_perm|]. apply Permutation_sym, Permutation_cons_append.
      + apply Permutation_sym, Permutation_cons_append.
    - apply Nat.ltb_ge in E. right.
      destruct (hheap h) as [|top t] eqn:Eh.
      { simpl in El. lia. }
      cbn [nth]. destruct (ltb x top) eqn:Ex; [left|right]; repeat split; auto.
      cbn [hheap].
      destruct (sift_root_ok (top :: t) x) as [_ P]; [apply Hok; exact E|congruence|].
      replace (k - 1) with (length (top :: t) - 1) by (rewrite El; lia).
      eapply perm_trans; [apply perm_skip, P|]. simpl. apply perm_swap.
  Qed.

  Lemma hs_add_inv k h added x : 1 <= k -> hs_inv k h added ->
    hs_inv k (hs_add ltb leb d0 h x) (added ++ [x]).
  Proof.
    intros Hk Inv. pose proof (hs_add_content k h added x Hk Inv) as C.
    destruct Inv as (Ek & En & El & Hok & Hs & rest & Hp & Hr).
    assert (Ek' : hk (hs_add ltb leb d0 h x) = k /\ hn (hs_add ltb leb d0 h x) = length (added ++ [x])).
    { rewrite app_length; simpl. unfold hs_add. rewrite Ek, En.
      destruct (length added <? k); [destruct (S (length added) =? k)|destruct (hheap h); [|destruct (ltb x a)]];
        simpl; split; auto; lia. }
    destruct Ek' as [Ek' En'].
    unfold hs_inv. split; [exact Ek'|]. split; [exact En'|]. rewrite app_length. simpl length.
    destruct C as [(Hlt & P)|[(Hge & Ex & P)|(Hge & Ex & P)]].
    - (* not full before *)
      assert (Hrest : rest = []).
      { apply Permutation_length in Hp. rewrite app_length, El in Hp. destruct rest; auto. simpl in Hp. lia. }
      subst rest. rewrite app_nil_r in Hp.
      refine (conj _ (conj _ (conj _ _))).
      + apply Permutation_length in P. rewrite P. simpl. lia.
      + intros Hfull. assert (E : S (length added) = k) by lia.
        unfold hs_add. rewrite Ek, En. replace (length added <? k) with true by (symmetry; apply Nat.ltb_lt; lia).
        replace (S (length added) =? k) with true by (symmetry; apply Nat.eqb_eq; lia).
        simpl. apply desc_heap_ok, sort_desc_sorted.
      + unfold hs_add. rewrite Ek, En. replace (length added <? k) with true by (symmetry; apply Nat.ltb_lt; lia).
        destruct (S (length added) =? k); simpl; [|discriminate].
        intros _ y Hy. destruct (In_nth _ _ d0 Hy) as (i & Hi & <-).
        apply desc_nth; [apply sort_desc_sorted|lia].
      + exists []. rewrite app_nil_r. split; [|intros ? ? _ []].
        eapply perm_trans; [|apply Permutation_sym, P].
        eapply perm_trans; [apply Permutation_sym, Permutation_cons_append|]. now constructor.
    - (* full, root replaced *)
      assert (Hne : hheap h <> []) by (intros E; rewrite E in El; simpl in El; lia).
      assert (Hroot : forall y, In y (hheap h) -> y <== nth 0 (hheap h) d0).
      { intros y Hy. destruct (In_nth _ _ d0 Hy) as (i & Hi & <-). apply heap_ok_root; auto. }
      set (top := nth 0 (hheap h) d0) in *.
      assert (Hin : forall y, In y (hheap (hs_add ltb leb d0 h x)) -> y <== top).
      { intros y Hy. assert (In y (x :: hheap h)) as [<-|Hy'].
        { eapply Permutation_in; [exact P|]. now right. }
        - now apply ltb_true. - now apply Hroot. }
      refine (conj _ (conj _ (conj _ _))).
      + apply Permutation_length in P. simpl in P. lia.
      + intros _. unfold hs_add. rewrite Ek, En.
        replace (length added <? k) with false by (symmetry; apply Nat.ltb_ge; lia).
        destruct (hheap h) as [|t0 t] eqn:Eh; [congruence|].
        subst top. cbn [nth] in Ex. rewrite Ex. cbn [hheap].
        replace (k - 1) with (length (t0 :: t) - 1) by (rewrite El; lia).
        apply sift_root_ok; [auto|congruence].
      + unfold hs_add. rewrite Ek, En.
        replace (length added <? k) with false by (symmetry; apply Nat.ltb_ge; lia).
        destruct (hheap h) as [|t0 t]; [congruence|]. subst top. cbn [nth] in Ex. rewrite Ex. simpl. discriminate.
      + exists (top :: rest). split.
        * apply Permutation_trans with ((x :: hheap h) ++ rest).
          { simpl. eapply perm_trans; [apply Permutation_sym, Permutation_cons_append|]. constructor. exact Hp. }
          apply Permutation_trans with ((top :: hheap (hs_add ltb leb d0 h x)) ++ rest).
          { apply Permutation_app_tail. apply Permutation_sym. exact P. }
          simpl. apply Permutation_middle.
        * intros a b Ha [<-|Hb]; [now apply Hin|].
          eapply (leb_trans _ _ PO); [apply Hin; exact Ha|]. apply Hr; auto.
          subst top. destruct (hheap h); [congruence|simpl; auto].
    - (* full, unchanged *)
      assert (Hne : hheap h <> []) by (intros E; rewrite E in El; simpl in El; lia).
      assert (Hroot : forall y, In y (hheap h) -> y <== nth 0 (hheap h) d0).
      { intros y Hy. destruct (In_nth _ _ d0 Hy) as (i & Hi & <-). apply heap_ok_root; auto. }
      rewrite P. refine (conj _ (conj _ (conj _ _))).
      + lia.
      + intros _. apply Hok. lia.
      + unfold hs_add. rewrite Ek, En.
        replace (length added <? k) with false by (symmetry; apply Nat.ltb_ge; lia).
        destruct (hheap h) as [|t0 t]; [congruence|]. cbn [nth] in Ex. rewrite Ex. simpl. discriminate.
      + exists (x :: rest). split.
        * eapply perm_trans; [apply Permutation_app_tail, Hp|]. rewrite <- app_assoc.
          apply Permutation_app_head. simpl. apply Permutation_sym, Permutation_cons_append.
        * intros a b Ha [<-|Hb]; [|now apply Hr].
          eapply (leb_trans _ _ PO); [apply Hroot; exact Ha|now apply ltb_false].
  Qed.

  (* after any add sequence *)
  Lemma hs_adds_inv k l : 1 <= k -> forall h added, hs_inv k h added ->
    hs_inv k (fold_left (hs_add ltb leb d0) l h) (added ++ l).
  Proof.
    intros Hk. induction l as [|x l IH]; intros h added Inv; simpl.
    - now rewrite app_nil_r.
    - replace (added ++ x :: l) with ((added ++ [x]) ++ l) by (rewrite <- app_assoc; reflexivity).
      apply IH. now apply hs_add_inv.
  Qed.

  Theorem heap_keeps_k_smallest k l : 1 <= k -> l <> [] ->
    let h := fold_left (hs_add ltb leb d0) l (with_capacity k) in
    length (hs_get h) = Nat.min k (length l) /\
    (exists rest, Permutation l (hs_get h ++ rest) /\
                  forall x y, In x (hs_get h) -> In y rest -> x <== y) /\
    In (hs_peek ltb d0 h) (hs_get h) /\
    (forall x, In x (hs_get h) -> x <== hs_peek ltb d0 h).
  Proof.
    intros Hk Hne h. pose proof (hs_adds_inv k l Hk _ _ (hs_inv_init k)) as Inv. simpl in Inv. fold h in Inv.
    assert (Hh : hheap h <> []).
    { destruct Inv as (_ & _ & El & _). intros E. rewrite E in El. simpl in El.
      destruct l; [congruence|simpl in El; lia]. }
    destruct (hs_peek_spec _ _ _ Inv Hh) as [P1 P2].
    destruct Inv as (_ & _ & El & _ & _ & Hrest).
    unfold hs_get. repeat split; auto.
  Qed.
End HeapProofs.
