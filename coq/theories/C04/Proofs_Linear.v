(* C04 — LinearKNNSearch::{find, find_radius} are exact *)
From Coq Require Import List Arith Bool Lia Permutation Sorted.
From SC Require Import C04.Model C04.Proofs_Heap.
Import ListNotations.

(* the specification: `res` is a k-nearest set of the points 0..n-1 for the distances dq *)
Definition is_knn {D} (leb : D -> D -> bool) (dq : nat -> D) (n k : nat) (res : list (nat * D)) : Prop :=
  length res = k /\ NoDup (map fst res) /\
  (forall i d, In (i, d) res -> i < n /\ d = dq i) /\
  (forall i d j, In (i, d) res -> j < n -> ~ In j (map fst res) -> leb d (dq j) = true).

(* `res` is exactly the set of points within the radius *)
Definition is_ball {D} (leb : D -> D -> bool) (dq : nat -> D) (n : nat) (r : D) (res : list (nat * D)) : Prop :=
  NoDup (map fst res) /\
  (forall i d, In (i, d) res <-> (i < n /\ d = dq i /\ leb (dq i) r = true)).

Lemma NoDup_app_l' {X} (l l' : list X) : NoDup (l ++ l') -> NoDup l'.
Proof. induction l; simpl; auto. intros H; inversion H; auto. Qed.

Lemma pigeon (l : list nat) n : NoDup l -> length l < n -> exists j, j < n /\ ~ In j l.
Proof.
  intros ND Hl.
  destruct (forallb (fun j => existsb (Nat.eqb j) l) (seq 0 n)) eqn:E.
  - exfalso. rewrite forallb_forall in E.
    assert (incl (seq 0 n) l).
    { intros j Hj. specialize (E j Hj). apply existsb_exists in E. destruct E as (x & Hx & Ex).
      apply Nat.eqb_eq in Ex. now subst. }
    pose proof (NoDup_incl_length (seq_NoDup n 0) H) as L. rewrite seq_length in L. lia.
  - assert (exists j, In j (seq 0 n) /\ existsb (Nat.eqb j) l = false) as (j & Hj & Ej).
    { clear -E. induction (seq 0 n) as [|a t IH]; simpl in E; [discriminate|].
      destruct (existsb (Nat.eqb a) l) eqn:Ea; simpl in E.
      - destruct (IH E) as (j & Hj & Ej). exists j; simpl; auto.
      - exists a; simpl; auto. }
    exists j. apply in_seq in Hj. split; [lia|]. intros Hin.
    assert (existsb (Nat.eqb j) l = true) by (apply existsb_exists; exists j; split; auto; apply Nat.eqb_refl).
    congruence.
Qed.

Section LinearProofs.
  Context {D : Type} (ltb leb : D -> D -> bool) (dinf dzero : D).
  Hypothesis PO : preorder ltb leb.
  Notation "a <== b" := (leb a b = true) (at level 70).
  Notation kp := (@kpt D).
  Notation KL := (kltb ltb).
  Notation KE := (kleb leb).
  Notation K0 := (kd0 dinf).

  Lemma kpt_preorder : preorder KL KE.
  Proof.
    split; unfold kltb, kleb; intros.
    - apply (leb_total _ _ PO). - eapply (leb_trans _ _ PO); eauto. - apply (ltb_leb _ _ PO).
  Qed.
  Let KPO := kpt_preorder.

  (* ---- radius ---- *)
  Lemma linear_radius_exact dq n r res :
    linear_find_radius leb dzero dq n r = Some res -> is_ball leb dq n r res.
  Proof.
    unfold linear_find_radius. destruct (leb r dzero); [discriminate|]. intros E; inversion E; subst res; clear E.
    assert (G : forall s, let l := flat_map (fun i => if leb (dq i) r then [(i, dq i)] else []) (seq s n) in
                NoDup (map fst l) /\ forall i d, In (i, d) l <-> (s <= i < s + n /\ d = dq i /\ leb (dq i) r = true)).
    { induction n as [|m IH]; intros s; simpl.
      - split; [constructor|]. intros; split; [intros []|lia].
      - destruct (IH (S s)) as [ND IN]. destruct (leb (dq s) r) eqn:E; simpl.
        + split.
          * constructor; auto. intros Hin. apply in_map_iff in Hin. destruct Hin as ((i, d) & Hi & Hin).
            simpl in Hi; subst i. apply IN in Hin. lia.
          * intros i d. split.
            -- intros [H|H]; [inversion H; subst; repeat split; auto; lia|]. apply IN in H. intuition lia.
            -- intros (H1 & H2 & H3). destruct (Nat.eq_dec i s) as [->|Hne]; [left; congruence|].
               right. apply IN. repeat split; auto; lia.
        + split; auto. intros i d. rewrite IN. split; [intuition lia|].
          intros (H1 & H2 & H3). destruct (Nat.eq_dec i s) as [->|Hne]; [congruence|]. repeat split; auto; lia. }
    destruct (G 0) as [ND IN]. split; auto. intros i d. rewrite IN. intuition lia.
  Qed.
  Lemma linear_radius_error dq n r : linear_find_radius leb dzero dq n r = None <-> r <== dzero.
  Proof. unfold linear_find_radius. destruct (leb r dzero); split; congruence. Qed.

  (* ---- heapify after the root was overwritten ---- *)
  Section Heapify.
    Context {A : Type} (lt le : A -> A -> bool) (a0 : A) (APO : preorder lt le).
    Lemma sift_noop (h : list A) kk : 1 <= kk ->
      (forall c, 1 <= c < length h -> c / 2 = kk -> le (nth c h a0) (nth kk h a0) = true) ->
      sift lt le a0 h kk (length h - 1) = h.
    Proof.
      intros Hk H. unfold sift. rewrite (Nat.add_comm _ 2). cbn [Nat.add].
      rewrite sift_down_S. destruct (2 * kk <=? length h - 1) eqn:E; auto. apply Nat.leb_le in E.
      assert (Hl : length h - 1 < length h) by lia.
      destruct (pick_child_spec lt le a0 APO h kk _ E Hl) as (Hj & Hv & _).
      rewrite H; auto; [lia|]. revert Hv. clear. intros. 
      destruct Hv as [-> | ->]. 
      - rewrite Nat.mul_comm. apply Nat.div_mul. lia.
      - rewrite Nat.mul_comm, Nat.add_comm. rewrite Nat.div_add by lia. reflexivity.
    Qed.
    Lemma heapify_root (h : heapsel A) x : heap_ok le a0 (hheap h) -> hheap h <> [] ->
      let h' := hs_heapify lt le a0 (hs_set_root h x) in
      heap_ok le a0 (hheap h') /\ Permutation (hheap h') (upd (hheap h) 0 x).
    Proof.
      intros Hok Hne. unfold hs_heapify, hs_set_root. cbn [hheap]. rewrite upd_length.
      set (hp := hheap h) in *. set (n := length hp).
      destruct (n <=? 1) eqn:E; cbn [hheap].
      - apply Nat.leb_le in E. split; auto. intros c Hc. rewrite upd_length in Hc. fold n in Hc. lia.
      - apply Nat.leb_gt in E.
        assert (Hm : exists m, n / 2 = S m).
        { destruct (n / 2) eqn:E2; [|eauto]. apply Nat.div_small_iff in E2; lia. }
        destruct Hm as (m & Hm). rewrite Hm.
        change (seq 0 (S m)) with (0 :: seq 1 m). cbn [rev]. rewrite fold_left_app. cbn [fold_left].
        assert (F : fold_left (fun hp0 i => sift lt le a0 hp0 i (n - 1)) (rev (seq 1 m)) (upd hp 0 x) = upd hp 0 x).
        { assert (G : forall l, (forall i, In i l -> 1 <= i) ->
                     fold_left (fun hp0 i => sift lt le a0 hp0 i (n - 1)) l (upd hp 0 x) = upd hp 0 x).
          { induction l as [|i l IH]; intros Hl; simpl; auto.
            replace (n - 1) with (length (upd hp 0 x) - 1) at 1 by (rewrite upd_length; reflexivity).
            rewrite sift_noop.
            - apply IH. intros; apply Hl; now right.
            - apply Hl; now left.
            - intros c Hc Hck. rewrite upd_length in Hc. assert (1 <= i) by (apply Hl; now left).
              rewrite !(nth_upd_other a0) by (try lia; intros ->; 
                 assert (c / 2 = 0 -> False) by (intros Z; lia); auto).
              rewrite <- Hck. apply Hok. exact Hc. }
          apply G. intros i Hi. apply in_rev, in_seq in Hi. lia. }
        rewrite F. apply (sift_root_ok lt le a0 APO); auto.
    Qed.
  End Heapify.

  (* ---- the scan of LinearKNNSearch::find ---- *)
  Definition idxs (H : list kp) : list nat :=
    flat_map (fun e : kp => match snd e with Some j => [j] | None => [] end) H.
  Definition entry_ok (dq : nat -> D) (i : nat) (e : kp) : Prop :=
    match snd e with Some j => j < i /\ fst e = dq j | None => fst e = dinf end.
  Definition linv (dq : nat -> D) (k i : nat) (H : list kp) : Prop :=
    length H = k /\ heap_ok KE K0 H /\ (forall e, In e H -> entry_ok dq i e) /\ NoDup (idxs H) /\
    (forall j, j < i -> ~ In j (idxs H) -> forall e, In e H -> fst e <== dq j).

  Lemma idxs_in H j : In j (idxs H) <-> exists d, In (d, Some j) H.
  Proof.
    unfold idxs. rewrite in_flat_map. split.
    - intros ((d, o) & He & Hj). simpl in Hj. destruct o as [j'|]; [|contradiction].
      destruct Hj as [->|[]]. eauto.
    - intros (d & Hd). exists (d, Some j). simpl; auto.
  Qed.
  Lemma entry_ok_mono dq i e : entry_ok dq i e -> entry_ok dq (S i) e.
  Proof. unfold entry_ok. destruct (snd e); auto. intros [? ?]; split; auto. Qed.

  Definition scan_step (dq : nat -> D) (h : heapsel kp) (i : nat) : heapsel kp :=
    if ltb (dq i) (fst (hs_peek_mut K0 h))
    then hs_heapify KL KE K0 (hs_set_root h (dq i, Some i)) else h.

  Lemma scan_step_inv dq k i h : 1 <= k -> linv dq k i (hheap h) ->
    linv dq k (S i) (hheap (scan_step dq h i)).
  Proof.
    intros Hk (L & OK & EN & ND & EX). unfold scan_step, hs_peek_mut.
    destruct (hheap h) as [|e0 t] eqn:EH; [simpl in L; lia|]. cbn [nth].
    assert (Hroot : forall e, In e (e0 :: t) -> fst e <== fst e0).
    { intros e He. destruct (In_nth _ _ K0 He) as (c & Hc & <-).
      apply (heap_ok_root KL KE K0 KPO (e0 :: t) OK c Hc). }
    destruct (ltb (dq i) (fst e0)) eqn:E.
    - assert (Hne : hheap h <> []) by congruence.
      assert (OKh : heap_ok KE K0 (hheap h)) by (rewrite EH; exact OK).
      destruct (heapify_root KL KE K0 KPO h (dq i, Some i) OKh Hne) as [OK' P].
      rewrite EH in P. cbn [upd] in P.
      set (H' := hheap (hs_heapify KL KE K0 (hs_set_root h (dq i, Some i)))) in *.
      assert (Pi : Permutation (idxs H') (i :: idxs t)).
      { unfold idxs. eapply perm_trans; [apply Permutation_flat_map, P|]. reflexivity. }
      assert (Hlt : forall j, In j (idxs t) -> j < i).
      { intros j Hj. apply idxs_in in Hj. destruct Hj as (d & Hd).
        specialize (EN (d, Some j) (or_intror Hd)). unfold entry_ok in EN. simpl in EN. tauto. }
      refine (conj _ (conj OK' (conj _ (conj _ _)))).
      + apply Permutation_length in P. simpl in *. lia.
      + intros e He. eapply Permutation_in in He; [|exact P]. destruct He as [<-|He].
        * unfold entry_ok; simpl. split; auto.
        * apply entry_ok_mono, EN. now right.
      + eapply Permutation_NoDup; [apply Permutation_sym, Pi|]. constructor.
        * intros Hin. apply Hlt in Hin. lia.
        * unfold idxs in ND. simpl in ND. apply NoDup_app_l' in ND. exact ND.
      + intros j Hj Hnin e He.
        assert (Hnin' : ~ In j (i :: idxs t)) by (intros X; apply Hnin; eapply Permutation_in; [apply Permutation_sym, Pi|exact X]).
        assert (Hji : j < i) by (simpl in Hnin'; lia).
        assert (H0 : fst e0 <== dq j).
        { destruct (snd e0) as [j0|] eqn:E0.
          - destruct (Nat.eq_dec j0 j) as [->|Hne0].
            + specialize (EN e0 (or_introl eq_refl)). unfold entry_ok in EN. rewrite E0 in EN.
              destruct EN as [_ ->]. apply (leb_refl _ _ PO).
            + apply (EX j Hji); [|now left]. unfold idxs. simpl. rewrite E0. simpl.
              intros [X|X]; [congruence|]. apply Hnin'. now right.
          - apply (EX j Hji); [|now left]. unfold idxs. simpl. rewrite E0. simpl.
            intros X. apply Hnin'. now right. }
        eapply (leb_trans _ _ PO); [|exact H0].
        eapply Permutation_in in He; [|exact P]. destruct He as [<-|He].
        * simpl. apply (ltb_true _ _ PO). exact E.
        * apply Hroot. now right.
    - rewrite EH. refine (conj L (conj OK (conj _ (conj ND _)))).
      + intros e He. apply entry_ok_mono, EN, He.
      + intros j Hj Hnin e He. destruct (Nat.eq_dec j i) as [->|Hne].
        * eapply (leb_trans _ _ PO); [apply Hroot, He|]. apply (ltb_false _ _ PO). exact E.
        * apply (EX j); auto. lia.
  Qed.

  Lemma linear_scan_inv dq k m : 1 <= k -> forall s h, linv dq k s (hheap h) ->
    linv dq k (s + m) (hheap (fold_left (scan_step dq) (seq s m) h)).
  Proof.
    intros Hk. induction m as [|m IH]; intros s h Inv; simpl.
    - now rewrite Nat.add_0_r.
    - replace (s + S m) with (S s + m) by lia. apply IH. now apply scan_step_inv.
  Qed.

  Lemma iterate_fold {S X} (f : S -> X -> S) (x : X) n : forall s,
    iterate n (fun h => f h x) s = fold_left f (repeat x n) s.
  Proof. induction n; intros; simpl; auto. Qed.

  Lemma linear_init_inv dq k : 1 <= k ->
    linv dq k 0 (hheap (iterate k (fun h => hs_add KL KE K0 h (dinf, None)) (with_capacity k))).
  Proof.
    intros Hk. rewrite (iterate_fold (hs_add KL KE K0)).
    pose proof (hs_adds_inv KL KE K0 KPO k (repeat (dinf, None) k) Hk _ _ (hs_inv_init KE K0 k)) as Inv.
    simpl in Inv. set (h := fold_left _ _ _) in *.
    destruct Inv as (_ & _ & El & Hok & _ & rest & Hp & _).
    rewrite repeat_length, Nat.min_id in El.
    assert (All : forall e, In e (hheap h) -> e = (dinf, None)).
    { intros e He. eapply (repeat_spec k). eapply Permutation_in; [apply Permutation_sym, Hp|].
      apply in_or_app; now left. }
    assert (Hi : idxs (hheap h) = []).
    { assert (G : forall l : list kp, (forall e, In e l -> e = (dinf, None)) -> idxs l = []).
      { unfold idxs. induction l as [|e t IH]; intros Hl; simpl; auto.
        rewrite (Hl e) by now left. simpl. apply IH. intros; apply Hl; now right. }
      apply G, All. }
    refine (conj El (conj _ (conj _ (conj _ _)))).
    - apply Hok. rewrite repeat_length. lia.
    - intros e He. rewrite (All e He). unfold entry_ok; simpl. reflexivity.
    - rewrite Hi. constructor.
    - intros j Hj. lia.
  Qed.

  Lemma idxs_length H : length (idxs H) <= length H /\
    ((exists e, In e H /\ snd e = None) -> length (idxs H) < length H).
  Proof.
    unfold idxs. induction H as [|e t [IH1 IH2]]; simpl.
    - split; auto. intros (e & [] & _).
    - rewrite app_length. destruct (snd e) eqn:E; simpl.
      + split; [lia|]. intros (e' & [<-|He'] & Hn); [congruence|]. assert (length (idxs t) < length t) by (apply IH2; eauto).
        unfold idxs in *. lia.
      + split; [lia|]. intros _. lia.
  Qed.

  Definition to_res (H : list kp) : list (nat * D) :=
    flat_map (fun x : kp => match snd x with Some i => [(i, fst x)] | None => [] end) H.
  Lemma to_res_map H : map fst (to_res H) = idxs H.
  Proof.
    unfold to_res, idxs. induction H as [|e t IH]; simpl; auto.
    rewrite map_app, IH. destruct (snd e); reflexivity.
  Qed.
  Lemma to_res_length H : (forall e, In e H -> snd e <> None) -> length (to_res H) = length H.
  Proof.
    unfold to_res. induction H as [|e t IH]; intros AllSome; simpl; auto.
    rewrite app_length, IH by (intros; apply AllSome; now right).
    destruct (snd e) eqn:E; [reflexivity|]. exfalso. apply (AllSome e); [now left|exact E].
  Qed.

  Theorem linear_find_exact dq n k :
    (forall i, i < n -> ltb (dq i) dinf = true) -> 1 <= k <= n ->
    exists res, linear_find ltb leb dinf dq n k = Some res /\ is_knn leb dq n k res.
  Proof.
    intros Hfin Hk. unfold linear_find.
    replace (k <? 1) with false by (symmetry; apply Nat.ltb_ge; lia).
    replace (n <? k) with false by (symmetry; apply Nat.ltb_ge; lia). cbn [orb].
    eexists; split; [reflexivity|].
    pose proof (linear_scan_inv dq k n (proj1 Hk) 0 _ (linear_init_inv dq k (proj1 Hk))) as Inv.
    simpl in Inv. unfold linear_scan, hs_get.
    change (fun h i => if ltb (dq i) (fst (hs_peek_mut K0 h))
                       then hs_heapify KL KE K0 (hs_set_root h (dq i, Some i)) else h) with (scan_step dq).
    set (H := hheap (fold_left (scan_step dq) (seq 0 n) _)) in *.
    destruct Inv as (L & OK & EN & ND & EX).
    assert (AllSome : forall e, In e H -> snd e <> None).
    { intros e He Hn.
      assert (Hlen : length (idxs H) < n).
      { destruct (idxs_length H) as [_ Hs]. assert (length (idxs H) < length H) by (apply Hs; eauto). lia. }
      destruct (pigeon (idxs H) n ND Hlen) as (j & Hj & Hnin).
      specialize (EX j Hj Hnin e He). specialize (EN e He). unfold entry_ok in EN. rewrite Hn in EN.
      rewrite EN in EX. rewrite (ltb_true_not _ _ PO _ _ (Hfin j Hj)) in EX. discriminate. }
    change (flat_map (fun x : kp => match snd x with Some i => [(i, fst x)] | None => [] end) H) with (to_res H).
    set (res := to_res H).
    assert (Hmap : map fst res = idxs H) by apply to_res_map.
    assert (Hin : forall i d, In (i, d) res <-> In (d, Some i) H).
    { intros i d. unfold res, to_res. rewrite in_flat_map. split.
      - intros ((d', o) & He & Hx). simpl in Hx. destruct o; [|contradiction].
        destruct Hx as [Hx|[]]. injection Hx as <- <-. exact He.
      - intros He. exists (d, Some i). simpl; auto. }
    unfold is_knn. rewrite Hmap. refine (conj _ (conj ND (conj _ _))).
    - rewrite <- L. apply to_res_length, AllSome.
    - intros i d Hi. apply Hin in Hi. specialize (EN _ Hi). unfold entry_ok in EN. simpl in EN. tauto.
    - intros i d j Hi Hj Hnin. apply Hin in Hi. apply (EX j Hj Hnin _ Hi).
  Qed.

  Lemma linear_find_error dq n k : linear_find ltb leb dinf dq n k = None <-> (k = 0 \/ n < k).
  Proof.
    unfold linear_find. destruct (k <? 1) eqn:E1; [apply Nat.ltb_lt in E1|apply Nat.ltb_ge in E1];
      (destruct (n <? k) eqn:E2; [apply Nat.ltb_lt in E2|apply Nat.ltb_ge in E2]); simpl;
      (split; [intros X; try discriminate X; lia|intros X; try reflexivity; lia]).
  Qed.
End LinearProofs.
