(* C04 — "whichever search structure is configured" (over the reals, one query row): when the distances from the
   query to the training rows are pairwise distinct (so the k-nearest SET is unique), the exhaustive scan and the
   cover tree lead to the SAME regressor prediction, and the two classifier predictions are both labels of
   maximal total weight over the same k-nearest set (so they are equal unless two labels tie exactly). *)
From Coq Require Import List Arith Bool Lia Reals Lra ZArith Permutation.
From SC Require Import Base.Num C04.Model C04.ModelBuild C04.Proofs_Heap C04.Proofs_Linear C04.Proofs_Cover
     C04.Proofs_Est C04.ProofsBuild C04.ProofsKnn C04.ProofsLabels C04.ProofsClassifier C04.ProofsNearest.
Import ListNotations.
Local Open Scope R_scope.

Lemma rsum_perm l l' : Permutation l l' -> rsum l = rsum l'.
Proof. induction 1; simpl; lra. Qed.

(* calc_weights is a map whose function depends on the distance list only through "contains a zero" *)
Definition has0 (ds : list R) : bool := if in_dec Req_EM_T 0 ds then true else false.
Definition wfun (w : weightfn) (z : bool) (e : R) : R :=
  match w with
  | Uniform => 1
  | DistanceW => if z then (if Req_EM_T e 0 then 1 else 0) else 1 / e
  end.
Lemma weights_as_map w ds : calc_weights ROps w ds = map (wfun w (has0 ds)) ds.
Proof.
  destruct w.
  - rewrite weights_uniform. unfold wfun. induction ds; simpl; congruence.
  - unfold wfun, has0. destruct (in_dec Req_EM_T 0 ds) as [H|H].
    + now apply weights_exact_match.
    + now apply weights_inverse.
Qed.
Lemma has0_perm ds ds' : Permutation ds ds' -> has0 ds = has0 ds'.
Proof.
  intros Hp. unfold has0.
  destruct (in_dec Req_EM_T 0 ds) as [H|H], (in_dec Req_EM_T 0 ds') as [H'|H']; try reflexivity; exfalso.
  - apply H'. eapply Permutation_in; eauto.
  - apply H. eapply Permutation_in; [apply Permutation_sym|]; eauto.
Qed.

(* the neighbour list paired with its weights, and everything computed from it, is invariant under permutation
   of the search result *)
Lemma paired_perm w (sr sr' : list (nat * R)) : Permutation sr sr' ->
  Permutation (combine sr (calc_weights ROps w (map snd sr))) (combine sr' (calc_weights ROps w (map snd sr'))) /\
  rsum (calc_weights ROps w (map snd sr)) = rsum (calc_weights ROps w (map snd sr')).
Proof.
  intros Hp. assert (Hd : Permutation (map snd sr) (map snd sr')) by now apply Permutation_map.
  rewrite !weights_as_map. rewrite !map_map.
  rewrite <- (has0_perm _ _ Hd). rewrite !combine_map_self. split.
  - now apply Permutation_map.
  - apply rsum_perm. now apply Permutation_map.
Qed.

Section Indep.
  Context {P : Type} (dist : P -> P -> R) (pt : nat -> P) (q : P).
  Hypothesis dist_sym : forall a b, dist a b = dist b a.
  Hypothesis dist_tri : forall a b c, dist a c <= dist a b + dist b c.
  Hypothesis dist_nonneg : forall a b, 0 <= dist a b.
  Hypothesis dist_refl : forall a, dist a a = 0.
  Context (smin : Z) (gsp : R -> Z) (radius : Z -> R) (slo : Z).
  Hypothesis SC : scale_ok Rltb Rleb 0 smin gsp radius slo.
  Context (dmax dinf : R).
  Notation dqq := (dq dist pt q).
  Notation fit_cl ys := (unique ROps ys).
  Notation fit_yi ys := (map (fun l => position ROps l (unique ROps ys)) ys).

  (* with pairwise distinct distances two k-nearest sets have the same indices *)
  Lemma knn_incl n k sr1 sr2 :
    (forall i j, (i < n)%nat -> (j < n)%nat -> i <> j -> dqq i <> dqq j) ->
    is_knn Rleb dqq n k sr1 -> is_knn Rleb dqq n k sr2 -> incl (map fst sr1) (map fst sr2).
  Proof.
    intros Hdist (L1 & N1 & In1 & Out1) (L2 & N2 & In2 & Out2) i Hi.
    destruct (in_dec Nat.eq_dec i (map fst sr2)) as [I|I]; [exact I|exfalso].
    (* some j of sr2 is not in sr1, else sr2 is included in sr1 and (same length, no duplicates) conversely *)
    assert (Hj : exists j, In j (map fst sr2) /\ ~ In j (map fst sr1)).
    { destruct (Exists_dec (fun j => ~ In j (map fst sr1)) (map fst sr2)) as [Ex|Nx].
      - intros j. destruct (in_dec Nat.eq_dec j (map fst sr1)); [right|left]; tauto.
      - apply Exists_exists in Ex. exact Ex.
      - exfalso. apply I.
        assert (Hincl : incl (map fst sr2) (map fst sr1)).
        { intros j Hj. destruct (in_dec Nat.eq_dec j (map fst sr1)) as [?|Nj]; auto.
          exfalso. apply Nx. apply Exists_exists. exists j. auto. }
        refine (NoDup_length_incl N2 _ Hincl i Hi). rewrite !map_length. lia. }
    destruct Hj as (j & Hj2 & Hj1).
    apply in_map_iff in Hi. destruct Hi as ((i', di) & Ei & Hi). simpl in Ei. subst i'.
    apply in_map_iff in Hj2. destruct Hj2 as ((j', dj) & Ej & Hj2). simpl in Ej. subst j'.
    destruct (In1 i di Hi) as [Hin ->]. destruct (In2 j dj Hj2) as [Hjn ->].
    pose proof (Out1 i (dqq i) j Hi Hjn Hj1) as A. pose proof (Out2 j (dqq j) i Hj2 Hin I) as B.
    apply Rleb_true in A, B.
    apply (Hdist i j Hin Hjn); [|lra]. intros ->. apply Hj1. apply in_map_iff. exists (j, dqq j). auto.
  Qed.
  Lemma knn_self n k sr : is_knn Rleb dqq n k sr -> sr = map (fun i => (i, dqq i)) (map fst sr).
  Proof.
    intros (_ & _ & Hin & _). induction sr as [|(i, d) sr IH]; simpl; [reflexivity|].
    destruct (Hin i d (or_introl eq_refl)) as [_ ->]. f_equal. apply IH. intros; apply Hin. now right.
  Qed.
  Lemma knn_perm n k sr1 sr2 :
    (forall i j, (i < n)%nat -> (j < n)%nat -> i <> j -> dqq i <> dqq j) ->
    is_knn Rleb dqq n k sr1 -> is_knn Rleb dqq n k sr2 -> Permutation sr1 sr2.
  Proof.
    intros Hdist K1 K2. rewrite (knn_self n k sr1 K1), (knn_self n k sr2 K2). apply Permutation_map.
    pose proof K1 as (L1 & N1 & _). pose proof K2 as (L2 & N2 & _).
    apply NoDup_Permutation_bis; auto.
    - rewrite !map_length. lia.
    - now apply (knn_incl n k).
  Qed.

  Lemma lscore_perm ys W l l' lab : Permutation l l' -> lscore ys W l lab = lscore ys W l' lab.
  Proof. intros Hp. unfold lscore. apply rsum_perm. now apply Permutation_map. Qed.

  (* both search structures, same data, pairwise distinct query distances: one k-nearest set sr such that the
     two regressors return the same value and both classifier predictions have maximal weight over sr *)
  Theorem knn_search_independent s1 s2 n k (y ys : list R) w :
    fitted dist pt smin gsp radius s1 n -> fitted dist pt smin gsp radius s2 n ->
    (1 <= k <= n)%nat -> length ys = n ->
    (forall i, (i < n)%nat -> dqq i < dinf) -> (forall i, (i < n)%nat -> dqq i <= dmax) ->
    (forall i j, (i < n)%nat -> (j < n)%nat -> i <> j -> dqq i <> dqq j) ->
    exists sr, is_knn Rleb dqq n k sr /\
      let ws := calc_weights ROps w (map snd sr) in
      let W := rsum ws in
      let L := combine sr ws in
      (exists p, reg_predict_row ROps dmax dinf s1 y w k dqq = Some p /\
                 reg_predict_row ROps dmax dinf s2 y w k dqq = Some p) /\
      exists l1 l2,
        clf_predict_row ROps dmax dinf s1 (fit_cl ys) (fit_yi ys) w k dqq = Some l1 /\
        clf_predict_row ROps dmax dinf s2 (fit_cl ys) (fit_yi ys) w k dqq = Some l2 /\
        (forall lab, lscore ys W L lab <= lscore ys W L l1) /\
        (forall lab, lscore ys W L lab <= lscore ys W L l2) /\
        ((forall lab, lab <> l1 -> lscore ys W L lab < lscore ys W L l1) -> l2 = l1).
  Proof.
    intros F1 F2 Hk Hys Hinf Hmax Hdist.
    destruct (search_knn dist pt q dist_sym dist_tri dist_refl smin gsp radius slo SC dmax dinf s1 n k F1 Hk Hinf Hmax)
      as (sr1 & E1 & K1).
    destruct (search_knn dist pt q dist_sym dist_tri dist_refl smin gsp radius slo SC dmax dinf s2 n k F2 Hk Hinf Hmax)
      as (sr2 & E2 & K2).
    pose proof (knn_perm n k sr1 sr2 Hdist K1 K2) as Hp.
    destruct (paired_perm w sr1 sr2 Hp) as (HpL & HW).
    destruct (knn_facts dist pt q dist_sym dist_tri dist_nonneg dist_refl dinf n k sr1 K1 (proj1 Hk)) as (Hne1 & Hnn1 & Hr1).
    destruct (knn_facts dist pt q dist_sym dist_tri dist_nonneg dist_refl dinf n k sr2 K2 (proj1 Hk)) as (Hne2 & Hnn2 & Hr2).
    assert (HW1 : 0 < rsum (calc_weights ROps w (map snd sr1))) by (now apply weights_sum_pos).
    exists sr1. split; auto. intros ws W L. split.
    - exists (reg_mean ROps y w sr1). unfold reg_predict_row. rewrite E1, E2. split; [reflexivity|]. f_equal.
      destruct (knn_regressor_mean y w sr1) as [_ M1]. specialize (M1 (Rgt_not_eq _ _ HW1)).
      destruct (knn_regressor_mean y w sr2) as [_ M2]. rewrite <- HW in M2. specialize (M2 (Rgt_not_eq _ _ HW1)).
      assert (Es : rsum (map (fun rw : nat * R * R => nth (fst (fst rw)) y 0 * snd rw)
                             (combine sr1 (calc_weights ROps w (map snd sr1)))) =
                   rsum (map (fun rw : nat * R * R => nth (fst (fst rw)) y 0 * snd rw)
                             (combine sr2 (calc_weights ROps w (map snd sr2))))).
      { apply rsum_perm. now apply Permutation_map. }
      apply Rmult_eq_reg_r with (rsum (calc_weights ROps w (map snd sr1))); [|lra]. lra.
    - destruct (clf_vote_label ys w sr1) as (_ & _ & _ & Hmax1 & _); auto.
      { intros r Hrin. rewrite Hys. now apply Hr1. }
      { intros r Hrin. now apply Hr1. }
      destruct (clf_vote_label ys w sr2) as (_ & _ & _ & Hmax2 & _); auto.
      { intros r Hrin. rewrite Hys. now apply Hr2. }
      { intros r Hrin. now apply Hr2. }
      { rewrite <- HW. exact HW1. }
      rewrite <- HW in Hmax2.
      assert (EL : forall lab, lscore ys W (combine sr2 (calc_weights ROps w (map snd sr2))) lab = lscore ys W L lab).
      { intros lab. symmetry. now apply lscore_perm. }
      fold ws W L in Hmax1. fold ws in W. fold W in Hmax2.
      eexists. eexists. split; [unfold clf_predict_row; rewrite E1; reflexivity|].
      split; [unfold clf_predict_row; rewrite E2; reflexivity|].
      split; [exact Hmax1|]. split.
      + intros lab. rewrite <- !EL. apply Hmax2.
      + intros Hstrict.
        match goal with |- ?a = ?b => destruct (Req_EM_T a b) as [Q|Q]; [exact Q|exfalso] end.
        specialize (Hstrict _ Q). specialize (Hmax2 (nth (clf_vote ROps (length (fit_classes ys)) (fit_y ys) w sr1) (fit_classes ys) 0)).
        rewrite !EL in Hmax2. unfold fit_classes, fit_y in *. change (o0 ROps) with 0 in *. lra.
  Qed.
End Indep.
