(* C19 — serialisation round trips.  Property theorems only; statements are about the executable
   model SC.C19.Model, tied to src/linalg/naive/dense_matrix.rs (hand-written codec and PartialEq)
   and to the other hand-written PartialEq impls by the correspondence check.  The derived serde
   impls and the format crates are not modelled: that part of C19 is decided by the search. *)
From Coq Require Import List String NArith Bool Permutation.
From SC Require Import Base.Num C19.Model C19.ProofsCodec.
Import ListNotations.
Open Scope string_scope. Open Scope list_scope.

(* Sequence form (bincode, JSON arrays): the three values in emission order give the matrix back,
   for every shape and every stored vector (no relation between them is needed). *)
Theorem C19_dm_seq_roundtrip : forall T (m : dm T),
  visit_seq (map snd (fields_of (dm_serialize m))) = Ok m.
Proof. intros; apply seq_roundtrip. Qed.
