(* C19 — serialisation round trips.  Property theorems only; every statement is about the executable
   model SC.C19.Model, which the correspondence check ties to src/linalg/naive/dense_matrix.rs (the
   hand-written Serialize / Deserialize / PartialEq) and to the other hand-written PartialEq impls.
   The derived serde impls and the format crates (bincode, serde_json) are generated / third-party
   code: no theorem here covers them; that part of C19 is decided by the failing-input search. *)
From Coq Require Import List String NArith ZArith Bool Permutation Reals Floats.
From SC Require Import Base.Num C19.Model C19.ProofsCodec C19.ProofsEq C19.ProofsFloat.
Import ListNotations.
Open Scope string_scope. Open Scope list_scope.

(* ------------------------------- the DenseMatrix codec ------------------------------- *)

(* Sequence form (what bincode and JSON arrays hand to visit_seq): the three values in emission
   order give the matrix back, for every shape and every stored vector (no relation between the
   shape and the number of values is needed); trailing elements are not the visitor's business. *)
Theorem C19_dm_seq_roundtrip : forall T (m : dm T) rest,
  visit_seq (map snd (fields_of (dm_serialize m)) ++ rest) = Ok m.
Proof. intros; apply seq_trailing_ignored. Qed.

(* Map form (JSON objects): EVERY order of the three emitted fields gives the matrix back, and
   nothing else does: the decoder accepts exactly the permutations of the encoder's output. *)
Theorem C19_dm_map_roundtrip : forall T (m : dm T) kv,
  visit_map kv = Ok m <-> Permutation kv (fields_of (dm_serialize m)).
Proof. intros; apply map_ok_iff. Qed.

(* a repeated field after any complete field order: exactly the duplicate-field error *)
Theorem C19_dm_duplicate_field : forall T (m : dm T) kv k v,
  Permutation kv (fields_of (dm_serialize m)) -> In k ["nrows"; "ncols"; "values"] ->
  visit_map (kv ++ [(k, v)]) = Err (DuplicateField k).
Proof. intros T m kv k v H1 H2. exact (map_duplicate_error m kv k v H1 H2). Qed.

(* any field order with one field left out: exactly the missing-field error for that field *)
Theorem C19_dm_missing_field : forall T (m : dm T) kv e,
  Permutation (e :: kv) (fields_of (dm_serialize m)) -> visit_map kv = Err (MissingField (fst e)).
Proof. intros T m kv e H. exact (map_missing_error m kv e H). Qed.

(* in general: a repeated key, an absent field or a foreign key never yields a matrix *)
Theorem C19_dm_map_rejects : forall T (kv : list (string * sval T)) m,
  (~ NoDup (map fst kv)) \/
  (exists f, In f ["nrows"; "ncols"; "values"] /\ ~ In f (map fst kv)) \/
  (exists k, In k (map fst kv) /\ ~ In k ["nrows"; "ncols"; "values"]) ->
  visit_map kv <> Ok m.
Proof.
  intros T kv m [H|[[f [H1 H2]]|[k [H1 H2]]]].
  - now apply map_duplicate_never_ok.
  - eapply map_missing_never_ok; eassumption.
  - eapply map_unknown_never_ok; eassumption.
Qed.

(* sequence form with fewer than three elements is never accepted *)
Theorem C19_dm_seq_too_short : forall T (s : list (sval T)) m,
  (List.length s < 3)%nat -> visit_seq s <> Ok m.
Proof. intros T s m H. now apply seq_short. Qed.

(* through the two format drivers: JSON object in any field order / JSON array; bincode bytes
   (fixed-width little endian, u64 length prefix, scalars of w bytes), also with trailing bytes *)
Theorem C19_dm_json_roundtrip : forall T (m : dm T) kv,
  Permutation kv (fields_of (dm_serialize m)) ->
  json_de (JObj kv) = Ok m /\ json_de (json_ser m) = Ok m /\ json_de (JArr (map snd (fields_of (dm_serialize m)))) = Ok m.
Proof.
  intros T m kv H. split; [now apply json_any_order|]. split; [apply json_roundtrip | apply json_seq_form].
Qed.

Theorem C19_dm_bincode_roundtrip : forall w (m : dm N) rest,
  (0 < w)%nat ->
  (dm_nrows m < 2 ^ 64)%N -> (dm_ncols m < 2 ^ 64)%N -> (N.of_nat (List.length (dm_values m)) < 2 ^ 64)%N ->
  Forall (fun x => (x < 256 ^ N.of_nat w)%N) (dm_values m) ->
  bincode_de w (bincode_ser w m ++ rest) = Ok m.
Proof. exact bincode_roundtrip_gen. Qed.

(* ------------------------------- the PartialEq relations ------------------------------- *)

(* Reflexivity on finite data, for any scalar type whose comparisons satisfy the laws ... *)
Theorem C19_eq_refl_on_finite : forall T (O : Ops T) (eps : T) (fin : T -> Prop),
  scalar_laws O eps fin ->
  (forall m, dm_fin fin m -> dm_eq O eps m m = true) /\
  (forall m, dm_fin fin (lin_coef m) -> fin (lin_intercept m) -> lin_eq O eps m m = true) /\
  (forall m, dm_fin fin (lg_coef m) -> dm_fin fin (lg_intercept m) -> Forall fin (lg_classes m) -> logit_eq O eps m m = true) /\
  (forall t, Forall (rnode_fin fin) (rt_nodes t) -> rtree_eq O eps t t = true) /\
  (forall t, Forall (cnode_fin fin) (ct_nodes t) -> Forall fin (ct_classes t) -> ctree_eq O eps t t = Some true) /\
  (forall f, Forall (fun t => Forall (rnode_fin fin) (rt_nodes t)) f -> rforest_eq O eps f f = true) /\
  (forall f, Forall (fun t => Forall (cnode_fin fin) (ct_nodes t) /\ Forall fin (ct_classes t)) (cf_trees f) ->
             Forall fin (cf_classes f) -> cforest_eq O eps f f = Some true) /\
  (forall m, dm_fin fin (pca_eigenvectors m) -> Forall fin (pca_eigenvalues m) -> pca_eq O eps m m = true) /\
  (forall m, fin (svm_b m) -> Forall fin (svm_w m) -> Forall (Forall fin) (svm_instances m) -> svm_eq O eps m m = true) /\
  (forall m, Forall (Forall fin) (km_centroids m) -> kmeans_eq O eps m m = true) /\
  (forall m, fin (db_eps m) -> dbscan_eq O m m = true) /\
  (forall m, Forall fin (kc_classes m) -> knnc_eq O eps m m = true) /\
  (forall m, Forall fin (kr_y m) -> knnr_eq O eps m m = true) /\
  (forall m, Forall fin (bn_labels m) -> Forall fin (bn_priors m) -> Forall (Forall fin) (bn_log_prob m) -> bernoulli_eq O eps m m = true) /\
  (forall m, Forall fin (cat_labels m) -> Forall fin (cat_priors m) -> Forall (Forall (Forall fin)) (cat_coefficients m) -> categorical_eq O eps m m = true).
Proof.
  intros T O eps fin L. repeat split; intros.
  - now apply (dm_eq_refl O eps fin L).
  - now apply (lin_eq_refl O eps fin L).
  - now apply (logit_eq_refl O eps fin L).
  - now apply (rtree_eq_refl O eps fin L).
  - now apply (ctree_eq_refl O eps fin L).
  - now apply (rforest_eq_refl O eps fin L).
  - now apply (cforest_eq_refl O eps fin L).
  - now apply (pca_eq_refl O eps fin L).
  - now apply (svm_eq_refl O eps fin L).
  - now apply (kmeans_eq_refl O eps fin L).
  - now apply (dbscan_eq_refl O eps fin L).
  - now apply (knnc_eq_refl O eps fin L).
  - now apply (knnr_eq_refl O eps fin L).
  - now apply (bernoulli_eq_refl O eps fin L).
  - now apply (categorical_eq_refl O eps fin L).
Qed.

(* ... and the laws hold for binary64 with machine epsilon on all finite doubles (x - x = +0), and
   for the reals with any positive tolerance on all reals. *)
Theorem C19_scalar_laws_binary64 : scalar_laws FOps eps64 ffinite.
Proof. exact F_laws. Qed.
Theorem C19_scalar_laws_reals : forall eps : R, (0 < eps)%R -> scalar_laws ROps eps (fun _ => True).
Proof. exact R_laws. Qed.

(* so, in particular, on the machine's own arithmetic: a DenseMatrix of finite doubles equals itself *)
Theorem C19_dm_eq_refl_binary64 : forall m : dm float, Forall ffinite (dm_values m) -> dm_eq FOps eps64 m m = true.
Proof. intros m H. exact (dm_eq_refl FOps eps64 ffinite F_laws m H). Qed.

(* finiteness is needed: a tree node with an infinite output is not equal to itself, a NaN entry
   makes a matrix equal to any other of its shape, and the tolerance relation is not transitive *)
Theorem C19_eq_needs_finite :
  rnode_eq FOps eps64 (leaf infinity) (leaf infinity) = false /\
  dm_eq FOps eps64 (mkDM 1 1 [nan]) (mkDM 1 1 [5%float]) = true /\
  (let a := mkDM 1 1 [0%float] in let b := mkDM 1 1 [0x1p-52%float] in let c := mkDM 1 1 [0x1p-51%float] in
   dm_eq FOps eps64 a b = true /\ dm_eq FOps eps64 b c = true /\ dm_eq FOps eps64 a c = false).
Proof. split; [exact rnode_inf_not_self|]. split; [exact dm_nan_equals_anything | exact dm_eq_not_transitive]. Qed.

(* Symmetry, for any scalar type with |x - y| = |y - x| (the reals; IEEE subtraction is
   sign-symmetric too, but that fact is a hypothesis here, not derived from Coq's float axioms). *)
Theorem C19_eq_symmetric : forall T (O : Ops T) (eps : T), sub_sym O ->
  (forall a b, dm_eq O eps a b = dm_eq O eps b a) /\
  (forall a b, lin_eq O eps a b = lin_eq O eps b a) /\
  (forall a b, logit_eq O eps a b = logit_eq O eps b a) /\
  (forall a b, rtree_eq O eps a b = rtree_eq O eps b a) /\
  (forall a b, List.length (ct_classes a) = List.length (ct_classes b) -> ctree_eq O eps a b = ctree_eq O eps b a) /\
  (forall a b, rforest_eq O eps a b = rforest_eq O eps b a) /\
  (forall a b, pca_eq O eps a b = pca_eq O eps b a) /\
  (forall a b, svm_eq O eps a b = svm_eq O eps b a) /\
  (forall a b, kmeans_eq O eps a b = kmeans_eq O eps b a) /\
  (forall a b, knnc_eq O eps a b = knnc_eq O eps b a) /\
  (forall a b, knnr_eq O eps a b = knnr_eq O eps b a) /\
  (eqb_sym O -> forall a b, dbscan_eq O a b = dbscan_eq O b a).
Proof.
  intros T O eps S. repeat split; intros.
  - now apply dm_eq_sym. - now apply lin_eq_sym. - now apply logit_eq_sym. - now apply rtree_eq_sym.
  - now apply ctree_eq_sym. - now apply rforest_eq_sym. - now apply pca_eq_sym. - now apply svm_eq_sym.
  - now apply kmeans_eq_sym. - now apply knnc_eq_sym. - now apply knnr_eq_sym. - now apply dbscan_eq_sym.
Qed.
Theorem C19_sub_sym_reals : sub_sym ROps /\ eqb_sym ROps.
Proof. split; [exact R_sub_sym | exact R_eqb_sym]. Qed.
(* the length hypothesis of the classifier-tree clause is needed (malformed objects only) *)
Theorem C19_ctree_eq_asymmetric_on_malformed :
  let a := mkCTree [] 2 [1%float; 2%float] 0 in let b := mkCTree [] 2 [1%float] 0 in
  ctree_eq FOps eps64 a b = None /\ ctree_eq FOps eps64 b a = Some true.
Proof. exact ctree_eq_asymmetric. Qed.

(* What a difference must look like to be detected.  DenseMatrix: shape, number of stored values, or
   one stored value further than eps from its counterpart — and nothing less (iff). *)
Theorem C19_eq_detects_different_matrix : forall T (O : Ops T) (eps : T) (a b : dm T),
  dm_eq O eps a b = true <->
  dm_ncols a = dm_ncols b /\ dm_nrows a = dm_nrows b /\
  Forall2 (fun x y => gt_eps O eps x y = false) (dm_values a) (dm_values b).
Proof. intros; apply dm_eq_true_iff. Qed.
Theorem C19_eq_detects_different_matrix_reals : forall (eps : R) (a b : dm R),
  dm_eq ROps eps a b = true <->
  dm_ncols a = dm_ncols b /\ dm_nrows a = dm_nrows b /\
  Forall2 (fun x y => (Rabs (x - y) <= eps)%R) (dm_values a) (dm_values b).
Proof. intros; apply R_dm_eq_iff. Qed.

(* models: a coefficient / the intercept (linear family); a stored target (k-NN: the training rows
   are never compared); a node's output, split value, split score or feature (trees: the child links
   are never compared); a support vector (SVC / SVR); a centroid coordinate (k-means); an
   eigenvalue (PCA: projection, mu, pmu are never compared). *)
Theorem C19_eq_detects_different_targets : forall T (O : Ops T) (eps : T),
  (forall a b, le_eps O eps (lin_intercept a) (lin_intercept b) = false -> lin_eq O eps a b = false) /\
  (forall a b, dm_eq O eps (lin_coef a) (lin_coef b) = false -> lin_eq O eps a b = false) /\
  (forall a b i x y, nth_error (kr_y a) i = Some x -> nth_error (kr_y b) i = Some y -> gt_eps O eps x y = true ->
                     knnr_eq O eps a b = false) /\
  (forall a b i x y, nth_error (kc_y a) i = Some x -> nth_error (kc_y b) i = Some y -> x <> y ->
                     knnc_eq O eps a b = false) /\
  (forall a b i x y, nth_error (rt_nodes a) i = Some x -> nth_error (rt_nodes b) i = Some y ->
                     rnode_eq O eps x y = false -> rtree_eq O eps a b = false) /\
  (forall a b i x y, nth_error (svm_instances a) i = Some x -> nth_error (svm_instances b) i = Some y ->
                     vec_approx O eps x y = false -> svm_eq O eps a b = false) /\
  (forall a b i c1 c2 j x y, nth_error (km_centroids a) i = Some c1 -> nth_error (km_centroids b) i = Some c2 ->
                     nth_error c1 j = Some x -> nth_error c2 j = Some y -> gt_eps O eps x y = true ->
                     kmeans_eq O eps a b = false) /\
  (forall a b i x y, nth_error (pca_eigenvalues a) i = Some x -> nth_error (pca_eigenvalues b) i = Some y ->
                     gt_eps O eps x y = true -> pca_eq O eps a b = false).
Proof.
  intros T O eps. repeat split; intros.
  - now apply lin_eq_detects_intercept.
  - now apply lin_eq_detects_coefficient.
  - eapply knnr_eq_detects_target; eassumption.
  - eapply knnc_eq_detects_target; eassumption.
  - eapply rtree_eq_detects_node; eassumption.
  - eapply svm_eq_detects_instance; eassumption.
  - eapply kmeans_eq_detects_centroid; eassumption.
  - eapply pca_eq_detects_eigenvalue; eassumption.
Qed.

(* k-NN: a different number of stored targets is always detected (the relation begins with a length
   test), so a model never equals the model fitted on the same rows plus appended rows, nor the one
   fitted on a row-prefix, in either direction, whatever k, the class lists and the common targets are. *)
Theorem C19_eq_detects_different_lengths : forall T (O : Ops T) (eps : T),
  (forall a b, List.length (kr_y a) <> List.length (kr_y b) -> knnr_eq O eps a b = false) /\
  (forall a b, List.length (kc_y a) <> List.length (kc_y b) -> knnc_eq O eps a b = false) /\
  (forall ys extra k1 k2, extra <> [] ->
     knnr_eq O eps (mkKNNR ys k1) (mkKNNR (ys ++ extra) k2) = false /\
     knnr_eq O eps (mkKNNR (ys ++ extra) k2) (mkKNNR ys k1) = false) /\
  (forall cl1 cl2 ys extra k1 k2, extra <> [] ->
     knnc_eq O eps (mkKNNC cl1 ys k1) (mkKNNC cl2 (ys ++ extra) k2) = false /\
     knnc_eq O eps (mkKNNC cl2 (ys ++ extra) k2) (mkKNNC cl1 ys k1) = false).
Proof.
  intros T O eps. repeat split; intros.
  - now apply knnr_eq_detects_different_lengths.
  - now apply knnc_eq_detects_different_lengths.
  - now apply knnr_eq_detects_appended.
  - now apply knnr_eq_detects_appended.
  - now apply knnc_eq_detects_appended.
  - now apply knnc_eq_detects_appended.
Qed.

(* DBSCAN's relation sees labels, number of classes and eps — nothing about the points
   (the known finding dbscan-eq-ignores-points is this theorem read backwards) *)
Theorem C19_dbscan_eq_sees_only_labels : forall T (O : Ops T) (a b : @dbscan T),
  dbscan_eq O a b = true ->
  db_labels a = db_labels b /\ db_num_classes a = db_num_classes b /\ O.(oeqb) (db_eps a) (db_eps b) = true.
Proof. intros; now apply dbscan_eq_true_inv. Qed.

(* ------------------------------- satisfiability of the hypotheses ------------------------------- *)
Example C19_ex_roundtrip_nonsquare :
  let m := mkDM 2 3 [1; 2; 3; 4; 5; 6]%N in
  let kv := [("values", VSeq [1; 2; 3; 4; 5; 6]%N); ("nrows", VU64 2%N); ("ncols", VU64 3%N)] in
  Permutation kv (fields_of (dm_serialize m)) /\ visit_map kv = Ok m /\
  bincode_de 1 (bincode_ser 1 m ++ [7%N]) = Ok m /\
  visit_map (kv ++ [("ncols", VOther)]) = Err (DuplicateField "ncols") /\
  visit_map (tl kv) = Err (MissingField "values") /\
  visit_map (("shape", VOther) :: kv) = Err (UnknownField "shape").
Proof.
  cbv zeta. split.
  - apply (map_ok_perm _ (mkDM 2 3 [1; 2; 3; 4; 5; 6]%N)). reflexivity.
  - repeat split; vm_compute; reflexivity.
Qed.

(* finite data exists, and a detected / an undetected difference on the machine's arithmetic *)
Example C19_ex_finite_and_detected :
  Forall ffinite [0.5%float; (-0)%float; 0x1.fffffffffffffp+1023%float] /\
  dm_eq FOps eps64 (mkDM 1 1 [1%float]) (mkDM 1 1 [0x1.0000000000002p+0%float]) = false /\
  dm_eq FOps eps64 (mkDM 1 1 [1%float]) (mkDM 1 1 [0x1.0000000000001p+0%float]) = true /\
  gt_eps FOps eps64 1%float 0x1.0000000000002p+0%float = true.
Proof.
  split; [|vm_compute; repeat split; reflexivity].
  repeat constructor; unfold ffinite; vm_compute; exact I.
Qed.

(* a regressor and the regressor with one more stored target, on the machine's arithmetic: unequal
   in both directions — while the zip form of the same loop would call them equal *)
Example C19_ex_prefix_pair :
  let a := mkKNNR [1%float; 2%float] 2 in let b := mkKNNR [1%float; 2%float; 3%float] 2 in
  List.length (kr_y a) <> List.length (kr_y b) /\
  knnr_eq FOps eps64 a b = false /\ knnr_eq FOps eps64 b a = false /\
  zipall (close FOps eps64) (kr_y a) (kr_y b) = true /\ zipall (close FOps eps64) (kr_y b) (kr_y a) = true.
Proof. cbv zeta. split; [cbn; discriminate | vm_compute; repeat split; reflexivity]. Qed.
