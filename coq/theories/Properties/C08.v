(* C08 — Lasso and elastic net.  Property theorems only; statements are about the executable model
   SC.C08.Model instantiated at the real numbers (`ROps`), which the correspondence check ties to
   src/linear/{lasso_optimizer,bg_solver,lasso,elastic_net}.rs on the optimiser's own recorded
   iterations.  Every theorem about the optimiser holds for EVERY linear solver (`solver_t`: any
   function producing a 2p-vector, i.e. any sequence of Newton directions): a wrong direction can
   delay the exit through the duality-gap rule, it cannot falsify the certificate.
   Section 6 proves that the EXECUTABLE definitions the correspondence check runs (`optimize`,
   `lasso_fit`, `enet_fit`, with the model of the code's preconditioned BiCG as the solver) are
   instances of that transition system and restates the certificate about them with no solver
   parameter left; section 7 is the partial correctness (residual identity) of the BiCG loop.
   The convergence of the iteration (that the gap rule is reached within max_iter, that PCG returns
   a usable direction, that the line search accepts) is NOT a theorem: see meta/C08.json. *)
From Coquelicot Require Import Coquelicot.
From Coq Require Import List ZArith Reals Lra Bool Floats.
From SC Require Import Base.Num C08.Model C08.ProofsBase C08.ProofsDual C08.ProofsFit C08.ProofsGap C08.ProofsEnd C08.ProofsExamples C08.ProofsExamples2
  C08.ProofsNewton C08.ProofsDeriv C08.ProofsNewtonExamples C08.ProofsRefine C08.ProofsRefineExamples C08.ProofsEnet C08.ProofsPcg C08.ProofsPcgExamples.
Import ListNotations.
Local Open Scope R_scope.

(* ------------------------------------------------------------------------------------------- *)
(* 1. the certificate                                                                            *)
(* ------------------------------------------------------------------------------------------- *)

(* Weak duality of  min_w |Xw - y|^2 + lam |w|_1 : every nu with |X^T nu|_inf <= lam gives the lower
   bound  -nu.nu/4 - nu.y  on the objective of every w (all sizes, all data, lam >= 0). *)
Theorem C08_l1ls_weak_duality : forall (X : list (list R)) (y : list R) (lam : R) (w nu : list R),
  length y = length X -> length nu = length X -> 0 <= lam ->
  Forall (fun v => Rabs v <= lam) (mattvec ROps (length w) X nu) ->
  dual_value ROps nu y <= pobj_of ROps X y lam w.
Proof. exact l1ls_weak_duality. Qed.

Example C08_l1ls_weak_duality_sat :
  let X := [[1; 0]; [1; 1]; [0; 2]] in
  let nu := [-1 / 2; -1 / 2; -1 / 4] in
  Forall (fun v => Rabs v <= 1) (mattvec ROps 2 X nu) /\
  dual_value ROps nu [1; 2; 3] = 135 / 64 /\ pobj_of ROps X [1; 2; 3] 1 [1; 1] = 3.
Proof. exact ex_weak_duality_hyps. Qed.

(* The code's dual point (nu = 2(Xw - y), multiplied by lam/|X^T nu|_inf when that exceeds lam) is
   always dual feasible. *)
Theorem C08_dual_scaling_feasible : forall X yc lam w,
  0 <= lam ->
  Forall (fun v => Rabs v <= lam) (mattvec ROps (length w) X (dual_nu ROps X yc lam w)).
Proof. exact dual_scaling_feasible. Qed.

(* The running maximum `dobj` is a lower bound of the optimum in every state the loop can reach and
   in whatever `optimize` returns — through the gap rule or through the iteration budget. *)
Theorem C08_dobj_is_lower_bound :
  forall (solver : solver_t (T := R)) X y lam max_iter tol,
  length y = length X ->
  (forall k st z gap b dxu, solver k st z gap = Some (b, dxu) -> length dxu = (2 * ncols X)%nat) ->
  (forall k st, reachable solver X (center ROps y) (lam_used lam) tol (ncols X) k st ->
     forall w', length w' = ncols X ->
       0 <= st_dobj st <= lasso_objective ROps X (center ROps y) (lam_used lam) w') /\
  (forall w r d, optimize_gen ROps solver X y lam max_iter tol = Some (w, r, d) ->
     forall w', length w' = ncols X -> d <= lasso_objective ROps X (center ROps y) (lam_used lam) w').
Proof.
  intros solver X y lam max_iter tol Hy Hs. split.
  - intros k st Hr w' Hw'.
    destruct (reachable_inv solver X (center ROps y) (lam_used lam) tol (ncols X)
                ltac:(rewrite center_length; exact Hy) ltac:(left; apply lam_used_pos) Hs k st Hr)
      as [_ _ _ Hlb Hnn].
    split; [exact Hnn | apply Hlb; exact Hw'].
  - intros w r d H. exact (optimize_gen_dobj_lower_bound solver X y lam max_iter tol w r d Hy Hs H).
Qed.

(* |w_i| < u_i in every reachable state (the line search only accepts strictly interior points). *)
Theorem C08_iterate_strictly_interior :
  forall (solver : solver_t (T := R)) X yc lam tol p k st,
  length yc = length X -> 0 <= lam ->
  (forall k st z gap b dxu, solver k st z gap = Some (b, dxu) -> length dxu = (2 * p)%nat) ->
  reachable solver X yc lam tol p k st ->
  length (st_w st) = p /\ length (st_u st) = p /\
  Forall (fun wu => Rabs (fst wu) < snd wu) (combine (st_w st) (st_u st)).
Proof.
  intros solver X yc lam tol p k st Hy Hl Hs Hr.
  destruct (reachable_inv solver X yc lam tol p Hy Hl Hs k st Hr) as [H1 H2 H3 _ _]. auto.
Qed.

Example C08_reachable_sat : forall solver : solver_t (T := R),
  reachable solver [[1; 2]; [3; 4]; [5; 7]] [1; -2; 1] 1 (1 / 1000) 2 0 (ip_init ROps 2 1).
Proof. exact ex_reachable. Qed.

(* Exit through `gap / dobj < tol || gap <= 0`  =>  the returned coefficients are within a factor
   (1 + tol) of the minimum of  |Xw - (y - mean y)|^2 + lam' |w|_1  over ALL w in R^p
   (lam' = max(lam, epsilon), the penalty the code really uses) — for any solver, any max_iter. *)
Theorem C08_gap_stop_near_optimal :
  forall (solver : solver_t (T := R)) X y lam max_iter tol w d,
  length y = length X ->
  (forall k st z gap b dxu, solver k st z gap = Some (b, dxu) -> length dxu = (2 * ncols X)%nat) ->
  optimize_gen ROps solver X y lam max_iter tol = Some (w, ExitGap, d) -> 0 <= tol ->
  forall w', length w' = ncols X ->
    lasso_objective ROps X (center ROps y) (lam_used lam) w
    <= (1 + tol) * lasso_objective ROps X (center ROps y) (lam_used lam) w'.
Proof. exact optimize_gen_near_optimal_all. Qed.

Example C08_gap_stop_sat : forall solver : solver_t (T := R),
  ip_loop ROps solver [[1]; [-1]] [1; -1] 4 (1 / 10) 1 0 (ip_init ROps 1 4) = Some ([0], ExitGap, 2).
Proof. exact ex_gap_stop. Qed.

(* The validator: it builds its own dual point from an untrusted hint, checks feasibility itself,
   and its acceptance implies (1 + ctol)-optimality of w among all vectors of the same length. *)
Theorem C08_check_gap_certificate_sound : forall X yc lam w wd shrink ctol,
  check_gap_certificate ROps X yc lam w wd shrink ctol = true ->
  forall w', length w' = length w ->
    pobj_of ROps X yc lam w <= (1 + ctol) * pobj_of ROps X yc lam w'.
Proof. exact check_gap_certificate_sound. Qed.

Example C08_check_gap_certificate_sat :
  check_gap_with_nu ROps [[1]; [-1]] [1; -1] 4 [0] [-2; 2] (1 / 100) = true.
Proof. exact ex_certificate_accepts. Qed.

(* ------------------------------------------------------------------------------------------- *)
(* 2. elastic net                                                                                *)
(* ------------------------------------------------------------------------------------------- *)

(* What `optimize` minimises on the augmented data (it centres the padded target again, penalty
   l1*gamma) is the elastic-net objective of the back-scaled coefficients gamma * w~. *)
Theorem C08_enet_augmentation_objective : forall (X : list (list R)) (y : list R) (l1 l2 : R) (wt : list R),
  0 <= l2 -> length y = length X -> ncols X = length wt ->
  let '(X2, y2, gamma) := augment ROps X y l2 in
  pobj_of ROps X2 (center ROps y2) (l1 * gamma) wt =
  enet_objective ROps X (center ROps y) l1 l2 (map (fun wi => gamma * wi) wt).
Proof. exact enet_augmentation_objective. Qed.

Example C08_enet_shapes_sat :
  let X := [[1; 2]; [3; 4]; [5; 7]] in
  0 <= 1 / 2 /\ length [1; 2; 4] = length X /\ ncols X = length [1; -1].
Proof. exact ex_enet_shapes. Qed.

(* l1_ratio = 1: gamma = 1 and the optimiser is handed the Lasso objective with penalty alpha*n. *)
Theorem C08_enet_l1_ratio_one_is_lasso : forall (X : list (list R)) (y : list R) (alpha nf : R) (w : list R),
  length y = length X -> ncols X = length w ->
  let l1 := alpha * 1 * nf in
  let l2 := alpha * (1 - 1) * nf in
  let '(X2, y2, gamma) := augment ROps X y l2 in
  gamma = 1 /\
  pobj_of ROps X2 (center ROps y2) (l1 * gamma) w = lasso_objective ROps X (center ROps y) (alpha * nf) w.
Proof. exact enet_l1_ratio_one_is_lasso. Qed.

(* Adding a constant to every target changes the intercept by that constant and nothing else —
   elastic net (after the repair D8) and Lasso, for every optimiser / solver. *)
Theorem C08_enet_target_shift : forall opt X y alpha l1_ratio normalize tol max_iter c,
  y <> [] ->
  enet_fit_gen ROps opt X (map (fun v => v + c) y) alpha l1_ratio normalize tol max_iter =
  shift_intercept c (enet_fit_gen ROps opt X y alpha l1_ratio normalize tol max_iter).
Proof. exact enet_fit_shift. Qed.

Theorem C08_lasso_target_shift :
  forall (mk : list (list R) -> R -> solver_t (T := R)) X y alpha normalize tol max_iter c,
  y <> [] ->
  let opt := fun X y lam mi tol => opt_w (optimize_gen ROps (mk X lam) X y lam mi tol) in
  lasso_fit_gen ROps opt X (map (fun v => v + c) y) alpha normalize tol max_iter =
  shift_intercept c (lasso_fit_gen ROps opt X y alpha normalize tol max_iter).
Proof. exact lasso_fit_shift. Qed.

(* ------------------------------------------------------------------------------------------- *)
(* 3. Lasso::fit                                                                                 *)
(* ------------------------------------------------------------------------------------------- *)

(* predict(X) with the back-transformed coefficients and intercept = mean(y) + Z w. *)
Theorem C08_lasso_back_transform : forall (X : list (list R)) (means stds w : list R) (ymean : R),
  Forall (fun row => length row = length w) X -> length means = length w -> length stds = length w ->
  Forall (fun s => s <> 0) stds ->
  let '(w', b) := back_transform ROps ymean means stds w in
  predict ROps X w' b = map (fun v => v + ymean) (matvec ROps (scale_rows ROps X means stds) w).
Proof. exact lasso_back_transform. Qed.

Example C08_lasso_back_transform_sat :
  let X := [[1; 2]; [3; 4]; [5; 7]] in
  Forall (fun row : list R => length row = length [1; -1]) X /\
  length [3; 13 / 3] = length [1; -1] /\ length [2; 3] = length [1; -1] /\
  Forall (fun s : R => s <> 0) [2; 3].
Proof. exact ex_back_transform_shapes. Qed.

(* Invalid settings are errors (None), whatever the optimiser: n <= p, alpha < 0, tol <= 0,
   max_iter = 0, length mismatch; and a constant column under normalisation. *)
Theorem C08_lasso_param_errors : forall opt X y alpha normalize tol max_iter,
  ((length X <= ncols X)%nat \/ alpha < 0 \/ tol <= 0 \/ max_iter = 0%nat \/ length y <> length X ->
   lasso_fit_gen ROps opt X y alpha normalize tol max_iter = None) /\
  (forall j v, X <> [] -> (j < ncols X)%nat -> col ROps j X = repeat v (length X) ->
   lasso_fit_gen ROps opt X y alpha true tol max_iter = None).
Proof.
  intros opt X y alpha normalize tol max_iter. split.
  - apply lasso_invalid_is_err.
  - intros j v. apply lasso_constant_column_err.
Qed.

Example C08_constant_column_sat :
  let X := [[1; 5]; [2; 5]; [3; 5]] in
  X <> [] /\ (1 < ncols X)%nat /\ col ROps 1 X = repeat 5 (length X).
Proof. exact ex_constant_column. Qed.

(* ------------------------------------------------------------------------------------------- *)
(* 4. the property statement assembled (for every linear solver `mk X lam`)                      *)
(* ------------------------------------------------------------------------------------------- *)

(* Lasso::fit on a rectangular X with valid settings, Z = `design normalize X` (standardised columns
   or X itself): if the optimiser leaves through the gap rule then fit returns (coef, b) with
   predict(X) = mean(y) + Z w, and w is within a factor (1 + tol) of the minimum over all w' of
   |y - mean y - Z w'|^2 + lam |w'|_1,  lam = max(n * alpha, epsilon). *)
Theorem C08_lasso_fit_certified :
  forall (mk : list (list R) -> R -> solver_t (T := R)) X y alpha normalize tol max_iter Z w d,
  Forall (fun row => length row = ncols X) X ->
  lasso_valid ROps (length X) (ncols X) (length y) alpha tol max_iter = true ->
  design normalize X = Some Z ->
  let l1 := alpha * IZR (Z.of_nat (length X)) in
  solver_shape (mk Z l1) (ncols X) ->
  optimize_gen ROps (mk Z l1) Z y l1 max_iter tol = Some (w, ExitGap, d) ->
  let opt := fun X y lam mi tol => opt_w (optimize_gen ROps (mk X lam) X y lam mi tol) in
  exists coef b,
    lasso_fit_gen ROps opt X y alpha normalize tol max_iter = Some (coef, b) /\
    predict ROps X coef b = map (fun v => v + vmean ROps y) (matvec ROps Z w) /\
    forall w', length w' = ncols X ->
      lasso_objective ROps Z (center ROps y) (lam_used l1) w
      <= (1 + tol) * lasso_objective ROps Z (center ROps y) (lam_used l1) w'.
Proof. exact lasso_fit_certified. Qed.

Example C08_lasso_fit_certified_sat : forall mk : list (list R) -> R -> solver_t (T := R),
  let X := [[1]; [-1]] in
  Forall (fun row => length row = ncols X) X /\
  lasso_valid ROps (length X) (ncols X) (length [1; -1]) 2 (1 / 10) 1 = true /\
  design false X = Some X /\
  optimize_gen ROps (mk X (2 * IZR (Z.of_nat (length X)))) X [1; -1] (2 * IZR (Z.of_nat (length X))) 1 (1 / 10)
    = Some ([0], ExitGap, 2).
Proof. exact ex_lasso_fit_hyps. Qed.

(* ElasticNet::fit: same, for the elastic-net objective
   |y - mean y - Z w'|^2 + l2 |w'|^2 + l1 |w'|_1  with l2 = n alpha (1 - l1_ratio) and
   l1 = n alpha l1_ratio (exactly: `enet_l1_eff`, which is l1 unless l1*gamma < epsilon),
   at the back-scaled coefficients w = gamma * w~. *)
Theorem C08_enet_fit_certified :
  forall (mk : list (list R) -> R -> solver_t (T := R)) X y alpha l1_ratio normalize tol max_iter Z wt d,
  Forall (fun row => length row = ncols X) X ->
  length y = length X -> 0 <= tol ->
  design normalize X = Some Z ->
  let nf := IZR (Z.of_nat (length X)) in
  let l1 := alpha * l1_ratio * nf in
  let l2 := alpha * (1 - l1_ratio) * nf in
  0 <= l2 ->
  let '(X2, y2, gamma) := augment ROps Z y l2 in
  solver_shape (mk X2 (l1 * gamma)) (ncols X) ->
  optimize_gen ROps (mk X2 (l1 * gamma)) X2 y2 (l1 * gamma) max_iter tol = Some (wt, ExitGap, d) ->
  let opt := fun X y lam mi tol => opt_w (optimize_gen ROps (mk X lam) X y lam mi tol) in
  let w := map (fun wi => gamma * wi) wt in
  exists coef b,
    enet_fit_gen ROps opt X y alpha l1_ratio normalize tol max_iter = Some (coef, b) /\
    predict ROps X coef b = map (fun v => v + vmean ROps y) (matvec ROps Z w) /\
    forall w', length w' = ncols X ->
      enet_objective ROps Z (center ROps y) (enet_l1_eff l1 gamma) l2 w
      <= (1 + tol) * enet_objective ROps Z (center ROps y) (enet_l1_eff l1 gamma) l2 w'.
Proof. exact enet_fit_certified. Qed.

Theorem C08_enet_l1_eff_is_l1 : forall l1 gamma,
  0 < gamma -> c_eps ROps <= l1 * gamma -> enet_l1_eff l1 gamma = l1.
Proof. exact enet_l1_eff_id. Qed.

Example C08_enet_fit_certified_sat : forall mk : list (list R) -> R -> solver_t (T := R),
  let X := [[1]; [-1]] in
  let y := [1; -1] in
  let nf := IZR (Z.of_nat (length X)) in
  0 <= 2 * (1 - 1) * nf /\ design false X = Some X /\
  let '(X2, y2, gamma) := augment ROps X y (2 * (1 - 1) * nf) in
  optimize_gen ROps (mk X2 (2 * 1 * nf * gamma)) X2 y2 (2 * 1 * nf * gamma) 1 (1 / 10) = Some ([0], ExitGap, 2).
Proof. exact ex_enet_fit_hyps. Qed.

(* ------------------------------------------------------------------------------------------- *)
(* 5. the Newton step and the objective it minimises                                             *)
(* ------------------------------------------------------------------------------------------- *)
(* The barrier objective is the model's `phi_of` (the code's `phi` of the line search):
     phi(w,u) = |Xw - yc|^2 + lam * sum u - (1/t) * sum_i [ ln(u_i - w_i) + ln(u_i + w_i) ].
   `lin h w dw` is the point w + h*dw.  The code stores  grad = - (gradient of phi)  and solves
   H dxu = grad, so  grad . dxu > 0  is the descent condition (gradient . dxu < 0). *)

(* The model's `nw_grad` (built from 2 X^T z, q1, q2 as coded) is minus the gradient of phi at every
   strictly interior point: the derivative of phi along EVERY line through (w,u) is - grad . (dw,du)
   (coordinate directions give the partial derivatives). *)
Theorem C08_grad_is_gradient : forall (X : list (list R)) (yc : list R) (lam t : R) (w u : list R) (p : nat)
    (dw du : list R),
  length w = p -> length u = p -> length yc = length X -> strictly_interior w u -> t <> 0 ->
  length dw = p -> length du = p ->
  is_derive (fun h => phi_of ROps X yc lam t (lin h w dw) (lin h u du)) 0
            (- Rdot (nw_grad (newton_system ROps X lam t w u (residual ROps X yc w))) (dw ++ du)).
Proof. intros. apply (grad_is_gradient X yc lam t w u p); assumption. Qed.

(* The operator applied by the model's `ip_mat_vec` (the code's mat_vec_mul:
   [[2 X^T X + D1, D2], [D2, D1]] with d1, d2 from q1, q2) is the Hessian of phi: the derivative of
   (gradient . e) along every line with direction d is  (H d) . e ; and H is symmetric. *)
Theorem C08_hessian_is_hessian : forall (X : list (list R)) (yc : list R) (lam t : R) (w u : list R) (p : nat)
    (dw du ew eu : list R),
  length w = p -> length u = p -> length yc = length X -> strictly_interior w u -> t <> 0 ->
  length dw = p -> length du = p -> length ew = p -> length eu = p ->
  let H := ip_mat_vec ROps p (gram ROps p X) (newton_system ROps X lam t w u (residual ROps X yc w)) in
  is_derive (fun h => - Rdot (nw_grad (newton_system ROps X lam t (lin h w dw) (lin h u du)
                                         (residual ROps X yc (lin h w dw)))) (ew ++ eu)) 0
            (Rdot (H (dw ++ du)) (ew ++ eu)) /\
  Rdot (H (dw ++ du)) (ew ++ eu) = Rdot (H (ew ++ eu)) (dw ++ du).
Proof.
  intros X yc lam t w u p dw du ew eu Hw Hu Hy Hint Ht Hdw Hdu Hew Heu H. unfold H.
  rewrite !(hessian_form X lam t w u _ p Hw Hu) by assumption. split.
  - apply (hessian_is_hessian X yc lam t w u p); assumption.
  - apply hform_sym.
Qed.

(* H is positive definite at every strictly interior point when t > 0. *)
Theorem C08_hessian_spd : forall (X : list (list R)) (lam t : R) (w u z : list R) (p : nat) (dw du : list R),
  length w = p -> length u = p -> strictly_interior w u -> 0 < t -> length dw = p -> length du = p ->
  let H := ip_mat_vec ROps p (gram ROps p X) (newton_system ROps X lam t w u z) in
  0 <= Rdot (H (dw ++ du)) (dw ++ du) /\
  (Rdot (H (dw ++ du)) (dw ++ du) = 0 -> dw = repeat 0 p /\ du = repeat 0 p).
Proof. intros. apply hessian_spd; assumption. Qed.

(* The EXACT Newton direction (H dxu = grad) is a descent direction unless the gradient vanishes.
   (An inexact PCG solution need not be: that is the case the null step of e30c76a handles.) *)
Theorem C08_exact_newton_is_descent : forall (X : list (list R)) (lam t : R) (w u z : list R) (p : nat) (dw du : list R),
  length w = p -> length u = p -> strictly_interior w u -> 0 < t -> length dw = p -> length du = p ->
  let nw := newton_system ROps X lam t w u z in
  ip_mat_vec ROps p (gram ROps p X) nw (dw ++ du) = nw_grad nw ->
  0 < Rdot (nw_grad nw) (dw ++ du) \/
  (dw = repeat 0 p /\ du = repeat 0 p /\
   forall ew eu, length ew = p -> length eu = p -> Rdot (nw_grad nw) (ew ++ eu) = 0).
Proof. intros. apply exact_newton_is_descent; assumption. Qed.

Example C08_newton_sat :
  strictly_interior [0] [1] /\
  let nw := newton_system ROps [[1]] 1 1 [0] [1] (residual ROps [[1]] [1] [0]) in
  ip_mat_vec ROps 1 (gram ROps 1 [[1]]) nw ([1 / 2] ++ [1 / 2]) = nw_grad nw /\ nw_grad nw = [2; 1].
Proof. split; [exact ex_interior | exact ex_newton_solution]. Qed.

(* The preconditioner: `ip_precond` (solve_preconditioner) is the exact inverse of the block-diagonal
   matrix M = [[diag(prb), D2], [D2, D1]] (2 X^T X replaced by 2 I) whenever every determinant
   prs_i = prb_i*d1_i - d2_i^2 is non-zero; at a strictly interior point with t > 0 it equals
   2 d1 + 4 q1^2 q2^2 / t^2 > 0 in exact arithmetic. *)
Theorem C08_preconditioner_inverse : forall (X : list (list R)) (lam t : R) (w u z : list R) (p : nat) (bw bu : list R),
  length w = p -> length u = p -> length bw = p -> length bu = p ->
  let nw := newton_system ROps X lam t w u z in
  ((forall i, (i < p)%nat -> nth i (nw_prs nw) 0 <> 0) ->
   blockdiag_apply p nw (ip_precond ROps p nw (bw ++ bu)) = bw ++ bu) /\
  (forall i, (i < p)%nat ->
     nth i (nw_prs nw) 0 = (2 + d1i t w u i) * d1i t w u i - d2i t w u i * d2i t w u i) /\
  (strictly_interior w u -> 0 < t -> forall i, (i < p)%nat -> 0 < nth i (nw_prs nw) 0).
Proof.
  intros X lam t w u z p bw bu Hw Hu Hbw Hbu nw. split; [|split].
  - apply preconditioner_inverse; assumption.
  - apply prs_nth; assumption.
  - intros Hint Ht. apply prs_positive; assumption.
Qed.

(* The cancellation behind the known finding lasso-large-scale-err, in binary64: the code evaluates
   the determinant as prb*d1 - d2*d2 with prb = 2 + d1.  At a strictly interior point whose distance
   to the boundary is 2^-27 relative (here u = 1, w = 1 - 2^-27, t = 1) q2^2 = 2^54 swallows q1^2 and
   the 2: d1 = -d2 = prb in binary64 and the computed determinant is exactly 0 (over R it is positive
   by C08_preconditioner_inverse), so `solve_preconditioner` divides by zero and the direction is NaN.
   In general: prs is computed <= 0 as soon as (q1/q2)^2 (or (q2/q1)^2) and 2/d1 are below half an ulp,
   i.e. (u-|w|)/(u+|w|) <~ 2^-27 and t*(u-|w|)^2 <~ 2^-53 — reached when lambda*t*|w| >~ 2^26
   (central path: u-|w| ~ 1/(lambda t)), the regime n*alpha >~ 1e7..1e8 of the finding. *)
Example C08_prs_cancels_in_binary64 :
  (let w := [1 - 0x1p-27] in let u := [1] in
   interior FOps w u = true /\
   nw_prs (newton_system FOps [[1]] 1 1 w u [0]) = [0] /\
   nw_prb (newton_system FOps [[1]] 1 1 w u [0]) = nw_d1 (newton_system FOps [[1]] 1 1 w u [0]))%float.
Proof. exact prs_cancels_in_binary64. Qed.

(* ------------------------------------------------------------------------------------------- *)
(* 6. the EXECUTABLE optimiser (what the correspondence check runs) is an instance of sections 1-4 *)
(* ------------------------------------------------------------------------------------------- *)
(* `optimize` = `optimize_gen` with the model of the code's preconditioned-BiCG solver (`pcg_solver`:
   `solve_mut` / `pcg_loop` on `ip_mat_vec` / `ip_precond`, warm-started from the last direction).
   Sections 1-4 quantify over solvers that answer with 2p numbers on EVERY call (`solver_shape`);
   pcg_solver answers with min(2p, |warm start|) numbers, so it has that shape exactly on the states
   whose warm start has 2p entries.  The refinement theorem: (a) every state the executable loop
   reaches is such a state (and satisfies the invariants: strictly interior iterate, running dual value
   a lower bound), and on such states whatever pcg_solver returns — ANY numbers, nothing is assumed
   or proved about their accuracy here — is a legal direction of the transition system; (b) whatever
   optimize returns was produced by a path of the transition system (`reachable`) ending in the
   matching rule: `IpStop` (the exit test `gap/dobj < tol || gap <= 0`) for ExitGap, the exhausted
   `for ntiter in 0..max_iter` for ExitMaxIter, `IpFail` (solver Err, or line search exhausted on a
   non-finite direction) for None; (c) the same run is `optimize_gen` of a solver that has
   `solver_shape` unconditionally (pcg_solver made to fail off the reachable shapes), with exactly
   the same reachable states — so every theorem of sections 1-4 applies to the executable loop. *)
Theorem C08_optimize_refines_ts : forall X y lam max_iter tol,
  length y = length X ->
  let lam' := lam_used lam in
  let yc := center ROps y in
  let p := ncols X in
  let S := pcg_solver ROps X lam' in
  (forall k st, reachable S X yc lam' tol p k st ->
     ip_inv X yc lam' p st /\ length (st_dxu st) = (2 * p)%nat) /\
  (forall k st z gap b dxu, length (st_w st) = p -> length (st_dxu st) = (2 * p)%nat ->
     S k st z gap = Some (b, dxu) -> length dxu = (2 * p)%nat) /\
  match optimize ROps X y lam max_iter tol with
  | Some (w, ExitGap, d) =>
      exists j st po, (0 <= j < 0 + max_iter)%nat /\ reachable S X yc lam' tol p j st /\
                      ip_iter ROps S X yc lam' tol j st = IpStop w po d
  | Some (w, ExitMaxIter, d) =>
      exists st, reachable S X yc lam' tol p (0 + max_iter) st /\ w = st_w st /\ d = st_dobj st
  | None =>
      exists j st, (0 <= j < 0 + max_iter)%nat /\ reachable S X yc lam' tol p j st /\
                   ip_iter ROps S X yc lam' tol j st = IpFail
  end /\
  solver_shape (guard_solver p S) p /\
  (forall k st, reachable S X yc lam' tol p k st <-> reachable (guard_solver p S) X yc lam' tol p k st) /\
  optimize ROps X y lam max_iter tol = optimize_gen ROps (guard_solver p S) X y lam max_iter tol.
Proof. exact optimize_refines_ts. Qed.

(* The corollary stated directly about the executable optimize: an `Ok(w)` through the gap rule has
   p coefficients, the reported dual value is a lower bound of the objective everywhere, and w is
   within a factor (1 + tol) of the minimum of |Xw - (y - mean y)|^2 + max(lam,eps)|w|_1 over R^p.
   No hypothesis about the solver, the fuel or the iteration count is left: the Err exit (None) and
   the iteration-budget exit (ExitMaxIter) are excluded by the hypothesis, not totalised away. *)
Theorem C08_optimize_gap_exit_near_optimal : forall X y lam max_iter tol w d,
  length y = length X -> 0 <= tol ->
  optimize ROps X y lam max_iter tol = Some (w, ExitGap, d) ->
  length w = ncols X /\
  forall w', length w' = ncols X ->
    d <= lasso_objective ROps X (center ROps y) (lam_used lam) w' /\
    lasso_objective ROps X (center ROps y) (lam_used lam) w
    <= (1 + tol) * lasso_objective ROps X (center ROps y) (lam_used lam) w'.
Proof. exact optimize_gap_exit_near_optimal. Qed.

(* whatever exit (gap rule or iteration budget): the reported dual value is a lower bound *)
Theorem C08_optimize_any_exit_lower_bound : forall X y lam max_iter tol w r d,
  length y = length X ->
  optimize ROps X y lam max_iter tol = Some (w, r, d) ->
  length w = ncols X /\
  forall w', length w' = ncols X -> d <= lasso_objective ROps X (center ROps y) (lam_used lam) w'.
Proof. exact optimize_any_exit_lower_bound. Qed.

Example C08_optimize_exec_sat :
  optimize ROps [[1]; [-1]] [1; -1] (2 * IZR (Z.of_nat 2)) 1 (1 / 10) = Some ([0], ExitGap, 2).
Proof. exact ex_optimize_exec. Qed.

(* the binary64 instance of the same executable definition really iterates before it leaves through
   the gap rule (budgets of 1 and 3 outer iterations are exhausted, 100 are not) *)
Example C08_optimize_exec_binary64_runs :
  exit_of (optimize FOps exf_X exf_y 1%float 1 0x1p-10%float) = Some ExitMaxIter /\
  exit_of (optimize FOps exf_X exf_y 1%float 3 0x1p-10%float) = Some ExitMaxIter /\
  exit_of (optimize FOps exf_X exf_y 1%float 100 0x1p-10%float) = Some ExitGap.
Proof. exact ex_optimize_binary64_runs. Qed.

(* Lasso::fit and ElasticNet::fit as executed (`lasso_fit`, `enet_fit`: the code's own solver):
   C08_lasso_fit_certified / C08_enet_fit_certified without the solver parameter and its shape
   hypothesis. *)
Theorem C08_lasso_fit_exec_certified : forall X y alpha normalize tol max_iter Z w d,
  Forall (fun row => length row = ncols X) X ->
  lasso_valid ROps (length X) (ncols X) (length y) alpha tol max_iter = true ->
  design normalize X = Some Z ->
  let l1 := alpha * IZR (Z.of_nat (length X)) in
  optimize ROps Z y l1 max_iter tol = Some (w, ExitGap, d) ->
  exists coef b,
    lasso_fit ROps X y alpha normalize tol max_iter = Some (coef, b) /\
    predict ROps X coef b = map (fun v => v + vmean ROps y) (matvec ROps Z w) /\
    forall w', length w' = ncols X ->
      lasso_objective ROps Z (center ROps y) (lam_used l1) w
      <= (1 + tol) * lasso_objective ROps Z (center ROps y) (lam_used l1) w'.
Proof. exact lasso_fit_exec_certified. Qed.

Example C08_lasso_fit_exec_certified_sat :
  let X := [[1]; [-1]] in
  Forall (fun row => length row = ncols X) X /\
  lasso_valid ROps (length X) (ncols X) (length [1; -1]) 2 (1 / 10) 1 = true /\
  design false X = Some X /\
  optimize ROps X [1; -1] (2 * IZR (Z.of_nat (length X))) 1 (1 / 10) = Some ([0], ExitGap, 2).
Proof. exact ex_lasso_fit_exec_hyps. Qed.

Theorem C08_enet_fit_exec_certified : forall X y alpha l1_ratio normalize tol max_iter Z wt d,
  Forall (fun row => length row = ncols X) X ->
  length y = length X -> 0 <= tol ->
  design normalize X = Some Z ->
  let nf := IZR (Z.of_nat (length X)) in
  let l1 := alpha * l1_ratio * nf in
  let l2 := alpha * (1 - l1_ratio) * nf in
  0 <= l2 ->
  let '(X2, y2, gamma) := augment ROps Z y l2 in
  optimize ROps X2 y2 (l1 * gamma) max_iter tol = Some (wt, ExitGap, d) ->
  let w := map (fun wi => gamma * wi) wt in
  exists coef b,
    enet_fit ROps X y alpha l1_ratio normalize tol max_iter = Some (coef, b) /\
    predict ROps X coef b = map (fun v => v + vmean ROps y) (matvec ROps Z w) /\
    forall w', length w' = ncols X ->
      enet_objective ROps Z (center ROps y) (enet_l1_eff l1 gamma) l2 w
      <= (1 + tol) * enet_objective ROps Z (center ROps y) (enet_l1_eff l1 gamma) l2 w'.
Proof. exact enet_fit_exec_certified. Qed.

Example C08_enet_fit_exec_certified_sat :
  let X := [[1]; [-1]] in
  let y := [1; -1] in
  let nf := IZR (Z.of_nat (length X)) in
  0 <= 2 * (1 - 1) * nf /\ design false X = Some X /\
  let '(X2, y2, gamma) := augment ROps X y (2 * (1 - 1) * nf) in
  optimize ROps X2 y2 (2 * 1 * nf * gamma) 1 (1 / 10) = Some ([0], ExitGap, 2).
Proof. exact ex_enet_fit_exec_hyps. Qed.

(* ElasticNet::fit as executed reduces to the Lasso machinery on the augmented data
   (X2, y2, gamma) = augment_x_and_y(Z, y, l2), Z = `design normalize X`:
   (i) enet_fit = `optimize` on (X2, y2) with the penalty l1*gamma, then the code's rescaling
   (`enet_of_opt`: w = gamma * w~, division by the column deviations and intercept
   mean(y) - sum w_i mean_i under normalisation, (w, mean y) otherwise); (ii) whenever Lasso::fit
   accepts the augmented problem, that is Lasso::fit(X2, y2, alpha2, normalize = false) with
   alpha2 = l1*gamma/(n+p) (so that alpha2 * rows(X2) = l1*gamma) followed by the same rescaling, and
   that Lasso's own intercept is 0; it accepts it for every non-empty X, alpha*l1_ratio >= 0, tol > 0,
   max_iter > 0; (iii) the Lasso objective of the augmented problem at w~ IS the elastic-net objective
   at gamma*w~ (factor 1: the augmented design is already multiplied by gamma), for the nominal
   penalty and for the floored penalty max(l1*gamma, eps) that `optimize` really uses. *)
Theorem C08_enet_reduces_to_lasso : forall X y alpha l1_ratio normalize tol max_iter Z,
  length y = length X -> design normalize X = Some Z ->
  let nf := IZR (Z.of_nat (length X)) in
  let l1 := alpha * l1_ratio * nf in
  let l2 := alpha * (1 - l1_ratio) * nf in
  0 <= l2 ->
  let '(X2, y2, gamma) := augment ROps Z y l2 in
  let alpha2 := l1 * gamma / IZR (Z.of_nat (length X2)) in
  (length X2 = (length X + ncols X)%nat /\ ncols X2 = ncols X /\ length y2 = length X2 /\
   gamma = 1 / R_sqrt.sqrt (1 + l2) /\ 0 < gamma) /\
  enet_fit ROps X y alpha l1_ratio normalize tol max_iter =
    enet_of_opt normalize X (vmean ROps y) gamma (opt_w (optimize ROps X2 y2 (l1 * gamma) max_iter tol)) /\
  (lasso_valid ROps (length X2) (ncols X2) (length y2) alpha2 tol max_iter = true ->
     enet_fit ROps X y alpha l1_ratio normalize tol max_iter =
       enet_of_opt normalize X (vmean ROps y) gamma
         (match lasso_fit ROps X2 y2 alpha2 false tol max_iter with Some (wt, _) => Some wt | None => None end) /\
     forall wt b2, lasso_fit ROps X2 y2 alpha2 false tol max_iter = Some (wt, b2) -> b2 = 0) /\
  (X <> [] -> 0 <= alpha * l1_ratio -> 0 < tol -> max_iter <> 0%nat ->
     lasso_valid ROps (length X2) (ncols X2) (length y2) alpha2 tol max_iter = true) /\
  (forall wt, length wt = ncols X ->
     lasso_objective ROps X2 (center ROps y2) (l1 * gamma) wt =
     enet_objective ROps Z (center ROps y) l1 l2 (map (fun wi => gamma * wi) wt)) /\
  (forall wt, length wt = ncols X ->
     lasso_objective ROps X2 (center ROps y2) (lam_used (l1 * gamma)) wt =
     enet_objective ROps Z (center ROps y) (enet_l1_eff l1 gamma) l2 (map (fun wi => gamma * wi) wt)).
Proof. exact enet_reduces_to_lasso. Qed.

Example C08_enet_reduces_to_lasso_sat :
  let X := [[1; 2]; [3; 4]; [5; 7]] in
  let y := [1; 2; 4] in
  length y = length X /\ design false X = Some X /\
  0 <= 1 * (1 - 1 / 2) * IZR (Z.of_nat (length X)) /\
  X <> [] /\ 0 <= 1 * (1 / 2) /\ 0 < 1 / 1000 /\ 100%nat <> 0%nat.
Proof. exact ex_enet_reduces_hyps. Qed.

(* ------------------------------------------------------------------------------------------- *)
(* 7. partial correctness of the preconditioned BiCG solver (bg_solver.rs solve_mut)             *)
(* ------------------------------------------------------------------------------------------- *)
(* For EVERY linear operator A on vectors of length m (`linear_on`: A(v + a*u) = A v + a * A u) and
   every preconditioner M returning m numbers (nothing else is asked of M): the vector r carried by
   `pcg_loop` is the residual b - A x of the iterate x it carries, so whatever `solve_mut` returns
   after at least one pass (max_iter >= 2: `for iter in 1..max_iter`), the reported err is
   |b - A x'|_2 / |b|_2 for the returned x', and when err <= tol (the loop's exit test; the other way
   out is the exhausted iteration budget) |b - A x'|_2 <= tol * |b|_2.  Not proved: that the test is
   ever met (convergence of BiCG), and nothing about zero denominators bkden / akden. *)
Theorem C08_pcg_residual : forall (A M : list R -> list R) (m : nat) b x tol max_iter err x',
  linear_on m A -> (forall v, length (M v) = m) -> length b = m -> length x = m ->
  (2 <= max_iter)%nat ->
  solve_mut ROps A M b x tol max_iter = Some (err, x') ->
  0 < tol /\ length x' = m /\
  err = norm2 ROps (vsub ROps b (A x')) / norm2 ROps b /\
  (err <= tol -> 0 < norm2 ROps b ->
   norm2 ROps (vsub ROps b (A x')) <= tol * norm2 ROps b).
Proof. exact solve_mut_residual. Qed.

(* The optimiser's instance: `ip_mat_vec` (the Hessian of the barrier objective, section 5) is linear
   on R^2p; on a state with |w| = |u| = p and a warm start of 2p entries, whatever `pcg_solver`
   returns has 2p entries, the flag it reports is `pitr == 0 && !(err > pcgtol)` for
   err = |grad - H dxu|_2 / |grad|_2, so a true flag certifies that the direction solves the Newton
   system H dxu = grad up to pcg_tolerance * |grad|_2. *)
Theorem C08_pcg_solver_residual : forall X lam k st z gap flag dxu p,
  length (st_w st) = p -> length (st_u st) = p -> length (st_dxu st) = (2 * p)%nat ->
  pcg_solver ROps X lam k st z gap = Some (flag, dxu) ->
  let nw := newton_system ROps X lam (st_t st) (st_w st) (st_u st) z in
  let H := ip_mat_vec ROps p (gram ROps p X) nw in
  let pcgtol := pcg_tolerance ROps k (st_pitr0 st) gap (nw_grad nw) in
  let err := norm2 ROps (vsub ROps (nw_grad nw) (H dxu)) / norm2 ROps (nw_grad nw) in
  linear_on (2 * p) H /\
  0 < pcgtol /\ length dxu = (2 * p)%nat /\
  flag = (st_pitr0 st && negb (Rltb pcgtol err))%bool /\
  (flag = true -> 0 < norm2 ROps (nw_grad nw) ->
   norm2 ROps (vsub ROps (nw_grad nw) (H dxu)) <= pcgtol * norm2 ROps (nw_grad nw)).
Proof.
  intros X lam k st z gap flag dxu p Hw Hu Hd Hs nw H pcgtol err.
  split; [apply ip_mat_vec_linear | exact (pcg_solver_residual X lam k st z gap flag dxu p Hw Hu Hd Hs)].
Qed.

(* the 1-column problem X = [[1]] (X^T X = 1: the preconditioner is exact): on the state of
   C08_newton_sat the code's solver returns the exact Newton direction (1/2, 1/2) after one pass and
   keeps its flag *)
Example C08_pcg_solver_sat :
  pcg_solver ROps [[1]] 1 0%nat ex_state (residual ROps [[1]] [1] [0]) 1 = Some (true, [1 / 2; 1 / 2]) /\
  length (st_w ex_state) = 1%nat /\ length (st_u ex_state) = 1%nat /\ length (st_dxu ex_state) = 2%nat.
Proof. exact ex_pcg_solver. Qed.

Example C08_pcg_residual_sat : forall tol, 0 < tol ->
  let nw := newton_system ROps [[1]] 1 1 [0] [1] (residual ROps [[1]] [1] [0]) in
  linear_on 2 (ip_mat_vec ROps 1 (gram ROps 1 [[1]]) nw) /\
  solve_mut ROps (ip_mat_vec ROps 1 (gram ROps 1 [[1]]) nw) (ip_precond ROps 1 nw) (nw_grad nw) [0; 0]
            tol pcgmaxi = Some (0, [1 / 2; 1 / 2]).
Proof. intros tol Htol nw. split; [apply (ip_mat_vec_linear 1) | exact (ex_pcg_solve_tol tol Htol)]. Qed.
