(* C08 — Lasso and elastic net.  Property theorems only; statements are about the executable model
   SC.C08.Model instantiated at the real numbers (`ROps`), which the correspondence check ties to
   src/linear/{lasso_optimizer,bg_solver,lasso,elastic_net}.rs on the optimiser's own recorded
   iterations.  The convergence of the iteration (that the gap rule is reached within max_iter, that
   PCG returns a usable direction) is NOT a theorem: see meta/C08.json. *)
From Coq Require Import List ZArith Reals Lra Bool.
From SC Require Import Base.Num C08.Model C08.ProofsBase C08.ProofsDual.
Import ListNotations.
Local Open Scope R_scope.

(* Weak duality of  min_w |Xw - y|^2 + lam |w|_1 : every nu with |X^T nu|_inf <= lam gives the lower
   bound  -nu.nu/4 - nu.y  on the objective of every w (all sizes, all data, lam >= 0). *)
Theorem C08_l1ls_weak_duality : forall (X : list (list R)) (y : list R) (lam : R) (w nu : list R),
  length y = length X -> length nu = length X -> 0 <= lam ->
  Forall (fun v => Rabs v <= lam) (mattvec ROps (length w) X nu) ->
  dual_value ROps nu y <= pobj_of ROps X y lam w.
Proof. exact l1ls_weak_duality. Qed.

(* The code's dual point (nu = 2(Xw - y), multiplied by lam/|X^T nu|_inf when that exceeds lam) is
   always dual feasible. *)
Theorem C08_dual_scaling_feasible : forall X yc lam w,
  0 <= lam ->
  Forall (fun v => Rabs v <= lam) (mattvec ROps (length w) X (dual_nu ROps X yc lam w)).
Proof. exact dual_scaling_feasible. Qed.
