(* C06 — random forests.  Property theorems only: each is closed by assembling lemmas of
   C06/Proofs*.v; its assumptions are printed by the check.  Statements are about the executable
   model SC.C06.Model (generic in `Ops T`; `ROps` = exact real arithmetic, `FOps` = binary64) built on
   C05's tree model; the correspondence check ties it to src/ensemble/random_forest_{classifier,
   regressor}.rs by replaying recorded generator draws.

   The random generator is not modelled: `oracle t` = (the values `gen_range` returned while the
   bootstrap sample of tree t was drawn, the features tried at each node of tree t).  Every theorem
   quantifies over ALL oracles, hence over all seeds.  Seed reproducibility itself is trivial in a
   functional model and is deliberately not a theorem (DESIGN 3.3): it is checked at run time by
   fitting twice and comparing bytes.

   Vocabulary
   - `class_rows yi l`            rows whose class index is l;  `class_total yi s l` the number of
                                  draws of the sample s that hit those rows;
   - `member_preds O trees row p` p lists the member trees' own predictions for `row` in tree order
                                  (`member_vals` for the regressor);
   - `oob_members trees masks i`  the trees whose stored mask is `false` at row i, in tree order;
   - `node_vars p mtry draws`     the features find_best_cutoff tries at a node: 0..p-1, shuffled by
                                  rand 0.8's Fisher-Yates loop `shuffle_model` (driven by `draws`, the
                                  values gen_index returned) iff mtry < p, then the first mtry entries;
                                  `fy_draws_ok k draws`: iteration i = k..1 receives a value <= i. *)
From Coq Require Import List Arith ZArith Bool Reals Lra Lia Floats Permutation.
From SC Require Import Base.Num C05.Model C05.ProofsGrow C05.ProofsReg C05.ProofsCls C06.Model
     C06.ProofsBoot C06.ProofsAgg C06.ProofsFit C06.ProofsRange C06.ProofsTie C06.ProofsTotal C06.ProofsInst C06.ProofsOob C06.ProofsE2E
     C06.ProofsMtry C06.ProofsMtryCorr.
From SC Require C06.Corr.
Import ListNotations.
Local Open Scope nat_scope.

(* bootstrap_stratified (sampler level): for EVERY draw sequence on which the classifier's
   sample_with_replacement returns, the sample has one count per row, every class l < k receives
   exactly as many draws as it has rows, every non-empty class keeps at least one row, and rows whose
   class index is out of range receive nothing.  Axiom-free. *)
Theorem C06_bootstrap_stratified : forall yi k draws samples,
  cls_sample_with_replacement yi k draws = Some samples ->
  length samples = length yi /\
  (forall l, l < k -> class_total yi samples l = length (class_rows yi l)) /\
  (forall l, l < k -> class_rows yi l <> [] -> exists i, In i (class_rows yi l) /\ 0 < nth i samples 0) /\
  (forall i, k <= nth i yi 0 -> nth i samples 0 = 0) /\
  ((forall i, i < length yi -> nth i yi 0 < k) -> sum_nat samples = length yi).
Proof.
  intros yi k draws samples H. destruct (cls_sample_stratified yi k draws samples H) as (A & B & C & D).
  repeat split; auto. intros Hk. exact (cls_sample_total yi k draws samples Hk H).
Qed.

(* the regressor's plain bootstrap: n counts that sum to n, for every draw sequence *)
Theorem C06_bootstrap_plain : forall nrows draws samples,
  reg_sample_with_replacement nrows draws = Some samples ->
  length samples = nrows /\ sum_nat samples = nrows.
Proof. exact reg_sample_total. Qed.

(* the samplers return on EVERY sequence of values `gen_range` can produce (class by class, |class l|
   values below |class l|; resp. n values below n): the two theorems above are not vacuous for any seed *)
Theorem C06_bootstrap_total : forall yi k nrows draws,
  (draws_ok (map (fun l => length (class_rows yi l)) (seq 0 k)) draws ->
   exists samples, cls_sample_with_replacement yi k draws = Some samples) /\
  (nrows <= length draws -> Forall (fun xi => xi < nrows) draws ->
   exists samples, reg_sample_with_replacement nrows draws = Some samples).
Proof.
  intros yi k nrows draws. split; [apply cls_sample_total_fn|apply reg_sample_total_fn].
Qed.

(* n_trees_members (classifier): a fitted forest holds exactly n_trees member trees; with
   keep_samples it stores one mask of n entries per tree, without it none.  Any number type. *)
Theorem C06_n_trees_members_classifier : forall T (O : Ops T) lg2 crit x y n_trees oracle md msl mss keep f,
  fit_cforest O lg2 crit x y n_trees oracle md msl mss keep = Some f ->
  length (cf_trees f) = n_trees /\
  (keep = false -> cf_samples f = None) /\
  (keep = true -> exists masks, cf_samples f = Some masks /\ length masks = n_trees /\
                                Forall (fun m => length m = length y) masks).
Proof. exact @cforest_members. Qed.

(* n_trees_members (regressor), together with what each member is: tree t was grown by
   fit_weak_learner on a bootstrap sample s of n draws, and the stored mask t is the support of s *)
Theorem C06_n_trees_members_regressor : forall T (O : Ops T) x y n_trees oracle md msl mss keep f,
  fit_rforest O x y n_trees oracle md msl mss keep = Some f ->
  length (rf_trees f) = n_trees /\
  (keep = false -> rf_samples f = None) /\
  (keep = true -> exists masks, rf_samples f = Some masks /\ length masks = n_trees /\
                                Forall (fun m => length m = length x) masks) /\
  forall t, t < n_trees -> exists s tr,
    fit_regressor_weak O x y s (snd (oracle t)) md msl mss = Some tr /\
    nth_error (rf_trees f) t = Some tr /\ length s = length x /\ sum_nat s = length x /\
    (keep = true -> exists masks, rf_samples f = Some masks /\ nth_error masks t = Some (mask_of s)).
Proof. exact @rforest_members. Qed.

(* bootstrap_stratified (forest level, in terms of the ORIGINAL labels, exact arithmetic): in a
   fitted classifier forest every member tree t was grown on a sample s of n draws in which every
   label v of the training set has exactly as many draws as it has rows, and at least one row of
   label v is in the sample — and in the stored mask. *)
Theorem C06_bootstrap_contains_every_class : forall lg2 crit x y n_trees oracle md msl mss keep f,
  fit_cforest ROps lg2 crit x y n_trees oracle md msl mss keep = Some f ->
  forall t, t < n_trees ->
  exists s tr,
    fit_classifier_weak ROps lg2 crit x y s (snd (oracle t)) md msl mss = Some tr /\
    nth_error (cf_trees f) t = Some tr /\ length s = length y /\ sum_nat s = length y /\
    (keep = true -> exists masks, cf_samples f = Some masks /\ nth_error masks t = Some (mask_of s)) /\
    forall v, In v y ->
      nsum (fun i => nth i s 0) (filter (fun i => Reqb (nth i y 0%R) v) (seq 0 (length y))) =
      length (filter (fun i => Reqb (nth i y 0%R) v) (seq 0 (length y))) /\
      exists i, i < length y /\ nth i y 0%R = v /\ 0 < nth i s 0 /\ nth i (mask_of s) false = true.
Proof.
  intros lg2 crit x y n oracle md msl mss keep f H t Ht.
  refine (cforest_bootstrap_stratified ROps lg2 _ _ crit x y n oracle md msl mss keep f 0%R H t Ht).
  - intros a b E. apply Reqb_true. exact E.
  - intros a. apply Reqb_true. reflexivity.
Qed.

(* forest_vote: the class index the forest predicts for a row is a plurality class of the member
   trees' own predictions for that row.  Any number type, any list of member trees. *)
Theorem C06_forest_vote : forall T (O : Ops T) (f : cforest T) row c,
  0 < length (cf_classes f) ->
  cf_predict_for_row O f row = Some c ->
  exists preds, member_preds O (cf_trees f) row preds /\
                Forall (fun c' => c' < length (cf_classes f)) preds /\
                c < length (cf_classes f) /\
                forall c', count_occ Nat.eq_dec preds c' <= count_occ Nat.eq_dec preds c.
Proof. exact @cf_predict_for_row_plurality. Qed.

(* ... and ties are broken towards the smallest class index (which_max keeps the first maximum):
   every class with a smaller index has strictly fewer votes *)
Theorem C06_forest_vote_tie_break : forall T (O : Ops T) (f : cforest T) row c preds,
  cf_predict_for_row O f row = Some c -> member_preds O (cf_trees f) row preds ->
  forall c', c' < c -> count_occ Nat.eq_dec preds c' < count_occ Nat.eq_dec preds c.
Proof. exact @cf_predict_for_row_first_max. Qed.

(* forest_mean: the regressor's prediction is the sum of the member trees' predictions (added in tree
   order starting from 0) divided by the number of trees — for every number type, so over binary64 it
   is the rounded mean in exactly this order ... *)
Theorem C06_forest_mean : forall T (O : Ops T) (f : rforest T) row v,
  rf_predict_for_row O f row = Some v ->
  exists preds, member_vals O (rf_trees f) row preds /\
                v = O.(odiv) (fold_left O.(oadd) preds O.(o0)) (ofn O (length preds)).
Proof. exact @rf_predict_for_row_mean. Qed.
(* ... and over the reals the arithmetic mean *)
Theorem C06_forest_mean_exact : forall (f : rforest R) row v,
  rf_predict_for_row ROps f row = Some v ->
  exists preds, member_vals ROps (rf_trees f) row preds /\ (v = Rsum preds / IZN (length preds))%R.
Proof. exact rf_mean_R. Qed.

(* oob_uses_exactly_unsampled_trees.  (1) A tree takes part in the out-of-bag aggregation of row i
   iff its stored mask is `false` at i;  (2) for a fitted forest that mask entry is `false` iff the
   bootstrap sample the tree was grown on does not contain row i (C06_n_trees_members_regressor /
   C06_bootstrap_contains_every_class give `mask t = mask_of s`);  (3) entry i of predict_oob is the
   ordinary forest prediction (vote resp. mean) of exactly that sub-forest on training row i. *)
Theorem C06_oob_members_are_the_unsampled_trees : forall Tr (trees : list Tr) masks i tr,
  In tr (oob_members trees masks i) <->
  exists t m, nth_error trees t = Some tr /\ nth_error masks t = Some m /\ nth i m true = false.
Proof. exact @oob_members_In. Qed.

Theorem C06_mask_false_iff_not_sampled : forall s i, i < length s ->
  (nth i (mask_of s) true = false <-> nth i s 0 = 0).
Proof. exact mask_of_false. Qed.

Theorem C06_oob_classifier : forall T (O : Ops T) (f : cforest T) x out,
  cf_predict_oob O f x = Some out ->
  exists masks, cf_samples f = Some masks /\ length out = length x /\
    forall i, i < length x ->
      exists c, cf_predict_for_row O (mkCF (oob_members (cf_trees f) masks i) (cf_classes f) None) (nth i x []) = Some c /\
                nth_error (cf_classes f) c = nth_error out i /\ c < length (cf_classes f).
Proof. exact @cf_predict_oob_spec. Qed.

Theorem C06_oob_regressor : forall T (O : Ops T) (f : rforest T) x out,
  rf_predict_oob O f x = Some out ->
  exists masks, rf_samples f = Some masks /\ length out = length x /\
    forall i, i < length x ->
      exists v, rf_predict_for_row O (mkRF (oob_members (rf_trees f) masks i) None) (nth i x []) = Some v /\
                nth_error out i = Some v.
Proof. exact @rf_predict_oob_spec. Qed.

(* oob_uses_exactly_unsampled_trees, assembled for FITTED forests: the bootstrap samples `ss` the
   member trees were grown on exist as one list (tree t = fit_weak_learner on sample t), the stored masks
   are their supports, and entry i of predict_oob is the forest prediction (mean resp. vote) of exactly
   the trees, selected by position, whose sample has count 0 at training row i.  Any number type. *)
Theorem C06_oob_uses_exactly_unsampled_trees_regressor : forall T (O : Ops T) x y n_trees oracle md msl mss f out,
  fit_rforest O x y n_trees oracle md msl mss true = Some f ->
  rf_predict_oob O f x = Some out ->
  exists ss : list (list nat),
    length ss = n_trees /\ Forall (fun s => length s = length x /\ sum_nat s = length x) ss /\
    rf_samples f = Some (map mask_of ss) /\
    (forall t, t < n_trees ->
       fit_regressor_weak O x y (nth t ss []) (snd (oracle t)) md msl mss = nth_error (rf_trees f) t) /\
    forall i, i < length x ->
      nth_error out i =
      rf_predict_for_row O (mkRF (map fst (filter (fun ts => nth i (snd ts) 0 =? 0) (combine (rf_trees f) ss))) None)
                         (nth i x []).
Proof. exact @rforest_oob_exact. Qed.

Theorem C06_oob_uses_exactly_unsampled_trees_classifier : forall T (O : Ops T) lg2 crit x y n_trees oracle md msl mss f out,
  length y = length x ->
  fit_cforest O lg2 crit x y n_trees oracle md msl mss true = Some f ->
  cf_predict_oob O f x = Some out ->
  exists ss : list (list nat),
    length ss = n_trees /\ Forall (fun s => length s = length x) ss /\
    cf_samples f = Some (map mask_of ss) /\
    (forall t, t < n_trees ->
       fit_classifier_weak O lg2 crit x y (nth t ss []) (snd (oracle t)) md msl mss = nth_error (cf_trees f) t) /\
    forall i, i < length x ->
      exists c,
        cf_predict_for_row O (mkCF (map fst (filter (fun ts => nth i (snd ts) 0 =? 0) (combine (cf_trees f) ss)))
                                   (cf_classes f) None) (nth i x []) = Some c /\
        nth_error (cf_classes f) c = nth_error out i /\ c < length (cf_classes f).
Proof. exact @cforest_oob_exact. Qed.

(* labels_are_originals: every value returned by predict (for any rows) and by predict_oob of a
   fitted classifier forest is one of the training labels.  Any number type. *)
Theorem C06_labels_are_originals : forall T (O : Ops T) lg2 crit x y n_trees oracle md msl mss keep f,
  fit_cforest O lg2 crit x y n_trees oracle md msl mss keep = Some f ->
  (forall rows out, cf_predict O f rows = Some out -> Forall (fun v => In v y) out) /\
  (forall out, cf_predict_oob O f x = Some out -> Forall (fun v => In v y) out).
Proof. exact @cforest_labels_original. Qed.

(* regressor_within_target_range (exact arithmetic): every prediction of a fitted regressor forest —
   for ANY row, seen or unseen — and every out-of-bag prediction of a training row that has at least
   one out-of-bag tree lies between the smallest and the largest training target.  Weighted means of
   weighted means.  No hypothesis on the feature orders or on the oracle: composed with C05's
   end-to-end leaf-value theorem (quick_argsort proved to return a sorting permutation over R); tried
   entries that are not column indices are shown to be no-ops (C06/ProofsE2E.v). *)
Theorem C06_regressor_within_target_range : forall x y n_trees oracle md msl mss keep f lo hi,
  x <> [] -> length y = length x -> 1 <= msl -> 0 < n_trees ->
  (forall i, i < length y -> (lo <= nth i y 0 <= hi)%R) ->
  fit_rforest ROps x y n_trees oracle md msl mss keep = Some f ->
  (forall row v, rf_predict_for_row ROps f row = Some v -> (lo <= v <= hi)%R) /\
  (forall out masks, rf_predict_oob ROps f x = Some out -> rf_samples f = Some masks ->
     forall i v, i < length x -> nth_error out i = Some v ->
       oob_members (rf_trees f) masks i <> [] -> (lo <= v <= hi)%R).
Proof.
  intros x y n oracle md msl mss keep f lo hi NE Hy Hmsl Hn Hb H.
  pose proof (rforest_in_range_e2e x y n oracle md msl mss keep f lo hi NE Hy Hmsl Hb H) as F.
  destruct (rforest_members ROps x y n oracle md msl mss keep f H) as (L & _).
  split.
  - intros row v P. destruct f as [trees smp]. cbn [rf_trees] in *.
    apply (forest_in_range lo hi trees smp row v F); [|exact P]. intros ->. cbn in L. lia.
  - intros out masks P S i v Hi Hv NEm.
    destruct (rf_predict_oob_spec ROps f x out P) as (masks' & S' & _ & Q). rewrite S in S'. injection S' as <-.
    destruct (Q i Hi) as (v' & P' & Hv'). rewrite Hv in Hv'. injection Hv' as <-.
    apply (forest_in_range lo hi _ None (nth i x []) v (oob_members_sub _ masks i _ F) NEm P').
Qed.

(* member trees of a fitted classifier forest (exact arithmetic for the feature comparisons): tree t
   was grown on a bootstrap sample s of n draws (whose support is the stored mask), and the output of
   EVERY node k of it is a class index with maximal bootstrap-weighted count among the training rows
   routed to k — a majority class; `G k` is the weight vector of node k (row i has weight s[i] if it
   is routed to k and 0 otherwise), `cvec` the per-class totals, `yi` the class index of each row.
   C05_leaf_value_classification_weak composed with the fit structure; no hypothesis on the oracle. *)
Theorem C06_member_trees_majority : forall lg2 crit x y n_trees oracle md msl mss keep f,
  length y = length x ->
  fit_cforest ROps lg2 crit x y n_trees oracle md msl mss keep = Some f ->
  forall t, t < n_trees ->
  exists s classes nodes d,
    nth_error (cf_trees f) t = Some (classes, nodes, d) /\
    length s = length x /\ sum_nat s = length x /\
    (keep = true -> exists masks, cf_samples f = Some masks /\ nth_error masks t = Some (mask_of s)) /\
    exists yi, length yi = length x /\
      (forall i, i < length x -> nth i yi 0 < length classes /\ nth (nth i yi 0) classes 0%R = nth i y 0%R) /\
      exists G D, tree_consistent ROps 0 x msl (cls_out_ok x yi (length classes)) s nodes G D /\
        (forall i k, i < length x -> k < length nodes ->
          (route ROps nodes (nth i x []) k -> nth i (G k) 0 = nth i s 0) /\
          (~ route ROps nodes (nth i x []) k -> nth i (G k) 0 = 0)) /\
        forall k, k < length nodes ->
          output (nth k nodes (dnode 0)) < length classes /\
          forall c, nth c (cvec x yi (length classes) (G k)) 0 <=
                    nth (output (nth k nodes (dnode 0))) (cvec x yi (length classes) (G k)) 0.
Proof. exact cforest_member_majority. Qed.

(* ------------------------------------------------------------------------------------------ *)
(* mtry and the features tried at a node (C06/ProofsMtry.v, C06/ProofsMtryCorr.v)              *)
(* ------------------------------------------------------------------------------------------ *)
(* mtry_default: both forests use `parameters.m.unwrap_or(floor(sqrt(num_attributes)))`.  A user value
   is passed through unchanged (also 0 and values above p: no clamp in the code); the default is THE
   integer r with r^2 <= p < (r+1)^2, lies in 1..p for every p >= 1 and is < p as soon as p >= 2 (so the
   default shuffles at every node unless there is a single feature).  Axiom-free.  (That the code's
   floating-point `sqrt().floor()` equals this integer is validated per run, not proved.) *)
Theorem C06_mtry_default : forall p,
  (forall m, mtry_of (Some m) p = m) /\
  (mtry_of None p * mtry_of None p <= p < S (mtry_of None p) * S (mtry_of None p)) /\
  (forall r, r * r <= p < S r * S r -> mtry_of None p = r) /\
  (1 <= p -> 1 <= mtry_of None p <= p) /\
  (2 <= p -> mtry_of None p < p).
Proof. exact mtry_of_spec. Qed.

(* the boolean validators the correspondence evaluates on every recorded feature list are EXACT:
   nodupb decides NoDup; vars_okb p mtry vs holds iff vs consists of min(mtry,p) distinct column
   indices, iff vs is the mtry-prefix of some permutation of 0..p-1 *)
Theorem C06_vars_okb_exact : forall p mtry,
  (forall l, nodupb l = true <-> NoDup l) /\
  (forall vs, vars_okb p mtry vs = true <->
              length vs = Nat.min mtry p /\ (forall j, In j vs -> j < p) /\ NoDup vs) /\
  (forall vs, vars_okb p mtry vs = true <->
              exists perm, Permutation (seq 0 p) perm /\ vs = firstn mtry perm).
Proof.
  intros p mtry. split; [exact nodupb_NoDup|]. split; [exact (vars_okb_valid p mtry)|].
  intros vs. rewrite vars_okb_valid. exact (valid_subsample_iff_prefix p mtry vs).
Qed.

(* shuffle_is_permutation: the transliterated Fisher-Yates loop of rand 0.8 (`for i in (1..len).rev()
   { swap(i, gen_index(rng, i+1)) }`, `draws` = the values gen_index returned) returns a permutation
   of its input for EVERY draw sequence on which it returns, for every element type ... *)
Theorem C06_shuffle_is_permutation : forall A (l : list A) draws l',
  shuffle_model l draws = Some l' -> Permutation l l'.
Proof. exact @shuffle_model_perm. Qed.
(* ... it returns on every sequence gen_index can produce (iteration i receives a value <= i) ... *)
Theorem C06_shuffle_total : forall A (l : list A) draws,
  fy_draws_ok (length l - 1) draws -> exists l', shuffle_model l draws = Some l'.
Proof. exact @shuffle_model_total. Qed.
(* ... and every permutation of the input is produced by some such sequence *)
Theorem C06_shuffle_reaches_every_permutation : forall A (l l' : list A),
  Permutation l l' ->
  exists draws, fy_draws_ok (length l - 1) draws /\ shuffle_model l draws = Some l'.
Proof. exact @shuffle_model_surjective. Qed.

(* feature_subsample_valid: whatever the generator returns, the features tried at a node
   (`node_vars p mtry draws`: 0..p-1, shuffled iff mtry < p, first mtry entries) are min(mtry,p) distinct
   column indices, pass the boolean check, and are all features in order when mtry >= p; the model
   returns on every sequence gen_index can produce; and conversely every list accepted by vars_okb is
   a possible value (so "vars_okb = true" on a recorded list says exactly: a possible subsample). *)
Theorem C06_feature_subsample_valid : forall p mtry,
  (forall draws vs, node_vars p mtry draws = Some vs ->
     length vs = Nat.min mtry p /\ (forall j, In j vs -> j < p) /\ NoDup vs /\ vars_okb p mtry vs = true) /\
  (forall draws, p <= mtry -> node_vars p mtry draws = Some (seq 0 p)) /\
  (forall draws, fy_draws_ok (p - 1) draws -> exists vs, node_vars p mtry draws = Some vs) /\
  (forall vs, mtry < p -> vars_okb p mtry vs = true ->
     exists draws, fy_draws_ok (p - 1) draws /\ node_vars p mtry draws = Some vs).
Proof.
  intros p mtry. split.
  - intros draws vs H. destruct (node_vars_valid p mtry draws vs H) as ((A & B & C) & D & _). auto.
  - split; [intros draws; exact (node_vars_all p mtry draws)|].
    split; [intros draws; exact (node_vars_total p mtry draws)|exact (vars_okb_reachable p mtry)].
Qed.

(* what a passed correspondence case has established about the recorded oracle (Corr.oracle_okb is a
   conjunct of every whole-forest correspondence term): every tree consumed exactly n draws, and every
   feature list the model's member trees are given is all of 0..p-1 (node ids without a record) or
   min(mtry,p) distinct column indices, i.e. the mtry-prefix of a permutation of 0..p-1 *)
Theorem C06_recorded_features_valid : forall n p mtry (l : SC.C06.Corr.oracle_lit),
  SC.C06.Corr.oracle_okb n p mtry l = true ->
  forall t, t < length l ->
    length (fst (SC.C06.Corr.oracle_of p l t)) = n /\
    forall id, let vs := snd (SC.C06.Corr.oracle_of p l t) id in
      vs = seq 0 p \/
      ((length vs = Nat.min mtry p /\ (forall j, In j vs -> j < p) /\ NoDup vs) /\
       exists perm, Permutation (seq 0 p) perm /\ vs = firstn mtry perm).
Proof. exact oracle_okb_sound. Qed.

(* oob_members_spec: for masks that are the supports of bootstrap samples ss (as in every fitted
   forest, C06_oob_uses_exactly_unsampled_trees_classifier / _regressor), the out-of-bag sub-forest of row i is exactly the
   trees, selected by position, whose sample has count 0 at row i; C06_oob_classifier /
   C06_oob_regressor say that the out-of-bag prediction is the forest prediction of that sub-forest *)
Theorem C06_oob_members_spec : forall Tr (trees : list Tr) (ss : list (list nat)) i,
  length ss = length trees -> Forall (fun s => i < length s) ss ->
  oob_members trees (map mask_of ss) i =
  map fst (filter (fun ts => nth i (snd ts) 0 =? 0) (combine trees ss)).
Proof. exact @oob_members_by_count. Qed.

(* ------------------------------------------------------------------------------------------ *)
(* extensions stated, not proved (covered by correspondence and search only)                   *)
(* ------------------------------------------------------------------------------------------ *)
(* the range clause for binary64: float means can leave the range by rounding only; stated with the
   exact bounds it is searched with a 1e-9 relative tolerance *)
Definition C06_regressor_within_target_range_float_full_statement : Prop :=
  forall x y n_trees oracle md msl mss keep f (lo hi : float),
    x <> [] -> length y = length x -> 1 <= msl -> 0 < n_trees ->
    (forall i, i < length y -> PrimFloat.leb lo (nth i y 0%float) = true /\ PrimFloat.leb (nth i y 0%float) hi = true) ->
    fit_rforest FOps x y n_trees oracle md msl mss keep = Some f ->
    forall row v, rf_predict_for_row FOps f row = Some v ->
      PrimFloat.leb lo v = true /\ PrimFloat.leb v hi = true.

(* ------------------------------------------------------------------------------------------ *)
(* the hypotheses are satisfiable (binary64 instance, evaluated by the kernel)                 *)
(* ------------------------------------------------------------------------------------------ *)
(* draws for 4 rows of class 0 then 3 rows of class 1 (each draw < class size); one feature *)
Definition ex_oracle (t : nat) : list nat * (nat -> list nat) :=
  (match t with 0 => [0; 3; 3; 1; 2; 2; 0] | 1 => [1; 1; 2; 0; 0; 1; 1] | _ => [3; 2; 1; 0; 0; 1; 2] end,
   fun _ => [0]).

Example C06_bootstrap_instance :
  cls_sample_with_replacement [0; 0; 1; 0; 1; 1; 0] 2 [0; 3; 3; 1; 2; 2; 0] = Some [1; 1; 1; 0; 0; 2; 2] /\
  reg_sample_with_replacement 5 [4; 4; 0; 2; 4] = Some [1; 0; 1; 0; 3].
Proof. split; vm_compute; reflexivity. Qed.

Example C06_classifier_instance :
  exists f,
    fit_cforest FOps (fun p => p) Gini [[1];[2];[6];[3];[7];[8];[4]]%float [-2;-2;17;-2;17;17;-2]%float 3
                ex_oracle None 1 2 true = Some f /\
    length (cf_trees f) = 3 /\ cf_classes f = [-2; 17]%float /\
    cf_samples f = Some [[true;true;true;false;false;true;true];
                         [true;true;true;true;true;false;false];
                         [true;true;true;true;true;true;true]] /\
    cf_predict FOps f [[0];[5];[9]]%float = Some [-2; -2; 17]%float /\
    cf_predict_oob FOps f [[1];[2];[6];[3];[7];[8];[4]]%float = Some [-2;-2;-2;-2;17;17;-2]%float /\
    oob_members (cf_trees f) [[true;true;true;false;false;true;true];
                              [true;true;true;true;true;false;false];
                              [true;true;true;true;true;true;true]] 3 = firstn 1 (cf_trees f).
Proof. eexists. split; [vm_compute; reflexivity|]. repeat split; vm_compute; reflexivity. Qed.

(* all hypotheses of C06_regressor_within_target_range hold together on an exact-arithmetic instance:
   3 rows, 2 bootstrap samples, orders computed by quick_argsort over R (root-only trees because
   min_samples_split exceeds the sample size, so that the fit can be evaluated symbolically) *)
Example C06_range_instance :
  exists f, fit_rforest ROps xr yr 2 orc None 1 10 true = Some f /\
            forall row v, rf_predict_for_row ROps f row = Some v -> (1 <= v <= 5)%R.
Proof.
  destruct fit_xr as (f & H & _). exists f. split; [exact H|].
  refine (proj1 (C06_regressor_within_target_range xr yr 2 orc None 1 10 true f 1%R 5%R _ _ _ _ _ H)).
  - discriminate.
  - reflexivity.
  - lia.
  - lia.
  - intros i Hi. unfold yr in *. cbn in Hi. destruct i as [|[|[|i]]]; cbn; try lra. lia.
Qed.

Example C06_regressor_instance :
  exists f,
    fit_rforest FOps [[1];[2];[6];[3];[7];[8];[4]]%float [1;2;10;3;11;12;4]%float 3
                ex_oracle None 1 2 true = Some f /\
    length (rf_trees f) = 3 /\
    rf_predict FOps f [[0];[5];[9]]%float = Some [1; 10; 10]%float /\
    option_map (fun o => skipn 3 o) (rf_predict_oob FOps f [[1];[2];[6];[3];[7];[8];[4]]%float) =
      Some [2; 10; 10; 0x1.5555555555555p+1]%float.
Proof. eexists. split; [vm_compute; reflexivity|]. repeat split; vm_compute; reflexivity. Qed.

Example C06_mtry_instance :
  mtry_of None 1 = 1 /\ mtry_of None 10 = 3 /\ mtry_of None 16 = 4 /\ mtry_of (Some 7) 10 = 7.
Proof. repeat split. Qed.

(* five features, mtry = 2, draws 2 0 1 1 for the iterations i = 4 3 2 1 *)
Example C06_shuffle_instance :
  fy_draws_ok 4 [2; 0; 1; 1] /\
  shuffle_model [0; 1; 2; 3; 4] [2; 0; 1; 1] = Some [3; 4; 1; 0; 2] /\
  node_vars 5 2 [2; 0; 1; 1] = Some [3; 4] /\ vars_okb 5 2 [3; 4] = true /\
  node_vars 5 5 [] = Some [0; 1; 2; 3; 4] /\
  vars_okb 5 2 [3; 3] = false /\ vars_okb 5 2 [3; 5] = false /\ vars_okb 5 2 [3] = false /\
  shuffle_model [0; 1; 2] [3; 0] = None.
Proof. repeat split; cbn; try lia; vm_compute; reflexivity. Qed.

Example C06_recorded_features_instance :
  SC.C06.Corr.oracle_okb 3 4 2 [([0; 2; 2]%N, [(0%N, [3; 1]%N); (2%N, [0; 3]%N)])] = true /\
  snd (SC.C06.Corr.oracle_of 4 [([0; 2; 2]%N, [(0%N, [3; 1]%N); (2%N, [0; 3]%N)])] 0) 2 = [0; 3].
Proof. split; vm_compute; reflexivity. Qed.

Example C06_oob_members_instance :
  oob_members [10; 20; 30] (map mask_of [[1; 0]; [0; 2]; [0; 1]]) 0 = [20; 30] /\
  map fst (filter (fun ts => nth 0 (snd ts) 0 =? 0) (combine [10; 20; 30] [[1; 0]; [0; 2]; [0; 1]])) = [20; 30].
Proof. split; vm_compute; reflexivity. Qed.
